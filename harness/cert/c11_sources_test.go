package cert

// C11 conformance, real sources (spec/CertStore.tla, CertStore_MC!GenSSpec).
//
// The watcher histories TLC enumerates are replayed through the REAL certificate sources --
// PathSource (cert/path_source.go, loadPath, loadCertificates) over a temporary directory,
// HTTPSource (cert/http_source.go, loadURL) against an httptest server, FileSource for the
// static pair -- into the real TLSConfig.  After every load of the history the set the
// source published and the certificate tls.Config.GetCertificate presents for every probe
// name are compared with what the specification prescribes: the register holds the last Good
// content (RegIsLastGood), unusable material changes nothing (BadKeepsGood), a new Good
// content is in effect before the next load (TakesEffect), and two loads with no publication
// between them are at least refresh/3 apart (NoSpin; lower bound only).
//
// No step is decided by sleeping.  Path source: the certificate half of the first and the key half of the last
// certificate of every content are named pipes ("1-cert.pem", "9-key.pem"); the loader blocks
// in them (the first file and the last file the loader reads), which tells the harness "load j has begun" (first gate) and "load j has read
// every file" (last gate).  The directory is changed only while the loader is held in a gate:
// at the last gate of load j (everything read) or, when load j was aborted by an unreadable
// file, at the first gate of load j+1 (only the names have been listed; the contents may
// still change).  The outcome of load j is final when load j+1 arrives at its first gate.
// HTTP source: the server sees every request; the listing request of load j+1 is that gate.

import (
	"bytes"
	"crypto/tls"
	"crypto/x509"
	"encoding/json"
	"fmt"
	"net"
	"net/http"
	"net/http/httptest"
	"os"
	"path/filepath"
	"runtime"
	"sort"
	"strings"
	"sync"
	"sync/atomic"
	"syscall"
	"time"

	"github.com/fabiolb/fabio/internal/verifx"
)

type c11SrcCert struct {
	Cn     string   `json:"cn"`
	Sans   []string `json:"sans"`
	File   string   `json:"file"`
	Layout string   `json:"layout"`
	Mint   string   `json:"mint"`
}

type c11SrcStep struct {
	Kind    string     `json:"kind"`
	Content string     `json:"content"`
	Pub     string     `json:"pub"`
	At      int        `json:"at"`
	Reg     string     `json:"reg"`
	Q       []c11Query `json:"q"`
}

type c11SrcHistory struct {
	Sets   map[string][]c11SrcCert `json:"sets"`
	Hist   []c11SrcStep            `json:"hist"`
	Source string                  `json:"source,omitempty"` // replay: "path" | "http"
	Strict bool                    `json:"strict,omitempty"`
}

// ---------------------------------------------------------------- source states

// c11File is one file of a source state.
type c11File struct {
	data     []byte
	dangling bool // path: a symbolic link whose target does not exist (listed, unreadable)
	status   int  // http: answer with this status and an error page instead of the data
}

// c11State is what the source delivers in one load.
type c11State struct {
	files   map[string]c11File
	listing string // http: "", "404", "500", "garbage", "down"
}

func (s *c11State) names() []string {
	var n []string
	for k := range s.files {
		n = append(n, k)
	}
	sort.Strings(n)
	return n
}

func c11SrcMint(c c11SrcCert) *c11Minted { return c11Mint(c.Cn, c.Sans, "src"+c.Mint) }

func c11GoodState(certs []c11SrcCert) *c11State {
	st := &c11State{files: map[string]c11File{}}
	for _, c := range certs {
		m := c11SrcMint(c)
		if c.Layout == "combined" {
			st.files[c.File+".pem"] = c11File{data: append(append([]byte(nil), m.certPEM...), m.keyPEM...)}
		} else {
			st.files[c.File+"-cert.pem"] = c11File{data: m.certPEM}
			st.files[c.File+"-key.pem"] = c11File{data: m.keyPEM}
		}
	}
	return st
}

var c11BrokenPEM = []byte("-----BEGIN CERTIFICATE-----\nthis is not base64 !!\n-----END CERTIFICATE-----\n")

// c11DamagedState applies damage u to the content `base` (the working set, or the first
// content when nothing was published yet).  Only ONE certificate is damaged, the material of
// the others is delivered unchanged: the load is unusable, the working set must stay.
func c11DamagedState(base []c11SrcCert, u string) (*c11State, error) {
	st := c11GoodState(base)
	slot := func(prefs ...string) *c11SrcCert {
		for _, p := range prefs {
			for i := range base {
				if base[i].File == p {
					return &base[i]
				}
			}
		}
		return nil
	}
	certFile := func(c *c11SrcCert) string {
		if c.Layout == "combined" {
			return c.File + ".pem"
		}
		return c.File + "-cert.pem"
	}
	switch u {
	case "pem": // broken PEM in the certificate file
		c := slot("2", "3")
		st.files[certFile(c)] = c11File{data: c11BrokenPEM}
	case "nokey": // the key half is gone
		c := slot("3")
		delete(st.files, c.File+"-key.pem")
	case "foreign": // the key of another certificate
		c, o := slot("3"), slot("1")
		st.files[c.File+"-key.pem"] = c11File{data: c11SrcMint(*o).keyPEM}
	case "unread-c": // a combined file that is listed but cannot be read
		c := slot("2", "3")
		if c.Layout == "combined" {
			st.files[c.File+".pem"] = c11File{dangling: true}
		} else {
			st.files[c.File+"-cert.pem"] = c11File{dangling: true}
			st.files[c.File+"-key.pem"] = c11File{dangling: true}
		}
	case "unread-p": // both halves of a pair are listed but cannot be read
		c := slot("3")
		st.files[c.File+"-cert.pem"] = c11File{dangling: true}
		st.files[c.File+"-key.pem"] = c11File{dangling: true}
	case "big": // a file beyond the size the source accepts
		c := slot("2", "3")
		f := st.files[certFile(c)]
		f.data = append(append([]byte(nil), f.data...), bytes.Repeat([]byte("# padding padding padding padding\n"), (MaxSize/34)+64)...)
		st.files[certFile(c)] = f
	case "file404": // http: listed, but the server does not have it
		c := slot("2", "3")
		st.files[certFile(c)] = c11File{status: 404}
	case "file500": // http: listed, the server fails
		c := slot("3")
		st.files[c.File+"-key.pem"] = c11File{status: 500}
	case "kv500": // consul: the KV store cannot be queried
		st.listing = "kv500"
	case "list404", "list500", "listgarbage", "down": // http: the listing itself is unavailable
		st.listing = strings.TrimPrefix(u, "list")
	default:
		return nil, fmt.Errorf("unknown damage %q", u)
	}
	return st, nil
}

// c11SrcStates turns a history into the sequence of source states.
func c11SrcStates(h *c11SrcHistory) ([]*c11State, error) {
	var out []*c11State
	last := ""
	first := ""
	for _, k := range []string{"A", "B", "As"} {
		if _, ok := h.Sets[k]; ok {
			first = k
			break
		}
	}
	for _, s := range h.Hist {
		switch s.Kind {
		case "good", "rename": // rename: the files of the published content under permuted names (CertStore!LoadRenamed)
			out = append(out, c11GoodState(h.Sets[s.Content]))
		case "same":
			out = append(out, c11GoodState(h.Sets[last]))
		default:
			base := last
			if base == "" {
				base = first
			}
			st, err := c11DamagedState(h.Sets[base], s.Content)
			if err != nil {
				return nil, err
			}
			out = append(out, st)
		}
		if s.Pub != "" {
			last = s.Pub
		}
	}
	return out, nil
}

// ---------------------------------------------------------------- the observed source

// c11Observed wraps a real Source: what it publishes is taken from its channel by the harness
// (in order, nothing is missed) and handed to the real TLSConfig goroutine; after drain()
// returns, everything published so far has been stored.
type c11Observed struct {
	inner Source
	mu    sync.Mutex
	in    chan []tls.Certificate
	out   chan []tls.Certificate
}

func (o *c11Observed) input() chan []tls.Certificate {
	o.mu.Lock()
	defer o.mu.Unlock()
	return o.in
}

func (o *c11Observed) LoadClientCAs() (*x509.CertPool, error) { return o.inner.LoadClientCAs() }
func (o *c11Observed) Certificates() chan []tls.Certificate {
	in := o.inner.Certificates()
	o.mu.Lock()
	o.in = in
	o.mu.Unlock()
	return o.out
}

func (o *c11Observed) drain() (pubs [][]tls.Certificate) {
	in := o.input()
	for {
		select {
		case cs, ok := <-in:
			if !ok {
				return
			}
			pubs = append(pubs, cs)
			o.out <- cs
			o.out <- cs
		default:
			return
		}
	}
}

type c11SrcReport func(clause, kind, damage, got, msg string)

// c11JudgeStep compares the outcome of one load with the specification.
func c11JudgeStep(h *c11SrcHistory, j int, pubs [][]tls.Certificate, cfg *tls.Config, strict bool, report c11SrcReport) (evals int) {
	step := h.Hist[j]
	damage := ""
	if step.Kind == "unusable" || step.Kind == "error" {
		damage = step.Content
	}
	ders := func(certs []c11SrcCert) [][]byte {
		var d [][]byte
		for _, c := range certs {
			d = append(d, c11SrcMint(c).cert.Certificate[0])
		}
		return d
	}
	describe := func(cs []tls.Certificate) string {
		var n []string
		for _, c := range cs {
			n = append(n, c11LeafName(h, c.Certificate[0]))
		}
		return "[" + strings.Join(n, " ") + "]"
	}
	switch {
	case step.Pub == "" && len(pubs) > 0:
		got := "other-set"
		if len(pubs[0]) == 0 {
			got = "empty-set"
		} else if step.Reg != "" && len(pubs[0]) < len(h.Sets[step.Reg]) {
			got = "smaller-set"
		}
		report("publish", step.Kind, damage, got, fmt.Sprintf("load %d (%s %s) published %s; the material is unusable, the working set %q must stay", j+1, step.Kind, step.Content, describe(pubs[0]), step.Reg))
	case step.Pub != "" && len(pubs) != 1:
		report("publish", step.Kind, damage, fmt.Sprintf("%d-publications", len(pubs)), fmt.Sprintf("load %d (%s %s): %d publications before the next load, want exactly one", j+1, step.Kind, step.Content, len(pubs)))
	case step.Pub != "":
		want := ders(h.Sets[step.Pub])
		ok := len(pubs[0]) == len(want)
		for i := 0; ok && i < len(want); i++ {
			ok = len(pubs[0][i].Certificate) > 0 && bytes.Equal(pubs[0][i].Certificate[0], want[i])
		}
		if !ok {
			report("publish", step.Kind, damage, "other-set", fmt.Sprintf("load %d (%s %s) published %s, want the set %s in alphabetical file order", j+1, step.Kind, step.Content, describe(pubs[0]), step.Pub))
		}
	}
	// what a client is presented now
	reg := ders(h.Sets[step.Reg])
	for _, q := range step.Q {
		want := q.Lax
		if strict {
			want = q.Strict
		}
		got, _ := cfg.GetCertificate(&tls.ClientHelloInfo{ServerName: strings.Join(q.Sni, ".")})
		evals++
		gi := 0
		if got != nil {
			gi = -1
			for i := range reg {
				if len(got.Certificate) > 0 && bytes.Equal(got.Certificate[0], reg[i]) {
					gi = i + 1
				}
			}
		}
		if gi != want {
			g := "other-certificate"
			if gi == 0 {
				g = "none"
			} else if gi == -1 {
				g = "certificate-of-another-set"
			}
			who := "none"
			if got != nil && len(got.Certificate) > 0 {
				who = c11LeafName(h, got.Certificate[0])
			}
			report("present", step.Kind, damage, g, fmt.Sprintf("after load %d (%s %s) a client asking for %q (strict=%v) is presented %s; the set in effect is %q, Select prescribes certificate %d of it",
				j+1, step.Kind, step.Content, strings.Join(q.Sni, "."), strict, who, step.Reg, want))
			break
		}
	}
	return evals
}

func c11LeafName(h *c11SrcHistory, der []byte) string {
	for id, certs := range h.Sets {
		for _, c := range certs {
			if bytes.Equal(c11SrcMint(c).cert.Certificate[0], der) {
				n := c.Cn
				if n == "" {
					n = strings.Join(c.Sans, ",")
				}
				return id + ":" + c.File + "(" + n + ")"
			}
		}
	}
	return "?"
}

// ---------------------------------------------------------------- path source

type c11GateEv struct {
	first bool
	w     *os.File
	at    time.Time
}

type c11PathRun struct {
	dir    string
	events chan c11GateEv
}

func (r *c11PathRun) arm(first bool) {
	name := "9-key.pem"
	if first {
		name = "1-cert.pem"
	}
	p := filepath.Join(r.dir, name)
	go func() {
		f, err := os.OpenFile(p, os.O_WRONLY, 0) // returns when the loader opens the pipe for reading
		if err != nil {
			return
		}
		r.events <- c11GateEv{first: first, w: f, at: time.Now()}
	}()
}

// pass lets the loader continue: the pipe is replaced by a fresh one (so that the next open
// can only meet the next load), then the key is delivered through the old one.
func (r *c11PathRun) pass(ev c11GateEv, data []byte) error {
	name := "9-key.pem"
	if ev.first {
		name = "1-cert.pem"
	}
	p := filepath.Join(r.dir, name)
	os.Remove(p)
	if err := syscall.Mkfifo(p, 0600); err != nil {
		return err
	}
	r.arm(ev.first)
	ev.w.Write(data)
	return ev.w.Close()
}

func c11IsGate(name string) bool { return name == "1-cert.pem" || name == "9-key.pem" }

// apply makes the directory hold state st (the gates stay pipes).
func (r *c11PathRun) apply(st *c11State) error {
	ents, err := os.ReadDir(r.dir)
	if err != nil {
		return err
	}
	for _, e := range ents {
		if c11IsGate(e.Name()) {
			continue
		}
		if _, ok := st.files[e.Name()]; !ok {
			if err := os.Remove(filepath.Join(r.dir, e.Name())); err != nil {
				return err
			}
		}
	}
	for name, f := range st.files {
		if c11IsGate(name) {
			continue
		}
		p := filepath.Join(r.dir, name)
		if f.dangling {
			os.Remove(p)
			if err := os.Symlink(filepath.Join(r.dir, "..", "not-written-yet", name), p); err != nil {
				return err
			}
			continue
		}
		if fi, err := os.Lstat(p); err == nil && fi.Mode()&os.ModeSymlink != 0 {
			os.Remove(p)
		}
		if old, err := os.ReadFile(p); err == nil && bytes.Equal(old, f.data) {
			continue
		}
		if err := os.WriteFile(p, f.data, 0600); err != nil {
			return err
		}
	}
	return nil
}

const c11GateTimeout = 90 * time.Second

var errC11Unsteppable = fmt.Errorf("unsteppable")

// c11RunPath replays one history through a real PathSource.
func c11RunPath(h *c11SrcHistory, strict bool, root string, report c11SrcReport) (loads, evals int, err error) {
	states, err := c11SrcStates(h)
	if err != nil {
		return 0, 0, err
	}
	for _, st := range states {
		if _, ok := st.files["1-cert.pem"]; !ok {
			return 0, 0, fmt.Errorf("content without the gate certificate 1")
		}
		if _, ok := st.files["9-key.pem"]; !ok {
			return 0, 0, fmt.Errorf("content without the gate certificate 9")
		}
	}
	dir, err := os.MkdirTemp(root, "path")
	if err != nil {
		return 0, 0, err
	}
	r := &c11PathRun{dir: dir, events: make(chan c11GateEv, 4)}
	for _, g := range []string{"1-cert.pem", "9-key.pem"} {
		if err := syscall.Mkfifo(filepath.Join(dir, g), 0600); err != nil {
			return 0, 0, err
		}
	}
	if err := r.apply(states[0]); err != nil {
		return 0, 0, err
	}
	r.arm(true)
	r.arm(false)
	obs := &c11Observed{inner: PathSource{CertPath: dir, Refresh: c11Refresh}, out: make(chan []tls.Certificate)}
	cfg, err := TLSConfig(obs, strict, 0, 0, nil)
	if err != nil {
		return 0, 0, err
	}
	defer func() {
		// let everything blocked in a pipe go, then remove the directory
		for _, g := range []string{"1-cert.pem", "9-key.pem"} {
			if f, e := os.OpenFile(filepath.Join(dir, g), os.O_RDWR|syscall.O_NONBLOCK, 0); e == nil {
				defer f.Close()
			}
		}
		go func() {
			for range r.events {
			}
		}()
		time.AfterFunc(2*time.Second, func() { os.RemoveAll(dir) })
	}()

	n := len(states)
	cur := 0          // index of the state in the directory
	reading := -1     // index of the state the load in progress reads (-1: none)
	complete := false // the load in progress passed the last gate
	var ended time.Time
	next := func() (c11GateEv, error) {
		select {
		case ev := <-r.events:
			return ev, nil
		case <-time.After(c11GateTimeout):
			return c11GateEv{}, fmt.Errorf("the path source did not come back to load the directory within %v", c11GateTimeout)
		}
	}
	for {
		ev, err := next()
		if err != nil {
			return loads, evals, err
		}
		if !ev.first { // last gate: the load has read every file of state `reading`
			if reading < 0 {
				return loads, evals, fmt.Errorf("last gate without first gate")
			}
			complete = true
			key := states[reading].files["9-key.pem"].data
			if reading+1 < n {
				cur = reading + 1
				if err := r.apply(states[cur]); err != nil {
					return loads, evals, err
				}
			}
			if err := r.pass(ev, key); err != nil {
				return loads, evals, err
			}
			ended = time.Now()
			continue
		}
		// first gate: a load begins, the previous one is over and its outcome final
		if reading >= 0 {
			pubs := obs.drain()
			// pace
			if h.Hist[reading].Pub == "" && len(pubs) == 0 && !ended.IsZero() {
				if gap := ev.at.Sub(ended); gap < c11Refresh/3 {
					report("spin", h.Hist[reading].Kind, h.Hist[reading].Content, "", fmt.Sprintf("load %d (%s %s) published nothing, yet the directory was loaded again after %v (refresh %v)", reading+1, h.Hist[reading].Kind, h.Hist[reading].Content, gap, c11Refresh))
				}
			}
			wasComplete, gateAt := complete, ev.at
			evals += c11JudgeStep(h, reading, pubs, cfg, strict, func(clause, kind, damage, got, msg string) {
				ents, _ := os.ReadDir(r.dir)
				var names []string
				for _, e := range ents {
					names = append(names, e.Name())
				}
				report(clause, kind, damage, got, fmt.Sprintf("%s [the load read up to its last file: %v; %v between the end of the load and the next one; directory now: %v]", msg, wasComplete, gateAt.Sub(ended), names))
			})
			loads++
			if reading+1 >= n {
				return loads, evals, nil
			}
			if !complete {
				// the load was aborted (a file could not be read): the directory still holds
				// state `reading`; this load has listed its names only
				// (the contents may change under it, the set of names may not: the harness gives
				// such a history up rather than let the loader see a state that never existed)
				nxt := states[reading+1]
				if strings.Join(states[reading].names(), " ") != strings.Join(nxt.names(), " ") {
					return loads, evals, errC11Unsteppable
				}
				cur = reading + 1
				if err := r.apply(nxt); err != nil {
					return loads, evals, err
				}
			}
		}
		reading = cur
		complete = false
		if err := r.pass(ev, states[reading].files["1-cert.pem"].data); err != nil {
			return loads, evals, err
		}
		ended = time.Now()
	}
}

// ---------------------------------------------------------------- http source

var c11HTTPSeq int64

func c11RunHTTP(h *c11SrcHistory, strict bool, report c11SrcReport) (loads, evals int, err error) {
	states, err := c11SrcStates(h)
	if err != nil {
		return 0, 0, err
	}
	n := len(states)
	var mu sync.Mutex
	var obs *c11Observed
	var cfg *tls.Config
	load := 0 // number of listing requests seen
	var snap *c11State
	var lastReq time.Time
	t0 := time.Now()
	var reqlog []string
	finished := make(chan struct{})
	var once sync.Once
	park := make(chan struct{})
	drop := func(w http.ResponseWriter) {
		if hj, ok := w.(http.Hijacker); ok {
			if c, _, e := hj.Hijack(); e == nil {
				if tc, ok := c.(*net.TCPConn); ok {
					tc.SetLinger(0)
				}
				c.Close()
			}
		}
	}
	// Watchers of finished histories live on and poll their old address, which the kernel may
	// hand to a new server: every history serves under its own path token and ignores the rest.
	tok := fmt.Sprintf("/h%d-", atomic.AddInt64(&c11HTTPSeq, 1))
	srv := httptest.NewServer(http.HandlerFunc(func(w http.ResponseWriter, r *http.Request) {
		if !strings.HasPrefix(r.URL.Path, tok) {
			http.NotFound(w, r)
			return
		}
		r.URL.Path = "/" + strings.TrimPrefix(strings.TrimPrefix(r.URL.Path, tok), "/")
		mu.Lock()
		reqlog = append(reqlog, fmt.Sprintf("%dms %s", time.Since(t0)/time.Millisecond, r.URL.Path))
		if r.URL.Path == "/list" {
			now := time.Now()
			if load >= 1 && load <= n { // load `load` is over: judge it
				j := load - 1
				pubs := obs.drain()
				if h.Hist[j].Pub == "" && len(pubs) == 0 {
					if gap := now.Sub(lastReq); gap < c11Refresh/3 {
						report("spin", h.Hist[j].Kind, h.Hist[j].Content, "", fmt.Sprintf("load %d (%s %s) published nothing, yet the listing was fetched again after %v (refresh %v); requests: %v", j+1, h.Hist[j].Kind, h.Hist[j].Content, gap, c11Refresh, reqlog))
					}
				}
				evals += c11JudgeStep(h, j, pubs, cfg, strict, report)
				loads++
			}
			load++
			if load > n {
				mu.Unlock()
				once.Do(func() { close(finished) })
				<-park
				drop(w)
				return
			}
			snap = states[load-1]
			lastReq = now
			st := snap
			mu.Unlock()
			switch st.listing {
			case "404":
				http.NotFound(w, r)
			case "500":
				w.WriteHeader(http.StatusInternalServerError)
			case "garbage":
				w.Header().Set("Content-Type", "text/html")
				fmt.Fprint(w, "<html><body><h1>Down for maintenance</h1></body></html>\n")
			case "down": // the connection breaks in the middle of the answer (nothing the client would retry)
				if hj, ok := w.(http.Hijacker); ok {
					if c, buf, e := hj.Hijack(); e == nil {
						buf.WriteString("HTTP/1.1 200 OK\r\nContent-Type: text/plain\r\nContent-Length: 4096\r\n\r\n1-cert.pem\n")
						buf.Flush()
						c.Close()
					}
				}
			default:
				fmt.Fprint(w, strings.Join(st.names(), "\n")+"\n")
			}
			return
		}
		st := snap
		lastReq = time.Now()
		mu.Unlock()
		var f c11File
		ok := false
		if st != nil {
			f, ok = st.files[strings.TrimPrefix(r.URL.Path, "/")]
		}
		switch {
		case !ok || f.status == 404:
			http.NotFound(w, r)
		case f.status != 0:
			w.WriteHeader(f.status)
		default:
			w.Write(f.data)
		}
	}))
	defer func() {
		close(park)
		srv.CloseClientConnections()
		srv.Close()
	}()
	mu.Lock()
	obs = &c11Observed{inner: HTTPSource{CertURL: srv.URL + tok + "/list", Refresh: c11Refresh}, out: make(chan []tls.Certificate)}
	cfg, err = TLSConfig(obs, strict, 0, 0, nil)
	mu.Unlock()
	if err != nil {
		return 0, 0, err
	}
	select {
	case <-finished:
	case <-time.After(c11GateTimeout + time.Duration(n)*10*c11Refresh):
		mu.Lock()
		defer mu.Unlock()
		return loads, evals, fmt.Errorf("the http source did not come back to fetch the listing (saw %d of %d loads)", load, n)
	}
	mu.Lock()
	defer mu.Unlock()
	return loads, evals, nil
}

// ---------------------------------------------------------------- consul source

// c11RunConsul replays one history through a real ConsulSource against verifx.KVFake.
// A load is a change of the KV store (every write moves the index, also the re-upload of
// identical files = "same"); the watcher has processed it when its next blocking query parks
// at the current index.  A watcher that keeps asking with a stale index never parks: more
// than 25 queries without catching up is a spin (a count, not a time).  The source converts
// what it listed in a second goroutine, so publications are read as an ordered stream: the
// next publication that differs from the set in effect must be the next good content of the
// history (re-publishing the set in effect is unobservable and ignored); a final good load
// flushes the stream.
func c11RunConsul(h *c11SrcHistory, strict bool, report c11SrcReport) (loads, evals int, err error) {
	states, err := c11SrcStates(h)
	if err != nil {
		return 0, 0, err
	}
	// (its own prefix: watchers of finished histories keep polling their old address, which the
	// kernel may hand to the fake of a later history)
	kv := verifx.NewKVFake(fmt.Sprintf("fabio/cert-%d", atomic.AddInt64(&c11HTTPSeq, 1)))
	defer kv.Close()
	obs := &c11Observed{inner: ConsulSource{CertURL: kv.URL()}, out: make(chan []tls.Certificate)}
	cfg, err := TLSConfig(obs, strict, 0, 0, nil)
	if err != nil {
		return 0, 0, err
	}
	var in chan []tls.Certificate
	for in == nil {
		if in = obs.input(); in == nil {
			runtime.Gosched()
		}
	}
	ders := func(id string) [][]byte {
		var d [][]byte
		for _, c := range h.Sets[id] {
			d = append(d, c11SrcMint(c).cert.Certificate[0])
		}
		return d
	}
	same := func(cs []tls.Certificate, want [][]byte) bool {
		if len(cs) != len(want) {
			return false
		}
		for i := range want {
			if len(cs[i].Certificate) == 0 || !bytes.Equal(cs[i].Certificate[0], want[i]) {
				return false
			}
		}
		return true
	}
	reg := ""
	// next returns the next publication that differs from the set in effect
	next := func(wait time.Duration) (cs []tls.Certificate, ok bool) {
		var tm <-chan time.Time
		if wait > 0 {
			t := time.NewTimer(wait)
			defer t.Stop()
			tm = t.C
		}
		for {
			if wait > 0 {
				select {
				case cs = <-in:
				case <-tm:
					return nil, false
				}
			} else {
				select {
				case cs = <-in:
				default:
					return nil, false
				}
			}
			if same(cs, ders(reg)) {
				continue
			}
			return cs, true
		}
	}
	store := func(cs []tls.Certificate) { obs.out <- cs; obs.out <- cs }
	if ok, _ := kv.WaitCaughtUp(25, c11GateTimeout); !ok {
		return 0, 0, fmt.Errorf("the consul source did not issue its first blocking query")
	}
	var silent []int // steps since the last publication that must not publish
	for j, st := range states {
		step := h.Hist[j]
		nq := len(kv.Queries())
		t0 := time.Now()
		if st.listing == "kv500" {
			kv.Fail(2)
		} else {
			files := map[string][]byte{}
			for n, f := range st.files {
				files[n] = f.data
			}
			kv.Put(files)
		}
		ok, asked := kv.WaitCaughtUp(25, c11GateTimeout)
		loads++
		if !ok && asked > 25 {
			qs := kv.Queries()
			lastq := qs[len(qs)-1]
			dmg := ""
			if step.Kind == "unusable" || step.Kind == "error" {
				dmg = step.Content
			}
			report("spin", step.Kind, dmg, "", fmt.Sprintf("after load %d (%s %s) the consul source sent %d list queries in %v without catching up: it keeps waiting for index %d while the store is at %d, so every query returns at once",
				j+1, step.Kind, step.Content, asked, time.Since(t0), lastq.Index, lastq.Cur))
			return loads, evals, nil
		}
		if !ok {
			return loads, evals, fmt.Errorf("the consul source did not come back with a blocking query after load %d (%s %s)", j+1, step.Kind, step.Content)
		}
		if st.listing == "kv500" { // pace of the retries while the store cannot be queried
			qs := kv.Queries()[nq:]
			prev := t0
			for _, q := range qs {
				if gap := q.At.Sub(prev); gap < c11Refresh/3 {
					var ql []string
					for _, x := range qs {
						ql = append(ql, fmt.Sprintf("+%v index=%d store=%d", x.At.Sub(t0).Round(time.Millisecond), x.Index, x.Cur))
					}
					report("spin", step.Kind, step.Content, "", fmt.Sprintf("load %d (%s %s): the failing store was queried again after %v; queries since the failure began: %v", j+1, step.Kind, step.Content, gap, ql))
					return loads, evals, nil
				}
				prev = q.At
			}
		}
		if step.Pub == "" {
			silent = append(silent, j)
			if cs, got := next(0); got {
				evals += c11JudgeStep(h, j, [][]tls.Certificate{cs}, cfg, strict, report)
				return loads, evals, nil
			}
			continue
		}
		cs, got := next(c11GateTimeout)
		if !got {
			evals += c11JudgeStep(h, j, nil, cfg, strict, report)
			return loads, evals, nil
		}
		if !same(cs, ders(step.Pub)) && len(silent) > 0 {
			// something else came first: one of the loads that must not publish did
			k := silent[len(silent)-1]
			evals += c11JudgeStep(h, k, [][]tls.Certificate{cs}, cfg, strict, report)
			return loads, evals, nil
		}
		store(cs)
		reg = step.Pub
		silent = nil
		evals += c11JudgeStep(h, j, [][]tls.Certificate{cs}, cfg, strict, report)
	}
	if len(silent) > 0 { // flush: one more good load; nothing may come before its publication
		flush := ""
		for _, id := range []string{"A", "B", "As"} {
			if _, ok := h.Sets[id]; ok && id != reg {
				flush = id
				break
			}
		}
		files := map[string][]byte{}
		for n, f := range c11GoodState(h.Sets[flush]).files {
			files[n] = f.data
		}
		kv.Put(files)
		cs, got := next(c11GateTimeout)
		if !got {
			return loads, evals, fmt.Errorf("the consul source did not publish the flushing content %s", flush)
		}
		if !same(cs, ders(flush)) {
			k := silent[len(silent)-1]
			evals += c11JudgeStep(h, k, [][]tls.Certificate{cs}, cfg, strict, report)
		}
	}
	return loads, evals, nil
}

// ---------------------------------------------------------------- driver of both

var c11Reruns int64 // histories of the real sources that were run a second time

func c11SourcesPart(envName, source string, selftest bool) (cases, loads, evals, nontrivial, skipped int64, samples []string, rejected bool) {
	hs, err := verifx.ReadCases[c11SrcHistory](envName)
	if err != nil {
		verifx.Emit(map[string]any{"kind": "error", "msg": source + " histories: " + err.Error()})
		return
	}
	root, err := os.MkdirTemp(os.Getenv("VERIF_TMP"), "c11src")
	if err != nil {
		verifx.Emit(map[string]any{"kind": "error", "msg": err.Error()})
		return
	}
	defer os.RemoveAll(root)
	sem := make(chan struct{}, verifx.EnvInt("VERIF_SRC_PARALLEL", 120))
	var wg sync.WaitGroup
	var mu sync.Mutex
	for i := range hs {
		h := &hs[i]
		src := source
		if h.Source != "" {
			src = h.Source
		}
		strict := (int64(i)+verifx.Seed())%2 == 1
		if h.Source != "" {
			strict = h.Strict
		}
		cases++
		kinds := map[string]bool{}
		for _, s := range h.Hist {
			kinds[s.Kind] = true
		}
		if len(kinds) >= 2 {
			nontrivial++
		}
		if i%53 == 7 && len(samples) < 2 {
			b, _ := json.Marshal(h.Hist)
			s := string(b)
			if len(s) > 400 {
				s = s[:400] + "..."
			}
			samples = append(samples, src+": "+s)
		}
		wg.Add(1)
		sem <- struct{}{}
		go func() {
			defer wg.Done()
			defer func() { <-sem }()
			// A history that disagrees is run a second time from scratch (fresh directory / server /
			// source); it is reported when it disagrees again.  The real sources run against the
			// machine's file system, sockets and scheduler: a defect of the code shows every time, a
			// one-off environmental failure of a load does not.
			type finding struct{ clause, kind, damage, got, msg string }
			var l, e int
			var err error
			var found *finding
			for attempt := 0; attempt < 2; attempt++ {
				var first *finding
				report := func(clause, kind, damage, got, msg string) {
					if first == nil { // after the first disagreement the specification's later expectations are moot
						first = &finding{clause, kind, damage, got, msg}
					}
				}
				if src == "http" {
					l, e, err = c11RunHTTP(h, strict, report)
				} else if src == "consul" {
					l, e, err = c11RunConsul(h, strict, report)
				} else {
					l, e, err = c11RunPath(h, strict, root, report)
				}
				found = first
				if first == nil || selftest {
					break
				}
				if attempt == 0 {
					atomic.AddInt64(&c11Reruns, 1)
					verifx.Emit(map[string]any{"kind": "note", "msg": fmt.Sprintf("%s source, history %s disagreed once (%s): running it again", src, c11SrcHistString(h), first.msg)})
				}
			}
			if found != nil {
				if selftest {
					mu.Lock()
					rejected = true
					mu.Unlock()
				} else {
					hh := *h
					hh.Source, hh.Strict = src, strict
					f := map[string]any{"sub": "source", "source": src, "clause": found.clause, "kind": found.kind}
					if found.damage != "" {
						f["damage"] = found.damage
					}
					if found.got != "" {
						f["got"] = found.got
					}
					verifx.Fail(hh, f, "%s source, history %s: %s", src, c11SrcHistString(h), found.msg)
				}
			}
			atomic.AddInt64(&loads, int64(l))
			atomic.AddInt64(&evals, int64(e))
			if err == errC11Unsteppable {
				atomic.AddInt64(&skipped, 1)
			} else if err != nil {
				verifx.Emit(map[string]any{"kind": "error", "msg": fmt.Sprintf("%s source, history %s: %v", src, c11SrcHistString(h), err)})
			}
		}()
	}
	wg.Wait()
	return
}

func c11SrcHistString(h *c11SrcHistory) string {
	var s []string
	for _, l := range h.Hist {
		s = append(s, l.Kind+":"+l.Content)
	}
	return strings.Join(s, " ")
}

// ---------------------------------------------------------------- file source

// c11FilePart: the static source.  Every single-certificate Select case is written as a
// certificate/key pair (or one combined file) and served by a real FileSource.
func c11FilePart(envName string) (cases, evals int64) {
	root, err := os.MkdirTemp(os.Getenv("VERIF_TMP"), "c11file")
	if err != nil {
		verifx.Emit(map[string]any{"kind": "error", "msg": err.Error()})
		return
	}
	defer os.RemoveAll(root)
	err = verifx.EachCase(envName, func(raw []byte) error {
		var c c11SelCase
		if err := json.Unmarshal(raw, &c); err != nil || len(c.Set) != 1 {
			return fmt.Errorf("bad file-source case: %v", err)
		}
		cases++
		m := c11Mint(c.Set[0].Cn, c.Set[0].Sans, "sel")
		dir, err := os.MkdirTemp(root, "f")
		if err != nil {
			return err
		}
		src := FileSource{CertFile: filepath.Join(dir, "the-cert.pem"), KeyFile: filepath.Join(dir, "the-key.pem")}
		if cases%2 == 0 { // one combined file, no key file configured
			src = FileSource{CertFile: filepath.Join(dir, "both.pem")}
			if err := os.WriteFile(src.CertFile, append(append([]byte(nil), m.certPEM...), m.keyPEM...), 0600); err != nil {
				return err
			}
		} else {
			if err := os.WriteFile(src.CertFile, m.certPEM, 0600); err != nil {
				return err
			}
			if err := os.WriteFile(src.KeyFile, m.keyPEM, 0600); err != nil {
				return err
			}
		}
		for _, strict := range []bool{false, true} {
			obs := &c11Observed{inner: src, out: make(chan []tls.Certificate)}
			cfg, err := TLSConfig(obs, strict, 0, 0, nil)
			if err != nil {
				return err
			}
			var pubs [][]tls.Certificate
			var in chan []tls.Certificate
			for in == nil { // TLSConfig asks the source for its channel in a goroutine
				if in = obs.input(); in == nil {
					runtime.Gosched()
				}
			}
			for cs := range in { // a static source: one set, then the channel is closed
				pubs = append(pubs, cs)
				obs.out <- cs
				obs.out <- cs
			}
			close(obs.out)
			feat := func(clause, got string) map[string]any {
				return map[string]any{"sub": "source", "source": "file", "clause": clause, "got": got, "strict": strict}
			}
			if len(pubs) != 1 || len(pubs[0]) != 1 || !bytes.Equal(pubs[0][0].Certificate[0], m.cert.Certificate[0]) {
				verifx.Fail(c, feat("publish", "other-set"), "file source %+v published %d sets, want exactly the configured certificate", c.Set[0], len(pubs))
				continue
			}
			for _, q := range c.Q {
				want := q.Lax
				if strict {
					want = q.Strict
				}
				got, _ := cfg.GetCertificate(&tls.ClientHelloInfo{ServerName: strings.Join(q.Sni, ".")})
				evals++
				gi := 0
				if got != nil {
					gi = -1
					if len(got.Certificate) > 0 && bytes.Equal(got.Certificate[0], m.cert.Certificate[0]) {
						gi = 1
					}
				}
				if gi != want {
					verifx.Fail(c11SelCase{Set: c.Set, Q: []c11Query{q}}, feat("present", fmt.Sprint(gi)), "file source %+v, server name %q, strict=%v: presented %d, Select prescribes %d", c.Set[0], strings.Join(q.Sni, "."), strict, gi, want)
				}
			}
		}
		return nil
	})
	if err != nil {
		verifx.Emit(map[string]any{"kind": "error", "msg": "file source: " + err.Error()})
	}
	return
}
