package cert

// C11 conformance (spec/CertStore.tla).
//
//  select : every certificate set TLC enumerated (CertStore_MC!SelSpec) is minted as real
//           X.509 certificates, published through the real TLSConfig goroutine
//           (scripted Source -> Store.SetCertificates) and asked for every server name of the
//           universe through tls.Config.GetCertificate; the returned leaf must be the one
//           Select prescribes (strict and non-strict listeners).
//  watch  : every complete watcher history TLC enumerated (CertStore_MC!GenWSpec) drives the
//           real `watch` with a scripted loadFn (refresh = 1 s, the code's floor): what is
//           published after each load, and the time between two loads without a
//           publication between them (the property "nor spins" IS a time bound: a gap
//           below refresh/3 fails; slower never fails).
//  trace  : a writer replaces the set through the real Source -> TLSConfig goroutine while
//           8 goroutines perform real TLS handshakes (tls.Client <-> tls.Server over
//           net.Pipe); Inv/Ret events with verifx tickets are written for
//           CertStore_Trace.tla.

import (
	"bufio"
	"bytes"
	"crypto/ecdsa"
	"crypto/elliptic"
	"crypto/rand"
	"crypto/tls"
	"crypto/x509"
	"crypto/x509/pkix"
	"encoding/json"
	"encoding/pem"
	"errors"
	"fmt"
	"math/big"
	mrand "math/rand"
	"net"
	"os"
	"runtime"
	"sort"
	"strings"
	"sync"
	"sync/atomic"
	"testing"
	"time"

	"github.com/fabiolb/fabio/internal/verifx"
)

// ---------------------------------------------------------------- certificate factory

type c11Minted struct {
	cert    tls.Certificate
	certPEM []byte
	keyPEM  []byte
}

var (
	c11MintMu    sync.Mutex
	c11MintCache = map[string]*c11Minted{}
	c11Serial    int64
)

// c11Mint returns a real self-signed ECDSA P-256 certificate for (cn, sans); salt
// distinguishes certificates with equal names (cached per test process).
func c11Mint(cn string, sans []string, salt string) *c11Minted {
	key := salt + "|" + cn + "|" + strings.Join(sans, ",")
	c11MintMu.Lock()
	defer c11MintMu.Unlock()
	if m, ok := c11MintCache[key]; ok {
		return m
	}
	k, err := ecdsa.GenerateKey(elliptic.P256(), rand.Reader)
	if err != nil {
		panic(err)
	}
	c11Serial++
	tmpl := &x509.Certificate{
		SerialNumber: big.NewInt(1000 + c11Serial),
		Subject:      pkix.Name{CommonName: cn, Organization: []string{"verif " + salt}},
		DNSNames:     sans,
		NotBefore:    time.Now().Add(-time.Hour),
		NotAfter:     time.Now().Add(24 * time.Hour),
		KeyUsage:     x509.KeyUsageDigitalSignature,
		ExtKeyUsage:  []x509.ExtKeyUsage{x509.ExtKeyUsageServerAuth},
	}
	der, err := x509.CreateCertificate(rand.Reader, tmpl, tmpl, &k.PublicKey, k)
	if err != nil {
		panic(err)
	}
	kb, err := x509.MarshalECPrivateKey(k)
	if err != nil {
		panic(err)
	}
	m := &c11Minted{
		cert:    tls.Certificate{Certificate: [][]byte{der}, PrivateKey: k},
		certPEM: pem.EncodeToMemory(&pem.Block{Type: "CERTIFICATE", Bytes: der}),
		keyPEM:  pem.EncodeToMemory(&pem.Block{Type: "EC PRIVATE KEY", Bytes: kb}),
	}
	// the factory is part of the trusted base: what it mints must parse back to the names asked for
	x, err := x509.ParseCertificate(der)
	if err != nil || x.Subject.CommonName != cn || strings.Join(x.DNSNames, ",") != strings.Join(sans, ",") {
		panic(fmt.Sprintf("c11Mint: minted certificate does not carry cn=%q sans=%q: %v", cn, sans, err))
	}
	c11MintCache[key] = m
	return m
}

// c11Source is the scripted certificate source.
type c11Source struct{ ch chan []tls.Certificate }

func (s *c11Source) Certificates() chan []tls.Certificate   { return s.ch }
func (s *c11Source) LoadClientCAs() (*x509.CertPool, error) { return nil, nil }

// c11Publish hands a set to the TLSConfig goroutine and returns when it has been stored: the
// goroutine takes the next value from the unbuffered channel only after SetCertificates of
// the previous one returned, so the set is sent twice (storing it twice is unobservable).
func c11Publish(src *c11Source, certs []tls.Certificate) {
	src.ch <- certs
	src.ch <- certs
}

func c11LeafIndex(set []tls.Certificate, got *tls.Certificate) int {
	if got == nil {
		return 0
	}
	for i := range set {
		if len(got.Certificate) > 0 && bytes.Equal(got.Certificate[0], set[i].Certificate[0]) {
			return i + 1
		}
	}
	return -1
}

// ---------------------------------------------------------------- select

type c11CertJSON struct {
	Cn   string   `json:"cn"`
	Sans []string `json:"sans"`
	Mint string   `json:"mint,omitempty"` // which minted key pair ("" = the current one)
}
type c11Query struct {
	Sni    []string `json:"sni"`
	Lax    int      `json:"lax"`
	Strict int      `json:"strict"`
}
type c11SelCase struct {
	Set  []c11CertJSON `json:"set"`
	Prev []c11CertJSON `json:"prev,omitempty"` // the set published on the same listener before Set
	Q    []c11Query    `json:"q"`
}

func c11SniClass(labels []string) string {
	if len(labels) == 0 {
		return "absent"
	}
	s := strings.Join(labels, ".")
	cl := "plain"
	if strings.Trim(s, ".") == "" {
		return "dots-only"
	}
	if s != strings.ToLower(s) {
		cl = "upper"
	}
	if strings.HasSuffix(s, ".") {
		cl += "+dots"
	}
	if strings.HasPrefix(s, "*") {
		cl = "literal-wildcard"
	}
	return cl
}

// c11RunSelect replays one case; report is called for every disagreement.
func c11RunSelect(c *c11SelCase, report func(q c11Query, strict bool, got int, gerr error)) (evals int) {
	var set []tls.Certificate
	for _, cj := range c.Set {
		set = append(set, c11Mint(cj.Cn, cj.Sans, "sel").cert)
	}
	for _, strict := range []bool{false, true} {
		src := &c11Source{ch: make(chan []tls.Certificate)}
		cfg, err := TLSConfig(src, strict, 0, 0, nil)
		if err != nil {
			panic(err)
		}
		if len(c.Prev) > 0 { // the listener's past: an earlier, other set
			var prev []tls.Certificate
			for _, cj := range c.Prev {
				prev = append(prev, c11Mint(cj.Cn, cj.Sans, "sel"+cj.Mint).cert)
			}
			c11Publish(src, prev)
		}
		c11Publish(src, set)
		for _, q := range c.Q {
			want := q.Lax
			if strict {
				want = q.Strict
			}
			var got *tls.Certificate
			var gerr error
			p, stack := verifx.Safely(func() {
				got, gerr = cfg.GetCertificate(&tls.ClientHelloInfo{ServerName: strings.Join(q.Sni, ".")})
			})
			evals++
			gi := c11LeafIndex(set, got)
			if p != nil {
				gi, gerr = -2, fmt.Errorf("panic: %v\n%s", p, stack)
			}
			if gi != want {
				report(q, strict, gi, gerr)
			}
		}
		close(src.ch)
	}
	return evals
}

func c11SelectPart(path string, selftest bool) (cases, evals, nontrivial int64, samples []string, rejected bool) {
	type job struct{ raw []byte }
	jobs := make(chan job, 256)
	var wg sync.WaitGroup
	var mu sync.Mutex
	for w := 0; w < runtime.NumCPU(); w++ {
		wg.Add(1)
		go func() {
			defer wg.Done()
			for j := range jobs {
				var c c11SelCase
				if err := json.Unmarshal(j.raw, &c); err != nil {
					verifx.Emit(map[string]any{"kind": "error", "msg": "bad select case: " + err.Error()})
					continue
				}
				n := c11RunSelect(&c, func(q c11Query, strict bool, got int, gerr error) {
					want := q.Lax
					if strict {
						want = q.Strict
					}
					if selftest {
						mu.Lock()
						rejected = true
						mu.Unlock()
						return
					}
					gs := "other-certificate"
					switch {
					case got == 0:
						gs = "none"
					case got == -1:
						gs = "foreign-certificate"
					case got == -2:
						gs = "panic"
					}
					ws := "certificate"
					if want == 0 {
						ws = "none"
					}
					one := c11SelCase{Set: c.Set, Prev: c.Prev, Q: []c11Query{q}}
					verifx.Fail(one, map[string]any{"sub": "select", "strict": strict, "sni": c11SniClass(q.Sni), "want": ws, "got": gs},
						"set %+v, server name %q, strict=%v: presented certificate %d (err=%v), Select prescribes %d",
						c.Set, strings.Join(q.Sni, "."), strict, got, gerr, want)
				})
				atomic.AddInt64(&evals, int64(n))
				if len(c.Set) >= 2 {
					atomic.AddInt64(&nontrivial, 1)
				}
			}
		}()
	}
	err := verifx.EachCase(path, func(raw []byte) error {
		cases++
		if cases%211 == 5 && len(samples) < 3 {
			s := string(raw)
			if len(s) > 300 {
				s = s[:300] + "..."
			}
			samples = append(samples, s)
		}
		jobs <- job{append([]byte(nil), raw...)}
		return nil
	})
	close(jobs)
	wg.Wait()
	if err != nil {
		verifx.Emit(map[string]any{"kind": "error", "msg": "select cases: " + err.Error()})
	}
	return
}

// ---------------------------------------------------------------- watch

type c11Load struct {
	Kind    string `json:"kind"`
	Content string `json:"content"`
	Pub     string `json:"pub"`
	At      int    `json:"at"`
}
type c11History struct {
	Hist []c11Load `json:"hist"`
}

const (
	c11Refresh = time.Second
	c11Window  = 1500 * time.Millisecond
	c11TailCap = 60
)

// c11Content is the material a source delivers: file name -> PEM, and for good contents the
// set it stands for in the order the documentation prescribes (alphabetical by file name).
type c11Content struct {
	files map[string][]byte
	err   error
	want  [][]byte // leaf DER in order
}

func c11Contents() map[string]*c11Content {
	a1, a2 := c11Mint("a.com", nil, "wA"), c11Mint("b.com", []string{"*.b.com"}, "wA")
	b1, b2, b3 := c11Mint("b.com", nil, "wB"), c11Mint("a.com", nil, "wB"), c11Mint("", []string{"*.com"}, "wB")
	join := func(x, y []byte) []byte { return append(append([]byte(nil), x...), y...) }
	m := map[string]*c11Content{
		"A": {files: map[string][]byte{
			"d/1-cert.pem": a1.certPEM, "d/1-key.pem": a1.keyPEM,
			"d/2-cert.pem": a2.certPEM, "d/2-key.pem": a2.keyPEM,
		}, want: [][]byte{a1.cert.Certificate[0], a2.cert.Certificate[0]}},
		// Ar: the files of A with the names of the two certificates exchanged (CertStore!Renamed):
		// the same four PEM blocks, the other certificate is now first = the default
		"Ar": {files: map[string][]byte{
			"d/1-cert.pem": a2.certPEM, "d/1-key.pem": a2.keyPEM,
			"d/2-cert.pem": a1.certPEM, "d/2-key.pem": a1.keyPEM,
		}, want: [][]byte{a2.cert.Certificate[0], a1.cert.Certificate[0]}},
		// B: another order, a combined file, three certificates
		"B": {files: map[string][]byte{
			"d/a.pem":      join(b1.certPEM, b1.keyPEM),
			"d/b-cert.pem": b2.certPEM, "d/b-key.pem": b2.keyPEM,
			"d/c.pem": join(b3.keyPEM, b3.certPEM),
		}, want: [][]byte{b1.cert.Certificate[0], b2.cert.Certificate[0], b3.cert.Certificate[0]}},
		// unusable: nothing a certificate can be made of
		"U1": {files: map[string][]byte{"d/1-cert.pem": []byte("-----BEGIN CERTIFICATE-----\nnot base64 at all\n-----END CERTIFICATE-----\n"), "d/1-key.pem": []byte("garbage")}},
		// unusable: certificate without its key
		"U2": {files: map[string][]byte{"d/1-cert.pem": a1.certPEM}},
		// unusable: key of another certificate
		"U3": {files: map[string][]byte{"d/1-cert.pem": a1.certPEM, "d/1-key.pem": a2.keyPEM}},
		"E":  {err: errors.New("c11: scripted source failure")},
	}
	return m
}

type c11WatchRun struct {
	h        c11History
	selftest bool
	starts   []time.Time
	rets     []time.Time
	pubs     [][][]tls.Certificate // publications observed after call k (before call k+1)
	done     int32
	capped   bool
}

func c11CopyFiles(m map[string][]byte) map[string][]byte {
	out := map[string][]byte{}
	for k, v := range m {
		out[k] = append([]byte(nil), v...)
	}
	return out
}

func (r *c11WatchRun) run(contents map[string]*c11Content, wg *sync.WaitGroup) {
	defer wg.Done()
	defer atomic.StoreInt32(&r.done, 1)
	ch := make(chan []tls.Certificate, len(r.h.Hist)+c11TailCap+8)
	var tailEnd time.Time
	drain := func() {
		var got [][]tls.Certificate
		for {
			select {
			case cs := <-ch:
				got = append(got, cs)
				continue
			default:
			}
			break
		}
		r.pubs = append(r.pubs, got)
	}
	loadFn := func(path string) (map[string][]byte, error) {
		now := time.Now()
		k := len(r.starts)
		if k > 0 {
			drain()
		}
		n := len(r.h.Hist)
		if k >= n {
			if k == n {
				tailEnd = r.rets[n-1].Add(c11Window)
			}
			if !now.Before(tailEnd) || k >= n+c11TailCap {
				r.capped = k >= n+c11TailCap
				runtime.Goexit()
			}
		}
		r.starts = append(r.starts, now)
		step := r.h.Hist[n-1]
		if k < n {
			step = r.h.Hist[k]
		}
		c := contents[step.Content]
		if c == nil {
			panic("c11: unknown content " + step.Content)
		}
		var files map[string][]byte
		if c.err == nil {
			files = c11CopyFiles(c.files)
		}
		r.rets = append(r.rets, time.Now())
		return files, c.err
	}
	watch(ch, c11Refresh, "d", loadFn)
}

// judge compares what the real watcher did with the history; report(clause, kind, msg).
func (r *c11WatchRun) judge(contents map[string]*c11Content, report func(clause, kind, got, msg string)) {
	n := len(r.h.Hist)
	if atomic.LoadInt32(&r.done) == 0 || len(r.starts) < n {
		k := len(r.starts)
		kind := "start"
		if k > 0 && k <= n {
			kind = r.h.Hist[k-1].Kind
		}
		report("stalled", kind, "", fmt.Sprintf("the watcher performed %d of %d loads and then stopped loading", k, n))
		return
	}
	// publications
	for k := 0; k < len(r.pubs); k++ {
		step := r.h.Hist[n-1]
		tail := k >= n
		if !tail {
			step = r.h.Hist[k]
		}
		var want [][]byte
		if !tail && step.Pub != "" {
			want = contents[step.Pub].want
		}
		got := r.pubs[k]
		switch {
		case want == nil && len(got) == 0:
		case want == nil:
			g := "set"
			if len(got[0]) == 0 {
				g = "empty-set"
			}
			what := "load " + step.Kind
			if tail {
				what = "a repeated load " + step.Kind
			}
			report("publish", step.Kind, g, fmt.Sprintf("%s (content %s) published a set of %d certificates; nothing may be published", what, step.Content, len(got[0])))
			return
		case len(got) != 1:
			report("publish", step.Kind, fmt.Sprintf("%d-publications", len(got)), fmt.Sprintf("load %d (%s %s): %d publications, want exactly one", k+1, step.Kind, step.Content, len(got)))
			return
		default:
			ok := len(got[0]) == len(want)
			for i := 0; ok && i < len(want); i++ {
				ok = len(got[0][i].Certificate) > 0 && bytes.Equal(got[0][i].Certificate[0], want[i])
			}
			if !ok {
				report("publish", step.Kind, "other-set", fmt.Sprintf("load %d (%s %s): published %d certificates, not the set %s in alphabetical file order", k+1, step.Kind, step.Content, len(got[0]), step.Pub))
				return
			}
		}
	}
	// pace: two loads with no publication between them are at least `refresh` apart
	for k := 0; k+1 < len(r.starts); k++ {
		published := k < n && r.h.Hist[k].Pub != ""
		if published {
			continue
		}
		gap := r.starts[k+1].Sub(r.rets[k])
		if gap < c11Refresh/3 {
			cnt := 0
			for j := k + 1; j < len(r.starts); j++ {
				if r.starts[j].Sub(r.rets[k]) <= c11Window {
					cnt++
				}
			}
			kind := r.h.Hist[n-1].Kind
			if k < n {
				kind = r.h.Hist[k].Kind
			}
			more := ""
			if r.capped {
				more = " (stopped by the harness)"
			}
			report("spin", kind, "", fmt.Sprintf("after load %d (%s) nothing was published, yet the source was loaded again after %v (refresh %v); %d loads within %v%s",
				k+1, kind, gap, c11Refresh, cnt, c11Window, more))
			return
		}
	}
}

func c11WatchPart(path, selfPath string) (cases, loads, nontrivial int64, samples []string, selfRejected, selfRan bool) {
	contents := c11Contents()
	var runs []*c11WatchRun
	read := func(p string, self bool) {
		if p == "" {
			return
		}
		err := verifx.EachCase(p, func(raw []byte) error {
			var h c11History
			if err := json.Unmarshal(raw, &h); err != nil || len(h.Hist) == 0 {
				return fmt.Errorf("bad history %q: %v", string(raw), err)
			}
			runs = append(runs, &c11WatchRun{h: h, selftest: self})
			if !self {
				cases++
				if cases%397 == 11 && len(samples) < 3 {
					samples = append(samples, string(raw))
				}
			}
			return nil
		})
		if err != nil {
			verifx.Emit(map[string]any{"kind": "error", "msg": "watch histories: " + err.Error()})
		}
	}
	read(path, false)
	read(selfPath, true)
	var wg sync.WaitGroup
	maxLoads := 0
	for _, r := range runs {
		if len(r.h.Hist) > maxLoads {
			maxLoads = len(r.h.Hist)
		}
		wg.Add(1)
		go r.run(contents, &wg)
	}
	fin := make(chan struct{})
	go func() { wg.Wait(); close(fin) }()
	// liveness bound: every load is at most one refresh after the previous one; 10x + 30 s
	select {
	case <-fin:
	case <-time.After(time.Duration(maxLoads+2)*c11Refresh*10 + 30*time.Second):
	}
	for _, r := range runs {
		if atomic.LoadInt32(&r.done) == 0 {
			// still running: judge on a snapshot is racy; report only "stalled"
			if r.selftest {
				continue
			}
			verifx.Fail(r.h, map[string]any{"sub": "watch", "clause": "stalled", "kind": "?"}, "history %+v: the watcher did not come back for the next load within the liveness bound", r.h.Hist)
			continue
		}
		loads += int64(len(r.starts))
		kinds := map[string]bool{}
		for _, s := range r.h.Hist {
			kinds[s.Kind] = true
		}
		if len(kinds) >= 2 && !r.selftest {
			nontrivial++
		}
		r.judge(contents, func(clause, kind, got, msg string) {
			if r.selftest {
				selfRejected = true
				return
			}
			f := map[string]any{"sub": "watch", "clause": clause, "kind": kind}
			if got != "" {
				f["got"] = got
			}
			verifx.Fail(r.h, f, "history %s: %s", c11HistString(r.h), msg)
		})
		if r.selftest {
			selfRan = true
		}
	}
	return
}

func c11HistString(h c11History) string {
	var s []string
	for _, l := range h.Hist {
		s = append(s, l.Kind+":"+l.Content)
	}
	return strings.Join(s, " ")
}

// ---------------------------------------------------------------- trace

type c11TraceCert struct {
	Cn   []string   `json:"cn"`
	Sans [][]string `json:"sans"`
}

func c11Labels(name string) []string {
	if name == "" {
		return []string{}
	}
	return strings.Split(name, ".")
}

type c11TraceSet struct {
	id    string
	certs []tls.Certificate
	desc  []c11TraceCert
}

func c11MakeSet(id string, defs []c11CertJSON) *c11TraceSet {
	s := &c11TraceSet{id: id}
	for _, d := range defs {
		s.certs = append(s.certs, c11Mint(d.Cn, d.Sans, "t"+id).cert)
		tc := c11TraceCert{Cn: c11Labels(d.Cn), Sans: [][]string{}}
		for _, n := range d.Sans {
			tc.Sans = append(tc.Sans, c11Labels(n))
		}
		s.desc = append(s.desc, tc)
	}
	return s
}

// c11Handshake performs one real TLS handshake against cfg; it returns the leaf presented
// (nil: the server presented none / refused) or an infrastructure error.
func c11Handshake(cfg *tls.Config, sni string, maxVersion uint16) (leaf []byte, infra error) {
	c, s := net.Pipe()
	dl := time.Now().Add(60 * time.Second)
	c.SetDeadline(dl)
	s.SetDeadline(dl)
	srv := tls.Server(s, cfg)
	cli := tls.Client(c, &tls.Config{ServerName: sni, InsecureSkipVerify: true, MaxVersion: maxVersion})
	sdone := make(chan error, 1)
	go func() {
		err := srv.Handshake()
		srv.Close()
		sdone <- err
	}()
	cerr := cli.Handshake()
	if cerr == nil {
		st := cli.ConnectionState()
		if len(st.PeerCertificates) > 0 {
			leaf = st.PeerCertificates[0].Raw
		}
		// consume post-handshake messages (session tickets) until the server closes
		var b [1]byte
		cli.Read(b[:])
	}
	cli.Close()
	serr := <-sdone
	var ne net.Error
	if (cerr != nil && errors.As(cerr, &ne) && ne.Timeout()) || (serr != nil && errors.As(serr, &ne) && ne.Timeout()) {
		return nil, fmt.Errorf("handshake timed out: client %v, server %v", cerr, serr)
	}
	if cerr == nil && leaf == nil {
		return nil, fmt.Errorf("handshake succeeded without a server certificate")
	}
	return leaf, nil
}

// c11Rec collects the events of one goroutine; every event carries a ticket of the global
// logical clock (verifx.Tick) taken at the invocation / at the response.
type c11Rec struct{ evs []map[string]any }

func (r *c11Rec) add(t int64, ev map[string]any) {
	ev["t"] = t
	r.evs = append(r.evs, ev)
}

func c11WriteTrace(path string, recs []*c11Rec) error {
	var all []map[string]any
	for _, r := range recs {
		all = append(all, r.evs...)
	}
	sort.Slice(all, func(i, j int) bool { return all[i]["t"].(int64) < all[j]["t"].(int64) })
	f, err := os.Create(path)
	if err != nil {
		return err
	}
	defer f.Close()
	w := bufio.NewWriter(f)
	for _, e := range all {
		b, err := json.Marshal(e)
		if err != nil {
			return err
		}
		w.Write(b)
		w.WriteByte('\n')
	}
	return w.Flush()
}

// The sets are chosen so that a mixture of two of them is observable: for every ordered pair
// (X, Y) of {A, B} there is a server name that no certificate of X matches but a non-first
// certificate of Y does (b.com for X=B, x.com for X=A); C is the single-certificate case.
var c11TraceTemplates = [][][]c11CertJSON{
	{
		{{Cn: "a.com"}, {Cn: "b.com", Sans: []string{"*.a.com"}}},
		{{Cn: "q.net"}, {Cn: "a.com"}, {Cn: "", Sans: []string{"x.com"}}},
		{{Cn: "*.com"}},
	},
	{
		{{Cn: "", Sans: []string{"*.a.com", "a.com"}}, {Cn: "x.com"}, {Cn: "b.com"}},
		{{Cn: "c.a.com"}, {Cn: "q.net", Sans: []string{"a.com"}}},
		{{Cn: "", Sans: []string{"q.net"}}},
	},
}

var c11TraceSNIs = []string{"", "a.com", "A.COM", "b.com", "B.Com", "c.a.com", "C.A.Com", "x.com", "X.COM", "q.net", "Q.NET", "c.b.a.com", "a.com.", "com"}

// c11TracePart records `segments` executions with real TLS handshakes (perClient per client,
// `writes` replacements spread over the run) and `direct` executions in which the clients call
// tls.Config.GetCertificate -- the function the TLS stack calls -- in a tight loop while the
// writer replaces the set `directWrites` times without pause.  Dropping reads from a recorded
// execution keeps it a behaviour, so in direct mode only the calls that were presented a
// certificate of another set than the previous one (and every 97th call) are written.
func c11TracePart(path string, segments, perClient, writes, direct, directWrites int) (handshakes, refused, wr, calls, kept int64, infra []string) {
	rnd := verifx.Rand()
	var recs []*c11Rec
	var infraMu sync.Mutex
	const clients = 8
	for seg := 0; seg < segments+direct; seg++ {
		isDirect := seg >= segments
		strict := (seg+int(verifx.Seed()))%2 == 1
		if isDirect {
			strict = (seg-segments)%3 == 2 // a mixture is observable on non-strict listeners
		}
		tpl := c11TraceTemplates[rnd.Intn(len(c11TraceTemplates))]
		sets := []*c11TraceSet{c11MakeSet("A", tpl[0]), c11MakeSet("B", tpl[1]), c11MakeSet("C", tpl[2])}
		byDER := map[string][2]any{}
		defs := map[string]any{}
		for _, s := range sets {
			defs[s.id] = s.desc
			for i, c := range s.certs {
				byDER[string(c.Certificate[0])] = [2]any{s.id, i + 1}
			}
		}
		leafOf := func(leaf []byte) (string, int) {
			if leaf == nil {
				return "", 0
			}
			if v, ok := byDER[string(leaf)]; ok {
				return v[0].(string), v[1].(int)
			}
			return "?", -1
		}
		si, mode := 0, "handshake"
		if strict {
			si = 1
		}
		if isDirect {
			mode = "direct"
		}
		main := &c11Rec{}
		recs = append(recs, main)
		main.add(verifx.Tick(), map[string]any{"ev": "Reset", "strict": si, "sets": defs, "mode": mode})
		src := &c11Source{ch: make(chan []tls.Certificate)}
		cfg, err := TLSConfig(src, strict, 0, 0, nil)
		if err != nil {
			panic(err)
		}
		var progress int64
		var writerDone int32
		var wg sync.WaitGroup
		seeds := make([]int64, clients)
		for g := range seeds {
			seeds[g] = rnd.Int63()
		}
		for g := 0; g < clients; g++ {
			rec := &c11Rec{}
			recs = append(recs, rec)
			wg.Add(1)
			go func(g int) {
				defer wg.Done()
				r := mrand.New(mrand.NewSource(seeds[g]))
				if isDirect {
					prev := "-"
					var n, k int64
					for n = 0; atomic.LoadInt32(&writerDone) == 0 || n < 8; n++ {
						sni := c11TraceSNIs[r.Intn(len(c11TraceSNIs))]
						hello := &tls.ClientHelloInfo{ServerName: sni}
						t0 := verifx.Tick()
						got, _ := cfg.GetCertificate(hello)
						t1 := verifx.Tick()
						var leaf []byte
						if got != nil && len(got.Certificate) > 0 {
							leaf = got.Certificate[0]
						}
						set, idx := leafOf(leaf)
						if (set != "" && set != prev) || n%97 == 0 {
							rec.add(t0, map[string]any{"ev": "Inv", "g": g, "sni": c11Labels(sni)})
							rec.add(t1, map[string]any{"ev": "Ret", "g": g, "set": set, "idx": idx})
							k++
						}
						if set != "" {
							prev = set
						}
					}
					atomic.AddInt64(&calls, n)
					atomic.AddInt64(&kept, k)
					return
				}
				for i := 0; i < perClient; i++ {
					sni := c11TraceSNIs[r.Intn(len(c11TraceSNIs))]
					ver := uint16(0)
					if r.Intn(3) == 0 {
						ver = tls.VersionTLS12
					}
					rec.add(verifx.Tick(), map[string]any{"ev": "Inv", "g": g, "sni": c11Labels(sni)})
					leaf, ierr := c11Handshake(cfg, sni, ver)
					set, idx := leafOf(leaf)
					rec.add(verifx.Tick(), map[string]any{"ev": "Ret", "g": g, "set": set, "idx": idx})
					if leaf == nil {
						atomic.AddInt64(&refused, 1)
					}
					if ierr != nil {
						infraMu.Lock()
						infra = append(infra, ierr.Error())
						infraMu.Unlock()
					}
					atomic.AddInt64(&handshakes, 1)
					atomic.AddInt64(&progress, 1)
				}
			}(g)
		}
		// the writer
		wrec := &c11Rec{}
		recs = append(recs, wrec)
		wg.Add(1)
		go func() {
			defer wg.Done()
			defer atomic.StoreInt32(&writerDone, 1)
			total := int64(clients * perClient)
			nw := writes
			if isDirect {
				nw = directWrites
			}
			prev := -1
			for w := 0; w < nw; w++ {
				if !isDirect { // spread over the run, paced by the clients' progress
					at := total * int64(w) / int64(nw+1)
					for atomic.LoadInt64(&progress) < at {
						runtime.Gosched()
					}
				}
				k := rnd.Intn(len(sets))
				if isDirect && w%4 != 3 {
					k = w % 2 // mostly A <-> B
				}
				if k == prev {
					k = (k + 1) % len(sets)
				}
				prev = k
				wrec.add(verifx.Tick(), map[string]any{"ev": "WInv", "set": sets[k].id})
				c11Publish(src, sets[k].certs)
				wrec.add(verifx.Tick(), map[string]any{"ev": "WRet", "set": sets[k].id})
				atomic.AddInt64(&wr, 1)
			}
		}()
		wg.Wait()
		close(src.ch)
	}
	if err := c11WriteTrace(path, recs); err != nil {
		infra = append(infra, "cannot write trace: "+err.Error())
	}
	return
}

// ---------------------------------------------------------------- entry point

func c11EnvName(name string) string {
	if os.Getenv(name) == "" {
		return ""
	}
	return name
}

func TestVerifC11(t *testing.T) {
	sum := map[string]any{}
	var watchDone chan struct{}
	var wCases, wLoads, wNon int64
	var wSamples []string
	var wSelfRej, wSelfRan bool
	if p := os.Getenv("VERIF_IN_WATCH"); p != "" {
		watchDone = make(chan struct{})
		go func() {
			defer close(watchDone)
			wCases, wLoads, wNon, wSamples, wSelfRej, wSelfRan = c11WatchPart("VERIF_IN_WATCH", c11EnvName("VERIF_IN_WATCH_SELF"))
		}()
	}
	// the real sources run in real time (refresh 1 s): in the background, like the watcher histories
	type srcRes struct {
		cases, loads, evals, non, skipped int64
		samples                           []string
		rejected                          bool
	}
	srcDone := map[string]chan srcRes{}
	for _, p := range [][3]string{{"VERIF_IN_SRC_PATH", "path", ""}, {"VERIF_IN_SRC_HTTP", "http", ""}, {"VERIF_IN_SRC_CONSUL", "consul", ""}, {"VERIF_IN_SRC_SELF", "path", "self"}} {
		if os.Getenv(p[0]) == "" {
			continue
		}
		ch := make(chan srcRes, 1)
		srcDone[p[0]] = ch
		go func(env, source string, self bool) {
			var r srcRes
			r.cases, r.loads, r.evals, r.non, r.skipped, r.samples, r.rejected = c11SourcesPart(env, source, self)
			ch <- r
		}(p[0], p[1], p[2] != "")
	}
	if os.Getenv("VERIF_IN_FILE") != "" {
		cases, evals := c11FilePart("VERIF_IN_FILE")
		sum["file_cases"], sum["file_evals"] = cases, evals
	}
	if os.Getenv("VERIF_IN") != "" {
		cases, evals, non, samples, _ := c11SelectPart("VERIF_IN", false)
		sum["select_cases"], sum["select_evals"], sum["select_nontrivial"], sum["select_samples"] = cases, evals, non, samples
	}
	if os.Getenv("VERIF_IN_SELECT_SELF") != "" {
		_, _, _, _, rej := c11SelectPart("VERIF_IN_SELECT_SELF", true)
		sum["select_selftest_rejected"] = rej
	}
	if p := os.Getenv("VERIF_TRACE_OUT"); p != "" {
		hs, refused, wr, calls, kept, infra := c11TracePart(p, verifx.EnvInt("VERIF_TRACE_SEGMENTS", 2), verifx.EnvInt("VERIF_TRACE_PER_CLIENT", 30), verifx.EnvInt("VERIF_TRACE_WRITES", 10),
			verifx.EnvInt("VERIF_TRACE_DIRECT", 1), verifx.EnvInt("VERIF_TRACE_DIRECT_WRITES", 200))
		sum["trace_handshakes"], sum["trace_refused"], sum["trace_writes"], sum["trace_infra"] = hs, refused, wr, infra
		sum["trace_direct_calls"], sum["trace_direct_kept"] = calls, kept
	}
	if watchDone != nil {
		<-watchDone
		sum["watch_cases"], sum["watch_loads"], sum["watch_nontrivial"], sum["watch_samples"] = wCases, wLoads, wNon, wSamples
		if wSelfRan {
			sum["watch_selftest_rejected"] = wSelfRej
		}
	}
	for env, ch := range srcDone {
		r := <-ch
		switch env {
		case "VERIF_IN_SRC_SELF":
			sum["source_selftest_rejected"] = r.rejected
		default:
			k := "path"
			if env == "VERIF_IN_SRC_HTTP" {
				k = "http"
			} else if env == "VERIF_IN_SRC_CONSUL" {
				k = "consul"
			}
			sum[k+"_cases"], sum[k+"_loads"], sum[k+"_evals"], sum[k+"_nontrivial"], sum[k+"_skipped"], sum[k+"_samples"] = r.cases, r.loads, r.evals, r.non, r.skipped, r.samples
		}
	}
	sum["source_reruns"] = atomic.LoadInt64(&c11Reruns)
	verifx.Summary(sum)
}
