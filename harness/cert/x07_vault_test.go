package cert

// X07 conformance (spec/VaultCerts.tla): the Vault KV source, the Vault PKI source and the
// token renewal of the Vault client, all REAL (VaultSource / VaultPKISource / vaultClient
// behind the real TLSConfig, real TLS handshakes over net.Pipe), against the fake Vault of
// harness/x/x07vault.go.
//
//	kv     S->C  every history of VaultCerts_Gen!GASpec: the real watcher is held at the
//	             preflight request of every refresh round (gate in the fake), Vault is set up,
//	             the round is released, and it is judged when the preflight of the NEXT round
//	             arrives: publication yes/no, the published set, what every name is presented
//	             in a handshake, and (lower bound only) the distance between two rounds with
//	             no publication between them.  Each history is played on a KV v1 mount, a KV
//	             v2 mount and an old Vault without the preflight endpoint.
//	pki    S->C  every history of VaultCerts_Gen!GBSpec: handshakes one at a time; issue
//	             requests, installs (store hook) and presented certificates are compared;
//	             the re-issue round is played with real 2 s certificates (x509 times have a
//	             resolution of one second) and a scaled minimum refresh; the fake holds the
//	             re-issue requests and answers them one by one.
//	token  S->C  every history of VaultCerts_Gen!GCSpec with scaled Vault seconds.
//	race   C->S  concurrent handshakes for the same and different names (race detector on),
//	             recorded with the fake's request log, validated by VaultCerts_Trace.
//
// Nothing is decided by sleeping: the fake's request log is the barrier; time-outs are
// reported as infrastructure problems (inconclusive), never as violations.

import (
	"bufio"
	"crypto/tls"
	"crypto/x509"
	"encoding/json"
	"errors"
	"fmt"
	"hash/fnv"
	mrand "math/rand"
	"net"
	"os"
	"sort"
	"strings"
	"sync"
	"sync/atomic"
	"testing"
	"time"

	"github.com/fabiolb/fabio/internal/verifx"
)

const x07Domain = ".x07.test"

var (
	x07Refresh    = time.Duration(verifx.EnvInt("VERIF_X07_REFRESH_MS", 1000)) * time.Millisecond  // floor of cert/watch.go (scaled by overlay)
	x07Sec        = time.Duration(verifx.EnvInt("VERIF_X07_SEC_MS", 1000)) * time.Millisecond      // one Vault second of cert/vault_client.go
	x07PKIRefresh = time.Duration(verifx.EnvInt("VERIF_X07_PKIREFRESH_MS", 3600000)) * time.Millisecond // floor of cert/vault_pki_source.go
	x07Wait       = 30 * time.Second
	x07Infra      int64
	x07InfraMu    sync.Mutex
	x07InfraMsgs  []string
)

func x07InfraErr(format string, a ...any) {
	atomic.AddInt64(&x07Infra, 1)
	x07InfraMu.Lock()
	if len(x07InfraMsgs) < 10 {
		x07InfraMsgs = append(x07InfraMsgs, fmt.Sprintf(format, a...))
	}
	x07InfraMu.Unlock()
}

func x07Client(f *verifx.VaultFake) *vaultClient {
	return &vaultClient{addr: f.Addr(), token: "x07-token"}
}

// x07Idle closes the idle connections of a history's Vault client (every history has its own transport).
func x07Idle(vc *vaultClient) {
	vc.mu.Lock()
	c := vc.client
	vc.mu.Unlock()
	if c != nil {
		c.CloneConfig().HttpClient.CloseIdleConnections()
	}
}

func x07Hash(s string) uint32 { h := fnv.New32a(); h.Write([]byte(s)); return h.Sum32() }

// x07Handshake: one real TLS handshake; leaf = the certificate presented, nil = refused.
func x07Handshake(cfg *tls.Config, sni string) (leaf *x509.Certificate, infra error) {
	c, s := net.Pipe()
	dl := time.Now().Add(90 * time.Second)
	c.SetDeadline(dl)
	s.SetDeadline(dl)
	srv := tls.Server(s, cfg)
	cli := tls.Client(c, &tls.Config{ServerName: sni, InsecureSkipVerify: true})
	sdone := make(chan error, 1)
	go func() {
		err := srv.Handshake()
		srv.Close()
		sdone <- err
	}()
	cerr := cli.Handshake()
	if cerr == nil {
		st := cli.ConnectionState()
		if len(st.PeerCertificates) > 0 {
			leaf = st.PeerCertificates[0]
		}
		var b [1]byte
		cli.Read(b[:])
	}
	cli.Close()
	serr := <-sdone
	var ne net.Error
	if (cerr != nil && errors.As(cerr, &ne) && ne.Timeout()) || (serr != nil && errors.As(serr, &ne) && ne.Timeout()) {
		return nil, fmt.Errorf("handshake timed out: client %v, server %v", cerr, serr)
	}
	if cerr == nil && leaf == nil {
		return nil, fmt.Errorf("handshake succeeded without a server certificate")
	}
	return leaf, nil
}

// ---------------------------------------------------------------- store hook

type x07Watch struct {
	fake    *verifx.VaultFake
	block   chan struct{} // probe only: the goroutine that stores snapshots is held here
	entered chan struct{}
}

var x07ByTok sync.Map // fake token -> *x07Watch

func x07Hook(_ *Store, certs []tls.Certificate) {
	if len(certs) == 0 {
		return
	}
	var w *x07Watch
	var ids []int
	for _, c := range certs {
		x, err := x509.ParseCertificate(c.Certificate[0])
		if err != nil {
			return
		}
		if w == nil && len(x.Subject.Organization) == 1 && strings.HasPrefix(x.Subject.Organization[0], "verif x07 ") {
			if v, ok := x07ByTok.Load(strings.TrimPrefix(x.Subject.Organization[0], "verif x07 ")); ok {
				w = v.(*x07Watch)
			}
		}
		ids = append(ids, int(x.SerialNumber.Int64()))
	}
	if w == nil {
		return
	}
	sort.Ints(ids)
	w.fake.Note(verifx.VaultEvent{Ev: "Install", IDs: ids})
	if w.block != nil {
		select {
		case w.entered <- struct{}{}:
		default:
		}
		<-w.block
	}
}

func x07Has(ids []int, id int) bool {
	for _, x := range ids {
		if x == id {
			return true
		}
	}
	return false
}

// ---------------------------------------------------------------- Part A: KV

type x07AStep struct {
	KV    map[string]string `json:"kv"`
	Fault string            `json:"fault"`
	Kind  string            `json:"kind"`
	Need  string            `json:"need"`
	Pub   string            `json:"pub"`
	Gap   string            `json:"gap"`
	Reg   map[string]string `json:"reg"`
}

type x07AHist struct {
	A       []x07AStep `json:"a"`
	Corrupt bool       `json:"corrupt,omitempty"`
}

type x07Pump struct {
	inner Source
	out   chan []tls.Certificate
}

func (p *x07Pump) Certificates() chan []tls.Certificate   { return p.out }
func (p *x07Pump) LoadClientCAs() (*x509.CertPool, error) { return p.inner.LoadClientCAs() }

var x07BrokenPEM = []byte("-----BEGIN CERTIFICATE-----\nthis is not base64 !!\n-----END CERTIFICATE-----\n")

func x07Entries(kv map[string]string, salt uint32) map[string]*verifx.VaultEntry {
	out := map[string]*verifx.VaultEntry{}
	for n, st := range kv {
		cn := n + x07Domain
		switch st {
		case "absent":
		case "g1", "g2":
			m := verifx.MintCert(cn, nil, "x07"+st)
			out[cn] = &verifx.VaultEntry{Cert: m.CertPEM, Key: m.KeyPEM}
		case "nokey":
			out[cn] = &verifx.VaultEntry{Cert: verifx.MintCert(cn, nil, "x07g1").CertPEM}
		case "nocert":
			out[cn] = &verifx.VaultEntry{Key: verifx.MintCert(cn, nil, "x07g1").KeyPEM}
		case "badpem":
			out[cn] = &verifx.VaultEntry{Cert: x07BrokenPEM, Key: verifx.MintCert(cn, nil, "x07g1").KeyPEM}
		case "nofields":
			out[cn] = &verifx.VaultEntry{}
		case "unreadable":
			m := verifx.MintCert(cn, nil, "x07g1")
			out[cn] = &verifx.VaultEntry{Cert: m.CertPEM, Key: m.KeyPEM, ReadFault: []string{"500", "403"}[salt%2]}
		}
	}
	return out
}

func x07SetKVFault(f *verifx.VaultFake, fault string) {
	f.ClearFaults()
	f.SetTokenDead(false)
	switch fault {
	case "mounts500":
		f.SetFault("mounts", "500")
	case "list500":
		f.SetFault("list", "500")
	case "sealed":
		for _, k := range []string{"mounts", "list", "read"} {
			f.SetFault(k, "sealed")
		}
	case "tok403":
		f.SetTokenDead(true)
	case "malformed":
		f.SetFault("list", "malformed")
	case "slow":
		f.SetSlow(x07Refresh * 3 / 2)
		f.SetFault("list", "slow")
	}
}

func x07SetString(certs []tls.Certificate) string {
	var s []string
	for _, c := range certs {
		x, err := x509.ParseCertificate(c.Certificate[0])
		if err != nil {
			s = append(s, "unparsable")
			continue
		}
		s = append(s, x.Subject.CommonName+"#"+x.SerialNumber.String())
	}
	sort.Strings(s)
	return strings.Join(s, ",")
}

func x07RegString(reg map[string]string) string {
	var s []string
	for n, st := range reg {
		if st == "g1" || st == "g2" {
			x, _ := x509.ParseCertificate(verifx.MintCert(n+x07Domain, nil, "x07"+st).DER)
			s = append(s, x.Subject.CommonName+"#"+x.SerialNumber.String())
		}
	}
	sort.Strings(s)
	return strings.Join(s, ",")
}

type x07AStats struct {
	loads, handshakes, nontrivial int64
}

// x07PlayKV replays one history on one mount flavour; ok=false: infrastructure problem.
func x07PlayKV(h x07AHist, hi int, version int, st *x07AStats) bool {
	fake := verifx.NewVaultFake()
	defer fake.Close()
	fake.SetKVVersion(version)
	vc := x07Client(fake)
	if _, err := vc.Get(); err != nil {
		x07InfraErr("kv: vault client: %v", err)
		return false
	}
	defer x07Idle(vc)
	fake.Hold("mounts", true)
	src := &VaultSource{Client: vc, CertPath: fake.CertPath, Refresh: x07Refresh}
	pump := &x07Pump{inner: src, out: make(chan []tls.Certificate)}
	cfg, err := TLSConfig(pump, true, 0, 0, nil)
	if err != nil {
		x07InfraErr("kv: TLSConfig: %v", err)
		return false
	}
	defer func() { // let the TLSConfig goroutine end
		defer func() { recover() }()
		close(pump.out)
	}()
	in := src.Certificates()
	flavour := map[int]string{1: "v1", 2: "v2", 0: "old"}[version]
	report := func(j int, clause, format string, a ...any) {
		s := h.A[j]
		verifx.Fail(map[string]any{"history": h.A[:j+1], "mount": flavour},
			map[string]any{"sub": "kv", "clause": clause, "kind": s.Kind, "need": s.Need, "fault": s.Fault, "mount": flavour},
			"kv (%s mount) round %d: %s", flavour, j+1, fmt.Sprintf(format, a...))
	}
	holdOf := func(log []verifx.VaultEvent, k int) *verifx.VaultEvent { // the k-th held preflight
		n := 0
		for i := range log {
			if log[i].Ev == "Hold" && log[i].Kind == "mounts" {
				n++
				if n == k {
					return &log[i]
				}
			}
		}
		return nil
	}
	published := false
	for j := 0; j <= len(h.A); j++ {
		if !fake.WaitLog(x07Wait, func(log []verifx.VaultEvent) bool { return holdOf(log, j+1) != nil }) {
			x07InfraErr("kv history %d (%s): round %d did not begin within %v", hi, flavour, j+1, x07Wait)
			return false
		}
		log := fake.Log()
		hold := holdOf(log, j+1)
		if j > 0 { // judge round j (index j-1): it is over, its publication (if any) sits in the channel
			s := h.A[j-1]
			var got []tls.Certificate
			published = false
			select {
			case got = <-in:
				published = true
			default:
			}
			if published { // hand it to the TLSConfig goroutine; the second rendez-vous means "stored"
				for k := 0; k < 2; k++ {
					select {
					case pump.out <- got:
					case <-time.After(x07Wait):
						x07InfraErr("kv: the TLSConfig goroutine did not take the set")
						return false
					}
				}
			}
			atomic.AddInt64(&st.loads, 1)
			if s.Need != "good" || len(s.KV) > 1 {
				atomic.AddInt64(&st.nontrivial, 1)
			}
			if (s.Pub == "y") != published {
				clause := "publication-missing"
				if published {
					clause = "bad-load-published"
					if s.Kind == "good" {
						clause = "same-content-published"
					}
				}
				report(j-1, clause, "Vault held %v with fault %q (a %s round): the specification says publication=%s, the source published=%v (%s)",
					s.KV, s.Fault, s.Kind, s.Pub, published, x07SetString(got))
			} else if published {
				if g, w := x07SetString(got), x07RegString(s.Reg); g != w {
					report(j-1, "published-set", "Vault held %v: published {%s}, specified {%s}", s.KV, g, w)
				}
			}
			for n, want := range s.Reg { // what is in effect now
				leaf, infra := x07Handshake(cfg, n+x07Domain)
				if infra != nil {
					x07InfraErr("kv: %v", infra)
					return false
				}
				atomic.AddInt64(&st.handshakes, 1)
				if h.Corrupt && j == len(h.A) {
					want = map[string]string{"absent": "g1", "g1": "g2", "g2": "absent"}[want]
				}
				switch {
				case want == "absent" && leaf != nil:
					report(j-1, "in-effect", "after the round a handshake for %s is presented %s#%s, the set in effect must not have a certificate for it (Vault: %v, fault %q)",
						n, leaf.Subject.CommonName, leaf.SerialNumber, s.KV, s.Fault)
				case want != "absent" && leaf == nil:
					report(j-1, "in-effect", "after the round a handshake for %s is refused, the set in effect must hold certificate %s (Vault: %v, fault %q)", n, want, s.KV, s.Fault)
				case want != "absent" && string(leaf.Raw) != string(verifx.MintCert(n+x07Domain, nil, "x07"+want).DER):
					report(j-1, "in-effect", "after the round a handshake for %s is presented serial %s, not certificate %s (Vault: %v, fault %q)", n, leaf.SerialNumber, want, s.KV, s.Fault)
				}
			}
			if !published && j < len(h.A)+1 { // no spin: this round published nothing, the next one must keep its distance
				var lastReq time.Time
				for _, e := range log {
					if e.Seq < hold.Seq && (e.Ev == "Req" || e.Ev == "Hold") && (e.Kind == "mounts" || e.Kind == "list" || e.Kind == "read") {
						lastReq = e.At
					}
				}
				if gap := hold.At.Sub(lastReq); gap < x07Refresh/3 {
					report(j-1, "spin", "the round published nothing (%s), yet the next round began %v after its last request (refresh %v)", s.Kind, gap, x07Refresh)
				}
			}
		}
		if j == len(h.A) {
			break
		}
		s := h.A[j]
		fake.SetEntries(x07Entries(s.KV, x07Hash(fmt.Sprint(hi, j))))
		x07SetKVFault(fake, s.Fault)
		fake.Release(hold.ID)
	}
	return true
}

// ---------------------------------------------------------------- Part B: PKI

type x07BEv struct {
	Op   string `json:"op"`
	Name string `json:"name"`
	ID   int    `json:"id"`
	IDs  []int  `json:"ids"`
}

type x07BHist struct {
	B         []x07BEv `json:"b"`
	Corrupt   bool     `json:"corrupt,omitempty"`
	NonStrict bool     `json:"nonstrict,omitempty"` // the listener has strictmatch=false
}

type x07BStats struct {
	handshakes, issues, rounds, nontrivial, voided int64
}

var x07IssueFlavours = []string{"500", "sealed", "403", "malformed", "nokey", "nocert", "badpem"}

type x07PKIRun struct {
	fake   *verifx.VaultFake
	src    *VaultPKISource
	cfg    *tls.Config
	serial map[int]int // specification id -> real serial
	expiry map[int]time.Time
}

func x07NewPKI(strict bool) (*x07PKIRun, error) {
	fake := verifx.NewVaultFake()
	x07ByTok.Store(fake.Tok, &x07Watch{fake: fake})
	src := NewVaultPKISource()
	src.Client = x07Client(fake)
	src.CertPath = fake.PKIPath
	cfg, err := TLSConfig(src, strict, 0, 0, nil)
	if err != nil {
		return nil, err
	}
	return &x07PKIRun{fake: fake, src: src, cfg: cfg, serial: map[int]int{}, expiry: map[int]time.Time{}}, nil
}

func (r *x07PKIRun) close() {
	x07Idle(r.src.Client)
	r.fake.Close()
	x07ByTok.Delete(r.fake.Tok)
}

func (r *x07PKIRun) mapIDs(ids []int) []int {
	var out []int
	for _, i := range ids {
		out = append(out, r.serial[i])
	}
	sort.Ints(out)
	return out
}

// waitInstall waits for an Install event after log position `from` that contains the serial.
func (r *x07PKIRun) waitInstall(from, serial int) (ids []int, ok bool) {
	ok = r.fake.WaitLog(x07Wait, func(log []verifx.VaultEvent) bool {
		for _, e := range log[from:] {
			if e.Ev == "Install" && x07Has(e.IDs, serial) {
				ids = e.IDs
				return true
			}
		}
		return false
	})
	return
}

// x07PlayPKI replays one sequential history. result: "ok" | "void" (timing of the box) | "infra"
func x07PlayPKI(h x07BHist, hi int, st *x07BStats) string {
	hasRound := false
	for _, e := range h.B {
		if e.Op == "round" {
			hasRound = true
		}
	}
	r, err := x07NewPKI(!h.NonStrict)
	if err != nil {
		x07InfraErr("pki: TLSConfig: %v", err)
		return "infra"
	}
	defer r.close()
	fake := r.fake
	stallWatch := verifx.WatchStalls()
	stalled := sync.OnceValue(func() time.Duration { return stallWatch.Stop() }) // judged once, when a time bound is missed
	defer stalled()
	if hasRound {
		fake.SetIssueTTL(2 * time.Second)
		// begin shortly after a full second: NotAfter has a resolution of one second
		for time.Now().Nanosecond() > int(250*time.Millisecond) {
			time.Sleep(10 * time.Millisecond)
		}
	}
	report := func(pos int, clause, format string, a ...any) {
		verifx.Fail(map[string]any{"history": h.B[:pos+1], "nonstrict": h.NonStrict}, map[string]any{"sub": "pki", "clause": clause, "op": h.B[pos].Op, "nonstrict": h.NonStrict},
			"pki event %d (%s %s): %s", pos+1, h.B[pos].Op, h.B[pos].Name, fmt.Sprintf(format, a...))
	}
	hsIssues := 0 // issue requests that handshakes caused
	flav := func(pos int) string { return x07IssueFlavours[x07Hash(fmt.Sprint(hi, pos))%uint32(len(x07IssueFlavours))] }
	issueReqs := func(log []verifx.VaultEvent) (out []verifx.VaultEvent) {
		for _, e := range log {
			if e.Ev == "Req" && e.Kind == "issue" {
				out = append(out, e)
			}
		}
		return
	}
	var roundStart time.Time
	for pos := 0; pos < len(h.B); pos++ {
		e := h.B[pos]
		switch e.Op {
		case "fault":
			if e.Name == "none" {
				fake.SetFault("issue", "")
			} else {
				fake.SetFault("issue", flav(pos))
			}
		case "hs":
			var issue, install, end *x07BEv
			q := pos + 1
			for ; q < len(h.B); q++ {
				switch h.B[q].Op {
				case "issue":
					issue = &h.B[q]
				case "install":
					install = &h.B[q]
				case "end":
					end = &h.B[q]
				}
				if h.B[q].Op == "end" {
					break
				}
			}
			if end == nil {
				x07InfraErr("pki history %d: handshake without end", hi)
				return "infra"
			}
			mark := fake.LogLen()
			before := len(issueReqs(fake.Log()))
			leaf, infra := x07Handshake(r.cfg, e.Name+x07Domain)
			if infra != nil {
				x07InfraErr("pki: %v", infra)
				return "infra"
			}
			atomic.AddInt64(&st.handshakes, 1)
			reqs := issueReqs(fake.Log())[before:]
			hsIssues += len(reqs)
			want := 0
			if issue != nil {
				want = 1
			}
			if len(reqs) != want {
				clause := "issued-again"
				if len(reqs) < want {
					clause = "not-issued"
				}
				report(pos, clause, "the handshake caused %d issue request(s) %v, specified: %d", len(reqs), reqs, want)
				return "ok"
			}
			if issue != nil {
				atomic.AddInt64(&st.issues, 1)
				q := reqs[0]
				if q.Name != e.Name+x07Domain {
					report(pos, "issued-name", "the certificate was requested for common_name %q, the client asked for %q", q.Name, e.Name+x07Domain)
				}
				if (q.Ans == "ok") != (issue.ID > 0) {
					x07InfraErr("pki history %d: fake answered %s where the history has id %d", hi, q.Ans, issue.ID)
					return "infra"
				}
				if issue.ID > 0 {
					r.serial[issue.ID] = q.Serial
					r.expiry[issue.ID] = q.Expiry
					ids, ok := r.waitInstall(mark, q.Serial)
					if !ok {
						x07InfraErr("pki history %d: certificate %d was not installed within %v", hi, q.Serial, x07Wait)
						return "infra"
					}
					if install != nil {
						if w := r.mapIDs(install.IDs); fmt.Sprint(w) != fmt.Sprint(ids) {
							report(pos, "installed-set", "the store received serials %v, specified %v", ids, w)
						}
					}
				}
			}
			wantID := end.ID
			if h.Corrupt && q == len(h.B)-1 {
				wantID = map[bool]int{true: 1, false: 0}[wantID == 0]
				if wantID == 1 && r.serial[1] == 0 {
					r.serial[1] = 424242
				}
			}
			switch {
			case len(end.IDs) > 0: // strictmatch=false, no certificate for the name: any certificate of the store
				if leaf == nil || !x07Has(r.mapIDs(end.IDs), int(leaf.SerialNumber.Int64())) {
					report(pos, "fallback", "strictmatch=false and no certificate for %s: presented %v, specified: one of the serials %v in the store, no issue request", e.Name, leaf != nil, r.mapIDs(end.IDs))
				}
			case wantID == 0 && leaf != nil:
				report(pos, "handshake-result", "the handshake was presented serial %s, specified: it fails (the issue request failed)", leaf.SerialNumber)
			case wantID > 0 && leaf == nil:
				report(pos, "handshake-result", "the handshake failed, specified: certificate %d (serial %d) is presented", wantID, r.serial[wantID])
			case wantID > 0 && int(leaf.SerialNumber.Int64()) != r.serial[wantID]:
				report(pos, "handshake-result", "the handshake was presented serial %s (%s), specified: certificate %d = serial %d", leaf.SerialNumber, leaf.Subject.CommonName, wantID, r.serial[wantID])
			case wantID > 0 && leaf.Subject.CommonName != e.Name+x07Domain:
				report(pos, "wrong-name", "a handshake for %s was presented a certificate for %s", e.Name+x07Domain, leaf.Subject.CommonName)
			}
			pos = q
		case "round":
			atomic.AddInt64(&st.rounds, 1)
			atomic.AddInt64(&st.nontrivial, 1)
			var tiss []x07BEv
			q := pos + 1
			var installs []x07BEv
			for ; q < len(h.B) && (h.B[q].Op == "tissue" || h.B[q].Op == "tret" || h.B[q].Op == "install"); q++ {
				if h.B[q].Op == "tissue" {
					tiss = append(tiss, h.B[q])
				}
				if h.B[q].Op == "install" {
					installs = append(installs, h.B[q])
				}
			}
			fake.SetIssueTTL(time.Hour)
			fake.Hold("issue", true)
			if n := len(issueReqs(fake.Log())); n != hsIssues {
				atomic.AddInt64(&st.voided, 1) // a timer fired before the round was due: the box was too slow
				return "void"
			}
			roundStart = time.Now()
			var deadline time.Time
			for _, id := range e.IDs {
				if r.expiry[id].After(deadline) {
					deadline = r.expiry[id]
				}
			}
			wait := time.Until(deadline) + 1500*time.Millisecond
			held := func(log []verifx.VaultEvent) map[string][]int {
				m := map[string][]int{}
				for _, x := range log {
					if x.Ev == "Hold" && x.Kind == "issue" {
						m[x.Name] = append(m[x.Name], x.ID)
					}
				}
				return m
			}
			okAll := fake.WaitLog(wait, func(log []verifx.VaultEvent) bool {
				m := held(log)
				for _, t := range tiss {
					if len(m[t.Name+x07Domain]) < 1 {
						return false
					}
				}
				return true
			})
			if !okAll {
				if s := stalled(); s > 200*time.Millisecond {
					atomic.AddInt64(&st.voided, 1)
					return "void"
				}
				report(pos, "reissue-missing", "the certificates %v expire at %s; %v after that moment Vault has not seen a re-issue request for every one of them (held: %v); refresh is %v before expiry",
					e.IDs, deadline.Format("15:04:05"), time.Since(deadline), held(fake.Log()), x07PKIRefresh)
				return "ok"
			}
			// "re-issued <refresh> before they expire": not after the expiry, and (lower bound, x3 margin) not much earlier than refresh before it
			for _, x := range fake.Log() {
				if x.Ev == "Hold" && x.Kind == "issue" {
					if late := x.At.Sub(deadline); late > 0 {
						if s := stalled(); s > 200*time.Millisecond {
							atomic.AddInt64(&st.voided, 1)
							return "void"
						}
						report(pos, "reissue-late", "the re-issue request for %s arrived %v AFTER the certificate had expired (refresh: %v before the expiry)", x.Name, late, x07PKIRefresh)
						return "ok"
					}
					if early := deadline.Sub(x.At); early > 3*x07PKIRefresh+time.Second {
						report(pos, "reissue-early", "re-issue request %v before the expiry, refresh is %v", early, x07PKIRefresh)
					}
				}
			}
			m := held(fake.Log())
			if extra := len(issueReqs(fake.Log())) - hsIssues; extra != 0 {
				report(pos, "reissue-extra", "%d unexpected issue requests", extra)
			}
			ii := 0
			for _, t := range tiss {
				ids := m[t.Name+x07Domain]
				if len(ids) != 1 {
					report(pos, "reissue-count", "%d re-issue requests for %s at the same time, specified: one timer per certificate", len(ids), t.Name)
				}
				mark := fake.LogLen()
				fake.Release(ids[0])
				var resp *verifx.VaultEvent
				if !fake.WaitLog(x07Wait, func(log []verifx.VaultEvent) bool {
					for i := range log {
						if log[i].Ev == "Resp" && log[i].ID == ids[0] {
							resp = &log[i]
							return true
						}
					}
					return false
				}) {
					x07InfraErr("pki history %d: released re-issue request not answered", hi)
					return "infra"
				}
				if (resp.Ans == "ok") != (t.ID > 0) {
					x07InfraErr("pki history %d: fake answered re-issue with %s where the history has id %d", hi, resp.Ans, t.ID)
					return "infra"
				}
				if t.ID > 0 {
					r.serial[t.ID] = resp.Serial
					got, ok := r.waitInstall(mark, resp.Serial)
					if !ok {
						x07InfraErr("pki history %d: re-issued certificate %d was not installed within %v", hi, resp.Serial, x07Wait)
						return "infra"
					}
					if ii < len(installs) {
						if w := r.mapIDs(installs[ii].IDs); fmt.Sprint(w) != fmt.Sprint(got) {
							report(pos, "installed-set", "after the re-issue of %s the store received serials %v, specified %v", t.Name, got, w)
						}
						ii++
					}
				}
			}
			hsIssues += len(tiss)
			fake.Hold("issue", false)
			pos = q - 1
		case "expire":
			var deadline time.Time
			for _, id := range e.IDs {
				if r.expiry[id].After(deadline) {
					deadline = r.expiry[id]
				}
			}
			if d := time.Until(deadline) + 30*time.Millisecond; d > 0 {
				if d > 5*time.Second {
					x07InfraErr("pki history %d: expiry %v away", hi, d)
					return "infra"
				}
				time.Sleep(d) // waiting for the clock IS the event (NotAfter passes), nothing is decided by it
			}
			_ = roundStart
		}
	}
	return "ok"
}

// ---------------------------------------------------------------- Part C: token

type x07CReq struct {
	Req string `json:"req"`
	At  int    `json:"at"`
	OK  bool   `json:"ok"`
}

type x07CHist struct {
	C         []x07CReq `json:"c"`
	Renewable bool      `json:"renewable"`
	Dead      bool      `json:"dead"`
	TTL       int       `json:"ttl"`
	Kpc       string    `json:"kpc"`
	Corrupt   bool      `json:"corrupt,omitempty"`
}

// x07PlayToken: "ok" | "mismatch:<text>" | "void" | "infra"
func x07PlayToken(h x07CHist, hi int) (string, map[string]any) {
	fake := verifx.NewVaultFake()
	defer fake.Close()
	var script []string
	for _, q := range h.C {
		if q.Req == "renew" {
			if q.OK {
				script = append(script, "")
			} else {
				script = append(script, []string{"500", "sealed"}[x07Hash(fmt.Sprint(hi, len(script)))%2])
			}
		}
	}
	if len(h.C) > 0 && h.C[0].Req == "lookup" && !h.C[0].OK {
		fake.SetFault("lookup", "500")
	}
	stall := verifx.WatchStalls()
	fake.SetToken(h.TTL, h.Renewable, x07Sec, true, script)
	start := time.Now()
	vc := x07Client(fake)
	if _, err := vc.Get(); err != nil {
		x07InfraErr("token: client: %v", err)
		return "infra", nil
	}
	defer x07Idle(vc)
	want := h.C
	horizon := 0
	for _, q := range want {
		if q.At > horizon {
			horizon = q.At
		}
	}
	tokReqs := func(log []verifx.VaultEvent) (out []verifx.VaultEvent) {
		for _, e := range log {
			if e.Ev == "Req" && (e.Kind == "lookup" || e.Kind == "renew") {
				out = append(out, e)
			}
		}
		return
	}
	// every request of the history has been seen, or the time of the history (x2) is over
	limit := time.Duration(horizon+4)*x07Sec + 2*time.Second
	fake.WaitLog(limit, func(log []verifx.VaultEvent) bool { return len(tokReqs(log)) >= len(want) })
	if len(tokReqs(fake.Log())) == len(want) { // is there one more than specified?  (the next one would be due within a second)
		fake.WaitLog(3*x07Sec/2, func(log []verifx.VaultEvent) bool { return len(tokReqs(log)) > len(want) })
	}
	got := tokReqs(fake.Log())
	stalled := stall.Stop()
	feat := map[string]any{"sub": "token", "clause": "requests"}
	desc := func(q []verifx.VaultEvent) string {
		var s []string
		for _, e := range q {
			s = append(s, fmt.Sprintf("%s@%v=%s", e.Kind, e.At.Sub(start).Round(time.Millisecond), e.Ans))
		}
		return strings.Join(s, " ")
	}
	wantDesc := func() string {
		var s []string
		for _, q := range want {
			s = append(s, fmt.Sprintf("%s@%v=%v", q.Req, time.Duration(q.At)*x07Sec/2, q.OK))
		}
		return strings.Join(s, " ")
	}
	mism := ""
	timing := false // the disagreement can be the effect of a frozen process
	for i, q := range want {
		if h.Corrupt && i == 0 {
			q.Req = "renew"
		}
		if i >= len(got) {
			mism = fmt.Sprintf("request %d (%s at %v) never arrived", i+1, q.Req, time.Duration(q.At)*x07Sec/2)
			feat["clause"] = "request-missing"
			timing = true
			break
		}
		g := got[i]
		if g.Kind != q.Req || (g.Ans == "ok") != q.OK {
			mism = fmt.Sprintf("request %d is %s answered %s (late=%v), specified %s ok=%v", i+1, g.Kind, g.Ans, g.Late, q.Req, q.OK)
			timing = g.Kind == q.Req && (g.Late || g.Ans == "403")
			if g.Late {
				feat["clause"] = "renewed-too-late"
			}
			break
		}
		// lower bound only (immune to stalls): not before a third of the specified moment
		if at := g.At.Sub(start); at < time.Duration(q.At)*x07Sec/2/3 {
			mism = fmt.Sprintf("request %d (%s) arrived after %v, specified after %v", i+1, g.Kind, at, time.Duration(q.At)*x07Sec/2)
			feat["clause"] = "too-early"
			break
		}
	}
	if mism == "" && len(got) > len(want) {
		extra := got[len(want)]
		if extra.At.Sub(start) < time.Duration(horizon+2)*x07Sec/2 || h.Kpc == "off" {
			mism = fmt.Sprintf("an unspecified request %s after %v", extra.Kind, extra.At.Sub(start))
			feat["clause"] = "request-extra"
		}
	}
	if mism == "" {
		return "ok", nil
	}
	if stalled > x07Sec/4 && timing {
		return "void", nil
	}
	feat["msg"] = fmt.Sprintf("token (ttl %d s, renewable %v; one Vault second = %v): %s; specified: %s; seen: %s", h.TTL, h.Renewable, x07Sec, mism, wantDesc(), desc(got))
	return "mismatch", feat
}

// ---------------------------------------------------------------- probes of the named deviations

func x07Probe() map[string]any {
	out := map[string]any{"kind": "probe"}
	// ReadErrorDropsEntry / FieldlessIgnored: one good entry next to one that cannot be used
	for _, c := range []struct{ key, status string }{{"ReadErrorDropsEntry", "unreadable"}, {"FieldlessIgnored", "nofields"}} {
		fake := verifx.NewVaultFake()
		vc := x07Client(fake)
		src := &VaultSource{Client: vc, CertPath: fake.CertPath, Refresh: x07Refresh}
		fake.SetEntries(x07Entries(map[string]string{"a": "g1", "b": c.status}, 0))
		pem, err := src.load(fake.CertPath)
		if err != nil {
			out[c.key] = false
		} else if certs, err := loadCertificates(pem); err != nil {
			out[c.key] = false
		} else {
			out[c.key] = len(certs) == 1
		}
		fake.Close()
	}
	// LookupFailDisables: lookup-self fails once; is it ever asked again?
	{
		fake := verifx.NewVaultFake()
		fake.SetToken(20, true, x07Sec, false, nil)
		fake.SetFault("lookup", "500")
		vc := x07Client(fake)
		if _, err := vc.Get(); err == nil {
			n := func(log []verifx.VaultEvent) (k int) {
				for _, e := range log {
					if e.Ev == "Req" && (e.Kind == "lookup" || e.Kind == "renew") {
						k++
					}
				}
				return
			}
			fake.WaitLog(x07Wait, func(log []verifx.VaultEvent) bool { return n(log) >= 1 })
			fake.SetFault("lookup", "")
			again := fake.WaitLog(6*x07Sec, func(log []verifx.VaultEvent) bool { return n(log) >= 2 })
			out["LookupFailDisables"] = !again
		}
		fake.Close()
	}
	// ServesExpired: the re-issue fails, the certificate expires: is it still presented?
	for attempt := 0; attempt < 3; attempt++ {
		h := x07BHist{B: []x07BEv{{Op: "hs", Name: "a"}, {Op: "issue", Name: "a", ID: 1}, {Op: "install", IDs: []int{1}}, {Op: "end", Name: "a", ID: 1}}}
		r, err := x07NewPKI(true)
		if err != nil {
			break
		}
		r.fake.SetIssueTTL(2 * time.Second)
		for time.Now().Nanosecond() > int(250*time.Millisecond) {
			time.Sleep(10 * time.Millisecond)
		}
		_ = h
		leaf, infra := x07Handshake(r.cfg, "a"+x07Domain)
		if infra != nil || leaf == nil {
			r.close()
			continue
		}
		r.fake.SetFault("issue", "500")
		n0 := r.fake.LogLen()
		seen := r.fake.WaitLog(time.Until(leaf.NotAfter)+time.Second, func(log []verifx.VaultEvent) bool {
			for _, e := range log[n0:] {
				if e.Ev == "Resp" && e.Kind == "issue" {
					return true
				}
			}
			return false
		})
		out["ReissueSeen"] = seen
		if d := time.Until(leaf.NotAfter) + 50*time.Millisecond; d > 0 {
			time.Sleep(d)
		}
		r.fake.SetFault("issue", "")
		n1 := r.fake.LogLen()
		leaf2, infra := x07Handshake(r.cfg, "a"+x07Domain)
		if infra == nil {
			out["ServesExpired"] = leaf2 != nil && leaf2.SerialNumber.Cmp(leaf.SerialNumber) == 0 && time.Now().After(leaf2.NotAfter)
			issued := 0
			for _, e := range r.fake.Log()[n1:] {
				if e.Ev == "Req" && e.Kind == "issue" {
					issued++
				}
			}
			out["IssuedAfterExpiry"] = issued
			r.close()
			break
		}
		r.close()
	}
	// AsyncInstall (reproduction): while the goroutine that stores the snapshots is busy, a certificate
	// that has just been issued and cached is not found by the next handshake for the same name
	if r, err := x07NewPKI(true); err == nil {
		v, _ := x07ByTok.Load(r.fake.Tok)
		w := v.(*x07Watch)
		w.block, w.entered = make(chan struct{}), make(chan struct{}, 1)
		x07Handshake(r.cfg, "a"+x07Domain)
		select {
		case <-w.entered:
			n0 := r.fake.LogLen()
			l1, _ := x07Handshake(r.cfg, "b"+x07Domain)
			l2, _ := x07Handshake(r.cfg, "b"+x07Domain)
			n := 0
			for _, e := range r.fake.Log()[n0:] {
				if e.Ev == "Req" && e.Kind == "issue" && e.Name == "b"+x07Domain {
					n++
				}
			}
			out["DupIssueWindow"] = n > 1 && l1 != nil && l2 != nil
			out["DupIssueRequests"] = n
		case <-time.After(x07Wait):
		}
		close(w.block)
		r.close()
	}
	// ShortTTLSpin: a certificate that lives shorter than the refresh floor
	if r, err := x07NewPKI(true); err == nil {
		r.fake.SetIssueTTL(x07PKIRefresh / 2)
		n0 := r.fake.LogLen()
		x07Handshake(r.cfg, "a"+x07Domain)
		window := 300 * time.Millisecond
		r.fake.WaitLog(window, func([]verifx.VaultEvent) bool { return false })
		n := 0
		for _, e := range r.fake.Log()[n0:] {
			if e.Ev == "Req" && e.Kind == "issue" {
				n++
			}
		}
		out["ShortTTLSpin"] = n > 20
		out["ShortTTLSpinRequests"] = n
		out["ShortTTLSpinWindowMs"] = window.Milliseconds()
		r.close()
	}
	return out
}

// ---------------------------------------------------------------- C->S recording

func x07Record(path string, segments, clients, perClient int, rng *mrand.Rand) (events, handshakes, dropped int, err error) {
	f, err := os.Create(path)
	if err != nil {
		return 0, 0, 0, err
	}
	defer f.Close()
	w := bufio.NewWriter(f)
	defer w.Flush()
	names := []string{"a", "b", "c"}
	for seg := 0; seg < segments; seg++ {
		r, e := x07NewPKI(true)
		if e != nil {
			return events, handshakes, dropped, e
		}
		fake := r.fake
		fake.SetSlow(time.Duration(1+rng.Intn(8)) * time.Millisecond)
		fake.SetFault("issue", "slow")
		nNames := 1 + rng.Intn(3)
		plan := make([][]string, clients)
		for c := range plan {
			for k := 0; k < perClient; k++ {
				plan[c] = append(plan[c], names[rng.Intn(nNames)])
			}
		}
		faultAt := time.Duration(rng.Intn(6)) * time.Millisecond
		withFault := rng.Intn(3) == 0
		var wg sync.WaitGroup
		var infra int64
		startGun := make(chan struct{})
		for c := 0; c < clients; c++ {
			wg.Add(1)
			go func(c int) {
				defer wg.Done()
				<-startGun
				for _, n := range plan[c] {
					fake.Note(verifx.VaultEvent{Ev: "HsStart", C: c, Name: n})
					leaf, inf := x07Handshake(r.cfg, n+x07Domain)
					if inf != nil {
						atomic.AddInt64(&infra, 1)
						return
					}
					serial := 0
					if leaf != nil {
						serial = int(leaf.SerialNumber.Int64())
						if leaf.Subject.CommonName != n+x07Domain {
							serial = -1
						}
					}
					fake.Note(verifx.VaultEvent{Ev: "HsEnd", C: c, Name: n, Serial: serial})
				}
			}(c)
		}
		if withFault {
			wg.Add(1)
			go func() {
				defer wg.Done()
				<-startGun
				time.Sleep(faultAt)
				fake.SetFault("issue", "500")
				time.Sleep(time.Duration(1+rng.Intn(5)) * time.Millisecond)
				fake.SetFault("issue", "slow")
			}()
		}
		close(startGun)
		wg.Wait()
		// let installs that are on their way arrive (they are not needed for acceptance)
		fake.WaitLog(20*time.Millisecond, func([]verifx.VaultEvent) bool { return false })
		log := fake.Log()
		r.close()
		if infra > 0 {
			dropped++
			continue
		}
		renum := map[int]int{}
		for _, e := range log {
			if e.Ev == "Req" && e.Kind == "issue" && e.Ans == "ok" {
				renum[e.Serial] = len(renum) + 1
			}
		}
		short := func(n string) string { return strings.TrimSuffix(n, x07Domain) }
		emit := func(m map[string]any) {
			b, _ := json.Marshal(m)
			w.Write(b)
			w.WriteByte('\n')
			events++
		}
		emit(map[string]any{"ev": "Reset", "seg": seg})
		for _, e := range log {
			switch {
			case e.Ev == "Env" && strings.HasPrefix(e.Kind, "fault:issue="):
				v := strings.TrimPrefix(e.Kind, "fault:issue=")
				if v == "" || v == "slow" {
					v = "none"
				} else {
					v = "500"
				}
				emit(map[string]any{"ev": "Fault", "name": v})
			case e.Ev == "HsStart":
				emit(map[string]any{"ev": "HsStart", "c": e.C, "name": e.Name})
				handshakes++
			case e.Ev == "HsEnd":
				id := 0
				if e.Serial > 0 {
					id = renum[e.Serial]
				} else if e.Serial < 0 {
					id = 999999 // a certificate for another name: nothing in the specification explains it
				}
				emit(map[string]any{"ev": "HsEnd", "c": e.C, "id": id})
			case e.Ev == "Req" && e.Kind == "issue":
				id := 0
				if e.Ans == "ok" {
					id = renum[e.Serial]
				}
				emit(map[string]any{"ev": "Issue", "name": short(e.Name), "id": id})
			case e.Ev == "Resp" && e.Kind == "issue":
				emit(map[string]any{"ev": "Resp", "name": short(e.Name)})
			case e.Ev == "Install":
				ids := []int{}
				for _, s := range e.IDs {
					ids = append(ids, renum[s])
				}
				sort.Ints(ids)
				emit(map[string]any{"ev": "Install", "ids": ids})
			}
		}
	}
	return events, handshakes, dropped, nil
}

// ---------------------------------------------------------------- the test

func x07ReadLines[T any](name string) []T {
	var out []T
	if os.Getenv(name) == "" {
		return nil
	}
	err := verifx.EachCase(name, func(raw []byte) error {
		var v T
		if err := json.Unmarshal(raw, &v); err != nil {
			return err
		}
		out = append(out, v)
		return nil
	})
	if err != nil {
		x07InfraErr("reading %s: %v", name, err)
	}
	return out
}

func x07Parallel(n, workers int, fn func(i int)) {
	var wg sync.WaitGroup
	var next int64 = -1
	for w := 0; w < workers; w++ {
		wg.Add(1)
		go func() {
			defer wg.Done()
			for {
				i := int(atomic.AddInt64(&next, 1))
				if i >= n {
					return
				}
				fn(i)
			}
		}()
	}
	wg.Wait()
}

func TestVerifX07(t *testing.T) {
	os.Setenv("VAULT_MAX_RETRIES", "0")
	os.Unsetenv("VAULT_ADDR")
	os.Unsetenv("VAULT_TOKEN")
	dropNotRenewableWarning = true
	VerifOnSetCerts = x07Hook
	sum := map[string]any{}

	if os.Getenv("VERIF_X07_PROBE") != "" {
		p := x07Probe()
		verifx.Emit(p)
		sum["probe"] = p
	}

	// ---- A
	ah := x07ReadLines[x07AHist]("VERIF_X07_A")
	var ast x07AStats
	var aPlayed, aInfra int64
	x07Parallel(len(ah)*3, verifx.EnvInt("VERIF_X07_WORKERS", 24), func(i int) {
		if x07PlayKV(ah[i/3], i/3, []int{1, 2, 0}[i%3], &ast) {
			atomic.AddInt64(&aPlayed, 1)
		} else {
			atomic.AddInt64(&aInfra, 1)
		}
	})
	sum["kv_histories"], sum["kv_played"], sum["kv_infra"] = len(ah), aPlayed, aInfra
	sum["kv_rounds"], sum["kv_handshakes"], sum["kv_nontrivial"] = ast.loads, ast.handshakes, ast.nontrivial

	// ---- B
	bh := x07ReadLines[x07BHist]("VERIF_X07_B")
	var bst x07BStats
	var bPlayed, bInfra, bVoid int64
	x07Parallel(len(bh), verifx.EnvInt("VERIF_X07_WORKERS_B", 48), func(i int) {
		for attempt := 0; attempt < 3; attempt++ {
			switch x07PlayPKI(bh[i], i, &bst) {
			case "ok":
				atomic.AddInt64(&bPlayed, 1)
				return
			case "infra":
				atomic.AddInt64(&bInfra, 1)
				return
			}
		}
		atomic.AddInt64(&bVoid, 1)
	})
	sum["pki_histories"], sum["pki_played"], sum["pki_infra"], sum["pki_void"] = len(bh), bPlayed, bInfra, bVoid
	sum["pki_handshakes"], sum["pki_issues"], sum["pki_rounds"], sum["pki_retries"] = bst.handshakes, bst.issues, bst.rounds, bst.voided

	// ---- C
	ch := x07ReadLines[x07CHist]("VERIF_X07_C")
	var cPlayed, cVoid, cInfra int64
	x07Parallel(len(ch), verifx.EnvInt("VERIF_X07_WORKERS_C", 16), func(i int) {
		bad := 0
		var lastFeat map[string]any
		for attempt := 0; attempt < 4; attempt++ {
			res, feat := x07PlayToken(ch[i], i)
			switch res {
			case "ok":
				atomic.AddInt64(&cPlayed, 1)
				return
			case "infra":
				atomic.AddInt64(&cInfra, 1)
				return
			case "mismatch":
				bad++
				lastFeat = feat
				if bad >= 2 || feat["clause"] == "too-early" || feat["clause"] == "request-extra" {
					msg := feat["msg"].(string)
					delete(feat, "msg")
					verifx.Fail(map[string]any{"history": ch[i]}, feat, "%s", msg)
					atomic.AddInt64(&cPlayed, 1)
					return
				}
			}
		}
		_ = lastFeat
		atomic.AddInt64(&cVoid, 1)
	})
	sum["token_histories"], sum["token_played"], sum["token_void"], sum["token_infra"] = len(ch), cPlayed, cVoid, cInfra

	// ---- race
	if p := os.Getenv("VERIF_X07_TRACE_OUT"); p != "" {
		ev, hsn, dropped, err := x07Record(p, verifx.EnvInt("VERIF_X07_SEGMENTS", 40), verifx.EnvInt("VERIF_X07_CLIENTS", 6), verifx.EnvInt("VERIF_X07_PER_CLIENT", 3), verifx.Rand())
		if err != nil {
			x07InfraErr("recording: %v", err)
		}
		sum["trace_events"], sum["trace_handshakes"], sum["trace_dropped"] = ev, hsn, dropped
	}

	sum["infra"] = atomic.LoadInt64(&x07Infra)
	x07InfraMu.Lock()
	sum["infra_msgs"] = x07InfraMsgs
	x07InfraMu.Unlock()
	verifx.Summary(sum)
}
