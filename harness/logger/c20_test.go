package logger

// C20 conformance (logger part): every (format, event) TLC enumerated in AccessLog goes through
// the real logger.New + Log under recover.  The bytes written must be one of the lines the
// specification admits AND one of the lines the standard library renders for the same event
// (strconv, fmt, time.Format in UTC, net/url) - a three-way agreement.  Beyond the TLC cases:
// seeded random events against the standard library, and the digit formatter atoi directly.

import (
	"bytes"
	"encoding/json"
	"fmt"
	"math"
	"math/rand"
	"net"
	"net/http"
	"net/url"
	"regexp"
	"runtime"
	"sort"
	"strconv"
	"strings"
	"sync"
	"sync/atomic"
	"testing"
	"time"

	"github.com/fabiolb/fabio/internal/verifx"
)

type c20URL struct {
	Present bool   `json:"present"`
	Scheme  string `json:"scheme"`
	Host    string `json:"host"`
	Path    string `json:"path"`
	Query   string `json:"query"`
}

type c20Hdr struct {
	Name string   `json:"name"` // the key as filed in the map (not canonicalised)
	Vals []string `json:"vals"`
	Nil  bool     `json:"nilv"`
}

type c20Event struct {
	Req    bool     `json:"req"`
	T      []int    `json:"t"` // Y M D h m s ns (UTC)
	DurS   int64    `json:"durs"`
	DurNs  int64    `json:"durns"`
	Size   []int64  `json:"size"` // base 10^4 limbs, least significant first
	Status int      `json:"status"`
	Raddr  string   `json:"raddr"`
	Uaddr  string   `json:"uaddr"`
	Method string   `json:"method"`
	URI    string   `json:"uri"`
	Proto  string   `json:"proto"`
	Host   string   `json:"host"`
	Rurl   c20URL   `json:"rurl"`
	Uurl   c20URL   `json:"uurl"`
	Hmap   bool     `json:"hmap"` // the request has a header map at all
	Hdr    []c20Hdr `json:"hdr"`
	Svc    string   `json:"svc"`
}

type c20Tok struct {
	K string `json:"k"`
	V string `json:"v"`
}

type c20Case struct {
	Fmt    []c20Tok `json:"fmt"`
	Accept bool     `json:"accept"`
	E      int      `json:"e"`
	Lines  []string `json:"lines"`
	// other record shapes of the generator
	Events []c20Event `json:"events,omitempty"`
	Dec    []struct {
		N int64  `json:"n"`
		W int    `json:"w"`
		S string `json:"s"`
	} `json:"dec,omitempty"`
	// replay
	Ev *c20Event `json:"ev,omitempty"`
}

var c20Code = regexp.MustCompile(`<u([0-9A-F]{4,6})>`)

// c20Expand replaces the specification's <uXXXX> by the UTF-8 encoding of U+XXXX.
func c20Expand(s string) string {
	if !strings.Contains(s, "<u") {
		return s
	}
	return c20Code.ReplaceAllStringFunc(s, func(m string) string {
		n, _ := strconv.ParseInt(m[2:len(m)-1], 16, 32)
		return string(rune(n))
	})
}

func c20Big(limbs []int64) int64 {
	var v, m int64 = 0, 1
	for _, l := range limbs {
		v += l * m
		m *= 10000
	}
	return v
}

func c20MkURL(u c20URL) *url.URL {
	if !u.Present {
		return nil
	}
	return &url.URL{Scheme: u.Scheme, Host: u.Host, Path: u.Path, RawQuery: u.Query}
}

func (e *c20Event) concrete() *Event {
	end := time.Date(e.T[0], time.Month(e.T[1]), e.T[2], e.T[3], e.T[4], e.T[5], e.T[6], time.UTC)
	d := time.Duration(e.DurS)*time.Second + time.Duration(e.DurNs)
	ev := &Event{
		Start:           end.Add(-d),
		End:             end,
		Response:        &http.Response{StatusCode: e.Status, ContentLength: c20Big(e.Size)},
		RequestURL:      c20MkURL(e.Rurl),
		UpstreamURL:     c20MkURL(e.Uurl),
		UpstreamAddr:    e.Uaddr,
		UpstreamService: e.Svc,
	}
	if e.Req {
		var h http.Header
		if e.Hmap {
			h = http.Header{}
			for _, kv := range e.Hdr {
				if kv.Nil {
					h[kv.Name] = nil
				} else {
					h[kv.Name] = append([]string{}, kv.Vals...)
				}
			}
		}
		ev.Request = &http.Request{Method: e.Method, RequestURI: e.URI, Proto: e.Proto, Host: e.Host, RemoteAddr: e.Raddr, Header: h}
	}
	return ev
}

// ---------------------------------------------------------------- the standard library's rendering

func c20Hosts(addr string) (hosts []string, port string) {
	if addr == "" {
		return []string{""}, ""
	}
	h, p, err := net.SplitHostPort(addr)
	if err != nil { // no port
		h, p = addr, ""
		if strings.HasPrefix(addr, "[") && strings.HasSuffix(addr, "]") {
			return []string{addr[1 : len(addr)-1], addr}, ""
		}
		return []string{h}, ""
	}
	if strings.HasPrefix(addr, "[") {
		return []string{h, "[" + h + "]"}, p
	}
	return []string{h}, p
}

func c20Frac(d time.Duration, unit time.Duration, w int) string {
	return fmt.Sprintf("%d.%0*d", int64(d/time.Second), w, int64((d%time.Second)/unit))
}

// c20Std returns the admissible renderings of one token by the standard library, ok=false if
// the field is not a documented one.
func c20Std(tok c20Tok, e *Event) (alts []string, ok bool) {
	one := func(s string) ([]string, bool) { return []string{s}, true }
	switch tok.K {
	case "text", "dollar":
		return one(tok.V)
	case "header":
		if e.Request == nil || e.Request.Header == nil {
			return one("")
		}
		return one(e.Request.Header.Get(strings.TrimPrefix(tok.V, "$header.")))
	case "unknown", "hdrdot":
		return nil, false
	}
	r := e.Request
	reqs := func(f func() string) ([]string, bool) {
		if r == nil {
			return one("")
		}
		return one(f())
	}
	urls := func(u *url.URL, f func() string) ([]string, bool) {
		if u == nil {
			return one("")
		}
		return one(f())
	}
	end := e.End
	d := e.End.Sub(e.Start)
	switch tok.V {
	case "$remote_addr":
		return reqs(func() string { return r.RemoteAddr })
	case "$remote_host":
		if r == nil {
			return one("")
		}
		hs, _ := c20Hosts(r.RemoteAddr)
		return hs, true
	case "$remote_port":
		if r == nil {
			return one("")
		}
		_, p := c20Hosts(r.RemoteAddr)
		return one(p)
	case "$request":
		return reqs(func() string { return fmt.Sprintf("%s %s %s", r.Method, r.RequestURI, r.Proto) })
	case "$request_args":
		return urls(e.RequestURL, func() string { return e.RequestURL.RawQuery })
	case "$request_host":
		return reqs(func() string { return r.Host })
	case "$request_method":
		return reqs(func() string { return r.Method })
	case "$request_scheme":
		return urls(e.RequestURL, func() string { return e.RequestURL.Scheme })
	case "$request_uri":
		return reqs(func() string { return r.RequestURI })
	case "$request_url":
		return urls(e.RequestURL, func() string { return e.RequestURL.String() })
	case "$request_proto":
		return reqs(func() string { return r.Proto })
	case "$response_body_size":
		return one(strconv.FormatInt(e.Response.ContentLength, 10))
	case "$response_status":
		return one(strconv.Itoa(e.Response.StatusCode))
	case "$response_time_ms":
		return one(c20Frac(d, time.Millisecond, 3))
	case "$response_time_us":
		return one(c20Frac(d, time.Microsecond, 6))
	case "$response_time_ns":
		return one(c20Frac(d, time.Nanosecond, 9))
	case "$time_rfc3339":
		return one(end.Format("2006-01-02T15:04:05Z"))
	case "$time_rfc3339_ms":
		return one(end.Format("2006-01-02T15:04:05.000Z"))
	case "$time_rfc3339_us":
		return one(end.Format("2006-01-02T15:04:05.000000Z"))
	case "$time_rfc3339_ns":
		return one(end.Format("2006-01-02T15:04:05.000000000Z"))
	case "$time_unix_ms":
		return one(strconv.FormatInt(end.UnixMilli(), 10))
	case "$time_unix_us":
		return one(strconv.FormatInt(end.UnixMicro(), 10))
	case "$time_unix_ns":
		return one(strconv.FormatInt(end.UnixNano(), 10))
	case "$time_common":
		return one(end.Format("02/Jan/2006:15:04:05 +0000"))
	case "$upstream_addr":
		return one(e.UpstreamAddr)
	case "$upstream_host":
		hs, _ := c20Hosts(e.UpstreamAddr)
		return hs, true
	case "$upstream_port":
		_, p := c20Hosts(e.UpstreamAddr)
		return one(p)
	case "$upstream_request_scheme":
		return urls(e.UpstreamURL, func() string { return e.UpstreamURL.Scheme })
	case "$upstream_request_uri":
		return urls(e.UpstreamURL, func() string { return e.UpstreamURL.RequestURI() })
	case "$upstream_request_url":
		return urls(e.UpstreamURL, func() string { return e.UpstreamURL.String() })
	case "$upstream_service":
		return one(e.UpstreamService)
	}
	return nil, false
}

func c20StdLines(toks []c20Tok, e *Event) (lines []string, valid bool) {
	bodies := []string{""}
	for _, t := range toks {
		alts, ok := c20Std(t, e)
		if !ok {
			return nil, false
		}
		var next []string
		for _, b := range bodies {
			for _, a := range alts {
				next = append(next, b+a)
			}
		}
		bodies = next
	}
	for _, b := range bodies {
		lines = append(lines, b+"\n")
	}
	sort.Strings(lines)
	return lines, len(toks) > 0
}

func c20Format(toks []c20Tok) string {
	var b strings.Builder
	for _, t := range toks {
		b.WriteString(t.V)
	}
	return b.String()
}

func c20AddrClass(a string) string {
	switch {
	case a == "":
		return "empty"
	case strings.HasPrefix(a, "[") && strings.HasSuffix(a, "]"):
		return "ipv6-no-port"
	case strings.HasPrefix(a, "["):
		return "ipv6-port"
	case !strings.Contains(a, ":"):
		return "no-port"
	}
	return "host-port"
}

func c20In(s string, set []string) bool {
	for _, x := range set {
		if x == s {
			return true
		}
	}
	return false
}

// c20Run pushes one (format, event) through the real logger.
func c20Run(format string, e *Event) (accepted bool, out string, writes int, p any, stack string) {
	var buf c20Buf
	var l Logger
	var err error
	p, stack = verifx.Safely(func() { l, err = New(&buf, format) })
	if p != nil || err != nil || l == nil {
		return false, "", 0, p, stack
	}
	p, stack = verifx.Safely(func() { l.Log(e) })
	return true, buf.b.String(), buf.nonEmpty, p, stack
}

type c20Buf struct {
	b        bytes.Buffer
	nonEmpty int
}

func (w *c20Buf) Write(p []byte) (int, error) {
	if len(p) > 0 {
		w.nonEmpty++
	}
	return w.b.Write(p)
}

// c20Blame finds the first token that alone is rendered wrongly / panics, for the feature record.
func c20Blame(toks []c20Tok, e *Event, wantPanic bool) (field, addr string) {
	field, addr = "combination", "n/a"
	for _, t := range toks {
		if t.K != "field" && t.K != "header" {
			continue
		}
		want, ok := c20Std(t, e)
		if !ok {
			continue
		}
		_, out, _, p, _ := c20Run(t.V, e)
		if (wantPanic && p != nil) || (!wantPanic && (p != nil || !c20In(strings.TrimSuffix(out, "\n"), want))) {
			field = t.V
			if t.K == "header" {
				field = "$header.*"
			}
			switch {
			case strings.HasPrefix(t.V, "$remote_") && e.Request != nil:
				addr = c20AddrClass(e.Request.RemoteAddr)
			case strings.HasPrefix(t.V, "$upstream_"):
				addr = c20AddrClass(e.UpstreamAddr)
			}
			return
		}
	}
	return
}

func c20Feat(clause string, toks []c20Tok, e *Event) map[string]any {
	field, addr := "n/a", "n/a"
	if e != nil {
		field, addr = c20Blame(toks, e, clause == "panic")
	}
	return map[string]any{"sub": "logger", "clause": clause, "field": field, "addr": addr}
}

type c20Rec struct {
	Fmt    []c20Tok  `json:"fmt"`
	Accept bool      `json:"accept"`
	Ev     *c20Event `json:"ev,omitempty"`
	Lines  []string  `json:"lines,omitempty"`
	Note   string    `json:"note,omitempty"`
}

// c20Check judges one (format tokens, abstract event, TLC's admissible lines or nil).
// It returns an "oracle" complaint if the two oracles disagree with each other.
func c20Check(toks []c20Tok, ae *c20Event, tlcAccept bool, tlcLines []string, haveTLC bool) (oracle string) {
	var e *Event
	if ae != nil {
		e = ae.concrete()
	} else {
		e = &Event{Response: &http.Response{}}
	}
	format := c20Format(toks)
	rec := c20Rec{Fmt: toks, Accept: tlcAccept, Ev: ae, Lines: tlcLines}
	std, valid := c20StdLines(toks, e)
	if haveTLC {
		if valid != tlcAccept {
			return fmt.Sprintf("format %q: spec accept=%v, harness oracle valid=%v", format, tlcAccept, valid)
		}
		if tlcAccept {
			a := append([]string{}, tlcLines...)
			sort.Strings(a)
			if strings.Join(a, "\x00") != strings.Join(std, "\x00") {
				return fmt.Sprintf("format %q: the specification admits %q, the standard library renders %q", format, a, std)
			}
		}
	}
	accepted, out, writes, p, stack := c20Run(format, e)
	if p != nil {
		verifx.Fail(rec, c20Feat("panic", toks, e), "logging panicked: %v\nformat %q upstream=%q remote=%q\n%s", p, format, e.UpstreamAddr, c20Remote(e), c20Stack(stack))
		return ""
	}
	if !valid {
		if accepted {
			verifx.Fail(rec, c20Feat("accepts-invalid-format", toks, nil), "logger.New accepted the invalid format %q", format)
		}
		return ""
	}
	if !accepted {
		verifx.Fail(rec, c20Feat("rejects-valid-format", toks, nil), "logger.New rejected the valid format %q", format)
		return ""
	}
	if ae == nil {
		return ""
	}
	// an event whose rendering is empty: the logger writes nothing instead of an empty line (scope)
	if out == "" && c20In("\n", std) {
		return ""
	}
	if !c20In(out, std) {
		clause := "wrong-line"
		if strings.Count(out, "\n") != 1 || !strings.HasSuffix(out, "\n") || writes != 1 {
			clause = "not-one-line"
		}
		verifx.Fail(rec, c20Feat(clause, toks, e), "format %q wrote %q (%d writes); the standard library renders %q\nupstream=%q remote=%q end=%s dur=%s size=%d",
			format, out, writes, std, e.UpstreamAddr, c20Remote(e), e.End.Format(time.RFC3339Nano), e.End.Sub(e.Start), e.Response.ContentLength)
	}
	return ""
}

func c20Remote(e *Event) string {
	if e.Request == nil {
		return "<no request>"
	}
	return e.Request.RemoteAddr
}

func c20Stack(s string) string {
	var keep []string
	lines := strings.Split(s, "\n")
	for i, l := range lines {
		if strings.Contains(l, "fabio/logger.") && !strings.Contains(l, "c20") {
			keep = append(keep, strings.TrimSpace(l))
			if i+1 < len(lines) {
				keep = append(keep, "    "+strings.TrimSpace(lines[i+1]))
			}
		}
		if len(keep) >= 8 {
			break
		}
	}
	return strings.Join(keep, "\n")
}

// ---------------------------------------------------------------- random events (real code vs standard library)

var c20AllFields = []string{"$remote_addr", "$remote_host", "$remote_port", "$request", "$request_args", "$request_host",
	"$request_method", "$request_scheme", "$request_uri", "$request_url", "$request_proto", "$response_body_size",
	"$response_status", "$response_time_ms", "$response_time_us", "$response_time_ns", "$time_rfc3339", "$time_rfc3339_ms",
	"$time_rfc3339_us", "$time_rfc3339_ns", "$time_unix_ms", "$time_unix_us", "$time_unix_ns", "$time_common", "$upstream_addr",
	"$upstream_host", "$upstream_port", "$upstream_request_scheme", "$upstream_request_uri", "$upstream_request_url", "$upstream_service"}

func c20Limbs(v int64) []int64 {
	var out []int64
	for v > 0 {
		out = append(out, v%10000)
		v /= 10000
	}
	return out
}

func c20RandEvent(r *rand.Rand) (*c20Event, bool) {
	pick := func(ss ...string) string { return ss[r.Intn(len(ss))] }
	// years 1..9999 for the civil renderings; the unix fields are only defined while UnixNano fits
	var y int
	unixOK := true
	switch r.Intn(4) {
	case 0:
		y, unixOK = 1+r.Intn(9999), false
	case 1:
		y = 1970 + r.Intn(80)
	default:
		y = 1678 + r.Intn(2261-1678)
	}
	m := 1 + r.Intn(12)
	d := 1 + r.Intn(time.Date(y, time.Month(m)+1, 0, 0, 0, 0, 0, time.UTC).Day())
	ns := []int{0, 1, 999999999, 999, 1000, 999999, 1000000, r.Intn(1000000000), r.Intn(1000000000)}[r.Intn(9)]
	hh, mi, ss := r.Intn(24), r.Intn(60), r.Intn(60)
	if r.Intn(8) == 0 {
		hh, mi, ss = 23, 59, 59
	}
	if y < 1970 || y > 2261 {
		unixOK = false // before the epoch ms/us of a negative UnixNano: truncation and floor are both "standard"; after 2262 UnixNano is undefined
	}
	var dur int64
	switch r.Intn(6) {
	case 0:
		dur = 0
	case 1:
		dur = r.Int63n(1000)
	case 2:
		dur = r.Int63n(2000000000)
	case 3:
		dur = []int64{999999999, 1000000000, 1000000001, 999999, 1000000, 59999999999, 3600000000000}[r.Intn(7)]
	case 4:
		dur = r.Int63n(1 << 52)
	default:
		dur = r.Int63n(100000000000)
	}
	var size int64
	switch r.Intn(5) {
	case 0:
		size = []int64{0, 1, 9, 10, 1<<31 - 1, 1 << 31, 1<<32 - 1, 1 << 32, 1<<63 - 1, 999999999, 1000000000}[r.Intn(11)]
	case 1:
		size = r.Int63()
	default:
		size = r.Int63n(1 << uint(1+r.Intn(62)))
	}
	addr := func() string {
		return pick("1.2.3.4:80", "backend", "backend:8080", "[::1]:443", "[::1]", "", "host.example:1", "[2001:db8::1]:65535", "10.0.0.1", "a-b.c:0", "[fe80::1]")
	}
	e := &c20Event{Req: r.Intn(12) != 0, T: []int{y, m, d, hh, mi, ss, ns}, DurS: dur / 1000000000, DurNs: dur % 1000000000,
		Size: c20Limbs(size), Status: 100 + r.Intn(900), Raddr: addr(), Uaddr: addr(),
		Method: pick("GET", "POST", "PUT", "OPTIONS"), URI: pick("/", "/a?b=c", "*", "/%2F/x", "/ü"), Proto: pick("HTTP/1.1", "HTTP/2.0", "HTTP/1.0"),
		Host: pick("example.com", "example.com:8080", "", "[::1]:80"), Svc: pick("svc", "", "a b", "svc-1")}
	if r.Intn(10) != 0 {
		e.Rurl = c20URL{true, pick("http", "https"), pick("example.com", "h:1"), pick("/", "/a/b", "", "/a b"), pick("", "x=1", "a=b&c=d")}
	}
	if r.Intn(10) != 0 {
		e.Uurl = c20URL{true, pick("http", "https"), e.Uaddr, pick("/", "/a/b", ""), pick("", "x=1")}
	}
	e.Hmap = r.Intn(15) != 0
	if r.Intn(3) != 0 {
		e.Hdr = append(e.Hdr, c20Hdr{Name: "User-Agent", Vals: []string{pick("curl/8", "", "Mozilla/5.0 (X11; \"q\")", "$remote_addr")}})
	}
	switch r.Intn(8) {
	case 0, 1:
		e.Hdr = append(e.Hdr, c20Hdr{Name: "Referer", Vals: []string{pick("http://r/", "-")}})
	case 2:
		e.Hdr = append(e.Hdr, c20Hdr{Name: "Referer", Nil: true})
	case 3:
		e.Hdr = append(e.Hdr, c20Hdr{Name: "Referer", Vals: []string{}})
	case 4:
		e.Hdr = append(e.Hdr, c20Hdr{Name: "Referer", Vals: []string{"one", "two", "three"}})
	case 5:
		e.Hdr = append(e.Hdr, c20Hdr{Name: "referer", Vals: []string{"filed under a lower-case key"}})
	}
	if r.Intn(6) == 0 {
		e.Hdr = append(e.Hdr, c20Hdr{Name: "X-None", Nil: r.Intn(2) == 0, Vals: []string{}})
	}
	return e, unixOK
}

func c20RandFormat(r *rand.Rand, unixOK bool) []c20Tok {
	n := 1 + r.Intn(6)
	var toks []c20Tok
	lastText := true // a leading text token may start with anything
	for i := 0; i < n; i++ {
		switch k := r.Intn(10); {
		case k < 6:
			f := c20AllFields[r.Intn(len(c20AllFields))]
			if !unixOK && strings.HasPrefix(f, "$time_unix") {
				f = "$time_rfc3339_ns"
			}
			toks = append(toks, c20Tok{"field", f})
			lastText = false
		case k < 7:
			toks = append(toks, c20Tok{"header", "$header." + []string{"User-Agent", "user-agent", "Referer", "X-None"}[r.Intn(4)]})
			lastText = false
		default:
			if lastText && i > 0 {
				continue
			}
			toks = append(toks, c20Tok{"text", []string{" ", " - ", "\" \"", "[", "] ", " | ", "\t", "µs ", " ✓ ", "ü=日本 ", "😀"}[r.Intn(11)]})
			lastText = true
		}
	}
	return toks
}

// ---------------------------------------------------------------- atoi

func c20Atoi(r *rand.Rand, n int) (ran int64) {
	check := func(v int64, pad int) {
		ran++
		var b bytes.Buffer
		p, _ := verifx.Safely(func() { atoi(&b, v, pad) })
		var want string
		if v < 0 {
			want = strconv.FormatInt(v, 10) // negative values are never padded by any field
			pad = 0
			b.Reset()
			p, _ = verifx.Safely(func() { atoi(&b, v, 0) })
		} else {
			want = fmt.Sprintf("%0*d", pad, v)
		}
		if p != nil || b.String() != want {
			cls := "positive"
			if v < 0 {
				cls = "negative"
			}
			verifx.Fail(map[string]any{"kind": "atoi", "v": strconv.FormatInt(v, 10), "pad": pad},
				map[string]any{"sub": "logger", "clause": "atoi", "sign": cls, "padded": pad > 0},
				"atoi(%d, pad %d) = %q (panic %v), the standard library renders %q", v, pad, b.String(), p, want)
		}
	}
	bounds := []int64{0, 1, 9, 10, 99, 100, 999, 1000, 9999, 10000, 99999, 999999, 1000000, 999999999, 1000000000,
		math.MaxInt32, math.MaxInt32 + 1, math.MaxUint32, math.MaxUint32 + 1, math.MaxInt64, math.MaxInt64 - 1, -1, -9, -10, math.MinInt64 + 1, math.MinInt32}
	for _, v := range bounds {
		for pad := 0; pad <= 12; pad++ {
			check(v, pad)
		}
	}
	for k := 0; k < 63; k++ {
		for _, dlt := range []int64{-1, 0, 1} {
			check(int64(1)<<uint(k)+dlt, k%10)
		}
	}
	p10 := int64(1)
	for k := 0; k < 18; k++ {
		p10 *= 10
		check(p10-1, k%10)
		check(p10, (k+3)%10)
	}
	for i := 0; i < n; i++ {
		v := r.Int63()
		if r.Intn(2) == 0 {
			v >>= uint(r.Intn(63))
		}
		if r.Intn(4) == 0 {
			v = -v // never MinInt64: no log field can take it (documented scope)
		}
		check(v, r.Intn(13))
	}
	return ran
}

// ---------------------------------------------------------------- driver

func TestVerifC20Logger(t *testing.T) {
	var events []c20Event
	var cases []c20Case
	var decs int64
	err := verifx.EachCase("", func(raw []byte) error {
		var c c20Case
		if err := json.Unmarshal(raw, &c); err != nil {
			return fmt.Errorf("bad case: %v", err)
		}
		for i := range c.Fmt {
			c.Fmt[i].V = c20Expand(c.Fmt[i].V)
		}
		for i := range c.Lines {
			c.Lines[i] = c20Expand(c.Lines[i])
		}
		switch {
		case c.Events != nil:
			events = c.Events
		case c.Dec != nil:
			for _, d := range c.Dec {
				decs++
				var b bytes.Buffer
				p, _ := verifx.Safely(func() { atoi(&b, d.N, d.W) })
				std := fmt.Sprintf("%0*d", d.W, d.N)
				if std != d.S {
					verifx.Emit(map[string]any{"kind": "oracle", "msg": fmt.Sprintf("Dec(%d,%d): spec %q, fmt %q", d.N, d.W, d.S, std)})
				}
				if p != nil || b.String() != d.S {
					verifx.Fail(map[string]any{"kind": "atoi", "v": strconv.FormatInt(d.N, 10), "pad": d.W}, map[string]any{"sub": "logger", "clause": "atoi", "sign": "positive", "padded": d.W > 0},
						"atoi(%d, pad %d) = %q (panic %v), the specification's Dec gives %q", d.N, d.W, b.String(), p, d.S)
				}
			}
		default:
			cases = append(cases, c)
		}
		return nil
	})
	if err != nil {
		t.Fatal(err)
	}
	var ran, distinct, accepted, oracleBad int64
	var samples []string
	var mu sync.Mutex
	jobs := make(chan int, 1024)
	var wg sync.WaitGroup
	seenFmt := sync.Map{}
	for w := 0; w < runtime.NumCPU(); w++ {
		wg.Add(1)
		go func() {
			defer wg.Done()
			for i := range jobs {
				c := &cases[i]
				var ae *c20Event
				if c.Ev != nil {
					ae = c.Ev
				} else if c.E >= 1 && c.E <= len(events) {
					ae = &events[c.E-1]
				} else if c.Accept {
					verifx.Emit(map[string]any{"kind": "error", "msg": fmt.Sprintf("case refers to event %d of %d", c.E, len(events))})
					continue
				}
				haveTLC := c.Ev == nil || c.Lines != nil
				if msg := c20Check(c.Fmt, ae, c.Accept, c.Lines, haveTLC); msg != "" {
					if atomic.AddInt64(&oracleBad, 1) <= 5 {
						verifx.Emit(map[string]any{"kind": "oracle", "msg": msg})
					}
				}
				atomic.AddInt64(&ran, 1)
				if c.Accept {
					atomic.AddInt64(&accepted, 1)
					if _, dup := seenFmt.LoadOrStore(c20Format(c.Fmt)+"|"+strconv.Itoa(c.E), true); !dup && len(c.Fmt) >= 2 {
						atomic.AddInt64(&distinct, 1)
					}
				}
				if i%2503 == 11 && c.Accept {
					mu.Lock()
					if len(samples) < 3 {
						samples = append(samples, fmt.Sprintf("%q on event %d => %q", c20Format(c.Fmt), c.E, c.Lines))
					}
					mu.Unlock()
				}
			}
		}()
	}
	for i := range cases {
		jobs <- i
	}
	close(jobs)
	wg.Wait()

	// seeded random events: the real logger against the standard library
	nrand := verifx.EnvInt("VERIF_C20_RANDOM", 0)
	var randRan int64
	if nrand > 0 {
		workers := runtime.NumCPU()
		var wg2 sync.WaitGroup
		for w := 0; w < workers; w++ {
			wg2.Add(1)
			go func(w int) {
				defer wg2.Done()
				r := rand.New(rand.NewSource(verifx.Seed()*7919 + int64(w)))
				for i := 0; i < nrand/workers+1; i++ {
					ae, unixOK := c20RandEvent(r)
					var toks []c20Tok
					if i%3 == 0 { // every single documented field
						f := c20AllFields[(i/3)%len(c20AllFields)]
						if !unixOK && strings.HasPrefix(f, "$time_unix") {
							f = "$time_common"
						}
						toks = []c20Tok{{"field", f}}
					} else {
						toks = c20RandFormat(r, unixOK)
					}
					if len(toks) == 0 {
						continue
					}
					c20Check(toks, ae, true, nil, false)
					atomic.AddInt64(&randRan, 1)
				}
			}(w)
		}
		wg2.Wait()
	}
	natoi := c20Atoi(verifx.Rand(), verifx.EnvInt("VERIF_C20_ATOI", 0))
	verifx.Summary(map[string]any{"cases": len(cases), "ran": ran, "accepted": accepted, "distinct_nontrivial": distinct, "events": len(events),
		"random": randRan, "atoi": natoi, "dec_cases": decs, "oracle_disagreements": oracleBad, "samples": samples})
}
