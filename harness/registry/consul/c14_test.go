package consul

// C14 conformance: every registration enumerated by TLC from spec/Registration_MC is turned
// into commands by the real routecmd.build; an expressible registration must yield exactly one
// command that fabio's own parser accepts and that denotes the registered service, prefix,
// destination (protocol), weight, tags and options; an inexpressible one must be dropped.

import (
	"bytes"
	"encoding/json"
	"fmt"
	"math"
	"net"
	"sort"
	"strconv"
	"strings"
	"testing"

	"github.com/fabiolb/fabio/internal/verifx"
	froute "github.com/fabiolb/fabio/route"
	"github.com/hashicorp/consul/api"
)

type c14Reg struct {
	Name     string   `json:"name"`
	Addr     string   `json:"addr"`
	NodeAddr string   `json:"nodeaddr"`
	Port     string   `json:"port"`
	Prefix   string   `json:"prefix"`
	Opts     []string `json:"opts"`
	Tags     []string `json:"tags"`
}

type c14Denote struct {
	Svc string `json:"svc"`
	Src string `json:"src"`
	Dst struct {
		Scheme   string `json:"scheme"`
		Hostport string `json:"hostport"`
		URL      string `json:"url"`
	} `json:"dst"`
	Weight string   `json:"weight"`
	Tags   []string `json:"tags"`
	Opts   []string `json:"opts"`
}

type c14Case struct {
	Reg         c14Reg    `json:"reg"`
	Expressible bool      `json:"expressible"`
	Denote      c14Denote `json:"denote"`
	Second      string    `json:"second"`             // prefix of an optional second routing tag (no options)
	SecondOK    bool      `json:"second_expressible"` // the second tag's command can be expressed
	Denote2     c14Denote `json:"denote2"`
	Pos         int       `json:"pos,omitempty"` // replay: position of the routing tag among the tags (1-based)
}

func c14Spell(s string) string {
	if s == "@nonascii" {
		return "grün-日本"
	}
	if s == "@newline" {
		return "x\"\nroute del svc\nroute add evil /evil http://10.6.6.6:666/\n#"
	}
	return s
}

func c14Why(r c14Reg) string {
	var why []string
	if strings.TrimSpace(r.Name) == "" || strings.ContainsAny(r.Name, " \t") {
		why = append(why, "name")
	}
	if r.Prefix == "/[" {
		why = append(why, "glob")
	}
	if r.Prefix == "@nlprefix" {
		why = append(why, "newline-in-prefix")
	}
	for _, o := range r.Opts {
		if strings.HasPrefix(o, "weight=") {
			if _, err := strconv.ParseFloat(o[7:], 64); err != nil {
				why = append(why, "weight-syntax")
			} else {
				why = append(why, "weight-"+strings.ToLower(o[7:]))
			}
		}
		if strings.Contains(o, `"`) {
			why = append(why, "quote-in-option")
		}
	}
	for _, t := range r.Tags {
		if strings.Contains(t, `"`) {
			why = append(why, "quote-in-tag")
		}
		if strings.Contains(t, `\`) {
			why = append(why, "backslash-in-tag")
		}
		if t == "@nonascii" {
			why = append(why, "nonascii-tag")
		}
		if t == "@newline" {
			why = append(why, "newline-in-tag")
		}
	}
	sort.Strings(why)
	return strings.Join(why, "+")
}

func TestVerifC14(t *testing.T) {
	seed := verifx.Seed()
	var n, expressible, nontrivial, skipped int64
	slice := verifx.EnvInt("VERIF_SLICE", 1)
	var samples []any
	err := verifx.EachCase("", func(raw []byte) error {
		var c c14Case
		if err := json.Unmarshal(raw, &c); err != nil {
			return err
		}
		n++
		// quick tier: every expressible registration, and a seed-selected share of the (far more
		// numerous) inexpressible ones
		if slice > 1 && !c.Expressible && (n+seed)%int64(slice) != 0 {
			skipped++
			return nil
		}
		if c.Expressible {
			expressible++
		}
		if len(c.Reg.Opts)+len(c.Reg.Tags) >= 2 {
			nontrivial++
		}
		port, _ := strconv.Atoi(c.Reg.Port)
		prefix := c.Reg.Prefix
		if prefix == "@nlprefix" {
			prefix = "/odd\thttp://10.6.6.6:666/\nroute\tdel\tsvc\nroute\tadd\tevil\t/evil\thttp://10.6.6.6:666/\n#"
		}
		routing := "urlprefix-" + prefix
		if len(c.Reg.Opts) > 0 {
			routing += " " + strings.Join(c.Reg.Opts, " ")
		}
		var extra []string
		for _, tg := range c.Reg.Tags {
			extra = append(extra, c14Spell(tg))
		}
		pos := int((n+seed)%int64(len(extra)+1)) + 1
		if c.Pos != 0 {
			pos = c.Pos
		}
		tags := append([]string{}, extra[:pos-1]...)
		tags = append(tags, routing)
		if c.Second != "" {
			tags = append(tags, "urlprefix-"+c.Second)
		}
		tags = append(tags, extra[pos-1:]...)
		svc := &api.CatalogService{Node: "n1", Address: c.Reg.NodeAddr, ServiceID: "id1", ServiceName: c.Reg.Name,
			ServiceAddress: c.Reg.Addr, ServicePort: port, ServiceTags: tags}
		feat := func(diff string) map[string]any {
			return map[string]any{"sub": "build", "diff": diff, "expressible": c.Expressible, "class": c14Why(c.Reg)}
		}
		cc := c
		cc.Pos = pos
		var cmds []string
		if p, stack := verifx.Safely(func() { cmds = routecmd{svc: svc, prefix: "urlprefix-", env: map[string]string{"DC": "dc1"}}.build() }); p != nil {
			verifx.Fail(cc, feat("panic"), "routecmd.build panicked: %v\n%s", p, stack)
			return nil
		}
		// what must / may come out: prefix key -> denotation
		key := func(src string) string {
			if !strings.Contains(src, "/") && !strings.HasPrefix(src, ":") {
				return src + "/"
			}
			return src
		}
		must := map[string]c14Denote{}
		may := map[string]c14Denote{}
		if c.Expressible {
			must[key(c.Denote.Src)] = c.Denote
		}
		if c.Second != "" && c.SecondOK {
			if c.Expressible {
				must[key(c.Denote2.Src)] = c.Denote2
			} else {
				// the first tag of the registration cannot be expressed: whether the plain second tag
				// survives is a matter of granularity the statement leaves open
				may[key(c.Denote2.Src)] = c.Denote2
			}
		}
		seen := map[string]bool{}
		for _, cmd := range cmds {
			if strings.ContainsAny(cmd, "\r\n") {
				verifx.Fail(cc, feat("multi-line-command"), "registration %+v yields a command that spans several lines (command injection): %q", c.Reg, cmd)
				return nil
			}
			var tbl froute.Table
			var perr error
			if p, stack := verifx.Safely(func() { tbl, perr = froute.NewTable(bytes.NewBufferString(cmd)) }); p != nil {
				verifx.Fail(cc, feat("parser-panic"), "NewTable(%q) panicked: %v\n%s", cmd, p, stack)
				return nil
			}
			if perr != nil {
				verifx.Fail(cc, feat("rejected-poisons-table"), "command %q derived from %+v is rejected by fabio's parser: %v", cmd, c.Reg, perr)
				return nil
			}
			var got []string
			var tg *froute.Target
			for host, routes := range tbl {
				for _, r := range routes {
					for _, x := range r.Targets {
						got = append(got, host+r.Path)
						tg = x
					}
				}
			}
			if len(got) != 1 {
				verifx.Fail(cc, feat("command-shape"), "command %q yields routes %q, want exactly one target", cmd, got)
				return nil
			}
			d, ok := must[got[0]]
			if !ok {
				d, ok = may[got[0]]
			}
			if !ok {
				diff := "unexpected-command"
				if !c.Expressible {
					diff = "inexpressible-not-dropped"
				}
				verifx.Fail(cc, feat(diff), "registration %+v (tags %q) yields command %q, which it does not denote", c.Reg, tags, cmd)
				return nil
			}
			if seen[got[0]] {
				verifx.Fail(cc, feat("duplicate-command"), "registration %+v yields two commands for %q", c.Reg, got[0])
				return nil
			}
			seen[got[0]] = true
			want := 0.0
			if d.Weight != "" {
				want, _ = strconv.ParseFloat(d.Weight, 64)
			}
			var wantTags []string
			for _, x := range d.Tags {
				wantTags = append(wantTags, c14Spell(x))
			}
			var gotOpts []string
			for k, v := range tg.Opts {
				gotOpts = append(gotOpts, k+"="+v)
			}
			sort.Strings(gotOpts)
			wantOpts := append([]string{}, d.Opts...)
			sort.Strings(wantOpts)
			which := "first"
			if got[0] == key(c.Denote2.Src) && c.Second != "" {
				which = "second"
			}
			f2 := func(diff string) map[string]any { m := feat(diff); m["tag"] = which; return m }
			_, _, splitErr := net.SplitHostPort(tg.URL.Host)
			switch {
			case tg.Service != d.Svc:
				verifx.Fail(cc, f2("service"), "command %q: service %q, want %q", cmd, tg.Service, d.Svc)
			case d.Dst.URL != "" && tg.URL.String() != d.Dst.URL:
				verifx.Fail(cc, f2("destination"), "command %q: redirect target %q, want %q", cmd, tg.URL.String(), d.Dst.URL)
			case d.Dst.URL == "" && (tg.URL.Scheme != d.Dst.Scheme || tg.URL.Host != d.Dst.Hostport || (tg.URL.Path != "" && tg.URL.Path != "/")):
				verifx.Fail(cc, f2("destination"), "command %q: destination %q, want protocol %q address %q", cmd, tg.URL.String(), d.Dst.Scheme, d.Dst.Hostport)
			case d.Dst.URL == "" && splitErr != nil:
				verifx.Fail(cc, f2("destination"), "command %q: destination address %q cannot be dialled: %v", cmd, tg.URL.Host, splitErr)
			case math.Abs(tg.FixedWeight-want) > 1e-12:
				verifx.Fail(cc, f2("weight"), "command %q: weight %v, want %v", cmd, tg.FixedWeight, want)
			case fmt.Sprintf("%q", tg.Tags) != fmt.Sprintf("%q", wantTags) && !(len(tg.Tags) == 0 && len(wantTags) == 0):
				verifx.Fail(cc, f2("tags"), "command %q: tags %q, want %q", cmd, tg.Tags, wantTags)
			case strings.Join(gotOpts, " ") != strings.Join(wantOpts, " "):
				verifx.Fail(cc, f2("opts"), "command %q: options %q, want %q", cmd, gotOpts, wantOpts)
			}
		}
		for k := range must {
			if !seen[k] {
				verifx.Fail(cc, feat("missing-command"), "registration %+v (tags %q) yields %q: no command for the advertised prefix %q", c.Reg, tags, cmds, k)
				break
			}
		}
		if n%20011 == 5 && len(samples) < 4 {
			samples = append(samples, map[string]any{"tags": tags, "name": c.Reg.Name, "commands": cmds})
		}
		return nil
	})
	if err != nil {
		t.Fatal(err)
	}
	verifx.Summary(map[string]any{"cases": n - skipped, "generated": n, "expressible": expressible, "distinct_nontrivial": nontrivial, "samples": samples})
}
