package consul

// C14 conformance: every registration enumerated by TLC from spec/Registration_MC is turned
// into commands by the real routecmd.build; an expressible registration must yield exactly one
// command that fabio's own parser accepts and that denotes the registered service, prefix,
// destination (protocol), weight, tags and options; an inexpressible one must be dropped.

import (
	"bytes"
	"encoding/json"
	"fmt"
	"math"
	"sort"
	"strconv"
	"strings"
	"testing"

	"github.com/fabiolb/fabio/internal/verifx"
	froute "github.com/fabiolb/fabio/route"
	"github.com/hashicorp/consul/api"
)

type c14Reg struct {
	Name     string   `json:"name"`
	Addr     string   `json:"addr"`
	NodeAddr string   `json:"nodeaddr"`
	Port     string   `json:"port"`
	Prefix   string   `json:"prefix"`
	Opts     []string `json:"opts"`
	Tags     []string `json:"tags"`
}

type c14Denote struct {
	Svc string `json:"svc"`
	Src string `json:"src"`
	Dst struct {
		Scheme   string `json:"scheme"`
		Hostport string `json:"hostport"`
		URL      string `json:"url"`
	} `json:"dst"`
	Weight string   `json:"weight"`
	Tags   []string `json:"tags"`
	Opts   []string `json:"opts"`
}

type c14Case struct {
	Reg         c14Reg    `json:"reg"`
	Expressible bool      `json:"expressible"`
	Denote      c14Denote `json:"denote"`
	Pos         int       `json:"pos,omitempty"` // replay: position of the routing tag among the tags (1-based)
}

func c14Spell(s string) string {
	if s == "@nonascii" {
		return "grün-日本"
	}
	return s
}

func c14Why(r c14Reg) string {
	var why []string
	if strings.TrimSpace(r.Name) == "" || strings.ContainsAny(r.Name, " \t") {
		why = append(why, "name")
	}
	if r.Prefix == "/[" {
		why = append(why, "glob")
	}
	for _, o := range r.Opts {
		if strings.HasPrefix(o, "weight=") {
			if _, err := strconv.ParseFloat(o[7:], 64); err != nil {
				why = append(why, "weight-syntax")
			} else {
				why = append(why, "weight-"+strings.ToLower(o[7:]))
			}
		}
		if strings.Contains(o, `"`) {
			why = append(why, "quote-in-option")
		}
	}
	for _, t := range r.Tags {
		if strings.Contains(t, `"`) {
			why = append(why, "quote-in-tag")
		}
		if strings.Contains(t, `\`) {
			why = append(why, "backslash-in-tag")
		}
		if t == "@nonascii" {
			why = append(why, "nonascii-tag")
		}
	}
	sort.Strings(why)
	return strings.Join(why, "+")
}

func TestVerifC14(t *testing.T) {
	seed := verifx.Seed()
	var n, expressible, nontrivial int64
	var samples []any
	err := verifx.EachCase("", func(raw []byte) error {
		var c c14Case
		if err := json.Unmarshal(raw, &c); err != nil {
			return err
		}
		n++
		if c.Expressible {
			expressible++
		}
		if len(c.Reg.Opts)+len(c.Reg.Tags) >= 2 {
			nontrivial++
		}
		port, _ := strconv.Atoi(c.Reg.Port)
		routing := "urlprefix-" + c.Reg.Prefix
		if len(c.Reg.Opts) > 0 {
			routing += " " + strings.Join(c.Reg.Opts, " ")
		}
		var extra []string
		for _, tg := range c.Reg.Tags {
			extra = append(extra, c14Spell(tg))
		}
		pos := int((n+seed)%int64(len(extra)+1)) + 1
		if c.Pos != 0 {
			pos = c.Pos
		}
		tags := append([]string{}, extra[:pos-1]...)
		tags = append(tags, routing)
		tags = append(tags, extra[pos-1:]...)
		svc := &api.CatalogService{Node: "n1", Address: c.Reg.NodeAddr, ServiceID: "id1", ServiceName: c.Reg.Name,
			ServiceAddress: c.Reg.Addr, ServicePort: port, ServiceTags: tags}
		feat := func(diff string) map[string]any {
			return map[string]any{"sub": "build", "diff": diff, "expressible": c.Expressible, "class": c14Why(c.Reg)}
		}
		cc := c
		cc.Pos = pos
		var cmds []string
		if p, stack := verifx.Safely(func() { cmds = routecmd{svc: svc, prefix: "urlprefix-", env: map[string]string{"DC": "dc1"}}.build() }); p != nil {
			verifx.Fail(cc, feat("panic"), "routecmd.build panicked: %v\n%s", p, stack)
			return nil
		}
		if !c.Expressible {
			if len(cmds) != 0 {
				// is it at least rejected by the parser on its own?  (that is the poison case)
				_, perr := froute.NewTable(bytes.NewBufferString(strings.Join(cmds, "\n")))
				d := "inexpressible-not-dropped-but-accepted"
				if perr != nil {
					d = "inexpressible-not-dropped-poisons-table"
				}
				verifx.Fail(cc, feat(d), "registration %+v cannot be expressed but yields %q (parser: %v)", c.Reg, cmds, perr)
			}
			return nil
		}
		if len(cmds) != 1 {
			verifx.Fail(cc, feat("command-count"), "registration %+v yields %d commands %q, want 1", c.Reg, len(cmds), cmds)
			return nil
		}
		var tbl froute.Table
		var perr error
		if p, stack := verifx.Safely(func() { tbl, perr = froute.NewTable(bytes.NewBufferString(cmds[0])) }); p != nil {
			verifx.Fail(cc, feat("parser-panic"), "NewTable(%q) panicked: %v\n%s", cmds[0], p, stack)
			return nil
		}
		if perr != nil {
			verifx.Fail(cc, feat("rejected"), "command %q derived from %+v is rejected by fabio's parser: %v", cmds[0], c.Reg, perr)
			return nil
		}
		// the table must hold exactly the denoted target
		var got []string
		var tg *froute.Target
		for host, routes := range tbl {
			for _, r := range routes {
				for _, x := range r.Targets {
					got = append(got, host+r.Path)
					tg = x
				}
			}
		}
		src := c.Denote.Src
		if !strings.Contains(src, "/") && !strings.HasPrefix(src, ":") {
			src += "/"
		}
		if len(got) != 1 || got[0] != src {
			verifx.Fail(cc, feat("prefix"), "command %q routes %q, want exactly %q", cmds[0], got, src)
			return nil
		}
		want := 0.0
		if c.Denote.Weight != "" {
			want, _ = strconv.ParseFloat(c.Denote.Weight, 64)
		}
		var wantTags []string
		for _, x := range c.Denote.Tags {
			wantTags = append(wantTags, c14Spell(x))
		}
		var gotOpts []string
		for k, v := range tg.Opts {
			gotOpts = append(gotOpts, k+"="+v)
		}
		sort.Strings(gotOpts)
		wantOpts := append([]string{}, c.Denote.Opts...)
		sort.Strings(wantOpts)
		switch {
		case tg.Service != c.Denote.Svc:
			verifx.Fail(cc, feat("service"), "command %q: service %q, want %q", cmds[0], tg.Service, c.Denote.Svc)
		case c.Denote.Dst.URL != "" && tg.URL.String() != c.Denote.Dst.URL:
			verifx.Fail(cc, feat("destination"), "command %q: redirect target %q, want %q", cmds[0], tg.URL.String(), c.Denote.Dst.URL)
		case c.Denote.Dst.URL == "" && (tg.URL.Scheme != c.Denote.Dst.Scheme || tg.URL.Host != c.Denote.Dst.Hostport || (tg.URL.Path != "" && tg.URL.Path != "/")):
			verifx.Fail(cc, feat("destination"), "command %q: destination %q, want protocol %q address %q", cmds[0], tg.URL.String(), c.Denote.Dst.Scheme, c.Denote.Dst.Hostport)
		case math.Abs(tg.FixedWeight-want) > 1e-12:
			verifx.Fail(cc, feat("weight"), "command %q: weight %v, want %v", cmds[0], tg.FixedWeight, want)
		case fmt.Sprintf("%q", tg.Tags) != fmt.Sprintf("%q", wantTags) && !(len(tg.Tags) == 0 && len(wantTags) == 0):
			verifx.Fail(cc, feat("tags"), "command %q: tags %q, want %q", cmds[0], tg.Tags, wantTags)
		case strings.Join(gotOpts, " ") != strings.Join(wantOpts, " "):
			verifx.Fail(cc, feat("opts"), "command %q: options %q, want %q", cmds[0], gotOpts, wantOpts)
		}
		if n%20011 == 5 && len(samples) < 4 {
			samples = append(samples, map[string]any{"tags": tags, "name": c.Reg.Name, "commands": cmds})
		}
		return nil
	})
	if err != nil {
		t.Fatal(err)
	}
	verifx.Summary(map[string]any{"cases": n, "expressible": expressible, "distinct_nontrivial": nontrivial, "samples": samples})
}
