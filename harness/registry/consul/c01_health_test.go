package consul

// C01 conformance, health-rule part: every check multiset enumerated by TLC from
// spec/Health_MC, in seeded permutations and under all 28 configurations, through the real
// checksWithTagPrefix + passingServices; the set of routed instances must equal the one the
// rule of spec/Health.tla prescribes.

import (
	"encoding/json"
	"fmt"
	"math/rand"
	"testing"

	"github.com/fabiolb/fabio/internal/verifx"
	"github.com/hashicorp/consul/api"
)

type c01Check struct {
	Node string `json:"node"`
	Sid  string `json:"sid"`
	Kind string `json:"kind"`
	St   string `json:"st"`
}

type c01HealthCase struct {
	Checks []c01Check `json:"checks"`
	Masks  []int      `json:"masks"`
	Config int        `json:"config,omitempty"` // replay: 1-based configuration index
	Perm   []int      `json:"perm,omitempty"`   // replay: permutation of the checks
}

var c01Acc = [][]string{{"passing"}, {"passing", "warning"}, {"passing", "warning", "critical"}, {"warning"},
	{"critical"}, {"passing", "critical"}, {"warning", "critical"}}
// which instances (node|service id) carry the routing tag; order as in Health_MC!Tagged
var c01Tagged = []map[string]bool{
	{"n1|s1": true, "n1|s2": true, "n2|s1": true, "n2|s2": true},
	{"n1|s1": true, "n2|s1": true},
	{"n1|s2": true, "n2|s1": true, "n2|s2": true},
	{"n1|s1": true, "n1|s2": true, "n2|s2": true},
}
var c01Inst = [][2]string{{"n1", "s1"}, {"n1", "s2"}, {"n2", "s1"}, {"n2", "s2"}}

func c01Concrete(c c01Check, tagged map[string]bool) *api.HealthCheck {
	h := &api.HealthCheck{Node: c.Node, Status: c.St, Output: "out"}
	tags := []string{"plain", "v1"}
	if tagged[c.Node+"|"+c.Sid] {
		tags = []string{"plain", "urlprefix-/" + c.Sid}
	}
	switch c.Kind {
	case "serf":
		h.CheckID, h.Name = "serfHealth", "Serf Health Status"
	case "nodemaint":
		h.CheckID, h.Name = "_node_maintenance", "Node Maintenance Mode"
	case "svcmaint":
		h.CheckID, h.Name = "_service_maintenance:"+c.Sid, "Service Maintenance Mode"
		h.ServiceID, h.ServiceName, h.ServiceTags = c.Sid, "svc-"+c.Sid, tags
	default:
		h.CheckID, h.Name = "service:"+c.Sid+":"+c.Kind, "check "+c.Kind
		h.ServiceID, h.ServiceName, h.ServiceTags = c.Sid, "svc-"+c.Sid, tags
	}
	return h
}

func c01Mask(ps []*api.HealthCheck) int {
	m := 0
	for _, p := range ps {
		for k, in := range c01Inst {
			if p.Node == in[0] && p.ServiceID == in[1] {
				m |= 1 << k
			}
		}
	}
	return m
}

func TestVerifC01Health(t *testing.T) {
	rnd := rand.New(rand.NewSource(verifx.Seed()))
	var cases, evals, nontrivial int
	var samples []any
	err := verifx.EachCase("", func(raw []byte) error {
		var c c01HealthCase
		if err := json.Unmarshal(raw, &c); err != nil {
			return err
		}
		if len(c.Masks) != 56 {
			return fmt.Errorf("case without 56 masks")
		}
		cases++
		routed := false
		for cfg := 1; cfg <= 56; cfg++ {
			if c.Config != 0 && cfg != c.Config {
				continue
			}
			a, r := (cfg-1)/8, (cfg-1)%8
			strict, tagged := r/4 == 1, c01Tagged[r%4]
			want := c.Masks[cfg-1]
			if want != 0 {
				routed = true
			}
			perms := 3
			if len(c.Checks) == 1 {
				perms = 1
			}
			for p := 0; p < perms; p++ {
				perm := rnd.Perm(len(c.Checks))
				if p == 0 {
					for i := range perm {
						perm[i] = i
					}
				}
				if c.Perm != nil {
					perm = c.Perm
				}
				var hc api.HealthChecks
				for _, i := range perm {
					hc = append(hc, c01Concrete(c.Checks[i], tagged))
				}
				var got int
				pv, stack := verifx.Safely(func() { got = c01Mask(passingServices(checksWithTagPrefix("urlprefix-", hc), c01Acc[a], strict)) })
				evals++
				if pv != nil {
					cc := c
					cc.Config, cc.Perm = cfg, perm
					verifx.Fail(cc, map[string]any{"sub": "health", "diff": "panic"}, "panic: %v\n%s", pv, stack)
					continue
				}
				if got != want {
					cc := c
					cc.Config, cc.Perm = cfg, perm
					verifx.Fail(cc, map[string]any{"sub": "health", "diff": "instances", "strict": strict, "tagged_variant": r % 4},
						"checks %+v (order %v), accepted %v, strict=%v, tagged=%v: routed instance mask %04b, the rule prescribes %04b (bit k = %v)",
						c.Checks, perm, c01Acc[a], strict, tagged, got, want, c01Inst)
				}
				if c.Perm != nil {
					break
				}
			}
		}
		if routed && len(c.Checks) >= 2 {
			nontrivial++
		}
		if cases%3001 == 17 && len(samples) < 3 {
			samples = append(samples, c)
		}
		return nil
	})
	if err != nil {
		t.Fatal(err)
	}
	verifx.Summary(map[string]any{"cases": cases, "evaluations": evals, "distinct_nontrivial": nontrivial, "samples": samples})
}
