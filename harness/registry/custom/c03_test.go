package custom

// C03 behind the custom registry back end (Match_MC!RejectDoc): the real poll loop (customRoutes)
// fetches its documents from an httptest endpoint.  A document the table builder accepts becomes
// the table in force; a LATER document that is refused (valid entries of one configuration
// followed by an invalid entry) changes nothing: every lookup is still served by the route
// Match's Answer prescribes for the last accepted table.

import (
	crypto_tls "crypto/tls"
	"encoding/json"
	"fmt"
	"net/http"
	"net/http/httptest"
	"net/url"
	"sort"
	"strconv"
	"strings"
	"sync"
	"testing"
	"time"

	"github.com/fabiolb/fabio/config"
	"github.com/fabiolb/fabio/internal/verifx"
	"github.com/fabiolb/fabio/route"
)

type c03cHost struct {
	Name []string `json:"name"`
	Port []string `json:"port"`
}

func (h c03cHost) String() string {
	s := strings.Join(h.Name, "")
	if len(h.Port) > 0 {
		s += ":" + strings.Join(h.Port, "")
	}
	return s
}

type c03cUniverse struct {
	Pats   []c03cHost `json:"pats"`
	Paths  [][]string `json:"paths"`
	Hosts  []c03cHost `json:"hosts"`
	RPaths [][]string `json:"rpaths"`
	Combos []struct {
		M string `json:"m"`
		G int    `json:"g"`
	} `json:"combos"`
	NPath int `json:"npath"`
}

type c03cRoute struct {
	ID   int    `json:"id"`
	Host string `json:"host"`
	Path string `json:"path"`
}

type c03cLine struct {
	Universe *c03cUniverse `json:"universe,omitempty"`
	T        []int         `json:"t"`
	D        []int         `json:"d"`
	O        []string      `json:"o"`
	B        []int         `json:"b"`
	H        int           `json:"h"`
	TLS      int           `json:"tls"`
	W        [][]int       `json:"w"`
}

func c03cDoc(routes []c03cRoute, invalid int) string {
	var defs []map[string]any
	for _, r := range routes {
		defs = append(defs, map[string]any{"cmd": "route add", "service": fmt.Sprintf("r%d", r.ID), "src": r.Host + r.Path,
			"dst": fmt.Sprintf("http://127.0.0.1:%d/", 10000+r.ID)})
	}
	switch invalid {
	case 1:
		defs = append(defs, map[string]any{"cmd": "route frob", "service": "bad"})
	case 2:
		defs = append(defs, map[string]any{"cmd": "route add", "service": "bad", "src": "", "dst": "http://127.0.0.1:9/"})
	case 3:
		defs = append(defs, map[string]any{"cmd": "route add", "service": "bad", "src": "bad.io/", "dst": ""})
	}
	b, _ := json.Marshal(defs)
	return string(b)
}

func TestVerifC03Custom(t *testing.T) {
	fatal := func(format string, a ...any) {
		verifx.Emit(map[string]any{"kind": "error", "msg": fmt.Sprintf(format, a...)})
		t.Fatalf(format, a...)
	}
	var mu sync.Mutex
	cond := sync.NewCond(&mu)
	body := "[]"
	gen, served, pending := 0, -1, -1
	srv := httptest.NewServer(http.HandlerFunc(func(w http.ResponseWriter, r *http.Request) {
		mu.Lock()
		// a new poll starts only after the previous one was processed completely
		if pending >= 0 {
			served = pending
		}
		pending = gen
		b := body
		cond.Broadcast()
		mu.Unlock()
		w.Header().Set("Content-Type", "application/json")
		w.Write([]byte(b))
	}))
	defer srv.Close()
	saved := route.GetTable()
	defer route.SetTable(saved)
	cfg := &config.Custom{Host: strings.TrimPrefix(srv.URL, "http://"), Scheme: "http", Path: "routes",
		PollInterval: time.Millisecond, Timeout: 5 * time.Second}
	ch := make(chan string, 16)
	go func() {
		for range ch {
		}
	}()
	go customRoutes(cfg, ch)
	set := func(b string) error {
		mu.Lock()
		defer mu.Unlock()
		gen++
		body = b
		stop := make(chan struct{})
		go func() {
			select {
			case <-stop:
			case <-time.After(20 * time.Second):
				mu.Lock()
				gen = -1000000
				cond.Broadcast()
				mu.Unlock()
			}
		}()
		defer close(stop)
		for served < gen && gen >= 0 {
			cond.Wait()
		}
		if gen < 0 {
			return fmt.Errorf("custom back end stopped polling")
		}
		return nil
	}
	cache := route.NewGlobCache(1000)
	var cur *c03cUniverse
	var lines, lookups, routed, polls, rejected int64
	installed := ""
	conv := func(ids []int) ([]c03cRoute, error) {
		var rs []c03cRoute
		for _, id := range ids {
			pi, qi := (id-1)/cur.NPath, (id-1)%cur.NPath
			if id < 1 || pi >= len(cur.Pats) || qi >= len(cur.Paths) {
				return nil, fmt.Errorf("route index %d outside the universe", id)
			}
			rs = append(rs, c03cRoute{ID: id, Host: cur.Pats[pi].String(), Path: strings.Join(cur.Paths[qi], "")})
		}
		return rs, nil
	}
	err := verifx.EachCase("", func(raw []byte) error {
		var l c03cLine
		if err := json.Unmarshal(raw, &l); err != nil {
			return fmt.Errorf("bad line: %v", err)
		}
		if l.Universe != nil {
			cur = l.Universe
			return nil
		}
		if cur == nil {
			return fmt.Errorf("case line before any universe line")
		}
		if len(l.D) > 0 || len(l.O) > 0 || l.H < 1 || l.H > len(cur.Hosts) || len(l.W) != len(cur.RPaths) {
			return nil
		}
		routes, err := conv(l.T)
		if err != nil {
			return err
		}
		bad, err := conv(l.B)
		if err != nil {
			return err
		}
		// the refused document lists its valid entries shortest path first
		sort.Slice(bad, func(i, j int) bool {
			return len(bad[i].Path) < len(bad[j].Path) || len(bad[i].Path) == len(bad[j].Path) && bad[i].ID < bad[j].ID
		})
		invalid := 0
		if len(bad) > 0 {
			invalid = 1 + (l.B[0]+l.T[0])%3
		}
		key := fmt.Sprint(l.T, l.B)
		if key != installed {
			if err := set("[]"); err != nil {
				return err
			}
			if err := set(c03cDoc(routes, 0)); err != nil {
				return err
			}
			polls += 2
			if len(bad) > 0 {
				if err := set(c03cDoc(bad, invalid)); err != nil {
					return err
				}
				polls++
				rejected++
			}
			installed = key
		}
		lines++
		host := cur.Hosts[l.H-1].String()
		for q, row := range l.W {
			for k, want := range row {
				if want < 0 || k >= len(cur.Combos) {
					continue
				}
				path := strings.Join(cur.RPaths[q], "")
				req := &http.Request{Method: "GET", Host: host, URL: &url.URL{Path: path}, Header: http.Header{}, RequestURI: path}
				if l.TLS == 1 {
					req.TLS = &crypto_tls.ConnectionState{}
				}
				got := 0
				p, stack := verifx.Safely(func() {
					tg := route.GetTable().Lookup(req, "", route.Picker["rr"], route.Matcher[cur.Combos[k].M], cache, cur.Combos[k].G != 1)
					if tg != nil {
						n, err := strconv.Atoi(strings.TrimPrefix(tg.Service, "r"))
						if err != nil {
							n = -99
						}
						got = n
					}
				})
				lookups++
				if want > 0 {
					routed++
				}
				if p == nil && got == want {
					continue
				}
				phase := "accepted-document"
				if len(bad) > 0 {
					phase = "after-refused-document"
				}
				feat := map[string]any{"kind": "custom", "matcher": cur.Combos[k].M, "glob": map[bool]string{true: "on", false: "off"}[cur.Combos[k].G == 1], "phase": phase}
				switch {
				case p != nil:
					feat["clause"] = "panic"
				case want > 0 && got == 0:
					feat["clause"] = "no-route"
				case want == 0:
					feat["clause"] = "spurious-route"
				default:
					feat["clause"] = "wrong-route"
				}
				verifx.Fail(map[string]any{"custom": map[string]any{"accepted": routes, "refused": bad, "invalid": invalid}}, feat,
					"custom back end: accepted document %s, then refused document %s; Lookup host=%q tls=%v path=%q matcher=%s glob=%v served by r%d, the specification prescribes r%d (r0 = no route; table in force = the accepted document) %v %s",
					c03cDoc(routes, 0), c03cDoc(bad, invalid), host, l.TLS == 1, path, cur.Combos[k].M, cur.Combos[k].G == 1, got, want, p, stack)
				return nil
			}
		}
		return nil
	})
	if err != nil {
		fatal("%v", err)
	}
	verifx.Summary(map[string]any{"lines": lines, "lookups": lookups, "routed": routed, "polls": polls, "refused": rejected})
}
