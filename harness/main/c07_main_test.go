package main

// C07 through the real wiring of package main: the proxy is main.newHTTPProxy (its own Lookup function, its own
// transports, every metrics handler set), the no-route page reaches fabio through main.watchNoRouteHTML from a
// scripted registry back end, listeners are proxy.ListenAndServeHTTP.  The cases, the runner and the judging are
// those of harness/proxy (common_verif_test.go, c07_test.go), compiled into this package by the check.

import (
	"crypto/tls"
	"errors"
	"net"
	"net/http"
	"sync"
	"testing"
	"time"

	"github.com/fabiolb/fabio/config"
	"github.com/fabiolb/fabio/metrics"
	"github.com/fabiolb/fabio/proxy"
	"github.com/fabiolb/fabio/registry"
)

// c07Backend is a registry back end that delivers what the test hands it.
type c07Backend struct {
	html chan string
	svc  chan string
	man  chan string
}

func (b *c07Backend) Register([]string) error                   { return nil }
func (b *c07Backend) DeregisterAll() error                      { return nil }
func (b *c07Backend) Deregister(string) error                   { return nil }
func (b *c07Backend) ManualPaths() ([]string, error)            { return nil, nil }
func (b *c07Backend) ReadManual(string) (string, uint64, error) { return "", 0, nil }
func (b *c07Backend) WriteManual(string, string, uint64) (bool, error) {
	return false, errors.New("not supported")
}
func (b *c07Backend) WatchServices() chan string    { return b.svc }
func (b *c07Backend) WatchManual() chan string      { return b.man }
func (b *c07Backend) WatchNoRouteHTML() chan string { return b.html }

var (
	c07MainOnce sync.Once
	c07MainBE   = &c07Backend{html: make(chan string), svc: make(chan string), man: make(chan string)}
)

func init() {
	cvxMakeProxy = func(w *cvxWorld, o cvxWire) http.Handler {
		pc, accessLog := o.cfg, o.accessLog
		cfg := &config.Config{Proxy: pc, GlobCacheSize: 1000, GlobMatchingDisabled: o.noGlob}
		cfg.Proxy.Strategy = "rnd"
		cfg.Proxy.Matcher = "prefix"
		if accessLog {
			cfg.Log.AccessTarget = "stdout"
			cfg.Log.AccessFormat = "common"
		}
		dp := metrics.DiscardProvider{}
		return newHTTPProxy(cfg, &proxy.HttpStatsHandler{
			Requests:        dp.NewHistogram("requests"),
			Noroute:         dp.NewCounter("notfound"),
			WSConn:          dp.NewGauge("ws.conn"),
			StatusTimer:     dp.NewHistogram("http.status", "code"),
			RedirectCounter: dp.NewCounter("http.redirect.count", "code"),
		})
	}
	cvxListen = func(addr string, h http.Handler, tc *tls.Config) (func(), error) {
		errc := make(chan error, 1)
		go func() { errc <- proxy.ListenAndServeHTTP(config.Listen{Addr: addr, Proto: "http"}, h, tc) }()
		for i := 0; i < 4000; i++ { // start-up only
			select {
			case err := <-errc:
				return nil, err
			default:
			}
			if c, err := net.DialTimeout("tcp", addr, time.Second); err == nil {
				c.Close()
				return func() { proxy.CloseProxy(addr) }, nil
			}
			time.Sleep(2 * time.Millisecond)
		}
		return nil, net.ErrClosed
	}
	// The page goes the way it goes in production: the registry back end delivers it, main.watchNoRouteHTML
	// stores it.  The loop takes the next value from the unbuffered channel only when it is done with the
	// previous one, so once the page has been accepted a second time the first delivery is in effect.
	cvxDeliverPage = func(page string) error {
		for n := 0; n < 2; n++ {
			select {
			case c07MainBE.html <- page:
			case <-time.After(30 * time.Second):
				return errors.New("main.watchNoRouteHTML does not take the page (30 s)")
			}
		}
		return nil
	}
}

func TestVerifC07Main(t *testing.T) {
	saved := registry.Default
	registry.Default = c07MainBE
	defer func() { registry.Default = saved }()
	c07MainOnce.Do(func() { go watchNoRouteHTML(&config.Config{}) })
	(&cvxRunner{prop: "C07", exec: c07Exec, sample: c07Describe}).run(t)
}
