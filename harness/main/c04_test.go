package main

// C04 through the listener wiring of the real binary (WeightsRR!Connect): the listeners are
// configured by config.Load (proxy.strategy = rr, one listener per kind: http, tcp, tcp+sni,
// https+tcp+sni) and started by main.startServers; the routes live in the real route table; every
// target is a real loopback upstream that names itself.  ONE connection (request) on a listener of
// any kind is ONE lookup of its route: whatever the interleaving of connections to the routes of a
// listener, every ring length of consecutive connections of one route reaches every target of the
// route exactly as often as the specification's ring holds it (routes without fixed weights: once).
// The interleavings are the schedules TLC generated from WeightsRR_MC.

import (
	"bytes"
	"crypto/ecdsa"
	"crypto/elliptic"
	"crypto/rand"
	"crypto/tls"
	"crypto/x509"
	"crypto/x509/pkix"
	"encoding/json"
	"encoding/pem"
	"fmt"
	"io"
	"math/big"
	mrand "math/rand"
	"net"
	"os"
	"path/filepath"
	"regexp"
	"strconv"
	"strings"
	"sync"
	"testing"
	"time"

	"github.com/fabiolb/fabio/config"
	"github.com/fabiolb/fabio/internal/verifx"
	"github.com/fabiolb/fabio/metrics"
	"github.com/fabiolb/fabio/route"
)

// ring lengths of the three routes of every listener kind (targets without fixed weight)
var c04mSizes = []int{2, 4, 3}

var c04mKinds = []string{"http", "tcp", "tcp+sni", "https+tcp+sni"}

type c04mUp struct {
	ln net.Listener
	id int
}

// an upstream answers every connection with its identity (as an HTTP response, so that the http
// listener's proxy can relay it; the tcp kinds relay the same bytes verbatim)
func c04mNewUp(id int) (*c04mUp, error) {
	ln, err := net.Listen("tcp", "127.0.0.1:0")
	if err != nil {
		return nil, err
	}
	u := &c04mUp{ln: ln, id: id}
	go func() {
		for {
			c, err := ln.Accept()
			if err != nil {
				return
			}
			go func(c net.Conn) {
				defer c.Close()
				c.SetDeadline(time.Now().Add(5 * time.Second))
				buf := make([]byte, 16384)
				if n, _ := c.Read(buf); n == 0 {
					return
				}
				body := fmt.Sprintf("ID:%d;", u.id)
				fmt.Fprintf(c, "HTTP/1.1 200 OK\r\nContent-Length: %d\r\nConnection: close\r\n\r\n%s", len(body), body)
			}(c)
		}
	}()
	return u, nil
}

func c04mCert(dir string) (certFile, keyFile string, err error) {
	key, err := ecdsa.GenerateKey(elliptic.P256(), rand.Reader)
	if err != nil {
		return
	}
	tmpl := &x509.Certificate{SerialNumber: big.NewInt(7), Subject: pkix.Name{CommonName: "c04m"},
		NotBefore: time.Now().Add(-time.Hour), NotAfter: time.Now().Add(24 * time.Hour),
		KeyUsage: x509.KeyUsageDigitalSignature, ExtKeyUsage: []x509.ExtKeyUsage{x509.ExtKeyUsageServerAuth},
		DNSNames: []string{"*.c04.test", "localhost"}}
	der, err := x509.CreateCertificate(rand.Reader, tmpl, tmpl, &key.PublicKey, key)
	if err != nil {
		return
	}
	kb, err := x509.MarshalECPrivateKey(key)
	if err != nil {
		return
	}
	certFile, keyFile = filepath.Join(dir, "c04m-cert.pem"), filepath.Join(dir, "c04m-key.pem")
	if err = os.WriteFile(certFile, pem.EncodeToMemory(&pem.Block{Type: "CERTIFICATE", Bytes: der}), 0o600); err != nil {
		return
	}
	err = os.WriteFile(keyFile, pem.EncodeToMemory(&pem.Block{Type: "EC PRIVATE KEY", Bytes: kb}), 0o600)
	return
}

func c04mFreeAddrs(n int) ([]string, error) {
	var lns []net.Listener
	var out []string
	defer func() {
		for _, ln := range lns {
			ln.Close()
		}
	}()
	rng := mrand.New(mrand.NewSource(time.Now().UnixNano() ^ int64(os.Getpid())<<20))
	for tries := 0; len(out) < n && tries < 50*n; tries++ {
		addr := fmt.Sprintf("127.0.0.1:%d", verifx.EnvInt("C04M_PORT_BASE", 16000)+rng.Intn(5000))
		ln, err := net.Listen("tcp", addr)
		if err != nil {
			continue
		}
		lns = append(lns, ln)
		out = append(out, addr)
	}
	if len(out) < n {
		return nil, fmt.Errorf("only %d of %d free ports found", len(out), n)
	}
	return out, nil
}

// a real ClientHello for the server name, recorded from crypto/tls
func c04mHello(host string) []byte {
	c1, c2 := net.Pipe()
	go tls.Client(c1, &tls.Config{InsecureSkipVerify: true, ServerName: host}).Handshake()
	buf := make([]byte, 16384)
	c2.SetReadDeadline(time.Now().Add(5 * time.Second))
	n, _ := c2.Read(buf)
	c1.Close()
	c2.Close()
	return buf[:n]
}

type c04mLane struct {
	kind    string
	r       int    // route number 1..3
	addr    string // listener to dial
	payload []byte // what a client sends
	n       int    // targets = ring length
	base    int    // id of the first target
	seq     []int  // targets reached, in order (index 0..n-1)
}

var c04mID = regexp.MustCompile(`ID:(\d+);`)

// c04mConnect makes one connection through fabio and returns the identity of the upstream reached (-1: none).
func c04mConnect(l *c04mLane) (int, error) {
	c, err := net.DialTimeout("tcp", l.addr, 3*time.Second)
	if err != nil {
		return -1, err
	}
	defer c.Close()
	c.SetDeadline(time.Now().Add(8 * time.Second))
	if _, err := c.Write(l.payload); err != nil {
		return -1, err
	}
	var got bytes.Buffer
	buf := make([]byte, 4096)
	for {
		n, err := c.Read(buf)
		got.Write(buf[:n])
		if m := c04mID.FindSubmatch(got.Bytes()); m != nil {
			id, _ := strconv.Atoi(string(m[1]))
			return id, nil
		}
		if err != nil {
			if err == io.EOF {
				return -1, nil
			}
			return -1, nil
		}
	}
}

type c04mSched struct {
	Sched  []int `json:"sched"`
	Routes int   `json:"routes"`
}

type c04mVec struct {
	Fk   []int64 `json:"fk"`
	Cmds []any   `json:"cmds"`
	Ew   []struct {
		N int64 `json:"n"`
		D int64 `json:"d"`
	} `json:"ew"`
}

func TestVerifC04Wire(t *testing.T) {
	every := verifx.EnvInt("VERIF_SCHED_EVERY", 1)
	seed := int(verifx.Seed())
	fatal := func(format string, a ...any) {
		verifx.Emit(map[string]any{"kind": "error", "msg": fmt.Sprintf(format, a...)})
		t.Fatalf(format, a...)
	}
	// the specification's share of a target on a route without fixed weights: Eff = 1/n, one slot each
	perCycle := map[int]int64{}
	if os.Getenv("VERIF_IN") != "" {
		verifx.EachCase("", func(raw []byte) error {
			var v c04mVec
			if json.Unmarshal(raw, &v) != nil || len(v.Cmds) > 0 || len(v.Fk) == 0 || len(v.Ew) != len(v.Fk) {
				return nil
			}
			for _, k := range v.Fk {
				if k != 0 {
					return nil
				}
			}
			n := len(v.Fk)
			if v.Ew[0].D > 0 && (int64(n)*v.Ew[0].N)%v.Ew[0].D == 0 {
				perCycle[n] = int64(n) * v.Ew[0].N / v.Ew[0].D
			}
			return nil
		})
	}
	for _, n := range c04mSizes {
		if perCycle[n] != 1 {
			fatal("the generated vectors do not prescribe one slot per target for %d targets without fixed weight (got %d)", n, perCycle[n])
		}
	}
	scheds, err := verifx.ReadCases[c04mSched]("VERIF_SCHED")
	if err != nil || len(scheds) == 0 {
		fatal("no schedules: %v", err)
	}
	dir := os.Getenv("VERIF_TMP")
	if dir == "" {
		dir = t.TempDir()
	}
	cert, key, err := c04mCert(dir)
	if err != nil {
		fatal("cert: %v", err)
	}
	addrs, err := c04mFreeAddrs(6)
	if err != nil {
		fatal("%v", err)
	}
	// listeners: 1 http, 3 tcp (a tcp route is its port), 1 tcp+sni, 1 https+tcp+sni
	listen := []string{addrs[0], addrs[1] + ";proto=tcp", addrs[2] + ";proto=tcp", addrs[3] + ";proto=tcp",
		addrs[4] + ";proto=tcp+sni", addrs[5] + ";proto=https+tcp+sni;cs=c04m"}
	var table bytes.Buffer
	var lanes []*c04mLane
	id := 0
	for _, kind := range c04mKinds {
		for r := 1; r <= 3; r++ {
			l := &c04mLane{kind: kind, r: r, n: c04mSizes[r-1], base: id}
			var src, scheme string
			switch kind {
			case "http":
				host := fmt.Sprintf("h%d.c04.test", r)
				l.addr, src, scheme = addrs[0], host+"/", "http"
				l.payload = []byte("GET /x HTTP/1.1\r\nHost: " + host + "\r\nConnection: close\r\n\r\n")
			case "tcp":
				l.addr, scheme = addrs[r], "tcp"
				_, port, _ := net.SplitHostPort(l.addr)
				src = ":" + port
				l.payload = []byte("hello\r\n\r\n")
			case "tcp+sni":
				host := fmt.Sprintf("s%d.c04.test", r)
				l.addr, src, scheme = addrs[4], host+"/", "tcp"
				l.payload = c04mHello(host)
			case "https+tcp+sni":
				host := fmt.Sprintf("t%d.c04.test", r)
				l.addr, src, scheme = addrs[5], host+"/", "tcp"
				l.payload = c04mHello(host)
			}
			if len(l.payload) == 0 {
				fatal("no client payload for %s", kind)
			}
			for i := 0; i < l.n; i++ {
				up, err := c04mNewUp(id)
				if err != nil {
					fatal("upstream: %v", err)
				}
				fmt.Fprintf(&table, "route add c04m-%d %s %s://%s\n", id, src, scheme, up.ln.Addr())
				id++
			}
			lanes = append(lanes, l)
		}
	}
	args := []string{"fabio",
		"-proxy.strategy", "rr",
		"-proxy.cs", "cs=c04m;type=file;cert=" + cert + ";key=" + key,
		"-proxy.addr", strings.Join(listen, ","),
		"-registry.backend", "static",
	}
	cfg, err := config.Load(args, nil)
	if err != nil {
		fatal("config.Load: %v", err)
	}
	tbl, err := route.NewTable(bytes.NewBufferString(table.String()))
	if err != nil {
		fatal("table: %v", err)
	}
	saved := route.GetTable()
	route.SetTable(tbl)
	defer route.SetTable(saved)
	startServers(cfg, metrics.DiscardProvider{})
	for _, a := range addrs {
		ok := false
		for i := 0; i < 500 && !ok; i++ {
			c, err := net.DialTimeout("tcp", a, 200*time.Millisecond)
			if err == nil {
				c.Close()
				ok = true
			} else {
				time.Sleep(10 * time.Millisecond)
			}
		}
		if !ok {
			fatal("listener %s never came up", a)
		}
	}
	time.Sleep(300 * time.Millisecond) // start-up only: the readiness probes are connections, too

	// every listener kind follows the schedules on its own three routes
	var wg sync.WaitGroup
	var mu sync.Mutex
	var conns, tables int64
	var envErr error
	for k := range c04mKinds {
		wg.Add(1)
		go func(k int) {
			defer wg.Done()
			mine := lanes[3*k : 3*k+3]
			for n, s := range scheds {
				if (n+seed)%every != 0 || len(s.Sched) == 0 {
					continue
				}
				done := map[int]int{}
				need := func() bool {
					for _, r := range s.Sched {
						if r >= 1 && r <= 3 && done[r] < 2*mine[r-1].n {
							return true
						}
					}
					return false
				}
				for step := 0; need() && step < 400; step++ {
					r := s.Sched[step%len(s.Sched)]
					if r < 1 || r > 3 {
						continue
					}
					l := mine[r-1]
					got, err := c04mConnect(l)
					mu.Lock()
					conns++
					if err != nil && envErr == nil {
						envErr = fmt.Errorf("%s route %d: %v", l.kind, r, err)
					}
					mu.Unlock()
					if err != nil {
						return
					}
					l.seq = append(l.seq, got)
					done[r]++
				}
				mu.Lock()
				tables++
				mu.Unlock()
			}
		}(k)
	}
	wg.Wait()
	if envErr != nil {
		fatal("connection through fabio failed (environment): %v", envErr)
	}
	// every window of one ring length of consecutive connections of a route is an exact cycle
	windows := int64(0)
	for _, l := range lanes {
		reported := false
		for i := 0; i+l.n <= len(l.seq) && !reported; i++ {
			windows++
			count := map[int]int{}
			for _, id := range l.seq[i : i+l.n] {
				count[id]++
			}
			for tgt := l.base; tgt < l.base+l.n && !reported; tgt++ {
				if int64(count[tgt]) != perCycle[l.n] {
					reported = true
					clause := "listener-cycle"
					if count[-1] > 0 {
						clause = "listener-no-upstream"
					}
					show := l.seq[i : i+l.n]
					var rel []int
					for _, id := range show {
						if id >= 0 {
							id -= l.base
						}
						rel = append(rel, id)
					}
					verifx.Fail(map[string]any{"wire": map[string]any{"kind": l.kind, "route": l.r, "targets": l.n}},
						map[string]any{"clause": clause, "via": "listener", "listener": l.kind, "picker": "rr", "targets": l.n},
						"%s listener, proxy.strategy=rr, route %d with %d targets without fixed weight: connections %d..%d of the route reached targets %v (-1 = no upstream); target %d was reached %d times in this ring length, the specification prescribes %d",
						l.kind, l.r, l.n, i, i+l.n-1, rel, tgt-l.base, count[tgt], perCycle[l.n])
				}
			}
		}
	}
	verifx.Summary(map[string]any{"connections": conns, "schedules": tables, "windows": windows, "kinds": len(c04mKinds)})
}
