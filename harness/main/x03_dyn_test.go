package main

// X03(a) - conformance of the REAL fabio binary's tcp-dynamic listener life cycle with
// spec/DynListeners.tla.  The binary runs with the consul backend against the fake Consul; table
// changes are registrations with tags 'urlprefix-[ip]:PORT proto=tcp'; everything is observed from
// outside the process: which ip:port accepts, which upstream greets, whether a kept tunnel still
// echoes, whether a foreign process can bind a port.
//
//   replay (S->C): TLC-generated histories of macro steps (new table | foreign bind | foreign
//       release | keep a tunnel | probe it | drop it); after every change of the world a causality
//       barrier proves that a full refresh round ran AFTER the change was installed: a fresh marker
//       port is registered after the change, and the marker accepting a connection implies a round
//       that read a table containing the marker - hence the change - and that closed every
//       listener that table no longer wants before it started the marker's.  After the barrier
//       "this port refuses" is a safety observation; "this port accepts" is polled (a time-out is
//       inconclusive, never a violation).
//   conc (C->S): registrations flap, clients connect and keep tunnels concurrently, the foreign
//       process takes and releases ports; the recorded execution must be a behaviour of
//       DynListeners_Trace.  (The replay run is recorded and validated the same way.)

import (
	"bufio"
	"encoding/json"
	"errors"
	"fmt"
	"io"
	"math/rand"
	"net"
	"os"
	"os/exec"
	"path/filepath"
	"sort"
	"strings"
	"sync"
	"sync/atomic"
	"syscall"
	"testing"
	"time"

	"github.com/fabiolb/fabio/internal/verifx"
)

var x03IPs = map[string]string{"ip1": "127.0.0.1", "ip2": "127.0.0.2"}

type x03World struct {
	t       *testing.T
	tr      *verifx.Trace
	f       *verifx.FakeConsul
	cmd     *exec.Cmd
	exited  chan struct{}
	port    map[string]int // abstract port -> number
	portOf  map[string]string
	insts   []string
	markers []string
	nextM   int
	state   map[string]string // registry as the driver set it
	foreign map[string]net.Listener
	held    map[string]*x03Tunnel
	mu      sync.Mutex
	nconn   int64
	npolls  int64
	timeout bool
	logPath string
}

type x03Tunnel struct {
	c  net.Conn
	br *bufio.Reader
}

// x03PickPort returns a port outside the kernel's ephemeral range (so that no other test's ":0"
// listener can land on it) that nobody listens on.  Concurrent runs of this harness keep out of each
// other's way through lock files (a port is unbound for most of the time it is in use here).
func x03PickPort(rnd *rand.Rand, used map[int]bool) int {
	dir := filepath.Join(os.TempDir(), "verif-x03-ports")
	os.MkdirAll(dir, 0o777)
	for i := 0; i < 10000; i++ {
		p := 20000 + rnd.Intn(12000)
		if used[p] {
			continue
		}
		lock := filepath.Join(dir, fmt.Sprint(p))
		if st, err := os.Stat(lock); err == nil {
			if time.Since(st.ModTime()) < 30*time.Minute {
				continue
			}
			os.Remove(lock)
		}
		f, err := os.OpenFile(lock, os.O_CREATE|os.O_EXCL|os.O_WRONLY, 0o666)
		if err != nil {
			continue
		}
		f.Close()
		l, err := net.Listen("tcp", fmt.Sprintf(":%d", p))
		if err != nil {
			os.Remove(lock)
			continue
		}
		l.Close()
		used[p] = true
		x03Locks = append(x03Locks, lock)
		return p
	}
	panic("no free port")
}

var x03Locks []string

func x03ReleasePorts() {
	for _, l := range x03Locks {
		os.Remove(l)
	}
}

// x03Upstream greets every connection with its id and then echoes.
func x03Upstream(id string) (int, func()) {
	l, err := net.Listen("tcp", "127.0.0.1:0")
	if err != nil {
		panic(err)
	}
	go func() {
		for {
			c, err := l.Accept()
			if err != nil {
				return
			}
			go func() {
				defer c.Close()
				if _, err := io.WriteString(c, id+"\n"); err != nil {
					return
				}
				io.Copy(c, c)
			}()
		}
	}()
	return l.Addr().(*net.TCPAddr).Port, func() { l.Close() }
}

func x03Start(t *testing.T, refresh string) *x03World {
	bin := os.Getenv("VERIF_FABIO_BIN")
	if bin == "" {
		t.Fatal("VERIF_FABIO_BIN not set")
	}
	w := &x03World{t: t, tr: &verifx.Trace{}, port: map[string]int{}, portOf: map[string]string{}, state: map[string]string{},
		foreign: map[string]net.Listener{}, held: map[string]*x03Tunnel{}, exited: make(chan struct{})}
	rnd := rand.New(rand.NewSource(verifx.Seed()*7919 + int64(os.Getpid())))
	used := map[int]bool{}
	for _, p := range []string{"p1", "p2", "p3", "m1", "m2", "m3", "m4", "proxy", "ui"} {
		w.port[p] = x03PickPort(rnd, used)
	}
	w.markers = []string{"m1", "m2", "m3", "m4"}
	type def struct{ id, port, host, proto string }
	defs := []def{{"a1", "p1", "", "tcp"}, {"a2", "p1", "", "tcp"}, {"h1", "p1", "", "http"}, {"b1", "p2", "", "tcp"},
		{"b2", "p2", "127.0.0.1", "tcp"}, {"c1", "p3", "", "tcp"}}
	for _, m := range w.markers {
		defs = append(defs, def{m, m, "", "tcp"})
	}
	var fi []*verifx.FInst
	for _, d := range defs {
		up, _ := x03Upstream(d.id)
		tag := fmt.Sprintf("urlprefix-%s:%d", d.host, w.port[d.port])
		if d.proto == "tcp" {
			tag += " proto=tcp"
		}
		fi = append(fi, &verifx.FInst{ID: d.id, Node: "n1", NodeAddr: "127.0.0.1", ServiceID: d.id, ServiceName: "svc-" + d.id,
			Port: up, GoodTags: []string{tag}})
		w.insts = append(w.insts, d.id)
		w.portOf[d.id] = d.port
		w.state[d.id] = "absent"
	}
	w.f = verifx.NewFakeConsul(fi, map[string]string{"none": ""}, w.tr)
	w.logPath = filepath.Join(os.Getenv("VERIF_TMP"), fmt.Sprintf("fabio-x03-%d.log", time.Now().UnixNano()))
	logf, _ := os.Create(w.logPath)
	w.cmd = exec.Command(bin,
		"-registry.backend", "consul", "-registry.consul.addr", w.f.Addr(), "-registry.consul.register.enabled=false",
		"-proxy.addr", fmt.Sprintf("127.0.0.1:%d,0.0.0.0:0;proto=tcp-dynamic;refresh=%s", w.port["proxy"], refresh),
		"-ui.addr", fmt.Sprintf("127.0.0.1:%d", w.port["ui"]), "-log.level", "INFO", "-proxy.shutdownwait", "100ms", "-insecure")
	w.cmd.Stdout, w.cmd.Stderr = logf, logf
	if err := w.cmd.Start(); err != nil {
		t.Fatal(err)
	}
	go func() { w.cmd.Wait(); close(w.exited) }()
	deadline := time.Now().Add(30 * time.Second)
	for {
		c, err := net.DialTimeout("tcp", fmt.Sprintf("127.0.0.1:%d", w.port["proxy"]), time.Second)
		if err == nil {
			c.Close()
			break
		}
		if time.Now().After(deadline) || !w.alive() {
			t.Fatalf("fabio did not start listening: %v\n%s", err, w.logTail())
		}
		time.Sleep(20 * time.Millisecond)
	}
	return w
}

func (w *x03World) alive() bool {
	select {
	case <-w.exited:
		return false
	default:
		return true
	}
}

func (w *x03World) logTail() string {
	b, _ := os.ReadFile(w.logPath)
	lines := strings.Split(string(b), "\n")
	var keep []string
	for _, ln := range lines {
		if strings.Contains(ln, "[FATAL]") || strings.Contains(ln, "panic") || strings.Contains(ln, "[ERROR]") {
			keep = append(keep, ln)
		}
	}
	if len(keep) > 12 {
		keep = keep[len(keep)-12:]
	}
	return strings.Join(keep, "\n")
}

func (w *x03World) stop() {
	defer x03ReleasePorts()
	for _, l := range w.foreign {
		l.Close()
	}
	for _, h := range w.held {
		h.c.Close()
	}
	if w.alive() {
		w.cmd.Process.Signal(syscall.SIGTERM)
		select {
		case <-w.exited:
		case <-time.After(5 * time.Second):
			w.cmd.Process.Kill()
		}
	}
	w.f.Close()
}

// quiesce: both consul watchers parked at the current indices, then a KV touch taken by the update
// loop (the barrier of C01): the active table is the registry's.  No sleeping.
func (w *x03World) quiesce() error {
	done := make(chan struct{})
	go func() { w.f.WaitParked(); w.f.TouchKV(); w.f.WaitParked(); close(done) }()
	select {
	case <-done:
		w.tr.Add(map[string]any{"ev": "Quiesce"})
		return nil
	case <-w.exited:
		return errors.New("fabio exited")
	case <-time.After(30 * time.Second):
		return fmt.Errorf("no quiescence of the control plane: %s", w.f.String())
	}
}

func (w *x03World) set(id, st string) {
	if w.state[id] == st {
		return
	}
	w.state[id] = st
	w.f.SetInst(id, st)
}

// connect performs one client connection and classifies what it got.
func (w *x03World) connect(c, ip, p string, hold bool) (string, *x03Tunnel) {
	atomic.AddInt64(&w.nconn, 1)
	w.tr.Add(map[string]any{"ev": "ConnInv", "c": c, "ip": ip, "p": p})
	res, tun := w.dial(ip, p)
	h := 0
	if hold && tun != nil {
		h = 1
	} else if tun != nil {
		tun.c.Close()
		tun = nil
	}
	w.tr.Add(map[string]any{"ev": "ConnRet", "c": c, "res": res, "hold": h})
	return res, tun
}

func (w *x03World) dial(ip, p string) (string, *x03Tunnel) {
	conn, err := net.DialTimeout("tcp", fmt.Sprintf("%s:%d", x03IPs[ip], w.port[p]), 5*time.Second)
	if err != nil {
		if errors.Is(err, syscall.ECONNREFUSED) {
			return "refused", nil
		}
		if errors.Is(err, syscall.ECONNRESET) {
			return "closed", nil
		}
		return "error:" + err.Error(), nil
	}
	conn.SetReadDeadline(time.Now().Add(10 * time.Second))
	br := bufio.NewReader(conn)
	line, err := br.ReadString('\n')
	if err != nil {
		conn.Close()
		var ne net.Error
		if errors.As(err, &ne) && ne.Timeout() {
			return "error:greeting timeout", nil
		}
		return "closed", nil // EOF or reset before any greeting
	}
	conn.SetReadDeadline(time.Time{})
	id := strings.TrimSpace(line)
	if id == "foreign" {
		conn.Close()
		return "foreign", nil
	}
	return id, &x03Tunnel{c: conn, br: br}
}

func (w *x03World) check(c string, tun *x03Tunnel) string {
	w.tr.Add(map[string]any{"ev": "ChkInv", "c": c})
	res := "alive"
	tun.c.SetDeadline(time.Now().Add(10 * time.Second))
	if _, err := io.WriteString(tun.c, "ping\n"); err != nil {
		res = "broken"
	} else if line, err := tun.br.ReadString('\n'); err != nil {
		var ne net.Error
		if errors.As(err, &ne) && ne.Timeout() {
			res = "error:echo timeout"
		} else {
			res = "broken"
		}
	} else if line != "ping\n" {
		res = "error:echo " + line
	}
	tun.c.SetDeadline(time.Time{})
	if res != "alive" {
		tun.c.Close()
	}
	w.tr.Add(map[string]any{"ev": "ChkRet", "c": c, "res": res})
	return res
}

func (w *x03World) drop(c string, tun *x03Tunnel) {
	tun.c.Close()
	w.tr.Add(map[string]any{"ev": "Drop", "c": c})
}

func (w *x03World) fbind(p string) string {
	w.tr.Add(map[string]any{"ev": "FBindInv", "p": p})
	res := "ok"
	l, err := net.Listen("tcp", fmt.Sprintf(":%d", w.port[p]))
	if err != nil {
		res = "inuse"
	} else {
		w.foreign[p] = l
		go func() {
			for {
				c, err := l.Accept()
				if err != nil {
					return
				}
				io.WriteString(c, "foreign\n")
				c.Close()
			}
		}()
	}
	w.tr.Add(map[string]any{"ev": "FBindRet", "p": p, "res": res})
	return res
}

func (w *x03World) frel(p string) {
	w.tr.Add(map[string]any{"ev": "FRelInv", "p": p})
	w.foreign[p].Close()
	delete(w.foreign, p)
	w.tr.Add(map[string]any{"ev": "FRelRet", "p": p, "res": "ok"})
}

const x03PollDeadline = 20 * time.Second

// barrier: see the head of this file.  Returns an error when the marker never accepted
// (inconclusive: liveness cannot be refuted by waiting).
func (w *x03World) barrier() error {
	if err := w.quiesce(); err != nil {
		return err
	}
	m := w.markers[w.nextM%len(w.markers)]
	w.nextM++
	w.set(m, "pass")
	if err := w.quiesce(); err != nil {
		return err
	}
	deadline := time.Now().Add(x03PollDeadline)
	for {
		res, _ := w.connect("k0", "ip1", m, false)
		atomic.AddInt64(&w.npolls, 1)
		if res == m {
			break
		}
		if res != "refused" && res != "closed" {
			verifx.Fail(map[string]any{"marker": m, "got": res}, map[string]any{"sub": "dyn", "clause": "wrong-target"},
				"a connection to the marker port %s was answered by %q", m, res)
			return fmt.Errorf("marker %s answered by %s", m, res)
		}
		if !w.alive() {
			return errors.New("fabio exited")
		}
		if time.Now().After(deadline) {
			return fmt.Errorf("marker port %s did not accept within %v", m, x03PollDeadline)
		}
		time.Sleep(6 * time.Millisecond)
	}
	w.set(m, "absent")
	return nil
}

type x03Exp struct {
	Listen  []string                       `json:"listen"`
	Foreign []string                       `json:"foreign"`
	Out     map[string]map[string][]string `json:"out"`
}
type x03Step struct {
	Kind string   `json:"kind"`
	Tbl  []string `json:"tbl"`
	P    string   `json:"p"`
	IP   string   `json:"ip"`
	C    string   `json:"c"`
	Res  []string `json:"res"`
	Exp  x03Exp   `json:"exp"`
}
type x03Hist struct {
	Steps []x03Step `json:"steps"`
}

func x03In(xs []string, s string) bool {
	for _, x := range xs {
		if x == s {
			return true
		}
	}
	return false
}

// observe compares every ip:port with what the specification prescribes for the settled system.
func (w *x03World) observe(hc any, exp x03Exp, compared *int) error {
	for _, ip := range []string{"ip1", "ip2"} {
		for _, p := range []string{"p1", "p2", "p3"} {
			want := exp.Out[ip][p]
			*compared++
			deadline := time.Now().Add(x03PollDeadline)
			nclosed := 0
			for {
				got, _ := w.connect("k0", ip, p, false)
				if strings.HasPrefix(got, "error:") {
					return fmt.Errorf("connect %s:%s: %s", ip, p, got)
				}
				if x03In(want, got) {
					break
				}
				feat := map[string]any{"sub": "dyn"}
				if got == "closed" {
					nclosed++
				} else {
					nclosed = 0
				}
				switch {
				case nclosed >= 8 && !x03In(want, "refused") && !x03In(want, "foreign"):
					// accepted and closed eight times in a row, 10 ms apart: not the instant of a probe
					// socket - the listener is up and does not forward although the table has the route
					feat["clause"] = "not-forwarded"
				case x03In(want, "refused"):
					// safety: after the barrier nothing of fabio may listen here
					feat["clause"] = "listens-on-unwanted-port"
				case x03In(want, "foreign"):
					feat["clause"] = "foreign-port-disturbed"
				case got == "refused" || (got == "closed" && !x03In(want, "closed")):
					// not listening yet (or caught by the probe socket): liveness, keep polling
					if !w.alive() {
						return errors.New("fabio exited")
					}
					if time.Now().After(deadline) {
						return fmt.Errorf("%s:%s still %s after %v, expected %v", ip, p, got, x03PollDeadline, want)
					}
					atomic.AddInt64(&w.npolls, 1)
					if got == "closed" {
						time.Sleep(10 * time.Millisecond)
					} else {
						time.Sleep(4 * time.Millisecond)
					}
					continue
				case got == "foreign":
					feat["clause"] = "foreign-port-disturbed"
				default:
					// forwarded although no route / forwarded to a target of another route
					feat["clause"] = "wrong-target"
				}
				verifx.Fail(hc, feat, "settled system: a connection to %s:%s got %q, the specification allows %v (listeners %v, foreign %v)",
					ip, p, got, want, exp.Listen, exp.Foreign)
				break
			}
		}
	}
	return nil
}

func (w *x03World) writeTrace(name string) (string, int) {
	path := filepath.Join(os.Getenv("VERIF_TMP"), name)
	f, err := os.Create(path)
	if err != nil {
		w.t.Fatal(err)
	}
	defer f.Close()
	bw := bufio.NewWriter(f)
	n := 0
	keep := map[string]bool{"Reg": true, "HResp": true, "CResp": true, "Quiesce": true, "FBindInv": true, "FBindRet": true, "FRelInv": true, "FRelRet": true,
		"ConnInv": true, "ConnRet": true, "ChkInv": true, "ChkRet": true, "Drop": true}
	for _, e := range w.tr.Events() {
		ev, _ := e["ev"].(string)
		if !keep[ev] {
			continue
		}
		switch ev {
		case "Reg":
			e = map[string]any{"ev": "Reg", "inst": e["inst"], "t": e["t"]}
		case "CResp":
			svc, _ := e["svc"].(string)
			e = map[string]any{"ev": "CResp", "i": strings.TrimPrefix(svc, "svc-"), "t": e["t"]}
		}
		b, _ := json.Marshal(e)
		bw.Write(b)
		bw.WriteByte('\n')
		n++
	}
	bw.Flush()
	return path, n
}

func x03Refresh() string {
	if r := os.Getenv("VERIF_X03_REFRESH"); r != "" {
		return r
	}
	return "40ms"
}

// ------------------------------------------------------------------ S->C

func TestVerifX03DynReplay(t *testing.T) {
	hists, err := verifx.ReadCases[x03Hist]("VERIF_IN")
	if err != nil {
		t.Fatal(err)
	}
	w := x03Start(t, x03Refresh())
	defer w.stop()
	steps, compared, done := 0, 0, 0
	var samples []any
	inconclusive := ""
	rnd := verifx.Rand()
hloop:
	for hi, h := range hists {
		// reset: nothing registered, nothing held, no foreign port
		for c, tun := range w.held {
			w.drop(c, tun)
			delete(w.held, c)
		}
		for p := range w.foreign {
			w.frel(p)
		}
		for _, id := range w.insts {
			w.set(id, "absent")
		}
		if err := w.barrier(); err != nil {
			inconclusive = err.Error()
			break
		}
		if err := w.observe(map[string]any{"history": hi, "step": -1}, x03Exp{Out: map[string]map[string][]string{
			"ip1": {"p1": {"refused"}, "p2": {"refused"}, "p3": {"refused"}}, "ip2": {"p1": {"refused"}, "p2": {"refused"}, "p3": {"refused"}}}}, &compared); err != nil {
			inconclusive = err.Error()
			break
		}
		for si, st := range h.Steps {
			hc := map[string]any{"history": h, "step": si}
			steps++
			settle := false
			switch st.Kind {
			case "table":
				ids := append([]string(nil), w.insts...)
				rnd.Shuffle(len(ids), func(i, j int) { ids[i], ids[j] = ids[j], ids[i] })
				for _, id := range ids {
					if x03In(w.markers, id) {
						continue
					}
					if x03In(st.Tbl, id) {
						w.set(id, "pass")
					} else {
						w.set(id, "absent")
					}
				}
				settle = true
			case "fbind":
				got := w.fbind(st.P)
				if !x03In(st.Res, got) {
					cl := "foreign-bind-succeeded-on-listened-port"
					if got == "inuse" {
						cl = "holds-unwanted-port"
					}
					verifx.Fail(hc, map[string]any{"sub": "dyn", "clause": cl}, "a foreign bind of %s ended %q, the specification prescribes %v", st.P, got, st.Res)
					if got == "ok" {
						w.frel(st.P)
					}
				}
				settle = true
			case "frel":
				w.frel(st.P)
				settle = true
			case "hold":
				var got string
				var tun *x03Tunnel
				for try := 0; try < 2; try++ {
					got, tun = w.connect(st.C, st.IP, st.P, true)
					if tun != nil {
						break
					}
				}
				if tun == nil || !x03In(st.Res, got) {
					cl := "not-forwarded"
					if tun != nil {
						cl = "wrong-target"
						w.drop(st.C, tun)
					}
					verifx.Fail(hc, map[string]any{"sub": "dyn", "clause": cl}, "a tunnel through %s:%s got %q, the specification allows %v", st.IP, st.P, got, st.Res)
					continue hloop
				}
				w.held[st.C] = tun
			case "check":
				got := w.check(st.C, w.held[st.C])
				if strings.HasPrefix(got, "error:") {
					inconclusive = got
					break hloop
				}
				if got == "broken" {
					delete(w.held, st.C)
				}
				if !x03In(st.Res, got) {
					cl := "tunnel-torn-down-though-port-stayed"
					if got == "alive" {
						cl = "tunnel-survives-close"
						w.drop(st.C, w.held[st.C])
						delete(w.held, st.C)
					}
					verifx.Fail(hc, map[string]any{"sub": "dyn", "clause": cl}, "the kept tunnel of %s through %s:%s is %s, the specification prescribes %v", st.C, st.IP, st.P, got, st.Res)
					continue hloop
				}
			case "drop":
				w.drop(st.C, w.held[st.C])
				delete(w.held, st.C)
			default:
				t.Fatalf("unknown step kind %q", st.Kind)
			}
			if !w.alive() {
				break
			}
			if settle {
				if err := w.barrier(); err != nil {
					inconclusive = err.Error()
					break hloop
				}
			}
			if err := w.observe(hc, st.Exp, &compared); err != nil {
				inconclusive = err.Error()
				break hloop
			}
		}
		if !w.alive() {
			break
		}
		done++
		if len(samples) < 3 {
			samples = append(samples, h)
		}
	}
	if !w.alive() {
		verifx.Fail(map[string]any{"history": done}, map[string]any{"sub": "dyn", "clause": "process-exited"},
			"the fabio process exited during the run:\n%s", w.logTail())
	}
	path, n := w.writeTrace("x03.replay.ndjson")
	verifx.Summary(map[string]any{"histories": done, "of": len(hists), "steps": steps, "compared": compared, "connects": w.nconn,
		"polls": w.npolls, "events": n, "trace": path, "inconclusive": inconclusive, "samples": samples})
}

// ------------------------------------------------------------------ C->S

func TestVerifX03DynConc(t *testing.T) {
	w := x03Start(t, x03Refresh())
	defer w.stop()
	rnd := verifx.Rand()
	nsteps := verifx.EnvInt("VERIF_X03_STEPS", 60)
	stop := make(chan struct{})
	var wg sync.WaitGroup
	var bad atomic.Value
	for ci := 1; ci <= 3; ci++ {
		wg.Add(1)
		go func(ci int) {
			defer wg.Done()
			c := fmt.Sprintf("k%d", ci)
			r := rand.New(rand.NewSource(verifx.Seed()*31 + int64(ci)))
			for {
				select {
				case <-stop:
					return
				default:
				}
				ip := []string{"ip1", "ip2"}[r.Intn(2)]
				p := []string{"p1", "p2", "p3", "p1", "p2", "p3", "m1", "m2"}[r.Intn(8)]
				res, tun := w.connect(c, ip, p, r.Intn(3) == 0)
				if strings.HasPrefix(res, "error:") {
					bad.Store(res)
					return
				}
				if tun != nil {
					for k := r.Intn(3) + 1; k > 0; k-- {
						time.Sleep(time.Duration(r.Intn(30)) * time.Millisecond)
						got := w.check(c, tun)
						if strings.HasPrefix(got, "error:") {
							bad.Store(got)
							return
						}
						if got == "broken" {
							tun = nil
							break
						}
					}
					if tun != nil {
						w.drop(c, tun)
					}
				}
				time.Sleep(time.Duration(1+r.Intn(8)) * time.Millisecond)
			}
		}(ci)
	}
	inconclusive := ""
	real := []string{"a1", "a2", "h1", "b1", "b2", "c1"}
	tcpOn := func(p string) bool { // a registration that could make fabio want port p
		for _, id := range real {
			if w.portOf[id] == p && w.state[id] == "pass" {
				return true
			}
		}
		return false
	}
	nbar := 0
	for s := 0; s < nsteps && inconclusive == "" && w.alive() && bad.Load() == nil; s++ {
		// a burst of registry changes without waiting for anything
		for k := 1 + rnd.Intn(3); k > 0; k-- {
			id := real[rnd.Intn(len(real))]
			w.set(id, []string{"absent", "pass", "pass"}[rnd.Intn(3)])
			if rnd.Intn(2) == 0 {
				time.Sleep(time.Duration(rnd.Intn(60)) * time.Millisecond)
			}
		}
		switch rnd.Intn(4) {
		case 0:
			if err := w.quiesce(); err != nil {
				inconclusive = err.Error()
			}
		case 1:
			if err := w.barrier(); err != nil {
				inconclusive = err.Error()
				break
			}
			nbar++
			// the foreign process acts on a settled system only, and binds only a port that no
			// registration asks for: fabio does not touch such a port, so the probe-then-bind window of
			// the listener start (see ProbeThenBind in the specification) cannot be hit from here
			p := []string{"p1", "p2", "p3"}[rnd.Intn(3)]
			if l := w.foreign[p]; l != nil {
				w.frel(p)
			} else if !tcpOn(p) {
				w.fbind(p)
			}
		}
	}
	if inconclusive == "" && w.alive() {
		if err := w.barrier(); err != nil {
			inconclusive = err.Error()
		}
	}
	close(stop)
	wg.Wait()
	if b := bad.Load(); b != nil && inconclusive == "" {
		inconclusive = b.(string)
	}
	if !w.alive() {
		verifx.Fail(map[string]any{"steps": nsteps}, map[string]any{"sub": "dyn", "clause": "process-exited"},
			"the fabio process exited during the concurrent run:\n%s", w.logTail())
	}
	var ps []string
	for p := range w.foreign {
		ps = append(ps, p)
	}
	sort.Strings(ps)
	path, n := w.writeTrace("x03.conc.ndjson")
	verifx.Summary(map[string]any{"steps": nsteps, "barriers": nbar, "connects": w.nconn, "events": n, "trace": path, "inconclusive": inconclusive})
}
