package main

// Shared control-plane rig of the /verif harness: the real consul backend and the real
// watchBackend loop driven by verifx.FakeConsul; used by C01, C02 (history part) and C14.

import (
	"encoding/json"
	"fmt"
	"os"
	"sort"
	"strings"
	"sync"
	"sync/atomic"
	"testing"
	"time"

	"github.com/fabiolb/fabio/config"
	"github.com/fabiolb/fabio/internal/verifx"
	"github.com/fabiolb/fabio/metrics"
	"github.com/fabiolb/fabio/registry"
	"github.com/fabiolb/fabio/registry/consul"
	"github.com/fabiolb/fabio/route"
)

// the concrete universe behind ControlPlane_MC: a1/a2 are two instances of svc-a with the SAME
// service id on different nodes, b1 is svc-b on a1's node and address.
func cpInstances() []*verifx.FInst {
	insts := []*verifx.FInst{
		{ID: "a1", Node: "n1", NodeAddr: "10.0.1.1", ServiceID: "web", ServiceName: "svc-a", Addr: "", Port: 8001,
			GoodTags: []string{"urlprefix-/a", "other"}, BadTags: []string{"urlprefix-/a weight=abc"}},
		{ID: "a2", Node: "n2", NodeAddr: "10.0.2.1", ServiceID: "web", ServiceName: "svc-a", Addr: "10.0.2.7", Port: 8001,
			GoodTags: []string{"urlprefix-/a"}, BadTags: []string{"urlprefix-/a", `a"quote`}},
		{ID: "b1", Node: "n1", NodeAddr: "10.0.1.1", ServiceID: "api", ServiceName: "svc-b", Addr: "10.0.1.1", Port: 8002,
			GoodTags: []string{"urlprefix-b.com/ proto=https", "urlprefix-/b2 strip=/b2", "urlprefix-:7000 proto=tcp", "urlprefix-/b3 register=b3alias", "urlprefix-/A", "urlprefix-${DC}.b.com/dc"}, BadTags: []string{"urlprefix-/b2 weight=1e999x"}},
	}
	naming := os.Getenv("VERIF_NAMING")
	// an untagged second registration of svc-a on node n1 (another service id), always passing: it advertises
	// nothing, and it must not influence what the tagged registration of the same name on that node gets
	insts = append(insts, &verifx.FInst{ID: "a0", Node: "n1", NodeAddr: "10.0.1.1", ServiceID: "a-internal", ServiceName: "svc-a",
		Addr: "", Port: 8001, GoodTags: []string{"internal", "other"}, BadTags: []string{"internal"}})
	if !strings.Contains(naming, "split") {
		// twins: both /a instances registered WITHOUT a service address (the node address counts), same port, same tags
		insts[1].Addr = ""
		insts[1].GoodTags = append([]string{}, insts[0].GoodTags...)
		cpDst["a2"] = "10.0.2.1:8001"
	}
	if strings.Contains(naming, "split") {
		// three service names instead of two (a2 registers under a name of its own): with
		// registry.consul.serviceMonitors = 2 or 3 the services do not divide evenly among the monitors
		insts[1].ServiceName = "svc-c"
	}
	if strings.Contains(naming, "dotted") {
		// node names and service ids with dots (FQDN node names are common): "n1" + "x.web" and
		// "n1.x" + "web" must stay two different instances
		insts[0].ServiceID = "x.web"
		insts[1].NodeName = "n1.x"
		insts[2].ServiceID = "x.web.api"
	}
	return insts
}

var cpKV = map[string]string{
	"none":    "",
	"delA":    "route del svc-a",
	"weightA": "route weight svc-a /a weight 0.5",
	"addX":    "route add manual /x http://10.9.9.9:9999/",
	"bad":     "route frobnicate the table",
}

// prefixes an instance advertises when it is routed, and its destination
var cpRoutes = map[string][]string{"a1": {"/a"}, "a2": {"/a"}, "b1": {"b.com/", "/b2", ":7000", "/b3", "/A", "dc1.b.com/dc"}, "X": {"/x"}}
var cpDst = map[string]string{"a1": "10.0.1.1:8001", "a2": "10.0.2.7:8001", "b1": "10.0.1.1:8002", "X": "10.9.9.9:9999"}

// the protocol each advertised prefix must be routed with (default http)
var cpScheme = map[string]string{"b.com/": "https", ":7000": "tcp"}

// cpProject maps a real table to the abstract set of routed instances.  An instance that is
// present on only some of its prefixes, or an unknown target, is reported as "?..." so that it
// can never equal an expected set.
func cpProject(t route.Table) []string {
	seen := map[string]map[string]bool{}
	var odd []string
	for host, routes := range t {
		for _, r := range routes {
			for _, tg := range r.Targets {
				id := ""
				for k, d := range cpDst {
					if tg.URL.Host == d {
						id = k
					}
				}
				if id == "" {
					odd = append(odd, "?"+tg.URL.String())
					continue
				}
				if seen[id] == nil {
					seen[id] = map[string]bool{}
				}
				want := cpScheme[host+r.Path]
				if want == "" {
					want = "http"
				}
				if tg.URL.Scheme != want {
					odd = append(odd, fmt.Sprintf("?scheme:%s:%s:%s", id, host+r.Path, tg.URL.String()))
				}
				seen[id][host+r.Path] = true
			}
		}
	}
	out := []string{}
	for id, ps := range seen {
		ok := len(ps) == len(cpRoutes[id])
		for _, p := range cpRoutes[id] {
			if !ps[p] {
				ok = false
			}
		}
		if ok {
			out = append(out, id)
		} else {
			out = append(out, fmt.Sprintf("?partial:%s:%v", id, ps))
		}
	}
	out = append(out, odd...)
	sort.Strings(out)
	return out
}

type cpRig struct {
	F     *verifx.FakeConsul
	T     *verifx.Trace
	cfg   *config.Config
	first chan bool
}

// cpEpoch advances whenever the registry is reset (all instances absent) so that the tags of
// "bad" instances rotate between histories, never while an instance is registered
var cpEpoch int64

var (
	cpOnce   sync.Once
	cpShared *cpRig
)

// cpStart starts (once per test process) the fake Consul, the real consul backend and the
// real update loop.  The loop cannot be stopped, so one rig serves the whole process.
func cpStart(t *testing.T, status []string, checksRequired string) *cpRig {
	cpOnce.Do(func() {
		tr := &verifx.Trace{}
		kv := map[string]string{}
		for k, v := range cpKV {
			kv[k] = v
		}
		naming := os.Getenv("VERIF_NAMING")
		if strings.Contains(naming, "split") {
			// the override texts name the services: keep their meaning (both /a instances)
			kv["delA"] = "route del svc-a\nroute del svc-c"
			kv["weightA"] = "route weight svc-a /a weight 0.25\nroute weight svc-c /a weight 0.25"
		}
		monitors := 1
		if i := strings.Index(naming, "mon"); i >= 0 && i+3 < len(naming) {
			monitors = int(naming[i+3] - '0')
		}
		f := verifx.NewFakeConsul(cpInstances(), kv, tr)
		if bf := os.Getenv("VERIF_BADTAGS"); bf != "" {
			var lists [][]string
			b, err := os.ReadFile(bf)
			if err == nil {
				err = json.Unmarshal(b, &lists)
			}
			if err != nil || len(lists) == 0 {
				t.Fatalf("VERIF_BADTAGS: %v", err)
			}
			f.BadTagsFn = func(id string) []string {
				k := int(atomic.LoadInt64(&cpEpoch)) + int(id[0]) + int(id[1])
				return lists[k%len(lists)]
			}
		}
		if fs := os.Getenv("VERIF_FAIL_STATUS"); fs != "" {
			f.FailStatus = fs
		}
		cfg := &config.Config{}
		cfg.Registry.Backend = "consul"
		cfg.Registry.Consul = config.Consul{Addr: f.Addr(), Scheme: "http", KVPath: "/fabio/config", TagPrefix: "urlprefix-",
			Register: false, ServiceStatus: status, ChecksRequired: checksRequired, ServiceMonitors: monitors,
			NoRouteHTMLPath: "/fabio/noroute.html"}
		cfg.Log.RoutesFormat = "delta"
		be, err := consul.NewBackend(&cfg.Registry.Consul)
		if err != nil {
			t.Fatalf("consul.NewBackend: %v", err)
		}
		registry.Default = be
		route.VerifOnSetTable = func(tb route.Table) {
			tr.Add(map[string]any{"ev": "Install", "table": cpProject(tb)})
		}
		rig := &cpRig{F: f, T: tr, cfg: cfg, first: make(chan bool)}
		go watchBackend(cfg, metrics.DiscardProvider{}, rig.first)
		cpShared = rig
	})
	return cpShared
}

// quiesce waits, without sleeping, until both watchers are parked at the current indices and
// the update loop has finished every update delivered so far: a KV index bump ("touch") is
// answered by the KV watcher and can only be handed to the loop once the loop is back at its
// select; when the watcher is parked again the loop has taken it.
func (r *cpRig) quiesce(d time.Duration) error {
	done := make(chan struct{})
	go func() {
		r.F.WaitParked()
		r.F.TouchKV()
		// when the KV watcher is parked again the loop has RECEIVED the touch, which it can
		// only do after every earlier update was processed completely; the touch itself
		// re-submits the current candidate and cannot change the table
		r.F.WaitParked()
		close(done)
	}()
	select {
	case <-done:
		return nil
	case <-time.After(d):
		return fmt.Errorf("no quiescence within %v: %s", d, r.F.String())
	}
}

func cpApply(f *verifx.FakeConsul, kind, id, state string) {
	switch kind {
	case "inst":
		f.SetInst(id, state)
	case "node":
		f.SetNode(id, state)
	case "kv":
		f.SetKV(state)
	default:
		panic("bad change kind " + kind)
	}
}

// cpReset brings the registry back to the initial state of the specification.
func (r *cpRig) reset() {
	for _, i := range cpInstances() {
		if i.ID == "a0" {
			r.F.SetInst(i.ID, "pass")
			continue
		}
		r.F.SetInst(i.ID, "absent")
	}
	r.F.SetNode("n1", "ok")
	r.F.SetNode("n2", "ok")
	r.F.SetKV("none")
	atomic.AddInt64(&cpEpoch, 1)
}

func cpJoin(s []string) string { return "{" + strings.Join(s, ",") + "}" }
