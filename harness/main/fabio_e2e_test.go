package main

// End-to-end conformance of the top-level specification spec/Fabio.tla: the REAL fabio binary
// (built from the tree, started as a child process) runs against the fake Consul and four real
// upstream servers; registry changes and concurrent client requests are recorded with one
// logical clock and the whole execution must be a behaviour of Fabio_Trace (table installs are
// silent there).  At quiescent points every prefix is also requested sequentially and compared
// with what the registry prescribes.

import (
	"fmt"
	"io"
	"net"
	"net/http"
	"os"
	"os/exec"
	"path/filepath"
	"strings"
	"sync"
	"syscall"
	"testing"
	"time"

	"github.com/fabiolb/fabio/internal/verifx"
)

func e2eFreePort(t *testing.T) int {
	l, err := net.Listen("tcp", "127.0.0.1:0")
	if err != nil {
		t.Fatal(err)
	}
	defer l.Close()
	return l.Addr().(*net.TCPAddr).Port
}

func e2eUpstream(t *testing.T, id string) (int, func()) {
	l, err := net.Listen("tcp", "127.0.0.1:0")
	if err != nil {
		t.Fatal(err)
	}
	srv := &http.Server{Handler: http.HandlerFunc(func(w http.ResponseWriter, r *http.Request) { io.WriteString(w, id) })}
	go srv.Serve(l)
	return l.Addr().(*net.TCPAddr).Port, func() { srv.Close() }
}

func TestVerifFabioE2E(t *testing.T) {
	bin := os.Getenv("VERIF_FABIO_BIN")
	if bin == "" {
		t.Fatal("VERIF_FABIO_BIN not set")
	}
	tr := &verifx.Trace{}
	ports := map[string]int{}
	for _, id := range []string{"a1", "a2", "b1", "X"} {
		p, stop := e2eUpstream(t, id)
		defer stop()
		ports[id] = p
	}
	insts := []*verifx.FInst{
		{ID: "a1", Node: "n1", NodeAddr: "127.0.0.1", ServiceID: "web", ServiceName: "svc-a", Port: ports["a1"],
			GoodTags: []string{"urlprefix-/a"}, BadTags: []string{"urlprefix-/a weight=abc"}},
		{ID: "a2", Node: "n2", NodeAddr: "127.0.0.1", ServiceID: "web", ServiceName: "svc-a", Addr: "127.0.0.1", Port: ports["a2"],
			GoodTags: []string{"urlprefix-/a", "x"}, BadTags: []string{"urlprefix-/a", `a"q`}},
		{ID: "b1", Node: "n1", NodeAddr: "127.0.0.1", ServiceID: "api", ServiceName: "svc-b", Port: ports["b1"],
			GoodTags: []string{"urlprefix-/b2"}, BadTags: []string{"urlprefix-/[", "urlprefix-/b2 weight=x"}},
	}
	kv := map[string]string{"none": "", "delA": "route del svc-a", "weightA": "route weight svc-a /a weight 0.5",
		"addX": fmt.Sprintf("route add manual /x http://127.0.0.1:%d/", ports["X"]), "bad": "route frobnicate"}
	f := verifx.NewFakeConsul(insts, kv, tr)
	defer f.Close()
	proxyPort, uiPort := e2eFreePort(t), e2eFreePort(t)
	logf, _ := os.Create(filepath.Join(os.Getenv("VERIF_TMP"), "fabio.log"))
	cmd := exec.Command(bin,
		"-registry.backend", "consul", "-registry.consul.addr", f.Addr(), "-registry.consul.register.enabled=false",
		"-proxy.addr", fmt.Sprintf("127.0.0.1:%d", proxyPort), "-ui.addr", fmt.Sprintf("127.0.0.1:%d", uiPort),
		"-log.level", "WARN", "-proxy.shutdownwait", "100ms", "-insecure")
	cmd.Stdout, cmd.Stderr = logf, logf
	if err := cmd.Start(); err != nil {
		t.Fatal(err)
	}
	defer func() {
		cmd.Process.Signal(syscall.SIGTERM)
		done := make(chan struct{})
		go func() { cmd.Wait(); close(done) }()
		select {
		case <-done:
		case <-time.After(5 * time.Second):
			cmd.Process.Kill()
		}
	}()
	base := fmt.Sprintf("http://127.0.0.1:%d", proxyPort)
	deadline := time.Now().Add(30 * time.Second)
	for {
		c, err := net.DialTimeout("tcp", fmt.Sprintf("127.0.0.1:%d", proxyPort), time.Second)
		if err == nil {
			c.Close()
			break
		}
		if time.Now().After(deadline) {
			t.Fatalf("fabio did not start listening: %v", err)
		}
		time.Sleep(50 * time.Millisecond)
	}
	client := &http.Client{Timeout: 10 * time.Second}
	get := func(p string) (string, error) {
		resp, err := client.Get(base + p + "/e2e")
		if err != nil {
			return "", err
		}
		defer resp.Body.Close()
		b, _ := io.ReadAll(resp.Body)
		if resp.StatusCode == 404 {
			return "noroute", nil
		}
		if resp.StatusCode != 200 {
			return fmt.Sprintf("status-%d", resp.StatusCode), nil
		}
		return string(b), nil
	}
	quiesce := func() error {
		done := make(chan struct{})
		go func() { f.WaitParked(); f.TouchKV(); f.WaitParked(); close(done) }()
		select {
		case <-done:
			return nil
		case <-time.After(30 * time.Second):
			return fmt.Errorf("no quiescence: %s", f.String())
		}
	}
	// concurrent clients
	prefixes := []string{"/a", "/b2", "/x", "/none"}
	stop := make(chan struct{})
	var wg sync.WaitGroup
	var nreq int64
	var mu sync.Mutex
	for c := 0; c < 4; c++ {
		wg.Add(1)
		go func(c int) {
			defer wg.Done()
			for i := 0; ; i++ {
				select {
				case <-stop:
					return
				default:
				}
				p := prefixes[(i+c)%len(prefixes)]
				tr.Add(map[string]any{"ev": "ReqInv", "c": c, "p": p})
				res, err := get(p)
				if err != nil {
					res = "error"
					verifx.Emit(map[string]any{"kind": "note", "msg": "request failed: " + err.Error()})
				}
				tr.Add(map[string]any{"ev": "ReqRet", "c": c, "res": res})
				mu.Lock()
				nreq++
				mu.Unlock()
				time.Sleep(time.Duration(1+c) * time.Millisecond)
			}
		}(c)
	}
	// seeded registry history
	rnd := verifx.Rand()
	steps := verifx.EnvInt("VERIF_E2E_STEPS", 60)
	istates := []string{"absent", "pass", "fail", "maint", "bad", "pass", "pass"}
	nstates := []string{"ok", "ok", "maint", "serfdown"}
	kvs := []string{"none", "none", "delA", "weightA", "addX", "bad"}
	inst := map[string]string{"a1": "absent", "a2": "absent", "b1": "absent"}
	node := map[string]string{"n1": "ok", "n2": "ok"}
	kvNow := "none"
	compared := 0
	passing := func(id string) bool {
		n := "n1"
		if id == "a2" {
			n = "n2"
		}
		return inst[id] == "pass" && node[n] == "ok"
	}
	for s := 0; s < steps; s++ {
		switch rnd.Intn(6) {
		case 0:
			n := []string{"n1", "n2"}[rnd.Intn(2)]
			node[n] = nstates[rnd.Intn(len(nstates))]
			f.SetNode(n, node[n])
		case 1:
			kvNow = kvs[rnd.Intn(len(kvs))]
			f.SetKV(kvNow)
		default:
			id := []string{"a1", "a2", "b1"}[rnd.Intn(3)]
			inst[id] = istates[rnd.Intn(len(istates))]
			f.SetInst(id, inst[id])
		}
		if rnd.Intn(3) != 0 {
			continue // let changes pile up
		}
		if err := quiesce(); err != nil {
			verifx.Emit(map[string]any{"kind": "stuck", "msg": err.Error()})
			t.Fatal(err)
		}
		if kvNow == "bad" {
			continue // last good table depends on the history; covered by the trace
		}
		for _, p := range prefixes {
			want := map[string]bool{}
			switch p {
			case "/a":
				if kvNow != "delA" {
					for _, id := range []string{"a1", "a2"} {
						if passing(id) {
							want[id] = true
						}
					}
				}
			case "/b2":
				if passing("b1") {
					want["b1"] = true
				}
			case "/x":
				if kvNow == "addX" {
					want["X"] = true
				}
			}
			if len(want) == 0 {
				want["noroute"] = true
			}
			got, err := get(p)
			compared++
			if err != nil || !want[got] {
				verifx.Fail(map[string]any{"step": s, "prefix": p}, map[string]any{"sub": "e2e", "clause": "quiescent-serve"},
					"at quiescence a request for %s was answered by %q (%v), the registry prescribes one of %v; registry: %s", p, got, err, want, f.String())
			}
		}
	}
	close(stop)
	wg.Wait()
	path := filepath.Join(os.Getenv("VERIF_TMP"), "fabio.e2e.ndjson")
	if err := tr.WriteNDJSON(path); err != nil {
		t.Fatal(err)
	}
	_ = strings.TrimSpace
	verifx.Summary(map[string]any{"events": tr.Len(), "trace": path, "requests": nreq, "steps": steps, "compared": compared})
}
