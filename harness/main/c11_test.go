package main

// C11 conformance, main's wiring (spec/CertStore_MC.tla, WireSpec): every configuration of two or
// three TLS listeners over the certificate sources "web" and "api" that TLC enumerated is given
// to the real config.Load (-proxy.cs ..., -proxy.addr ":p;cs=web,:q;cs=web;strictmatch=true"),
// every resulting config.Listen goes through the real main.makeTLSConfig, and real TLS
// handshakes (tls.Client <-> tls.Server over net.Pipe) against each listener's tls.Config must be
// presented what Select prescribes for THAT listener: the set of its source, its own strictness.

import (
	"bytes"
	"crypto/tls"
	"encoding/json"
	"errors"
	"fmt"
	"net"
	"os"
	"path/filepath"
	"strings"
	"testing"
	"time"

	"github.com/fabiolb/fabio/config"
	"github.com/fabiolb/fabio/internal/verifx"
)

type c11WireCert struct {
	Cn     string   `json:"cn"`
	Sans   []string `json:"sans"`
	File   string   `json:"file"`
	Layout string   `json:"layout"`
	Mint   string   `json:"mint"`
}

type c11WireQuery struct {
	Sni  []string `json:"sni"`
	Want int      `json:"want"`
}

type c11WireListener struct {
	Src    string         `json:"src"`
	Strict int            `json:"strict"`
	Q      []c11WireQuery `json:"q"`
}

type c11WireCase struct {
	Listeners []c11WireListener        `json:"listeners"`
	Sets      map[string][]c11WireCert `json:"sets"`
}

func c11WireMint(c c11WireCert) *verifx.Minted { return verifx.MintCert(c.Cn, c.Sans, "wire"+c.Mint) }

// c11WireHandshake performs one real TLS handshake against cfg and returns the leaf presented
// (nil: none / refused) or an infrastructure error.
func c11WireHandshake(cfg *tls.Config, sni string) (leaf []byte, infra error) {
	c, s := net.Pipe()
	dl := time.Now().Add(60 * time.Second)
	c.SetDeadline(dl)
	s.SetDeadline(dl)
	srv := tls.Server(s, cfg)
	cli := tls.Client(c, &tls.Config{ServerName: sni, InsecureSkipVerify: true})
	sdone := make(chan error, 1)
	go func() {
		err := srv.Handshake()
		srv.Close()
		sdone <- err
	}()
	cerr := cli.Handshake()
	if cerr == nil {
		if st := cli.ConnectionState(); len(st.PeerCertificates) > 0 {
			leaf = st.PeerCertificates[0].Raw
		}
		var b [1]byte
		cli.Read(b[:]) // post-handshake messages until the server closes
	}
	cli.Close()
	serr := <-sdone
	var ne net.Error
	if (cerr != nil && errors.As(cerr, &ne) && ne.Timeout()) || (serr != nil && errors.As(serr, &ne) && ne.Timeout()) {
		return nil, fmt.Errorf("handshake timed out: client %v, server %v", cerr, serr)
	}
	return leaf, nil
}

func TestVerifC11Wiring(t *testing.T) {
	cases, err := verifx.ReadCases[c11WireCase]("")
	if err != nil {
		t.Fatal(err)
	}
	root, err := os.MkdirTemp(os.Getenv("VERIF_TMP"), "c11wire")
	if err != nil {
		t.Fatal(err)
	}
	defer os.RemoveAll(root)
	var handshakes, nontrivial int
	var samples []string
	for n, c := range cases {
		// one process = one configuration in reality: the source names of a case are its own
		name := func(src string) string { return fmt.Sprintf("%s%d", src, n) }
		var cs, addrs []string
		seen := map[string]bool{}
		for i, l := range c.Listeners {
			if !seen[l.Src] {
				seen[l.Src] = true
				dir := filepath.Join(root, name(l.Src))
				if err := os.MkdirAll(dir, 0700); err != nil {
					t.Fatal(err)
				}
				for _, ce := range c.Sets[l.Src] {
					m := c11WireMint(ce)
					if ce.Layout == "combined" {
						err = os.WriteFile(filepath.Join(dir, ce.File+".pem"), append(append([]byte(nil), m.CertPEM...), m.KeyPEM...), 0600)
					} else {
						if err = os.WriteFile(filepath.Join(dir, ce.File+"-cert.pem"), m.CertPEM, 0600); err == nil {
							err = os.WriteFile(filepath.Join(dir, ce.File+"-key.pem"), m.KeyPEM, 0600)
						}
					}
					if err != nil {
						t.Fatal(err)
					}
				}
				cs = append(cs, fmt.Sprintf("cs=%s;type=path;cert=%s", name(l.Src), dir))
			}
			a := fmt.Sprintf(":%d;cs=%s", 19000+i, name(l.Src))
			if l.Strict == 1 {
				a += ";strictmatch=true"
			}
			addrs = append(addrs, a)
		}
		args := []string{"fabio", "-proxy.cs", strings.Join(cs, ","), "-proxy.addr", strings.Join(addrs, ",")}
		describe := strings.Join(addrs, ",")
		var cfg *config.Config
		p, stack := verifx.Safely(func() { cfg, err = config.Load(args, nil) })
		if p != nil || err != nil || cfg == nil || len(cfg.Listen) != len(c.Listeners) {
			verifx.Fail(c, map[string]any{"sub": "wiring", "clause": "config"}, "-proxy.addr %q: config.Load: cfg=%v err=%v panic=%v %s", describe, cfg != nil, err, p, stack)
			continue
		}
		if len(c.Listeners) >= 2 {
			nontrivial++
		}
		if n%23 == 4 && len(samples) < 2 {
			samples = append(samples, "-proxy.addr "+describe)
		}
		var tlscfgs []*tls.Config
		ok := true
		for i := range cfg.Listen {
			var tc *tls.Config
			p, stack := verifx.Safely(func() { tc, err = makeTLSConfig(cfg.Listen[i]) })
			if p != nil || err != nil || tc == nil {
				verifx.Fail(c, map[string]any{"sub": "wiring", "clause": "tlsconfig"}, "-proxy.addr %q: makeTLSConfig(listener %d): cfg=%v err=%v panic=%v %s", describe, i+1, tc != nil, err, p, stack)
				ok = false
				break
			}
			tlscfgs = append(tlscfgs, tc)
		}
		if !ok {
			continue
		}
		for i, l := range c.Listeners {
			set := c.Sets[l.Src]
			// the source loads in the background: wait (by observation) until the listener presents
			// a certificate for the name of its first certificate
			first := set[0].Cn
			if first == "" {
				first = strings.Replace(set[0].Sans[0], "*", "w", 1)
			}
			deadline := time.Now().Add(30 * time.Second)
			for {
				leaf, ierr := c11WireHandshake(tlscfgs[i], first)
				if leaf != nil {
					break
				}
				if ierr != nil || time.Now().After(deadline) {
					verifx.Emit(map[string]any{"kind": "error", "msg": fmt.Sprintf("-proxy.addr %q: listener %d never presented a certificate (%v)", describe, i+1, ierr)})
					ok = false
					break
				}
				time.Sleep(5 * time.Millisecond) // readiness polling, not a verdict
			}
			if !ok {
				break
			}
			for _, q := range l.Q {
				sni := strings.Join(q.Sni, ".")
				leaf, ierr := c11WireHandshake(tlscfgs[i], sni)
				handshakes++
				if ierr != nil {
					verifx.Emit(map[string]any{"kind": "error", "msg": ierr.Error()})
					continue
				}
				got := 0
				if leaf != nil {
					got = -1
					for k, ce := range set {
						if bytes.Equal(c11WireMint(ce).DER, leaf) {
							got = k + 1
						}
					}
				}
				if got != q.Want {
					g := "other-certificate"
					switch {
					case got == 0:
						g = "none"
					case got == -1:
						g = "certificate-of-another-source"
					}
					w := "certificate"
					if q.Want == 0 {
						w = "none"
					}
					one := c
					b, _ := json.Marshal(c)
					json.Unmarshal(b, &one)
					verifx.Fail(one, map[string]any{"sub": "wiring", "clause": "present", "strict": l.Strict == 1, "want": w, "got": g, "position": c11WirePos(c, i)},
						"-proxy.addr %q: a client of listener %d (cs=%s, strictmatch=%v) asking for %q is presented certificate %d of its source's set, Select prescribes %d",
						describe, i+1, l.Src, l.Strict == 1, sni, got, q.Want)
					break
				}
			}
		}
	}
	verifx.Summary(map[string]any{"cases": len(cases), "handshakes": handshakes, "distinct_nontrivial": nontrivial, "samples": samples})
}

// c11WirePos says whether an earlier listener of the configuration names the same source.
func c11WirePos(c c11WireCase, i int) string {
	for j := 0; j < i; j++ {
		if c.Listeners[j].Src == c.Listeners[i].Src {
			if c.Listeners[j].Strict != c.Listeners[i].Strict {
				return "after-listener-of-same-source-other-strictness"
			}
			return "after-listener-of-same-source"
		}
	}
	return "first-of-its-source"
}
