package main

import (
	"fmt"
	"math/rand"
	"net"
	"os"
	"path/filepath"
	"sort"
	"strconv"
	"strings"
	"sync"
	"sync/atomic"
	"testing"
	"time"

	"github.com/fabiolb/fabio/internal/verifx"
	"github.com/fabiolb/fabio/route"
	"google.golang.org/grpc"
)

// view converts a provider read (relative to the baseline) into the keys Metrics_Trace knows.
func (r *x05Rig) view(src string, got, base x05Store) (map[string]int64, int64, []string) {
	vals := map[string]int64{}
	var unknown []string
	for k, v := range got {
		d := v - base[k]
		switch {
		case k == "ws":
		case strings.HasPrefix(k, "?"):
			if d != 0 {
				unknown = append(unknown, fmt.Sprintf("%s (+%d)", k, d))
			}
		case strings.HasPrefix(k, "name."):
			var ids []string
			for id, t := range r.targets {
				if t.name == k[5:] {
					ids = append(ids, id)
				}
			}
			if len(ids) == 0 {
				if d != 0 {
					unknown = append(unknown, fmt.Sprintf("%s (+%d): no target renders this name", k, d))
				}
				continue
			}
			sort.Strings(ids)
			vals["name."+ids[0]] += d
		default:
			vals[k] = d
		}
	}
	for _, k := range r.viewKeys(src) { // a metric a provider does not show has counted nothing
		if _, ok := vals[k]; !ok {
			vals[k] = 0
		}
	}
	return vals, got["ws"], unknown
}

// viewKeys lists every key of the specification's universe in the grouping a provider can show.
func (r *x05Rig) viewKeys(src string) []string {
	ks := []string{"requests", "notfound", "tcp.conn", "tcp.connfail", "tcp.noroute", "grpc.requests", "grpc.noroute", "grpc.conn"}
	if src == "flat" {
		return append(ks, "status.*", "route.*", "grpc.status.*", "redirect.*")
	}
	ks = append(ks, "redirect.301")
	for _, s := range []string{"200", "500", "301", "403", "404", "502"} {
		ks = append(ks, "status."+s)
	}
	for _, c := range []string{"OK", "Unavailable", "NotFound"} {
		ks = append(ks, "grpc.status."+c)
	}
	for id, t := range r.targets {
		if src == "prom" {
			ks = append(ks, "route."+id)
			continue
		}
		first := id
		for o, u := range r.targets {
			if u.name == t.name && o < first {
				first = o
			}
		}
		if first == id {
			ks = append(ks, "name."+id)
		}
	}
	return ks
}

func (r *x05Rig) readSrc(src string) (x05Store, error) {
	switch src {
	case "prom":
		return r.readProm()
	case "flat":
		return r.readFlat(), nil
	}
	return r.readStatsd()
}

var x05Srcs = []string{"prom", "flat", "statsd"}

func TestVerifX05Concurrent(t *testing.T) {
	r, err := x05NewRig()
	if err != nil {
		r.restoreAndFatal(t, err)
	}
	fatal := func(err error) {
		verifx.Emit(map[string]any{"kind": "rigerror", "msg": err.Error()})
		r.close()
		t.Fatal(err)
	}
	nClients := verifx.EnvInt("VERIF_X05_CLIENTS", 16)
	nOps := verifx.EnvInt("VERIF_X05_OPS", 40)
	nPhases := verifx.EnvInt("VERIF_X05_PHASES", 4)
	seed := verifx.Seed()
	rec := &verifx.Trace{}
	rec.Add(map[string]any{"ev": "Meta", "clients": nClients, "seed": seed})
	base := map[string]x05Store{}
	for _, s := range x05Srcs {
		if base[s], err = r.readSrc(s); err != nil {
			fatal(err)
		}
	}
	var nOpsDone, nSnaps, nSwaps int64
	var failMu sync.Mutex
	var rigErr error
	setErr := func(e error) {
		failMu.Lock()
		if rigErr == nil {
			rigErr = e
		}
		failMu.Unlock()
	}
	snapshot := func(src, evB, evE string, open int) {
		if evB != "" {
			rec.Add(map[string]any{"ev": evB, "src": src})
		}
		got, err := r.readSrc(src)
		if err != nil {
			setErr(err)
			return
		}
		vals, g, unk := r.view(src, got, base[src])
		e := map[string]any{"ev": evE, "src": src, "vals": vals, "gauge": g}
		if evE == "Exact" {
			e["open"] = open
		}
		rec.Add(e)
		if len(unk) > 0 {
			verifx.Fail(unk, map[string]any{"sub": "concurrent", "clause": "unknown-metric", "src": src}, "%s shows metrics the specification does not know: %s", src, strings.Join(unk, "; "))
		}
		atomic.AddInt64(&nSnaps, 1)
	}
	tunnels := make([]net.Conn, nClients+1)
	tunnelT := make([]string, nClients+1)
	private := make([]*grpc.ClientConn, nClients+1)
	httpAsk := []string{"t1", "t2", "t3", "td", "tr", "tx", "-", "t1", "t3"}

	client := func(c int, rnd *rand.Rand, closedMeans string, n int) {
		inv := func(k string) map[string]any {
			e := map[string]any{"ev": "Inv", "c": c, "k": k, "cls": "?", "tg": "-", "s": "-", "sure": 1}
			rec.Add(e)
			return e
		}
		ret := func() { rec.Add(map[string]any{"ev": "Ret", "c": c}); atomic.AddInt64(&nOpsDone, 1) }
		for i := 0; i < n; i++ {
			switch x := rnd.Intn(10); {
			case x < 5: // http
				w := httpAsk[rnd.Intn(len(httpAsk))]
				s := []string{"200", "500"}[rnd.Intn(2)]
				e := inv("http")
				ans := r.httpDo(r.pathOf(w), "s="+s)
				if ans.err != nil {
					setErr(ans.err)
					return
				}
				switch {
				case ans.up != "" && (w == "t1" || w == "t2" || w == "t3") && strconv.Itoa(ans.status) == s:
					e["cls"], e["tg"], e["s"] = "fwd", w, s
				case ans.up == "" && ans.status == 404:
					e["cls"], e["s"] = "noroute", "404"
				case ans.up == "" && ans.status == 403 && w == "td":
					e["cls"], e["tg"], e["s"] = "local", w, "403"
				case ans.up == "" && ans.status == 301 && w == "tr":
					e["cls"], e["tg"], e["s"] = "local", w, "301"
				case ans.up == "" && ans.status == 502 && w == "tx":
					e["cls"], e["tg"], e["s"] = "fwd", w, "502"
				default:
					verifx.Fail(map[string]any{"ask": w, "status": ans.status, "up": ans.up}, map[string]any{"sub": "concurrent", "clause": "answer", "ask": w},
						"a request for the prefix of %s (status %s wanted) was answered %d by %q", w, s, ans.status, ans.up)
					setErr(fmt.Errorf("unexpected answer"))
					return
				}
				ret()
			case x < 7: // websocket: open, or close the one this client has
				if tunnels[c] == nil {
					w := []string{"t1", "t3", "t2", "-"}[rnd.Intn(4)]
					e := inv("ws")
					conn, ans := r.wsOpen(r.pathOf(w))
					switch {
					case ans.err != nil:
						setErr(ans.err)
						return
					case ans.status == 101:
						e["cls"], e["tg"] = "wsopen", w
						tunnels[c], tunnelT[c] = conn, w
					case ans.status == 404:
						e["cls"], e["s"], e["sure"] = "noroute", "404", 0 // keep-alive answer: no causal end
					default:
						setErr(fmt.Errorf("upgrade for %s answered %d", w, ans.status))
						return
					}
					ret()
				} else {
					e := inv("ws")
					e["cls"], e["tg"], e["sure"] = "ws", tunnelT[c], 0
					if err := x05WSClose(tunnels[c]); err != nil {
						setErr(err)
						return
					}
					tunnels[c] = nil
					ret()
				}
			case x < 8: // tcp
				e := inv("tcp")
				out, err := r.tcpDo()
				if err != nil {
					setErr(err)
					return
				}
				if out == "ok" {
					e["cls"], e["tg"] = "tcpok", "tt"
				} else if closedMeans == "tcpfail" {
					e["cls"], e["tg"] = "tcpfail", "tu"
				} else {
					e["cls"] = "tcpnoroute"
				}
				ret()
			default: // grpc, now and then on a new connection of this client
				cc := r.cc
				if rnd.Intn(6) == 0 {
					if private[c] != nil {
						private[c].Close()
					}
					e := inv("gconn")
					e["cls"], e["sure"] = "gconn", 0
					ret()
					pc, err := grpc.NewClient("passthrough:///"+r.grpcA, x05Insecure())
					if err != nil {
						setErr(err)
						return
					}
					private[c] = pc
				}
				if private[c] != nil {
					cc = private[c]
				}
				ask := []string{"OK", "Unavailable"}[rnd.Intn(2)]
				e := inv("grpc")
				e["sure"] = 0
				code, err := r.grpcDo(cc, ask, "")
				if err != nil {
					setErr(err)
					return
				}
				if code == "NotFound" {
					e["cls"], e["s"] = "grpcnoroute", "NotFound"
				} else if code == ask {
					e["cls"], e["tg"], e["s"] = "grpc", "tg", code
				} else {
					setErr(fmt.Errorf("grpc call asked for %s ended with %s", ask, code))
					return
				}
				ret()
			}
		}
	}

	for p := 0; p < nPhases && rigErr == nil; p++ {
		other, closedMeans := "less", "tcpfail"
		if p%2 == 1 {
			other, closedMeans = "bare", "tcpnoroute"
		}
		stop := make(chan struct{})
		var bg, wg sync.WaitGroup
		bg.Add(2)
		go func() { // the table swapper
			defer bg.Done()
			for k := 0; ; k++ {
				select {
				case <-stop:
					rec.Add(map[string]any{"ev": "Swap", "table": x05TableSets["all"]})
					route.SetTable(r.tables["all"])
					return
				default:
				}
				id := []string{other, "all"}[k%2]
				rec.Add(map[string]any{"ev": "Swap", "table": x05TableSets[id]})
				route.SetTable(r.tables[id])
				atomic.AddInt64(&nSwaps, 1)
				time.Sleep(time.Duration(200+rand.Intn(1500)) * time.Microsecond)
			}
		}()
		go func() { // the snapshotter
			defer bg.Done()
			for k := 0; ; k++ {
				select {
				case <-stop:
					return
				default:
				}
				snapshot(x05Srcs[k%3], "SnapB", "SnapE", 0)
				time.Sleep(300 * time.Microsecond)
			}
		}()
		for c := 1; c <= nClients; c++ {
			wg.Add(1)
			go func(c int) {
				defer wg.Done()
				client(c, rand.New(rand.NewSource(seed*1000003+int64(p)*1009+int64(c))), closedMeans, nOps)
			}(c)
		}
		wg.Wait()
		close(stop)
		bg.Wait()
		if rigErr != nil {
			break
		}
		if p == nPhases-1 { // the last phase ends with every tunnel closed
			for c := 1; c <= nClients; c++ {
				if tunnels[c] != nil {
					rec.Add(map[string]any{"ev": "Inv", "c": c, "k": "ws", "cls": "ws", "tg": tunnelT[c], "s": "-", "sure": 0})
					x05WSClose(tunnels[c])
					tunnels[c] = nil
					rec.Add(map[string]any{"ev": "Ret", "c": c})
				}
			}
		}
		open := 0
		for _, c := range tunnels {
			if c != nil {
				open++
			}
		}
		if err := r.settle(open); err != nil {
			setErr(err)
			break
		}
		rec.Add(map[string]any{"ev": "Settle"})
		for _, s := range x05Srcs {
			snapshot(s, "", "Exact", open)
		}
	}
	for _, cc := range private {
		if cc != nil {
			cc.Close()
		}
	}
	leads := x05Leads(r)
	if rigErr != nil {
		fatal(rigErr)
	}
	r.close()
	path := filepath.Join(os.Getenv("VERIF_TMP"), fmt.Sprintf("x05-trace-%d.ndjson", seed))
	if err := rec.WriteNDJSON(path); err != nil {
		t.Fatal(err)
	}
	verifx.Summary(map[string]any{"trace": path, "events": rec.Len(), "ops": nOpsDone, "snapshots": nSnaps, "swaps": nSwaps,
		"clients": nClients, "phases": nPhases, "leads": leads})
}
