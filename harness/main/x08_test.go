package main

// X08 - request identification and tracing headers (spec/Tracing*.tla).
//
// The rig is main's own wiring: config.Load builds the configuration from command-line options (tracing.*,
// proxy.header.requestid), trace.InitializeTracer installs the global tracer exactly as main() does, the proxy is
// main.newHTTPProxy.  The collector is verifx.X08Zipkin (decodes the thrift posts of the real HTTP collector), the
// upstream an httptest server that records the header map it receives.  The reporter is asynchronous: the harness
// reaches the collector object behind opentracing.GlobalTracer() by reflection, waits until its queue is empty (no
// producer is left then) and calls its Close(), which posts the last batch synchronously - after that the fake
// collector's log is complete.  Nothing is decided by sleeping.

import (
	"bytes"
	"encoding/json"
	"fmt"
	"io"
	"net/http"
	"net/http/httptest"
	"os"
	"path/filepath"
	"reflect"
	"regexp"
	"strconv"
	"strings"
	"sync"
	"sync/atomic"
	"testing"
	"time"
	"unsafe"

	"github.com/fabiolb/fabio/config"
	"github.com/fabiolb/fabio/internal/verifx"
	"github.com/fabiolb/fabio/metrics"
	"github.com/fabiolb/fabio/proxy"
	"github.com/fabiolb/fabio/route"
	"github.com/fabiolb/fabio/trace"
	opentracing "github.com/opentracing/opentracing-go"
	zipkin "github.com/openzipkin-contrib/zipkin-go-opentracing"
)

type x08Cfg struct {
	On   string `json:"on"`
	Rate string `json:"rate"`
	B128 string `json:"b128"`
	Rid  string `json:"rid"`
}
type x08Inc struct {
	Tid string `json:"tid"`
	Sid string `json:"sid"`
	Pid string `json:"pid"`
	Smp string `json:"smp"`
	Flg string `json:"flg"`
	Rid string `json:"rid"`
}
type x08Hdr struct {
	Tid string `json:"tid"`
	Sid string `json:"sid"`
	Pid string `json:"pid"`
	Smp string `json:"smp"`
	Flg string `json:"flg"`
	Rid string `json:"rid"`
	Tw  int    `json:"tw"`
}
type x08Sp struct {
	N       int    `json:"n"`
	Started int    `json:"started"`
	Tid     string `json:"tid"`
	ID      string `json:"id"`
	Pid     string `json:"pid"`
	Tw      int    `json:"tw"`
	Dbg     string `json:"dbg"`
}
type x08Case struct {
	K     int    `json:"k"`
	Cfg   x08Cfg `json:"cfg"`
	Inc   x08Inc `json:"inc"`
	Route string `json:"route"`
	St    int    `json:"st"`
	Seen  string `json:"seen"`
	Up    x08Hdr `json:"up"`
	Sp    x08Sp  `json:"sp"`
	Any   string `json:"any"` // "y": the sampler decides (fractional rate) - either decision, consistently
}

const (
	x08RidHeader = "X-Request-Id"
	x08Service   = "x08svc"
	x08SpanHost  = "10.1.2.3:4567"
	x08Zero16    = "0000000000000000"
)

var x08B3 = map[string]string{"tid": "X-B3-TraceId", "sid": "X-B3-SpanId", "pid": "X-B3-ParentSpanId", "smp": "X-B3-Sampled", "flg": "X-B3-Flags"}

// ------------------------------------------------------------------------------------------------ world

type x08Seen struct {
	t   int64
	hdr http.Header
	n   int
}

type x08World struct {
	z    *verifx.X08Zipkin
	up   *httptest.Server
	mu   sync.Mutex
	seen map[string]*x08Seen // request key -> what the upstream saw
	onUp func(key string, h http.Header)
	cl   *http.Client
}

var (
	x08Once sync.Once
	x08W    *x08World
	x08Err  error
	x08KeyR = regexp.MustCompile(`/(fwd|none|redir|deny)/([A-Za-z0-9_-]+)`)
)

func x08GetWorld() (*x08World, error) {
	x08Once.Do(func() {
		w := &x08World{seen: map[string]*x08Seen{}}
		w.z, x08Err = verifx.X08NewZipkin()
		if x08Err != nil {
			return
		}
		w.up = httptest.NewServer(http.HandlerFunc(func(rw http.ResponseWriter, r *http.Request) {
			m := x08KeyR.FindStringSubmatch(r.URL.Path)
			if m != nil {
				w.mu.Lock()
				s := w.seen[m[2]]
				if s == nil {
					s = &x08Seen{}
					w.seen[m[2]] = s
				}
				s.n++
				s.hdr = r.Header.Clone()
				if w.onUp != nil {
					w.onUp(m[2], s.hdr)
				}
				w.mu.Unlock()
			}
			rw.Header().Set("Content-Length", "2")
			io.WriteString(rw, "ok")
		}))
		addr := strings.TrimPrefix(w.up.URL, "http://")
		text := "route add x08f /fwd http://" + addr + "/\n" +
			"route add x08r /redir https://x08.example/ opts \"redirect=301\"\n" +
			"route add x08d /deny http://" + addr + "/ opts \"allow=ip:10.9.9.9/32\"\n"
		t, err := route.NewTable(bytes.NewBufferString(text))
		if err != nil {
			x08Err = err
			return
		}
		route.SetTable(t)
		w.cl = &http.Client{Transport: &http.Transport{MaxIdleConnsPerHost: 64, DisableCompression: true},
			CheckRedirect: func(*http.Request, []*http.Request) error { return http.ErrUseLastResponse }, Timeout: 30 * time.Second}
		x08W = w
	})
	return x08W, x08Err
}

func (w *x08World) takeSeen(key string) *x08Seen {
	w.mu.Lock()
	defer w.mu.Unlock()
	s := w.seen[key]
	delete(w.seen, key)
	return s
}

// ------------------------------------------------------------------------------------------------ one configured process

type x08Proc struct {
	w        *x08World
	cfg      x08Cfg
	spanTmpl bool
	front    *httptest.Server
	fin      func(key string, status int)
	col      *zipkin.HTTPCollector
	qlen     func() int
}

type x08RW struct {
	http.ResponseWriter
	code int
}

func (r *x08RW) WriteHeader(c int) {
	if r.code == 0 {
		r.code = c
	}
	r.ResponseWriter.WriteHeader(c)
}
func (r *x08RW) Write(b []byte) (int, error) {
	if r.code == 0 {
		r.code = 200
	}
	return r.ResponseWriter.Write(b)
}
func (r *x08RW) Flush() {
	if f, ok := r.ResponseWriter.(http.Flusher); ok {
		f.Flush()
	}
}

// x08Start builds "a fabio process" with the given configuration: options -> config.Load -> InitializeTracer -> newHTTPProxy.
func x08Start(w *x08World, c x08Cfg, variant int) (*x08Proc, error) {
	p := &x08Proc{w: w, cfg: c, spanTmpl: variant%2 == 1}
	rate := map[string][]string{"zero": {"-1", "0"}, "one": {"1", "2.5"}, "half": {"0.5", "0.5"}}[c.Rate][variant%2]
	args := []string{"fabio", "-registry.backend=static",
		"-tracing.TracingEnabled=" + strconv.FormatBool(c.On == "y"),
		"-tracing.CollectorType=http", "-tracing.ConnectString=" + w.z.URL(),
		"-tracing.ServiceName=" + x08Service, "-tracing.SamplerRate=" + rate, "-tracing.SpanHost=" + x08SpanHost,
		"-tracing.TraceID128Bit=" + strconv.FormatBool(c.B128 == "y")}
	if p.spanTmpl {
		args = append(args, "-tracing.SpanName={{.Method}} {{.Path}}")
	}
	if c.Rid == "y" {
		args = append(args, "-proxy.header.requestid="+x08RidHeader)
	}
	cfg, err := config.Load(args, nil)
	if err != nil || cfg == nil {
		return nil, fmt.Errorf("config.Load: %v", err)
	}
	// a fresh process starts with the no-op tracer registered
	opentracing.SetGlobalTracer(opentracing.NoopTracer{})
	trace.InitializeTracer(&cfg.Tracing)
	if c.On == "y" {
		if err := p.findCollector(); err != nil {
			return nil, err
		}
	}
	dp := metrics.DiscardProvider{}
	hp := newHTTPProxy(cfg, &proxy.HttpStatsHandler{
		Requests:        dp.NewHistogram("requests"),
		Noroute:         dp.NewCounter("notfound"),
		WSConn:          dp.NewGauge("ws.conn"),
		StatusTimer:     dp.NewHistogram("http.status", "code"),
		RedirectCounter: dp.NewCounter("http.redirect.count", "code"),
	})
	p.front = httptest.NewServer(http.HandlerFunc(func(rw http.ResponseWriter, r *http.Request) {
		key := ""
		if m := x08KeyR.FindStringSubmatch(r.URL.Path); m != nil {
			key = m[2]
		}
		x := &x08RW{ResponseWriter: rw}
		pv, stack := verifx.Safely(func() { hp.ServeHTTP(x, r) })
		if pv != nil {
			x.code = -1
			fmt.Fprintf(os.Stderr, "x08: panic in ServeHTTP: %v\n%s\n", pv, stack)
		}
		if p.fin != nil {
			p.fin(key, x.code)
		}
	}))
	return p, nil
}

func x08Unexported(v reflect.Value, name string) reflect.Value {
	f := v.FieldByName(name)
	if !f.IsValid() {
		return f
	}
	return reflect.NewAt(f.Type(), unsafe.Pointer(f.UnsafeAddr())).Elem()
}

// findCollector reaches the HTTP collector InitializeTracer has created: GlobalTracer -> options.recorder -> collector.
func (p *x08Proc) findCollector() (err error) {
	defer func() {
		if r := recover(); r != nil {
			err = fmt.Errorf("cannot reach the collector behind the global tracer: %v", r)
		}
	}()
	zt, ok := opentracing.GlobalTracer().(zipkin.Tracer)
	if !ok {
		return fmt.Errorf("global tracer is %T, not a zipkin tracer", opentracing.GlobalTracer())
	}
	opts := zt.Options()
	ov := reflect.New(reflect.TypeOf(opts)).Elem()
	ov.Set(reflect.ValueOf(opts))
	rec := x08Unexported(ov, "recorder").Interface().(zipkin.SpanRecorder)
	rv := reflect.ValueOf(rec).Elem()
	col := x08Unexported(rv, "collector").Interface().(zipkin.Collector)
	hc, ok := col.(*zipkin.HTTPCollector)
	if !ok {
		return fmt.Errorf("collector is %T", col)
	}
	ch := reflect.ValueOf(hc).Elem().FieldByName("spanc")
	p.col = hc
	p.qlen = func() int { return ch.Len() }
	return nil
}

// flush is the causal barrier: no ServeHTTP is running any more (the caller has seen every fin), so nothing is added
// to the reporter's queue; once the queue is empty the reporter has every span in its batch, and Close posts the
// batch before it returns.  Returns an error (inconclusive) if the queue does not drain.
func (p *x08Proc) flush() error {
	if p.col == nil {
		return nil
	}
	dl := time.Now().Add(20 * time.Second)
	for p.qlen() > 0 {
		if time.Now().After(dl) {
			return fmt.Errorf("the reporter's queue does not drain (%d left after 20 s)", p.qlen())
		}
		time.Sleep(200 * time.Microsecond)
	}
	errc := make(chan error, 1)
	go func() { errc <- p.col.Close() }()
	select {
	case err := <-errc:
		p.col = nil
		return err
	case <-time.After(20 * time.Second):
		return fmt.Errorf("HTTPCollector.Close does not return (20 s)")
	}
}

func (p *x08Proc) stop() {
	p.front.Close()
}

// throttle keeps the reporter's queue far below the library's backlog limit (1000 spans; more are dropped by design).
func (p *x08Proc) throttle() {
	if p.qlen == nil {
		return
	}
	for i := 0; p.qlen() > 300 && i < 20000; i++ {
		time.Sleep(200 * time.Microsecond)
	}
}

// ------------------------------------------------------------------------------------------------ concrete requests

const x08Hex = "0123456789abcdef"

func x08RandHex(r interface{ Intn(int) int }, n int) string {
	b := make([]byte, n)
	for i := range b {
		b[i] = x08Hex[r.Intn(16)]
	}
	if b[0] == '0' {
		b[0] = '7'
	}
	if n > 16 && b[n-16] == '0' {
		b[n-16] = '5'
	}
	return string(b)
}

type x08Req struct {
	key   string
	route string
	vals  map[string]string // token -> concrete value (Tw64, Sok, ...)
	hdr   map[string]string // field -> value sent ("" with present=false if absent)
	sent  map[string]bool
	path  string
}

var (
	x08BadTid = []string{"zzzzzzzzzzzzzzzz", "", "0123456789abcdef0123456789abcdef01234567", "0x1234567890abcde", "463ac35c9f6413ad 48485a3953bb6124"}
	x08BadSid = []string{"nothex0123456789", "", "10123456789abcdef", "-000000000000001", "a3ce929d0e0e473g"}
	x08BadSmp = []string{"maybe", "2", "yes", "", "d"}
	x08BadFlg = []string{"x", "-1", "1.0", "", "0x1"}
)

func x08Concrete(c *x08Case, key string, r interface{ Intn(int) int }) *x08Req {
	q := &x08Req{key: key, route: c.Route, vals: map[string]string{}, hdr: map[string]string{}, sent: map[string]bool{}}
	q.vals["Tw64"] = x08RandHex(r, 16)
	q.vals["Tw128"] = x08RandHex(r, 32)
	q.vals["Tbad"] = x08BadTid[r.Intn(len(x08BadTid))]
	q.vals["Sok"] = x08RandHex(r, 16)
	q.vals["Sbad"] = x08BadSid[r.Intn(len(x08BadSid))]
	q.vals["Pok"] = x08RandHex(r, 16)
	q.vals["Pbad"] = x08BadSid[r.Intn(len(x08BadSid))]
	q.vals["Mbad"] = x08BadSmp[r.Intn(len(x08BadSmp))]
	q.vals["Fbad"] = x08BadFlg[r.Intn(len(x08BadFlg))]
	q.vals["Rgiven"] = "client-" + key + "-" + x08RandHex(r, 8)
	q.vals["0"], q.vals["1"] = "0", "1"
	set := func(f, class, prefix string) {
		if class == "-" {
			return
		}
		tok := prefix + class
		if class == "0" || class == "1" {
			tok = class
		}
		q.hdr[f] = q.vals[tok]
		q.sent[f] = true
	}
	set("tid", c.Inc.Tid, "T")
	set("sid", c.Inc.Sid, "S")
	set("pid", c.Inc.Pid, "P")
	set("smp", c.Inc.Smp, "M")
	set("flg", c.Inc.Flg, "F")
	set("rid", c.Inc.Rid, "R")
	q.path = map[string]string{"fwd": "/fwd/", "noroute": "/none/", "redirect": "/redir/", "denied": "/deny/"}[c.Route] + key + "?q=" + key
	return q
}

func (p *x08Proc) send(q *x08Req) (int, error) {
	req, err := http.NewRequest("GET", p.front.URL+q.path, nil)
	if err != nil {
		return 0, err
	}
	for f, name := range x08B3 {
		if q.sent[f] {
			req.Header[name] = []string{q.hdr[f]}
		}
	}
	if q.sent["rid"] {
		req.Header[x08RidHeader] = []string{q.hdr["rid"]}
	}
	resp, err := p.w.cl.Do(req)
	if err != nil {
		return 0, err
	}
	io.Copy(io.Discard, resp.Body)
	resp.Body.Close()
	return resp.StatusCode, nil
}

var (
	x08UUIDRe  = regexp.MustCompile(`^[0-9a-f]{8}-[0-9a-f]{4}-[0-9a-f]{4}-[0-9a-f]{4}-[0-9a-f]{12}$`)
	x08Hex16Re = regexp.MustCompile(`^[0-9a-f]{16}$`)
	x08Hex32Re = regexp.MustCompile(`^[0-9a-f]{32}$`)
)

// x08Fresh remembers every identifier fabio generated in this test process.
type x08Fresh struct {
	mu sync.Mutex
	m  map[string]string
}

func (f *x08Fresh) add(kind, v, who string) (dupOf string) {
	f.mu.Lock()
	defer f.mu.Unlock()
	if f.m == nil {
		f.m = map[string]string{}
	}
	if o, ok := f.m[kind+":"+v]; ok {
		return o
	}
	f.m[kind+":"+v] = who
	return ""
}

func x08Width(v string) int {
	switch {
	case x08Hex16Re.MatchString(v):
		return 64
	case x08Hex32Re.MatchString(v):
		return 128
	}
	return 0
}

func x08Vals(h http.Header, name string) []string { return h.Values(name) }

func x08One(h http.Header, name string) string {
	v := h.Values(name)
	if len(v) == 0 {
		return "-"
	}
	if len(v) == 1 {
		return v[0]
	}
	return strings.Join(v, "\x00")
}

type x08Result struct {
	status int
	seen   *x08Seen
	spans  []verifx.X08Span
}

// judge compares what the real proxy did for one case with what the specification prescribes.
func x08Judge(c *x08Case, q *x08Req, p *x08Proc, res *x08Result, fresh *x08Fresh) (fails int) {
	feat := func(clause string) map[string]any {
		return map[string]any{"sub": "replay", "clause": clause, "on": c.Cfg.On, "route": c.Route}
	}
	fail := func(clause, format string, a ...any) {
		fails++
		verifx.Fail(c, feat(clause), "case %d (%s): "+format, append([]any{c.K, q.path}, a...)...)
	}
	if res.status != c.St {
		fail("status", "answer %d, specification %d", res.status, c.St)
	}
	if (res.seen != nil) != (c.Seen == "y") {
		fail("forwarded", "upstream saw the request: %v, specification: %s", res.seen != nil, c.Seen)
		return
	}
	var upTid, upSid, upPid, upSmp string
	if res.seen != nil {
		if res.seen.n != 1 {
			fail("forwarded", "upstream saw the request %d times", res.seen.n)
		}
		h := res.seen.hdr
		check := func(f, name, tok string) string {
			got := x08Vals(h, name)
			switch tok {
			case "absent":
				if len(got) != 0 {
					fail("up-"+f, "%s must be absent, upstream saw %q (sent %q)", name, got, q.hdr[f])
				}
				return "-"
			case "new":
				if len(got) != 1 {
					fail("up-"+f, "%s must be one generated value, upstream saw %q", name, got)
					return "-"
				}
				v := got[0]
				okf := true
				switch f {
				case "tid":
					okf = x08Width(v) == c.Up.Tw
				case "sid", "pid":
					okf = x08Hex16Re.MatchString(v)
				case "rid":
					okf = x08UUIDRe.MatchString(v)
				}
				if !okf {
					fail("format-"+f, "%s = %q is not of the required form (width %d)", name, v, c.Up.Tw)
				}
				if q.sent[f] && v == q.hdr[f] {
					fail("up-"+f, "%s must be generated by fabio, upstream saw the client's value %q", name, v)
				}
				kind := "span"
				if f == "rid" {
					kind = "rid"
				}
				if d := fresh.add(kind, v, q.key+"/"+f); d != "" {
					fail("unique-"+f, "%s = %q was already handed out (%s)", name, v, d)
				}
				return v
			default:
				want := tok
				if cv, ok := q.vals[tok]; ok {
					want = cv
				}
				if c.Any == "y" && f == "smp" {
					if len(got) != 1 || (got[0] != "0" && got[0] != "1") {
						fail("up-"+f, "%s must be 0 or 1, upstream saw %q", name, got)
						return "-"
					}
					return got[0]
				}
				if len(got) != 1 || got[0] != want {
					fail("up-"+f, "%s must be %q (%s), upstream saw %q", name, want, tok, got)
				}
				if len(got) == 1 {
					return got[0]
				}
				return "-"
			}
		}
		upTid = check("tid", x08B3["tid"], c.Up.Tid)
		upSid = check("sid", x08B3["sid"], c.Up.Sid)
		upPid = check("pid", x08B3["pid"], c.Up.Pid)
		upSmp = check("smp", x08B3["smp"], c.Up.Smp)
		// flags: 1 iff debug; with tracing on "0" says the same as an absent header
		gf := x08Vals(h, x08B3["flg"])
		switch {
		case c.Cfg.On != "y":
			check("flg", x08B3["flg"], c.Up.Flg)
		case c.Up.Flg == "1":
			if len(gf) != 1 || gf[0] != "1" {
				fail("up-flg", "X-B3-Flags must be 1, upstream saw %q", gf)
			}
		default:
			if len(gf) > 1 || (len(gf) == 1 && gf[0] != "0") {
				fail("up-flg", "X-B3-Flags must be absent or 0, upstream saw %q", gf)
			}
		}
		check("rid", x08RidHeader, c.Up.Rid)
		if c.Up.Tw != 0 && c.Cfg.On == "y" && x08Width(upTid) != c.Up.Tw {
			fail("format-tid", "X-B3-TraceId %q must have %d bits", upTid, c.Up.Tw)
		}
	}
	// the collector
	want := c.Sp.N
	if c.Route != "fwd" {
		// the documentation is silent about spans for answers fabio produces itself: at most one, and a consistent one
		if len(res.spans) > 1 {
			fail("span-count", "%d spans for one request", len(res.spans))
		}
	} else {
		if c.Any == "y" {
			want = 0
			if upSmp == "1" {
				want = 1
			}
		}
		if len(res.spans) != want {
			fail("span-count", "collector received %d spans, specification %d (X-B3-Sampled seen by the upstream: %q)", len(res.spans), want, upSmp)
		}
	}
	for _, s := range res.spans {
		if c.Cfg.On != "y" {
			fail("span-count", "span reported although tracing is off")
			continue
		}
		if c.Route == "fwd" && res.seen != nil {
			if s.TraceID != upTid || s.ID != upSid {
				fail("span-ids", "span (trace %s, id %s) differs from the context sent upstream (trace %s, span %s)", s.TraceID, s.ID, upTid, upSid)
			}
			switch c.Sp.Pid {
			case "absent":
				if s.HasParent {
					fail("span-parent", "span has parent %s, specification: none", s.ParentID)
				}
			default:
				wantp := c.Sp.Pid
				if cv, ok := q.vals[c.Sp.Pid]; ok {
					wantp = cv
				}
				if !s.HasParent || s.ParentID != wantp {
					fail("span-parent", "span parent %q (present %v), specification %q", s.ParentID, s.HasParent, wantp)
				}
				if upPid != "-" && upPid != s.ParentID {
					fail("span-parent", "span parent %q differs from X-B3-ParentSpanId %q", s.ParentID, upPid)
				}
			}
			if s.Debug != (c.Sp.Dbg == "y") {
				fail("span-debug", "span debug flag %v, specification %s", s.Debug, c.Sp.Dbg)
			}
		} else {
			if x08Width(s.TraceID) == 0 || !x08Hex16Re.MatchString(s.ID) {
				fail("span-ids", "span ids malformed: trace %q id %q", s.TraceID, s.ID)
			}
			if d := fresh.add("span", s.ID, q.key+"/localspan"); d != "" {
				fail("unique-sid", "span id %q was already handed out (%s)", s.ID, d)
			}
		}
		name := x08Service
		if p.spanTmpl {
			name = "GET " + strings.SplitN(q.path, "?", 2)[0]
		}
		// zipkin lower-cases span names on the wire? (no: the client sends them as they are)
		if s.Name != name {
			fail("span-name", "span name %q, configured %q", s.Name, name)
		}
		if s.Service != x08Service || s.IPv4+":"+strconv.Itoa(s.Port) != x08SpanHost {
			fail("span-endpoint", "span endpoint %s %s:%d, configured %s %s", s.Service, s.IPv4, s.Port, x08Service, x08SpanHost)
		}
		if s.Tags["http.method"] != "GET" || s.Tags["http.url"] != q.path {
			fail("span-tags", "span tags %v do not name the request GET %s", s.Tags, q.path)
		}
	}
	return
}

// ------------------------------------------------------------------------------------------------ S->C replay

func x08Group(cases []x08Case) (keys []x08Cfg, groups map[x08Cfg][]*x08Case) {
	groups = map[x08Cfg][]*x08Case{}
	for i := range cases {
		c := &cases[i]
		if _, ok := groups[c.Cfg]; !ok {
			keys = append(keys, c.Cfg)
		}
		groups[c.Cfg] = append(groups[c.Cfg], c)
	}
	return
}

func x08SpanKey(s verifx.X08Span) string {
	if m := x08KeyR.FindStringSubmatch(s.Tags["http.url"]); m != nil {
		return m[2]
	}
	return ""
}

func x08RunGroup(t *testing.T, w *x08World, cfg x08Cfg, gi int, cases []*x08Case, fresh *x08Fresh, stats map[string]int) error {
	p, err := x08Start(w, cfg, gi+int(verifx.Seed()))
	if err != nil {
		return err
	}
	defer p.stop()
	var finMu sync.Mutex
	finCh := map[string]chan int{}
	p.fin = func(key string, st int) {
		finMu.Lock()
		ch := finCh[key]
		finMu.Unlock()
		if ch != nil {
			ch <- st
		}
	}
	type item struct {
		c   *x08Case
		q   *x08Req
		res *x08Result
		err error
	}
	items := make([]*item, len(cases))
	rnd := verifx.Rand()
	for i, c := range cases {
		key := fmt.Sprintf("g%dk%d", gi, c.K)
		it := &item{c: c, q: x08Concrete(c, key, rnd), res: &x08Result{}}
		items[i] = it
		finCh[key] = make(chan int, 1)
	}
	var wg sync.WaitGroup
	next := int64(-1)
	for wk := 0; wk < 8; wk++ {
		wg.Add(1)
		go func() {
			defer wg.Done()
			for {
				i := int(atomic.AddInt64(&next, 1))
				if i >= len(items) {
					return
				}
				it := items[i]
				p.throttle()
				st, err := p.send(it.q)
				if err != nil {
					it.err = err
					continue
				}
				it.res.status = st
				select {
				case code := <-finCh[it.q.key]:
					if code == -1 {
						it.res.status = -1
					}
				case <-time.After(20 * time.Second):
					it.err = fmt.Errorf("ServeHTTP did not return")
				}
			}
		}()
	}
	wg.Wait()
	if err := p.flush(); err != nil {
		return err
	}
	if bad := w.z.Bad(); len(bad) > 0 {
		return fmt.Errorf("the collector could not decode a post: %v", bad)
	}
	byKey := map[string][]verifx.X08Span{}
	for _, s := range w.z.Take() {
		byKey[x08SpanKey(s)] = append(byKey[x08SpanKey(s)], s)
	}
	for _, it := range items {
		if it.err != nil {
			stats["plumbing"]++
			verifx.Emit(map[string]any{"kind": "note", "msg": "request failed: " + it.err.Error()})
			continue
		}
		it.res.seen = w.takeSeen(it.q.key)
		it.res.spans = byKey[it.q.key]
		delete(byKey, it.q.key)
		if it.res.status == -1 {
			verifx.Fail(it.c, map[string]any{"sub": "replay", "clause": "panic", "on": it.c.Cfg.On, "route": it.c.Route}, "case %d: ServeHTTP panicked", it.c.K)
		}
		if x08Judge(it.c, it.q, p, it.res, fresh) > 0 {
			stats["failed"]++
		}
		stats["cases"]++
		stats["spans"] += len(it.res.spans)
		if it.res.seen != nil {
			stats["forwarded"]++
		}
		if it.c.Any == "y" && it.c.Route == "fwd" {
			stats["sampler"]++
			if len(it.res.spans) == 1 {
				stats["sampler_yes"]++
			}
		}
	}
	for k, v := range byKey {
		verifx.Fail(map[string]any{"key": k}, map[string]any{"sub": "replay", "clause": "span-invented"}, "collector received %d spans that belong to no request of the group: %+v", len(v), v[0])
	}
	return nil
}

func TestVerifX08Replay(t *testing.T) {
	w, err := x08GetWorld()
	if err != nil {
		t.Fatal(err)
	}
	cases, err := verifx.ReadCases[x08Case]("VERIF_IN")
	if err != nil {
		t.Fatal(err)
	}
	keys, groups := x08Group(cases)
	fresh := &x08Fresh{}
	stats := map[string]int{}
	for gi, k := range keys {
		if err := x08RunGroup(t, w, k, gi, groups[k], fresh, stats); err != nil {
			verifx.Emit(map[string]any{"kind": "inconclusive", "msg": err.Error()})
			t.Fatal(err)
		}
	}
	posts, largest := w.z.Posts()
	sum := map[string]any{"groups": len(keys), "posts": posts, "largest_post": largest, "generated_ids": len(fresh.m)}
	for k, v := range stats {
		sum[k] = v
	}
	var samples []any
	for i := 0; i < len(cases) && len(samples) < 3; i += len(cases)/3 + 1 {
		samples = append(samples, cases[i])
	}
	sum["samples"] = samples
	verifx.Summary(sum)
}

// ------------------------------------------------------------------------------------------------ probe of the named deviations

func TestVerifX08Probe(t *testing.T) {
	w, err := x08GetWorld()
	if err != nil {
		t.Fatal(err)
	}
	type pr struct {
		name string
		cfg  x08Cfg
		inc  x08Inc
	}
	on := func(rate string) x08Cfg { return x08Cfg{On: "y", Rate: rate, B128: "y", Rid: "n"} }
	probes := []pr{
		{"root", on("one"), x08Inc{"-", "-", "-", "-", "-", "-"}},
		{"malformed", on("one"), x08Inc{"bad", "ok", "ok", "-", "-", "-"}},
		{"deferred", on("one"), x08Inc{"w64", "ok", "-", "-", "-", "-"}},
		{"debug", on("zero"), x08Inc{"w64", "ok", "-", "-", "1", "-"}},
		{"alone", on("one"), x08Inc{"-", "-", "-", "0", "-", "-"}},
	}
	out := map[string]any{}
	notes := []string{}
	for i, pb := range probes {
		p, err := x08Start(w, pb.cfg, 0)
		if err != nil {
			t.Fatal(err)
		}
		done := make(chan int, 1)
		p.fin = func(string, int) { done <- 1 }
		c := &x08Case{K: i, Cfg: pb.cfg, Inc: pb.inc, Route: "fwd"}
		q := x08Concrete(c, fmt.Sprintf("probe%d", i), verifx.Rand())
		st, err := p.send(q)
		if err != nil {
			t.Fatal(err)
		}
		<-done
		if err := p.flush(); err != nil {
			t.Fatal(err)
		}
		spans := w.z.Take()
		seen := w.takeSeen(q.key)
		p.stop()
		if seen == nil || st != 200 {
			t.Fatalf("probe %s: status %d, upstream saw it: %v", pb.name, st, seen != nil)
		}
		h := seen.hdr
		switch pb.name {
		case "root":
			out["root_zero_parent"] = x08One(h, x08B3["pid"]) == x08Zero16
			if len(spans) == 1 {
				notes = append(notes, fmt.Sprintf("span of a root request: parent present %v (%s), annotations %v, tags %v, timed %v", spans[0].HasParent, spans[0].ParentID, spans[0].Ann, spans[0].Tags, spans[0].Timed))
			}
		case "malformed":
			out["malformed_parent_leaks"] = x08One(h, x08B3["pid"]) == q.hdr["pid"]
			if len(spans) == 1 {
				notes = append(notes, fmt.Sprintf("span after a malformed context: annotations %v, tags %v", spans[0].Ann, spans[0].Tags))
			}
		case "deferred":
			out["deferred_not_sampled"] = x08One(h, x08B3["smp"]) == "0" && len(spans) == 0
		case "debug":
			out["debug_not_sampled"] = len(spans) == 0
			notes = append(notes, fmt.Sprintf("debug request: upstream saw X-B3-Sampled %q X-B3-Flags %q", x08One(h, x08B3["smp"]), x08One(h, x08B3["flg"])))
		case "alone":
			out["sampled_alone_ignored"] = x08One(h, x08B3["smp"]) == "1" && len(spans) == 1
		}
	}
	out["notes"] = notes
	verifx.Summary(out)
}

// ------------------------------------------------------------------------------------------------ C->S concurrent recording

func TestVerifX08Concurrent(t *testing.T) {
	w, err := x08GetWorld()
	if err != nil {
		t.Fatal(err)
	}
	clients := verifx.EnvInt("VERIF_X08_CLIENTS", 16)
	iters := verifx.EnvInt("VERIF_X08_ITERS", 20)
	rounds := verifx.EnvInt("VERIF_X08_ROUNDS", 3)
	rnd := verifx.Rand()
	tr := &verifx.Trace{}
	kinds := []x08Inc{
		{"-", "-", "-", "-", "-", "-"}, {"-", "-", "-", "-", "-", "given"},
		{"w64", "ok", "-", "1", "-", "-"}, {"w128", "ok", "ok", "1", "-", "given"}, {"w64", "ok", "ok", "0", "-", "-"},
		{"w128", "ok", "-", "-", "-", "-"}, {"w64", "ok", "-", "-", "1", "-"}, {"w64", "ok", "-", "1", "1", "-"},
		{"bad", "ok", "ok", "1", "-", "-"}, {"w64", "bad", "-", "1", "-", "-"}, {"w64", "-", "-", "-", "-", "-"}, {"-", "-", "ok", "-", "-", "-"},
		{"-", "-", "-", "1", "-", "-"}, {"-", "-", "-", "0", "-", "-"}, {"w64", "ok", "bad", "-", "-", "-"}, {"w128", "ok", "-", "bad", "-", "-"},
	}
	routes := []string{"fwd", "fwd", "fwd", "fwd", "fwd", "noroute", "redirect", "denied"}
	cfgs := []x08Cfg{{"y", "half", "y", "y"}, {"y", "one", "n", "y"}, {"y", "half", "n", "n"}, {"n", "zero", "n", "y"}, {"y", "zero", "y", "y"}}
	total, nspans := 0, 0
	maxrq := clients * iters
	for round := 0; round < rounds; round++ {
		rqn := 0
		cfg := cfgs[(round+int(verifx.Seed()))%len(cfgs)]
		p, err := x08Start(w, cfg, round)
		if err != nil {
			t.Fatal(err)
		}
		tr.Add(map[string]any{"ev": "Reset", "round": round, "on": cfg.On, "rate": cfg.Rate, "b128": cfg.B128, "rid": cfg.Rid})
		var mu sync.Mutex
		num := map[string]int{}
		w.mu.Lock()
		w.onUp = func(key string, h http.Header) {
			mu.Lock()
			n := num[key]
			mu.Unlock()
			tid := x08One(h, x08B3["tid"])
			tr.Add(map[string]any{"ev": "Up", "rq": n, "tid": tid, "sid": x08One(h, x08B3["sid"]), "pid": x08One(h, x08B3["pid"]),
				"smp": x08One(h, x08B3["smp"]), "flg": x08One(h, x08B3["flg"]), "rid": x08One(h, x08RidHeader), "tw": x08Width(tid)})
		}
		w.mu.Unlock()
		w.z.OnSpan = func(s verifx.X08Span) {
			mu.Lock()
			n := num[x08SpanKey(s)]
			mu.Unlock()
			pid := "-"
			if s.HasParent {
				pid = s.ParentID
			}
			tr.Add(map[string]any{"ev": "Span", "rq": n, "tid": s.TraceID, "id": s.ID, "pid": pid, "tw": x08Width(s.TraceID)})
		}
		finCh := map[string]chan int{}
		p.fin = func(key string, st int) {
			mu.Lock()
			n := num[key]
			ch := finCh[key]
			mu.Unlock()
			tr.Add(map[string]any{"ev": "Fin", "rq": n, "st": st})
			ch <- st
		}
		// the requests of this round, prepared up front
		type job struct {
			n int
			q *x08Req
			c *x08Case
		}
		jobs := make([][]job, clients)
		for cl := 0; cl < clients; cl++ {
			for it := 0; it < iters; it++ {
				rqn++
				c := &x08Case{K: rqn, Cfg: cfg, Inc: kinds[rnd.Intn(len(kinds))], Route: routes[rnd.Intn(len(routes))]}
				key := fmt.Sprintf("r%dn%d", round, rqn)
				q := x08Concrete(c, key, rnd)
				num[key] = rqn
				finCh[key] = make(chan int, 1)
				jobs[cl] = append(jobs[cl], job{rqn, q, c})
			}
		}
		var wg sync.WaitGroup
		start := make(chan struct{})
		var plumbing int64
		for cl := 0; cl < clients; cl++ {
			wg.Add(1)
			go func(js []job) {
				defer wg.Done()
				<-start
				for _, j := range js {
					p.throttle()
					v := func(f string) string {
						if j.q.sent[f] {
							return j.q.hdr[f]
						}
						return "-"
					}
					tr.Add(map[string]any{"ev": "Req", "rq": j.n, "route": j.c.Route,
						"tid": j.c.Inc.Tid, "sid": j.c.Inc.Sid, "pid": j.c.Inc.Pid, "smp": j.c.Inc.Smp, "flg": j.c.Inc.Flg, "rid": j.c.Inc.Rid,
						"tidv": v("tid"), "sidv": v("sid"), "pidv": v("pid"), "smpv": v("smp"), "flgv": v("flg"), "ridv": v("rid")})
					if _, err := p.send(j.q); err != nil {
						atomic.AddInt64(&plumbing, 1)
						continue
					}
					select {
					case <-finCh[j.q.key]:
					case <-time.After(20 * time.Second):
						atomic.AddInt64(&plumbing, 1)
					}
				}
			}(jobs[cl])
		}
		close(start)
		wg.Wait()
		if plumbing > 0 {
			t.Fatalf("%d requests did not complete", plumbing)
		}
		if err := p.flush(); err != nil {
			verifx.Emit(map[string]any{"kind": "inconclusive", "msg": err.Error()})
			t.Fatal(err)
		}
		tr.Add(map[string]any{"ev": "Flush"})
		nspans += w.z.Count()
		w.z.Take()
		w.z.OnSpan = nil
		w.mu.Lock()
		w.onUp = nil
		w.seen = map[string]*x08Seen{}
		w.mu.Unlock()
		p.stop()
		total += clients * iters
	}
	if bad := w.z.Bad(); len(bad) > 0 {
		t.Fatalf("the collector could not decode a post: %v", bad)
	}
	// prophecy: the identifiers a request was given are written into its Req event (they are observations - of the
	// upstream or of the collector - copied backwards so that the specification's silent steps are deterministic)
	evs := tr.Events()
	pro := map[int]map[string]any{}
	round := 0
	at := func(e map[string]any) int { n, _ := e["rq"].(int); return round*1000000 + n }
	for _, e := range evs {
		switch e["ev"] {
		case "Reset":
			round = e["round"].(int)
		case "Up":
			pro[at(e)] = map[string]any{"p_tid": e["tid"], "p_sid": e["sid"], "p_rid": e["rid"], "p_dec": map[bool]string{true: "y", false: "n"}[e["smp"] == "1"]}
		case "Span":
			if pro[at(e)] == nil {
				pro[at(e)] = map[string]any{"p_tid": e["tid"], "p_sid": e["id"], "p_rid": fmt.Sprintf("u-%d", at(e)), "p_dec": "y"}
			}
		}
	}
	for _, e := range evs {
		if e["ev"] == "Reset" {
			round = e["round"].(int)
		}
		if e["ev"] != "Req" {
			continue
		}
		m := pro[at(e)]
		if m == nil {
			m = map[string]any{"p_tid": fmt.Sprintf("t-%d", at(e)), "p_sid": fmt.Sprintf("s-%d", at(e)), "p_rid": fmt.Sprintf("u-%d", at(e)), "p_dec": "n"}
		}
		for k, v := range m {
			e[k] = v
		}
	}
	path := filepath.Join(os.Getenv("VERIF_TMP"), fmt.Sprintf("x08-trace-%d.ndjson", verifx.Seed()))
	f, err := os.Create(path)
	if err != nil {
		t.Fatal(err)
	}
	for _, e := range evs {
		b, _ := json.Marshal(e)
		f.Write(append(b, '\n'))
	}
	f.Close()
	verifx.Summary(map[string]any{"trace": path, "events": len(evs), "requests": total, "spans": nspans, "rounds": rounds, "clients": clients, "maxrq": maxrq})
}
