package main

// C08 through the real wiring of package main: plain listeners are started by main.startServers itself (one call
// per listener configuration, as fabio does at start-up: metrics handlers, main.newHTTPProxy, proxy.ListenAndServeHTTP);
// TLS listeners get main.newHTTPProxy behind proxy.ListenAndServeHTTP with the test certificate.  The cases, the
// runner and the judging are those of harness/proxy (common_verif_test.go, c08_test.go), compiled into this package.

import (
	"crypto/tls"
	"errors"
	"net"
	"net/http"
	"testing"
	"time"

	"github.com/fabiolb/fabio/config"
	"github.com/fabiolb/fabio/metrics"
	"github.com/fabiolb/fabio/proxy"
)

func c08MainConfig(o cvxWire) *config.Config {
	cfg := &config.Config{Proxy: o.cfg, GlobCacheSize: 1000, GlobMatchingDisabled: o.noGlob}
	cfg.Proxy.Strategy = "rnd"
	cfg.Proxy.Matcher = "prefix"
	if o.accessLog {
		cfg.Log.AccessTarget = "stdout"
		cfg.Log.AccessFormat = "common"
	}
	return cfg
}

func c08WaitAccepting(addr string, errc chan error) error {
	for i := 0; i < 4000; i++ { // start-up only
		select {
		case err := <-errc:
			if err == nil {
				err = errors.New("listener ended")
			}
			return err
		default:
		}
		if c, err := net.DialTimeout("tcp", addr, time.Second); err == nil {
			c.Close()
			return nil
		}
		time.Sleep(2 * time.Millisecond)
	}
	return errors.New("listener does not accept")
}

func init() {
	cvxMakeProxy = func(w *cvxWorld, o cvxWire) http.Handler {
		dp := metrics.DiscardProvider{}
		return newHTTPProxy(c08MainConfig(o), &proxy.HttpStatsHandler{
			Requests:        dp.NewHistogram("requests"),
			Noroute:         dp.NewCounter("notfound"),
			WSConn:          dp.NewGauge("ws.conn"),
			StatusTimer:     dp.NewHistogram("http.status", "code"),
			RedirectCounter: dp.NewCounter("http.redirect.count", "code"),
		})
	}
	cvxListen = func(addr string, h http.Handler, tc *tls.Config) (func(), error) {
		errc := make(chan error, 1)
		go func() { errc <- proxy.ListenAndServeHTTP(config.Listen{Addr: addr, Proto: "http"}, h, tc) }()
		if err := c08WaitAccepting(addr, errc); err != nil {
			return nil, err
		}
		return func() { proxy.CloseProxy(addr) }, nil
	}
	cvxDeliverPage = func(string) error { return errors.New("harness: no registry in this part") }
	// a plain listener exactly as fabio brings it up
	cvxStartFront = func(w *cvxWorld, o cvxWire, tlsOn bool) (string, func(), bool) {
		if tlsOn {
			return "", nil, false
		}
		for try := 0; try < 20; try++ {
			l, err := net.Listen("tcp", "127.0.0.1:0")
			if err != nil {
				continue
			}
			addr := l.Addr().String()
			l.Close()
			cfg := c08MainConfig(o)
			cfg.Listen = []config.Listen{{Addr: addr, Proto: "http"}}
			startServers(cfg, metrics.DiscardProvider{})
			if err := c08WaitAccepting(addr, make(chan error)); err != nil {
				continue
			}
			return addr, func() { proxy.CloseProxy(addr) }, true
		}
		return "", nil, false
	}
}

func TestVerifC08Main(t *testing.T) {
	(&cvxRunner{prop: "C08", exec: c08Exec, sample: c08Describe}).run(t)
}
