package main

// X03(b) - the static and file registry backends of the REAL fabio binary against
// spec/StaticFile.tla: every case of the TLC generator (backend, routes text, no-route HTML option,
// text written to the routes file after the start) is started as a process and compared with the
// outcome the specification prescribes: the routes served by the admin API (/api/routes), real
// proxied requests to every route, the answer for a path without route; for an invalid text: the
// admin API is up, the table is empty and the proxy listener never comes up.

import (
	"encoding/json"
	"fmt"
	"io"
	"math/rand"
	"net"
	"net/http"
	"os"
	"os/exec"
	"path/filepath"
	"sort"
	"strings"
	"sync"
	"syscall"
	"testing"
	"time"

	"github.com/fabiolb/fabio/internal/verifx"
)

type x03SFCase struct {
	Backend string   `json:"backend"`
	Text    string   `json:"text"`
	HTML    string   `json:"html"`
	Write   string   `json:"write"`
	Outcome []string `json:"outcome"`
	Routes  []string `json:"routes"`
	Body    string   `json:"body"`
}

const x03Page = "<html><body>x03: no route here</body></html>\n"

func x03SFText(abs string, u1, u2 int) string {
	switch abs {
	case "one":
		return fmt.Sprintf("route add svc1 /r1 http://127.0.0.1:%d/", u1)
	case "two":
		return fmt.Sprintf("# routes of X03\nroute add svc1 /r1 http://127.0.0.1:%d/\n\n  # second service\nroute add svc2 /r2 http://127.0.0.1:%d/\n", u1, u2)
	case "bad":
		return "route frobnicate svc1 /r1"
	}
	return ""
}

func x03HTTPUpstream(id string) int {
	l, err := net.Listen("tcp", "127.0.0.1:0")
	if err != nil {
		panic(err)
	}
	go http.Serve(l, http.HandlerFunc(func(w http.ResponseWriter, r *http.Request) { io.WriteString(w, id) }))
	return l.Addr().(*net.TCPAddr).Port
}

type x03SFObs struct {
	routes []string
	get    map[string]string // path -> "status body"
}

func x03SFObserve(client *http.Client, proxy, ui int) (x03SFObs, error) {
	o := x03SFObs{get: map[string]string{}}
	resp, err := client.Get(fmt.Sprintf("http://127.0.0.1:%d/api/routes", ui))
	if err != nil {
		return o, err
	}
	var rs []struct{ Service, Src, Dst string }
	err = json.NewDecoder(resp.Body).Decode(&rs)
	resp.Body.Close()
	if err != nil {
		return o, err
	}
	for _, r := range rs {
		o.routes = append(o.routes, strings.TrimPrefix(r.Src, "/")+"="+r.Service+">"+r.Dst)
	}
	sort.Strings(o.routes)
	for _, p := range []string{"/r1/x", "/r2", "/nothing"} {
		resp, err := client.Get(fmt.Sprintf("http://127.0.0.1:%d%s", proxy, p))
		if err != nil {
			return o, err
		}
		b, _ := io.ReadAll(resp.Body)
		resp.Body.Close()
		o.get[p] = fmt.Sprintf("%d %s", resp.StatusCode, b)
	}
	return o, nil
}

func TestVerifX03StaticFile(t *testing.T) {
	bin := os.Getenv("VERIF_FABIO_BIN")
	cases, err := verifx.ReadCases[x03SFCase]("VERIF_IN")
	if err != nil || bin == "" {
		t.Fatal("input: ", err, bin)
	}
	u1, u2 := x03HTTPUpstream("u1"), x03HTTPUpstream("u2")
	rnd := rand.New(rand.NewSource(verifx.Seed()*104729 + int64(os.Getpid())))
	used := map[int]bool{}
	var pm sync.Mutex
	pick := func() int { pm.Lock(); defer pm.Unlock(); return x03PickPort(rnd, used) }
	var mu sync.Mutex
	compared, needsHTML, done := 0, 0, 0
	inconclusive := ""
	var samples []any
	sem := make(chan struct{}, 6)
	var wg sync.WaitGroup
	for ci, c := range cases {
		wg.Add(1)
		sem <- struct{}{}
		go func(ci int, c x03SFCase) {
			defer func() { <-sem; wg.Done() }()
			note := func(s string) {
				mu.Lock()
				if inconclusive == "" {
					inconclusive = fmt.Sprintf("case %d %+v: %s", ci, c, s)
				}
				mu.Unlock()
			}
			feat := func(cl string) map[string]any {
				return map[string]any{"sub": "static-file", "backend": c.Backend, "clause": cl}
			}
			dir := filepath.Join(os.Getenv("VERIF_TMP"), fmt.Sprintf("sf%d", ci))
			os.MkdirAll(dir, 0o755)
			proxy, ui := pick(), pick()
			args := []string{"-registry.backend", c.Backend, "-proxy.addr", fmt.Sprintf("127.0.0.1:%d", proxy), "-ui.addr", fmt.Sprintf("127.0.0.1:%d", ui),
				"-registry.timeout", "1s", "-registry.retry", "100ms", "-log.level", "WARN", "-proxy.shutdownwait", "50ms", "-insecure"}
			text := x03SFText(c.Text, u1, u2)
			routesFile := filepath.Join(dir, "routes.txt")
			if c.Backend == "static" {
				args = append(args, "-registry.static.routes", text)
				if c.HTML != "unset" {
					args = append(args, "-registry.static.noroutehtml", map[string]string{"empty": "", "page": x03Page}[c.HTML])
				}
			} else {
				os.WriteFile(routesFile, []byte(text), 0o644)
				args = append(args, "-registry.file.path", routesFile)
				if c.HTML != "unset" {
					hp := filepath.Join(dir, "noroute.html")
					os.WriteFile(hp, []byte(map[string]string{"empty": "", "page": x03Page}[c.HTML]), 0o644)
					args = append(args, "-registry.file.noroutehtmlpath", hp)
				}
			}
			logf, _ := os.Create(filepath.Join(dir, "fabio.log"))
			cmd := exec.Command(bin, args...)
			cmd.Stdout, cmd.Stderr = logf, logf
			if err := cmd.Start(); err != nil {
				note(err.Error())
				return
			}
			exited := make(chan struct{})
			go func() { cmd.Wait(); close(exited) }()
			defer func() {
				select {
				case <-exited:
					return
				default:
				}
				cmd.Process.Signal(syscall.SIGTERM)
				select {
				case <-exited:
				case <-time.After(5 * time.Second):
					cmd.Process.Kill()
				}
			}()
			client := &http.Client{Timeout: 10 * time.Second, Transport: &http.Transport{DisableKeepAlives: true}}
			up := func(port int) bool {
				k, err := net.DialTimeout("tcp", fmt.Sprintf("127.0.0.1:%d", port), time.Second)
				if err == nil {
					k.Close()
				}
				return err == nil
			}
			// what did the process do?  failed = it exited; otherwise the admin API comes up (it is started
			// before the first table is awaited)
			outcome := ""
			deadline := time.Now().Add(30 * time.Second)
			for outcome == "" {
				select {
				case <-exited:
					outcome = "failed"
				default:
					if up(ui) {
						outcome = "admin"
					} else if time.Now().After(deadline) {
						note("neither exited nor admin API up after 30 s")
						return
					} else {
						time.Sleep(10 * time.Millisecond)
					}
				}
			}
			expServing := false
			for _, o := range c.Outcome {
				expServing = expServing || o == "serving"
			}
			if outcome == "admin" {
				// serving: the proxy listener comes up (polled; a time-out is inconclusive).  waiting: it
				// must never come up; it is watched for 1.5 s (a slower wrong start escapes, a
				// correct binary is never accused)
				wait := 1500 * time.Millisecond
				if expServing {
					wait = 30 * time.Second
				}
				deadline = time.Now().Add(wait)
				outcome = "waiting"
				for time.Now().Before(deadline) {
					if up(proxy) {
						outcome = "serving"
						break
					}
					select {
					case <-exited:
						outcome = "failed"
					default:
					}
					if outcome == "failed" {
						break
					}
					time.Sleep(10 * time.Millisecond)
				}
				if outcome == "waiting" && expServing {
					note("the proxy listener did not come up within 30 s")
					return
				}
			}
			mu.Lock()
			compared++
			if outcome == "failed" && len(c.Outcome) > 1 {
				needsHTML++
			}
			mu.Unlock()
			if !x03In(c.Outcome, outcome) {
				verifx.Fail(c, feat("outcome-"+outcome), "the process ended up %q, the specification allows %v", outcome, c.Outcome)
				return
			}
			var want []string
			for _, r := range c.Routes {
				want = append(want, map[string]string{"r1": fmt.Sprintf("r1=svc1>http://127.0.0.1:%d/", u1), "r2": fmt.Sprintf("r2=svc2>http://127.0.0.1:%d/", u2)}[r])
			}
			sort.Strings(want)
			wantGet := map[string]string{"/r1/x": "404 " + map[string]string{"": "", "page": x03Page}[c.Body], "/r2": "404 " + map[string]string{"": "", "page": x03Page}[c.Body],
				"/nothing": "404 " + map[string]string{"": "", "page": x03Page}[c.Body]}
			if x03In(c.Routes, "r1") {
				wantGet["/r1/x"] = "200 u1"
			}
			if x03In(c.Routes, "r2") {
				wantGet["/r2"] = "200 u2"
			}
			judge := func(when string) bool {
				o, err := x03SFObserve(client, proxy, ui)
				if err != nil {
					note(when + ": " + err.Error())
					return false
				}
				mu.Lock()
				compared += 1 + len(o.get)
				mu.Unlock()
				if strings.Join(o.routes, " ") != strings.Join(want, " ") {
					verifx.Fail(c, feat("routes-"+when), "%s: /api/routes serves %v, the specification prescribes exactly %v", when, o.routes, want)
					return false
				}
				for p, w := range wantGet {
					if o.get[p] != w {
						verifx.Fail(c, feat("request-"+when), "%s: GET %s answered %q, the specification prescribes %q", when, p, o.get[p], w)
						return false
					}
				}
				return true
			}
			switch outcome {
			case "serving":
				if !judge("after-start") {
					return
				}
				if c.Write != "none" {
					// the file is rewritten: the register is constant.  Nothing the binary does could be
					// waited for; a pause gives a watcher (if there were one) time to show
					os.WriteFile(routesFile, []byte(x03SFText(c.Write, u1, u2)), 0o644)
					time.Sleep(300 * time.Millisecond)
					if !judge("after-rewrite") {
						return
					}
				}
			case "waiting":
				if c.Write != "none" {
					os.WriteFile(routesFile, []byte(x03SFText(c.Write, u1, u2)), 0o644)
					time.Sleep(300 * time.Millisecond)
				}
				resp, err := client.Get(fmt.Sprintf("http://127.0.0.1:%d/api/routes", ui))
				if err != nil {
					note(err.Error())
					return
				}
				b, _ := io.ReadAll(resp.Body)
				resp.Body.Close()
				mu.Lock()
				compared++
				mu.Unlock()
				if s := strings.TrimSpace(string(b)); s != "null" && s != "[]" {
					verifx.Fail(c, feat("routes-waiting"), "an invalid configuration must not be installed, /api/routes serves %s", s)
					return
				}
				if up(proxy) {
					verifx.Fail(c, feat("proxy-without-table"), "the proxy listener is up although no table was ever installed")
					return
				}
			}
			mu.Lock()
			done++
			if len(samples) < 3 && ci%7 == 0 {
				samples = append(samples, c)
			}
			mu.Unlock()
		}(ci, c)
	}
	wg.Wait()
	pm.Lock()
	x03ReleasePorts()
	pm.Unlock()
	verifx.Summary(map[string]any{"cases": done, "of": len(cases), "compared": compared, "file_needs_html": needsHTML, "inconclusive": inconclusive, "samples": samples})
}
