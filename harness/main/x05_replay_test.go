package main

import (
	"fmt"
	"net"
	"os"
	"strconv"
	"strings"
	"testing"
	"time"

	"github.com/fabiolb/fabio/config"
	"github.com/fabiolb/fabio/internal/verifx"
	"github.com/fabiolb/fabio/metrics"
	"github.com/fabiolb/fabio/route"
)

type x05Step struct {
	Ev    string           `json:"ev"`
	W     string           `json:"w"`
	S     string           `json:"s"`
	Slot  int              `json:"slot"`
	Table []string         `json:"table"`
	Cnt   map[string]int64 `json:"cnt"`
	Gauge int64            `json:"gauge"`
}

type x05Hist struct {
	Steps []x05Step `json:"steps"`
}

type x05Slot struct {
	token string
	res   chan x05Ans
	conn  net.Conn
}

func (r *x05Rig) pathOf(w string) string {
	if t := r.targets[w]; t != nil {
		return t.path
	}
	return "/zz"
}

func x05KeyClass(d string) string {
	k := d[:strings.Index(d, ":")]
	for _, p := range []string{"status.", "route.", "grpc.status.", "redirect.", "name.", "?"} {
		if strings.HasPrefix(k, p) {
			return p + "*"
		}
	}
	return k
}

var x05Seq int

// replay drives one generated history through the rig; after every event the three providers must show
// exactly the store the specification prescribes.  It returns an error when the rig itself failed.
func (r *x05Rig) replay(h *x05Hist, stats map[string]int) error {
	route.SetTable(r.tables["all"])
	if err := r.settle(0); err != nil {
		return err
	}
	bp, err := r.readProm()
	if err != nil {
		return err
	}
	bf := r.readFlat()
	bs, err := r.readStatsd()
	if err != nil {
		return err
	}
	if bp["ws"] != 0 || bf["ws"] != 0 {
		verifx.Fail(h, map[string]any{"sub": "replay", "clause": "gauge-not-zero-at-rest"}, "ws.conn is %d (prometheus) / %d (stdout) while no tunnel is open", bp["ws"], bf["ws"])
	}
	slots := map[int]*x05Slot{}
	inflight := 0
	bad := func(i int, clause, key, format string, a ...any) {
		st := h.Steps[i]
		verifx.Fail(map[string]any{"steps": h.Steps[:i+1]}, map[string]any{"sub": "replay", "clause": clause, "ev": st.Ev, "key": key},
			"step %d (%s %s %s): %s", i, st.Ev, st.W, st.S, fmt.Sprintf(format, a...))
	}
	defer func() {
		// one at a time: two tunnels ending together would race on the gauge (a lead of its own, not this test's business)
		for _, s := range slots {
			if s.token != "" {
				r.holdChan(s.token) <- 200
				<-s.res
			}
			if s.conn != nil {
				x05WSClose(s.conn)
			}
			inflight--
			r.settle(inflight)
		}
	}()
	for i, st := range h.Steps {
		stats["steps"]++
		tStep := time.Now()
		inTable := false
		for _, t := range h.tableBefore(i) {
			if t == st.W {
				inTable = true
			}
		}
		switch st.Ev {
		case "http":
			q := ""
			if t := r.targets[st.W]; t != nil && inTable && (st.W == "t1" || st.W == "t2" || st.W == "t3") {
				q = "s=" + st.S
			}
			ans := r.httpDo(r.pathOf(st.W), q)
			if ans.err != nil {
				return fmt.Errorf("step %d: %v", i, ans.err)
			}
			if strconv.Itoa(ans.status) != st.S {
				bad(i, "answer", "", "answered %d, the specification says %s", ans.status, st.S)
			}
		case "hold":
			x05Seq++
			s := &x05Slot{token: fmt.Sprintf("h%d", x05Seq), res: make(chan x05Ans, 1)}
			go func() { s.res <- r.httpDo(r.pathOf(st.W), "hold="+s.token) }()
			select {
			case k := <-r.arrived:
				if k != s.token {
					return fmt.Errorf("step %d: upstream saw %s, expected %s", i, k, s.token)
				}
			case a := <-s.res:
				bad(i, "answer", "", "the request was not forwarded: %d %v", a.status, a.err)
				return nil
			case <-time.After(x05Wait):
				return fmt.Errorf("step %d: the held request did not reach its upstream", i)
			}
			slots[st.Slot] = s
			inflight++
		case "release":
			s := slots[st.Slot]
			code, _ := strconv.Atoi(st.S)
			r.holdChan(s.token) <- code
			ans := <-s.res
			delete(slots, st.Slot)
			inflight--
			if ans.err != nil {
				return fmt.Errorf("step %d: %v", i, ans.err)
			}
			if ans.status != code {
				bad(i, "answer", "", "answered %d, the specification says %s", ans.status, st.S)
			}
		case "wsopen":
			c, ans := r.wsOpen(r.pathOf(st.W))
			if ans.err != nil {
				return fmt.Errorf("step %d: %v", i, ans.err)
			}
			want := 101
			if st.S != "-" {
				want, _ = strconv.Atoi(st.S)
			}
			if ans.status != want {
				bad(i, "answer", "", "upgrade answered %d, the specification says %d", ans.status, want)
				if c != nil {
					x05WSClose(c)
				}
				return nil
			}
			if c != nil {
				slots[st.Slot] = &x05Slot{conn: c}
				inflight++
			}
		case "wsclose":
			s := slots[st.Slot]
			if err := x05WSClose(s.conn); err != nil {
				return fmt.Errorf("step %d: closing the tunnel: %v", i, err)
			}
			delete(slots, st.Slot)
			inflight--
		case "tcp":
			out, err := r.tcpDo()
			if err != nil {
				return fmt.Errorf("step %d: %v", i, err)
			}
			if (st.S == "ok") != (out == "ok") {
				bad(i, "answer", "", "tcp connection %s, the specification says %s", out, st.S)
			}
		case "grpc":
			if st.W == "fresh" {
				if err := r.freshConn(); err != nil {
					return err
				}
			}
			ask := st.S
			if ask == "NotFound" {
				ask = "OK"
			}
			code, err := r.grpcDo(r.cc, ask, "")
			if err != nil {
				return fmt.Errorf("step %d: %v", i, err)
			}
			if code != st.S {
				bad(i, "answer", "", "grpc call ended with %s, the specification says %s", code, st.S)
			}
		case "swap":
			id := x05TableID(st.Table)
			if id == "" {
				return fmt.Errorf("step %d: unknown table %v", i, st.Table)
			}
			route.SetTable(r.tables[id])
		default:
			return fmt.Errorf("step %d: unknown event %q", i, st.Ev)
		}
		t0 := time.Now()
		if err := r.settle(inflight); err != nil {
			return fmt.Errorf("step %d (%s): %v", i, st.Ev, err)
		}
		t1 := time.Now()
		wp, wf, ws := r.project(st.Cnt, st.Gauge)
		gp, err := r.readProm()
		if err != nil {
			return err
		}
		t2 := time.Now()
		gf := r.readFlat()
		gs, err := r.readStatsd()
		if err != nil {
			return err
		}
		t3 := time.Now()
		stats["us_event"] += int(t0.Sub(tStep) / time.Microsecond)
		stats["us_settle"] += int(t1.Sub(t0) / time.Microsecond)
		stats["us_prom"] += int(t2.Sub(t1) / time.Microsecond)
		stats["us_flat_statsd"] += int(t3.Sub(t2) / time.Microsecond)
		stats["compared"] += 3
		for _, c := range []struct {
			prov            string
			got, base, want x05Store
		}{{"prometheus", gp, bp, wp}, {"stdout", gf, bf, wf}, {"statsd", gs, bs, ws}} {
			if os.Getenv("VERIF_X05_ONLY") != "" && os.Getenv("VERIF_X05_ONLY") != c.prov {
				continue
			}
			if d := x05Diff(c.got, c.base, c.want); len(d) > 0 {
				bad(i, c.prov, x05KeyClass(d[0]), "%s store differs from the specification: %s", c.prov, strings.Join(d, "; "))
				return nil
			}
		}
	}
	return nil
}

func (h *x05Hist) tableBefore(i int) []string {
	if i == 0 {
		return x05TableSets["all"]
	}
	return h.Steps[i-1].Table
}

func x05Leads(r *x05Rig) []string {
	var out []string
	if r.seenGrpcStatus["grep"] {
		out = append(out, "the per-status gRPC timer is registered as `grep.status` (main.go), documented as `grpc.status.{code}`")
	}
	if r.seenSdPrefix["none"] {
		out = append(out, "statsd_raw: the prefix is concatenated with the metric name without a separator (`"+x05Prefix+"requests`), documented as prefix.name")
	}
	if r.notes["clean-empty"] {
		out = append(out, "clean(\"\") renders \"_\" (a route without host, a tcp route without path); the documented function (lower-case, replace . and :) gives the empty string")
	}
	return out
}

func TestVerifX05Replay(t *testing.T) {
	hs, err := verifx.ReadCases[x05Hist]("VERIF_IN")
	if err != nil {
		t.Fatal(err)
	}
	r, err := x05NewRig()
	if err != nil {
		r.restoreAndFatal(t, err)
	}
	stats := map[string]int{}
	var rigErr string
	for i := range hs {
		if err := r.replay(&hs[i], stats); err != nil {
			rigErr = err.Error()
			break
		}
		stats["histories"]++
	}
	leads := x05Leads(r)
	r.close()
	if rigErr != "" {
		verifx.Emit(map[string]any{"kind": "rigerror", "msg": rigErr})
		t.Fatal(rigErr) // no summary: inconclusive
	}
	verifx.Summary(map[string]any{"histories": stats["histories"], "steps": stats["steps"], "compared": stats["compared"], "leads": leads,
		"ms_event": stats["us_event"] / 1000, "ms_settle": stats["us_settle"] / 1000, "ms_prom": stats["us_prom"] / 1000, "ms_flat_statsd": stats["us_flat_statsd"] / 1000})
}

func (r *x05Rig) restoreAndFatal(t *testing.T, err error) {
	if r != nil && r.flat != nil {
		r.flat.restore()
	}
	t.Fatal(err)
}

// TestVerifX05Probe measures which named deviations of spec/Metrics.tla the tree under test has.
func TestVerifX05Probe(t *testing.T) {
	res := map[string]any{}
	// is the configured metrics.names template in force after metrics.Initialize ?
	cfg, err := config.Load([]string{"fabio", "-registry.backend", "static", "-metrics.names", "X05-{{clean .Service}}"}, nil)
	if err != nil {
		t.Fatal(err)
	}
	if _, err := metrics.Initialize(&cfg.Metrics); err != nil {
		t.Fatal(err)
	}
	n, _ := metrics.TargetName("Svc.A", "h", "/p", "http://1.2.3.4:5/")
	res["names_applied"] = n == "X05-svc_a"
	res["names_probe"] = n
	e, _ := metrics.TargetName("", "h", "/p", "http://1.2.3.4:5/")
	res["clean_empty_underscore"] = strings.HasPrefix(e, "_") || e == "X05-_"
	if n != "X05-svc_a" {
		// the rig below needs the default template: nothing to undo.  (On a tree that applies the template,
		// the rig's own Initialize installs the default again.)
	}
	r, err := x05NewRig()
	if err != nil {
		r.restoreAndFatal(t, err)
	}
	read := func() x05Store {
		if err := r.settle(0); err != nil {
			r.restoreAndFatal(t, err)
		}
		s, err := r.readProm()
		if err != nil {
			r.restoreAndFatal(t, err)
		}
		return s
	}
	// the barrier's frame patterns see a held request / call
	go r.httpDo("/a", "hold=probe")
	<-r.arrived
	go r.grpcDo(r.cc, "OK", "hold:probe")
	<-r.arrived
	in := x05InHandlers()
	res["barrier_sees_http"], res["barrier_sees_grpc"] = in[0] == 1, in[2] == 2 // the proxy's stream and the (in-process) upstream's
	r.holdChan("probe") <- 200
	r.holdChan("hold:probe") <- 200
	b := read()
	r.httpDo("/zz", "")
	a := read()
	res["local_counted"] = a["requests"] > b["requests"] && a["status.404"] > b["status.404"]
	route.SetTable(r.tables["bare"])
	b = read()
	r.tcpDo()
	a = read()
	res["notfound_counts_tcp"] = a["notfound"] > b["notfound"]
	res["conn_at_accept"] = a["tcp.conn"] > b["tcp.conn"]
	route.SetTable(r.tables["all"])
	r.grpcDo(r.cc, "OK", "")
	read()
	r.readFlat()
	r.readStatsd()
	// ws gauge: rounds of concurrent open/close; the gauge must be the number of open tunnels at rest
	rounds, stale := 60, 0
	for k := 0; k < rounds; k++ {
		const n = 8
		done := make(chan net.Conn, n)
		for j := 0; j < n; j++ {
			go func() { c, _ := r.wsOpen("/a"); done <- c }()
		}
		var cs []net.Conn
		for j := 0; j < n; j++ {
			if c := <-done; c != nil {
				cs = append(cs, c)
			}
		}
		if err := r.settle(len(cs)); err != nil {
			r.restoreAndFatal(t, err)
		}
		s, _ := r.readProm()
		if s["ws"] != int64(len(cs)) {
			stale++
		}
		fin := make(chan bool, n)
		for _, c := range cs {
			go func(c net.Conn) { x05WSClose(c); fin <- true }(c)
		}
		for range cs {
			<-fin
		}
		if s := read(); s["ws"] != 0 {
			stale++
		}
	}
	res["gauge_stale_points"], res["gauge_rounds"] = stale, rounds
	res["leads"] = x05Leads(r)
	r.close()
	res["names"] = func() map[string]string {
		m := map[string]string{}
		for id, t := range r.targets {
			m[id] = t.name
		}
		return m
	}()
	verifx.Summary(res)
}
