package main

// X04 conformance harness (spec/Ingress.tla): the life of one accepted connection on a fabio
// listener - inbound PROXY protocol, pxytimeout, rt, SNI dispatch - replayed over loopback against
// REAL listeners.  The listeners are configured through config.Load (the real parseListen, so the
// defaults of pxytimeout are fabio's) and started by main.startServers, i.e. exactly as the binary
// wires them: proxy.ListenAndServeHTTP / TCP / HTTPSTCPSNI with main.newHTTPProxy, tcp.Proxy,
// tcp.SNIProxy and main.lookupHostMatcher behind them and the routes in the real route table.
//
// S->C (TestVerifX04): every history printed by spec/Ingress_Gen.tla is ONE connection.  The harness
// makes the environment's moves (the client sends the next k tokens, half-closes; the header timer /
// the read timer fires; the table is replaced) and after every move the real connection must have
// settled in the state the specification prescribes: what the instrumented upstream has received so
// far (byte for byte), the effective client address through all four channels (X-Forwarded-For /
// Forwarded / X-Real-Ip at the upstream, the allow=ip: rules of the routes, $remote_addr in the access
// log, the outgoing PROXY header of tcp routes with pxyproto=true), the answers, whether fabio closed
// the connection.  Ordering is by causality: the upstream's own read position is the barrier after a
// move; a timer move is established by the observable change it causes (the upstream receives the
// bytes the timer released, the client sees the connection closed) and only where the specification
// says nothing observable changes by waiting four times the configured time-out (the behaviour IS a
// time bound).  A history that fails is repeated; only a history that fails in every attempt counts.
//
// C->S (TestVerifX04Race): connections whose sends race the header timer are recorded (moves and
// observations, one logical clock) and validated by spec/Ingress_Trace.tla: TLC accepts either order.

import (
	"bufio"
	"bytes"
	"crypto/ecdsa"
	"crypto/elliptic"
	"crypto/rand"
	"crypto/tls"
	"crypto/x509"
	"crypto/x509/pkix"
	"encoding/json"
	"encoding/pem"
	"errors"
	"fmt"
	"io"
	"math/big"
	mrand "math/rand"
	"net"
	"net/http"
	"os"
	"path/filepath"
	"sort"
	"strconv"
	"strings"
	"sync"
	"sync/atomic"
	"testing"
	"time"

	"github.com/fabiolb/fabio/config"
	"github.com/fabiolb/fabio/internal/verifx"
	"github.com/fabiolb/fabio/metrics"
	"github.com/fabiolb/fabio/route"
)

// ---------------------------------------------------------------- histories (Ingress_Gen)

type x04Cfg struct {
	Proto string `json:"proto"`
	Pxy   bool   `json:"pxy"`
	Ropt  string `json:"ropt"`
	Rt    bool   `json:"rt"`
}

type x04Scr struct {
	Head string `json:"head"`
	Fam  int    `json:"fam"`
	Pay  string `json:"pay"`
	Sni  string `json:"sni"`
}

type x04Snap struct {
	Ev     string   `json:"ev"`
	N      int      `json:"n"`
	To     string   `json:"to"`
	Eff    string   `json:"eff"`
	Up     []string `json:"up"`
	UpEOF  bool     `json:"upeof"`
	Resps  []string `json:"resps"`
	Closed bool     `json:"closed"`
	Disp   string   `json:"disp"`
	TLS    string   `json:"tls"`
	Ph     string   `json:"ph"`
}

type x04Hist struct {
	C        x04Cfg    `json:"c"`
	S        x04Scr    `json:"s"`
	T0       string    `json:"t0"`
	Stream   []string  `json:"stream"`
	H        []x04Snap `json:"h"`
	ID       int       `json:"id"`
	Selftest string    `json:"selftest,omitempty"` // non-empty: the expectation was corrupted on purpose and MUST be rejected
}

func (c x04Cfg) key() string {
	ropt := c.Ropt
	if c.Proto != "tcp" && c.Proto != "tcps" {
		ropt = "na"
	}
	return fmt.Sprintf("%s|%v|%s|%v", c.Proto, c.Pxy, ropt, c.Rt)
}

const (
	x04Decl4    = "192.0.2.7"
	x04Decl6    = "2001:db8::7"
	x04DeclPort = "4321"
	x04Allow    = "allow=ip:192.0.2.7/32,ip:2001:db8::7/128"
	x04PeerOnly = "allow=ip:127.0.0.1/32"
)

// ---------------------------------------------------------------- upstreams

// x04HTTPUp is the shared plain HTTP upstream: it records what fabio forwarded, by request id.
type x04HTTPUp struct {
	mu   sync.Mutex
	seen map[string]x04Fwd
	ln   net.Listener
}

type x04Fwd struct {
	Method, Path, XFF, Fwd, Real string
}

func (u *x04HTTPUp) ServeHTTP(w http.ResponseWriter, r *http.Request) {
	id := r.Header.Get("X-X04-Id")
	u.mu.Lock()
	u.seen[id] = x04Fwd{r.Method, r.URL.Path, strings.Join(r.Header.Values("X-Forwarded-For"), ","), r.Header.Get("Forwarded"), r.Header.Get("X-Real-Ip")}
	u.mu.Unlock()
	io.WriteString(w, "ok:"+id)
}

func (u *x04HTTPUp) get(id string) (x04Fwd, bool) {
	u.mu.Lock()
	defer u.mu.Unlock()
	f, ok := u.seen[id]
	return f, ok
}

// x04UpConn is one connection an instrumented tcp upstream accepted.
type x04UpConn struct {
	buf    []byte   // raw upstream: everything read; TLS upstream: the PROXY line only
	eof    bool     // the stream ended (EOF or error)
	hs     bool     // TLS upstream: handshake completed
	reqs   []string // TLS upstream: ids of the requests served
	closed bool
}

// x04Up is the instrumented upstream of one lane: raw (reads and records every byte, answers every
// read with "ack<total>;" so the client can see how far the upstream got) or TLS (an optional PROXY
// line, then a TLS server with its OWN certificate that serves HTTP).
type x04Up struct {
	mu    sync.Mutex
	cond  *sync.Cond
	ln    net.Listener
	conns []*x04UpConn
	tlsc  *tls.Config
}

func x04NewUp(tlsc *tls.Config) (*x04Up, error) {
	ln, err := net.Listen("tcp", "127.0.0.1:0")
	if err != nil {
		return nil, err
	}
	u := &x04Up{ln: ln, tlsc: tlsc}
	u.cond = sync.NewCond(&u.mu)
	go u.loop()
	return u, nil
}

func (u *x04Up) loop() {
	for {
		c, err := u.ln.Accept()
		if err != nil {
			return
		}
		uc := &x04UpConn{}
		u.mu.Lock()
		u.conns = append(u.conns, uc)
		u.cond.Broadcast()
		u.mu.Unlock()
		if u.tlsc == nil {
			go u.serveRaw(c, uc)
		} else {
			go u.serveTLS(c, uc)
		}
	}
}

func (u *x04Up) serveRaw(c net.Conn, uc *x04UpConn) {
	defer c.Close()
	buf := make([]byte, 32<<10)
	for {
		n, err := c.Read(buf)
		u.mu.Lock()
		uc.buf = append(uc.buf, buf[:n]...)
		total := len(uc.buf)
		if err != nil {
			uc.eof = true
		}
		u.cond.Broadcast()
		u.mu.Unlock()
		if err != nil {
			return
		}
		fmt.Fprintf(c, "ack%d;", total)
		if bytes.Contains(buf[:n], []byte("HALFCLOSE;")) {
			c.(*net.TCPConn).CloseWrite() // the upstream has said everything it had to say, it still listens
		}
	}
}

func (u *x04Up) serveTLS(c net.Conn, uc *x04UpConn) {
	defer c.Close()
	end := func() {
		u.mu.Lock()
		uc.eof = true
		u.cond.Broadcast()
		u.mu.Unlock()
	}
	defer end()
	br := bufio.NewReader(c)
	if p, err := br.Peek(6); err == nil && string(p) == "PROXY " {
		line, err := br.ReadString('\n')
		u.mu.Lock()
		uc.buf = append(uc.buf, line...)
		u.cond.Broadcast()
		u.mu.Unlock()
		if err != nil {
			return
		}
	}
	tc := tls.Server(&x04BufConn{Conn: c, r: br}, u.tlsc)
	if err := tc.Handshake(); err != nil {
		return
	}
	u.mu.Lock()
	uc.hs = true
	u.cond.Broadcast()
	u.mu.Unlock()
	rd := bufio.NewReader(tc)
	for {
		req, err := http.ReadRequest(rd)
		if err != nil {
			return
		}
		io.Copy(io.Discard, req.Body)
		id := req.Header.Get("X-X04-Id")
		u.mu.Lock()
		uc.reqs = append(uc.reqs, id)
		u.cond.Broadcast()
		u.mu.Unlock()
		body := "tls:" + id
		fmt.Fprintf(tc, "HTTP/1.1 200 OK\r\nContent-Length: %d\r\nX-X04-Up: tls\r\n\r\n%s", len(body), body)
	}
}

type x04BufConn struct {
	net.Conn
	r *bufio.Reader
}

func (b *x04BufConn) Read(p []byte) (int, error) { return b.r.Read(p) }

// waitFor blocks until pred holds for the connections accepted since `from`, or the deadline passes.
func (u *x04Up) waitFor(from int, d time.Duration, pred func(cs []*x04UpConn) bool) bool {
	deadline := time.Now().Add(d)
	stop := time.AfterFunc(d+10*time.Millisecond, func() { u.mu.Lock(); u.cond.Broadcast(); u.mu.Unlock() })
	defer stop.Stop()
	u.mu.Lock()
	defer u.mu.Unlock()
	for {
		if pred(u.conns[from:]) {
			return true
		}
		if !time.Now().Before(deadline) {
			return false
		}
		u.cond.Wait()
	}
}

func (u *x04Up) count() int {
	u.mu.Lock()
	defer u.mu.Unlock()
	return len(u.conns)
}

// ---------------------------------------------------------------- access log

type x04Log struct {
	mu    sync.Mutex
	cond  *sync.Cond
	lines map[string][2]string // id -> remote_addr, status
}

func (l *x04Log) pump(r io.Reader) {
	sc := bufio.NewScanner(r)
	sc.Buffer(make([]byte, 1<<16), 1<<20)
	for sc.Scan() {
		f := strings.Fields(sc.Text())
		if len(f) == 4 && f[0] == "X04LOG" {
			l.mu.Lock()
			l.lines[f[2]] = [2]string{f[1], f[3]}
			l.cond.Broadcast()
			l.mu.Unlock()
		}
	}
}

func (l *x04Log) wait(id string, d time.Duration) ([2]string, bool) {
	deadline := time.Now().Add(d)
	stop := time.AfterFunc(d+10*time.Millisecond, func() { l.mu.Lock(); l.cond.Broadcast(); l.mu.Unlock() })
	defer stop.Stop()
	l.mu.Lock()
	defer l.mu.Unlock()
	for {
		if v, ok := l.lines[id]; ok {
			return v, true
		}
		if !time.Now().Before(deadline) {
			return [2]string{}, false
		}
		l.cond.Wait()
	}
}

// ---------------------------------------------------------------- the world: real listeners

type x04Lane struct {
	key  string
	n    int
	addr string
	port string
	up   *x04Up // nil for the pure HTTP kinds
}

func (l *x04Lane) host(sni string) string {
	switch sni {
	case "h":
		return "h.x04.test"
	case "none":
		return "none.x04.test"
	}
	return fmt.Sprintf("%s%d.x04.test", sni, l.n)
}

type x04World struct {
	T, RT   time.Duration
	uh      *x04HTTPUp
	pools   map[string]chan *x04Lane
	lanes   []*x04Lane
	tables  map[string]string
	tblMu   sync.Mutex // held by histories that depend on the host whose route differs between the tables
	cur     string
	log     *x04Log
	upTLS   *tls.Config
	helloMu sync.Mutex
	hellos  map[string][]byte
	ids     int64
	stdout  *os.File
	special map[string]*x04Lane // listeners of the timing probes
}

func x04Cert(dir, name string) (certFile, keyFile string, tc *tls.Config, err error) {
	key, err := ecdsa.GenerateKey(elliptic.P256(), rand.Reader)
	if err != nil {
		return
	}
	tmpl := &x509.Certificate{SerialNumber: big.NewInt(4), Subject: pkix.Name{CommonName: name},
		NotBefore: time.Now().Add(-time.Hour), NotAfter: time.Now().Add(24 * time.Hour),
		KeyUsage: x509.KeyUsageDigitalSignature, ExtKeyUsage: []x509.ExtKeyUsage{x509.ExtKeyUsageServerAuth},
		DNSNames: []string{"*.x04.test", "localhost"}}
	der, err := x509.CreateCertificate(rand.Reader, tmpl, tmpl, &key.PublicKey, key)
	if err != nil {
		return
	}
	kb, err := x509.MarshalECPrivateKey(key)
	if err != nil {
		return
	}
	certFile, keyFile = filepath.Join(dir, name+"-cert.pem"), filepath.Join(dir, name+"-key.pem")
	if err = os.WriteFile(certFile, pem.EncodeToMemory(&pem.Block{Type: "CERTIFICATE", Bytes: der}), 0o600); err != nil {
		return
	}
	if err = os.WriteFile(keyFile, pem.EncodeToMemory(&pem.Block{Type: "EC PRIVATE KEY", Bytes: kb}), 0o600); err != nil {
		return
	}
	tc = &tls.Config{Certificates: []tls.Certificate{{Certificate: [][]byte{der}, PrivateKey: key}}}
	return
}

// x04FreeAddrs picks n loopback addresses below the ephemeral port range (so that neither the upstream
// listeners of this harness nor outgoing connections of anybody can take them between the test bind
// and fabio's own bind).
func x04FreeAddrs(n int) ([]string, error) {
	var lns []net.Listener
	var out []string
	defer func() {
		for _, ln := range lns {
			ln.Close()
		}
	}()
	rng := mrand.New(mrand.NewSource(time.Now().UnixNano() ^ int64(os.Getpid())<<20))
	for tries := 0; len(out) < n && tries < 50*n; tries++ {
		addr := fmt.Sprintf("127.0.0.1:%d", verifx.EnvInt("X04_PORT_BASE", 10000)+rng.Intn(5000))
		ln, err := net.Listen("tcp", addr)
		if err != nil {
			continue
		}
		lns = append(lns, ln)
		out = append(out, addr)
	}
	if len(out) < n {
		return nil, fmt.Errorf("only %d of %d free ports found", len(out), n)
	}
	return out, nil
}

var x04Kinds = []x04Cfg{
	{"http", false, "na", false}, {"https", false, "na", false},
	{"tcp", false, "bare", false}, {"tcp", false, "pxy", false}, {"tcp", false, "acl", false},
	{"tcp", false, "bare", true}, {"tcp", false, "pxy", true},
	{"tcps", false, "pxy", false}, {"tcp+sni", false, "na", false}, {"https+tcp+sni", false, "na", false},
}

// x04Start builds the configuration text, loads it with config.Load and starts the listeners with
// main.startServers.  copies = lanes per kind (a lane is used by one history at a time, so that the
// connections its upstream accepts belong to that history).
func x04Start(t *testing.T, copies int) *x04World {
	w := &x04World{T: 200 * time.Millisecond, RT: 2400 * time.Millisecond, pools: map[string]chan *x04Lane{},
		tables: map[string]string{}, hellos: map[string][]byte{}, special: map[string]*x04Lane{}}
	dir := os.Getenv("VERIF_TMP")
	if dir == "" {
		dir = t.TempDir()
	}
	certA, keyA, _, err := x04Cert(dir, "x04-fabio")
	if err != nil {
		t.Fatal(err)
	}
	if _, _, w.upTLS, err = x04Cert(dir, "x04-upstream"); err != nil {
		t.Fatal(err)
	}
	w.uh = &x04HTTPUp{seen: map[string]x04Fwd{}}
	if w.uh.ln, err = net.Listen("tcp", "127.0.0.1:0"); err != nil {
		t.Fatal(err)
	}
	go http.Serve(w.uh.ln, w.uh)

	var kinds []x04Cfg
	for _, k := range x04Kinds {
		kinds = append(kinds, k)
		k.Pxy = true
		kinds = append(kinds, k)
	}
	nAddr := 0
	for _, k := range kinds {
		if k.Proto == "http" || k.Proto == "https" {
			nAddr++
		} else {
			nAddr += copies
		}
	}
	addrs, err := x04FreeAddrs(nAddr + 4)
	if err != nil {
		t.Fatal(err)
	}
	var listen []string
	var common, onlyA, onlyB bytes.Buffer
	webRoutes := func(b *bytes.Buffer, name, host string) {
		fmt.Fprintf(b, "route add %s-open %s/open http://%s/\n", name, host, w.uh.ln.Addr())
		fmt.Fprintf(b, "route add %s-decl %s/decl http://%s/ opts \"%s\"\n", name, host, w.uh.ln.Addr(), x04Allow)
		fmt.Fprintf(b, "route add %s-peer %s/peer http://%s/ opts \"%s\"\n", name, host, w.uh.ln.Addr(), x04PeerOnly)
	}
	webRoutes(&common, "h", "h.x04.test")
	ai := 0
	for _, k := range kinds {
		n := copies
		shared := k.Proto == "http" || k.Proto == "https"
		if shared {
			n = 1
		}
		pool := make(chan *x04Lane, 4096)
		w.pools[k.key()] = pool
		for i := 0; i < n; i++ {
			addr := addrs[ai]
			ai++
			_, port, _ := net.SplitHostPort(addr)
			ln := &x04Lane{key: k.key(), n: len(w.lanes), addr: addr, port: port}
			opt := ""
			switch k.Proto {
			case "http":
			case "https":
				opt = ";cs=x04"
			case "tcp":
				opt = ";proto=tcp"
			case "tcps":
				opt = ";proto=tcp;cs=x04"
			case "tcp+sni":
				opt = ";proto=tcp+sni"
			case "https+tcp+sni":
				opt = ";proto=https+tcp+sni;cs=x04"
			}
			if k.Pxy {
				opt += fmt.Sprintf(";pxyproto=true;pxytimeout=%s", w.T)
			}
			if k.Rt {
				opt += fmt.Sprintf(";rt=%s", w.RT)
			}
			listen = append(listen, addr+opt)
			if !shared {
				var utls *tls.Config
				if k.Proto == "https+tcp+sni" {
					utls = w.upTLS
				}
				if ln.up, err = x04NewUp(utls); err != nil {
					t.Fatal(err)
				}
				ua := ln.up.ln.Addr().String()
				switch k.Proto {
				case "tcp", "tcps":
					o := ""
					switch k.Ropt {
					case "pxy":
						o = ` opts "pxyproto=true"`
					case "acl":
						o = ` opts "pxyproto=true ` + x04Allow + `"`
					}
					fmt.Fprintf(&common, "route add t%d :%s tcp://%s%s\n", ln.n, port, ua, o)
				case "tcp+sni":
					fmt.Fprintf(&common, "route add sraw%d %s/ tcp://%s opts \"pxyproto=true\"\n", ln.n, ln.host("raw"), ua)
					fmt.Fprintf(&common, "route add sacl%d %s/ tcp://%s opts \"pxyproto=true %s\"\n", ln.n, ln.host("acl"), ua, x04Allow)
				case "https+tcp+sni":
					fmt.Fprintf(&common, "route add stun%d %s/ tcp://%s opts \"pxyproto=true\"\n", ln.n, ln.host("tun"), ua)
					fmt.Fprintf(&onlyA, "route add ssw%d %s/ tcp://%s opts \"pxyproto=true\"\n", ln.n, ln.host("sw"), ua)
					webRoutes(&onlyB, fmt.Sprintf("hsw%d", ln.n), ln.host("sw"))
				}
			}
			w.lanes = append(w.lanes, ln)
			for j := 0; j < 1 || (shared && j < 512); j++ {
				pool <- ln
			}
		}
	}
	// listeners of the timing probes: default pxytimeout, a long pxytimeout, rt with and without pxyproto
	for i, sp := range []struct{ name, opt, ropt string }{
		{"default", ";proto=tcp;pxyproto=true", "pxy"},
		{"slow", ";proto=tcp;pxyproto=true;pxytimeout=1500ms", "pxy"},
		{"rt-plain", ";proto=tcp;rt=300ms", "bare"},
		{"rt-pxy", ";proto=tcp;rt=300ms;pxyproto=true;pxytimeout=100ms", "bare"},
	} {
		addr := addrs[ai+i]
		_, port, _ := net.SplitHostPort(addr)
		ln := &x04Lane{key: sp.name, n: len(w.lanes), addr: addr, port: port}
		if ln.up, err = x04NewUp(nil); err != nil {
			t.Fatal(err)
		}
		o := ""
		if sp.ropt == "pxy" {
			o = ` opts "pxyproto=true"`
		}
		fmt.Fprintf(&common, "route add t%d :%s tcp://%s%s\n", ln.n, port, ln.up.ln.Addr(), o)
		listen = append(listen, addr+sp.opt)
		w.lanes = append(w.lanes, ln)
		w.special[sp.name] = ln
	}
	w.tables["A"] = common.String() + onlyA.String()
	w.tables["B"] = common.String() + onlyB.String()

	args := []string{"fabio",
		"-proxy.cs", "cs=x04;type=file;cert=" + certA + ";key=" + keyA,
		"-proxy.addr", strings.Join(listen, ","),
		"-registry.backend", "static",
		"-log.access.target", "stdout",
		"-log.access.format", "X04LOG $remote_addr $header.X-X04-Id $response_status",
	}
	cfg, err := config.Load(args, nil)
	if err != nil {
		t.Fatal("config.Load: ", err)
	}
	if err := w.setTable("A"); err != nil {
		t.Fatal(err)
	}
	// the access log goes to os.Stdout as main.newHTTPProxy finds it when the listener goroutines start
	pr, pw, err := os.Pipe()
	if err != nil {
		t.Fatal(err)
	}
	w.log = &x04Log{lines: map[string][2]string{}}
	w.log.cond = sync.NewCond(&w.log.mu)
	go w.log.pump(pr)
	w.stdout = os.Stdout
	os.Stdout = pw
	startServers(cfg, metrics.DiscardProvider{})
	// start-up only: wait until every listener accepts
	for _, ln := range w.lanes {
		ok := false
		for i := 0; i < 500 && !ok; i++ {
			c, err := net.DialTimeout("tcp", ln.addr, 200*time.Millisecond)
			if err == nil {
				c.Close()
				ok = true
			} else {
				time.Sleep(10 * time.Millisecond)
			}
		}
		if !ok {
			os.Stdout = w.stdout
			t.Fatalf("listener %s (%s) never came up", ln.addr, ln.key)
		}
	}
	// the readiness probes were connections, too: let the upstreams forget them
	time.Sleep(2*w.T + 100*time.Millisecond)
	return w
}

func (w *x04World) setTable(name string) error {
	tbl, err := route.NewTable(bytes.NewBufferString(w.tables[name]))
	if err != nil {
		return fmt.Errorf("table %s: %v", name, err)
	}
	route.SetTable(tbl)
	w.cur = name
	return nil
}

// hello returns the bytes of a real ClientHello for the host (recorded once from crypto/tls).
func (w *x04World) hello(host string) []byte {
	w.helloMu.Lock()
	defer w.helloMu.Unlock()
	if h, ok := w.hellos[host]; ok {
		return h
	}
	c1, c2 := net.Pipe()
	go tls.Client(c1, &tls.Config{InsecureSkipVerify: true, ServerName: host}).Handshake()
	buf := make([]byte, 16384)
	c2.SetReadDeadline(time.Now().Add(5 * time.Second))
	n, _ := c2.Read(buf)
	c1.Close()
	c2.Close()
	w.hellos[host] = buf[:n]
	return buf[:n]
}

// ---------------------------------------------------------------- the client of one history

// x04Pump is the only reader of the client's socket: it keeps everything fabio sent and notes the end.
type x04Pump struct {
	mu   sync.Mutex
	cond *sync.Cond
	buf  []byte
	off  int // consumed by Read
	end  bool
	err  error
}

func x04NewPump(c net.Conn) *x04Pump {
	p := &x04Pump{}
	p.cond = sync.NewCond(&p.mu)
	go func() {
		b := make([]byte, 32<<10)
		for {
			n, err := c.Read(b)
			p.mu.Lock()
			p.buf = append(p.buf, b[:n]...)
			if err != nil {
				p.end, p.err = true, err
			}
			p.cond.Broadcast()
			p.mu.Unlock()
			if err != nil {
				return
			}
		}
	}()
	return p
}

func (p *x04Pump) Read(b []byte) (int, error) {
	p.mu.Lock()
	defer p.mu.Unlock()
	for p.off == len(p.buf) && !p.end {
		p.cond.Wait()
	}
	if p.off < len(p.buf) {
		n := copy(b, p.buf[p.off:])
		p.off += n
		return n, nil
	}
	if p.err == nil {
		return 0, io.EOF
	}
	return 0, p.err
}

func (p *x04Pump) waitEnd(d time.Duration) bool {
	stop := time.AfterFunc(d, func() { p.mu.Lock(); p.cond.Broadcast(); p.mu.Unlock() })
	defer stop.Stop()
	deadline := time.Now().Add(d)
	p.mu.Lock()
	defer p.mu.Unlock()
	for !p.end && time.Now().Before(deadline) {
		p.cond.Wait()
	}
	return p.end
}

func (p *x04Pump) ended() bool { p.mu.Lock(); defer p.mu.Unlock(); return p.end }

// x04SegConn is what crypto/tls writes to: the first record (the ClientHello) is handed to the
// driver, which puts its two halves on the wire where the history wants them.
type x04SegConn struct {
	net.Conn
	pump    *x04Pump
	first   bool
	hello   chan []byte
	release chan struct{}
}

func (s *x04SegConn) Read(b []byte) (int, error) { return s.pump.Read(b) }
func (s *x04SegConn) Write(b []byte) (int, error) {
	if !s.first {
		s.first = true
		s.hello <- append([]byte(nil), b...)
		<-s.release
		return len(b), nil
	}
	return s.Conn.Write(b)
}

type x04Resp struct {
	status int
	body   string
	viaTLS bool // answered by the TLS upstream itself (tunnel)
}

type x04Client struct {
	w         *x04World
	h         *x04Hist
	lane      *x04Lane
	id        string
	raw       *net.TCPConn
	pump      *x04Pump
	peer      string // ip:port of the client's socket
	from      int    // upstream connections that existed before
	tlsOn     bool   // the flow terminates TLS somewhere (real crypto/tls client)
	seg       *x04SegConn
	tc        *tls.Conn
	helloB    []byte
	hsDone    chan struct{}
	hsErr     error
	cert      string
	rmu       sync.Mutex
	rcond     *sync.Cond
	resps     []x04Resp
	rend      bool
	rstart    bool
	sentQ     []string // ids of the requests sent so far, in order, with their kind
	pend      []byte
	helloDone bool
	relOnce   sync.Once
}

var errX04Void = errors.New("void")

type x04Mismatch struct {
	clause string
	msg    string
}

func (m *x04Mismatch) Error() string { return m.clause + ": " + m.msg }

func mism(clause, f string, a ...any) error { return &x04Mismatch{clause, fmt.Sprintf(f, a...)} }

func (c *x04Client) effAddr(eff string) (ip, port string) {
	if eff == "decl" {
		ip = x04Decl4
		if c.h.S.Fam == 6 {
			ip = x04Decl6
		}
		port = x04DeclPort
		if c.h.S.Head == "range" {
			port = "70000"
		}
		return
	}
	ip, port, _ = net.SplitHostPort(c.peer)
	return
}

func (c *x04Client) webHost() string {
	if c.h.C.Proto == "https+tcp+sni" {
		return c.lane.host(c.h.S.Sni)
	}
	return "h.x04.test"
}

// tokBytes spells one token of the stream.
func (c *x04Client) tokBytes(t string) ([]byte, string) {
	if len(t) == 1 {
		return []byte(t), ""
	}
	req := func(method, path, tag string, split bool) string {
		id := c.id + tag
		s := fmt.Sprintf("%s %s HTTP/1.1\r\nHost: %s\r\nX-X04-Id: %s\r\n", method, path, c.webHost(), id)
		if !split {
			s += "\r\n"
		}
		return s
	}
	fam4 := c.h.S.Fam != 6
	switch t {
	case "CR":
		return []byte("\r"), ""
	case "LF":
		return []byte("\n"), ""
	case "Xrange":
		return []byte("TCP4 192.0.2.7 198.51.100.9 70000 443"), ""
	case "Xfam":
		return []byte("TCP5 192.0.2.7 198.51.100.9 4321 443"), ""
	case "Xip":
		return []byte("TCP4 192.0.2.777 198.51.100.9 4321 443"), ""
	case "Xport":
		return []byte("TCP4 192.0.2.7 198.51.100.9 4x21 443"), ""
	case "Xshort":
		return []byte("TCP4 192.0.2.7"), ""
	case "Xlong":
		return []byte("TCP4 " + strings.Repeat("9", 150)), ""
	case "V2a":
		return []byte("\r"), ""
	case "V2b":
		return []byte("\n\r\n\x00\r\nQUIT\n"), ""
	case "V2c":
		if fam4 {
			return append([]byte{0x21, 0x11, 0x00, 0x0c}, 192, 0, 2, 7, 198, 51, 100, 9, 0x10, 0xe1, 0x01, 0xbb), ""
		}
		b := []byte{0x21, 0x21, 0x00, 0x24}
		b = append(b, net.ParseIP(x04Decl6).To16()...)
		b = append(b, net.ParseIP("2001:db8::9").To16()...)
		return append(b, 0x10, 0xe1, 0x01, 0xbb), ""
	case "Qa":
		return []byte(req("GET", "/open", "a", true)), ""
	case "Qb":
		return []byte("Accept: */*\r\n\r\n"), "a"
	case "Qc":
		return []byte(req("GET", "/decl", "c", false)), "c"
	case "Qd":
		return []byte(req("GET", "/peer", "d", false)), "d"
	case "Qp":
		return []byte(req("PFIND", "/open", "p", false)), "p"
	case "B1":
		return []byte("b1:" + c.id + ":first-chunk;"), ""
	case "B2":
		return []byte("b2:" + c.id + ":second-chunk;"), ""
	case "CHa":
		return c.helloB[:len(c.helloB)/2], ""
	case "CHb":
		return c.helloB[len(c.helloB)/2:], ""
	}
	panic("x04: unknown token " + t)
}

func (c *x04Client) flush() error {
	if len(c.pend) == 0 {
		return nil
	}
	_, err := c.raw.Write(c.pend)
	c.pend = nil
	return err
}

// startTLS starts crypto/tls' client; its ClientHello is captured, not yet sent.
func (c *x04Client) startTLS() {
	c.seg = &x04SegConn{Conn: c.raw, pump: c.pump, hello: make(chan []byte, 1), release: make(chan struct{})}
	host := c.webHost()
	if c.h.C.Proto == "tcps" {
		host = "h.x04.test"
	}
	c.tc = tls.Client(c.seg, &tls.Config{InsecureSkipVerify: true, ServerName: host})
	c.hsDone = make(chan struct{})
	go func() {
		c.hsErr = c.tc.Handshake()
		if c.hsErr == nil {
			if pcs := c.tc.ConnectionState().PeerCertificates; len(pcs) > 0 {
				c.cert = pcs[0].Subject.CommonName
			}
		}
		close(c.hsDone)
	}()
	select {
	case c.helloB = <-c.seg.hello:
	case <-time.After(5 * time.Second):
		c.helloB = []byte{0x16, 3, 1, 0, 0}
	}
}

func (c *x04Client) readResponses(r io.Reader, viaTLS func() bool) {
	c.rmu.Lock()
	if c.rstart {
		c.rmu.Unlock()
		return
	}
	c.rstart = true
	c.rmu.Unlock()
	go func() {
		br := bufio.NewReader(r)
		for {
			resp, err := http.ReadResponse(br, nil)
			if err != nil {
				break
			}
			b, _ := io.ReadAll(resp.Body)
			resp.Body.Close()
			c.rmu.Lock()
			c.resps = append(c.resps, x04Resp{resp.StatusCode, string(b), resp.Header.Get("X-X04-Up") == "tls"})
			c.rcond.Broadcast()
			c.rmu.Unlock()
		}
		c.rmu.Lock()
		c.rend = true
		c.rcond.Broadcast()
		c.rmu.Unlock()
	}()
}

func (c *x04Client) waitResps(n int, d time.Duration) []x04Resp {
	stop := time.AfterFunc(d, func() { c.rmu.Lock(); c.rcond.Broadcast(); c.rmu.Unlock() })
	defer stop.Stop()
	deadline := time.Now().Add(d)
	c.rmu.Lock()
	defer c.rmu.Unlock()
	for len(c.resps) < n && !c.rend && time.Now().Before(deadline) {
		c.rcond.Wait()
	}
	return append([]x04Resp(nil), c.resps...)
}

// send puts the next n tokens on the wire as ONE segment where the protocol allows it (the bytes in
// front of and including the ClientHello are one write; requests inside TLS are one record).
func (c *x04Client) send(toks []string) error {
	var inner []byte // bytes that travel inside the TLS session
	helloOut := false
	for _, t := range toks {
		if c.tlsOn && t == "CHa" {
			c.startTLS()
		}
		b, q := c.tokBytes(t)
		if q != "" {
			c.sentQ = append(c.sentQ, q)
		}
		switch {
		case c.tlsOn && c.helloDone:
			inner = append(inner, b...)
		case c.tlsOn && t == "CHb":
			c.pend = append(c.pend, b...)
			helloOut, c.helloDone = true, true
		default:
			c.pend = append(c.pend, b...)
		}
	}
	if err := c.flush(); err != nil {
		return nil // fabio closed the connection already; the observation decides
	}
	if helloOut {
		c.releaseHello()
	}
	if len(inner) > 0 {
		select {
		case <-c.hsDone:
		case <-time.After(5 * time.Second):
			return mism("tls-handshake", "handshake did not finish")
		}
		if c.hsErr != nil {
			return nil // nothing can be sent inside a session that does not exist; the observation decides
		}
		c.readResponses(c.tc, nil)
		if _, err := c.tc.Write(inner); err != nil {
			return nil
		}
	}
	return nil
}

func (c *x04Client) releaseHello() {
	if c.seg != nil {
		c.relOnce.Do(func() { close(c.seg.release) })
	}
}

// ---------------------------------------------------------------- expectation of a snapshot

// upExpect turns the specification's `up` into what the lane's upstream must hold.
type x04UpExpect struct {
	marker string // "" | "peer" | "decl"
	data   []byte // raw upstream: the bytes behind the marker line
	hs     bool   // TLS upstream: the ClientHello arrived completely (the handshake can finish)
	reqs   []string
}

func (c *x04Client) upExpect(up []string) x04UpExpect {
	var e x04UpExpect
	var qa bool
	for _, t := range up {
		switch {
		case strings.HasPrefix(t, "M:"):
			e.marker = t[2:]
		case c.lane.up != nil && c.lane.up.tlsc != nil:
			switch t {
			case "CHb":
				e.hs = true
			case "Qa":
				qa = true
			case "Qb":
				if qa {
					e.reqs = append(e.reqs, c.id+"a")
				}
			case "Qc":
				e.reqs = append(e.reqs, c.id+"c")
			case "Qd":
				e.reqs = append(e.reqs, c.id+"d")
			}
		default:
			b, _ := c.tokBytesNoSide(t)
			e.data = append(e.data, b...)
		}
	}
	return e
}

func (c *x04Client) tokBytesNoSide(t string) ([]byte, string) {
	save := c.sentQ
	b, q := c.tokBytes(t)
	c.sentQ = save
	return b, q
}

// x04SplitMarker separates the outgoing PROXY line (when one is expected) from the bytes behind it.
func x04SplitMarker(buf []byte, expectLine bool) (line string, rest []byte, complete bool) {
	if !expectLine {
		return "", buf, true
	}
	i := bytes.IndexByte(buf, '\n')
	if i < 0 {
		return "", nil, false
	}
	return string(buf[:i+1]), buf[i+1:], true
}

// checkUp waits until the lane's upstream holds what the snapshot says and compares exactly.
func (c *x04Client) checkUp(s *x04Snap, wait time.Duration) error {
	if c.lane.up == nil {
		return nil
	}
	e := c.upExpect(s.Up)
	isTLS := c.lane.up.tlsc != nil
	var got x04UpConn
	var n int
	ok := c.lane.up.waitFor(c.from, wait, func(cs []*x04UpConn) bool {
		n = len(cs)
		if n == 0 {
			return e.marker == "" && len(e.data) == 0 && !e.hs && !s.UpEOF
		}
		got = *cs[0]
		got.buf = append([]byte(nil), cs[0].buf...)
		got.reqs = append([]string(nil), cs[0].reqs...)
		if s.UpEOF && !got.eof {
			return false
		}
		_, rest, complete := x04SplitMarker(got.buf, e.marker != "")
		if !complete {
			return false
		}
		if isTLS {
			return (!e.hs || got.hs) && len(got.reqs) >= len(e.reqs)
		}
		return len(rest) >= len(e.data)
	})
	if n > 1 {
		return mism("upstream-conns", "the upstream accepted %d connections for one client connection", n)
	}
	if n == 0 {
		if ok {
			if s.Closed {
				// nothing may ever reach the upstream: a connection still waiting in its accept queue gets a moment
				if c.lane.up.waitFor(c.from, 100*time.Millisecond, func(cs []*x04UpConn) bool { return len(cs) > 0 && len(cs[0].buf) > 0 }) {
					return mism("upstream-unexpected", "fabio closed the connection, the upstream nevertheless received data")
				}
			}
			return nil
		}
		return mism("upstream-missing", "no upstream connection although the upstream should have %q (marker %q, eof %v)", e.data, e.marker, s.UpEOF)
	}
	line, rest, _ := x04SplitMarker(got.buf, e.marker != "")
	if e.marker == "" && isTLS && len(got.buf) > 0 {
		return mism("marker-unexpected", "upstream got a PROXY line %q before the decision", got.buf)
	}
	if e.marker != "" {
		if line == "" {
			return mism("marker-missing", "upstream has no PROXY line (has %q), expected the %s address", got.buf, e.marker)
		}
		f := strings.Fields(line)
		ip, port := c.effAddr(e.marker)
		fam := "TCP4"
		if strings.Contains(ip, ":") {
			fam = "TCP6"
		}
		if len(f) != 6 || f[1] != fam || f[2] != ip || f[4] != port || !strings.HasSuffix(line, "\r\n") {
			return mism("marker-address", "outgoing PROXY header %q does not carry the effective client address %s %s:%s (%s)", line, fam, ip, port, e.marker)
		}
	}
	if isTLS {
		if e.hs != got.hs && !(got.hs && !e.hs) {
			return mism("tunnel-hello", "TLS upstream handshake done=%v, expected %v", got.hs, e.hs)
		}
		if got.hs && !e.hs {
			return mism("tunnel-hello", "TLS upstream completed a handshake although the ClientHello was not forwarded completely")
		}
		if fmt.Sprint(got.reqs) != fmt.Sprint(e.reqs) {
			if !ok {
				return mism("tunnel-requests", "TLS upstream served %v, expected %v", got.reqs, e.reqs)
			}
			return mism("tunnel-requests", "TLS upstream served %v, expected exactly %v", got.reqs, e.reqs)
		}
	} else if !bytes.Equal(rest, e.data) {
		i := 0
		for i < len(rest) && i < len(e.data) && rest[i] == e.data[i] {
			i++
		}
		return mism("upstream-bytes", "upstream holds %d bytes behind the PROXY line, expected %d; first difference at %d: got %q want %q",
			len(rest), len(e.data), i, x04Around(rest, i), x04Around(e.data, i))
	}
	if s.UpEOF && !got.eof {
		return mism("upstream-eof", "upstream did not see the end of the client's stream")
	}
	if !s.UpEOF && got.eof {
		return mism("upstream-early-eof", "upstream saw the end of the stream although the client has not finished")
	}
	return nil
}

func x04Around(b []byte, i int) string {
	lo, hi := i-12, i+24
	if lo < 0 {
		lo = 0
	}
	if hi > len(b) {
		hi = len(b)
	}
	if lo > hi {
		lo = hi
	}
	return string(b[lo:hi])
}

// checkResps compares the answers the client got so far with the snapshot, and for each answer the
// three other channels of the effective address.
func (c *x04Client) checkResps(s *x04Snap, done int) error {
	if len(s.Resps) == 0 {
		return nil
	}
	got := c.waitResps(len(s.Resps), 5*time.Second)
	if len(got) < len(s.Resps) {
		return mism("answer-missing", "client got %d answers, expected %v", len(got), s.Resps)
	}
	if len(got) > len(s.Resps) {
		return mism("answer-extra", "client got %d answers, expected only %v", len(got), s.Resps)
	}
	for i := done; i < len(s.Resps); i++ {
		f := strings.Split(s.Resps[i], ":")
		st, _ := strconv.Atoi(f[0])
		if got[i].status != st {
			return mism("answer-status", "answer %d is %d, expected %s", i+1, got[i].status, s.Resps[i])
		}
		if got[i].viaTLS {
			return mism("answer-origin", "answer %d came from the TLS upstream, expected fabio's HTTP side", i+1)
		}
		if st == 400 {
			continue
		}
		kind, eff := f[1], f[2]
		tag := map[string]string{"open": "a", "decl": "c", "peer": "d", "pfind": "p"}[kind]
		id := c.id + tag
		ip, port := c.effAddr(eff)
		if st == 200 {
			if got[i].body != "ok:"+id {
				return mism("answer-body", "answer %d has body %q, expected %q", i+1, got[i].body, "ok:"+id)
			}
			fw, ok := c.w.uh.get(id)
			if !ok {
				return mism("forward-missing", "request %s was answered 200 but never reached the upstream", id)
			}
			if fw.XFF != ip {
				return mism("xff", "X-Forwarded-For %q, effective client address is %s (%s)", fw.XFF, ip, eff)
			}
			if !strings.Contains(fw.Fwd, "for="+ip+";") {
				return mism("forwarded", "Forwarded %q, effective client address is %s (%s)", fw.Fwd, ip, eff)
			}
			if fw.Real != ip {
				return mism("x-real-ip", "X-Real-Ip %q, effective client address is %s (%s)", fw.Real, ip, eff)
			}
			wantM := "GET"
			if kind == "pfind" {
				wantM = "PROPFIND"
			}
			if fw.Method != wantM {
				return mism("method", "upstream saw method %q, the client sent %q", fw.Method, wantM)
			}
		} else if _, ok := c.w.uh.get(id); ok {
			return mism("forward-denied", "request %s was answered %d but reached the upstream", id, st)
		}
		line, ok := c.w.log.wait(id, 5*time.Second)
		if !ok {
			return mism("log-missing", "no access log line for request %s (status %d)", id, st)
		}
		if line[0] != net.JoinHostPort(ip, port) || line[1] != f[0] {
			return mism("log-remote-addr", "access log has $remote_addr %q status %s, effective client address is %s (%s), status %s",
				line[0], line[1], net.JoinHostPort(ip, port), eff, f[0])
		}
	}
	return nil
}

// observable says whether a snapshot differs from the previous one in something the harness can see.
func x04Observable(prev, s *x04Snap) bool {
	return fmt.Sprint(prev.Up) != fmt.Sprint(s.Up) || prev.UpEOF != s.UpEOF || len(prev.Resps) != len(s.Resps) || prev.Closed != s.Closed
}

// ---------------------------------------------------------------- one history against the real listener

type x04Outcome struct {
	err      error
	void     string
	duration time.Duration
}

func (w *x04World) play(h *x04Hist) (out x04Outcome) {
	pool := w.pools[h.C.key()]
	if pool == nil {
		return x04Outcome{err: mism("harness", "no lane for %s", h.C.key())}
	}
	lane := <-pool
	defer func() { pool <- lane }()
	swDep := h.C.Proto == "https+tcp+sni" && h.S.Sni == "sw"
	if swDep {
		w.tblMu.Lock()
		defer w.tblMu.Unlock()
		if w.cur != h.T0 {
			if err := w.setTable(h.T0); err != nil {
				return x04Outcome{err: mism("harness", "%v", err)}
			}
		}
	}
	c := &x04Client{w: w, h: h, lane: lane, id: fmt.Sprintf("x%d", atomic.AddInt64(&w.ids, 1))}
	c.rcond = sync.NewCond(&c.rmu)
	c.tlsOn = h.C.Proto == "https" || h.C.Proto == "tcps" || h.C.Proto == "https+tcp+sni"
	if lane.up != nil {
		c.from = lane.up.count()
	}
	if h.C.Proto == "tcp+sni" {
		c.helloB = w.hello(lane.host(h.S.Sni))
	}
	stall := verifx.WatchStalls()
	t0 := time.Now()
	conn, err := net.DialTimeout("tcp", lane.addr, 5*time.Second)
	if err != nil {
		stall.Stop()
		return x04Outcome{err: mism("connect", "listener %s does not accept: %v", lane.key, err)}
	}
	c.raw = conn.(*net.TCPConn)
	c.peer = conn.LocalAddr().String()
	c.pump = x04NewPump(conn)
	defer func() {
		c.raw.Close()
		c.releaseHello()
		if lane.up != nil {
			// the lane is handed on only when the upstream connections of this history have ended
			lane.up.waitFor(c.from, 3*time.Second, func(cs []*x04UpConn) bool {
				for _, uc := range cs {
					if !uc.eof {
						return false
					}
				}
				return true
			})
		}
	}()
	web := h.C.Proto == "http"
	if web {
		c.readResponses(c.pump, nil)
	}
	pos := 0
	prev := &x04Snap{}
	timed := false // a timer move has happened: from here on the history may take its time
	limit := time.Hour
	if h.C.Pxy {
		limit = w.T / 2
	} else if h.C.Rt {
		limit = w.RT / 2
	}
	for i := range h.H {
		s := &h.H[i]
		wait := 5 * time.Second
		switch s.Ev {
		case "send":
			if !timed && time.Since(t0) > limit {
				out.void = fmt.Sprintf("the moves before the timer took %v (more than half of the time-out)", time.Since(t0))
			}
			if err := c.send(h.Stream[pos : pos+s.N]); err != nil {
				out.err = err
			}
			pos += s.N
		case "fin":
			c.flush()
			if c.tc != nil && c.hsDone != nil {
				select {
				case <-c.hsDone:
					if c.hsErr == nil {
						c.tc.CloseWrite()
					}
				default:
				}
			}
			c.raw.CloseWrite()
		case "table":
			if !swDep {
				w.tblMu.Lock()
			}
			err := w.setTable(s.To)
			if !swDep {
				w.tblMu.Unlock()
			}
			if err != nil {
				out.err = mism("harness", "%v", err)
			}
		case "timeout":
			if !timed && time.Since(t0) > limit {
				out.void = fmt.Sprintf("the moves before the timer took %v", time.Since(t0))
			}
			timed = true
			if !x04Observable(prev, s) {
				// nothing the harness could see changes: the timer is established by its own bound
				time.Sleep(4*w.T - time.Since(t0))
			} else {
				wait = 6 * w.T
			}
		case "rt":
			timed = true
			wait = 3 * w.RT
		}
		if out.err != nil || out.void != "" {
			break
		}
		if s.Ev == "send" && !x04Observable(prev, s) {
			time.Sleep(time.Millisecond) // lets the listener take the segment before the next one follows
		}
		if s.Closed {
			if !c.pump.waitEnd(wait) {
				out.err = mism("not-closed", "after %s: fabio did not close the connection", s.Ev)
				break
			}
		}
		if err := c.checkUp(s, wait); err != nil {
			out.err = fmt.Errorf("after move %d (%s): %w", i+1, s.Ev, err)
			break
		}
		if err := c.checkResps(s, len(prev.Resps)); err != nil {
			out.err = fmt.Errorf("after move %d (%s): %w", i+1, s.Ev, err)
			break
		}
		if s.TLS == "ok" && prev.TLS != "ok" && c.hsDone != nil {
			select {
			case <-c.hsDone:
			case <-time.After(5 * time.Second):
			}
			if c.hsErr != nil {
				out.err = mism("tls-terminate", "after move %d: the listener should terminate TLS, handshake failed: %v", i+1, c.hsErr)
				break
			}
			if c.cert != "x04-fabio" {
				out.err = mism("dispatch-cert", "after move %d: TLS was answered by %q, expected the listener's certificate", i+1, c.cert)
				break
			}
		}
		if h.C.Proto == "https+tcp+sni" && s.Disp == "tunnel" && c.hsDone != nil && len(s.Up) > 0 && s.Up[len(s.Up)-1] != "CHa" && !strings.HasPrefix(s.Up[len(s.Up)-1], "M:") {
			select {
			case <-c.hsDone:
			case <-time.After(5 * time.Second):
			}
			if c.hsErr == nil && c.cert != "x04-upstream" {
				out.err = mism("dispatch-cert", "after move %d: TLS was answered by %q, expected the tunnel's upstream", i+1, c.cert)
				break
			}
		}
		if !s.Closed && !timed && c.pump.ended() && s.Ev != "fin" && !(h.C.Proto == "http" || c.tlsOn) {
			out.err = mism("closed-early", "after move %d (%s): fabio closed the connection, the specification keeps it open", i+1, s.Ev)
			break
		}
		prev = s
	}
	if st := stall.Stop(); st > w.T/4 && out.void == "" {
		out.void = fmt.Sprintf("the process stalled for %v", st)
	}
	out.duration = time.Since(t0)
	return out
}

// ---------------------------------------------------------------- S->C driver

func x04Features(h *x04Hist, err error) map[string]any {
	clause := "other"
	var m *x04Mismatch
	if errors.As(err, &m) {
		clause = m.clause
	}
	return map[string]any{"sub": "replay", "clause": clause, "proto": h.C.Proto, "pxy": h.C.Pxy, "head": h.S.Head}
}

func TestVerifX04(t *testing.T) {
	hs, err := verifx.ReadCases[x04Hist]("VERIF_IN")
	if err != nil {
		t.Fatal(err)
	}
	copies := verifx.EnvInt("X04_COPIES", 4)
	tStart := time.Now()
	w := x04Start(t, copies)
	defer func() { os.Stdout = w.stdout }()
	tReady := time.Now()
	var durMu sync.Mutex
	durs := map[string]time.Duration{}
	par := verifx.EnvInt("X04_PAR", 96)
	var wg sync.WaitGroup
	sem := make(chan struct{}, par)
	var played, voids, retried, selfOK, selfBad, failed, skipped int64
	var mu sync.Mutex
	classes := map[string]int{}
	run := func(h *x04Hist) {
		defer wg.Done()
		defer func() { <-sem }()
		if atomic.LoadInt64(&failed) >= 40 {
			atomic.AddInt64(&skipped, 1) // enough evidence; a broken tree would otherwise cost minutes of time-outs
			return
		}
		var last x04Outcome
		fails := 0
		for attempt := 0; attempt < 6 && fails < 3; attempt++ {
			last = w.play(h)
			durMu.Lock()
			durs[h.C.key()] += last.duration
			durMu.Unlock()
			if last.void != "" {
				atomic.AddInt64(&voids, 1)
				continue
			}
			if last.err == nil {
				break
			}
			fails++
			atomic.AddInt64(&retried, 1)
			if h.Selftest != "" {
				break
			}
		}
		atomic.AddInt64(&played, 1)
		mu.Lock()
		classes[h.C.key()+"|"+h.S.Head]++
		mu.Unlock()
		if h.Selftest != "" {
			if last.err != nil {
				atomic.AddInt64(&selfOK, 1)
			} else {
				atomic.AddInt64(&selfBad, 1)
				verifx.Emit(map[string]any{"kind": "selftest-miss", "case": h, "what": h.Selftest})
			}
			return
		}
		if last.void != "" && last.err == nil {
			verifx.Emit(map[string]any{"kind": "void", "id": h.ID, "why": last.void})
			return
		}
		if last.err != nil && fails >= 3 {
			atomic.AddInt64(&failed, 1)
			verifx.Fail(h, x04Features(h, last.err), "%s pxyproto=%v head=%s/%d pay=%s sni=%s: %v", h.C.key(), h.C.Pxy, h.S.Head, h.S.Fam, h.S.Pay, h.S.Sni, last.err)
		} else if last.err != nil {
			verifx.Emit(map[string]any{"kind": "void", "id": h.ID, "why": "failed " + strconv.Itoa(fails) + " time(s) only: " + last.err.Error()})
		}
	}
	order := mrand.New(mrand.NewSource(verifx.Seed())).Perm(len(hs))
	for _, i := range order {
		sem <- struct{}{}
		wg.Add(1)
		go run(&hs[i])
	}
	wg.Wait()
	// the listeners must all be alive after everything that was thrown at them
	dead := 0
	for _, ln := range w.lanes {
		c, err := net.DialTimeout("tcp", ln.addr, 2*time.Second)
		if err != nil {
			dead++
			verifx.Fail(map[string]any{"lane": ln.key}, map[string]any{"sub": "replay", "clause": "listener-dead"}, "listener %s no longer accepts: %v", ln.key, err)
			continue
		}
		c.Close()
	}
	keys := make([]string, 0, len(classes))
	for k := range classes {
		keys = append(keys, k)
	}
	sort.Strings(keys)
	os.Stdout = w.stdout
	verifx.Summary(map[string]any{"histories": played, "voids": voids, "retries": retried, "selftest_rejected": selfOK,
		"selftest_missed": selfBad, "skipped": skipped, "classes": len(keys), "lanes": len(w.lanes), "dead": dead,
		"startup_ms": tReady.Sub(tStart).Milliseconds(), "replay_ms": time.Since(tReady).Milliseconds(), "busy": fmt.Sprint(durs)})
}

// ---------------------------------------------------------------- probe: which named deviations does the tree have?

// x04Raw is a plain scripted connection for the probes.
type x04Raw struct {
	c    *net.TCPConn
	pump *x04Pump
	lane *x04Lane
	from int
	peer string
}

func (w *x04World) dial(lane *x04Lane) (*x04Raw, error) {
	from := 0
	if lane.up != nil {
		from = lane.up.count()
	}
	c, err := net.DialTimeout("tcp", lane.addr, 5*time.Second)
	if err != nil {
		return nil, err
	}
	return &x04Raw{c: c.(*net.TCPConn), pump: x04NewPump(c), lane: lane, from: from, peer: c.LocalAddr().String()}, nil
}

// upstream returns what the lane's upstream holds for this connection once pred is true (or the time is up).
func (r *x04Raw) upstream(d time.Duration, pred func(u x04UpConn) bool) (x04UpConn, bool) {
	var got x04UpConn
	ok := r.lane.up.waitFor(r.from, d, func(cs []*x04UpConn) bool {
		if len(cs) == 0 {
			return false
		}
		got = *cs[0]
		got.buf = append([]byte(nil), cs[0].buf...)
		got.reqs = append([]string(nil), cs[0].reqs...)
		return pred(got)
	})
	return got, ok
}

func (r *x04Raw) close() {
	r.c.Close()
	r.lane.up.waitFor(r.from, 2*time.Second, func(cs []*x04UpConn) bool {
		for _, uc := range cs {
			if !uc.eof {
				return false
			}
		}
		return true
	})
}

func (w *x04World) take(k x04Cfg) *x04Lane { return <-w.pools[k.key()] }

func TestVerifX04Probe(t *testing.T) {
	w := x04Start(t, 1)
	defer func() { os.Stdout = w.stdout }()
	dev := map[string]bool{}
	why := map[string]string{}
	notes := map[string]string{}
	void := ""
	hdr4 := "PROXY TCP4 192.0.2.7 198.51.100.9 4321 443\r\n"
	hasLine := func(u x04UpConn) bool { _, _, c := x04SplitMarker(u.buf, true); return c }
	src := func(u x04UpConn) string {
		line, _, _ := x04SplitMarker(u.buf, true)
		f := strings.Fields(line)
		if len(f) != 6 {
			return ""
		}
		return f[2] + ":" + f[4]
	}
	stall := verifx.WatchStalls()

	// RejectUnknown, LaxPort, LaxLF: what does a tcp listener with pxyproto make of these three lines?
	for _, pr := range []struct{ name, line, want string }{
		{"RejectUnknown", "PROXY UNKNOWN\r\n", "peer"},
		{"LaxPort", "PROXY TCP4 192.0.2.7 198.51.100.9 70000 443\r\n", "192.0.2.7:70000"},
		{"LaxLF", "PROXY TCP4 192.0.2.7 198.51.100.9 4321 443\n", "192.0.2.7:4321"},
	} {
		lane := w.take(x04Cfg{"tcp", true, "pxy", false})
		r, err := w.dial(lane)
		if err != nil {
			t.Fatal(err)
		}
		r.c.Write([]byte(pr.line + "probe-payload;"))
		u, _ := r.upstream(3*time.Second, func(u x04UpConn) bool { return u.eof || bytes.Contains(u.buf, []byte("probe-payload;")) })
		accepted := bytes.HasSuffix(u.buf, []byte("probe-payload;")) && !bytes.Contains(u.buf, []byte(pr.line))
		got := src(u)
		switch pr.name {
		case "RejectUnknown":
			dev[pr.name] = !(accepted && got == r.peer)
			why[pr.name] = fmt.Sprintf("`PROXY UNKNOWN` CRLF + payload on proto=tcp;pxyproto=true: the upstream got %q (eof=%v); the PROXY protocol text says the receiver uses the real addresses (%s) and goes on", u.buf, u.eof, r.peer)
		default:
			dev[pr.name] = accepted && got == pr.want
			why[pr.name] = fmt.Sprintf("malformed line %q was accepted: the upstream was told the client is %s", pr.line, got)
		}
		r.close()
		w.pools[lane.key] <- lane
	}
	// EofInPrefixDrops: "PRO" and end of stream on a route whose handler reads before it asks for the address
	{
		lane := w.take(x04Cfg{"tcp", true, "bare", false})
		r, _ := w.dial(lane)
		r.c.Write([]byte("PRO"))
		r.c.CloseWrite()
		u, ok := r.upstream(3*time.Second, func(u x04UpConn) bool { return u.eof })
		if !ok {
			void = "EofInPrefixDrops: the upstream never saw the end of the stream"
		}
		dev["EofInPrefixDrops"] = string(u.buf) != "PRO"
		why["EofInPrefixDrops"] = fmt.Sprintf("client sent \"PRO\" and closed its side (proto=tcp;pxyproto=true, route without pxyproto/allow): the upstream got %q and the end of the stream", u.buf)
		r.close()
		w.pools[lane.key] <- lane
	}
	// SniffBeforeHeader: header, then a ClientHello for a host with a tcp route, on https+tcp+sni with pxyproto
	{
		lane := w.take(x04Cfg{"https+tcp+sni", true, "na", false})
		r, _ := w.dial(lane)
		r.c.Write(append([]byte(hdr4), w.hello(lane.host("tun"))...))
		u, _ := r.upstream(2*time.Second, func(u x04UpConn) bool { return hasLine(u) })
		ended := r.pump.waitEnd(2 * time.Second)
		dev["SniffBeforeHeader"] = !(src(u) == "192.0.2.7:4321")
		why["SniffBeforeHeader"] = fmt.Sprintf("proto=https+tcp+sni;pxyproto=true, PROXY header followed by a ClientHello for a host with a tcp route: upstream got %q, fabio closed the connection=%v (the header is looked at behind the SNI dispatch, which sees no ClientHello)", u.buf, ended)
		r.close()
		w.pools[lane.key] <- lane
	}
	// RtLostOnFirstRead: silent client, rt=300ms, with and without pxyproto (pxytimeout=100ms)
	{
		plain, _ := w.dial(w.special["rt-plain"])
		pxy, _ := w.dial(w.special["rt-pxy"])
		_, okPlain := plain.upstream(6*300*time.Millisecond, func(u x04UpConn) bool { return u.eof })
		_, okPxy := pxy.upstream(6*300*time.Millisecond, func(u x04UpConn) bool { return u.eof })
		if !okPlain {
			verifx.Fail(map[string]any{"probe": "rt"}, map[string]any{"sub": "probe", "clause": "rt-plain"},
				"proto=tcp;rt=300ms: a silent client was not cut off within 1.8s")
		}
		dev["RtLostOnFirstRead"] = okPlain && !okPxy
		why["RtLostOnFirstRead"] = "proto=tcp;rt=300ms;pxyproto=true;pxytimeout=100ms, route without pxyproto/allow: a client that sends nothing is never cut off (without pxyproto it is cut off after rt); the PROXY layer clears the read deadline of the first read"
		plain.close()
		pxy.close()
	}
	// pxytimeout: the documented default (250ms) and a configured long value
	{
		r, _ := w.dial(w.special["default"])
		t0 := time.Now()
		u, ok := r.upstream(4*250*time.Millisecond, hasLine)
		el := time.Since(t0)
		if !ok || src(u) != r.peer {
			verifx.Fail(map[string]any{"probe": "default-timeout"}, map[string]any{"sub": "probe", "clause": "default-timeout"},
				"pxyproto=true without pxytimeout: a silent client was not treated as a client without header within 1s (documented default 250ms); upstream has %q", u.buf)
		}
		notes["default-pxytimeout"] = fmt.Sprintf("silent client released after %v (documented default 250ms)", el.Round(time.Millisecond))
		r.close()
		// a header that arrives after a third of the time-out must be respected
		for _, sp := range []struct {
			lane string
			d    time.Duration
		}{{"default", 80 * time.Millisecond}, {"slow", 500 * time.Millisecond}} {
			st := verifx.WatchStalls()
			r, _ := w.dial(w.special[sp.lane])
			r.c.Write([]byte(hdr4[:9]))
			time.Sleep(sp.d)
			r.c.Write([]byte(hdr4[9:] + "x;"))
			u, _ := r.upstream(3*time.Second, func(u x04UpConn) bool { return u.eof || bytes.HasSuffix(u.buf, []byte("x;")) })
			if st.Stop() < sp.d/2 && src(u) != "192.0.2.7:4321" {
				verifx.Fail(map[string]any{"probe": "early-timeout", "lane": sp.lane}, map[string]any{"sub": "probe", "clause": "early-timeout"},
					"listener %s: a header completed %v after the connection was opened was not respected; upstream has %q", sp.lane, sp.d, u.buf)
			}
			r.close()
		}
	}
	// note: a tunnel whose upstream finishes first, with and without pxyproto on the listener
	{
		res := map[bool]string{}
		for _, pxy := range []bool{false, true} {
			lane := w.take(x04Cfg{"tcp", pxy, "bare", false})
			r, _ := w.dial(lane)
			r.c.Write([]byte("HALFCLOSE;"))
			r.upstream(2*time.Second, func(u x04UpConn) bool { return bytes.Contains(u.buf, []byte("HALFCLOSE;")) })
			// the client reads the upstream's last words and its end of stream, then goes on talking
			deadline := time.Now().Add(2 * time.Second)
			for time.Now().Before(deadline) && !r.pump.ended() {
				time.Sleep(5 * time.Millisecond)
			}
			r.c.Write([]byte("after;"))
			r.c.CloseWrite()
			u, _ := r.upstream(2*time.Second, func(u x04UpConn) bool { return u.eof })
			res[pxy] = string(u.buf)
			r.close()
			w.pools[lane.key] <- lane
		}
		if strings.HasSuffix(res[false], "after;") && !strings.HasSuffix(res[true], "after;") {
			notes["no-half-close-behind-pxyproto"] = fmt.Sprintf("upstream half-closes first, the client then sends \"after;\": proto=tcp delivers it (upstream has %q), proto=tcp;pxyproto=true tears the tunnel down (upstream has %q) - the PROXY layer's connection type has no CloseWrite", res[false], res[true])
		}
	}
	// note: a ClientHello that does not fit tcpproxy's 4096-byte peek buffer on https+tcp+sni
	{
		lane := w.take(x04Cfg{"https+tcp+sni", false, "na", false})
		var alpn []string
		for i := 0; i < 70; i++ {
			alpn = append(alpn, fmt.Sprintf("x04-padding-protocol-name-%02d-%s", i, strings.Repeat("p", 30)))
		}
		alpn = append(alpn, "http/1.1")
		who := func(protos []string) string {
			c, err := net.DialTimeout("tcp", lane.addr, 2*time.Second)
			if err != nil {
				return "connect: " + err.Error()
			}
			defer c.Close()
			c.SetDeadline(time.Now().Add(3 * time.Second))
			tc := tls.Client(c, &tls.Config{InsecureSkipVerify: true, ServerName: lane.host("tun"), NextProtos: protos})
			if err := tc.Handshake(); err != nil {
				return "handshake: " + err.Error()
			}
			return tc.ConnectionState().PeerCertificates[0].Subject.CommonName
		}
		small, big := who(nil), who(alpn)
		if small == "x04-upstream" && big != "x04-upstream" {
			notes["big-hello-not-tunnelled"] = fmt.Sprintf("proto=https+tcp+sni, host with a tcp route: a ClientHello of ~%d bytes is answered by the certificate %q instead of the tunnel's upstream (a normal one by %q): the SNI peek buffer is 4096 bytes", 70*62+300, big, small)
		}
		time.Sleep(50 * time.Millisecond)
		w.pools[lane.key] <- lane
	}
	// note: family of the outgoing header when the declared source is IPv6
	{
		lane := w.take(x04Cfg{"tcp", true, "pxy", false})
		r, _ := w.dial(lane)
		r.c.Write([]byte("PROXY TCP6 2001:db8::7 2001:db8::9 4321 443\r\nx;"))
		u, _ := r.upstream(3*time.Second, func(u x04UpConn) bool { return u.eof || bytes.HasSuffix(u.buf, []byte("x;")) })
		line, _, _ := x04SplitMarker(u.buf, true)
		if f := strings.Fields(line); len(f) == 6 && strings.Contains(f[2], ":") != strings.Contains(f[3], ":") {
			notes["outgoing-mixed-families"] = fmt.Sprintf("outgoing header %q mixes an IPv6 source with an IPv4 destination (PROXY v1 wants both of the announced family)", strings.TrimSpace(line))
		}
		r.close()
		w.pools[lane.key] <- lane
	}
	// the timed probes compare 0.25-0.3 s against 1-1.8 s: only a stall of that order can spoil them
	if st := stall.Stop(); st > 600*time.Millisecond {
		void = fmt.Sprintf("the process stalled for %v during the probes", st)
	}
	os.Stdout = w.stdout
	verifx.Emit(map[string]any{"kind": "probe", "dev": dev, "why": why, "notes": notes, "void": void})
	verifx.Summary(map[string]any{"probes": len(dev)})
}

// ---------------------------------------------------------------- C->S: sends that race the header timer

type x04RaceEv map[string]any

// x04RaceOne plays one connection whose sends are placed around the moment the header timer fires and
// returns its record: the client's moves in the order they were made, then what the upstream holds.
func (w *x04World) raceOne(rng *mrand.Rand, n int) ([]x04RaceEv, string) {
	kinds := []x04Cfg{{"tcp", true, "pxy", false}, {"tcp", true, "bare", false}, {"tcp", true, "acl", false}, {"http", true, "na", false}, {"tcp", false, "pxy", false}}
	k := kinds[rng.Intn(len(kinds))]
	heads := []x04Scr{{"v1", 4, "plain", "-"}, {"v1", 6, "plain", "-"}, {"v1", 4, "pro", "-"}, {"unk", 4, "plain", "-"}, {"xfam", 4, "plain", "-"}, {"none", 4, "pro", "-"}, {"none", 4, "plain", "-"}, {"lf", 4, "plain", "-"}}
	sc := heads[rng.Intn(len(heads))]
	h := &x04Hist{C: k, S: sc}
	h.Stream = x04Stream(k, sc)
	lane := <-w.pools[k.key()]
	defer func() { w.pools[k.key()] <- lane }()
	c := &x04Client{w: w, h: h, lane: lane, id: fmt.Sprintf("r%d", n)}
	c.rcond = sync.NewCond(&c.rmu)
	if lane.up != nil {
		c.from = lane.up.count()
	}
	stall := verifx.WatchStalls()
	conn, err := net.DialTimeout("tcp", lane.addr, 5*time.Second)
	if err != nil {
		stall.Stop()
		return nil, "connect: " + err.Error()
	}
	t0 := time.Now()
	c.raw = conn.(*net.TCPConn)
	c.peer = conn.LocalAddr().String()
	c.pump = x04NewPump(conn)
	defer c.raw.Close()
	if k.Proto == "http" {
		c.readResponses(c.pump, nil)
	}
	yn := func(b bool) string {
		if b {
			return "y"
		}
		return "n"
	}
	evs := []x04RaceEv{{"ev": "conn", "proto": k.Proto, "pxy": yn(k.Pxy), "ropt": k.Ropt, "rt": yn(k.Rt), "head": sc.Head, "fam": sc.Fam, "pay": sc.Pay, "sni": sc.Sni}}
	delay := func() {
		switch rng.Intn(4) {
		case 0:
		case 1, 2: // around the moment the timer fires
			d := w.T + time.Duration(rng.Intn(50)-25)*time.Millisecond - time.Since(t0)
			time.Sleep(d)
		case 3:
			time.Sleep(4*w.T - time.Since(t0))
			evs = append(evs, x04RaceEv{"ev": "waited"})
		}
	}
	total := len(h.Stream)
	cut := rng.Intn(total + 1)
	delay()
	pos := 0
	if cut > 0 {
		evs = append(evs, x04RaceEv{"ev": "send", "n": cut})
		c.send(h.Stream[:cut])
		pos = cut
	}
	if pos < total {
		delay()
		evs = append(evs, x04RaceEv{"ev": "send", "n": total - pos})
		c.send(h.Stream[pos:])
	}
	if k.Proto == "http" {
		// a request whose client goes away is answered 499: let the answers arrive first
		deadline := time.Now().Add(3 * time.Second)
		for time.Now().Before(deadline) && !c.pump.ended() {
			if got := c.waitResps(len(c.sentQ), 20*time.Millisecond); len(got) >= len(c.sentQ) || (len(got) > 0 && got[len(got)-1].status == 400) {
				break
			}
		}
	}
	evs = append(evs, x04RaceEv{"ev": "fin"})
	c.raw.CloseWrite()
	// everything drains: the upstream sees the end of the stream, or fabio closes the connection
	end := x04RaceEv{"ev": "end", "marker": "", "n": 0, "off": -1, "upeof": "n", "resps": []string{}}
	if lane.up != nil {
		c.pump.waitEnd(5 * time.Second)
		var got *x04UpConn
		// fabio closes the upstream's connection before the client's; one that is still in the accept queue of
		// the upstream when the client sees the end needs a moment to show up
		seenEnd := time.Time{}
		lane.up.waitFor(c.from, 3*time.Second, func(cs []*x04UpConn) bool {
			if len(cs) == 0 {
				if !c.pump.ended() {
					return false
				}
				if seenEnd.IsZero() {
					seenEnd = time.Now()
					time.AfterFunc(1010*time.Millisecond, func() { lane.up.mu.Lock(); lane.up.cond.Broadcast(); lane.up.mu.Unlock() })
				}
				return time.Since(seenEnd) > time.Second
			}
			if cs[0].eof {
				cp := *cs[0]
				cp.buf = append([]byte(nil), cs[0].buf...)
				got = &cp
			}
			return cs[0].eof
		})
		if got != nil {
			end["upeof"] = "y"
			buf := got.buf
			if k.Ropt != "bare" {
				line, rest, complete := x04SplitMarker(buf, true)
				if !complete {
					return nil, fmt.Sprintf("upstream holds an incomplete PROXY line %q", buf)
				}
				f := strings.Fields(line)
				end["marker"] = "bad"
				if len(f) == 6 {
					pip, pport := c.effAddr("peer")
					dip, dport := c.effAddr("decl")
					if f[2] == pip && f[4] == pport {
						end["marker"] = "peer"
					} else if f[2] == dip && f[4] == dport {
						end["marker"] = "decl"
					}
				}
				buf = rest
			}
			// the data must be the stream from behind the header, or from the start, up to a token boundary
			end["n"] = -1
			for _, off := range []int{0, len(x04Head(sc))} {
				var acc []byte
				if len(buf) == 0 {
					end["n"], end["off"] = 0, -1
					break
				}
				for i := off; i < total; i++ {
					b, _ := c.tokBytesNoSide(h.Stream[i])
					acc = append(acc, b...)
					if bytes.Equal(acc, buf) {
						end["n"], end["off"] = i+1-off, off
					}
				}
				if end["n"].(int) >= 0 {
					break
				}
			}
		}
	} else {
		c.pump.waitEnd(5 * time.Second)
		got := c.waitResps(99, 100*time.Millisecond)
		var rs []string
		fw := 0
		for i, r := range got {
			if r.status == 400 {
				rs = append(rs, "400")
				continue
			}
			if i >= len(c.sentQ) {
				return nil, "more answers than requests"
			}
			tag := c.sentQ[i]
			kind := map[string]string{"a": "open", "c": "decl", "d": "peer", "p": "pfind"}[tag]
			line, ok := w.log.wait(c.id+tag, 5*time.Second)
			if !ok {
				return nil, "no access log line for " + c.id + tag
			}
			eff := "bad"
			pip, pport := c.effAddr("peer")
			dip, dport := c.effAddr("decl")
			if line[0] == net.JoinHostPort(pip, pport) {
				eff = "peer"
			} else if line[0] == net.JoinHostPort(dip, dport) {
				eff = "decl"
			}
			if r.status == 200 {
				fw++
				f, _ := w.uh.get(c.id + tag)
				ip, _ := c.effAddr(eff)
				if f.XFF != ip {
					eff = "bad"
				}
			}
			rs = append(rs, fmt.Sprintf("%d:%s:%s", r.status, kind, eff))
		}
		if rs == nil {
			rs = []string{}
		}
		end["resps"], end["n"] = rs, fw
	}
	evs = append(evs, end)
	if st := stall.Stop(); st > w.T/4 {
		// a stall may have made "waited" wrong: drop that claim, keep the rest
		var out []x04RaceEv
		for _, e := range evs {
			if e["ev"] != "waited" {
				out = append(out, e)
			}
		}
		evs = out
	}
	return evs, ""
}

func x04Head(s x04Scr) []string {
	pre := []string{"P", "R", "O", "X", "Y", " "}
	chars := func(x string) []string {
		var o []string
		for _, r := range x {
			o = append(o, string(r))
		}
		return o
	}
	body := "TCP4 192.0.2.7 198.51.100.9 4321 443"
	if s.Fam == 6 {
		body = "TCP6 2001:db8::7 2001:db8::9 4321 443"
	}
	switch s.Head {
	case "none":
		return nil
	case "v1":
		return append(append(pre, chars(body)...), "CR", "LF")
	case "lf":
		return append(append(pre, chars(body)...), "LF")
	case "unk":
		return append(append(pre, chars("UNKNOWN")...), "CR", "LF")
	case "v2":
		return []string{"V2a", "V2b", "V2c"}
	}
	return append(pre, "X"+s.Head[1:], "CR", "LF")
}

// x04Stream is Ingress!StreamOf for the listener kinds of the race test.
func x04Stream(c x04Cfg, s x04Scr) []string {
	h := x04Head(s)
	switch c.Proto {
	case "http":
		if s.Pay == "pro" {
			return append(h, "P", "R", "O", "Qp")
		}
		return append(h, "Qa", "Qb", "Qc", "Qd")
	default:
		if s.Pay == "pro" {
			return append(h, "P", "R", "O", "B2")
		}
		return append(h, "B1", "B2")
	}
}

func TestVerifX04Race(t *testing.T) {
	n := verifx.EnvInt("X04_RACES", 150)
	w := x04Start(t, verifx.EnvInt("X04_COPIES", 4))
	defer func() { os.Stdout = w.stdout }()
	out, err := os.Create(os.Getenv("X04_TRACE"))
	if err != nil {
		t.Fatal(err)
	}
	defer out.Close()
	var mu sync.Mutex
	var wg sync.WaitGroup
	sem := make(chan struct{}, 48)
	recorded, skipped := 0, 0
	for i := 0; i < n; i++ {
		sem <- struct{}{}
		wg.Add(1)
		go func(i int) {
			defer wg.Done()
			defer func() { <-sem }()
			rng := mrand.New(mrand.NewSource(verifx.Seed()*100003 + int64(i)))
			evs, why := w.raceOne(rng, i)
			mu.Lock()
			defer mu.Unlock()
			if why != "" {
				skipped++
				verifx.Emit(map[string]any{"kind": "race-skip", "why": why})
				return
			}
			recorded++
			for _, e := range evs {
				b, _ := json.Marshal(e)
				out.Write(append(b, '\n'))
			}
		}(i)
	}
	wg.Wait()
	os.Stdout = w.stdout
	verifx.Summary(map[string]any{"recorded": recorded, "skipped": skipped})
}
