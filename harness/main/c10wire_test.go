package main

// C10, the wiring of the tcp+sni listeners in package main: the Lookup function an SNI listener
// of a real fabio uses (lookupHostFn) and the matcher of the https+tcp+sni listener
// (lookupHostMatcher), in front of the real routing table, tcp.Server and tcp.SNIProxy.
// Every well-formed hello of spec/ClientHello_MC.tla with a server name is (a) looked up and
// matched directly and (b) sent through the proxy over loopback; the specification says by which
// host of the routing table it is routed (exactly its server name, case-insensitively) or that
// there is no route for it.

import (
	"bytes"
	"context"
	"fmt"
	"io"
	"net"
	"sync"
	"testing"
	"time"

	"github.com/fabiolb/fabio/config"
	"github.com/fabiolb/fabio/internal/verifx"
	"github.com/fabiolb/fabio/proxy/tcp"
	"github.com/fabiolb/fabio/route"
	"github.com/go-kit/kit/metrics/discard"
)

type c10wCase struct {
	Tpl    string  `json:"tpl"`
	Bytes  []int   `json:"bytes"`
	WFName []int   `json:"wfname"`
	Route  []int   `json:"route"` // the host of the routing table the hello is routed by; empty: no route
	Table  [][]int `json:"table"`
}

func c10wStr(v []int) string {
	b := make([]byte, len(v))
	for i, x := range v {
		b[i] = byte(x)
	}
	return string(b)
}

type c10wUp struct {
	l    *net.TCPListener
	addr string
	mu   sync.Mutex
	got  [][]byte
}

func (u *c10wUp) serve() {
	for {
		c, err := u.l.Accept()
		if err != nil {
			return
		}
		go func() {
			defer c.Close()
			c.SetDeadline(time.Now().Add(20 * time.Second))
			b, _ := io.ReadAll(c)
			u.mu.Lock()
			u.got = append(u.got, b)
			u.mu.Unlock()
		}()
	}
}

func (u *c10wUp) take() [][]byte {
	u.mu.Lock()
	defer u.mu.Unlock()
	g := u.got
	u.got = nil
	return g
}

func TestVerifC10Wire(t *testing.T) {
	cases, err := verifx.ReadCases[c10wCase]("VERIF_IN")
	if err != nil || len(cases) == 0 {
		t.Fatal("no cases: ", err)
	}
	// the routing table of the specification, every host with its own upstream
	ups := map[string]*c10wUp{}
	var text bytes.Buffer
	for i, h := range cases[0].Table {
		l, addr, err := verifx.ListenFree()
		if err != nil {
			t.Fatal(err)
		}
		defer l.Close()
		u := &c10wUp{l: l, addr: addr}
		go u.serve()
		ups[c10wStr(h)] = u
		fmt.Fprintf(&text, "route add svc%d %s/ tcp://%s\n", i, c10wStr(h), addr)
	}
	tbl, err := route.NewTable(&text)
	if err != nil {
		t.Fatal(err)
	}
	old := route.GetTable()
	route.SetTable(tbl)
	defer route.SetTable(old)

	cfg := &config.Config{}
	cfg.Proxy.Strategy = "rnd"
	lookup := lookupHostFn(cfg, discard.NewCounter())
	matcher := lookupHostMatcher(cfg)
	ln, addr, err := verifx.ListenFree()
	if err != nil {
		t.Fatal(err)
	}
	srv := &tcp.Server{Addr: addr, Handler: &tcp.SNIProxy{Lookup: lookup}}
	go srv.Serve(ln)
	defer srv.Close()

	trailer := []byte("c10 wire: bytes behind the hello\r\n")
	var evals, routed, unrouted int64
	for i := range cases {
		c := &cases[i]
		name, want := c10wStr(c.WFName), c10wStr(c.Route)
		fail := func(clause, format string, a ...any) {
			verifx.Fail(c, map[string]any{"part": "wire", "clause": clause, "tpl": c.Tpl}, format, a...)
		}
		// (a) the functions themselves
		evals += 2
		var tg *route.Target
		var m bool
		if p, stack := verifx.Safely(func() { tg = lookup(name); m = matcher(context.Background(), name) }); p != nil {
			fail("panic", "lookup of server name %q panicked: %v\n%s", name, p, stack)
			continue
		}
		switch {
		case want == "" && tg != nil:
			fail("routed-by-another-name", "server name %q (as crypto/tls reads it) has no route, but the listener's lookup routes it to %s", name, tg.URL.Host)
		case want != "" && (tg == nil || tg.URL.Host != ups[want].addr):
			fail("not-routed-by-its-name", "server name %q must be routed by host %q, the listener's lookup yields %v", name, want, tg)
		case m != (want != ""):
			fail("matcher-differs", "https+tcp+sni matcher says %v for server name %q, the routing table says %v", m, name, want != "")
		}
		// (b) through the proxy
		raw := make([]byte, len(c.Bytes))
		for k, x := range c.Bytes {
			raw[k] = byte(x)
		}
		for _, u := range ups {
			u.take()
		}
		cc, err := net.DialTimeout("tcp", addr, 10*time.Second)
		if err != nil {
			verifx.Emit(map[string]any{"kind": "hang", "msg": "dial proxy: " + err.Error()})
			continue
		}
		cc.SetDeadline(time.Now().Add(10 * time.Second))
		cc.Write(append(append([]byte(nil), raw...), trailer...))
		cc.(*net.TCPConn).CloseWrite()
		_, rerr := io.ReadAll(cc) // ends when the proxy has ended the connection: after the tunnel, or without one
		cc.Close()
		if ne, ok := rerr.(net.Error); ok && ne.Timeout() {
			verifx.Emit(map[string]any{"kind": "hang", "msg": fmt.Sprintf("%s: the connection did not end within 10 s", c.Tpl)})
			continue
		}
		evals++
		exp := append(append([]byte(nil), raw...), trailer...)
		for host, u := range ups {
			got := u.take()
			switch {
			case host != want && len(got) > 0:
				fail("routed-by-another-name", "a hello with server name %q was tunnelled to the upstream of host %q", name, host)
			case host == want && (len(got) != 1 || !bytes.Equal(got[0], exp)):
				fail("not-routed-by-its-name", "a hello with server name %q: the upstream of host %q received %d connection(s) / not the bytes sent", name, host, len(got))
			}
		}
		if want == "" {
			unrouted++
		} else {
			routed++
		}
	}
	verifx.Summary(map[string]any{"cases": len(cases), "evaluations": evals, "routed": routed, "no_route": unrouted})
}
