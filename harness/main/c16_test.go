package main

// C16 conformance: every behaviour TLC generated from spec/GrpcProxy.tla (table changes, calls
// with the order of their message events, clean-up ticks, each with what an observer must
// see) is replayed against a real grpc.Server built from main.newGrpcProxy's options, real
// grpc_testing.TestService backends behind counting listeners, and a real client.
//
// Nothing is decided by sleeping: in "lock" mode every event of the behaviour is a blocking
// operation at the caller or at the backend (a message is received when Recv returns), in
// "free" mode both ends run their script at full speed and only the complete observation is
// compared.  The only wall-clock wait is the clean-up tick (the proxy's own timer), which is
// waited for until the backend sees its connection closed.

import (
	"bytes"
	"context"
	"crypto/ecdsa"
	"crypto/elliptic"
	"crypto/rand"
	"crypto/tls"
	"crypto/x509"
	"crypto/x509/pkix"
	"encoding/json"
	"errors"
	"fmt"
	"io"
	"math/big"
	"net"
	"os"
	"sort"
	"strings"
	"sync"
	"sync/atomic"
	"testing"
	"time"

	"github.com/fabiolb/fabio/config"
	"github.com/fabiolb/fabio/internal/verifx"
	"github.com/fabiolb/fabio/metrics"
	"github.com/fabiolb/fabio/proxy"
	"github.com/fabiolb/fabio/route"

	"google.golang.org/grpc"
	"google.golang.org/grpc/codes"
	"google.golang.org/grpc/credentials"
	"google.golang.org/grpc/credentials/insecure"
	healthpb "google.golang.org/grpc/health/grpc_health_v1"
	tpb "google.golang.org/grpc/interop/grpc_testing"
	"google.golang.org/grpc/metadata"
	"google.golang.org/grpc/status"
	"google.golang.org/protobuf/proto"
)

// ---------------------------------------------------------------- behaviours (GrpcProxy_MC JSON)

type c16Route struct {
	Host string   `json:"host"`
	Path []string `json:"path"`
	Be   string   `json:"be"`
	Scheme string `json:"scheme,omitempty"` // "grpcs": the target URL is grpcs://, the backend speaks TLS (self-signed, tlsskipverify)
	Zero bool     `json:"zero,omitempty"` // in the table with weight 0: its sibling on the same route has all the traffic
}

type c16Call struct {
	Kind  string   `json:"kind"`
	Path  []string `json:"path"`
	Host  string   `json:"host"`
	Md    string   `json:"md"`
	Reqs  []string `json:"reqs"`
	Resps []string `json:"resps"`
	Gate  string   `json:"gate"`
	Early bool     `json:"early"`
	Hdr   string   `json:"hdr"`
	Trl   string   `json:"trl"`
	Code  int      `json:"code"`
	Msg   string   `json:"msg"`
}

type c16Step struct {
	Op     string     `json:"op"`
	Table  []c16Route `json:"table,omitempty"`
	Call   *c16Call   `json:"call,omitempty"`
	Be     string     `json:"be,omitempty"`
	Conn   string     `json:"conn,omitempty"`
	Scheme string     `json:"scheme,omitempty"` // scheme of the target URL of Be
	Bgot   []string   `json:"bgot,omitempty"`
	Beof   bool       `json:"beof,omitempty"`
	Cgot   []string   `json:"cgot,omitempty"`
	Ord    []string   `json:"ord,omitempty"`
	Code   int        `json:"code"`
	Msg    string     `json:"msg,omitempty"`
	Hdr    string     `json:"hdr,omitempty"`
	Trl    string     `json:"trl,omitempty"`
	Closed []string   `json:"closed,omitempty"`
	Pooled []string   `json:"pooled,omitempty"`
	Unav   string     `json:"unav,omitempty"`   // "yes": the backend is down; "may": it is up again but may not be reconnected yet
	N      int        `json:"n,omitempty"`      // burst: overlapping calls
	Served int        `json:"served,omitempty"` // burst: calls that must be served
	Open   int        `json:"open,omitempty"`   // burst: connections open at the backend once it is over

	Tabs [][]c16Route `json:"tabs,omitempty"` // tables installed while the call is in flight ("t" in ord)

	waitDrop func() bool // replay of "d": waits until the closer has closed the backend's old connection
	midTable func(k int) error // replay of "t": installs Tabs[k]
	midTick  func()            // replay of "k": lets a clean-up pass of the proxy (and its grace period) go by
}

type c16Behaviour struct {
	Steps    []c16Step `json:"steps"`
	Mode     string    `json:"mode,omitempty"`     // "shared": one proxy for all, concurrent; else a fresh proxy
	Drive    string    `json:"drive,omitempty"`    // "lock" | "free" (replay of a recorded failure)
	Selftest bool      `json:"selftest,omitempty"` // corrupted on purpose: the harness must reject it
	Idx      int       `json:"idx,omitempty"`
	Repeat   int       `json:"repeat,omitempty"` // play the behaviour this often (races do not happen every time)
	Limits   string    `json:"limits,omitempty"` // "rx>tx": proxy.grpcmaxrxmsgsize 300000, proxy.grpcmaxtxmsgsize 40000
	Flap     bool      `json:"flap,omitempty"`   // the backend re-enters the table while its old connection awaits closing
}

const (
	c16Stall     = 20 * time.Second
	c16TickWait  = 5*time.Second + 12*time.Second // the proxy's clean-up period + closing grace + slack
	c16Recover   = 20 * time.Second               // a recovered backend must be reachable again (gRPC backs off ~1-3 s)
	c16FlapGrace = 3 * time.Second                // grpcshutdowntimeout of flapping behaviours: room to re-enter and call
	c16CleanEvery = 5 * time.Second               // the pool's clean-up period (proxy/grpc_handler.go)
	c16Quiesce   = 5 * time.Second                // connections that lost the race to the pool must be gone
	c16GrpcGrace = 300 * time.Millisecond
)

var c16Stalls, c16BurstLeaks, c16BurstFails int64

// ---------------------------------------------------------------- concretisation of tokens

var c16Sizes = []int{0, 1, 13, 300, 5000, 70000}

func c16Body(seed int64, run string, tok string) []byte {
	h := verifx.Hash([]byte(fmt.Sprintf("%d/%s/%s", seed, run, tok)))
	n := c16Sizes[int(h%uint64(len(c16Sizes)))]
	if verifx.Thorough() && h%97 == 0 {
		n = 1 << 20
	}
	if strings.HasPrefix(run, "L") {
		// behaviours with non-default size limits (rx 300000 > tx 40000): "qB" lies between the two, everything
		// else well below both
		if n > 5000 {
			n = 5000
		}
		if strings.HasPrefix(tok, "qB") {
			n = 120000
		}
	}
	b := make([]byte, n)
	x := h | 1
	for i := range b {
		x ^= x << 13
		x ^= x >> 7
		x ^= x << 17
		b[i] = byte(x)
	}
	return b
}

// c16Msg builds the protobuf message a token stands for, in the type the method uses.
func c16Msg(seed int64, run, kind, tok string, request bool) proto.Message {
	body := c16Body(seed, run, tok)
	h := verifx.Hash(body) ^ verifx.Hash([]byte(tok))
	pl := &tpb.Payload{Type: tpb.PayloadType_COMPRESSABLE, Body: body}
	if len(body) == 0 && h%2 == 0 {
		pl = nil // an entirely empty message (zero bytes on the wire)
	}
	switch kind {
	case "unary":
		if request {
			return &tpb.SimpleRequest{Payload: pl, ResponseSize: int32(h % 1000), FillUsername: h%3 == 0}
		}
		return &tpb.SimpleResponse{Payload: pl, Username: "user-" + tok, OauthScope: fmt.Sprint(h % 7)}
	case "cstream":
		if request {
			return &tpb.StreamingInputCallRequest{Payload: pl}
		}
		return &tpb.StreamingInputCallResponse{AggregatedPayloadSize: int32(h % 100000)}
	case "hcheck", "hwatch":
		if request {
			if tok == "q1" {
				return &healthpb.HealthCheckRequest{} // the server's overall health
			}
			return &healthpb.HealthCheckRequest{Service: "c16." + tok}
		}
		return &healthpb.HealthCheckResponse{Status: healthpb.HealthCheckResponse_ServingStatus(1 + h%3)}
	case "sstream", "bidi":
		if request {
			return &tpb.StreamingOutputCallRequest{Payload: pl, ResponseParameters: []*tpb.ResponseParameters{{Size: int32(h % 50)}}}
		}
		return &tpb.StreamingOutputCallResponse{Payload: pl}
	}
	return &tpb.Empty{}
}

func c16StatusMsg(tok string) string {
	switch tok {
	case "":
		return ""
	case "boom":
		return "boom: internal failure (100%) at step #3"
	case "custom":
		return "custom status ünïcödé & more\twith tab"
	case "nf":
		return "backend says: no such thing"
	case "unavail":
		return "backend is draining, try again"
	case "quota":
		return "quota of 100% used"
	}
	return tok
}

func c16MD(variant string) metadata.MD {
	switch variant {
	case "one":
		return metadata.MD{"x-c16-a": {"v1"}}
	case "multi":
		return metadata.MD{"x-c16-a": {"v1", "v 2 with spaces", "v1"}, "x-c16-b": {"3"}, "authorization": {"Bearer c16"},
			"x-c16-k-bin": {string([]byte{0, 255, 1, 254, '=', 10})}}
	}
	return metadata.MD{}
}

func c16Hdr(variant string) metadata.MD {
	if variant == "set" || variant == "send" {
		return metadata.MD{"x-c16-h": {"h1", "h2"}, "x-c16-hb-bin": {string([]byte{9, 0, 200})}}
	}
	return metadata.MD{}
}

func c16Trl(variant string) metadata.MD {
	if variant == "some" {
		return metadata.MD{"x-c16-t": {"t1", "t2"}, "x-c16-tb-bin": {string([]byte{7, 0, 130})}}
	}
	return metadata.MD{}
}

func c16Has(xs []string, x string) bool {
	for _, y := range xs {
		if y == x {
			return true
		}
	}
	return false
}

func c16Method(path []string) string { return "/" + strings.Join(path, "/") }

// c16DiffMD compares the observer-relevant part of got (keys of want, plus every x-c16-* key).
func c16DiffMD(got, want metadata.MD, ignore ...string) string {
	keys := map[string]bool{}
	for k := range want {
		keys[k] = true
	}
	for k := range got {
		if strings.HasPrefix(k, "x-c16-") {
			keys[k] = true
		}
	}
	for _, k := range ignore {
		delete(keys, k)
	}
	var ks []string
	for k := range keys {
		ks = append(ks, k)
	}
	sort.Strings(ks)
	for _, k := range ks {
		g, w := got[k], want[k]
		if len(g) != len(w) {
			return fmt.Sprintf("key %q: got %q, want %q", k, g, w)
		}
		for i := range g {
			if g[i] != w[i] {
				return fmt.Sprintf("key %q: got %q, want %q", k, g, w)
			}
		}
	}
	return ""
}

// ---------------------------------------------------------------- backends

type c16Env struct {
	seed     int64
	mu       sync.Mutex
	runs     map[string]*c16Run
	backends map[string]*c16Backend
	paddr    string
	served   chan error
	created  time.Time // when the proxy (and with it the pool's clean-up timer) was made
	cc       *grpc.ClientConn
	unknown  int64
	late     int64
	secure   map[string]bool // backends behind a grpcs:// target
}

type c16Backend struct {
	tpb.UnimplementedTestServiceServer
	name    string
	addr    string
	srv     *grpc.Server
	opts    []grpc.ServerOption // transport credentials of a backend behind a grpcs:// target
	env     *c16Env
	accepts int64
	open    int64
	closedN int64
	invoked int64
}

// the health checking protocol, served by the backend like any other service
type c16Health struct{ b *c16Backend }

func (h *c16Health) Check(ctx context.Context, in *healthpb.HealthCheckRequest) (*healthpb.HealthCheckResponse, error) {
	ops := c16CtxOps(ctx)
	got := false
	ops.recv = func() (proto.Message, error) {
		if got {
			return nil, io.EOF
		}
		got = true
		return in, nil
	}
	var resp *healthpb.HealthCheckResponse
	ops.send = func(m proto.Message) error { resp = m.(*healthpb.HealthCheckResponse); return nil }
	if err := h.b.serve("hcheck", ops); err != nil {
		return nil, err
	}
	return resp, nil
}

func (h *c16Health) Watch(in *healthpb.HealthCheckRequest, s healthpb.Health_WatchServer) error {
	ops := c16StreamOps(s)
	got := false
	ops.recv = func() (proto.Message, error) {
		if got {
			return nil, io.EOF
		}
		got = true
		return in, nil
	}
	ops.send = func(m proto.Message) error { return s.Send(m.(*healthpb.HealthCheckResponse)) }
	return h.b.serve("hwatch", ops)
}

// down stops the backend: the listener is closed and every connection to it dies.
func (b *c16Backend) down() { b.srv.Stop() }

// upAgain lets the backend listen on the same address again.
func (b *c16Backend) upAgain() error {
	var ln net.Listener
	var err error
	for i := 0; i < 300; i++ {
		if ln, err = net.Listen("tcp", b.addr); err == nil {
			break
		}
		time.Sleep(10 * time.Millisecond) // the port is ours; the kernel may need a moment to release it
	}
	if err != nil {
		return err
	}
	b.srv = grpc.NewServer(b.opts...)
	tpb.RegisterTestServiceServer(b.srv, b)
	healthpb.RegisterHealthServer(b.srv, &c16Health{b})
	go b.srv.Serve(&c16Listener{Listener: ln, be: b})
	return nil
}

type c16Listener struct {
	net.Listener
	be *c16Backend
}

func (l *c16Listener) Accept() (net.Conn, error) {
	c, err := l.Listener.Accept()
	if err != nil {
		return c, err
	}
	atomic.AddInt64(&l.be.accepts, 1)
	atomic.AddInt64(&l.be.open, 1)
	return &c16Conn{Conn: c, be: l.be}, nil
}

type c16Conn struct {
	net.Conn
	be   *c16Backend
	once sync.Once
}

func (c *c16Conn) gone() {
	c.once.Do(func() { atomic.AddInt64(&c.be.open, -1); atomic.AddInt64(&c.be.closedN, 1) })
}
func (c *c16Conn) Read(p []byte) (int, error) {
	n, err := c.Conn.Read(p)
	if err != nil {
		c.gone()
	}
	return n, err
}
func (c *c16Conn) Close() error { c.gone(); return c.Conn.Close() }

// what the backend saw of one call
type c16Seen struct {
	Be     string
	Method string
	MD     metadata.MD
	Reqs   []proto.Message
	EOF    bool
	Errs   []string
}

type c16Res struct {
	msg proto.Message
	err error
}

type c16Run struct {
	id      string
	call    *c16Call
	drive   string
	entered chan struct{}
	cmd     chan string
	res     chan c16Res
	done    chan struct{} // closed when the backend handler returned
	mu      sync.Mutex
	seen    *c16Seen
	nseen   int
	barrier *c16Barrier // burst: the backend holds the call until all calls of the burst are in flight
}

type c16Barrier struct {
	n, arrived int32
	all        chan struct{}
	patience   time.Duration
}

func c16NewBarrier(n int) *c16Barrier {
	b := &c16Barrier{n: int32(n), all: make(chan struct{}), patience: 2 * time.Second}
	if atomic.LoadInt64(&c16BurstFails) > 3 {
		b.patience = 100 * time.Millisecond // calls are being lost: reported already, do not wait as long again
	}
	return b
}
func (b *c16Barrier) arrive() {
	if atomic.AddInt32(&b.arrived, 1) == b.n {
		close(b.all)
	}
}
func (b *c16Barrier) wait(gone <-chan struct{}) {
	select {
	case <-b.all:
	case <-gone:
	case <-time.After(b.patience): // a call that never arrives must not hold the others for ever
	}
}

func (r *c16Run) snapshot() (c16Seen, int) {
	r.mu.Lock()
	defer r.mu.Unlock()
	if r.seen == nil {
		return c16Seen{}, r.nseen
	}
	s := *r.seen
	s.Reqs = append([]proto.Message(nil), s.Reqs...)
	return s, r.nseen
}

// the four shapes of server handler reduced to one set of operations
type c16BOps struct {
	ctx        context.Context
	recv       func() (proto.Message, error)
	send       func(proto.Message) error
	setHeader  func(metadata.MD) error
	sendHeader func(metadata.MD) error
	setTrailer func(metadata.MD)
}

func (b *c16Backend) serve(kind string, ops *c16BOps) error {
	atomic.AddInt64(&b.invoked, 1)
	md, _ := metadata.FromIncomingContext(ops.ctx)
	method, _ := grpc.Method(ops.ctx)
	var run *c16Run
	b.env.mu.Lock()
	if ids := md["x-c16-id"]; len(ids) == 1 {
		run = b.env.runs[ids[0]]
	}
	if run == nil && len(b.env.runs) == 1 { // sequential replay: there is only one call in flight
		for _, r := range b.env.runs {
			run = r
		}
	}
	b.env.mu.Unlock()
	if run == nil {
		if len(md["x-c16-id"]) == 1 {
			atomic.AddInt64(&b.env.late, 1)
			return status.Error(codes.Unknown, "c16: call reached a backend after its caller had the final status")
		}
		atomic.AddInt64(&b.env.unknown, 1)
		return status.Error(codes.Unknown, "c16: call reached a backend without its identification")
	}
	seen := &c16Seen{Be: b.name, Method: method, MD: md.Copy()}
	run.mu.Lock()
	run.nseen++
	first := run.seen == nil
	if first {
		run.seen = seen
	}
	run.mu.Unlock()
	if !first {
		return status.Error(codes.Unknown, "c16: the same call reached a backend twice")
	}
	defer close(run.done)
	note := func(format string, a ...any) {
		run.mu.Lock()
		seen.Errs = append(seen.Errs, fmt.Sprintf(format, a...))
		run.mu.Unlock()
	}
	c := run.call
	var err error
	switch c.Hdr {
	case "set":
		err = ops.setHeader(c16Hdr(c.Hdr))
	case "send":
		err = ops.sendHeader(c16Hdr(c.Hdr))
	}
	if err != nil {
		note("header: %v", err)
	}
	recv := func() error {
		m, err := ops.recv()
		run.mu.Lock()
		if err == io.EOF {
			seen.EOF = true
		} else if err == nil {
			seen.Reqs = append(seen.Reqs, m)
		}
		run.mu.Unlock()
		return err
	}
	nsent := 0
	send := func() error {
		m := c16Msg(b.env.seed, run.id, kind, c.Resps[nsent], false)
		nsent++
		return ops.send(m)
	}
	finish := func() error {
		ops.setTrailer(c16Trl(c.Trl))
		if c.Code == 0 {
			return nil
		}
		return status.Error(codes.Code(c.Code), c16StatusMsg(c.Msg))
	}
	hasEOF := kind == "cstream" || kind == "bidi"

	if run.drive == "lock" {
		close(run.entered)
		for {
			var cmd string
			select {
			case cmd = <-run.cmd:
			case <-ops.ctx.Done():
				note("call context ended while the backend waited for its next step: %v", ops.ctx.Err())
				return status.Error(codes.Unknown, "c16: aborted")
			case <-time.After(3 * c16Stall):
				return status.Error(codes.Unknown, "c16: abandoned")
			}
			switch cmd {
			case "q", "e":
				run.res <- c16Res{err: recv()}
			case "r":
				if nsent >= len(c.Resps) {
					run.res <- c16Res{err: errors.New("script has no further response")}
					continue
				}
				run.res <- c16Res{err: send()}
			case "f":
				err := finish()
				run.res <- c16Res{}
				return err
			}
		}
	}

	// free: the backend follows its script on its own
	close(run.entered)
	if run.barrier != nil {
		run.barrier.arrive()
		run.barrier.wait(ops.ctx.Done())
	}
	reads := len(c.Reqs)
	if c.Early {
		reads = 0
	}
	nread := 0
	readOne := func() bool {
		if err := recv(); err != nil {
			note("recv %d: %v", nread+1, err)
			return false
		}
		nread++
		return true
	}
	readEOF := func() {
		if hasEOF && !c.Early {
			if err := recv(); err != io.EOF {
				note("expected end of requests, got %v", err)
			}
		}
	}
	sendAll := func() {
		for nsent < len(c.Resps) {
			if err := send(); err != nil {
				note("send %d: %v", nsent, err)
				return
			}
		}
	}
	switch {
	case c.Early || c.Gate == "eager":
		sendAll()
		for nread < reads && readOne() {
		}
		readEOF()
	case c.Gate == "echo":
		for nread < reads && readOne() {
			if nsent < len(c.Resps) {
				if err := send(); err != nil {
					note("send %d: %v", nsent, err)
				}
			}
		}
		readEOF()
		sendAll()
	default: // late
		for nread < reads && readOne() {
		}
		readEOF()
		sendAll()
	}
	return finish()
}

func (b *c16Backend) EmptyCall(ctx context.Context, in *tpb.Empty) (*tpb.Empty, error) {
	return &tpb.Empty{}, nil
}

func c16CtxOps(ctx context.Context) *c16BOps {
	return &c16BOps{ctx: ctx,
		setHeader:  func(md metadata.MD) error { return grpc.SetHeader(ctx, md) },
		sendHeader: func(md metadata.MD) error { return grpc.SendHeader(ctx, md) },
		setTrailer: func(md metadata.MD) { grpc.SetTrailer(ctx, md) }}
}

func c16StreamOps(s grpc.ServerStream) *c16BOps {
	return &c16BOps{ctx: s.Context(), setHeader: s.SetHeader, sendHeader: s.SendHeader, setTrailer: s.SetTrailer}
}

func (b *c16Backend) UnaryCall(ctx context.Context, in *tpb.SimpleRequest) (*tpb.SimpleResponse, error) {
	ops := c16CtxOps(ctx)
	got := false
	ops.recv = func() (proto.Message, error) {
		if got {
			return nil, io.EOF
		}
		got = true
		return in, nil
	}
	var resp *tpb.SimpleResponse
	ops.send = func(m proto.Message) error { resp = m.(*tpb.SimpleResponse); return nil }
	if err := b.serve("unary", ops); err != nil {
		return nil, err
	}
	return resp, nil
}

func (b *c16Backend) StreamingOutputCall(in *tpb.StreamingOutputCallRequest, s grpc.ServerStreamingServer[tpb.StreamingOutputCallResponse]) error {
	ops := c16StreamOps(s)
	got := false
	ops.recv = func() (proto.Message, error) {
		if got {
			return nil, io.EOF
		}
		got = true
		return in, nil
	}
	ops.send = func(m proto.Message) error { return s.Send(m.(*tpb.StreamingOutputCallResponse)) }
	return b.serve("sstream", ops)
}

func (b *c16Backend) StreamingInputCall(s grpc.ClientStreamingServer[tpb.StreamingInputCallRequest, tpb.StreamingInputCallResponse]) error {
	ops := c16StreamOps(s)
	ops.recv = func() (proto.Message, error) { return s.Recv() }
	var resp *tpb.StreamingInputCallResponse
	ops.send = func(m proto.Message) error { resp = m.(*tpb.StreamingInputCallResponse); return nil }
	if err := b.serve("cstream", ops); err != nil {
		return err
	}
	if resp != nil {
		return s.SendAndClose(resp)
	}
	return nil
}

func (b *c16Backend) FullDuplexCall(s grpc.BidiStreamingServer[tpb.StreamingOutputCallRequest, tpb.StreamingOutputCallResponse]) error {
	ops := c16StreamOps(s)
	ops.recv = func() (proto.Message, error) { return s.Recv() }
	ops.send = func(m proto.Message) error { return s.Send(m.(*tpb.StreamingOutputCallResponse)) }
	return b.serve("bidi", ops)
}

// ---------------------------------------------------------------- environment (proxy + backends + client)

func c16Config(grace time.Duration, limits string) (*config.Config, error) {
	args := []string{"fabio", "-proxy.grpcshutdowntimeout", grace.String(), "-registry.backend", "static"}
	if limits == "rx>tx" {
		args = append(args, "-proxy.grpcmaxrxmsgsize", "300000", "-proxy.grpcmaxtxmsgsize", "40000")
	}
	cfg, err := config.Load(args, nil)
	if err != nil {
		return nil, err
	}
	return cfg, nil
}

func c16NewEnv(seed int64, names []string) (*c16Env, error) {
	return c16NewEnvG(seed, names, c16GrpcGrace, "", nil)
}

// c16SelfSigned makes the certificate of a TLS backend (the targets carry tlsskipverify=true).
func c16SelfSigned() (tls.Certificate, error) {
	key, err := ecdsa.GenerateKey(elliptic.P256(), rand.Reader)
	if err != nil {
		return tls.Certificate{}, err
	}
	tmpl := &x509.Certificate{
		SerialNumber: big.NewInt(1),
		Subject:      pkix.Name{CommonName: "c16"},
		NotBefore:    time.Now().Add(-time.Hour),
		NotAfter:     time.Now().Add(24 * time.Hour),
		KeyUsage:     x509.KeyUsageDigitalSignature,
		ExtKeyUsage:  []x509.ExtKeyUsage{x509.ExtKeyUsageServerAuth},
		IPAddresses:  []net.IP{net.ParseIP("127.0.0.1")},
	}
	der, err := x509.CreateCertificate(rand.Reader, tmpl, tmpl, &key.PublicKey, key)
	if err != nil {
		return tls.Certificate{}, err
	}
	return tls.Certificate{Certificate: [][]byte{der}, PrivateKey: key}, nil
}

// secure: the backends that are reached through a grpcs:// target URL (they speak TLS only)
func c16NewEnvG(seed int64, names []string, grace time.Duration, limits string, secure map[string]bool) (*c16Env, error) {
	env := &c16Env{seed: seed, runs: map[string]*c16Run{}, backends: map[string]*c16Backend{}, secure: secure}
	for _, n := range names {
		var sopts []grpc.ServerOption
		if secure[n] {
			cert, err := c16SelfSigned()
			if err != nil {
				env.close()
				return nil, err
			}
			sopts = append(sopts, grpc.Creds(credentials.NewTLS(&tls.Config{Certificates: []tls.Certificate{cert}})))
		}
		ln, err := net.Listen("tcp", "127.0.0.1:0")
		if err != nil {
			env.close()
			return nil, err
		}
		b := &c16Backend{name: n, addr: ln.Addr().String(), env: env, srv: grpc.NewServer(sopts...), opts: sopts}
		tpb.RegisterTestServiceServer(b.srv, b)
		healthpb.RegisterHealthServer(b.srv, &c16Health{b})
		env.backends[n] = b
		go b.srv.Serve(&c16Listener{Listener: ln, be: b})
	}
	cfg, err := c16Config(grace, limits)
	if err != nil {
		env.close()
		return nil, err
	}
	mp := metrics.DiscardProvider{}
	sh := &proxy.GrpcStatsHandler{Connect: mp.NewCounter("c"), Request: mp.NewHistogram("r"), NoRoute: mp.NewCounter("n"), Status: mp.NewHistogram("s", "code")}
	// the listener is started the way main starts it: through proxy.ListenAndServeGRPC with newGrpcProxy's
	// options (the registry of servers is keyed by the configured address: an explicit free port)
	env.created = time.Now()
	// main hands newGrpcProxy the TLS configuration of the listener; fabio dials a grpcs:// target with TLS only
	// if there is one.  The listener itself stays plaintext here.
	var upstream *tls.Config
	if len(secure) > 0 {
		upstream = &tls.Config{}
	}
	opts := newGrpcProxy(cfg, upstream, sh)
	for try := 0; try < 5 && env.paddr == ""; try++ {
		pl, err := net.Listen("tcp", "127.0.0.1:0")
		if err != nil {
			env.close()
			return nil, err
		}
		addr := pl.Addr().String()
		pl.Close()
		served := make(chan error, 1)
		go func() { served <- proxy.ListenAndServeGRPC(config.Listen{Addr: addr, Proto: "grpc"}, opts, nil) }()
		for i := 0; i < 5000 && env.paddr == ""; i++ {
			select {
			case <-served: // the port was taken in the meantime
				i = 5000
				continue
			default:
			}
			// ready = it is fabio that answers there (on a busy machine somebody else may have taken the port)
			if c, err := net.DialTimeout("tcp", addr, 100*time.Millisecond); err == nil {
				c.Close()
				cc, err := grpc.NewClient("passthrough:///"+addr, grpc.WithTransportCredentials(insecure.NewCredentials()))
				if err == nil {
					ctx, cancel := context.WithTimeout(context.Background(), 2*time.Second)
					err = cc.Invoke(ctx, "/c16.ready/Probe", &tpb.Empty{}, &tpb.Empty{})
					cancel()
					cc.Close()
					if status.Code(err) == codes.NotFound {
						env.paddr, env.served = addr, served
					}
				}
			}
			if env.paddr == "" {
				time.Sleep(time.Millisecond)
			}
		}
	}
	if env.paddr == "" {
		env.close()
		return nil, fmt.Errorf("the grpc listener did not come up")
	}
	env.cc, err = grpc.NewClient("passthrough:///"+env.paddr, grpc.WithTransportCredentials(insecure.NewCredentials()),
		grpc.WithDefaultCallOptions(grpc.MaxCallRecvMsgSize(8<<20)))
	if err != nil {
		env.close()
		return nil, err
	}
	return env, nil
}

func (e *c16Env) close() {
	if e.cc != nil {
		e.cc.Close()
	}
	if e.paddr != "" {
		proxy.CloseProxy(e.paddr)
		select {
		case <-e.served:
		case <-time.After(5 * time.Second):
		}
	}
	for _, b := range e.backends {
		b.srv.Stop()
	}
}

// watch observes for d that no backend (except those in skip) has more than max open connections;
// it returns the first offender.  Waiting longer can only find more, never less: the bound is a
// safety property.
func (e *c16Env) watch(d time.Duration, skip map[string]bool, max int64) (string, int64) {
	deadline := time.Now().Add(d)
	for {
		for n, be := range e.backends {
			if o := atomic.LoadInt64(&be.open); !skip[n] && o > max {
				return n, o
			}
		}
		if time.Now().After(deadline) {
			return "", 0
		}
		time.Sleep(20 * time.Millisecond)
	}
}

func (e *c16Env) setTable(rs []c16Route) error {
	var b bytes.Buffer
	for _, r := range rs {
		be := e.backends[r.Be]
		if be == nil {
			return fmt.Errorf("unknown backend %q", r.Be)
		}
		p := c16Method(r.Path)
		if len(r.Path) == 1 {
			p += "/"
		}
		w := ""
		if !r.Zero {
			for _, o := range rs {
				if o.Zero && o.Host == r.Host && c16Method(o.Path) == c16Method(r.Path) {
					w = " weight 1.0" // the sibling without a weight is left with 0
				}
			}
		}
		if (r.Scheme == "grpcs") != e.secure[r.Be] {
			return fmt.Errorf("backend %q: target scheme %q does not match how the backend was started", r.Be, r.Scheme)
		}
		if r.Scheme == "grpcs" {
			fmt.Fprintf(&b, "route add svc-%s %s%s grpcs://%s%s opts \"proto=grpcs tlsskipverify=true\"\n", r.Be, r.Host, p, be.addr, w)
			continue
		}
		fmt.Fprintf(&b, "route add svc-%s %s%s grpc://%s%s opts \"proto=grpc\"\n", r.Be, r.Host, p, be.addr, w)
	}
	t, err := route.NewTable(&b)
	if err != nil {
		return err
	}
	route.SetTable(t)
	return nil
}

// ---------------------------------------------------------------- the caller

type c16Client struct {
	open      func() error
	send      func(i int) error
	closeSend func() error
	recv      func() (proto.Message, error)
	header    func() metadata.MD
	trailer   func() metadata.MD
}

type c16Obs struct {
	Resps   []proto.Message
	Err     error // final error of the call (nil = OK)
	Header  metadata.MD
	Trailer metadata.MD
	Notes   []string
}

func (e *c16Env) client(ctx context.Context, run *c16Run) *c16Client {
	c := run.call
	kind := c.Kind
	req := func(i int) proto.Message { return c16Msg(e.seed, run.id, kind, c.Reqs[i], true) }
	cl := tpb.NewTestServiceClient(e.cc)
	switch kind {
	case "unary", "noroute", "hcheck":
		var hdr, trl metadata.MD
		type result struct {
			m   proto.Message
			err error
		}
		ch := make(chan result, 1)
		delivered := false
		var final error
		return &c16Client{
			open: func() error { return nil },
			send: func(i int) error {
				go func() {
					if kind == "noroute" {
						m, err := tpb.NewUnimplementedServiceClient(e.cc).UnimplementedCall(ctx, &tpb.Empty{}, grpc.Header(&hdr), grpc.Trailer(&trl))
						ch <- result{m, err}
						return
					}
					if kind == "hcheck" {
						m, err := healthpb.NewHealthClient(e.cc).Check(ctx, req(i).(*healthpb.HealthCheckRequest), grpc.Header(&hdr), grpc.Trailer(&trl))
						ch <- result{m, err}
						return
					}
					m, err := cl.UnaryCall(ctx, req(i).(*tpb.SimpleRequest), grpc.Header(&hdr), grpc.Trailer(&trl))
					ch <- result{m, err}
				}()
				return nil
			},
			closeSend: func() error { return nil },
			recv: func() (proto.Message, error) {
				if delivered {
					if final != nil {
						return nil, final
					}
					return nil, io.EOF
				}
				r := <-ch
				delivered = true
				if r.err != nil {
					final = r.err
					return nil, r.err
				}
				return r.m, nil
			},
			header:  func() metadata.MD { return hdr },
			trailer: func() metadata.MD { return trl },
		}
	case "hwatch":
		var s healthpb.Health_WatchClient
		var openErr error
		return &c16Client{
			open: func() error { return nil },
			send: func(i int) error {
				s, openErr = healthpb.NewHealthClient(e.cc).Watch(ctx, req(i).(*healthpb.HealthCheckRequest))
				return nil
			},
			closeSend: func() error { return nil },
			recv: func() (proto.Message, error) {
				if openErr != nil {
					return nil, openErr
				}
				return s.Recv()
			},
			header: func() metadata.MD {
				if s == nil {
					return nil
				}
				h, _ := s.Header()
				return h
			},
			trailer: func() metadata.MD {
				if s == nil {
					return nil
				}
				return s.Trailer()
			},
		}
	case "sstream":
		var s grpc.ServerStreamingClient[tpb.StreamingOutputCallResponse]
		var openErr error
		return &c16Client{
			open: func() error { return nil },
			send: func(i int) error {
				s, openErr = cl.StreamingOutputCall(ctx, req(i).(*tpb.StreamingOutputCallRequest))
				return nil
			},
			closeSend: func() error { return nil },
			recv: func() (proto.Message, error) {
				if openErr != nil {
					return nil, openErr
				}
				return s.Recv()
			},
			header: func() metadata.MD {
				if s == nil {
					return nil
				}
				h, _ := s.Header()
				return h
			},
			trailer: func() metadata.MD {
				if s == nil {
					return nil
				}
				return s.Trailer()
			},
		}
	case "cstream":
		var s grpc.ClientStreamingClient[tpb.StreamingInputCallRequest, tpb.StreamingInputCallResponse]
		delivered := false
		var final error
		return &c16Client{
			open:      func() (err error) { s, err = cl.StreamingInputCall(ctx); return err },
			send:      func(i int) error { return s.Send(req(i).(*tpb.StreamingInputCallRequest)) },
			closeSend: func() error { return s.CloseSend() },
			recv: func() (proto.Message, error) {
				if delivered {
					if final != nil {
						return nil, final
					}
					return nil, io.EOF
				}
				delivered = true
				m, err := s.CloseAndRecv()
				if err != nil {
					final = err
					return nil, err
				}
				return m, nil
			},
			header:  func() metadata.MD { h, _ := s.Header(); return h },
			trailer: func() metadata.MD { return s.Trailer() },
		}
	default: // bidi
		var s grpc.BidiStreamingClient[tpb.StreamingOutputCallRequest, tpb.StreamingOutputCallResponse]
		return &c16Client{
			open:      func() (err error) { s, err = cl.FullDuplexCall(ctx); return err },
			send:      func(i int) error { return s.Send(req(i).(*tpb.StreamingOutputCallRequest)) },
			closeSend: func() error { return s.CloseSend() },
			recv:      func() (proto.Message, error) { return s.Recv() },
			header:    func() metadata.MD { h, _ := s.Header(); return h },
			trailer:   func() metadata.MD { return s.Trailer() },
		}
	}
}

type c16Stalled struct{ what string }

func (s c16Stalled) Error() string { return "no progress within " + c16Stall.String() + ": " + s.what }

// within runs fn and gives up (without waiting for it) after the stall limit.
func c16Within(what string, fn func()) error {
	done := make(chan struct{})
	go func() { defer close(done); fn() }()
	select {
	case <-done:
		return nil
	case <-time.After(c16Stall):
		atomic.AddInt64(&c16Stalls, 1)
		return c16Stalled{what}
	}
}

// runCall performs one call through the proxy and returns what the caller and the backend saw.
func (e *c16Env) runCall(st *c16Step, id, drive string) (c16Obs, c16Seen, int, error) {
	return e.runCallB(st, id, drive, nil)
}

func (e *c16Env) runCallB(st *c16Step, id, drive string, barrier *c16Barrier) (obs c16Obs, seen c16Seen, nseen int, stall error) {
	c := st.Call
	if st.Be == "" {
		drive = "free" // nothing to step through: the proxy answers by itself
	}
	run := &c16Run{id: id, call: c, drive: drive, entered: make(chan struct{}), cmd: make(chan string), res: make(chan c16Res, 1), done: make(chan struct{}), barrier: barrier}
	e.mu.Lock()
	e.runs[id] = run
	e.mu.Unlock()
	defer func() {
		e.mu.Lock()
		delete(e.runs, id)
		e.mu.Unlock()
	}()
	md := c16MD(c.Md)
	md.Set("x-c16-id", id)
	if c.Host != "" {
		md.Set("dsthost", c.Host)
	}
	ctx, cancel := context.WithCancel(metadata.NewOutgoingContext(context.Background(), md))
	defer cancel()
	cl := e.client(ctx, run)
	note := func(format string, a ...any) { obs.Notes = append(obs.Notes, fmt.Sprintf(format, a...)) }

	body := func() {
		if err := cl.open(); err != nil {
			obs.Err = err
			return
		}
		sendAll := func() {
			for i := range c.Reqs {
				if err := cl.send(i); err != nil {
					if err != io.EOF {
						note("send %d: %v", i+1, err)
					}
					break
				}
			}
			if err := cl.closeSend(); err != nil {
				note("close send: %v", err)
			}
		}
		drain := func() {
			for {
				m, err := cl.recv()
				if err != nil {
					if err != io.EOF {
						obs.Err = err
					}
					return
				}
				obs.Resps = append(obs.Resps, m)
				if len(obs.Resps) > len(c.Resps)+4 {
					note("more responses than could ever be due")
					return
				}
			}
		}
		if drive == "free" {
			if c.Kind != "bidi" {
				// unary / server-streaming stubs send the single request when the call is made; a
				// client-streaming caller can only receive after it has finished sending
				sendAll()
				drain()
				return
			}
			sent := make(chan struct{})
			go func() { defer close(sent); sendAll() }()
			drain()
			<-sent
			return
		}
		// lock step: one blocking operation per event of the behaviour
		step := func(cmd string) (c16Res, bool) {
			select {
			case <-run.entered:
			case <-run.done:
			}
			select {
			case run.cmd <- cmd:
				return <-run.res, true
			case <-run.done:
				return c16Res{}, false
			}
		}
		nq, nt := 0, 0
		if c.Early {
			sendAll()
		}
		for _, ev := range st.Ord {
			switch ev {
			case "q":
				if err := cl.send(nq); err != nil {
					note("send %d: %v", nq+1, err)
				}
				nq++
				if r, ok := step("q"); !ok {
					note("backend handler ended before it could receive request %d", nq)
				} else if r.err != nil {
					note("backend receive %d: %v", nq, r.err)
				}
			case "e":
				if err := cl.closeSend(); err != nil {
					note("close send: %v", err)
				}
				if r, ok := step("e"); !ok {
					note("backend handler ended before the end of requests")
				} else if r.err != io.EOF {
					note("backend expected the end of requests, got %v", r.err)
				}
			case "r":
				if r, ok := step("r"); !ok {
					note("backend handler ended before it could send")
				} else if r.err != nil {
					note("backend send: %v", r.err)
				}
				if c.Kind == "sstream" || c.Kind == "bidi" || c.Kind == "hwatch" {
					m, err := cl.recv()
					if err != nil {
						note("caller receive: %v", err)
						if err != io.EOF {
							obs.Err = err
						}
						return
					}
					obs.Resps = append(obs.Resps, m)
				}
			case "t":
				// the spec's SetTableMid / CleanupTickMid happen to a call that is on its connection: the backend's
				// handler has been entered (else the table change could overtake the routing of this very call)
				select {
				case <-run.entered:
				case <-run.done:
				}
				if st.midTable != nil {
					if err := st.midTable(nt); err != nil {
						note("table change during the call: %v", err)
					}
					nt++
				}
			case "k":
				select {
				case <-run.entered:
				case <-run.done:
				}
				if st.midTick != nil {
					st.midTick()
				}
			case "d":
				// the connection this backend had before it left the table is closed now -- the call runs
				// on, it is on another connection
				if st.waitDrop != nil && !st.waitDrop() {
					note("c16-degenerate: the old connection of %s was not seen closing", st.Be)
				}
			case "f":
				if !c.Early && (c.Kind == "unary" || c.Kind == "sstream") {
					// the request stream of these kinds is closed by the stub itself
				}
				if _, ok := step("f"); !ok {
					note("backend handler ended before its script said so")
				}
				drain()
			}
		}
	}
	stall = c16Within(fmt.Sprintf("call %s (%s, %s)", id, c.Kind, drive), body)
	if stall == nil {
		if _, reached := run.snapshot(); st.Be != "" && reached > 0 {
			// the backend handler has returned before the caller saw the status; wait for its record
			select {
			case <-run.done:
			case <-time.After(c16Stall):
			}
		}
		obs.Header = cl.header()
		obs.Trailer = cl.trailer()
	}
	cancel()
	seen, nseen = run.snapshot()
	return
}

// ---------------------------------------------------------------- comparison with the specification

type c16Diff struct{ clause, msg string }

func c16EqMsgs(got []proto.Message, want []proto.Message) string {
	if len(got) != len(want) {
		return fmt.Sprintf("%d messages, want %d", len(got), len(want))
	}
	for i := range got {
		if !proto.Equal(got[i], want[i]) {
			return fmt.Sprintf("message %d differs (got %d bytes, want %d bytes)", i+1, proto.Size(got[i]), proto.Size(want[i]))
		}
	}
	return ""
}

func (e *c16Env) checkCall(st *c16Step, id string, obs c16Obs, seen c16Seen, nseen int) []c16Diff {
	var ds []c16Diff
	add := func(clause, format string, a ...any) { ds = append(ds, c16Diff{clause, fmt.Sprintf(format, a...)}) }
	c := st.Call
	code := status.Code(obs.Err)
	smsg := status.Convert(obs.Err).Message()
	if obs.Err == nil {
		smsg = ""
	}
	if st.Be == "" {
		if nseen != 0 {
			add("notfound-contact", "no route matches, yet backend %s was called (%s)", seen.Be, seen.Method)
		}
		if code != codes.NotFound {
			add("notfound-status", "no route matches: status %v %q, want NotFound", code, smsg)
		}
		return ds
	}
	if nseen == 0 {
		add("route", "call never reached a backend (want %s); caller status %v %q", st.Be, code, smsg)
		return ds
	}
	if nseen > 1 {
		add("exactly-once", "call reached a backend %d times", nseen)
	}
	if seen.Be != st.Be {
		add("route", "call served by backend %s, want %s", seen.Be, st.Be)
	}
	if seen.Method != c16Method(c.Path) {
		add("method", "backend saw method %q, want %q", seen.Method, c16Method(c.Path))
	}
	want := c16MD(c.Md)
	want.Set("x-c16-id", id)
	if c.Host != "" {
		want.Set("dsthost", c.Host) // the routing hint is the caller's metadata like any other
	}
	if d := c16DiffMD(seen.MD, want); d != "" {
		add("metadata", "custom metadata at the backend: %s", d)
	}
	var wreq, wresp []proto.Message
	for _, t := range st.Bgot {
		wreq = append(wreq, c16Msg(e.seed, id, c.Kind, t, true))
	}
	for _, t := range st.Cgot {
		wresp = append(wresp, c16Msg(e.seed, id, c.Kind, t, false))
	}
	if d := c16EqMsgs(seen.Reqs, wreq); d != "" {
		add("req-messages", "requests at the backend: %s", d)
	}
	if st.Beof != seen.EOF && (c.Kind == "cstream" || c.Kind == "bidi") {
		add("req-eof", "backend saw end of requests = %v, want %v", seen.EOF, st.Beof)
	}
	if d := c16EqMsgs(obs.Resps, wresp); d != "" {
		add("resp-messages", "responses at the caller: %s", d)
	}
	if int(code) != st.Code {
		add("status-code", "caller status %v (%d) %q, want code %d", code, int(code), smsg, st.Code)
	} else if st.Msg != "*" && smsg != c16StatusMsg(st.Msg) {
		add("status-message", "caller status message %q, want %q", smsg, c16StatusMsg(st.Msg))
	}
	if st.Hdr != "any" {
		if d := c16DiffMD(obs.Header, c16Hdr(st.Hdr)); d != "" {
			add("headers", "headers at the caller: %s", d)
		}
	}
	if d := c16DiffMD(obs.Trailer, c16Trl(st.Trl)); d != "" {
		add("trailers", "trailers at the caller: %s", d)
	}
	for _, n := range seen.Errs {
		add("backend-io", "backend: %s", n)
	}
	for _, n := range obs.Notes {
		if strings.HasPrefix(n, "c16-degenerate") {
			continue
		}
		add("caller-io", "caller: %s", n)
	}
	return ds
}

func c16Features(st *c16Step, clause, drive, mode string) map[string]any {
	f := map[string]any{"clause": clause, "drive": drive, "mode": mode}
	if st != nil && st.Call != nil {
		f["kind"] = st.Call.Kind
		f["code"] = st.Call.Code
	}
	return f
}

// ---------------------------------------------------------------- replay of one behaviour on a fresh proxy

type c16Stats struct {
	calls, ticks, msgs, bursts, outages, flaps, degenerate int64
}

// c16Secure returns the backends of the behaviour whose target URL is grpcs://.
func c16Secure(b *c16Behaviour) map[string]bool {
	m := map[string]bool{}
	for _, s := range b.Steps {
		for _, r := range s.Table {
			if r.Scheme == "grpcs" {
				m[r.Be] = true
			}
		}
		for _, t := range s.Tabs {
			for _, r := range t {
				if r.Scheme == "grpcs" {
					m[r.Be] = true
				}
			}
		}
	}
	if len(m) == 0 {
		return nil
	}
	return m
}

func c16Backends(b *c16Behaviour) []string {
	set := map[string]bool{"b1": true, "b2": true}
	for _, s := range b.Steps {
		for _, r := range s.Table {
			set[r.Be] = true
		}
		for _, t := range s.Tabs {
			for _, r := range t {
				set[r.Be] = true
			}
		}
	}
	var ns []string
	for n := range set {
		ns = append(ns, n)
	}
	sort.Strings(ns)
	return ns
}

// replaySeq returns the failures of the behaviour as (step index, diff).
func c16ReplaySeq(b *c16Behaviour, seed int64, drive string, stats *c16Stats) (fails []c16Diff, failStep []*c16Step, err error) {
	grace := c16GrpcGrace
	if b.Flap {
		grace = c16FlapGrace
	}
	env, err := c16NewEnvG(seed, c16Backends(b), grace, b.Limits, c16Secure(b))
	idp := "s"
	if b.Limits != "" {
		idp = "L"
	}
	if err != nil {
		return nil, nil, err
	}
	defer env.close()
	flapClosed := map[string]int64{}
	tchange := time.Now()
	fail := func(st *c16Step, clause, format string, a ...any) {
		fails = append(fails, c16Diff{clause, fmt.Sprintf(format, a...)})
		failStep = append(failStep, st)
	}
	// backends that were missing from a table after they had been called: the proxy's own timer
	// may have dropped their connection at any moment since, so their counts are not exact
	leftOnce := map[string]bool{}
	shaky := map[string]bool{} // backends that had an outage
	raced := map[string]bool{} // backends whose connection was made by a burst
	settle := 2500 * time.Millisecond
	if verifx.Thorough() {
		settle = 4 * time.Second
	}
	for i := range b.Steps {
		st := &b.Steps[i]
		if os.Getenv("C16_DEBUG") != "" && i > 0 {
			for n, be := range env.backends {
				verifx.Emit(map[string]any{"kind": "debug", "before_step": i, "op": st.Op, "backend": n, "open": atomic.LoadInt64(&be.open), "accepted": atomic.LoadInt64(&be.accepts)})
			}
		}
		switch st.Op {
		case "set":
			if err := env.setTable(st.Table); err != nil {
				return nil, nil, err
			}
			in := map[string]bool{}
			for _, r := range st.Table {
				in[r.Be] = true
			}
			for n, be := range env.backends {
				if !in[n] && atomic.LoadInt64(&be.accepts) > 0 {
					leftOnce[n] = true
				}
			}
		case "down":
			env.backends[st.Be].down()
			shaky[st.Be] = true
			stats.outages++
		case "up":
			if uerr := env.backends[st.Be].upAgain(); uerr != nil {
				// somebody else took the port while the backend was down: nothing more to learn here
				verifx.Emit(map[string]any{"kind": "skipped", "why": fmt.Sprintf("backend %s cannot listen on its address again: %v", st.Be, uerr)})
				stats.degenerate++
				return
			}
		case "burst":
			// n overlapping first calls for a backend the proxy has no connection to yet
			atomic.AddInt64(&stats.bursts, 1)
			bar := c16NewBarrier(st.N)
			type result struct {
				obs   c16Obs
				seen  c16Seen
				nseen int
				stall error
				id    string
			}
			results := make([]result, st.N)
			gate := make(chan struct{})
			var wg sync.WaitGroup
			cs := *st
			cs.Op, cs.Bgot, cs.Cgot, cs.Code, cs.Msg, cs.Trl = "call", st.Call.Reqs, st.Call.Resps, st.Call.Code, st.Call.Msg, st.Call.Trl
			cs.Hdr = st.Call.Hdr
			if len(st.Call.Resps) == 0 {
				cs.Hdr = "any"
			}
			cs.Beof = st.Call.Kind == "bidi" || st.Call.Kind == "cstream"
			for k := 0; k < st.N; k++ {
				wg.Add(1)
				go func(k int) {
					defer wg.Done()
					r := &results[k]
					r.id = fmt.Sprintf("u%d-%d-%d-%d", b.Idx, i, k, seed)
					<-gate
					r.obs, r.seen, r.nseen, r.stall = env.runCallB(&cs, r.id, "free", bar)
				}(k)
			}
			close(gate)
			wg.Wait()
			atomic.AddInt64(&stats.calls, int64(st.N))
			for k := range results {
				r := &results[k]
				if r.stall != nil {
					fail(st, "stall", "step %d, call %d of the burst: %v", i, k+1, r.stall)
					continue
				}
				for _, d := range env.checkCall(&cs, r.id, r.obs, r.seen, r.nseen) {
					atomic.AddInt64(&c16BurstFails, 1)
					fail(st, "burst-"+d.clause, "step %d, call %d of %d overlapping first calls to %s: %s", i, k+1, st.N, st.Be, d.msg)
				}
			}
			// quiescence: connections that lost the race to the pool must be gone, one stays
			quiesce := c16Quiesce
			if atomic.LoadInt64(&c16BurstLeaks) > 0 {
				quiesce = 300 * time.Millisecond // already reported once: no need to wait as long again
			}
			deadline := time.Now().Add(quiesce)
			be := env.backends[st.Be]
			for atomic.LoadInt64(&be.open) != 1 && time.Now().Before(deadline) {
				time.Sleep(10 * time.Millisecond)
			}
			if o := atomic.LoadInt64(&be.open); o != 1 {
				atomic.AddInt64(&c16BurstLeaks, 1)
				fail(st, "burst-conn-count", "step %d: %v after %d overlapping first calls backend %s has %d open connections (%d accepted), want 1",
					i, quiesce, st.N, st.Be, o, atomic.LoadInt64(&be.accepts))
			}
			raced[st.Be] = true
		case "call":
			acc0 := map[string]int64{}
			inv0 := map[string]int64{}
			for n, be := range env.backends {
				acc0[n] = atomic.LoadInt64(&be.accepts)
				inv0[n] = atomic.LoadInt64(&be.invoked)
			}
			id := fmt.Sprintf("%s%d-%d-%d", idp, b.Idx, i, seed)
			if c0, flapped := flapClosed[st.Be]; flapped {
				be := env.backends[st.Be]
				st.waitDrop = func() bool {
					deadline := time.Now().Add(10 * time.Second)
					for atomic.LoadInt64(&be.closedN) <= c0 && time.Now().Before(deadline) {
						time.Sleep(10 * time.Millisecond)
					}
					return atomic.LoadInt64(&be.closedN) > c0
				}
				defer func(st *c16Step) { st.waitDrop = nil }(st)
			}
			if len(st.Tabs) > 0 || c16Has(st.Ord, "k") {
				st.midTable = func(k int) error {
					if k >= len(st.Tabs) {
						return fmt.Errorf("no table %d", k)
					}
					tchange = time.Now()
					return env.setTable(st.Tabs[k])
				}
				st.midTick = func() {
					// the next clean-up pass after the last table change, its grace period, and a margin
					next := env.created
					for !next.After(tchange) {
						next = next.Add(c16CleanEvery)
					}
					time.Sleep(time.Until(next.Add(time.Second + grace + 500*time.Millisecond)))
					atomic.AddInt64(&stats.ticks, 1)
				}
				defer func(st *c16Step) { st.midTable, st.midTick = nil, nil }(st)
			}
			var obs c16Obs
			var seen c16Seen
			var nseen int
			var stall error
			switch {
			case st.Unav != "":
				// The backend is down (or may still be unreachable): the statement does not say how such a
				// call ends.  It must not reach anybody else.
				obs, seen, nseen, stall = env.runCall(st, id, "free")
				if stall == nil && nseen > 0 && seen.Be != st.Be {
					fail(st, "route", "step %d: call for the unreachable backend %s was served by %s", i, st.Be, seen.Be)
				}
			case st.Conn == "reconnect":
				// the backend listens again: gRPC re-establishes the pooled connection after its back-off
				deadline := time.Now().Add(c16Recover)
				for try := 0; ; try++ {
					id = fmt.Sprintf("s%d-%d-%d-t%d", b.Idx, i, seed, try)
					obs, seen, nseen, stall = env.runCall(st, id, "free") // the call may not get through yet: nothing to step
					if stall != nil || nseen > 0 || status.Code(obs.Err) != codes.Unavailable || time.Now().After(deadline) {
						break
					}
					atomic.AddInt64(&stats.calls, 1)
					time.Sleep(100 * time.Millisecond)
				}
				if stall == nil && nseen == 0 {
					fail(st, "recovery", "step %d: backend %s has been listening again for %v and is in the table, calls still fail: %v", i, st.Be, c16Recover, obs.Err)
					return
				}
			default:
				obs, seen, nseen, stall = env.runCall(st, id, drive)
			}
			atomic.AddInt64(&stats.calls, 1)
			atomic.AddInt64(&stats.msgs, int64(len(seen.Reqs)+len(obs.Resps)))
			for _, n := range obs.Notes {
				if strings.HasPrefix(n, "c16-degenerate") {
					stats.degenerate++
				}
			}
			if stall != nil {
				fail(st, "stall", "step %d: %v", i, stall)
				return
			}
			if st.Unav == "" {
				for _, d := range env.checkCall(st, id, obs, seen, nseen) {
					fail(st, d.clause, "step %d: %s", i, d.msg)
				}
			}
			for n, be := range env.backends {
				d := atomic.LoadInt64(&be.accepts) - acc0[n]
				inv := atomic.LoadInt64(&be.invoked) - inv0[n]
				o := atomic.LoadInt64(&be.open)
				if shaky[n] || raced[n] {
					// after an outage gRPC reconnects on a timer of its own: connections are counted, not dials
					if n != st.Be && inv != 0 {
						fail(st, "conn-other", "step %d: call for %s, yet backend %s saw %d call(s)", i, st.Be, n, inv)
					}
					if !leftOnce[n] && o > 1 {
						fail(st, "conn-count", "step %d: backend %s in the table has %d open connections, want at most 1", i, n, o)
					}
					if n == st.Be && st.Unav == "" && !leftOnce[n] && o != 1 {
						fail(st, "conn-count", "step %d: backend %s in the table has %d open connections after a call, want 1", i, n, o)
					}
					continue
				}
				switch {
				case st.Be == "":
					if d != 0 || inv != 0 {
						fail(st, "notfound-contact", "step %d: no route matches, yet backend %s saw %d new connection(s), %d call(s)", i, n, d, inv)
					}
				case n != st.Be:
					if d != 0 || inv != 0 {
						fail(st, "conn-other", "step %d: call for %s, yet backend %s saw %d new connection(s), %d call(s)", i, st.Be, n, d, inv)
					}
				case st.Conn == "dial" && d != 1:
					fail(st, "conn-dial", "step %d: first call to %s since it has no pooled connection: %d new connections, want 1", i, n, d)
				case st.Conn == "reuse" && d != 0:
					fail(st, "conn-reuse", "step %d: backend %s stayed in the table, its connection must be reused: %d new connection(s)", i, n, d)
				case st.Conn == "may" && (d < 0 || d > 1):
					fail(st, "conn-reuse", "step %d: backend %s: %d new connections, want 0 or 1", i, n, d)
				}
				if n == st.Be && !leftOnce[n] && o != 1 {
					fail(st, "conn-count", "step %d: backend %s in the table has %d open connections after a call, want 1", i, n, o)
				}
			}
			if st.Conn == "reconnect" {
				// connection objects that were orphaned during the outage come back on their own now
				if n, o := env.watch(settle, leftOnce, 1); n != "" {
					fail(st, "conn-count", "step %d: within %v after the recovery of %s backend %s in the table has %d open connections, want at most 1", i, settle, st.Be, n, o)
				}
			}
		case "tick":
			if len(st.Closed) == 0 {
				continue // changes nothing an observer could see
			}
			atomic.AddInt64(&stats.ticks, 1)
			if b.Flap {
				// The backend is to come back while its old connection still awaits closing.  The proxy's
				// timer cannot be observed before that closing, so the tick is taken to have happened one
				// second after it was due (if it is later still, the behaviour degenerates to one without a
				// clean-up and says nothing).
				for _, n := range st.Closed {
					flapClosed[n] = atomic.LoadInt64(&env.backends[n].closedN)
				}
				time.Sleep(time.Until(env.created.Add(c16CleanEvery + time.Second)))
				stats.flaps++
				continue
			}
			deadline := time.Now().Add(c16TickWait)
			for _, n := range st.Closed {
				be := env.backends[n]
				for atomic.LoadInt64(&be.open) > 0 && time.Now().Before(deadline) {
					time.Sleep(20 * time.Millisecond)
				}
				if o := atomic.LoadInt64(&be.open); o > 0 {
					fail(st, "cleanup-close", "step %d: backend %s left the table, %d connection(s) still open %v after", i, n, o, c16TickWait)
				}
			}
			for _, n := range st.Pooled {
				if o := atomic.LoadInt64(&env.backends[n].open); !leftOnce[n] && o != 1 {
					fail(st, "cleanup-keep", "step %d: backend %s is in the table and was called: %d open connections after the clean-up, want 1", i, n, o)
				}
			}
			if len(shaky)+len(raced) > 0 && len(fails) == 0 {
				// nothing may come back: every connection object of the backends that left is closed
				gone := map[string]bool{}
				for n := range env.backends {
					gone[n] = true
				}
				for _, n := range st.Closed {
					delete(gone, n)
				}
				if n, o := env.watch(settle, gone, 0); n != "" {
					fail(st, "cleanup-close", "step %d: backend %s left the table and the clean-up ran, yet within %v it has %d open connection(s) again", i, n, settle, o)
				}
			}
		}
	}
	if u := atomic.LoadInt64(&env.unknown); u > 0 {
		fail(nil, "metadata", "%d call(s) reached a backend without the caller's x-c16-id metadata", u)
	}
	if u := atomic.LoadInt64(&env.late); u > 0 {
		fail(nil, "late-call", "%d call(s) reached a backend after the caller had received the final status", u)
	}
	return
}

// ---------------------------------------------------------------- test entry

func TestVerifC16(t *testing.T) {
	seed := verifx.Seed()
	saved := route.GetTable()
	defer route.SetTable(saved)

	var shared, seq []*c16Behaviour
	n := 0
	err := verifx.EachCase("", func(raw []byte) error {
		var b c16Behaviour
		if err := json.Unmarshal(raw, &b); err != nil {
			return fmt.Errorf("bad behaviour: %v", err)
		}
		n++
		if b.Idx == 0 {
			b.Idx = n
		}
		for i := range b.Steps {
			if b.Steps[i].Unav == "no" {
				b.Steps[i].Unav = ""
			}
		}
		if b.Mode == "shared" && !b.Selftest {
			shared = append(shared, &b)
		} else {
			seq = append(seq, &b)
		}
		return nil
	})
	if err != nil {
		t.Fatal(err)
	}
	var stats c16Stats
	var nontrivial, selfRejected, selfTotal int64
	var seenB sync.Map
	var samples []string
	countNT := func(b *c16Behaviour) {
		raw, _ := json.Marshal(b.Steps)
		if _, dup := seenB.LoadOrStore(verifx.Hash(raw), true); dup {
			return
		}
		for _, s := range b.Steps {
			if (s.Op == "call" && s.Be != "" && len(s.Bgot)+len(s.Cgot) >= 2) || s.Op == "burst" {
				atomic.AddInt64(&nontrivial, 1)
				return
			}
		}
	}
	drives := func(b *c16Behaviour) []string {
		if b.Drive != "" {
			return []string{b.Drive}
		}
		if verifx.Thorough() && (b.Mode != "shared" || b.Idx%2 == 0) {
			return []string{"lock", "free"}
		}
		if (int64(b.Idx)+seed)%2 == 0 {
			return []string{"lock"}
		}
		return []string{"free"}
	}
	aborted := ""

	// ---- 1. per-call behaviours: one proxy, connections warmed up, calls run concurrently
	if len(shared) > 0 {
		env, err := c16NewEnv(seed, c16Backends(shared[0]))
		if err != nil {
			t.Fatal(err)
		}
		tbl, _ := json.Marshal(shared[0].Steps[0].Table)
		if err := env.setTable(shared[0].Steps[0].Table); err != nil {
			t.Fatal(err)
		}
		// the first call to each backend makes its connection
		targets := map[string]bool{}
		for _, r := range shared[0].Steps[0].Table {
			targets[r.Be] = true
		}
		warmed := map[string]bool{}
		for _, b := range shared {
			st := &b.Steps[len(b.Steps)-1]
			if st.Be != "" && !warmed[st.Be] {
				warmed[st.Be] = true
				fails, steps, err := func() ([]c16Diff, []*c16Step, error) {
					id := fmt.Sprintf("w%d-%d", b.Idx, seed)
					obs, seen, nseen, stall := env.runCall(st, id, "lock")
					if stall != nil {
						return []c16Diff{{"stall", stall.Error()}}, []*c16Step{st}, nil
					}
					ds := env.checkCall(st, id, obs, seen, nseen)
					return ds, make([]*c16Step, len(ds)), nil
				}()
				_ = steps
				if err != nil {
					t.Fatal(err)
				}
				for _, d := range fails {
					bb := *b
					bb.Drive, bb.Mode = "lock", ""
					verifx.Fail(bb, c16Features(st, d.clause, "lock", "shared"), "%s", d.msg)
				}
			}
		}
		jobs := make(chan *c16Behaviour, 256)
		var wg sync.WaitGroup
		for w := 0; w < 8; w++ {
			wg.Add(1)
			go func() {
				defer wg.Done()
				for b := range jobs {
					if atomic.LoadInt64(&c16Stalls) >= 3 {
						continue
					}
					st := &b.Steps[len(b.Steps)-1]
					for _, drive := range drives(b) {
						id := fmt.Sprintf("p%d-%s-%d", b.Idx, drive, seed)
						obs, seen, nseen, stall := env.runCall(st, id, drive)
						atomic.AddInt64(&stats.calls, 1)
						atomic.AddInt64(&stats.msgs, int64(len(seen.Reqs)+len(obs.Resps)))
						var ds []c16Diff
						if stall != nil {
							ds = []c16Diff{{"stall", stall.Error()}}
						} else {
							ds = env.checkCall(st, id, obs, seen, nseen)
						}
						for _, d := range ds {
							bb := *b
							bb.Drive, bb.Mode = drive, ""
							verifx.Fail(bb, c16Features(st, d.clause, drive, "shared"), "%s", d.msg)
						}
					}
				}
			}()
		}
		for _, b := range shared {
			if len(b.Steps) != 2 || b.Steps[0].Op != "set" || b.Steps[1].Op != "call" {
				t.Fatalf("behaviour %d is not a per-call behaviour", b.Idx)
			}
			if tb, _ := json.Marshal(b.Steps[0].Table); !bytes.Equal(tb, tbl) {
				t.Fatalf("behaviour %d: shared behaviours must use one table", b.Idx)
			}
			countNT(b)
			if b.Idx%977 == 3 && len(samples) < 3 {
				raw, _ := json.Marshal(b.Steps[1])
				samples = append(samples, string(raw))
			}
			jobs <- b
		}
		close(jobs)
		wg.Wait()
		// all these calls later: still one connection per backend in the table
		for n, be := range env.backends {
			a, o := atomic.LoadInt64(&be.accepts), atomic.LoadInt64(&be.open)
			if warmed[n] && (a != 1 || o != 1) {
				verifx.Fail(map[string]any{"steps": shared[0].Steps[:1], "calls": len(shared)}, c16Features(nil, "conn-reuse", "both", "shared"),
					"backend %s stayed in the table during %d calls: %d connections accepted, %d open, want 1 and 1", n, stats.calls, a, o)
			}
			if !warmed[n] && a != 0 {
				verifx.Fail(map[string]any{"steps": shared[0].Steps[:1]}, c16Features(nil, "conn-other", "both", "shared"),
					"backend %s never was the target of a call, yet accepted %d connections", n, a)
			}
		}
		if u := atomic.LoadInt64(&env.unknown); u > 0 {
			verifx.Fail(map[string]any{"steps": shared[0].Steps[:1]}, c16Features(nil, "metadata", "both", "shared"),
				"%d call(s) reached a backend without the caller's x-c16-id metadata", u)
		}
		if u := atomic.LoadInt64(&env.late); u > 0 {
			verifx.Fail(map[string]any{"steps": shared[0].Steps[:1]}, c16Features(nil, "late-call", "both", "shared"),
				"%d call(s) reached a backend after the caller had received the final status", u)
		}
		env.close()
		if atomic.LoadInt64(&c16Stalls) >= 3 {
			aborted = "three calls made no progress; per-call replay abandoned"
		}
	}

	// ---- 2. histories: a fresh proxy and fresh backends for each behaviour, one at a time
	for _, b := range seq {
		if atomic.LoadInt64(&c16Stalls) >= 3 && !b.Selftest {
			aborted = "three calls made no progress; replay abandoned"
			break
		}
		if !b.Selftest {
			countNT(b)
			if b.Idx%577 == 5 && len(samples) < 6 {
				raw, _ := json.Marshal(b.Steps)
				samples = append(samples, string(raw))
			}
		}
		rejected := false
		ds := drives(b)
		for r := 1; r < b.Repeat; r++ {
			ds = append(ds, ds[0])
		}
		for _, drive := range ds {
			fails, steps, err := c16ReplaySeq(b, seed, drive, &stats)
			if err != nil {
				t.Fatalf("behaviour %d: %v", b.Idx, err)
			}
			for k, d := range fails {
				if b.Selftest {
					rejected = true
					continue
				}
				bb := *b
				bb.Drive, bb.Mode = drive, ""
				verifx.Fail(bb, c16Features(steps[k], d.clause, drive, "seq"), "%s", d.msg)
			}
		}
		if b.Selftest {
			selfTotal++
			if rejected {
				selfRejected++
			}
		}
	}
	verifx.Summary(map[string]any{"behaviours": n - int(selfTotal), "calls": stats.calls, "ticks": stats.ticks, "messages": stats.msgs, "bursts": stats.bursts, "outages": stats.outages, "flaps": stats.flaps, "flaps_degenerate": stats.degenerate,
		"distinct_nontrivial": nontrivial, "selftests": selfTotal, "selftests_rejected": selfRejected,
		"aborted": aborted, "samples": samples, "pid": os.Getpid()})
}
