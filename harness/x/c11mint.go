package verifx

// MintCert mints a real self-signed ECDSA P-256 certificate for (cn, sans); salt tells apart
// certificates with equal names.  Cached per process.  Used by the package-main C11 harness
// (the in-package cert harness has its own factory).

import (
	"crypto/ecdsa"
	"crypto/elliptic"
	"crypto/rand"
	"crypto/x509"
	"crypto/x509/pkix"
	"encoding/pem"
	"fmt"
	"math/big"
	"strings"
	"sync"
	"time"
)

type Minted struct {
	DER     []byte
	CertPEM []byte
	KeyPEM  []byte
}

var (
	mintMu    sync.Mutex
	mintCache = map[string]*Minted{}
	mintSeq   int64
)

func MintCert(cn string, sans []string, salt string) *Minted {
	key := salt + "|" + cn + "|" + strings.Join(sans, ",")
	mintMu.Lock()
	defer mintMu.Unlock()
	if m, ok := mintCache[key]; ok {
		return m
	}
	k, err := ecdsa.GenerateKey(elliptic.P256(), rand.Reader)
	if err != nil {
		panic(err)
	}
	mintSeq++
	tmpl := &x509.Certificate{
		SerialNumber: big.NewInt(500000 + mintSeq),
		Subject:      pkix.Name{CommonName: cn, Organization: []string{"verif " + salt}},
		DNSNames:     sans,
		NotBefore:    time.Now().Add(-time.Hour),
		NotAfter:     time.Now().Add(24 * time.Hour),
		KeyUsage:     x509.KeyUsageDigitalSignature,
		ExtKeyUsage:  []x509.ExtKeyUsage{x509.ExtKeyUsageServerAuth},
	}
	der, err := x509.CreateCertificate(rand.Reader, tmpl, tmpl, &k.PublicKey, k)
	if err != nil {
		panic(err)
	}
	kb, err := x509.MarshalECPrivateKey(k)
	if err != nil {
		panic(err)
	}
	x, err := x509.ParseCertificate(der)
	if err != nil || x.Subject.CommonName != cn || strings.Join(x.DNSNames, ",") != strings.Join(sans, ",") {
		panic(fmt.Sprintf("MintCert: minted certificate does not carry cn=%q sans=%q: %v", cn, sans, err))
	}
	m := &Minted{
		DER:     der,
		CertPEM: pem.EncodeToMemory(&pem.Block{Type: "CERTIFICATE", Bytes: der}),
		KeyPEM:  pem.EncodeToMemory(&pem.Block{Type: "EC PRIVATE KEY", Bytes: kb}),
	}
	mintCache[key] = m
	return m
}
