// Package verifx is the shared part of the /verif conformance harness.  It exists only in
// /verif/harness/x and is mounted into the module as internal/verifx by `go test -overlay`.
package verifx

import (
	"bufio"
	"encoding/json"
	"fmt"
	"hash/fnv"
	"math/rand"
	"os"
	"runtime/debug"
	"strconv"
	"sync"
	"sync/atomic"
)

// ---------------------------------------------------------------- input

// EachCase decodes the NDJSON file named by env var `name` (default VERIF_IN), calling fn
// with the raw line.  Lines may be very long.
func EachCase(name string, fn func(raw []byte) error) error {
	if name == "" {
		name = "VERIF_IN"
	}
	p := os.Getenv(name)
	if p == "" {
		return fmt.Errorf("%s not set", name)
	}
	f, err := os.Open(p)
	if err != nil {
		return err
	}
	defer f.Close()
	sc := bufio.NewScanner(f)
	sc.Buffer(make([]byte, 1<<20), 1<<28)
	for sc.Scan() {
		b := sc.Bytes()
		if len(b) == 0 {
			continue
		}
		if err := fn(b); err != nil {
			return err
		}
	}
	return sc.Err()
}

// ReadCases decodes every line of the input file into a T.
func ReadCases[T any](name string) ([]T, error) {
	var out []T
	err := EachCase(name, func(raw []byte) error {
		var v T
		if err := json.Unmarshal(raw, &v); err != nil {
			return fmt.Errorf("bad case %q: %v", trunc(string(raw), 200), err)
		}
		out = append(out, v)
		return nil
	})
	return out, err
}

func trunc(s string, n int) string {
	if len(s) > n {
		return s[:n] + "..."
	}
	return s
}

func Seed() int64 {
	n, err := strconv.ParseInt(os.Getenv("VERIF_SEED"), 10, 64)
	if err != nil {
		return 1
	}
	return n
}

func Rand() *rand.Rand { return rand.New(rand.NewSource(Seed())) }

func Thorough() bool { return os.Getenv("VERIF_TIER") == "thorough" }

func EnvInt(name string, def int) int {
	n, err := strconv.Atoi(os.Getenv(name))
	if err != nil {
		return def
	}
	return n
}

// ---------------------------------------------------------------- output

var (
	outMu   sync.Mutex
	outFile *os.File
	outW    *bufio.Writer
	nFail   int64
)

func out() *bufio.Writer {
	if outW == nil {
		p := os.Getenv("VERIF_OUT")
		if p == "" {
			p = os.DevNull
		}
		f, err := os.OpenFile(p, os.O_CREATE|os.O_WRONLY|os.O_APPEND, 0o644)
		if err != nil {
			panic(err)
		}
		outFile = f
		outW = bufio.NewWriterSize(f, 1<<20)
	}
	return outW
}

// Emit writes one JSON record to $VERIF_OUT.
func Emit(rec map[string]any) {
	b, err := json.Marshal(rec)
	if err != nil {
		b, _ = json.Marshal(map[string]any{"kind": "error", "msg": err.Error()})
	}
	outMu.Lock()
	defer outMu.Unlock()
	w := out()
	w.Write(b)
	w.WriteByte('\n')
	w.Flush()
}

// Fail records are capped per feature class (and the number of classes is capped) so that one
// frequent defect cannot hide a rare one; every failure is counted.
const (
	MaxFailsPerClass = 3
	MaxFailClasses   = 300
)

var failClasses = map[string]int{}

// Fail records that the real code disagreed with the specification on `c`.
// features is the small class record matched against KNOWN_FINDINGS.txt.
func Fail(c any, features map[string]any, format string, a ...any) {
	atomic.AddInt64(&nFail, 1)
	fb, _ := json.Marshal(features)
	outMu.Lock()
	n, seen := failClasses[string(fb)]
	if (!seen && len(failClasses) >= MaxFailClasses) || n >= MaxFailsPerClass {
		if seen {
			failClasses[string(fb)] = n + 1
		}
		outMu.Unlock()
		return
	}
	failClasses[string(fb)] = n + 1
	outMu.Unlock()
	Emit(map[string]any{"kind": "fail", "case": c, "features": features, "msg": fmt.Sprintf(format, a...)})
}

// FailClassCounts returns how many failures each feature class had.
func FailClassCounts() map[string]int {
	outMu.Lock()
	defer outMu.Unlock()
	m := map[string]int{}
	for k, v := range failClasses {
		m[k] = v
	}
	return m
}

func Fails() int64 { return atomic.LoadInt64(&nFail) }

// Summary must be the last record of a harness run; its absence makes the check inconclusive.
func Summary(fields map[string]any) {
	if fields == nil {
		fields = map[string]any{}
	}
	fields["kind"] = "summary"
	fields["fails"] = Fails()
	fields["fail_classes"] = FailClassCounts()
	Emit(fields)
}

// Safely runs fn and returns the recovered panic value (nil if none) with its stack.
func Safely(fn func()) (p any, stack string) {
	defer func() {
		if r := recover(); r != nil {
			p = r
			stack = string(debug.Stack())
		}
	}()
	fn()
	return nil, ""
}

// ---------------------------------------------------------------- trace recording

var ticket int64

// Tick returns the next value of the global logical clock used to order trace events.
func Tick() int64 { return atomic.AddInt64(&ticket, 1) }

// Trace collects events of one recorded execution.
type Trace struct {
	mu  sync.Mutex
	evs []map[string]any
}

// Add appends an event stamped with a fresh ticket (taken under the trace lock so that
// the order in the slice equals ticket order).
func (t *Trace) Add(ev map[string]any) {
	t.mu.Lock()
	ev["t"] = Tick()
	t.evs = append(t.evs, ev)
	t.mu.Unlock()
}

func (t *Trace) Events() []map[string]any {
	t.mu.Lock()
	defer t.mu.Unlock()
	return append([]map[string]any(nil), t.evs...)
}

func (t *Trace) Len() int { t.mu.Lock(); defer t.mu.Unlock(); return len(t.evs) }

// WriteNDJSON writes the events to path, one per line.
func (t *Trace) WriteNDJSON(path string) error {
	f, err := os.Create(path)
	if err != nil {
		return err
	}
	defer f.Close()
	w := bufio.NewWriter(f)
	for _, e := range t.Events() {
		b, err := json.Marshal(e)
		if err != nil {
			return err
		}
		w.Write(b)
		w.WriteByte('\n')
	}
	return w.Flush()
}

// Hash is a 64-bit FNV-1a hash, used to count distinct cases.
func Hash(b []byte) uint64 {
	h := fnv.New64a()
	h.Write(b)
	return h.Sum64()
}
