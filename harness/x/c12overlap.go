package verifx

// Shared part of the C12 "htpasswd changes under requests in flight" harness: the schedule record
// printed by spec/AccessOverlap_MC.tla, htpasswd texts whose password of "ops" is stored under a
// SLOW hash (bcrypt, cost 11: a check takes about 0.1 s, long enough for a refresh to happen while
// it runs), and the referee that re-derives the permitted verdicts from the concrete texts.

import (
	"fmt"
	"os"
	"strings"
	"time"
)

type C12OvEv struct {
	Ev   string   `json:"ev"` // "start" | "reload" | "finish"
	ID   int      `json:"id"`
	Cred string   `json:"cred"`
	Ver  string   `json:"ver"`  // content in force at the event / content installed (reload)
	Seen []string `json:"seen"` // finish: the contents in force at some moment of the attempt's extent
}

type C12OvAllowed struct {
	ID  int    `json:"id"`
	May []bool `json:"may"`
}

// C12Overlap is one line of the AccessOverlap_MC generator.
type C12Overlap struct {
	Events  []C12OvEv      `json:"events"`
	Allowed []C12OvAllowed `json:"allowed"`
}

// bcrypt (cost 11) hashes of the passwords stored slowly; produced once with golang.org/x/crypto/bcrypt
// (an indirect requirement of fabio, hence not importable here)
var c12SlowHash = map[string]string{
	"admin42":  "$2a$11$uET85DD8ZeKnMgfAyTV2i.yWiVmN8mhvnX1j0SK3Du/bhzK.fcuP2",
	"changed7": "$2a$11$zJzFl.0aTkuNSXfqBzKjqepHhD5PxxJqNaz5Um6qE4US4i0BdEORS",
}

// C12SlowText: the content `ver` of AccessHist/AccessOverlap with the passwords that have a slow
// hash stored under it (the others, and the sentinel users, as {SHA}).
func C12SlowText(ver string) string {
	fast := C12HistText(ver)
	if fast == "" {
		return ""
	}
	lines := strings.Split(strings.TrimRight(fast, "\n"), "\n")
	for i, up := range c12HistUsers[ver] {
		if h, ok := c12SlowHash[up[1]]; ok {
			lines[i] = up[0] + ":" + h
		}
	}
	return strings.Join(lines, "\n") + "\n"
}

// C12SlowReferee: does the slow text of `ver` contain the pair of the class?  It reads the text.
func C12SlowReferee(ver, class string) (bool, error) {
	p, ok := C12HistPairs[class]
	if !ok {
		if class == "none" || class == "malformed" {
			return false, nil
		}
		return false, fmt.Errorf("credential class %q has no concretisation", class)
	}
	txt := C12SlowText(ver)
	if txt == "" {
		return false, fmt.Errorf("version %q has no concretisation", ver)
	}
	for _, line := range strings.Split(txt, "\n") {
		u, h, found := strings.Cut(line, ":")
		if !found || u != p[0] {
			continue
		}
		if strings.HasPrefix(h, "$2a$") {
			return c12SlowHash[p[1]] == h, nil
		}
		fastOK, err := C12HistReferee(ver, class)
		return fastOK, err
	}
	return false, nil
}

func C12SlowInstall(path, ver string, mtime int64) error {
	tmp := path + ".tmp"
	if err := os.WriteFile(tmp, []byte(C12SlowText(ver)), 0o600); err != nil {
		return err
	}
	mt := time.Unix(mtime, 0)
	if err := os.Chtimes(tmp, mt, mt); err != nil {
		return err
	}
	return os.Rename(tmp, path)
}

// Text renders a schedule for messages.
func (h *C12Overlap) Text() string {
	may := map[int]string{}
	for _, a := range h.Allowed {
		var vs []string
		for _, b := range a.May {
			vs = append(vs, map[bool]string{true: "accept", false: "reject"}[b])
		}
		may[a.ID] = strings.Join(vs, " or ")
	}
	var xs []string
	for _, e := range h.Events {
		switch e.Ev {
		case "reload":
			xs = append(xs, "file := "+e.Ver+" takes effect")
		case "start":
			p := C12HistPairs[e.Cred]
			xs = append(xs, fmt.Sprintf("start #%d %s(%q:%q)", e.ID, e.Cred, p[0], p[1]))
		case "finish":
			xs = append(xs, fmt.Sprintf("finish #%d (spec: %s)", e.ID, may[e.ID]))
		}
	}
	return strings.Join(xs, " ; ")
}
