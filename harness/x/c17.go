package verifx

// Shared part of the C17 harness (response compression): the behaviour record printed by
// spec/Gzip_MC.tla, the concretisation of its abstract classes (header spellings, content
// types, chunk bytes), the scripted inner handler and the judge that compares what a client
// received with what the specification permits.

import (
	"net"
	"errors"
	"bufio"
	"bytes"
	"compress/gzip"
	"fmt"
	"io"
	"math/rand"
	"net/http"
	"strconv"
	"strings"
)

type C17Ev struct {
	H     int    `json:"h"`
	Ev    string `json:"ev"`
	Code  int    `json:"code"`
	Chunk string `json:"chunk"`
}

type C17Req struct {
	Ae     string `json:"ae"`
	Ct     string `json:"ct"`
	Enc    string `json:"enc"`
	Cl     bool   `json:"cl"`
	Acc    string `json:"acc"`
	Method string `json:"method"`
	Late   bool   `json:"late"` // response headers set after the informational WriteHeader calls
	Vary   string `json:"vary"` // "own": the inner handler adds a Vary value of its own
	Buf    string `json:"buf"`  // "reused": every chunk is written from one buffer that is overwritten after Write returned
	Via    string `json:"via"`  // which transport of the proxy serves the route: "default" | "insecure" | "target"
}

type C17Mode struct {
	Mode string `json:"mode"`
	Ce   string `json:"ce"`
	Cl   bool   `json:"cl"`
}

// C17Alt: status and "may have a body" under one reading of Flush (got through / no-op).
type C17Alt struct {
	Flush       bool `json:"flush"`
	Status      int  `json:"status"`
	BodyAllowed bool `json:"body_allowed"`
}

type C17Handler struct {
	Aborted     bool      `json:"aborted"` // the script ends with the inner handler giving up (panic(http.ErrAbortHandler))
	Alts        []C17Alt  `json:"alts"`
	Started     bool      `json:"started"`
	Req         C17Req    `json:"req"`
	Ops         []C17Ev   `json:"ops"`
	Status      int       `json:"status"`
	BodyAllowed bool      `json:"body_allowed"`
	Modes       []C17Mode `json:"modes"`
}

// C17Beh is one line of the Gzip_MC generator (+ replay-only fields).
type C17Beh struct {
	Hist     []C17Ev      `json:"hist"`
	Handlers []C17Handler `json:"handlers"`
	N        int64        `json:"n,omitempty"`       // replay: the number that selected spellings and bytes
	Via      string       `json:"via,omitempty"`     // replay: which sub-harness
	Corrupt  string       `json:"corrupt,omitempty"` // binding self-test only
}

// The expression of fabio's documentation for proxy.gzip.contenttype.
const C17ContentTypes = `^(text/.*|application/(javascript|json|font-woff|xml)|.*\+(json|xml))(;.*)?$`

var (
	c17AE = map[string][]string{
		"yes":     {"gzip", "gzip, deflate", "deflate, gzip", "gzip;q=1.0, identity; q=0.5", "br;q=0.9, gzip;q=0.8", "deflate,gzip;q=0.5"},
		"no":      {"", "deflate", "identity", "br", "compress, deflate"},
		"refused": {"gzip;q=0", "gzip; q=0", "deflate, gzip;q=0", "gzip;q=0.0", "br, gzip;q=0.000"},
		// RFC 7231 5.3.4: an explicit entry for gzip wins over "*"; "*;q=0" refuses everything not listed
		"refusedwild": {"*, gzip;q=0", "gzip;q=0, *", "*;q=1.0, gzip;q=0", "*;q=0", "identity, *;q=0", "br;q=1, *;q=0", "gzip;q=0, *;q=0.5"},
		// gzip is acceptable, but only through the wildcard or in an unusual spelling: compressing is permitted, not required
		"wild": {"*", "*;q=0.5", "br, *", "deflate;q=0.5, *;q=0.1", "GZIP", "Gzip;q=0.8", "x-gzip"},
	}
	c17CT = map[string][]string{
		"match":   {"text/plain", "text/html; charset=utf-8", "application/json", "image/svg+xml", "application/javascript", "text/css"},
		"nomatch": {"image/png", "application/octet-stream", "video/mp4", "application/zip", "application/x-json"},
		"absent":  {""},
	}
	c17Enc    = []string{"br", "deflate", "gzip", "compress"}
	c17Accept = map[string][]string{"other": {"", "text/html", "*/*"}, "sse": {"text/event-stream"}}
)

// C17Plan is the concrete form of one handler of a behaviour.
type C17Plan struct {
	H       *C17Handler
	Method  string
	AE      string // "" = header absent
	Accept  string
	CT      string // "" = not set by the inner handler
	CE      string // pre-existing Content-Encoding ("" = none)
	CL      int    // -1 = not set
	Chunks  [][]byte
	Inner   []byte // concatenation of the chunks of all Write ops
	EchoVal string
	ViaProxy bool  // the response passes fabio's upstream transport (set by the proxy-level harness)
	VaryVal string // the Vary value the inner handler adds ("" = none); unique, so that a leak into another response shows
	// RefStatus is the status net/http delivered for the same script WITHOUT the gzip wrapper
	// (0 = no reference run was made); when present it is the expected status
	RefStatus int
}

func c17Pick(xs []string, r *rand.Rand) string { return xs[r.Intn(len(xs))] }

var c17Words = []string{"fabio ", "consul ", "route add svc / http://1.2.3.4:5000 ", "weight 0.25 ", "{\"k\":\"v\"}", "<p>hello</p>\n", "0123456789"}

// C17Chunk produces the bytes of an abstract chunk: "e" empty, "a" compressible text, "b" random
// bytes; sizes are seeded, mostly small, occasionally up to 256 KiB.
func C17Chunk(kind string, r *rand.Rand, big bool) []byte {
	if kind == "e" {
		return []byte{}
	}
	var n int
	switch x := r.Intn(100); {
	case x < 45:
		n = 1 + r.Intn(16)
	case x < 75:
		n = 1 + r.Intn(1024)
	case x < 87:
		n = []int{511, 512, 513, 4095, 4096, 4097}[r.Intn(6)]
	case x < 97:
		n = 1 + r.Intn(20000)
	case x < 99 || !big:
		n = 32767 + r.Intn(3)
	default:
		n = 65536 + r.Intn(256*1024-65536+1)
	}
	b := make([]byte, 0, n)
	if kind == "b" {
		b = b[:n]
		r.Read(b)
		return b
	}
	for len(b) < n {
		b = append(b, c17Words[r.Intn(len(c17Words))]...)
	}
	return b[:n]
}

// C17MakePlan concretises handler hi of the behaviour; n seeds spellings and bytes.
func C17MakePlan(b *C17Beh, hi int, n int64, big bool) *C17Plan {
	h := &b.Handlers[hi]
	r := rand.New(rand.NewSource(n*131 + int64(hi)))
	p := &C17Plan{H: h, Method: h.Req.Method, CL: -1}
	p.AE = c17Pick(c17AE[h.Req.Ae], r)
	p.Accept = c17Pick(c17Accept[h.Req.Acc], r)
	p.CT = c17Pick(c17CT[h.Req.Ct], r)
	if h.Req.Enc != "" {
		p.CE = c17Pick(c17Enc, r)
	}
	for _, op := range h.Ops {
		if op.Ev == "w" {
			c := C17Chunk(op.Chunk, r, big)
			p.Chunks = append(p.Chunks, c)
			p.Inner = append(p.Inner, c...)
		}
	}
	if strings.EqualFold(p.CE, "gzip") && len(p.Inner) > 0 {
		// an upstream that labels its body gzip sends a gzip stream (Go's transports decode such a body when THEY
		// asked for it): compress what was planned and cut the stream into the same number of non-empty chunks
		var zb bytes.Buffer
		zw := gzip.NewWriter(&zb)
		zw.Write(p.Inner)
		zw.Close()
		gz := zb.Bytes()
		var idx []int
		for i, c := range p.Chunks {
			if len(c) > 0 {
				idx = append(idx, i)
			}
		}
		for j, i := range idx {
			lo, hi := len(gz)*j/len(idx), len(gz)*(j+1)/len(idx)
			p.Chunks[i] = gz[lo:hi]
		}
		p.Inner = gz
	}
	if h.Req.Cl {
		p.CL = len(p.Inner)
	}
	p.EchoVal = fmt.Sprintf("c17-%d-%d", n, hi)
	if h.Req.Vary == "own" {
		p.VaryVal = fmt.Sprintf("X-C17-Vary-%d-%d", n&0xffffff, hi)
	}
	return p
}

// SetRequest puts the request headers of the plan on r.
func (p *C17Plan) SetRequest(r *http.Request) {
	if p.AE != "" {
		r.Header.Set("Accept-Encoding", p.AE)
	}
	if p.Accept != "" {
		r.Header.Set("Accept", p.Accept)
	}
}

// Serve is the scripted inner handler: response headers first, then the ops in order.  before(i)
// is called before op i and before the return (i = len(ops)); it may block (lockstep replay).
func (p *C17Plan) Serve(w http.ResponseWriter, before func(i int)) {
	headersSet := false
	setHeaders := func() {
		if headersSet {
			return
		}
		headersSet = true
		if p.CT != "" {
			w.Header().Set("Content-Type", p.CT)
		}
		if p.CE != "" {
			w.Header().Set("Content-Encoding", p.CE)
		}
		if p.CL >= 0 {
			w.Header().Set("Content-Length", strconv.Itoa(p.CL))
		}
		w.Header().Set("X-C17-Echo", p.EchoVal)
		if p.VaryVal != "" {
			// the way the reverse proxy copies an upstream's header: appended to what is there
			w.Header().Add("Vary", "Origin")
			w.Header().Add("Vary", p.VaryVal)
		}
	}
	if !p.H.Req.Late {
		setHeaders()
	}
	k := 0
	var scratch []byte // the handler's one buffer (buf = "reused")
	for i, op := range p.H.Ops {
		if before != nil {
			before(i)
		}
		if op.Ev == "w" || op.Ev == "fl" || (op.Ev == "wh" && op.Code >= 200) {
			setHeaders() // late: just before the first op that can commit the header
		}
		switch op.Ev {
		case "ab":
			// the handler gives up (what httputil.ReverseProxy does when the upstream or the client goes away mid-body)
			setHeaders()
			if f, ok := w.(http.Flusher); ok {
				f.Flush() // an upstream that dies mid-body: what it produced so far is on the wire
			}
			panic(http.ErrAbortHandler)
		case "fl":
			// the way streaming handlers flush: only if the writer they were given offers it
			if f, ok := w.(http.Flusher); ok {
				f.Flush()
			}
		case "wh":
			w.WriteHeader(op.Code)
		case "w":
			if p.H.Req.Buf == "reused" {
				// as io.Copy / fmt.Fprintf do: one buffer for all chunks, overwritten as soon as Write returned
				scratch = append(scratch[:0], p.Chunks[k]...)
				w.Write(scratch)
				for j := range scratch {
					scratch[j] = '#'
				}
			} else {
				w.Write(p.Chunks[k])
			}
			k++
		case "hj":
			// the handler tries to take the connection over; the writer below refuses (see the harness): it goes
			// on with an ordinary response
			if hj, ok := w.(http.Hijacker); ok {
				if conn, _, err := hj.Hijack(); err == nil {
					conn.Close() // not expected with the harness's writers; the response is gone then
					return
				}
			}
		}
	}
	if before != nil {
		before(len(p.H.Ops))
	}
	setHeaders()
}

// C17NoHijack is a writer that HAS a Hijack method and refuses (as fabio's own responseWriter does over a
// connection that cannot be taken over); the harnesses give it to handlers whose script tries to hijack.
type C17NoHijack struct{ http.ResponseWriter }

func (C17NoHijack) Hijack() (net.Conn, *bufio.ReadWriter, error) {
	return nil, nil, errors.New("c17: this connection cannot be hijacked")
}

// Flush passes a flush on (the wrapped writer of net/http has one).
func (w C17NoHijack) Flush() {
	if f, ok := w.ResponseWriter.(http.Flusher); ok {
		f.Flush()
	}
}

// HasOp reports whether the script contains an op of the kind.
func (p *C17Plan) HasOp(ev string) bool {
	for _, op := range p.H.Ops {
		if op.Ev == ev {
			return true
		}
	}
	return false
}

// NeedsReference: scripts with several WriteHeader calls (informational ones, repeated final ones)
// get a reference run without the gzip wrapper, so that the status is judged against what net/http
// itself delivers for the script.
func (p *C17Plan) NeedsReference() bool {
	n := 0
	for _, op := range p.H.Ops {
		if op.Ev == "fl" {
			return true
		}
		if op.Ev == "wh" {
			n++
			if op.Code < 200 {
				return true
			}
		}
	}
	return n >= 2
}

type C17Fault struct {
	Clause string
	Msg    string
}

// Judge compares a received response with the specification's expectation for the handler.
// raw is the body as received (not decompressed); readErr the error of reading it.
func (p *C17Plan) Judge(status int, hdr http.Header, raw []byte, readErr error) (faults []C17Fault, mode string) {
	add := func(clause, format string, a ...any) {
		faults = append(faults, C17Fault{clause, fmt.Sprintf(format, a...)})
	}
	h := p.H
	// the expected status (and whether a body may follow): the readings of Flush the specification
	// permits; without Flush in the script they coincide
	alts := h.Alts
	if len(alts) == 0 {
		alts = []C17Alt{{Status: h.Status, BodyAllowed: h.BodyAllowed}}
	}
	bodyAllowed := alts[0].BodyAllowed
	okStatus := false
	var wants []string
	for _, a := range alts {
		wants = append(wants, strconv.Itoa(a.Status))
		if a.Status == status && !okStatus {
			okStatus, bodyAllowed = true, a.BodyAllowed
		}
	}
	if !okStatus {
		add("status", "status %d, the inner handler's status is %s", status, strings.Join(wants, " or "))
	}
	ce := hdr.Get("Content-Encoding")
	allowed := func(m string) *C17Mode {
		for i := range h.Modes {
			if h.Modes[i].Mode == m {
				return &h.Modes[i]
			}
		}
		return nil
	}
	// which mode does the response claim?  A response the inner handler already labelled is
	// passed through in every permitted mode, so there the label says nothing.
	// the client sent no Accept-Encoding at all and the upstream answers gzip-encoded: the proxy's transport asked
	// for gzip on its own and decodes what it gets - plain HTTP content negotiation, either form may arrive
	negotiated := p.ViaProxy && p.AE == "" && strings.EqualFold(p.CE, "gzip")
	mode = "plain"
	if p.CE == "" && strings.EqualFold(ce, "gzip") {
		mode = "gzip"
	}
	m := allowed(mode)
	if m == nil {
		why := "the client does not accept gzip, the content type does not match or the response is already encoded"
		if mode == "plain" {
			why = "the client accepts gzip, the content type matches and the response is not encoded"
		}
		add("mode-"+mode, "response delivered in %s mode (Content-Encoding %q) although %s", mode, ce, why)
	}
	if mode == "plain" && ce != p.CE && !negotiated {
		add("content-encoding", "Content-Encoding %q, the inner handler set %q", ce, p.CE)
	}
	vary := strings.Join(hdr.Values("Vary"), ", ")
	if p.VaryVal != "" && (!strings.Contains(vary, p.VaryVal) || !strings.Contains(vary, "Origin")) {
		add("vary-lost", "Vary %q, the inner handler added \"Origin\" and %q", vary, p.VaryVal)
	}
	if i := strings.Index(vary, "X-C17-Vary-"); i >= 0 && (p.VaryVal == "" || strings.Count(vary, "X-C17-Vary-") > 1 || !strings.Contains(vary, p.VaryVal)) {
		add("foreign-header", "Vary %q carries a value that another response's inner handler set (own value: %q)", vary, p.VaryVal)
	}
	if got := hdr.Get("X-C17-Echo"); got != p.EchoVal {
		add("other-header", "header X-C17-Echo %q, the inner handler set %q", got, p.EchoVal)
	}
	if !bodyAllowed {
		return faults, mode // HEAD / 204 / 304: status and labels only
	}
	if negotiated {
		return faults, mode
	}
	if p.CT != "" && hdr.Get("Content-Type") != p.CT {
		add("content-type", "Content-Type %q, the inner handler set %q", hdr.Get("Content-Type"), p.CT)
	}
	if readErr != nil {
		add("body-read", "reading the body failed after %d bytes: %v (Content-Length %q)", len(raw), readErr, hdr.Get("Content-Length"))
		return faults, mode
	}
	cl := hdr.Get("Content-Length")
	if cl != "" && cl != strconv.Itoa(len(raw)) {
		add("content-length-stale", "Content-Length %s but %d body bytes arrived", cl, len(raw))
	}
	if mode == "plain" {
		if p.CL >= 0 && cl != strconv.Itoa(p.CL) {
			add("content-length", "Content-Length %q, the inner handler set %d", cl, p.CL)
		}
		if !bytes.Equal(raw, p.Inner) {
			add("body", "body differs from what the inner handler wrote: got %d bytes, want %d (first difference at %d)", len(raw), len(p.Inner), c17FirstDiff(raw, p.Inner))
		}
		return faults, mode
	}
	zr, err := gzip.NewReader(bytes.NewReader(raw))
	if err != nil {
		add("gunzip", "labelled gzip but not a gzip stream (%d bytes): %v", len(raw), err)
		return faults, mode
	}
	zr.Multistream(false)
	plain, err := io.ReadAll(zr)
	if err != nil {
		add("gunzip", "gzip stream broken after %d decompressed bytes: %v", len(plain), err)
		return faults, mode
	}
	if !bytes.Equal(plain, p.Inner) {
		add("body", "decompressed body differs from what the inner handler wrote: got %d bytes, want %d (first difference at %d)", len(plain), len(p.Inner), c17FirstDiff(plain, p.Inner))
	}
	return faults, mode
}

func c17FirstDiff(a, b []byte) int {
	n := len(a)
	if len(b) < n {
		n = len(b)
	}
	for i := 0; i < n; i++ {
		if a[i] != b[i] {
			return i
		}
	}
	return n
}

// Features is the feature record of a failing handler.
func (p *C17Plan) Features(sub, clause string) map[string]any {
	info, fl := false, false
	for _, op := range p.H.Ops {
		if op.Ev == "wh" && op.Code < 200 {
			info = true
		}
		if op.Ev == "fl" {
			fl = true
		}
	}
	return map[string]any{"sub": sub, "clause": clause, "ae": p.H.Req.Ae, "ct": p.H.Req.Ct, "encoded": p.H.Req.Enc != "",
		"sse": p.H.Req.Acc == "sse", "method": p.H.Req.Method, "informational": info, "late_headers": p.H.Req.Late, "flush": fl, "own_vary": p.VaryVal != "", "buffer": p.H.Req.Buf, "transport": p.H.Req.Via}
}

// Describe renders the concrete request/response of the plan.
func (p *C17Plan) Describe() string {
	var ops []string
	k := 0
	for _, op := range p.H.Ops {
		if op.Ev == "wh" {
			ops = append(ops, fmt.Sprintf("WriteHeader(%d)", op.Code))
		} else if op.Ev == "fl" {
			ops = append(ops, "Flush()")
		} else if op.Ev == "hj" {
			ops = append(ops, "Hijack() refused")
		} else if op.Ev == "ab" {
			ops = append(ops, "panic(http.ErrAbortHandler)")
		} else {
			ops = append(ops, fmt.Sprintf("Write(%d bytes %s)", len(p.Chunks[k]), op.Chunk))
			k++
		}
	}
	when := ""
	if p.H.Req.Late {
		when = " (headers set after the informational calls)"
	}
	return fmt.Sprintf("%s Accept-Encoding=%q Accept=%q; inner: Content-Type=%q Content-Encoding=%q Content-Length=%d%s ops=[%s]",
		p.Method, p.AE, p.Accept, p.CT, p.CE, p.CL, when, strings.Join(ops, ", "))
}
