package verifx

// VaultFake (X07) is a fake of exactly the part of Vault's HTTP API that fabio's certificate
// sources use (cert/vault_client.go, cert/vault_source.go, cert/vault_pki_source.go through
// github.com/hashicorp/vault/api):
//
//	PUT  /v1/sys/wrapping/unwrap                 "is my token a wrapped one?"  (400: it is not)
//	GET  /v1/auth/token/lookup-self              ttl, creation_ttl, renewable, expire_time
//	PUT  /v1/auth/token/renew-self               {"increment": n}
//	GET  /v1/sys/internal/ui/mounts/<path>       KV version preflight (404 = Vault too old -> v1)
//	GET  /v1/<path>?list=true                    KV v1 LIST        (v2: /v1/<mount>/metadata/<rest>)
//	GET  /v1/<path>/<name>                       KV v1 read        (v2: /v1/<mount>/data/<rest>/<name>)
//	PUT  /v1/<pki path>                          {"common_name": cn} -> certificate, private_key
//
// Every request is decided and logged as ONE event under ONE mutex at the moment it arrives
// (that is its linearisation point: the answer is computed from the state the fake has at that
// moment); an issue request logs a second event right before its answer is written, so that
// overlapping issue requests are visible in the log.  The log is the causality barrier of the
// harness ("a refresh has happened when its LIST and reads are logged and the preflight of
// the next one has arrived").  Switches: faults per request kind and per entry (403 token
// expired, 500, sealed, malformed JSON, slow answer, missing cert/key fields), a gate that
// holds requests of a kind until released, token TTL / renewal book-keeping in scaled seconds.
//
// All fakes of a process share one listener (leaked watcher goroutines of finished histories
// keep polling: a port of their own would be reused by the kernel); each fake lives under its
// own URL path token.  Requests for a closed fake park until the process ends.

import (
	"crypto/ecdsa"
	"crypto/elliptic"
	"crypto/rand"
	"crypto/x509"
	"crypto/x509/pkix"
	"encoding/json"
	"encoding/pem"
	"fmt"
	"io"
	"math/big"
	"net/http"
	"net/http/httptest"
	"sort"
	"strings"
	"sync"
	"sync/atomic"
	"time"
)

// VaultEvent is one line of the request log.
type VaultEvent struct {
	Seq    int       `json:"seq"`
	At     time.Time `json:"-"`
	Ev     string    `json:"ev"`   // "Req" | "Resp" (issue only) | "Env" (a switch was moved)
	Kind   string    `json:"kind"` // unwrap lookup renew mounts list read issue other
	Name   string    `json:"name"` // entry name / common name
	Ans    string    `json:"ans"`  // ok 404 403 500 sealed malformed nokey nocert badname ...
	ID     int       `json:"id"`   // request id
	Serial int       `json:"serial"`
	Load   int       `json:"load"` // number of the refresh round (count of preflights so far)
	Late   bool      `json:"late"` // renew: arrived after the token's expiry
	Keys   []string  `json:"keys,omitempty"`
	IDs    []int     `json:"ids,omitempty"` // Install: serials of the snapshot
	C      int       `json:"c"`             // HsStart / HsEnd: client
	Expiry time.Time `json:"-"`
}

// VaultEntry is one secret below the KV certificate path.
type VaultEntry struct {
	Cert, Key []byte // nil = the field is missing from the secret
	ReadFault string // "" | "500" | "403" | "malformed"
}

type vaultFarm struct {
	srv   *httptest.Server
	mu    sync.Mutex
	fakes map[string]*VaultFake
	quit  chan struct{}
}

var (
	farmOnce sync.Once
	farm     *vaultFarm
	farmSeq  int64
)

func theFarm() *vaultFarm {
	farmOnce.Do(func() {
		farm = &vaultFarm{fakes: map[string]*VaultFake{}, quit: make(chan struct{})}
		farm.srv = httptest.NewUnstartedServer(http.HandlerFunc(farm.serve))
		// keep-alive as usual: an idle time-out on this side would race with the next request (a PUT is not
		// retried), no keep-alive at all exhausts the ephemeral ports; the harness closes the idle
		// connections of a history's Vault client when the history ends
		farm.srv.Start()
	})
	return farm
}

func (fm *vaultFarm) serve(w http.ResponseWriter, r *http.Request) {
	p := strings.TrimPrefix(r.URL.Path, "/")
	tok, rest, _ := strings.Cut(p, "/")
	fm.mu.Lock()
	f := fm.fakes[tok]
	fm.mu.Unlock()
	if f == nil {
		http.Error(w, `{"errors":["no such fake"]}`, 404)
		return
	}
	f.serve(w, r, "/"+rest)
}

type VaultFake struct {
	Tok      string
	Mount    string // "secret/"
	CertPath string // "secret/fabio/certs"
	PKIPath  string // "pki/issue/fabio"

	mu   sync.Mutex
	cond *sync.Cond

	closed bool
	log    []VaultEvent
	nextID int
	loads  int

	kvVersion int // 1, 2; 0 = the preflight endpoint does not exist (old Vault), layout v1
	kv        map[string]*VaultEntry
	fault     map[string]string // per request kind
	slowBy    time.Duration
	hold      map[string]bool
	released  map[int]bool

	// token
	tokUnit      time.Duration // one Vault "second"
	tokTTL       int
	tokCreation  int
	tokRenewable bool
	tokExpires   bool
	tokExp       time.Time
	tokDead      bool     // switch: the token is expired/revoked -> 403 everywhere
	tokEnforce   bool     // wall clock past tokExp -> 403 everywhere
	renewScript  []string // answers of the successive renew-self requests ("" / exhausted = ok)

	// pki
	issueTTL   time.Duration
	issueFault string
	serial     int
	caKey      *ecdsa.PrivateKey
}

func NewVaultFake() *VaultFake {
	fm := theFarm()
	f := &VaultFake{
		Tok:   fmt.Sprintf("vf%d", atomic.AddInt64(&farmSeq, 1)),
		Mount: "secret/", CertPath: "secret/fabio/certs", PKIPath: "pki/issue/fabio",
		kvVersion: 1, kv: map[string]*VaultEntry{}, fault: map[string]string{}, hold: map[string]bool{}, released: map[int]bool{},
		tokUnit: time.Second, tokTTL: 0, issueTTL: time.Hour,
	}
	f.cond = sync.NewCond(&f.mu)
	k, err := ecdsa.GenerateKey(elliptic.P256(), rand.Reader)
	if err != nil {
		panic(err)
	}
	f.caKey = k
	fm.mu.Lock()
	fm.fakes[f.Tok] = f
	fm.mu.Unlock()
	return f
}

// Addr is the VAULT_ADDR of this fake.
func (f *VaultFake) Addr() string { return theFarm().srv.URL + "/" + f.Tok }

// Close releases everything that is held; later requests park until the process ends.
func (f *VaultFake) Close() {
	f.mu.Lock()
	f.closed = true
	f.cond.Broadcast()
	f.mu.Unlock()
}

// ---------------------------------------------------------------- switches

func (f *VaultFake) env(what string) {
	f.log = append(f.log, VaultEvent{Seq: len(f.log) + 1, At: time.Now(), Ev: "Env", Kind: what, Load: f.loads})
	f.cond.Broadcast()
}

func (f *VaultFake) SetKVVersion(v int) { f.mu.Lock(); f.kvVersion = v; f.env("kvversion"); f.mu.Unlock() }

// SetEntries replaces the secrets below CertPath.
func (f *VaultFake) SetEntries(kv map[string]*VaultEntry) {
	f.mu.Lock()
	f.kv = map[string]*VaultEntry{}
	for k, v := range kv {
		c := *v
		f.kv[k] = &c
	}
	f.env("entries")
	f.mu.Unlock()
}

// SetFault: kind in unwrap lookup renew mounts list read issue; fault "" | 500 | sealed | 403 | malformed | slow
// (issue also: nokey nocert badpem).
func (f *VaultFake) SetFault(kind, fault string) {
	f.mu.Lock()
	if fault == "" {
		delete(f.fault, kind)
	} else {
		f.fault[kind] = fault
	}
	f.env("fault:" + kind + "=" + fault)
	f.mu.Unlock()
}

func (f *VaultFake) ClearFaults() {
	f.mu.Lock()
	f.fault = map[string]string{}
	f.env("fault:clear")
	f.mu.Unlock()
}

func (f *VaultFake) SetSlow(d time.Duration) { f.mu.Lock(); f.slowBy = d; f.mu.Unlock() }

// SetTokenDead: the token has expired or was revoked: every authenticated request gets 403.
func (f *VaultFake) SetTokenDead(dead bool) {
	f.mu.Lock()
	f.tokDead = dead
	f.env(fmt.Sprintf("tokdead=%v", dead))
	f.mu.Unlock()
}

// SetToken describes the token: ttl in Vault seconds (0 = never expires), one second lasting
// `unit` of real time; enforce = requests after the expiry are answered 403.
func (f *VaultFake) SetToken(ttl int, renewable bool, unit time.Duration, enforce bool, renewScript []string) {
	f.mu.Lock()
	f.tokTTL, f.tokCreation, f.tokRenewable, f.tokUnit, f.tokEnforce = ttl, ttl, renewable, unit, enforce
	f.tokExpires = ttl > 0
	f.tokExp = time.Now().Add(time.Duration(ttl) * unit)
	f.renewScript = append([]string(nil), renewScript...)
	f.env("token")
	f.mu.Unlock()
}

func (f *VaultFake) SetIssueTTL(d time.Duration) { f.mu.Lock(); f.issueTTL = d; f.mu.Unlock() }

// Hold makes requests of the kind park (after they are logged) until Release.
func (f *VaultFake) Hold(kind string, on bool) {
	f.mu.Lock()
	f.hold[kind] = on
	f.cond.Broadcast()
	f.mu.Unlock()
}

// Release lets the held request with this id go.
func (f *VaultFake) Release(id int) {
	f.mu.Lock()
	f.released[id] = true
	f.cond.Broadcast()
	f.mu.Unlock()
}

// ---------------------------------------------------------------- log

func (f *VaultFake) Log() []VaultEvent {
	f.mu.Lock()
	defer f.mu.Unlock()
	return append([]VaultEvent(nil), f.log...)
}

func (f *VaultFake) LogLen() int { f.mu.Lock(); defer f.mu.Unlock(); return len(f.log) }

// WaitLog blocks until pred(log) holds (true) or the deadline passes / the fake is closed (false).
func (f *VaultFake) WaitLog(deadline time.Duration, pred func(log []VaultEvent) bool) bool {
	f.mu.Lock()
	defer f.mu.Unlock()
	end := time.Now().Add(deadline)
	for {
		if pred(f.log) {
			return true
		}
		if f.closed || !time.Now().Before(end) {
			return false
		}
		// wake up when the deadline has passed for sure (a timer set before `end` is computed may fire too early)
		t := time.AfterFunc(time.Until(end)+time.Millisecond, func() { f.mu.Lock(); f.cond.Broadcast(); f.mu.Unlock() })
		f.cond.Wait()
		t.Stop()
	}
}

// Note adds a harness event to the log (same mutex, same order).
func (f *VaultFake) Note(ev VaultEvent) int {
	f.mu.Lock()
	defer f.mu.Unlock()
	ev.Seq = len(f.log) + 1
	ev.At = time.Now()
	ev.Load = f.loads
	f.log = append(f.log, ev)
	f.cond.Broadcast()
	return ev.Seq
}

// ---------------------------------------------------------------- serving

type vaultAnswer struct {
	status int
	body   string
}

func vErr(status int, msg string) vaultAnswer {
	b, _ := json.Marshal(map[string]any{"errors": []string{msg}})
	return vaultAnswer{status, string(b)}
}

func vOK(v any) vaultAnswer {
	b, _ := json.Marshal(v)
	return vaultAnswer{200, string(b)}
}

func faultAnswer(fault string) (vaultAnswer, bool) {
	switch fault {
	case "500":
		return vErr(500, "internal error"), true
	case "sealed":
		return vErr(503, "Vault is sealed"), true
	case "403":
		return vErr(403, "permission denied"), true
	case "malformed":
		return vaultAnswer{200, `{"data": {"keys": ["a", `}, true
	}
	return vaultAnswer{}, false
}

func (f *VaultFake) serve(w http.ResponseWriter, r *http.Request, path string) {
	body, _ := io.ReadAll(r.Body)
	f.mu.Lock()
	if f.closed {
		f.mu.Unlock()
		select { // park: the goroutine that asks belongs to a finished history
		case <-r.Context().Done():
		case <-theFarm().quit:
		}
		return
	}
	f.nextID++
	ev := VaultEvent{Ev: "Req", ID: f.nextID}
	ev.Kind, ev.Name = f.classify(r, path)
	if ev.Kind == "issue" {
		var in struct {
			CN string `json:"common_name"`
		}
		json.Unmarshal(body, &in)
		ev.Name = in.CN
	}
	if ev.Kind == "mounts" {
		f.loads++
	}
	if f.hold[ev.Kind] {
		// a held request is decided when it is released (that is its linearisation point)
		f.log = append(f.log, VaultEvent{Seq: len(f.log) + 1, At: time.Now(), Ev: "Hold", Kind: ev.Kind, Name: ev.Name, ID: ev.ID, Load: f.loads})
		f.cond.Broadcast()
		for f.hold[ev.Kind] && !f.released[ev.ID] && !f.closed {
			f.cond.Wait()
		}
		if f.closed {
			f.mu.Unlock()
			select {
			case <-r.Context().Done():
			case <-theFarm().quit:
			}
			return
		}
	}
	ev.At = time.Now()
	ans := f.decide(body, &ev)
	ev.Seq = len(f.log) + 1
	ev.Load = f.loads
	f.log = append(f.log, ev)
	f.cond.Broadcast()
	slow := time.Duration(0)
	if f.fault[ev.Kind] == "slow" {
		slow = f.slowBy
	}
	f.mu.Unlock()
	if slow > 0 {
		time.Sleep(slow)
	}
	if ev.Kind == "issue" {
		f.mu.Lock()
		f.log = append(f.log, VaultEvent{Seq: len(f.log) + 1, At: time.Now(), Ev: "Resp", Kind: "issue", Name: ev.Name, Ans: ev.Ans, ID: ev.ID, Serial: ev.Serial, Load: f.loads})
		f.cond.Broadcast()
		f.mu.Unlock()
	}
	w.Header().Set("Content-Type", "application/json")
	w.WriteHeader(ans.status)
	io.WriteString(w, ans.body)
}

// decide computes the answer from the present state (called with the mutex held).
func (f *VaultFake) decide(body []byte, ev *VaultEvent) vaultAnswer {
	kind, name := ev.Kind, ev.Name
	fault := f.fault[kind]
	dead := f.tokDead || (f.tokEnforce && f.tokExpires && time.Now().After(f.tokExp))
	if dead && kind != "other" {
		if kind == "renew" {
			ev.Late = true
		}
		ev.Ans = "403"
		return vErr(403, "permission denied")
	}
	if a, ok := faultAnswer(fault); ok {
		ev.Ans = fault
		return a
	}
	ev.Ans = "ok"
	switch kind {
	case "unwrap":
		ev.Ans = "notwrapped"
		return vErr(400, "wrapping token is not valid or does not exist")
	case "lookup":
		data := map[string]any{"ttl": 0, "creation_ttl": f.tokCreation, "renewable": f.tokRenewable, "expire_time": nil, "policies": []string{"fabio"}}
		if f.tokExpires {
			left := time.Until(f.tokExp)
			data["ttl"] = int((left + f.tokUnit/2) / f.tokUnit)
			data["expire_time"] = f.tokExp.UTC().Format(time.RFC3339Nano)
		}
		return vOK(map[string]any{"data": data})
	case "renew":
		var in struct {
			Increment int `json:"increment"`
		}
		json.Unmarshal(body, &in)
		script := ""
		if len(f.renewScript) > 0 {
			script, f.renewScript = f.renewScript[0], f.renewScript[1:]
		}
		if f.tokExpires && time.Now().After(f.tokExp) {
			ev.Late = true
		}
		if a, ok := faultAnswer(script); ok {
			ev.Ans = script
			return a
		}
		ttl := in.Increment
		if ttl <= 0 {
			ttl = f.tokCreation
		}
		renewable := f.tokRenewable
		switch script {
		case "last": // renewed, but not renewable any more
			renewable = false
			f.tokRenewable = false
			ev.Ans = "last"
		case "zero": // explicit max ttl reached
			ttl = 0
			ev.Ans = "zero"
		}
		if !f.tokRenewable && script != "last" {
			ev.Ans = "notrenewable"
			return vErr(400, "lease is not renewable")
		}
		if ttl > 0 {
			f.tokExp = time.Now().Add(time.Duration(ttl) * f.tokUnit)
		}
		ev.Expiry = f.tokExp
		return vOK(map[string]any{"auth": map[string]any{"client_token": "x07-token", "lease_duration": ttl, "renewable": renewable, "policies": []string{"fabio"}}})
	case "mounts":
		if f.kvVersion == 0 {
			ev.Ans = "404"
			return vErr(404, "unsupported path")
		}
		var opts any
		if f.kvVersion == 2 {
			opts = map[string]any{"version": "2"}
		} else if f.loads%2 == 0 { // both spellings of a version 1 mount
			opts = map[string]any{"version": "1"}
		}
		return vOK(map[string]any{"data": map[string]any{"path": f.Mount, "type": "kv", "options": opts}})
	case "list":
		var keys []string
		for k := range f.kv {
			keys = append(keys, k)
		}
		sort.Strings(keys)
		ev.Keys = keys
		if len(keys) == 0 {
			ev.Ans = "404"
			return vaultAnswer{404, `{"errors":[]}`}
		}
		return vOK(map[string]any{"data": map[string]any{"keys": keys}})
	case "read":
		e := f.kv[name]
		if e == nil {
			ev.Ans = "404"
			return vaultAnswer{404, `{"errors":[]}`}
		}
		if a, ok := faultAnswer(e.ReadFault); ok {
			ev.Ans = e.ReadFault
			return a
		}
		data := map[string]any{}
		if e.Cert != nil {
			data["cert"] = string(e.Cert)
		}
		if e.Key != nil {
			data["key"] = string(e.Key)
		}
		if len(data) == 0 {
			data["note"] = "a secret without cert and key"
		}
		if f.kvVersion == 2 {
			return vOK(map[string]any{"data": map[string]any{"data": data, "metadata": map[string]any{"version": 1}}})
		}
		return vOK(map[string]any{"data": data})
	case "issue":
		var in struct{ CN string }
		in.CN = name
		if in.CN == "" {
			ev.Ans = "badname"
			return vErr(400, "the common_name field is required")
		}
		f.serial++
		ev.Serial = f.serial
		notAfter := time.Now().Add(f.issueTTL).Truncate(time.Second)
		ev.Expiry = notAfter
		certPEM, keyPEM := f.mint(in.CN, f.serial, notAfter)
		data := map[string]any{"certificate": certPEM, "private_key": keyPEM, "serial_number": fmt.Sprintf("%02x", f.serial), "private_key_type": "ec"}
		switch fault {
		case "nokey":
			delete(data, "private_key")
			ev.Ans = fault
		case "nocert":
			delete(data, "certificate")
			ev.Ans = fault
		case "badpem":
			data["certificate"] = "-----BEGIN CERTIFICATE-----\nthis is not base64 !!\n-----END CERTIFICATE-----\n"
			ev.Ans = fault
		}
		return vOK(map[string]any{"data": data, "lease_duration": 0, "renewable": false})
	}
	ev.Ans = "404"
	return vErr(404, "unsupported path")
}

func (f *VaultFake) classify(r *http.Request, p string) (kind, name string) {
	p = strings.TrimSuffix(p, "/")
	v1 := strings.TrimPrefix(p, "/v1/")
	mountless := strings.TrimPrefix(f.CertPath, f.Mount)
	switch {
	case p == "/v1/sys/wrapping/unwrap":
		return "unwrap", ""
	case p == "/v1/auth/token/lookup-self" && r.Method == "GET":
		return "lookup", ""
	case p == "/v1/auth/token/renew-self":
		return "renew", ""
	case strings.HasPrefix(p, "/v1/sys/internal/ui/mounts/"):
		return "mounts", strings.TrimPrefix(p, "/v1/sys/internal/ui/mounts/")
	case v1 == f.PKIPath && (r.Method == "PUT" || r.Method == "POST"):
		return "issue", ""
	}
	if r.Method != "GET" {
		return "other", p
	}
	list := r.URL.Query().Get("list") == "true"
	if f.kvVersion == 2 {
		if list && v1 == f.Mount+"metadata/"+mountless {
			return "list", ""
		}
		if pre := f.Mount + "data/" + mountless + "/"; !list && strings.HasPrefix(v1, pre) {
			return "read", strings.TrimPrefix(v1, pre)
		}
		return "other", p
	}
	if list && v1 == f.CertPath {
		return "list", ""
	}
	if pre := f.CertPath + "/"; !list && strings.HasPrefix(v1, pre) {
		return "read", strings.TrimPrefix(v1, pre)
	}
	return "other", p
}

// mint issues a leaf for cn with the given serial and expiry (x509 times have a resolution of
// one second).
func (f *VaultFake) mint(cn string, serial int, notAfter time.Time) (certPEM, keyPEM string) {
	tmpl := &x509.Certificate{
		SerialNumber: big.NewInt(int64(serial)),
		Subject:      pkix.Name{CommonName: cn, Organization: []string{"verif x07 " + f.Tok}},
		DNSNames:     []string{cn},
		NotBefore:    time.Now().Add(-time.Minute),
		NotAfter:     notAfter,
		KeyUsage:     x509.KeyUsageDigitalSignature,
		ExtKeyUsage:  []x509.ExtKeyUsage{x509.ExtKeyUsageServerAuth},
	}
	der, err := x509.CreateCertificate(rand.Reader, tmpl, tmpl, &f.caKey.PublicKey, f.caKey)
	if err != nil {
		panic(err)
	}
	kb, err := x509.MarshalECPrivateKey(f.caKey)
	if err != nil {
		panic(err)
	}
	return string(pem.EncodeToMemory(&pem.Block{Type: "CERTIFICATE", Bytes: der})),
		string(pem.EncodeToMemory(&pem.Block{Type: "EC PRIVATE KEY", Bytes: kb}))
}
