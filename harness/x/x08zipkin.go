package verifx

// X08: a fake Zipkin HTTP collector.
//
// The zipkin-go-opentracing client that fabio's trace package uses (v0.3.5, HTTPCollector) POSTs batches to the
// configured URL with Content-Type application/x-thrift; the body is a thrift *binary protocol* list of
// zipkincore.Span structs.  The fake decodes every post with the library's own generated reader (the wire format is
// thrift's, not ours), turns every span into a flat record and logs it under ONE mutex together with a logical-clock
// ticket taken BEFORE the post is answered: the client's send() - and therefore HTTPCollector.Close() - only returns
// after the answer, so "Close returned" is a causal barrier for "every span of the final batch is in the log".
// A JSON post (application/json, the v1 JSON form: a list of objects with traceId/id/parentId/name) is accepted as
// well, so that a client library that changes its encoding is still understood.

import (
	"bytes"
	"encoding/json"
	"fmt"
	"io"
	"net"
	"net/http"
	"sync"

	"github.com/apache/thrift/lib/go/thrift"
	"github.com/openzipkin-contrib/zipkin-go-opentracing/thrift/gen-go/zipkincore"
)

// X08Span is one reported span as the collector saw it.
type X08Span struct {
	T         int64             // logical clock at reception
	Post      int               // number of the POST it came in
	TraceID   string            // lower hex, 16 or 32 characters (32 iff trace_id_high was sent)
	ID        string            // 16 lower hex
	HasParent bool              // parent_id field present on the wire
	ParentID  string            // 16 lower hex ("" if absent)
	Name      string            // span name
	Debug     bool              // debug flag on the wire
	Timed     bool              // timestamp and duration present
	Ann       []string          // annotation values (sr, ss, cs, cr ...)
	Tags      map[string]string // binary annotations
	Service   string            // service name of the endpoint attached to the annotations
	IPv4      string            // endpoint address
	Port      int               // endpoint port
}

// X08Zipkin is the fake collector.
type X08Zipkin struct {
	mu     sync.Mutex
	spans  []X08Span
	posts  int
	bad    []string // posts that could not be decoded
	ln     net.Listener
	srv    *http.Server
	OnSpan func(X08Span) // called under the lock for every span (trace recording)
	sizes  []int
}

// X08NewZipkin starts the collector on a loopback port.
func X08NewZipkin() (*X08Zipkin, error) {
	ln, err := net.Listen("tcp", "127.0.0.1:0")
	if err != nil {
		return nil, err
	}
	z := &X08Zipkin{ln: ln}
	mux := http.NewServeMux()
	mux.HandleFunc("/api/v1/spans", z.handle)
	z.srv = &http.Server{Handler: mux}
	go z.srv.Serve(ln)
	return z, nil
}

// URL is the value for tracing.ConnectString.
func (z *X08Zipkin) URL() string { return "http://" + z.ln.Addr().String() + "/api/v1/spans" }

func (z *X08Zipkin) Close() { z.srv.Close() }

func hex16(v int64) string { return fmt.Sprintf("%016x", uint64(v)) }

func (z *X08Zipkin) handle(w http.ResponseWriter, r *http.Request) {
	body, err := io.ReadAll(r.Body)
	if err != nil || r.Method != "POST" {
		z.mu.Lock()
		z.bad = append(z.bad, fmt.Sprintf("%s %v", r.Method, err))
		z.mu.Unlock()
		http.Error(w, "bad request", 400)
		return
	}
	var got []X08Span
	ct := r.Header.Get("Content-Type")
	switch ct {
	case "application/x-thrift":
		got, err = x08DecodeThrift(body)
	case "application/json":
		got, err = x08DecodeJSON(body)
	default:
		err = fmt.Errorf("content type %q", ct)
	}
	z.mu.Lock()
	z.posts++
	if err != nil {
		z.bad = append(z.bad, err.Error())
	}
	z.sizes = append(z.sizes, len(got))
	for _, s := range got {
		s.Post = z.posts
		s.T = Tick()
		z.spans = append(z.spans, s)
		if z.OnSpan != nil {
			z.OnSpan(s)
		}
	}
	z.mu.Unlock()
	if err != nil {
		http.Error(w, err.Error(), 400)
		return
	}
	w.WriteHeader(202)
}

func x08DecodeThrift(body []byte) ([]X08Span, error) {
	t := thrift.NewTMemoryBuffer()
	t.Buffer = bytes.NewBuffer(body)
	p := thrift.NewTBinaryProtocolTransport(t)
	et, n, err := p.ReadListBegin()
	if err != nil {
		return nil, fmt.Errorf("thrift list: %v", err)
	}
	if et != thrift.STRUCT {
		return nil, fmt.Errorf("thrift list of type %v", et)
	}
	var out []X08Span
	for i := 0; i < n; i++ {
		s := &zipkincore.Span{}
		if err := s.Read(p); err != nil {
			return out, fmt.Errorf("thrift span %d: %v", i, err)
		}
		x := X08Span{ID: hex16(s.ID), Name: s.Name, Debug: s.Debug, Tags: map[string]string{}}
		x.TraceID = hex16(s.TraceID)
		if s.TraceIDHigh != nil {
			x.TraceID = hex16(*s.TraceIDHigh) + x.TraceID
		}
		if s.ParentID != nil {
			x.HasParent = true
			x.ParentID = hex16(*s.ParentID)
		}
		x.Timed = s.Timestamp != nil && s.Duration != nil
		ep := func(e *zipkincore.Endpoint) {
			if e == nil {
				return
			}
			x.Service = e.ServiceName
			x.IPv4 = net.IPv4(byte(uint32(e.Ipv4)>>24), byte(uint32(e.Ipv4)>>16), byte(uint32(e.Ipv4)>>8), byte(uint32(e.Ipv4))).String()
			x.Port = int(uint16(e.Port))
		}
		for _, a := range s.Annotations {
			x.Ann = append(x.Ann, a.Value)
			ep(a.Host)
		}
		for _, b := range s.BinaryAnnotations {
			x.Tags[b.Key] = string(b.Value)
			ep(b.Host)
		}
		out = append(out, x)
	}
	if err := p.ReadListEnd(); err != nil {
		return out, err
	}
	if t.Buffer.Len() != 0 {
		return out, fmt.Errorf("%d bytes behind the span list", t.Buffer.Len())
	}
	return out, nil
}

func x08DecodeJSON(body []byte) ([]X08Span, error) {
	var raw []struct {
		TraceID  string `json:"traceId"`
		ID       string `json:"id"`
		ParentID string `json:"parentId"`
		Name     string `json:"name"`
		Debug    bool   `json:"debug"`
		Binary   []struct {
			Key   string `json:"key"`
			Value any    `json:"value"`
		} `json:"binaryAnnotations"`
		Tags map[string]string `json:"tags"`
	}
	if err := json.Unmarshal(body, &raw); err != nil {
		return nil, err
	}
	var out []X08Span
	for _, s := range raw {
		x := X08Span{TraceID: s.TraceID, ID: s.ID, ParentID: s.ParentID, HasParent: s.ParentID != "", Name: s.Name, Debug: s.Debug, Tags: map[string]string{}}
		for _, b := range s.Binary {
			x.Tags[b.Key] = fmt.Sprint(b.Value)
		}
		for k, v := range s.Tags {
			x.Tags[k] = v
		}
		out = append(out, x)
	}
	return out, nil
}

// Spans returns a copy of everything received so far.
func (z *X08Zipkin) Spans() []X08Span {
	z.mu.Lock()
	defer z.mu.Unlock()
	return append([]X08Span(nil), z.spans...)
}

// Count is the number of spans received so far.
func (z *X08Zipkin) Count() int {
	z.mu.Lock()
	defer z.mu.Unlock()
	return len(z.spans)
}

// Take returns the spans received so far and forgets them.
func (z *X08Zipkin) Take() []X08Span {
	z.mu.Lock()
	defer z.mu.Unlock()
	s := z.spans
	z.spans = nil
	return s
}

// Bad returns the posts that could not be understood.
func (z *X08Zipkin) Bad() []string {
	z.mu.Lock()
	defer z.mu.Unlock()
	return append([]string(nil), z.bad...)
}

// Posts returns the number of posts and the largest batch.
func (z *X08Zipkin) Posts() (n, largest int) {
	z.mu.Lock()
	defer z.mu.Unlock()
	for _, s := range z.sizes {
		if s > largest {
			largest = s
		}
	}
	return z.posts, largest
}
