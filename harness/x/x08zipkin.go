package verifx

// X08: a fake Zipkin HTTP collector.
//
// The zipkin-go-opentracing client that fabio's trace package uses (v0.3.5, HTTPCollector) POSTs batches to the
// configured URL with Content-Type application/x-thrift; the body is a thrift *binary protocol* list of
// zipkincore.Span structs.  The fake decodes every post, turns every span into a flat record and logs it under ONE mutex together with a logical-clock
// ticket taken BEFORE the post is answered: the client's send() - and therefore HTTPCollector.Close() - only returns
// after the answer, so "Close returned" is a causal barrier for "every span of the final batch is in the log".
// The thrift binary protocol is decoded by hand (importing github.com/apache/thrift directly would make
// `go test -mod=mod` rewrite the repository's go.mod, where thrift is an indirect requirement), following
// zipkinCore.thrift: Span{1 trace_id i64, 3 name, 4 id i64, 5 parent_id i64?, 6 annotations list<Annotation{1 timestamp,
// 2 value, 3 host Endpoint}>, 8 binary_annotations list<BinaryAnnotation{1 key, 2 value, 3 type, 4 host Endpoint}>,
// 9 debug bool, 10 timestamp i64?, 11 duration i64?, 12 trace_id_high i64?}, Endpoint{1 ipv4 i32, 2 port i16,
// 3 service_name, 4 ipv6}.
// A JSON post (application/json, the v1 JSON form: a list of objects with traceId/id/parentId/name) is accepted as
// well, so that a client library that changes its encoding is still understood.

import (
	"encoding/binary"
	"encoding/json"
	"errors"
	"fmt"
	"io"
	"net"
	"net/http"
	"sync"
)

// X08Span is one reported span as the collector saw it.
type X08Span struct {
	T         int64             // logical clock at reception
	Post      int               // number of the POST it came in
	TraceID   string            // lower hex, 16 or 32 characters (32 iff trace_id_high was sent)
	ID        string            // 16 lower hex
	HasParent bool              // parent_id field present on the wire
	ParentID  string            // 16 lower hex ("" if absent)
	Name      string            // span name
	Debug     bool              // debug flag on the wire
	Timed     bool              // timestamp and duration present
	Ann       []string          // annotation values (sr, ss, cs, cr ...)
	Tags      map[string]string // binary annotations
	Service   string            // service name of the endpoint attached to the annotations
	IPv4      string            // endpoint address
	Port      int               // endpoint port
}

// X08Zipkin is the fake collector.
type X08Zipkin struct {
	mu     sync.Mutex
	spans  []X08Span
	posts  int
	bad    []string // posts that could not be decoded
	ln     net.Listener
	srv    *http.Server
	OnSpan func(X08Span) // called under the lock for every span (trace recording)
	sizes  []int
}

// X08NewZipkin starts the collector on a loopback port.
func X08NewZipkin() (*X08Zipkin, error) {
	ln, err := net.Listen("tcp", "127.0.0.1:0")
	if err != nil {
		return nil, err
	}
	z := &X08Zipkin{ln: ln}
	mux := http.NewServeMux()
	mux.HandleFunc("/api/v1/spans", z.handle)
	z.srv = &http.Server{Handler: mux}
	go z.srv.Serve(ln)
	return z, nil
}

// URL is the value for tracing.ConnectString.
func (z *X08Zipkin) URL() string { return "http://" + z.ln.Addr().String() + "/api/v1/spans" }

func (z *X08Zipkin) Close() { z.srv.Close() }

func hex16(v int64) string { return fmt.Sprintf("%016x", uint64(v)) }

func (z *X08Zipkin) handle(w http.ResponseWriter, r *http.Request) {
	body, err := io.ReadAll(r.Body)
	if err != nil || r.Method != "POST" {
		z.mu.Lock()
		z.bad = append(z.bad, fmt.Sprintf("%s %v", r.Method, err))
		z.mu.Unlock()
		http.Error(w, "bad request", 400)
		return
	}
	var got []X08Span
	ct := r.Header.Get("Content-Type")
	switch ct {
	case "application/x-thrift":
		got, err = x08DecodeThrift(body)
	case "application/json":
		got, err = x08DecodeJSON(body)
	default:
		err = fmt.Errorf("content type %q", ct)
	}
	z.mu.Lock()
	z.posts++
	if err != nil {
		z.bad = append(z.bad, err.Error())
	}
	z.sizes = append(z.sizes, len(got))
	for _, s := range got {
		s.Post = z.posts
		s.T = Tick()
		z.spans = append(z.spans, s)
		if z.OnSpan != nil {
			z.OnSpan(s)
		}
	}
	z.mu.Unlock()
	if err != nil {
		http.Error(w, err.Error(), 400)
		return
	}
	w.WriteHeader(202)
}

// thrift binary protocol type ids
const (
	x08TStop   = 0
	x08TBool   = 2
	x08TByte   = 3
	x08TDouble = 4
	x08TI16    = 6
	x08TI32    = 8
	x08TI64    = 10
	x08TString = 11
	x08TStruct = 12
	x08TMap    = 13
	x08TSet    = 14
	x08TList   = 15
)

type x08Reader struct {
	b   []byte
	err error
}

func (r *x08Reader) take(n int) []byte {
	if r.err != nil || n < 0 || n > len(r.b) {
		if r.err == nil {
			r.err = errors.New("thrift: truncated")
		}
		return make([]byte, 8)
	}
	v := r.b[:n]
	r.b = r.b[n:]
	if n == 0 {
		return make([]byte, 8)[:0]
	}
	return v
}

// value decodes one thrift value of type t: ints as int64, bool, string as []byte, struct as map[int16]any, list/set as []any.
func (r *x08Reader) value(t byte, depth int) any {
	if depth > 16 {
		r.err = errors.New("thrift: too deep")
	}
	if r.err != nil {
		return nil
	}
	switch t {
	case x08TBool:
		return r.take(1)[0] != 0
	case x08TByte:
		return int64(int8(r.take(1)[0]))
	case x08TDouble:
		r.take(8)
		return int64(0)
	case x08TI16:
		return int64(int16(binary.BigEndian.Uint16(r.take(2))))
	case x08TI32:
		return int64(int32(binary.BigEndian.Uint32(r.take(4))))
	case x08TI64:
		return int64(binary.BigEndian.Uint64(r.take(8)))
	case x08TString:
		n := int(int32(binary.BigEndian.Uint32(r.take(4))))
		return append([]byte(nil), r.take(n)...)
	case x08TStruct:
		m := map[int16]any{}
		for r.err == nil {
			ft := r.take(1)[0]
			if r.err != nil || ft == x08TStop {
				break
			}
			id := int16(binary.BigEndian.Uint16(r.take(2)))
			m[id] = r.value(ft, depth+1)
		}
		return m
	case x08TList, x08TSet:
		et := r.take(1)[0]
		n := int(int32(binary.BigEndian.Uint32(r.take(4))))
		var l []any
		for i := 0; i < n && r.err == nil; i++ {
			l = append(l, r.value(et, depth+1))
		}
		return l
	case x08TMap:
		kt, vt := r.take(1)[0], r.take(1)[0]
		n := int(int32(binary.BigEndian.Uint32(r.take(4))))
		for i := 0; i < n && r.err == nil; i++ {
			r.value(kt, depth+1)
			r.value(vt, depth+1)
		}
		return nil
	}
	r.err = fmt.Errorf("thrift: unknown type %d", t)
	return nil
}

func x08DecodeThrift(body []byte) ([]X08Span, error) {
	r := &x08Reader{b: body}
	if len(body) < 5 || body[0] != x08TStruct {
		return nil, fmt.Errorf("thrift: not a list of structs (%d bytes)", len(body))
	}
	l, _ := r.value(x08TList, 0).([]any)
	if r.err != nil {
		return nil, r.err
	}
	if len(r.b) != 0 {
		return nil, fmt.Errorf("%d bytes behind the span list", len(r.b))
	}
	i64 := func(m map[int16]any, id int16) (int64, bool) { v, ok := m[id].(int64); return v, ok }
	str := func(m map[int16]any, id int16) string { v, _ := m[id].([]byte); return string(v) }
	var out []X08Span
	for _, e := range l {
		s, ok := e.(map[int16]any)
		if !ok {
			return out, errors.New("thrift: span is not a struct")
		}
		id, _ := i64(s, 4)
		tid, _ := i64(s, 1)
		x := X08Span{ID: hex16(id), TraceID: hex16(tid), Name: str(s, 3), Tags: map[string]string{}}
		x.Debug, _ = s[9].(bool)
		if hi, ok := i64(s, 12); ok {
			x.TraceID = hex16(hi) + x.TraceID
		}
		if p, ok := i64(s, 5); ok {
			x.HasParent = true
			x.ParentID = hex16(p)
		}
		_, t1 := i64(s, 10)
		_, t2 := i64(s, 11)
		x.Timed = t1 && t2
		ep := func(v any) {
			e, ok := v.(map[int16]any)
			if !ok {
				return
			}
			ip, _ := i64(e, 1)
			port, _ := i64(e, 2)
			x.Service = str(e, 3)
			x.IPv4 = net.IPv4(byte(uint32(ip)>>24), byte(uint32(ip)>>16), byte(uint32(ip)>>8), byte(uint32(ip))).String()
			x.Port = int(uint16(port))
		}
		anns, _ := s[6].([]any)
		for _, a := range anns {
			if am, ok := a.(map[int16]any); ok {
				x.Ann = append(x.Ann, str(am, 2))
				ep(am[3])
			}
		}
		bins, _ := s[8].([]any)
		for _, b := range bins {
			if bm, ok := b.(map[int16]any); ok {
				x.Tags[str(bm, 1)] = str(bm, 2)
				ep(bm[4])
			}
		}
		out = append(out, x)
	}
	return out, nil
}

func x08DecodeJSON(body []byte) ([]X08Span, error) {
	var raw []struct {
		TraceID  string `json:"traceId"`
		ID       string `json:"id"`
		ParentID string `json:"parentId"`
		Name     string `json:"name"`
		Debug    bool   `json:"debug"`
		Binary   []struct {
			Key   string `json:"key"`
			Value any    `json:"value"`
		} `json:"binaryAnnotations"`
		Tags map[string]string `json:"tags"`
	}
	if err := json.Unmarshal(body, &raw); err != nil {
		return nil, err
	}
	var out []X08Span
	for _, s := range raw {
		x := X08Span{TraceID: s.TraceID, ID: s.ID, ParentID: s.ParentID, HasParent: s.ParentID != "", Name: s.Name, Debug: s.Debug, Tags: map[string]string{}}
		for _, b := range s.Binary {
			x.Tags[b.Key] = fmt.Sprint(b.Value)
		}
		for k, v := range s.Tags {
			x.Tags[k] = v
		}
		out = append(out, x)
	}
	return out, nil
}

// Spans returns a copy of everything received so far.
func (z *X08Zipkin) Spans() []X08Span {
	z.mu.Lock()
	defer z.mu.Unlock()
	return append([]X08Span(nil), z.spans...)
}

// Count is the number of spans received so far.
func (z *X08Zipkin) Count() int {
	z.mu.Lock()
	defer z.mu.Unlock()
	return len(z.spans)
}

// Take returns the spans received so far and forgets them.
func (z *X08Zipkin) Take() []X08Span {
	z.mu.Lock()
	defer z.mu.Unlock()
	s := z.spans
	z.spans = nil
	return s
}

// Bad returns the posts that could not be understood.
func (z *X08Zipkin) Bad() []string {
	z.mu.Lock()
	defer z.mu.Unlock()
	return append([]string(nil), z.bad...)
}

// Posts returns the number of posts and the largest batch.
func (z *X08Zipkin) Posts() (n, largest int) {
	z.mu.Lock()
	defer z.mu.Unlock()
	for _, s := range z.sizes {
		if s > largest {
			largest = s
		}
	}
	return z.posts, largest
}
