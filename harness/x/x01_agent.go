package verifx

// X01Agent extends FakeConsul (through its Ext hook) with the agent endpoints fabio's
// self-registration uses (registry/consul/register.go):
//
//	GET /v1/agent/services
//	PUT /v1/agent/service/register
//	PUT /v1/agent/service/deregister/<id>
//	PUT /v1/agent/check/update/<checkid>
//
// Its state mirrors the agent variables of spec/Register.tla (catalog, status of the TTL check
// of every registration).  Every request is answered and logged as ONE trace event under the
// FakeConsul mutex, so the order of the log is the order in which the agent's state changed.
// The counters (TTL updates / register requests per service name) are the causality barriers
// of the harness: "the goroutine of service n has completed two refresh rounds since the fault".

import (
	"encoding/json"
	"fmt"
	"io"
	"net/http"
	"net/url"
	"sort"
	"strings"
	"sync"
	"time"
)

// X01Expect is what the documentation promises about a registration's content.
type X01Expect struct {
	OwnName       string
	OwnTags       []string
	Addr          string // ip
	Port          int
	CheckScheme   string
	CheckInterval string
	CheckTimeout  string
	TLSSkipVerify bool
}

type x01Check struct {
	CheckID                        string
	TTL                            string
	HTTP                           string
	Interval                       string
	Timeout                        string
	TLSSkipVerify                  bool
	DeregisterCriticalServiceAfter string
}

type x01Reg struct {
	ID      string
	Name    string
	Tags    []string
	Port    int
	Address string
	Check   *x01Check
	Checks  []*x01Check
}

type X01Agent struct {
	F      *FakeConsul
	Expect X01Expect

	mu       sync.Mutex
	cond     *sync.Cond
	svcs     map[string]*x01Reg // id -> registration
	ttl      map[string]string  // name -> status of its TTL check (crit|pass)
	ttlID    map[string]string  // TTL check id -> name
	idOf     map[string]string  // name -> id (first seen)
	nameOf   map[string]string  // id -> name
	failReg  int
	ttlCount map[string]int
	regCount map[string]int
	anonTTL  int
	svcsSeen int
	requests int
	lastTTL  map[string]time.Time
	maxGap   map[string]time.Duration
	bodies   []string // distinct body complaints
	firstReg map[string]string
}

func NewX01Agent(f *FakeConsul, exp X01Expect) *X01Agent {
	a := &X01Agent{F: f, Expect: exp, svcs: map[string]*x01Reg{}, ttl: map[string]string{}, ttlID: map[string]string{},
		idOf: map[string]string{}, nameOf: map[string]string{}, ttlCount: map[string]int{}, regCount: map[string]int{},
		lastTTL: map[string]time.Time{}, maxGap: map[string]time.Duration{}, firstReg: map[string]string{}}
	a.cond = sync.NewCond(&a.mu)
	f.Ext = a.serve
	return a
}

// both locks, always in this order
func (a *X01Agent) lock()   { a.F.Lock(); a.mu.Lock() }
func (a *X01Agent) unlock() { a.cond.Broadcast(); a.mu.Unlock(); a.F.Unlock() }

func (a *X01Agent) namesLocked() []string {
	out := []string{}
	for _, r := range a.svcs {
		out = append(out, r.Name)
	}
	sort.Strings(out)
	return out
}

// Catalog returns the names of the registered services and the names whose TTL check passes.
func (a *X01Agent) Catalog() (names, passing []string) {
	a.mu.Lock()
	defer a.mu.Unlock()
	names = a.namesLocked()
	passing = []string{}
	for _, n := range names {
		if a.ttl[n] == "pass" {
			passing = append(passing, n)
		}
	}
	return
}

// Ids returns the registered service ids.
func (a *X01Agent) Ids() []string {
	a.mu.Lock()
	defer a.mu.Unlock()
	out := []string{}
	for id := range a.svcs {
		out = append(out, id)
	}
	sort.Strings(out)
	return out
}

// Lose makes the agent forget the service with this name (fault: the agent restarted).
func (a *X01Agent) Lose(name string) bool {
	a.lock()
	defer a.unlock()
	for id, r := range a.svcs {
		if r.Name == name {
			delete(a.svcs, id)
			delete(a.ttl, name)
			for cid, n := range a.ttlID {
				if n == name {
					delete(a.ttlID, cid)
				}
			}
			a.F.Log(map[string]any{"ev": "Lose", "n": name})
			return true
		}
	}
	return false
}

// FailRegister makes the next n register requests fail with status 500.
func (a *X01Agent) FailRegister(n int) {
	a.mu.Lock()
	a.failReg += n
	a.mu.Unlock()
}

// Counts returns the number of TTL updates and register requests seen per name so far.
func (a *X01Agent) Counts() (ttl, reg map[string]int) {
	a.mu.Lock()
	defer a.mu.Unlock()
	ttl, reg = map[string]int{}, map[string]int{}
	for k, v := range a.ttlCount {
		ttl[k] = v
	}
	for k, v := range a.regCount {
		reg[k] = v
	}
	return
}

// WaitTTL blocks until every name in `names` has had at least `more` TTL updates beyond base[name]
// (a goroutine that refreshed twice after an event has also completed a full
// check-and-repair round after it).  It returns false when d passes first.
func (a *X01Agent) WaitTTL(names []string, base map[string]int, more int, d time.Duration) bool {
	return a.waitFor(d, func() bool {
		for _, n := range names {
			if a.ttlCount[n] < base[n]+more {
				return false
			}
		}
		return true
	})
}

// SvcsSeen returns the number of catalog queries answered so far.
func (a *X01Agent) SvcsSeen() int { a.mu.Lock(); defer a.mu.Unlock(); return a.svcsSeen }

// WaitSvcs blocks until n catalog queries have been answered.
func (a *X01Agent) WaitSvcs(n int, d time.Duration) bool {
	return a.waitFor(d, func() bool { return a.svcsSeen >= n })
}

// WaitRegistered blocks until the service is in the catalog.
func (a *X01Agent) WaitRegistered(name string, d time.Duration) bool {
	return a.waitFor(d, func() bool {
		for _, r := range a.svcs {
			if r.Name == name {
				return true
			}
		}
		return false
	})
}

func (a *X01Agent) waitFor(d time.Duration, ok func() bool) bool {
	deadline := time.Now().Add(d)
	stop := make(chan struct{})
	defer close(stop)
	go func() { // wake the waiter at the deadline
		select {
		case <-stop:
		case <-time.After(d):
			a.mu.Lock()
			a.cond.Broadcast()
			a.mu.Unlock()
		}
	}()
	a.mu.Lock()
	defer a.mu.Unlock()
	for !ok() {
		if !time.Now().Before(deadline) {
			return false
		}
		a.cond.Wait()
	}
	return true
}

// MaxTTLGap returns the longest time between two consecutive TTL updates of a name.
func (a *X01Agent) MaxTTLGap(name string) time.Duration {
	a.mu.Lock()
	defer a.mu.Unlock()
	return a.maxGap[name]
}

// ResetTTLGaps forgets the measured gaps (after a stall).
func (a *X01Agent) ResetTTLGaps() {
	a.mu.Lock()
	a.maxGap = map[string]time.Duration{}
	a.lastTTL = map[string]time.Time{}
	a.mu.Unlock()
}

func (a *X01Agent) BodyComplaints() []string {
	a.mu.Lock()
	defer a.mu.Unlock()
	return append([]string(nil), a.bodies...)
}

// FirstRegistration returns the JSON body of the first registration seen for a name.
func (a *X01Agent) FirstRegistration(name string) string {
	a.mu.Lock()
	defer a.mu.Unlock()
	return a.firstReg[name]
}

func (a *X01Agent) Requests() int { a.mu.Lock(); defer a.mu.Unlock(); return a.requests }

// checkBody compares a registration with what the documentation promises
// (docs/content/ref/registry.consul.register.*.md); "ok" or the first difference.
func (a *X01Agent) checkBody(r *x01Reg) string {
	e := a.Expect
	if r.Name == "" || r.ID == "" {
		return "registration without name or id"
	}
	if prev, ok := a.idOf[r.Name]; ok && prev != r.ID {
		return fmt.Sprintf("service %q registered with id %q and with id %q", r.Name, prev, r.ID)
	}
	if prev, ok := a.nameOf[r.ID]; ok && prev != r.Name {
		return fmt.Sprintf("id %q used for service %q and for service %q", r.ID, prev, r.Name)
	}
	if e.Addr != "" && (r.Address != e.Addr || r.Port != e.Port) {
		return fmt.Sprintf("registered with address %s:%d, configured is %s:%d", r.Address, r.Port, e.Addr, e.Port)
	}
	if r.Name == e.OwnName {
		got, want := append([]string{}, r.Tags...), append([]string{}, e.OwnTags...)
		sort.Strings(got)
		sort.Strings(want)
		if strings.Join(got, "\x00") != strings.Join(want, "\x00") {
			return fmt.Sprintf("registered with tags %q, configured are %q", r.Tags, e.OwnTags)
		}
	}
	checks := append([]*x01Check{}, r.Checks...)
	if r.Check != nil {
		checks = append(checks, r.Check)
	}
	httpOK, ttlOK := "no http health check", "no ttl check with DeregisterCriticalServiceAfter"
	for _, c := range checks {
		if c.HTTP != "" {
			u, err := url.Parse(c.HTTP)
			switch {
			case err != nil:
				httpOK = "health check url does not parse: " + c.HTTP
			case u.Scheme != e.CheckScheme || u.Hostname() != e.Addr || u.Port() != fmt.Sprint(e.Port) || u.Path != "/health":
				httpOK = fmt.Sprintf("health check url %s, documented is %s://%s:%d/health", c.HTTP, e.CheckScheme, e.Addr, e.Port)
			case c.Interval != e.CheckInterval:
				httpOK = fmt.Sprintf("health check interval %s, configured is %s", c.Interval, e.CheckInterval)
			case c.Timeout != e.CheckTimeout:
				httpOK = fmt.Sprintf("health check timeout %s, configured is %s", c.Timeout, e.CheckTimeout)
			case c.TLSSkipVerify != e.TLSSkipVerify:
				httpOK = fmt.Sprintf("health check tlsskipverify %v, configured is %v", c.TLSSkipVerify, e.TLSSkipVerify)
			default:
				httpOK = ""
			}
		}
		if c.TTL != "" {
			d, err := time.ParseDuration(c.TTL)
			_, err2 := time.ParseDuration(c.DeregisterCriticalServiceAfter)
			if err == nil && d > 0 && err2 == nil && c.CheckID != "" {
				ttlOK = ""
			}
		}
	}
	if httpOK != "" {
		return httpOK
	}
	if ttlOK != "" {
		return ttlOK
	}
	return "ok"
}

func (a *X01Agent) serve(w http.ResponseWriter, r *http.Request) bool {
	p := r.URL.Path
	switch {
	case p == "/v1/agent/services" && r.Method == http.MethodGet:
		a.lock()
		a.requests++
		out := map[string]any{}
		for id, s := range a.svcs {
			out[id] = map[string]any{"ID": id, "Service": s.Name, "Tags": s.Tags, "Port": s.Port, "Address": s.Address}
		}
		a.svcsSeen++
		a.F.Log(map[string]any{"ev": "ASvcs", "has": a.namesLocked()})
		a.unlock()
		writeJSON(w, 0, out)
		return true
	case p == "/v1/agent/service/register" && r.Method == http.MethodPut:
		raw, _ := io.ReadAll(r.Body)
		var reg x01Reg
		err := json.Unmarshal(raw, &reg)
		a.lock()
		a.requests++
		if err != nil {
			a.F.Log(map[string]any{"ev": "AReg", "n": "?", "ok": 0, "body": "undecodable: " + err.Error()})
			a.unlock()
			http.Error(w, "bad body", http.StatusBadRequest)
			return true
		}
		body := a.checkBody(&reg)
		if body != "ok" {
			seen := false
			for _, b := range a.bodies {
				seen = seen || b == body
			}
			if !seen && len(a.bodies) < 20 {
				a.bodies = append(a.bodies, body)
			}
		}
		a.regCount[reg.Name]++
		if _, ok := a.firstReg[reg.Name]; !ok {
			a.firstReg[reg.Name] = string(raw)
		}
		if a.failReg > 0 {
			a.failReg--
			a.F.Log(map[string]any{"ev": "AReg", "n": reg.Name, "id": reg.ID, "ok": 0, "body": body})
			a.unlock()
			http.Error(w, "fake consul: injected failure", http.StatusInternalServerError)
			return true
		}
		if _, ok := a.idOf[reg.Name]; !ok {
			a.idOf[reg.Name] = reg.ID
		}
		if _, ok := a.nameOf[reg.ID]; !ok {
			a.nameOf[reg.ID] = reg.Name
		}
		a.svcs[reg.ID] = &reg
		a.ttl[reg.Name] = "crit" // a TTL check starts critical
		for _, c := range append(append([]*x01Check{}, reg.Checks...), reg.Check) {
			if c != nil && c.TTL != "" && c.CheckID != "" {
				a.ttlID[c.CheckID] = reg.Name
			}
		}
		a.F.Log(map[string]any{"ev": "AReg", "n": reg.Name, "id": reg.ID, "ok": 1, "body": body})
		a.unlock()
		w.WriteHeader(http.StatusOK)
		return true
	case strings.HasPrefix(p, "/v1/agent/service/deregister/") && r.Method == http.MethodPut:
		id := strings.TrimPrefix(p, "/v1/agent/service/deregister/")
		a.lock()
		a.requests++
		name := a.nameOf[id]
		if id != "" && name == "" {
			name = "?" + id
		}
		_, had := a.svcs[id]
		if had {
			delete(a.svcs, id)
			delete(a.ttl, name)
			for cid, n := range a.ttlID {
				if n == name {
					delete(a.ttlID, cid)
				}
			}
		}
		a.F.Log(map[string]any{"ev": "ADereg", "n": name, "id": id, "had": b2i(had)})
		a.unlock()
		if !had {
			http.Error(w, "Unknown service ID "+id, http.StatusNotFound)
		} else {
			w.WriteHeader(http.StatusOK)
		}
		return true
	case strings.HasPrefix(p, "/v1/agent/check/update/") && r.Method == http.MethodPut:
		cid := strings.TrimPrefix(p, "/v1/agent/check/update/")
		var upd struct{ Status, Output string }
		raw, _ := io.ReadAll(r.Body)
		json.Unmarshal(raw, &upd)
		a.lock()
		a.requests++
		name, known := a.ttlID[cid]
		attr := name
		if !known { // attribute the request to a name through the id the check would belong to
			attr = a.nameOf[strings.TrimSuffix(cid, "-ttl")]
			if attr == "" && cid != "-ttl" {
				attr = "?" + cid
			}
		}
		if known && upd.Status == "passing" {
			a.ttl[name] = "pass"
		} else if known {
			a.ttl[name] = "crit"
		}
		if attr != "" {
			a.ttlCount[attr]++
			now := time.Now()
			if t, ok := a.lastTTL[attr]; ok && now.Sub(t) > a.maxGap[attr] {
				a.maxGap[attr] = now.Sub(t)
			}
			a.lastTTL[attr] = now
		} else {
			a.anonTTL++
		}
		a.F.Log(map[string]any{"ev": "ATTL", "n": attr, "ok": b2i(known), "status": upd.Status})
		a.unlock()
		if !known {
			http.Error(w, "Unknown check ID "+cid, http.StatusNotFound)
		} else {
			w.WriteHeader(http.StatusOK)
		}
		return true
	}
	return false
}

func b2i(b bool) int {
	if b {
		return 1
	}
	return 0
}
