package verifx

import (
	"net"
	"syscall"
	"unsafe"
)

// sendQueueLen is the number of bytes written to c which the peer's kernel has not yet
// acknowledged (ioctl SIOCOUTQ; the FIN counts as one).
func sendQueueLen(c *net.TCPConn) (int, error) {
	rc, err := c.SyscallConn()
	if err != nil {
		return 0, err
	}
	var n int32
	var ierr error
	err = rc.Control(func(fd uintptr) {
		if _, _, e := syscall.Syscall(syscall.SYS_IOCTL, fd, uintptr(syscall.TIOCOUTQ), uintptr(unsafe.Pointer(&n))); e != 0 {
			ierr = e
		}
	})
	if err != nil {
		return 0, err
	}
	return int(n), ierr
}

func setRcvbuf(fd uintptr, n int) {
	syscall.SetsockoptInt(int(fd), syscall.SOL_SOCKET, syscall.SO_RCVBUF, n)
}
