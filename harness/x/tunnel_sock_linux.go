package verifx

import (
	"net"
	"syscall"
	"unsafe"
)

// sendQueueLen is the number of bytes written to c which the peer's kernel has not yet
// acknowledged (ioctl SIOCOUTQ; the FIN counts as one).
func sendQueueLen(c *net.TCPConn) (int, error) {
	rc, err := c.SyscallConn()
	if err != nil {
		return 0, err
	}
	var n int32
	var ierr error
	err = rc.Control(func(fd uintptr) {
		if _, _, e := syscall.Syscall(syscall.SYS_IOCTL, fd, uintptr(syscall.TIOCOUTQ), uintptr(unsafe.Pointer(&n))); e != 0 {
			ierr = e
		}
	})
	if err != nil {
		return 0, err
	}
	return int(n), ierr
}

func setRcvbuf(fd uintptr, n int) {
	syscall.SetsockoptInt(int(fd), syscall.SOL_SOCKET, syscall.SO_RCVBUF, n)
}

// ReserveDeadPort binds a tcp socket on a loopback port of the private range WITHOUT listening on
// it: a dial to the address is refused, and nobody else can get the port until release is called.
func ReserveDeadPort() (addr string, release func(), err error) {
	for i := 0; i < 200; i++ {
		portMu.Lock()
		port := 20000 + portRand.Intn(12000)
		portMu.Unlock()
		fd, e := syscall.Socket(syscall.AF_INET, syscall.SOCK_STREAM, 0)
		if e != nil {
			return "", nil, e
		}
		sa := &syscall.SockaddrInet4{Port: port, Addr: [4]byte{127, 0, 0, 1}}
		if e = syscall.Bind(fd, sa); e != nil {
			syscall.Close(fd)
			err = e
			continue
		}
		return "127.0.0.1:" + itoa(port), func() { syscall.Close(fd) }, nil
	}
	return "", nil, err
}

func itoa(n int) string {
	if n == 0 {
		return "0"
	}
	var b []byte
	for ; n > 0; n /= 10 {
		b = append([]byte{byte('0' + n%10)}, b...)
	}
	return string(b)
}
