package verifx

// FakeConsul implements the part of the Consul HTTP API that fabio's consul backend uses
// (/v1/agent/self, /v1/health/state/any, /v1/catalog/service/<name>, /v1/kv/<prefix>?recurse)
// with blocking-query semantics (X-Consul-Index, ?index=N blocks until the index is larger).
//
// Its state mirrors the registry variables of spec/ControlPlane.tla: every instance is in one
// of the abstract states absent|pass|fail|maint|bad, every node in ok|maint|serfdown, and the
// KV prefix holds one abstract manual text.  Every state change and every query answer is
// logged as one trace event, under the same mutex that protects the state, so the order of
// the log is the order in which the answers were computed.

import (
	"encoding/base64"
	"encoding/json"
	"fmt"
	"net/http"
	"net/http/httptest"
	"sort"
	"strconv"
	"strings"
	"sync"
)

// FInst is the static description of one service instance.
type FInst struct {
	ID          string // abstract id used by the specification ("a1")
	Node        string // abstract node id used by the specification ("n1")
	NodeName    string // node name on the wire ("" = Node)
	NodeAddr    string
	ServiceID   string
	ServiceName string
	Addr        string // service address ("" = use node address)
	Port        int
	GoodTags    []string
	BadTags     []string // tags used in state "bad" (healthy, but cannot be expressed as commands)
}

type FakeConsul struct {
	mu     sync.Mutex
	cond   *sync.Cond
	Srv    *httptest.Server
	Insts  map[string]*FInst
	Nodes  map[string]string // node -> node address
	Names  map[string]string // node -> node name on the wire
	inst   map[string]string // abstract instance state
	node   map[string]string // abstract node state
	kvAbs  string            // abstract manual text name
	kvText map[string]string // abstract name -> concrete text
	KVPath string            // e.g. "fabio/config"
	hidx   uint64
	kidx   uint64
	closed bool
	T      *Trace

	FailStatus string // status used for a failing check (default "critical")
	// BadTagsFn, when set, supplies the tags of an instance in state "bad"
	BadTagsFn func(id string) []string
	// Ext, when set, is consulted first for every request; it returns true when it served the
	// request (extension point for endpoints this file does not implement: agent service
	// registration, KV writes with CAS, ...).  Use Lock/Unlock/Log to stay consistent with the trace.
	Ext func(w http.ResponseWriter, r *http.Request) bool

	parkedH   map[uint64]int // index -> number of health queries parked at it
	parkedK   map[uint64]int
	failCat   int // number of catalog answers to fail with HTTP 500 (fault injection)
	holdCat   int // number of catalog answers to hold
	heldCat   int // number currently held
	releaseCh chan struct{}
}

func NewFakeConsul(insts []*FInst, kvTexts map[string]string, tr *Trace) *FakeConsul {
	f := &FakeConsul{Insts: map[string]*FInst{}, Nodes: map[string]string{}, Names: map[string]string{}, inst: map[string]string{},
		node: map[string]string{}, kvAbs: "none", kvText: kvTexts, KVPath: "fabio/config",
		hidx: 1, kidx: 1, T: tr, FailStatus: "critical", parkedH: map[uint64]int{}, parkedK: map[uint64]int{}}
	f.cond = sync.NewCond(&f.mu)
	for _, i := range insts {
		f.Insts[i.ID] = i
		f.inst[i.ID] = "absent"
		f.Nodes[i.Node] = i.NodeAddr
		f.Names[i.Node] = i.Node
		if i.NodeName != "" {
			f.Names[i.Node] = i.NodeName
		}
		f.node[i.Node] = "ok"
	}
	f.Srv = httptest.NewServer(http.HandlerFunc(f.serve))
	return f
}

func (f *FakeConsul) Addr() string { return strings.TrimPrefix(f.Srv.URL, "http://") }

// Close releases every parked query and shuts the server down.
func (f *FakeConsul) Close() {
	f.mu.Lock()
	f.closed = true
	f.cond.Broadcast()
	f.mu.Unlock()
	f.Srv.CloseClientConnections()
	f.Srv.Close()
}

func (f *FakeConsul) logLocked(ev map[string]any) {
	if f.T != nil {
		f.T.Add(ev)
	}
}

func (f *FakeConsul) stateEvent(ev string) map[string]any {
	im := map[string]any{}
	for k, v := range f.inst {
		im[k] = v
	}
	nm := map[string]any{}
	for k, v := range f.node {
		nm[k] = v
	}
	return map[string]any{"ev": ev, "inst": im, "node": nm, "kv": f.kvAbs, "hidx": f.hidx, "kidx": f.kidx}
}

// SetInst / SetNode / SetKV / TouchKV are the registry changes of the specification.
func (f *FakeConsul) SetInst(id, state string) {
	f.mu.Lock()
	defer f.mu.Unlock()
	if _, ok := f.Insts[id]; !ok {
		panic("unknown instance " + id)
	}
	if f.inst[id] == state {
		return
	}
	f.inst[id] = state
	f.hidx++
	f.logLocked(f.stateEvent("Reg"))
	f.cond.Broadcast()
}

func (f *FakeConsul) SetNode(n, state string) {
	f.mu.Lock()
	defer f.mu.Unlock()
	if f.node[n] == state {
		return
	}
	f.node[n] = state
	f.hidx++
	f.logLocked(f.stateEvent("Reg"))
	f.cond.Broadcast()
}

func (f *FakeConsul) SetKV(abs string) {
	f.mu.Lock()
	defer f.mu.Unlock()
	if _, ok := f.kvText[abs]; !ok {
		panic("unknown manual text " + abs)
	}
	if f.kvAbs == abs {
		return
	}
	f.kvAbs = abs
	f.kidx++
	f.logLocked(f.stateEvent("Reg"))
	f.cond.Broadcast()
}

// TouchKV bumps the KV index without changing the value (Consul does this whenever another
// key under the prefix's raft index moves); used as a barrier.
func (f *FakeConsul) TouchKV() {
	f.mu.Lock()
	defer f.mu.Unlock()
	f.kidx++
	f.logLocked(f.stateEvent("Reg"))
	f.cond.Broadcast()
}

// FailCatalog makes the next n catalog queries fail with HTTP 500 (logged as CFail events).
func (f *FakeConsul) FailCatalog(n int) {
	f.mu.Lock()
	f.failCat += n
	f.mu.Unlock()
}

// PendingCatalogFaults returns how many armed catalog faults have not fired yet and disarms them.
func (f *FakeConsul) PendingCatalogFaults() int {
	f.mu.Lock()
	defer f.mu.Unlock()
	n := f.failCat
	f.failCat = 0
	return n
}

// HoldCatalog makes the next n catalog answers wait until ReleaseCatalog is called.
func (f *FakeConsul) HoldCatalog(n int) {
	f.mu.Lock()
	f.holdCat += n
	f.mu.Unlock()
}

// WaitCatalogHeld blocks until n catalog queries are being held.
func (f *FakeConsul) WaitCatalogHeld(n int) {
	f.mu.Lock()
	for f.heldCat < n && !f.closed {
		f.cond.Wait()
	}
	f.mu.Unlock()
}

// WaitCatalogHeldOrParked blocks until n catalog queries are being held (true) or the health
// watcher is parked again at the current index without having asked the catalog (false).
func (f *FakeConsul) WaitCatalogHeldOrParked(n int) bool {
	f.mu.Lock()
	defer f.mu.Unlock()
	for f.heldCat < n && f.parkedH[f.hidx] == 0 && !f.closed {
		f.cond.Wait()
	}
	return f.heldCat >= n
}

func (f *FakeConsul) ReleaseCatalog() {
	f.mu.Lock()
	f.holdCat = 0
	f.cond.Broadcast()
	f.mu.Unlock()
}

// WaitParked blocks until a health query and a KV query are parked at the current indices.
func (f *FakeConsul) WaitParked() {
	f.mu.Lock()
	for !(f.parkedH[f.hidx] > 0 && f.parkedK[f.kidx] > 0) && !f.closed {
		f.cond.Wait()
	}
	f.mu.Unlock()
}

// WaitKVParked blocks until a KV query is parked at the current KV index.
func (f *FakeConsul) WaitKVParked() {
	f.mu.Lock()
	for !(f.parkedK[f.kidx] > 0) && !f.closed {
		f.cond.Wait()
	}
	f.mu.Unlock()
}

func (f *FakeConsul) Indices() (uint64, uint64) {
	f.mu.Lock()
	defer f.mu.Unlock()
	return f.hidx, f.kidx
}

// ------------------------------------------------------------------ HTTP

// Lock / Unlock expose the state mutex to extensions; Log adds a trace event (call it with the
// mutex held so that the order of the log is the order of the state changes).
func (f *FakeConsul) Lock()                 { f.mu.Lock() }
func (f *FakeConsul) Unlock()               { f.mu.Unlock() }
func (f *FakeConsul) Log(ev map[string]any) { f.logLocked(ev) }
func (f *FakeConsul) Wake()                 { f.cond.Broadcast() }

func (f *FakeConsul) serve(w http.ResponseWriter, r *http.Request) {
	if f.Ext != nil && f.Ext(w, r) {
		return
	}
	p := r.URL.Path
	switch {
	case p == "/v1/agent/self":
		writeJSON(w, 0, map[string]any{"Config": map[string]any{"Datacenter": "dc1", "NodeName": "fake"}})
	case p == "/v1/health/state/any":
		f.serveHealth(w, r)
	case strings.HasPrefix(p, "/v1/catalog/service/"):
		f.serveCatalog(w, r, strings.TrimPrefix(p, "/v1/catalog/service/"))
	case strings.HasPrefix(p, "/v1/kv/"):
		f.serveKV(w, r, strings.TrimPrefix(p, "/v1/kv/"))
	default:
		http.Error(w, "fake consul: not implemented: "+p, http.StatusNotFound)
	}
}

func writeJSON(w http.ResponseWriter, idx uint64, v any) {
	if idx > 0 {
		w.Header().Set("X-Consul-Index", strconv.FormatUint(idx, 10))
		w.Header().Set("X-Consul-KnownLeader", "true")
		w.Header().Set("X-Consul-LastContact", "0")
	}
	w.Header().Set("Content-Type", "application/json")
	json.NewEncoder(w).Encode(v)
}

func qIndex(r *http.Request) uint64 {
	n, _ := strconv.ParseUint(r.URL.Query().Get("index"), 10, 64)
	return n
}

type fCheck struct {
	Node        string
	CheckID     string
	Name        string
	Status      string
	Notes       string
	Output      string
	ServiceID   string
	ServiceName string
	ServiceTags []string
}

func (f *FakeConsul) tagsLocked(i *FInst) []string {
	if f.inst[i.ID] == "bad" {
		if f.BadTagsFn != nil {
			return f.BadTagsFn(i.ID)
		}
		return i.BadTags
	}
	return i.GoodTags
}

func (f *FakeConsul) checksLocked() []fCheck {
	var cs []fCheck
	var nodes []string
	for n := range f.Nodes {
		nodes = append(nodes, n)
	}
	sort.Strings(nodes)
	for _, n := range nodes {
		st := "passing"
		if f.node[n] == "serfdown" {
			st = "critical"
		}
		cs = append(cs, fCheck{Node: f.Names[n], CheckID: "serfHealth", Name: "Serf Health Status", Status: st})
		if f.node[n] == "maint" {
			cs = append(cs, fCheck{Node: f.Names[n], CheckID: "_node_maintenance", Name: "Node Maintenance Mode", Status: "critical"})
		}
	}
	var ids []string
	for id := range f.Insts {
		ids = append(ids, id)
	}
	sort.Strings(ids)
	for _, id := range ids {
		i := f.Insts[id]
		st := f.inst[id]
		if st == "absent" {
			continue
		}
		status := "passing"
		if st == "fail" {
			status = f.FailStatus
		}
		cs = append(cs, fCheck{Node: f.Names[i.Node], CheckID: "service:" + i.ServiceID, Name: "check " + i.ServiceID, Status: status,
			ServiceID: i.ServiceID, ServiceName: i.ServiceName, ServiceTags: f.tagsLocked(i)})
		if st == "maint" {
			cs = append(cs, fCheck{Node: f.Names[i.Node], CheckID: "_service_maintenance:" + i.ServiceID, Name: "Service Maintenance Mode",
				Status: "critical", ServiceID: i.ServiceID, ServiceName: i.ServiceName, ServiceTags: f.tagsLocked(i)})
		}
	}
	return cs
}

func (f *FakeConsul) serveHealth(w http.ResponseWriter, r *http.Request) {
	idx := qIndex(r)
	f.mu.Lock()
	f.logLocked(map[string]any{"ev": "HReq", "idx": idx})
	f.parkedH[idx]++
	f.cond.Broadcast()
	for f.hidx <= idx && !f.closed {
		f.cond.Wait()
	}
	f.parkedH[idx]--
	if f.closed {
		f.mu.Unlock()
		http.Error(w, "closed", http.StatusInternalServerError)
		return
	}
	cs := f.checksLocked()
	cur := f.hidx
	f.logLocked(map[string]any{"ev": "HResp", "idx": cur})
	f.mu.Unlock()
	writeJSON(w, cur, cs)
}

func (f *FakeConsul) serveCatalog(w http.ResponseWriter, r *http.Request, name string) {
	f.mu.Lock()
	if f.holdCat > 0 {
		f.heldCat++
		f.cond.Broadcast()
		for f.holdCat > 0 && !f.closed {
			f.cond.Wait()
		}
		f.heldCat--
	}
	if f.closed {
		f.mu.Unlock()
		http.Error(w, "closed", http.StatusInternalServerError)
		return
	}
	if f.failCat > 0 {
		f.failCat--
		f.logLocked(map[string]any{"ev": "CFail", "svc": name})
		f.mu.Unlock()
		http.Error(w, "fake consul: injected catalog failure", http.StatusInternalServerError)
		return
	}
	type cs struct {
		ID, Node, Address, Datacenter string
		ServiceID, ServiceName        string
		ServiceAddress                string
		ServiceTags                   []string
		ServicePort                   int
	}
	var out []cs
	var ids []string
	for id := range f.Insts {
		ids = append(ids, id)
	}
	sort.Strings(ids)
	for _, id := range ids {
		i := f.Insts[id]
		if i.ServiceName != name || f.inst[id] == "absent" {
			continue
		}
		out = append(out, cs{ID: "id-" + i.Node, Node: f.Names[i.Node], Address: i.NodeAddr, Datacenter: "dc1", ServiceID: i.ServiceID,
			ServiceName: i.ServiceName, ServiceAddress: i.Addr, ServiceTags: f.tagsLocked(i), ServicePort: i.Port})
	}
	cur := f.hidx
	f.logLocked(map[string]any{"ev": "CResp", "svc": name})
	f.mu.Unlock()
	if out == nil {
		out = []cs{}
	}
	writeJSON(w, cur, out)
}

func (f *FakeConsul) serveKV(w http.ResponseWriter, r *http.Request, key string) {
	if r.Method != http.MethodGet {
		http.Error(w, "fake consul: KV is read-only", http.StatusMethodNotAllowed)
		return
	}
	idx := qIndex(r)
	mine := strings.HasPrefix(f.KVPath, strings.Trim(key, "/")) || strings.HasPrefix(strings.Trim(key, "/"), f.KVPath)
	f.mu.Lock()
	if mine {
		f.logLocked(map[string]any{"ev": "KReq", "idx": idx})
		f.parkedK[idx]++
		f.cond.Broadcast()
	}
	for f.kidx <= idx && !f.closed {
		f.cond.Wait()
	}
	if mine {
		f.parkedK[idx]--
	}
	if f.closed {
		f.mu.Unlock()
		http.Error(w, "closed", http.StatusInternalServerError)
		return
	}
	cur := f.kidx
	text := ""
	if mine {
		text = f.kvText[f.kvAbs]
		f.logLocked(map[string]any{"ev": "KResp", "idx": cur, "val": f.kvAbs})
	}
	f.mu.Unlock()
	if text == "" {
		w.Header().Set("X-Consul-Index", strconv.FormatUint(cur, 10))
		w.WriteHeader(http.StatusNotFound)
		return
	}
	type kvp struct {
		Key                                 string
		CreateIndex, ModifyIndex, LockIndex uint64
		Flags                               uint64
		Value                               string
	}
	writeJSON(w, cur, []kvp{{Key: f.KVPath, CreateIndex: 1, ModifyIndex: cur, Value: base64.StdEncoding.EncodeToString([]byte(text))}})
}

func (f *FakeConsul) String() string {
	f.mu.Lock()
	defer f.mu.Unlock()
	return fmt.Sprintf("inst=%v node=%v kv=%s hidx=%d kidx=%d", f.inst, f.node, f.kvAbs, f.hidx, f.kidx)
}
