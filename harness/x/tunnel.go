package verifx

// Scenario runner for property C09 (tunnels are transparent byte streams), shared by the
// harnesses of package proxy/tcp (tcp, tcp+sni, tcp-dynamic) and package proxy (websocket).
//
// A case is one terminal state printed by spec/Tunnel_MC.tla: the scenario (segments, closing
// behaviour, reply trigger, PROXY option) and the streams the specification delivered.  The
// runner plays the two endpoints over loopback sockets against a real fabio proxy.  Ordering
// is by causality only: the upstream replies when it HAS READ n bytes / EOF, the client of a
// websocket speaks when it HAS READ the 101 response, the verdict is taken when both
// endpoints have seen the end of their connection.  Nothing sleeps.

import (
	"bytes"
	"context"
	"crypto/tls"
	"fmt"
	"io"
	"math/rand"
	"net"
	"os"
	"strconv"
	"strings"
	"sync"
	"sync/atomic"
	"syscall"
	"time"
)

const (
	TokHello1 = 11
	TokHello2 = 12
	TokHdr    = 90
	TokWS101  = 98
)

type TunnelScenario struct {
	Kind    string  `json:"kind"` // tcp | sni | ws
	Proxy   int     `json:"proxy"`
	CSeg    [][]int `json:"cseg"`
	HL      int     `json:"hl"`
	USeg    [][]int `json:"useg"`
	CMode   string  `json:"cmode"` // half | close | wait
	Trig    int     `json:"trig"`  // tokens of the client's stream the upstream reads before replying; -1 = EOF
	UMode   string  `json:"umode"`
	USlow   int     `json:"uslow"`   // 1: the upstream reads only after it has written everything
	RT      int     `json:"rt"`      // 1: the listener has a read timeout and the reply comes after the client was silent for longer
	WT      int     `json:"wt"`      // 1: the listener has a write timeout; the client waits for the reply in mid-stream, is silent for longer than that, then goes on
	Dead    int     `json:"dead"`    // 1: the service has two instances; the dial to the one picked first is refused
	DeadPP  int     `json:"deadpp"`  // the pxyproto option of that instance (the one of the live instance is Proxy)
	DT      int     `json:"dt"`      // 1: the proxy has a dial timeout and the upstream speaks when the tunnel is older than that
	Refresh int     `json:"refresh"` // 1: tcp-dynamic listener of a real fabio process; the tunnel lives across several refreshes
}

type TunnelCase struct {
	Sc     TunnelScenario `json:"sc"`
	USegs  [][]int        `json:"usegs"` // what the upstream writes (Tunnel!USegs: incl. the 101 token on ws)
	UFree  int            `json:"ufree"` // leading segments written without waiting for the trigger
	CRecv  []int          `json:"crecv"` // streams the specification delivered
	URecv  []int          `json:"urecv"`
	CReads bool           `json:"creads"`
	// concretisation, fixed by the check so that a replay is exact
	Path   string `json:"path"`             // tcp | sni | dyn | ws | tls (tcp listener that terminates TLS)
	TLSVer int    `json:"tlsver,omitempty"` // tls: 12 | 13 = the client's maximum TLS version
	Conf   string `json:"conf,omitempty"`   // listener configuration: "" | rt | wt | both (read / write timeout set) | wts | wtsrt (short write timeout, alone / with a long read timeout) | dt
	Cork   bool   `json:"cork,omitempty"`   // tls: last data record and close_notify leave in ONE tcp segment
	Spell  string `json:"spell"`            // tiny | line | big | mix | huge (client token 1 = 256 KiB)
	Hello  string `json:"hello"`            // which captured ClientHello
	Split  int    `json:"split"`            // length of hello token 11 in bytes (< 0: counted from the end, 0: half of the hello)
	ID     int    `json:"id"`
}

// WS101Bytes is the upstream's answer to the upgrade request (token 98).
var WS101Bytes = []byte("HTTP/1.1 101 Switching Protocols\r\nUpgrade: websocket\r\nConnection: Upgrade\r\nSec-WebSocket-Accept: s3pPLMBiTxaQ9kYGzzhZRbK+xOo=\r\n\r\n")

// TunnelSpelling maps the specification's byte tokens to concrete byte strings.
type TunnelSpelling struct {
	Spell string
	Hello []byte
	Split int
	Hdr   []byte
}

var (
	tokMu    sync.Mutex
	tokCache = map[string][]byte{}
	bigSizes = map[int]int{1: 70001, 2: 1, 3: 33000, 4: 5, 5: 150000, 21: 100003, 22: 7, 23: 40000, 24: 1, 25: 65536}
)

func tokBytes(spell string, t int) []byte {
	if spell == "mix" {
		spell = []string{"big", "tiny", "line"}[t%3]
	}
	if spell == "huge" { // one token far larger than a socket buffer, the rest short; upstream messages short
		if t == 1 {
			spell = "huge1"
		} else {
			spell = "line"
		}
	}
	key := spell + ":" + strconv.Itoa(t)
	tokMu.Lock()
	defer tokMu.Unlock()
	if b, ok := tokCache[key]; ok {
		return b
	}
	var b []byte
	switch spell {
	case "tiny":
		b = []byte{byte(0x40 + t)}
	case "line":
		b = []byte(fmt.Sprintf("[tok %02d %s]\r\n", t, strings.Repeat(string(rune('a'+t%26)), 10)))
	case "huge1":
		b = make([]byte, 256*1024+1)
		rand.New(rand.NewSource(424243)).Read(b)
	default: // big
		n := bigSizes[t]
		if n == 0 {
			n = 1000 + t
		}
		b = make([]byte, n)
		rand.New(rand.NewSource(int64(t)*7919 + 13)).Read(b)
	}
	tokCache[key] = b
	return b
}

func (s *TunnelSpelling) split() int {
	k := s.Split
	if k < 0 {
		k += len(s.Hello) // counted from the end of the hello
	}
	if k <= 0 || k >= len(s.Hello) {
		k = len(s.Hello) / 2
	}
	return k
}

func (s *TunnelSpelling) Tok(t int) []byte {
	switch t {
	case TokHello1:
		return s.Hello[:s.split()]
	case TokHello2:
		return s.Hello[s.split():]
	case TokHdr:
		return s.Hdr
	case TokWS101:
		return WS101Bytes
	}
	return tokBytes(s.Spell, t)
}

func (s *TunnelSpelling) Cat(toks []int) []byte {
	var b []byte
	for _, t := range toks {
		b = append(b, s.Tok(t)...)
	}
	return b
}

func flatten(ss [][]int) []int {
	var out []int
	for _, s := range ss {
		out = append(out, s...)
	}
	return out
}

// TunnelEnv is one lane: a proxy address to dial and the listener of the scripted upstream
// the proxy forwards to.
type TunnelEnv struct {
	ProxyAddr string
	UpL       *net.TCPListener
	WS        bool
	// TLSClient != nil: the proxy terminates TLS; the client speaks TLS with this configuration
	// (MaxVersion is set per case).  The tunnelled stream is what the TLS client writes.
	TLSClient *tls.Config
	// Late: in scenarios with a listener read timeout (sc.rt = 1) the upstream lets this much time pass
	// before each triggered write - longer than the timeout.  It creates the situation; no verdict
	// depends on how long anything takes.
	Late time.Duration
	// Before is called with the case before the client connects (e.g. to set the PROXY option).
	Before func(c *TunnelCase)
}

type TunnelResult struct {
	URecv, CRecv []byte // what the endpoints read
	ExpU, ExpC   []byte // what the specification says they read in the end
	UEOF, CEOF   bool
	UErr, CErr   string
	Hang         bool
	NotTunnelled string // the connection never became a tunnel / the scenario could not be set up: no verdict
	HelloEnd     int    // offset in ExpU just behind the ClientHello (sni), else 0
	HdrLen       int
	Dur          time.Duration
	UConnected   bool // the proxy connected to the scripted upstream
}

// UEnd says how the upstream's connection ended: eof | reset | error | open.
func (r *TunnelResult) UEnd() string {
	switch {
	case r.UEOF:
		return "eof"
	case strings.Contains(r.UErr, "reset"):
		return "reset"
	case r.UErr != "":
		return "error"
	}
	return "open"
}

var tunnelHangs int64

// TunnelDeadline is how long a scenario may take before it counts as a hang (inconclusive,
// never a violation).  After a few hangs the remaining scenarios get a shorter leash: the run
// is inconclusive anyway.
func TunnelDeadline() time.Duration {
	if atomic.LoadInt64(&tunnelHangs) >= 4 {
		return 2 * time.Second
	}
	return 10 * time.Second
}

func TunnelHangs() int64 { return atomic.LoadInt64(&tunnelHangs) }

// corkConn lets the client decide how its byte stream is cut into tcp segments: while corked,
// writes are collected and leave in one Write of the underlying connection.
type corkConn struct {
	*net.TCPConn
	mu     sync.Mutex
	corked bool
	buf    []byte
}

func (c *corkConn) Write(p []byte) (int, error) {
	c.mu.Lock()
	defer c.mu.Unlock()
	if c.corked {
		c.buf = append(c.buf, p...)
		return len(p), nil
	}
	return c.TCPConn.Write(p)
}

func (c *corkConn) cork() {
	c.mu.Lock()
	c.corked = true
	c.mu.Unlock()
}

func (c *corkConn) uncork() error {
	c.mu.Lock()
	defer c.mu.Unlock()
	c.corked = false
	b := c.buf
	c.buf = nil
	if len(b) == 0 {
		return nil
	}
	// crypto/tls leaves an expired write deadline behind after close_notify
	c.TCPConn.SetWriteDeadline(time.Time{})
	_, err := c.TCPConn.Write(b)
	return err
}

func (c *corkConn) Close() error {
	c.uncork()
	return c.TCPConn.Close()
}

// tunnelConn is what a scripted endpoint needs of its connection (*net.TCPConn, *tls.Conn).
type tunnelConn interface {
	io.ReadWriteCloser
	CloseWrite() error
}

type tunnelRun struct {
	env        *TunnelEnv
	c          *TunnelCase
	sp         *TunnelSpelling
	res        *TunnelResult
	hdrReady   chan struct{}
	clientGone chan struct{} // closed when the client has closed its connection
	quit       chan struct{} // closed when the run is being torn down
	mu         sync.Mutex
	conns      []net.Conn
	quitOnce   sync.Once
	uconn      atomic.Bool
}

func (r *tunnelRun) track(c net.Conn) {
	r.mu.Lock()
	r.conns = append(r.conns, c)
	r.mu.Unlock()
}

func (r *tunnelRun) closeAll() {
	r.quitOnce.Do(func() { close(r.quit) })
	r.mu.Lock()
	for _, c := range r.conns {
		c.Close()
	}
	r.mu.Unlock()
}

func isClosedErr(err error) bool {
	return err != nil && strings.Contains(err.Error(), "use of closed network connection")
}

// upstream plays the scripted upstream on one accepted connection.
func (r *tunnelRun) upstream(conn *net.TCPConn) {
	defer conn.Close()
	<-r.hdrReady
	c, sp, res := r.c, r.sp, r.res
	if r.env.WS {
		// the relayed upgrade request is not part of the tunnelled stream; read it without
		// consuming a single byte behind it
		var req []byte
		one := make([]byte, 1)
		for !bytes.HasSuffix(req, []byte("\r\n\r\n")) {
			if _, err := io.ReadFull(conn, one); err != nil {
				res.UErr = "reading upgrade request: " + err.Error()
				return
			}
			req = append(req, one[0])
			if len(req) > 1<<16 {
				res.UErr = "upgrade request too long"
				return
			}
		}
	}
	var segs [][]byte
	for _, s := range c.USegs {
		segs = append(segs, sp.Cat(s))
	}
	threshold := -1
	if c.Sc.Trig >= 0 {
		cs := flatten(c.Sc.CSeg)
		if c.Sc.Trig > len(cs) {
			res.UErr = "bad scenario: trigger beyond the client's stream"
			return
		}
		threshold = len(sp.Hdr)*c.Sc.Proxy + len(sp.Cat(cs[:c.Sc.Trig]))
	}
	trigCh := make(chan bool, 2)
	writerDone := make(chan struct{})
	var selfClosed int32
	go func() {
		defer close(writerDone)
		i := 0
		for ; i < c.UFree && i < len(segs); i++ {
			if _, err := conn.Write(segs[i]); err != nil {
				return
			}
		}
		select {
		case ok := <-trigCh:
			if !ok {
				return
			}
		case <-r.quit:
			return
		}
		for ; i < len(segs); i++ {
			if (c.Sc.RT == 1 || c.Sc.DT == 1 || c.Sc.Refresh == 1) && r.env.Late > 0 {
				select {
				case <-time.After(r.env.Late):
				case <-r.quit:
					return
				}
			}
			if _, err := conn.Write(segs[i]); err != nil {
				return
			}
		}
		switch c.Sc.UMode {
		case "close":
			atomic.StoreInt32(&selfClosed, 1)
			conn.Close()
		case "half":
			conn.CloseWrite()
		}
	}()
	fired := false
	if c.Sc.Trig == -2 {
		// "when the client has gone": the client's script closes clientGone after its Close returned
		fired = true
		go func() {
			select {
			case <-r.clientGone:
				trigCh <- true
			case <-r.quit:
			}
		}()
	}
	if c.Sc.USlow == 1 {
		// a slow reader: nothing is read before everything is written
		<-writerDone
	}
	buf := make([]byte, 64*1024)
	var recv []byte
	for {
		if !fired && threshold >= 0 && len(recv) >= threshold {
			fired = true
			trigCh <- true
		}
		n, err := conn.Read(buf)
		recv = append(recv, buf[:n]...)
		if err != nil {
			if err == io.EOF {
				res.UEOF = true
			} else if !(atomic.LoadInt32(&selfClosed) == 1 && isClosedErr(err)) {
				res.UErr = err.Error()
			}
			break
		}
	}
	if !fired {
		if threshold >= 0 && len(recv) >= threshold {
			trigCh <- true
		} else {
			trigCh <- res.UEOF && c.Sc.Trig == -1
		}
	}
	<-writerDone
	res.URecv = recv
}

// client plays the scripted client on a connection to the proxy.  raw is the tcp connection,
// conn what the client reads and writes (raw itself, or the TLS connection on top of it).
func (r *tunnelRun) client(raw *net.TCPConn, conn tunnelConn, cork *corkConn) {
	defer close(r.clientGone)
	defer conn.Close()
	c, sp, res := r.c, r.sp, r.res
	if r.env.WS {
		req := "GET /c09 HTTP/1.1\r\nHost: " + r.env.ProxyAddr + "\r\nUpgrade: websocket\r\nConnection: Upgrade\r\n" +
			"Sec-WebSocket-Key: dGhlIHNhbXBsZSBub25jZQ==\r\nSec-WebSocket-Version: 13\r\n\r\n"
		if _, err := conn.Write([]byte(req)); err != nil {
			res.NotTunnelled = "writing upgrade request: " + err.Error()
			return
		}
	}
	abort := c.Sc.CMode == "abort"
	gate := make(chan bool, 1)
	writerDone := make(chan struct{})
	replyComplete, readerDone := make(chan struct{}), make(chan struct{})
	replyLen := len(sp.Cat(c.CRecv))
	var selfClosed int32
	go func() {
		defer close(writerDone)
		if !<-gate {
			return
		}
		finishes := c.Sc.CMode == "half" || c.Sc.CMode == "close" || abort
		sent, paused := 0, c.Sc.WT != 1
		// Tunnel!CPauseOver: having sent up to the point at which the upstream replies, the client goes on only
		// when it HAS the complete reply - and has then been silent for longer than the listener's write timeout
		pause := func() bool {
			if paused || sent < c.Sc.Trig {
				return true
			}
			paused = true
			if cork != nil {
				cork.uncork() // what has been written so far leaves now: the upstream's reply depends on it
			}
			select {
			case <-replyComplete:
			case <-readerDone:
				select {
				case <-replyComplete:
				default:
					return false
				}
			case <-r.quit:
				return false
			}
			select {
			case <-time.After(r.env.Late): // creates the situation; no verdict depends on how long anything takes
			case <-r.quit:
				return false
			}
			return true
		}
		for i, s := range c.Sc.CSeg {
			if !pause() {
				return
			}
			sent += len(s)
			if cork != nil && c.Cork && finishes && i == len(c.Sc.CSeg)-1 {
				cork.cork() // the last segment travels together with the end of the stream
			}
			if _, err := conn.Write(sp.Cat(s)); err != nil {
				return
			}
		}
		if !pause() {
			return
		}
		switch c.Sc.CMode {
		case "close":
			atomic.StoreInt32(&selfClosed, 1)
			conn.Close()
		case "half", "abort":
			conn.CloseWrite()
			if cork != nil {
				cork.uncork()
			}
		}
	}()
	opened := false
	if !r.env.WS {
		opened = true
		gate <- true
	}
	// an aborting client looks at the upstream's first message but leaves its last byte unread
	need := -1
	if abort {
		need = -1
		for i := 0; i < c.UFree && i < len(c.USegs); i++ {
			need += len(sp.Cat(c.USegs[i]))
		}
		if need < 0 {
			need = 0
		}
	}
	buf := make([]byte, 64*1024)
	var recv []byte
	replySeen := false
	for need < 0 || len(recv) < need {
		b := buf
		if need >= 0 && need-len(recv) < len(b) {
			b = b[:need-len(recv)]
		}
		n, err := conn.Read(b)
		recv = append(recv, buf[:n]...)
		if !replySeen && len(recv) >= replyLen {
			replySeen = true
			close(replyComplete)
		}
		if !opened && len(recv) >= len(WS101Bytes) && bytes.HasPrefix(recv, []byte("HTTP/1.1 101")) {
			opened = true
			gate <- true
		}
		if err != nil {
			if err == io.EOF {
				res.CEOF = true
			} else if !(atomic.LoadInt32(&selfClosed) == 1 && isClosedErr(err)) {
				res.CErr = err.Error()
			}
			break
		}
	}
	close(readerDone)
	if !opened {
		gate <- false
		if r.env.WS {
			head := recv
			if len(head) > 60 {
				head = head[:60]
			}
			res.NotTunnelled = fmt.Sprintf("websocket handshake did not complete (%q)", head)
		}
	}
	<-writerDone
	res.CRecv = recv
	if abort && res.NotTunnelled == "" {
		if res.CEOF || res.CErr != "" || len(recv) < need {
			res.NotTunnelled = fmt.Sprintf("abort scenario not established: client read %d of %d bytes of the first message (eof=%v err=%q)", len(recv), need, res.CEOF, res.CErr)
			return
		}
		// the client leaves only when everything it sent, and its FIN, has been taken over by the
		// proxy's side of the connection (acknowledged): from then on nothing of it is in the
		// client's hands any more and its departure cannot take any of it along
		if err := waitSendQueueEmpty(raw, r.quit, TunnelDeadline()/2); err != nil {
			res.NotTunnelled = "abort scenario not established: " + err.Error()
		}
	}
}

// RunTunnel executes one case in the lane and returns what the endpoints saw.
func RunTunnel(env *TunnelEnv, c *TunnelCase, hello []byte) *TunnelResult {
	sp := &TunnelSpelling{Spell: c.Spell, Hello: hello, Split: c.Split}
	res := &TunnelResult{}
	r := &tunnelRun{env: env, c: c, sp: sp, res: res, hdrReady: make(chan struct{}),
		clientGone: make(chan struct{}), quit: make(chan struct{})}
	deadline := TunnelDeadline()
	t0 := time.Now()
	if env.Before != nil {
		env.Before(c)
	}
	upDone := make(chan struct{})
	drainForeign(env.UpL)
	env.UpL.SetDeadline(t0.Add(deadline))
	go func() {
		defer close(upDone)
		conn, err := env.UpL.AcceptTCP()
		if err != nil {
			res.UErr = "accept: " + err.Error()
			return
		}
		r.track(conn)
		r.uconn.Store(true)
		r.upstream(conn)
	}()
	clDone := make(chan struct{})
	cc, err := net.DialTimeout("tcp", env.ProxyAddr, deadline)
	if err != nil {
		res.NotTunnelled = "dial proxy: " + err.Error()
		close(r.hdrReady)
		close(r.clientGone)
		close(clDone)
	} else {
		tc := cc.(*net.TCPConn)
		r.track(tc)
		la, ra := tc.LocalAddr().(*net.TCPAddr), tc.RemoteAddr().(*net.TCPAddr)
		fam := "TCP4"
		if la.IP.To4() == nil {
			fam = "TCP6"
		}
		// PROXY protocol v1: "PROXY" family source destination source-port destination-port CRLF
		sp.Hdr = []byte(fmt.Sprintf("PROXY %s %s %s %d %d\r\n", fam, la.IP, ra.IP, la.Port, ra.Port))
		close(r.hdrReady)
		go func() {
			defer close(clDone)
			if env.TLSClient == nil {
				r.client(tc, tc, nil)
				return
			}
			cfg := env.TLSClient.Clone()
			cfg.MaxVersion = tls.VersionTLS13
			if c.TLSVer == 12 {
				cfg.MaxVersion = tls.VersionTLS12
			}
			ck := &corkConn{TCPConn: tc}
			tl := tls.Client(ck, cfg)
			tc.SetDeadline(time.Now().Add(deadline))
			if err := tl.Handshake(); err != nil {
				res.NotTunnelled = "tls handshake with the proxy: " + err.Error()
				tc.Close()
				close(r.clientGone)
				return
			}
			tc.SetDeadline(time.Time{})
			r.client(tc, tl, ck)
		}()
	}
	timer := time.NewTimer(deadline)
	defer timer.Stop()
	for i, ch := range []chan struct{}{clDone, upDone} {
		if i == 1 && c.Sc.Dead == 1 && !r.uconn.Load() {
			// the client's connection is over and the proxy has not come to the live instance: after the
			// refused dial it gave the connection up (which the specification allows)
			env.UpL.SetDeadline(time.Now())
		}
		select {
		case <-ch:
		case <-timer.C:
			if !res.Hang {
				res.Hang = true
				atomic.AddInt64(&tunnelHangs, 1)
			}
			r.closeAll()
			env.UpL.SetDeadline(time.Now())
			<-ch
		}
	}
	if n := drainForeign(env.UpL); n > 0 && res.NotTunnelled == "" {
		// somebody else connected to the scripted upstream during the case (another process on a shared
		// machine): the upstream may have played its script on the wrong connection
		res.NotTunnelled = fmt.Sprintf("disturbed: %d further connection(s) arrived at the scripted upstream", n)
	}
	env.UpL.SetDeadline(time.Time{})
	r.closeAll()
	res.Dur = time.Since(t0)
	res.UConnected = r.uconn.Load()
	res.ExpU = sp.Cat(c.URecv)
	res.ExpC = sp.Cat(c.CRecv)
	res.HdrLen = len(sp.Hdr) * c.Sc.Proxy
	if c.Sc.Kind == "sni" {
		res.HelloEnd = res.HdrLen + len(hello)
	}
	return res
}

// DrainListener closes the connections waiting in the listener's queue and returns their number
// (connections of other processes on a shared machine, or ones nobody accepted).
func DrainListener(l *net.TCPListener) int { return drainForeign(l) }

// drainForeign closes the connections waiting in the listener's queue and returns their number.
func drainForeign(l *net.TCPListener) int {
	n := 0
	for {
		l.SetDeadline(time.Now())
		c, err := l.Accept()
		if err != nil {
			return n
		}
		c.Close()
		n++
	}
}

func firstDiff(a, b []byte) int {
	n := len(a)
	if len(b) < n {
		n = len(b)
	}
	for i := 0; i < n; i++ {
		if a[i] != b[i] {
			return i
		}
	}
	return n
}

func around(b []byte, i int) string {
	lo, hi := i-8, i+16
	if lo < 0 {
		lo = 0
	}
	if hi > len(b) {
		hi = len(b)
	}
	return fmt.Sprintf("%q", b[lo:hi])
}

// JudgeTunnel compares the result with the specification's streams.  clause "" = conforms;
// clause "hang" / "not-tunnelled" = no verdict; anything else names the violated clause of C09.
func JudgeTunnel(c *TunnelCase, res *TunnelResult) (clause, msg string) {
	if res.NotTunnelled != "" {
		return "not-tunnelled", res.NotTunnelled
	}
	if c.Sc.Dead == 1 && !res.UConnected {
		// refused dial, no other instance tried: nothing was tunnelled, nothing to judge
		if res.Hang {
			return "hang", "refused dial: the client's connection was not ended"
		}
		return "", ""
	}
	// safety part, valid at any moment: what arrived is a prefix of what was sent (+ PROXY line first)
	if !bytes.HasPrefix(res.ExpU, res.URecv) {
		i := firstDiff(res.ExpU, res.URecv)
		cl := "in-order"
		if c.Sc.Dead == 1 && i == 0 {
			// the instance that took the connection got (or missed) the PROXY line although its own option says otherwise
			cl = "options-of-another-instance"
		} else if c.Sc.Proxy == 1 && i < res.HdrLen {
			cl = "proxy-line-first"
		} else if h := res.HelloEnd; h > 0 && i >= h && len(res.URecv) > h {
			// the ClientHello arrived intact and the stream continues further down: a hole right behind it
			rest := res.URecv[h:]
			for k := 1; h+k <= len(res.ExpU); k++ {
				if bytes.HasPrefix(res.ExpU[h+k:], rest) {
					return "bytes-behind-hello", fmt.Sprintf("upstream got the ClientHello (%d bytes) but the %d byte(s) sent right behind it are missing; stream continues with %s (upstream read %d of %d bytes)",
						h-res.HdrLen, k, around(res.URecv, h), len(res.URecv), len(res.ExpU))
				}
			}
		}
		return cl, fmt.Sprintf("upstream stream differs from what the client sent at offset %d: got %s want %s (read %d bytes, sent %d)",
			i, around(res.URecv, i), around(res.ExpU, i), len(res.URecv), len(res.ExpU))
	}
	if c.CReads && !bytes.HasPrefix(res.ExpC, res.CRecv) {
		i := firstDiff(res.ExpC, res.CRecv)
		return "in-order", fmt.Sprintf("client stream differs from what the upstream sent at offset %d: got %s want %s (read %d bytes, sent %d)",
			i, around(res.CRecv, i), around(res.ExpC, i), len(res.CRecv), len(res.ExpC))
	}
	if res.Hang {
		return "hang", fmt.Sprintf("scenario did not finish (upstream read %d/%d, client read %d/%d; uerr=%q cerr=%q)",
			len(res.URecv), len(res.ExpU), len(res.CRecv), len(res.ExpC), res.UErr, res.CErr)
	}
	cShort := c.CReads && len(res.CRecv) < len(res.ExpC)
	uShort := len(res.URecv) < len(res.ExpU)
	if c.Sc.RT == 1 {
		// a read timeout may legitimately end the client -> upstream direction of a silent client;
		// judged is the reply, which no read timeout has a say about
		uShort = false
	}
	if !cShort && !uShort {
		return "", ""
	}
	detail := fmt.Sprintf("upstream read %d of %d bytes (eof=%v err=%q), client read %d of %d bytes (eof=%v err=%q)",
		len(res.URecv), len(res.ExpU), res.UEOF, res.UErr, len(res.CRecv), len(res.ExpC), res.CEOF, res.CErr)
	switch {
	case (cShort || uShort) && c.Sc.DT == 1:
		return "tunnel-older-than-dial-timeout", "proxy with a dial timeout: data sent when the tunnel was older than that did not arrive: " + detail
	case (cShort || uShort) && c.Sc.Refresh == 1:
		return "tunnel-across-refresh", "tcp-dynamic listener: the tunnel did not survive the refreshes of the listener although its route never changed: " + detail
	case (cShort || uShort) && c.Sc.WT == 1:
		return "silent-client-with-write-timeout", "listener with a write timeout (which limits writes to the client): the client waited for the reply, was silent for longer than that and went on; not everything arrived: " + detail
	case cShort && c.Sc.RT == 1:
		return "reply-after-read-timeout", "listener with a read timeout: the reply which came after the client had been silent for longer than that did not reach the client completely: " + detail
	case uShort && c.Sc.CMode == "abort":
		// the client finished first (everything sent, FIN sent, all of it acknowledged by the proxy's side)
		// and then left; that the opposite direction failed afterwards must not cost the upstream any of it
		return "first-finisher-delivered", "the client finished first and then went away; the upstream -> client direction failed, and data the client had sent before did not reach the (slow) upstream: " + detail
	case cShort && c.Sc.CMode == "half":
		// "a client that half-closes after sending still receives the reply"
		return "half-close-reply", "client half-closed after sending and did not receive the complete reply: " + detail
	case cShort:
		// the client only waits: the upstream is the side that finished first
		return "first-finisher-delivered", "the upstream finished first but its data did not reach the client completely: " + detail
	case uShort && c.Sc.Trig == -1:
		// the upstream speaks only after the client's EOF: the client finished first
		return "first-finisher-delivered", "the client finished first but its data did not reach the upstream completely: " + detail
	default:
		return "every-byte-delivered", "bytes the client sent while the upstream was still reading never arrived: " + detail
	}
}

// ListenFree opens a tcp listener on an explicit free loopback port.
func ListenFree() (*net.TCPListener, string, error) { return ListenFreeRcvbuf(0) }

// ListenFreeRcvbuf is ListenFree with a receive buffer of rcvbuf bytes on the accepted
// connections (0 = default): an endpoint whose kernel holds little, so that what it does not
// read stays queued on the sender's side.
func ListenFreeRcvbuf(rcvbuf int) (*net.TCPListener, string, error) {
	// Ports come from a private range below the kernel's ephemeral range: on a shared machine a
	// just-released ephemeral port is quickly handed to somebody else's listener, and a late client
	// of its previous owner would be taken for the proxy's connection.
	var last error
	for i := 0; i < 200; i++ {
		portMu.Lock()
		port := 20000 + portRand.Intn(12000)
		portMu.Unlock()
		addr := fmt.Sprintf("127.0.0.1:%d", port)
		lc := net.ListenConfig{}
		if rcvbuf > 0 {
			lc.Control = func(network, address string, c syscall.RawConn) error {
				return c.Control(func(fd uintptr) { setRcvbuf(fd, rcvbuf) })
			}
		}
		l, err := lc.Listen(context.Background(), "tcp", addr)
		if err == nil {
			return l.(*net.TCPListener), addr, nil
		}
		last = err
	}
	return nil, "", last
}

var (
	portMu   sync.Mutex
	portRand = rand.New(rand.NewSource(time.Now().UnixNano() ^ int64(os.Getpid())<<20))
)

// waitSendQueueEmpty returns when everything written to c (and its FIN) has been acknowledged
// by the peer's kernel.  It waits for that condition, not for time to pass; the limit only
// turns a scenario that cannot be set up into "no verdict".
func waitSendQueueEmpty(c *net.TCPConn, quit <-chan struct{}, limit time.Duration) error {
	end := time.Now().Add(limit)
	for {
		n, err := sendQueueLen(c)
		if err != nil {
			return err
		}
		if n == 0 {
			return nil
		}
		if time.Now().After(end) {
			return fmt.Errorf("%d bytes of the client's data still unacknowledged after %v (socket buffers too small for this scenario)", n, limit)
		}
		select {
		case <-quit:
			return fmt.Errorf("run ended")
		case <-time.After(200 * time.Microsecond):
		}
	}
}

var (
	probeOnce sync.Once
	probeOK   bool
	probeMsg  string
)

// TCPKeepsQueueAcrossReset probes the assumption the failing-direction scenarios rest on, on a
// DIRECT loopback connection: A sends, half-closes, and when all of it is acknowledged closes
// with unread data (its kernel resets the connection); B then writes to it and reads afterwards.
// True when B still gets all of A's data followed by a clean EOF.
func TCPKeepsQueueAcrossReset() (bool, string) {
	probeOnce.Do(func() {
		l, addr, err := ListenFree()
		if err != nil {
			probeMsg = err.Error()
			return
		}
		defer l.Close()
		type acc struct {
			c   *net.TCPConn
			err error
		}
		ach := make(chan acc, 1)
		go func() { c, err := l.AcceptTCP(); ach <- acc{c, err} }()
		ac, err := net.DialTimeout("tcp", addr, 5*time.Second)
		if err != nil {
			probeMsg = err.Error()
			return
		}
		a := ac.(*net.TCPConn)
		defer a.Close()
		bb := <-ach
		if bb.err != nil {
			probeMsg = bb.err.Error()
			return
		}
		b := bb.c
		defer b.Close()
		a.SetDeadline(time.Now().Add(10 * time.Second))
		b.SetDeadline(time.Now().Add(10 * time.Second))
		data := make([]byte, 24*1024)
		rand.New(rand.NewSource(7)).Read(data)
		if _, err := b.Write([]byte("m1")); err != nil {
			probeMsg = err.Error()
			return
		}
		if _, err := a.Write(data); err != nil {
			probeMsg = err.Error()
			return
		}
		a.CloseWrite()
		one := make([]byte, 1)
		if _, err := io.ReadFull(a, one); err != nil {
			probeMsg = err.Error()
			return
		}
		if err := waitSendQueueEmpty(a, make(chan struct{}), 5*time.Second); err != nil {
			probeMsg = err.Error()
			return
		}
		a.Close() // one byte unread: reset
		b.Write([]byte("m2"))
		got, err := io.ReadAll(b)
		if err != nil || !bytes.Equal(got, data) {
			probeMsg = fmt.Sprintf("after the peer's reset a direct connection delivered %d of %d bytes, err=%v", len(got), len(data), err)
			return
		}
		probeOK = true
	})
	return probeOK, probeMsg
}
