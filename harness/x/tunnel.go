package verifx

// Scenario runner for property C09 (tunnels are transparent byte streams), shared by the
// harnesses of package proxy/tcp (tcp, tcp+sni, tcp-dynamic) and package proxy (websocket).
//
// A case is one terminal state printed by spec/Tunnel_MC.tla: the scenario (segments, closing
// behaviour, reply trigger, PROXY option) and the streams the specification delivered.  The
// runner plays the two endpoints over loopback sockets against a real fabio proxy.  Ordering
// is by causality only: the upstream replies when it HAS READ n bytes / EOF, the client of a
// websocket speaks when it HAS READ the 101 response, the verdict is taken when both
// endpoints have seen the end of their connection.  Nothing sleeps.

import (
	"bytes"
	"fmt"
	"io"
	"math/rand"
	"net"
	"strconv"
	"strings"
	"sync"
	"sync/atomic"
	"time"
)

const (
	TokHello1 = 11
	TokHello2 = 12
	TokHdr    = 90
	TokWS101  = 98
)

type TunnelScenario struct {
	Kind  string  `json:"kind"` // tcp | sni | ws
	Proxy int     `json:"proxy"`
	CSeg  [][]int `json:"cseg"`
	HL    int     `json:"hl"`
	USeg  [][]int `json:"useg"`
	CMode string  `json:"cmode"` // half | close | wait
	Trig  int     `json:"trig"`  // tokens of the client's stream the upstream reads before replying; -1 = EOF
	UMode string  `json:"umode"`
}

type TunnelCase struct {
	Sc     TunnelScenario `json:"sc"`
	USegs  [][]int        `json:"usegs"` // what the upstream writes (Tunnel!USegs: incl. the 101 token on ws)
	UFree  int            `json:"ufree"` // leading segments written without waiting for the trigger
	CRecv  []int          `json:"crecv"` // streams the specification delivered
	URecv  []int          `json:"urecv"`
	CReads bool           `json:"creads"`
	// concretisation, fixed by the check so that a replay is exact
	Path  string `json:"path"`  // tcp | sni | dyn | ws
	Spell string `json:"spell"` // tiny | line | big | mix
	Hello string `json:"hello"` // which captured ClientHello
	Split int    `json:"split"` // length of hello token 11 in bytes (< 0: counted from the end, 0: half of the hello)
	ID    int    `json:"id"`
}

// WS101Bytes is the upstream's answer to the upgrade request (token 98).
var WS101Bytes = []byte("HTTP/1.1 101 Switching Protocols\r\nUpgrade: websocket\r\nConnection: Upgrade\r\nSec-WebSocket-Accept: s3pPLMBiTxaQ9kYGzzhZRbK+xOo=\r\n\r\n")

// TunnelSpelling maps the specification's byte tokens to concrete byte strings.
type TunnelSpelling struct {
	Spell string
	Hello []byte
	Split int
	Hdr   []byte
}

var (
	tokMu    sync.Mutex
	tokCache = map[string][]byte{}
	bigSizes = map[int]int{1: 70001, 2: 1, 3: 33000, 4: 5, 5: 150000, 21: 100003, 22: 7, 23: 40000, 24: 1, 25: 65536}
)

func tokBytes(spell string, t int) []byte {
	if spell == "mix" {
		spell = []string{"big", "tiny", "line"}[t%3]
	}
	key := spell + ":" + strconv.Itoa(t)
	tokMu.Lock()
	defer tokMu.Unlock()
	if b, ok := tokCache[key]; ok {
		return b
	}
	var b []byte
	switch spell {
	case "tiny":
		b = []byte{byte(0x40 + t)}
	case "line":
		b = []byte(fmt.Sprintf("[tok %02d %s]\r\n", t, strings.Repeat(string(rune('a'+t%26)), 10)))
	default: // big
		n := bigSizes[t]
		if n == 0 {
			n = 1000 + t
		}
		b = make([]byte, n)
		rand.New(rand.NewSource(int64(t)*7919 + 13)).Read(b)
	}
	tokCache[key] = b
	return b
}

func (s *TunnelSpelling) split() int {
	k := s.Split
	if k < 0 {
		k += len(s.Hello) // counted from the end of the hello
	}
	if k <= 0 || k >= len(s.Hello) {
		k = len(s.Hello) / 2
	}
	return k
}

func (s *TunnelSpelling) Tok(t int) []byte {
	switch t {
	case TokHello1:
		return s.Hello[:s.split()]
	case TokHello2:
		return s.Hello[s.split():]
	case TokHdr:
		return s.Hdr
	case TokWS101:
		return WS101Bytes
	}
	return tokBytes(s.Spell, t)
}

func (s *TunnelSpelling) Cat(toks []int) []byte {
	var b []byte
	for _, t := range toks {
		b = append(b, s.Tok(t)...)
	}
	return b
}

func flatten(ss [][]int) []int {
	var out []int
	for _, s := range ss {
		out = append(out, s...)
	}
	return out
}

// TunnelEnv is one lane: a proxy address to dial and the listener of the scripted upstream
// the proxy forwards to.
type TunnelEnv struct {
	ProxyAddr string
	UpL       *net.TCPListener
	WS        bool
	// Before is called with the case before the client connects (e.g. to set the PROXY option).
	Before func(c *TunnelCase)
}

type TunnelResult struct {
	URecv, CRecv []byte // what the endpoints read
	ExpU, ExpC   []byte // what the specification says they read in the end
	UEOF, CEOF   bool
	UErr, CErr   string
	Hang         bool
	NotTunnelled string // the connection never became a tunnel (websocket handshake refused, dial failed): no verdict
	HelloEnd     int    // offset in ExpU just behind the ClientHello (sni), else 0
	HdrLen       int
	Dur          time.Duration
}

var tunnelHangs int64

// TunnelDeadline is how long a scenario may take before it counts as a hang (inconclusive,
// never a violation).  After a few hangs the remaining scenarios get a shorter leash: the run
// is inconclusive anyway.
func TunnelDeadline() time.Duration {
	if atomic.LoadInt64(&tunnelHangs) >= 4 {
		return 2 * time.Second
	}
	return 10 * time.Second
}

func TunnelHangs() int64 { return atomic.LoadInt64(&tunnelHangs) }

type tunnelRun struct {
	env      *TunnelEnv
	c        *TunnelCase
	sp       *TunnelSpelling
	res      *TunnelResult
	hdrReady chan struct{}
	mu       sync.Mutex
	conns    []net.Conn
}

func (r *tunnelRun) track(c net.Conn) {
	r.mu.Lock()
	r.conns = append(r.conns, c)
	r.mu.Unlock()
}

func (r *tunnelRun) closeAll() {
	r.mu.Lock()
	for _, c := range r.conns {
		c.Close()
	}
	r.mu.Unlock()
}

func isClosedErr(err error) bool {
	return err != nil && strings.Contains(err.Error(), "use of closed network connection")
}

// upstream plays the scripted upstream on one accepted connection.
func (r *tunnelRun) upstream(conn *net.TCPConn) {
	defer conn.Close()
	<-r.hdrReady
	c, sp, res := r.c, r.sp, r.res
	if r.env.WS {
		// the relayed upgrade request is not part of the tunnelled stream; read it without
		// consuming a single byte behind it
		var req []byte
		one := make([]byte, 1)
		for !bytes.HasSuffix(req, []byte("\r\n\r\n")) {
			if _, err := io.ReadFull(conn, one); err != nil {
				res.UErr = "reading upgrade request: " + err.Error()
				return
			}
			req = append(req, one[0])
			if len(req) > 1<<16 {
				res.UErr = "upgrade request too long"
				return
			}
		}
	}
	var segs [][]byte
	for _, s := range c.USegs {
		segs = append(segs, sp.Cat(s))
	}
	threshold := -1
	if c.Sc.Trig >= 0 {
		cs := flatten(c.Sc.CSeg)
		if c.Sc.Trig > len(cs) {
			res.UErr = "bad scenario: trigger beyond the client's stream"
			return
		}
		threshold = len(sp.Hdr)*c.Sc.Proxy + len(sp.Cat(cs[:c.Sc.Trig]))
	}
	trigCh := make(chan bool, 1)
	writerDone := make(chan struct{})
	var selfClosed int32
	go func() {
		defer close(writerDone)
		i := 0
		for ; i < c.UFree && i < len(segs); i++ {
			if _, err := conn.Write(segs[i]); err != nil {
				return
			}
		}
		if !<-trigCh {
			return
		}
		for ; i < len(segs); i++ {
			if _, err := conn.Write(segs[i]); err != nil {
				return
			}
		}
		switch c.Sc.UMode {
		case "close":
			atomic.StoreInt32(&selfClosed, 1)
			conn.Close()
		case "half":
			conn.CloseWrite()
		}
	}()
	fired := false
	buf := make([]byte, 64*1024)
	var recv []byte
	for {
		if !fired && threshold >= 0 && len(recv) >= threshold {
			fired = true
			trigCh <- true
		}
		n, err := conn.Read(buf)
		recv = append(recv, buf[:n]...)
		if err != nil {
			if err == io.EOF {
				res.UEOF = true
			} else if !(atomic.LoadInt32(&selfClosed) == 1 && isClosedErr(err)) {
				res.UErr = err.Error()
			}
			break
		}
	}
	if !fired {
		if threshold >= 0 && len(recv) >= threshold {
			trigCh <- true
		} else {
			trigCh <- res.UEOF && c.Sc.Trig == -1
		}
	}
	<-writerDone
	res.URecv = recv
}

// client plays the scripted client on a connection to the proxy.
func (r *tunnelRun) client(conn *net.TCPConn) {
	defer conn.Close()
	c, sp, res := r.c, r.sp, r.res
	if r.env.WS {
		req := "GET /c09 HTTP/1.1\r\nHost: " + r.env.ProxyAddr + "\r\nUpgrade: websocket\r\nConnection: Upgrade\r\n" +
			"Sec-WebSocket-Key: dGhlIHNhbXBsZSBub25jZQ==\r\nSec-WebSocket-Version: 13\r\n\r\n"
		if _, err := conn.Write([]byte(req)); err != nil {
			res.NotTunnelled = "writing upgrade request: " + err.Error()
			return
		}
	}
	gate := make(chan bool, 1)
	writerDone := make(chan struct{})
	var selfClosed int32
	go func() {
		defer close(writerDone)
		if !<-gate {
			return
		}
		for _, s := range c.Sc.CSeg {
			if _, err := conn.Write(sp.Cat(s)); err != nil {
				return
			}
		}
		switch c.Sc.CMode {
		case "close":
			atomic.StoreInt32(&selfClosed, 1)
			conn.Close()
		case "half":
			conn.CloseWrite()
		}
	}()
	opened := false
	if !r.env.WS {
		opened = true
		gate <- true
	}
	buf := make([]byte, 64*1024)
	var recv []byte
	for {
		n, err := conn.Read(buf)
		recv = append(recv, buf[:n]...)
		if !opened && len(recv) >= len(WS101Bytes) && bytes.HasPrefix(recv, []byte("HTTP/1.1 101")) {
			opened = true
			gate <- true
		}
		if err != nil {
			if err == io.EOF {
				res.CEOF = true
			} else if !(atomic.LoadInt32(&selfClosed) == 1 && isClosedErr(err)) {
				res.CErr = err.Error()
			}
			break
		}
	}
	if !opened {
		gate <- false
		if r.env.WS {
			head := recv
			if len(head) > 60 {
				head = head[:60]
			}
			res.NotTunnelled = fmt.Sprintf("websocket handshake did not complete (%q)", head)
		}
	}
	<-writerDone
	res.CRecv = recv
}

// RunTunnel executes one case in the lane and returns what the endpoints saw.
func RunTunnel(env *TunnelEnv, c *TunnelCase, hello []byte) *TunnelResult {
	sp := &TunnelSpelling{Spell: c.Spell, Hello: hello, Split: c.Split}
	res := &TunnelResult{}
	r := &tunnelRun{env: env, c: c, sp: sp, res: res, hdrReady: make(chan struct{})}
	deadline := TunnelDeadline()
	t0 := time.Now()
	if env.Before != nil {
		env.Before(c)
	}
	upDone := make(chan struct{})
	env.UpL.SetDeadline(t0.Add(deadline))
	go func() {
		defer close(upDone)
		conn, err := env.UpL.AcceptTCP()
		if err != nil {
			res.UErr = "accept: " + err.Error()
			return
		}
		r.track(conn)
		r.upstream(conn)
	}()
	clDone := make(chan struct{})
	cc, err := net.DialTimeout("tcp", env.ProxyAddr, deadline)
	if err != nil {
		res.NotTunnelled = "dial proxy: " + err.Error()
		close(r.hdrReady)
		close(clDone)
	} else {
		tc := cc.(*net.TCPConn)
		r.track(tc)
		la, ra := tc.LocalAddr().(*net.TCPAddr), tc.RemoteAddr().(*net.TCPAddr)
		fam := "TCP4"
		if la.IP.To4() == nil {
			fam = "TCP6"
		}
		// PROXY protocol v1: "PROXY" family source destination source-port destination-port CRLF
		sp.Hdr = []byte(fmt.Sprintf("PROXY %s %s %s %d %d\r\n", fam, la.IP, ra.IP, la.Port, ra.Port))
		close(r.hdrReady)
		go func() {
			defer close(clDone)
			r.client(tc)
		}()
	}
	timer := time.NewTimer(deadline)
	defer timer.Stop()
	for _, ch := range []chan struct{}{clDone, upDone} {
		select {
		case <-ch:
		case <-timer.C:
			if !res.Hang {
				res.Hang = true
				atomic.AddInt64(&tunnelHangs, 1)
			}
			r.closeAll()
			env.UpL.SetDeadline(time.Now())
			<-ch
		}
	}
	env.UpL.SetDeadline(time.Time{})
	r.closeAll()
	res.Dur = time.Since(t0)
	res.ExpU = sp.Cat(c.URecv)
	res.ExpC = sp.Cat(c.CRecv)
	res.HdrLen = len(sp.Hdr) * c.Sc.Proxy
	if c.Sc.Kind == "sni" {
		res.HelloEnd = res.HdrLen + len(hello)
	}
	return res
}

func firstDiff(a, b []byte) int {
	n := len(a)
	if len(b) < n {
		n = len(b)
	}
	for i := 0; i < n; i++ {
		if a[i] != b[i] {
			return i
		}
	}
	return n
}

func around(b []byte, i int) string {
	lo, hi := i-8, i+16
	if lo < 0 {
		lo = 0
	}
	if hi > len(b) {
		hi = len(b)
	}
	return fmt.Sprintf("%q", b[lo:hi])
}

// JudgeTunnel compares the result with the specification's streams.  clause "" = conforms;
// clause "hang" / "not-tunnelled" = no verdict; anything else names the violated clause of C09.
func JudgeTunnel(c *TunnelCase, res *TunnelResult) (clause, msg string) {
	// safety part, valid at any moment: what arrived is a prefix of what was sent (+ PROXY line first)
	if !bytes.HasPrefix(res.ExpU, res.URecv) {
		i := firstDiff(res.ExpU, res.URecv)
		cl := "in-order"
		if c.Sc.Proxy == 1 && i < res.HdrLen {
			cl = "proxy-line-first"
		} else if h := res.HelloEnd; h > 0 && i >= h && len(res.URecv) > h {
			// the ClientHello arrived intact and the stream continues further down: a hole right behind it
			rest := res.URecv[h:]
			for k := 1; h+k <= len(res.ExpU); k++ {
				if bytes.HasPrefix(res.ExpU[h+k:], rest) {
					return "bytes-behind-hello", fmt.Sprintf("upstream got the ClientHello (%d bytes) but the %d byte(s) sent right behind it are missing; stream continues with %s (upstream read %d of %d bytes)",
						h-res.HdrLen, k, around(res.URecv, h), len(res.URecv), len(res.ExpU))
				}
			}
		}
		return cl, fmt.Sprintf("upstream stream differs from what the client sent at offset %d: got %s want %s (read %d bytes, sent %d)",
			i, around(res.URecv, i), around(res.ExpU, i), len(res.URecv), len(res.ExpU))
	}
	if c.CReads && !bytes.HasPrefix(res.ExpC, res.CRecv) {
		i := firstDiff(res.ExpC, res.CRecv)
		return "in-order", fmt.Sprintf("client stream differs from what the upstream sent at offset %d: got %s want %s (read %d bytes, sent %d)",
			i, around(res.CRecv, i), around(res.ExpC, i), len(res.CRecv), len(res.ExpC))
	}
	if res.NotTunnelled != "" {
		return "not-tunnelled", res.NotTunnelled
	}
	if res.Hang {
		return "hang", fmt.Sprintf("scenario did not finish (upstream read %d/%d, client read %d/%d; uerr=%q cerr=%q)",
			len(res.URecv), len(res.ExpU), len(res.CRecv), len(res.ExpC), res.UErr, res.CErr)
	}
	cShort := c.CReads && len(res.CRecv) < len(res.ExpC)
	uShort := len(res.URecv) < len(res.ExpU)
	if !cShort && !uShort {
		return "", ""
	}
	detail := fmt.Sprintf("upstream read %d of %d bytes (eof=%v err=%q), client read %d of %d bytes (eof=%v err=%q)",
		len(res.URecv), len(res.ExpU), res.UEOF, res.UErr, len(res.CRecv), len(res.ExpC), res.CEOF, res.CErr)
	switch {
	case cShort && c.Sc.CMode == "half":
		// "a client that half-closes after sending still receives the reply"
		return "half-close-reply", "client half-closed after sending and did not receive the complete reply: " + detail
	case cShort:
		// the client only waits: the upstream is the side that finished first
		return "first-finisher-delivered", "the upstream finished first but its data did not reach the client completely: " + detail
	case uShort && c.Sc.Trig == -1:
		// the upstream speaks only after the client's EOF: the client finished first
		return "first-finisher-delivered", "the client finished first but its data did not reach the upstream completely: " + detail
	default:
		return "every-byte-delivered", "bytes the client sent while the upstream was still reading never arrived: " + detail
	}
}

// ListenFree opens a tcp listener on an explicit free loopback port.
func ListenFree() (*net.TCPListener, string, error) {
	var last error
	for i := 0; i < 50; i++ {
		l0, err := net.Listen("tcp", "127.0.0.1:0")
		if err != nil {
			return nil, "", err
		}
		addr := l0.Addr().String()
		l0.Close()
		l, err := net.Listen("tcp", addr)
		if err == nil {
			return l.(*net.TCPListener), addr, nil
		}
		last = err
	}
	return nil, "", last
}
