//go:build !linux

package verifx

import (
	"errors"
	"net"
)

func sendQueueLen(c *net.TCPConn) (int, error) {
	return 0, errors.New("send queue length not available on this platform")
}

func setRcvbuf(fd uintptr, n int) {}

func ReserveDeadPort() (string, func(), error) {
	return "", nil, errors.New("not available on this platform")
}
