package verifx

import (
	"sync/atomic"
	"time"
)

// Stall detects that the test process was not running for a while (frozen VM, swapped out,
// starved of CPU): a goroutine ticks every 5 ms and remembers the largest distance between two
// ticks.  A verdict that depends on wall-clock time is only valid when the process was alive
// during the measurement; harnesses void (and repeat) measurements taken across a stall.
type Stall struct {
	stop chan struct{}
	done chan struct{}
	max  int64
}

func WatchStalls() *Stall {
	s := &Stall{stop: make(chan struct{}), done: make(chan struct{})}
	go func() {
		defer close(s.done)
		tk := time.NewTicker(5 * time.Millisecond)
		defer tk.Stop()
		last := time.Now()
		for {
			select {
			case <-s.stop:
				s.note(time.Since(last))
				return
			case <-tk.C:
				now := time.Now()
				s.note(now.Sub(last))
				last = now
			}
		}
	}()
	return s
}

func (s *Stall) note(d time.Duration) {
	for {
		m := atomic.LoadInt64(&s.max)
		if int64(d) <= m || atomic.CompareAndSwapInt64(&s.max, m, int64(d)) {
			return
		}
	}
}

// Stop ends the watch and returns the longest stall seen.
func (s *Stall) Stop() time.Duration {
	close(s.stop)
	<-s.done
	return time.Duration(atomic.LoadInt64(&s.max))
}
