package verifx

// An instance that is DOWN for the length of a test: a TCP port that is bound (so that no other
// process of the box can be given it - a port obtained by listen-and-close is handed out again by
// the kernel, and then "the instance that is down" answers) but never listens: every connection
// attempt is refused.

import (
	"fmt"
	"syscall"
)

func C12DownAddr() (addr string, release func(), err error) {
	fd, err := syscall.Socket(syscall.AF_INET, syscall.SOCK_STREAM, 0)
	if err != nil {
		return "", nil, err
	}
	if err = syscall.Bind(fd, &syscall.SockaddrInet4{Port: 0, Addr: [4]byte{127, 0, 0, 1}}); err != nil {
		syscall.Close(fd)
		return "", nil, err
	}
	sa, err := syscall.Getsockname(fd)
	if err != nil {
		syscall.Close(fd)
		return "", nil, err
	}
	in4, ok := sa.(*syscall.SockaddrInet4)
	if !ok || in4.Port == 0 {
		syscall.Close(fd)
		return "", nil, fmt.Errorf("no port bound")
	}
	return fmt.Sprintf("127.0.0.1:%d", in4.Port), func() { syscall.Close(fd) }, nil
}
