package verifx

// X02KV is a small fake of Consul's KV store with the documented semantics fabio relies on:
//
//	GET    /v1/kv/<key>            one key; X-Consul-Index = ModifyIndex of the key, or the index of
//	                               the KV table when the key does not exist (404, never index 0)
//	GET    /v1/kv/<prefix>?recurse all keys below the prefix in key order; X-Consul-Index = largest
//	                               ModifyIndex / graveyard index below the prefix, or the table index
//	                               when there never was anything; ?index=N blocks while index <= N
//	PUT    /v1/kv/<key>[?cas=N]    cas=0: only if the key does not exist; cas=N: only if N is the
//	                               key's ModifyIndex; answer "true"/"false"
//	DELETE /v1/kv/<key>[?recurse][?cas=N]
//
// Its state mirrors the KV variables of spec/AdminKV.tla (documents with ModifyIndex, table index,
// graveyard index per prefix).  Every state change and every answer is computed under one mutex and
// logged there as one trace event, so the order of the log is the order of the linearization points.
// It is attached to a FakeConsul (which keeps serving health and catalog) through FakeConsul.Ext.
//
// Stride: every modification moves the table index to the next multiple of Stride, a Touch (the
// harness's quiescence barrier: the index of a prefix moves without any document changing) moves it
// by one.  With Stride = 1 the indices are exactly those of the specification.

import (
	"encoding/base64"
	"io"
	"net/http"
	"sort"
	"strconv"
	"strings"
	"sync"
)

type x02Ent struct {
	val    string
	ci, mi uint64
}

type X02Held struct {
	Key string
	Cas uint64
	Val string
	rel chan struct{}
}

type X02Doc struct {
	Val string
	MI  uint64
}

type X02KV struct {
	mu     sync.Mutex
	cond   *sync.Cond
	Stride uint64
	gidx   uint64
	keys   map[string]*x02Ent
	tombs  map[string]uint64
	parked map[string]map[uint64]int
	gate   bool
	held   []*X02Held
	sig    chan struct{} // signalled whenever a request is held at the gate
	closed bool

	T   *Trace
	Man string // key of the manual overrides ("fabio/config"); sub-keys are Man+"/..."
	Nr  string // key of the no-route page
	// AbsVal maps a stored text to the token used in trace events; AbsPath a manual key to its path token
	AbsVal  func(string) string
	AbsPath func(string) string
}

func NewX02KV(man, nr string, stride uint64, tr *Trace) *X02KV {
	k := &X02KV{Stride: stride, gidx: stride, keys: map[string]*x02Ent{}, tombs: map[string]uint64{},
		parked: map[string]map[uint64]int{}, T: tr, Man: man, Nr: nr, sig: make(chan struct{}, 1),
		AbsVal: func(s string) string { return s }, AbsPath: func(s string) string { return s }}
	if k.Stride == 0 {
		k.Stride, k.gidx = 1, 1
	}
	k.cond = sync.NewCond(&k.mu)
	return k
}

// Attach makes the fake Consul serve /v1/kv/ from this store.
func (k *X02KV) Attach(f *FakeConsul) { f.Ext = k.Serve }

func (k *X02KV) Close() {
	k.mu.Lock()
	k.closed = true
	for _, h := range k.held {
		close(h.rel)
	}
	k.held = nil
	k.cond.Broadcast()
	k.mu.Unlock()
}

func (k *X02KV) log(ev map[string]any) {
	if k.T != nil {
		k.T.Add(ev)
	}
}

func (k *X02KV) isMan(key string) bool { return key == k.Man || strings.HasPrefix(key, k.Man+"/") }

func (k *X02KV) bump() uint64 {
	k.gidx = (k.gidx/k.Stride + 1) * k.Stride
	return k.gidx
}

func (k *X02KV) listIdx(prefix string) uint64 {
	var m uint64
	for key, e := range k.keys {
		if strings.HasPrefix(key, prefix) && e.mi > m {
			m = e.mi
		}
	}
	for key, t := range k.tombs {
		if strings.HasPrefix(key, prefix) && t > m {
			m = t
		}
	}
	if m == 0 {
		return k.gidx
	}
	return m
}

func (k *X02KV) content(prefix string) []any {
	var ks []string
	for key := range k.keys {
		if strings.HasPrefix(key, prefix) {
			ks = append(ks, key)
		}
	}
	sort.Strings(ks)
	c := []any{}
	for _, key := range ks {
		c = append(c, map[string]any{"p": k.AbsPath(key), "val": k.AbsVal(k.keys[key].val)})
	}
	return c
}

// ---------------------------------------------------------------- direct ("external") changes

func (k *X02KV) storeLocked(key, val string) uint64 {
	idx := k.bump()
	e := k.keys[key]
	if e == nil {
		e = &x02Ent{ci: idx}
		k.keys[key] = e
	}
	e.val, e.mi = val, idx
	k.cond.Broadcast()
	return idx
}

func (k *X02KV) deleteLocked(key string) (uint64, bool) {
	if k.keys[key] == nil {
		return k.gidx, false
	}
	idx := k.bump()
	delete(k.keys, key)
	k.tombs[key] = idx
	k.cond.Broadcast()
	return idx, true
}

// ExtPut is `consul kv put key val` by somebody else.
func (k *X02KV) ExtPut(key, val string) uint64 {
	k.mu.Lock()
	defer k.mu.Unlock()
	idx := k.storeLocked(key, val)
	if k.isMan(key) {
		k.log(map[string]any{"ev": "Ext", "p": k.AbsPath(key), "val": k.AbsVal(val), "idx": idx})
	} else if key == k.Nr {
		k.log(map[string]any{"ev": "NrSet", "val": k.AbsVal(val), "idx": idx})
	}
	return idx
}

// ExtDelete is `consul kv delete key`; deleting a missing key changes nothing.
func (k *X02KV) ExtDelete(key string) bool {
	k.mu.Lock()
	defer k.mu.Unlock()
	idx, ok := k.deleteLocked(key)
	if !ok {
		return false
	}
	if k.isMan(key) {
		k.log(map[string]any{"ev": "Del", "p": k.AbsPath(key), "idx": idx})
	} else if key == k.Nr {
		k.log(map[string]any{"ev": "NrDel", "idx": idx})
	}
	return true
}

// Touch moves the index of the prefix without changing a document (in Consul: a key below the
// prefix that leaves no content behind was written and removed).
func (k *X02KV) Touch(prefix string) {
	k.mu.Lock()
	defer k.mu.Unlock()
	k.gidx++
	k.tombs[prefix+"\x00touch"] = k.gidx
	if prefix == k.Man {
		k.log(map[string]any{"ev": "Touch", "idx": k.gidx})
	} else if prefix == k.Nr {
		k.log(map[string]any{"ev": "NrTouch", "idx": k.gidx})
	}
	k.cond.Broadcast()
}

// ---------------------------------------------------------------- observation and control

func (k *X02KV) Snapshot() (map[string]X02Doc, uint64) {
	k.mu.Lock()
	defer k.mu.Unlock()
	m := map[string]X02Doc{}
	for key, e := range k.keys {
		m[key] = X02Doc{e.val, e.mi}
	}
	return m, k.gidx
}

// WaitParked blocks until a blocking list query of the prefix is parked at the prefix's current index.
func (k *X02KV) WaitParked(prefix string) {
	k.mu.Lock()
	for !(k.parked[prefix][k.listIdx(prefix)] > 0) && !k.closed {
		k.cond.Wait()
	}
	k.mu.Unlock()
}

// SetGate: while the gate is on every PUT is held before it is evaluated until Release.
func (k *X02KV) SetGate(on bool) {
	k.mu.Lock()
	k.gate = on
	k.mu.Unlock()
}

// WaitHeld blocks until a PUT accepted by match is being held and returns it.
func (k *X02KV) WaitHeld(match func(h *X02Held) bool) *X02Held {
	k.mu.Lock()
	defer k.mu.Unlock()
	for !k.closed {
		for _, h := range k.held {
			if match(h) {
				return h
			}
		}
		k.cond.Wait()
	}
	return nil
}

// TryHeld returns a held PUT accepted by match, or nil; HeldSignal is signalled whenever a PUT
// arrives at the gate (so that a driver can wait for "held or answered" without polling).
func (k *X02KV) TryHeld(match func(h *X02Held) bool) *X02Held {
	k.mu.Lock()
	defer k.mu.Unlock()
	for _, h := range k.held {
		if match(h) {
			return h
		}
	}
	return nil
}

func (k *X02KV) HeldSignal() <-chan struct{} { return k.sig }

func (k *X02KV) HeldCount() int {
	k.mu.Lock()
	defer k.mu.Unlock()
	return len(k.held)
}

func (k *X02KV) Release(h *X02Held) {
	k.mu.Lock()
	for i, x := range k.held {
		if x == h {
			k.held = append(k.held[:i], k.held[i+1:]...)
			close(h.rel)
			break
		}
	}
	k.mu.Unlock()
}

func (k *X02KV) ReleaseAll() {
	k.mu.Lock()
	for _, h := range k.held {
		close(h.rel)
	}
	k.held = nil
	k.mu.Unlock()
}

// ---------------------------------------------------------------- HTTP

func (k *X02KV) Serve(w http.ResponseWriter, r *http.Request) bool {
	if !strings.HasPrefix(r.URL.Path, "/v1/kv/") {
		return false
	}
	key := strings.TrimPrefix(r.URL.Path, "/v1/kv/")
	q := r.URL.Query()
	switch r.Method {
	case http.MethodGet:
		_, recurse := q["recurse"]
		idx, _ := strconv.ParseUint(q.Get("index"), 10, 64)
		if recurse {
			k.serveList(w, key, idx)
		} else {
			k.serveGet(w, key, idx)
		}
	case http.MethodPut:
		body, _ := io.ReadAll(r.Body)
		cas, hasCas := uint64(0), false
		if s, ok := q["cas"]; ok {
			cas, _ = strconv.ParseUint(s[0], 10, 64)
			hasCas = true
		}
		k.servePut(w, key, string(body), cas, hasCas)
	case http.MethodDelete:
		_, recurse := q["recurse"]
		k.mu.Lock()
		if recurse {
			var ks []string
			for key2 := range k.keys {
				if strings.HasPrefix(key2, key) {
					ks = append(ks, key2)
				}
			}
			for _, key2 := range ks {
				if idx, ok := k.deleteLocked(key2); ok && k.isMan(key2) {
					k.log(map[string]any{"ev": "Del", "p": k.AbsPath(key2), "idx": idx})
				}
			}
		} else if idx, ok := k.deleteLocked(key); ok && k.isMan(key) {
			k.log(map[string]any{"ev": "Del", "p": k.AbsPath(key), "idx": idx})
		}
		k.mu.Unlock()
		w.Write([]byte("true"))
	default:
		http.Error(w, "fake consul kv: method not allowed", http.StatusMethodNotAllowed)
	}
	return true
}

type x02Pair struct {
	Key                                 string
	CreateIndex, ModifyIndex, LockIndex uint64
	Flags                               uint64
	Value                               string
}

func x02Header(w http.ResponseWriter, idx uint64) {
	w.Header().Set("X-Consul-Index", strconv.FormatUint(idx, 10))
	w.Header().Set("X-Consul-KnownLeader", "true")
	w.Header().Set("X-Consul-LastContact", "0")
}

func (k *X02KV) serveGet(w http.ResponseWriter, key string, wait uint64) {
	k.mu.Lock()
	cur := func() uint64 {
		if e := k.keys[key]; e != nil {
			return e.mi
		}
		return k.gidx
	}
	for wait > 0 && cur() <= wait && !k.closed {
		k.cond.Wait()
	}
	if k.closed {
		k.mu.Unlock()
		http.Error(w, "closed", http.StatusInternalServerError)
		return
	}
	e := k.keys[key]
	idx := cur()
	var pair *x02Pair
	val := ""
	if e != nil {
		val = e.val
		pair = &x02Pair{Key: key, CreateIndex: e.ci, ModifyIndex: e.mi, Value: base64.StdEncoding.EncodeToString([]byte(e.val))}
	}
	if k.isMan(key) {
		k.log(map[string]any{"ev": "Get", "p": k.AbsPath(key), "val": k.AbsVal(val), "ver": idx})
	}
	k.mu.Unlock()
	if pair == nil {
		x02Header(w, idx)
		w.WriteHeader(http.StatusNotFound)
		return
	}
	writeJSON(w, idx, []*x02Pair{pair})
}

func (k *X02KV) serveList(w http.ResponseWriter, prefix string, wait uint64) {
	k.mu.Lock()
	req, resp := "", ""
	switch prefix {
	case k.Man:
		req, resp = "MReq", "MResp"
	case k.Nr:
		req, resp = "NReq", "NResp"
	}
	if req != "" {
		k.log(map[string]any{"ev": req, "idx": wait})
	}
	if k.parked[prefix] == nil {
		k.parked[prefix] = map[uint64]int{}
	}
	k.parked[prefix][wait]++
	k.cond.Broadcast()
	for k.listIdx(prefix) <= wait && !k.closed {
		k.cond.Wait()
	}
	k.parked[prefix][wait]--
	if k.closed {
		k.mu.Unlock()
		http.Error(w, "closed", http.StatusInternalServerError)
		return
	}
	idx := k.listIdx(prefix)
	var ks []string
	for key := range k.keys {
		if strings.HasPrefix(key, prefix) {
			ks = append(ks, key)
		}
	}
	sort.Strings(ks)
	pairs := []*x02Pair{}
	for _, key := range ks {
		e := k.keys[key]
		pairs = append(pairs, &x02Pair{Key: key, CreateIndex: e.ci, ModifyIndex: e.mi, Value: base64.StdEncoding.EncodeToString([]byte(e.val))})
	}
	switch resp {
	case "MResp":
		k.log(map[string]any{"ev": resp, "idx": idx, "content": k.content(prefix)})
	case "NResp":
		v := ""
		if e := k.keys[k.Nr]; e != nil {
			v = e.val
		}
		k.log(map[string]any{"ev": resp, "idx": idx, "val": k.AbsVal(v)})
	}
	k.mu.Unlock()
	if len(pairs) == 0 {
		x02Header(w, idx)
		w.WriteHeader(http.StatusNotFound)
		return
	}
	writeJSON(w, idx, pairs)
}

func (k *X02KV) servePut(w http.ResponseWriter, key, val string, cas uint64, hasCas bool) {
	k.mu.Lock()
	if k.gate && !k.closed {
		h := &X02Held{Key: key, Cas: cas, Val: val, rel: make(chan struct{})}
		k.held = append(k.held, h)
		k.cond.Broadcast()
		select {
		case k.sig <- struct{}{}:
		default:
		}
		k.mu.Unlock()
		<-h.rel
		k.mu.Lock()
	}
	if k.closed {
		k.mu.Unlock()
		http.Error(w, "closed", http.StatusInternalServerError)
		return
	}
	e := k.keys[key]
	ok := true
	if hasCas {
		if cas == 0 {
			ok = e == nil
		} else {
			ok = e != nil && e.mi == cas
		}
	}
	if ok {
		k.storeLocked(key, val)
	}
	if k.isMan(key) {
		o := 0
		if ok {
			o = 1
		}
		if hasCas {
			k.log(map[string]any{"ev": "Cas", "p": k.AbsPath(key), "cas": cas, "val": k.AbsVal(val), "ok": o, "idx": k.gidx})
		} else {
			k.log(map[string]any{"ev": "Ext", "p": k.AbsPath(key), "val": k.AbsVal(val), "idx": k.gidx})
		}
	} else if key == k.Nr && ok {
		k.log(map[string]any{"ev": "NrSet", "val": k.AbsVal(val), "idx": k.gidx})
	}
	k.mu.Unlock()
	if ok {
		w.Write([]byte("true"))
	} else {
		w.Write([]byte("false"))
	}
}
