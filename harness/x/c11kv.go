package verifx

// KVFake is a tiny fake of consul's KV list endpoint GET /v1/kv/<prefix>?recurse&index=N with
// blocking-query semantics: a query whose index is below the current index of the store is
// answered at once, any other query parks until the index moves (or the fake is told to
// fail).  It is what cert.ConsulSource needs and nothing more.  Every query is counted, so a
// harness can tell a watcher that has caught up (its query parks at the current index) from
// one that keeps asking with a stale index.

import (
	"encoding/base64"
	"encoding/json"
	"net/http"
	"net/http/httptest"
	"sort"
	"strconv"
	"strings"
	"sync"
	"time"
)

type KVQuery struct {
	At    time.Time
	Index uint64 // the index the client waited for
	Cur   uint64 // the store's index when the query arrived
}

type KVFake struct {
	Srv    *httptest.Server
	Prefix string

	mu      sync.Mutex
	cond    *sync.Cond
	index   uint64
	files   map[string][]byte
	failing int            // answer the next n queries with 500
	waiting map[int]uint64 // parked queries: id -> the index they wait for
	nextID  int
	closed  bool
	queries []KVQuery
}

func NewKVFake(prefix string) *KVFake {
	f := &KVFake{Prefix: prefix, index: 10, files: map[string][]byte{}, waiting: map[int]uint64{}}
	f.cond = sync.NewCond(&f.mu)
	f.Srv = httptest.NewServer(http.HandlerFunc(f.serve))
	return f
}

// URL is the CertURL for cert.ConsulSource.
func (f *KVFake) URL() string { return f.Srv.URL + "/v1/kv/" + f.Prefix }

func (f *KVFake) Close() {
	f.mu.Lock()
	f.closed = true
	f.cond.Broadcast()
	f.mu.Unlock()
	f.Srv.CloseClientConnections()
	f.Srv.Close()
}

// Put replaces the content below the prefix and moves the index (also when the content is
// byte-identical: consul bumps the index on every write).
func (f *KVFake) Put(files map[string][]byte) {
	f.mu.Lock()
	f.files = map[string][]byte{}
	for k, v := range files {
		f.files[k] = append([]byte(nil), v...)
	}
	f.index++
	f.cond.Broadcast()
	f.mu.Unlock()
}

// Touch moves the index without changing the content.
func (f *KVFake) Touch() {
	f.mu.Lock()
	f.index++
	f.cond.Broadcast()
	f.mu.Unlock()
}

// Fail makes the next n queries (parked ones included) fail with 500.
func (f *KVFake) Fail(n int) {
	f.mu.Lock()
	f.failing = n
	f.cond.Broadcast()
	f.mu.Unlock()
}

// Queries returns a copy of the query log.
func (f *KVFake) Queries() []KVQuery {
	f.mu.Lock()
	defer f.mu.Unlock()
	return append([]KVQuery(nil), f.queries...)
}

// WaitCaughtUp returns true when a query is parked at the current index with no failure
// pending (the watcher has seen everything), false when more than `budget` further queries
// arrived without that happening or the deadline passed.
func (f *KVFake) WaitCaughtUp(budget int, deadline time.Duration) (ok bool, asked int) {
	f.mu.Lock()
	defer f.mu.Unlock()
	start := len(f.queries)
	t := time.AfterFunc(deadline, func() { f.mu.Lock(); f.cond.Broadcast(); f.mu.Unlock() })
	defer t.Stop()
	end := time.Now().Add(deadline)
	for {
		if f.failing == 0 {
			for _, want := range f.waiting { // a query that waits for news beyond the current index
				if want >= f.index {
					return true, len(f.queries) - start
				}
			}
		}
		if len(f.queries)-start > budget || time.Now().After(end) || f.closed {
			return false, len(f.queries) - start
		}
		f.cond.Wait()
	}
}

func (f *KVFake) serve(w http.ResponseWriter, r *http.Request) {
	if strings.TrimSuffix(r.URL.Path, "/") != "/v1/kv/"+f.Prefix {
		http.NotFound(w, r)
		return
	}
	want, _ := strconv.ParseUint(r.URL.Query().Get("index"), 10, 64)
	f.mu.Lock()
	f.queries = append(f.queries, KVQuery{At: time.Now(), Index: want, Cur: f.index})
	f.cond.Broadcast()
	f.nextID++
	id := f.nextID
	for want >= f.index && f.failing == 0 && !f.closed {
		if _, ok := f.waiting[id]; !ok {
			f.waiting[id] = want
			f.cond.Broadcast()
		}
		f.cond.Wait()
	}
	delete(f.waiting, id)
	if f.closed {
		f.mu.Unlock()
		http.Error(w, "closed", http.StatusServiceUnavailable)
		return
	}
	if f.failing > 0 {
		f.failing--
		f.cond.Broadcast()
		f.mu.Unlock()
		http.Error(w, "rpc error: No cluster leader", http.StatusInternalServerError)
		return
	}
	idx := f.index
	type pair struct {
		Key         string
		Value       string
		Flags       uint64
		CreateIndex uint64
		ModifyIndex uint64
		LockIndex   uint64
	}
	var names []string
	for k := range f.files {
		names = append(names, k)
	}
	sort.Strings(names)
	var out []pair
	for _, k := range names {
		out = append(out, pair{Key: f.Prefix + "/" + k, Value: base64.StdEncoding.EncodeToString(f.files[k]), CreateIndex: idx, ModifyIndex: idx})
	}
	f.mu.Unlock()
	w.Header().Set("X-Consul-Index", strconv.FormatUint(idx, 10))
	w.Header().Set("X-Consul-KnownLeader", "true")
	w.Header().Set("X-Consul-LastContact", "0")
	w.Header().Set("Content-Type", "application/json")
	if len(out) == 0 {
		w.WriteHeader(http.StatusNotFound)
		return
	}
	json.NewEncoder(w).Encode(out)
}
