package verifx

// Session runner for spec/Sessions.tla (properties C09 and C10): a session is a schedule of
// client actions of up to three connections through ONE tcp+sni proxy instance.  The runner
// performs the actions in the order of the schedule and waits after each one for its
// observable effect (the hello has arrived at an upstream, the data has arrived, the client
// has seen the end of its connection) - the schedules spec/Sessions.tla generates with
// Quiesce = TRUE.  Every connection has its own server name and its own upstream, so the
// upstream a connection's bytes arrive at tells by which name it was routed.

import (
	"bytes"
	"encoding/json"
	"fmt"
	"io"
	"net"
	"sync"
	"time"
)

type SessionCase struct {
	Shape []string          `json:"shape"` // size of each connection's hello: "S" | "L"
	Sched []json.RawMessage `json:"sched"` // [connection, action] with action open | w1 | w2 | data | fin
	ID    int               `json:"id"`
}

type sessUpConn struct {
	up   int // index of the upstream (= the connection whose server name routes here)
	data []byte
	eof  bool
}

// SessionEnv is the proxy under test with one scripted upstream per server name.
type SessionEnv struct {
	ProxyAddr string
	Ups       []*net.TCPListener                 // upstream of connection i (1-based: Ups[i-1])
	Hello     func(conn int, size string) []byte // the ClientHello of connection i in that size
	mu        sync.Mutex
	conns     []*sessUpConn
	ping      chan struct{}
	started   bool
}

func (e *SessionEnv) notify() {
	select {
	case e.ping <- struct{}{}:
	default:
	}
}

// Start runs the accept loops of the upstreams: read to EOF, answer, close.
func (e *SessionEnv) Start() {
	if e.started {
		return
	}
	e.started = true
	e.ping = make(chan struct{}, 1)
	for idx, l := range e.Ups {
		idx, l := idx, l
		go func() {
			for {
				c, err := l.Accept()
				if err != nil {
					return
				}
				uc := &sessUpConn{up: idx + 1}
				e.mu.Lock()
				e.conns = append(e.conns, uc)
				e.mu.Unlock()
				go func() {
					defer c.Close()
					buf := make([]byte, 64*1024)
					for {
						n, err := c.Read(buf)
						e.mu.Lock()
						uc.data = append(uc.data, buf[:n]...)
						if err == io.EOF {
							uc.eof = true
						}
						e.mu.Unlock()
						e.notify()
						if err != nil {
							break
						}
					}
					fmt.Fprintf(c, "ok:%d", idx+1)
				}()
			}
		}()
	}
}

func (e *SessionEnv) snapshot() []sessUpConn {
	e.mu.Lock()
	defer e.mu.Unlock()
	out := make([]sessUpConn, len(e.conns))
	for i, c := range e.conns {
		out[i] = sessUpConn{c.up, append([]byte(nil), c.data...), c.eof}
	}
	return out
}

func (e *SessionEnv) reset() {
	e.mu.Lock()
	e.conns = nil
	e.mu.Unlock()
}

type SessionResult struct {
	Clause string // "" conforms | hang | a violated clause
	Msg    string
	Conns  int
}

func sessPayload(i int) []byte {
	var b []byte
	for k := 0; len(b) < 9000; k++ {
		b = append(b, fmt.Sprintf("session payload of connection %d, line %04d\r\n", i, k)...)
	}
	return b
}

const sessHead = 48 // bytes of the hello in its first write: record + handshake header and a bit, never the server name

// RunSession plays one session.
func RunSession(e *SessionEnv, sc *SessionCase) *SessionResult {
	e.Start()
	e.reset()
	const patience = 10 * time.Second
	n := len(sc.Shape)
	hello := make([][]byte, n+1)
	exp := make([][]byte, n+1)
	for i := 1; i <= n; i++ {
		hello[i] = e.Hello(i, sc.Shape[i-1])
		exp[i] = append(append([]byte(nil), hello[i]...), sessPayload(i)...)
	}
	conns := make([]*net.TCPConn, n+1)
	ended := make([]chan struct{}, n+1)
	got := make([][]byte, n+1)
	defer func() {
		for _, c := range conns {
			if c != nil {
				c.Close()
			}
		}
	}()
	res := &SessionResult{}
	// wait until cond holds, the client's connection i is over, or patience runs out
	wait := func(i int, what string, cond func([]sessUpConn) bool) bool {
		t := time.NewTimer(patience)
		defer t.Stop()
		for {
			if cond(e.snapshot()) {
				return true
			}
			select {
			case <-e.ping:
			case <-ended[i]:
				return true // the proxy ended this connection: judged at the end
			case <-t.C:
				res.Clause, res.Msg = "hang", fmt.Sprintf("connection %d (%s hello): %s not observed within %v", i, sc.Shape[i-1], what, patience)
				return false
			}
		}
	}
	for _, raw := range sc.Sched {
		var step []any
		if err := json.Unmarshal(raw, &step); err != nil || len(step) != 2 {
			return &SessionResult{Clause: "hang", Msg: "bad schedule step " + string(raw)}
		}
		i := int(step[0].(float64))
		act := step[1].(string)
		switch act {
		case "open":
			c, err := net.DialTimeout("tcp", e.ProxyAddr, patience)
			if err != nil {
				return &SessionResult{Clause: "hang", Msg: "dial proxy: " + err.Error()}
			}
			conns[i] = c.(*net.TCPConn)
			ended[i] = make(chan struct{})
			go func(i int) {
				defer close(ended[i])
				got[i], _ = io.ReadAll(conns[i])
			}(i)
			res.Conns++
		case "w1":
			conns[i].Write(hello[i][:sessHead])
			time.Sleep(time.Millisecond) // a hint: lets the proxy start on this connection; nothing is decided by it
		case "w2":
			conns[i].Write(hello[i][sessHead:])
			// the hello is complete: it must be routed and replayed without waiting for anything behind it
			before := len(hello[i])
			if !wait(i, "the complete ClientHello at an upstream", func(cs []sessUpConn) bool {
				for _, c := range cs {
					if bytes.HasPrefix(c.data, hello[i]) && len(c.data) >= before {
						return true
					}
				}
				return false
			}) {
				return res
			}
		case "data":
			conns[i].Write(sessPayload(i))
			tail := exp[i][len(exp[i])-32:]
			if !wait(i, "the data behind the hello at an upstream", func(cs []sessUpConn) bool {
				for _, c := range cs {
					if bytes.HasSuffix(c.data, tail) {
						return true
					}
				}
				return false
			}) {
				return res
			}
		case "fin":
			conns[i].CloseWrite()
			if !wait(i, "the end of the connection", func([]sessUpConn) bool { return false }) {
				return res
			}
		}
	}
	// every connection of the session is over: each upstream has exactly this connection's own stream
	cs := e.snapshot()
	for i := 1; i <= n; i++ {
		var mine []sessUpConn
		for _, c := range cs {
			if c.up == i {
				mine = append(mine, c)
			}
		}
		for _, c := range mine {
			if bytes.Equal(c.data, exp[i]) {
				continue
			}
			for k := 1; k <= n; k++ {
				if k != i && len(c.data) >= len(hello[k]) && bytes.Equal(c.data[:len(hello[k])], hello[k]) {
					res.Clause = "session-routed-by-other-name"
					res.Msg = fmt.Sprintf("the upstream of server name %d received a connection whose ClientHello carries server name %d (%d bytes)", i, k, len(c.data))
					return res
				}
			}
			res.Clause = "session-stream"
			res.Msg = fmt.Sprintf("the upstream of connection %d (%s hello, %d bytes) received %d bytes which are not what the client sent (%d bytes); first difference at offset %d",
				i, sc.Shape[i-1], len(hello[i]), len(c.data), len(exp[i]), firstDiff(c.data, exp[i]))
			return res
		}
		if len(mine) != 1 {
			res.Clause = "session-dropped"
			if len(mine) > 1 {
				res.Clause = "session-routed-by-other-name"
			}
			res.Msg = fmt.Sprintf("connection %d (%s hello of %d bytes, shapes %v): its upstream saw %d connections instead of one (client got %q)", i, sc.Shape[i-1], len(hello[i]), sc.Shape, len(mine), got[i])
			return res
		}
	}
	return res
}

// RunSessionConfirmed plays a session; a session that does not finish is played twice more, and
// only when it hangs every time it "does not terminate" (the specification's sessions all do).
func RunSessionConfirmed(e *SessionEnv, sc *SessionCase) *SessionResult {
	r := RunSession(e, sc)
	if r.Clause != "hang" {
		return r
	}
	for try := 0; try < 2; try++ {
		if r2 := RunSession(e, sc); r2.Clause != "hang" {
			r2.Msg = "(hung once before: " + r.Msg + ") " + r2.Msg
			if r2.Clause == "" {
				r2.Clause = "hang"
			}
			return r2
		}
	}
	r.Clause = "no-termination"
	r.Msg = "three times out of three: " + r.Msg
	return r
}
