package verifx

// Shared part of the C12 harness (access rules and route authentication): the case record
// printed by spec/Access_MC.tla, the concretisations of the abstract blocks / addresses, the
// rendering of route options, and the net/netip referee that re-derives the specification's
// bounds from the CONCRETE strings (so that a wrong concretisation or a wrong transcription
// shows up as an oracle disagreement, never as a verdict on fabio).

import (
	"crypto/sha1"
	"encoding/base64"
	"fmt"
	"net"
	"net/http"
	"net/netip"
	"os"
	"path/filepath"
	"strings"
)

// C12Case is one line of the Access_MC generator, plus replay-only fields.
type C12Case struct {
	Allow    []string `json:"allow"`
	Deny     []string `json:"deny"`
	Proto    string   `json:"proto"`
	Peer     string   `json:"peer"`
	Xff      []string `json:"xff"`
	Scheme   string   `json:"scheme"`
	Creds    string   `json:"creds"`
	Other    string   `json:"other"` // class of another option the same target carries ("" = none)
	Pre      int      `json:"pre"`  // filler hops in front of the judged elements
	Suf      int      `json:"suf"`  // filler hops behind them
	Fill     string   `json:"fill"` // address class of the fillers
	May      bool     `json:"may"`
	Must     bool     `json:"must"`
	Auth     bool     `json:"auth"`
	Outcomes []string `json:"outcomes"`

	// replay only: which concretisation / header style / sub-harness variant failed
	Conc     string `json:"conc,omitempty"`
	XffStyle string `json:"xff_style,omitempty"`
	Variant  string `json:"variant,omitempty"`
	N        int64  `json:"n,omitempty"`
}

// C12Conc maps abstract items and addresses to concrete strings.
type C12Conc struct {
	Name string
	Item map[string]string
	Addr map[string]string
}

// Abstract relation of Access_MC!MCMember / MCZoned / MCWFItems.
var (
	C12WFItems = []string{"A", "B", "C", "An", "Ah", "Cn"}
	C12Items   = []string{"A", "B", "C", "An", "Ah", "Cn", "bad33", "notanip", "notype", "unktype"}
	C12Addrs   = []string{"inA", "inB", "out4", "inC", "out6", "zoneC", "inAn", "isAh", "inCn"}
	c12Member  = map[[2]string]bool{{"inA", "A"}: true, {"inB", "B"}: true, {"inC", "C"}: true, {"zoneC", "C"}: true,
		// nested blocks: An lies inside A (same network address), Ah is that network address as a host, Cn lies inside C
		{"inAn", "A"}: true, {"inAn", "An"}: true, {"isAh", "A"}: true, {"isAh", "An"}: true, {"isAh", "Ah"}: true,
		{"inCn", "C"}: true, {"inCn", "Cn"}: true}
	c12Zoned   = map[string]bool{"zoneC": true}
)

// The unparsable items name blocks that contain no address of the universe, so that a more
// lenient reading of them (e.g. a missing "ip:" prefix read as ip) could not change any
// decision the check asserts.
var C12Lab = &C12Conc{Name: "lab",
	Item: map[string]string{"A": "ip:10.0.0.0/8", "B": "ip:192.168.1.7", "C": "ip:fe80::/10",
		"An": "ip:10.0.0.0/24", "Ah": "ip:10.0.0.0", "Cn": "ip:fe80::/64",
		"bad33": "ip:10.0.0.0/33", "notanip": "ip:notanip", "notype": "172.16.0.0/12", "unktype": "host:172.16.0.0/12"},
	Addr: map[string]string{"inA": "10.1.2.3", "inB": "192.168.1.7", "out4": "203.0.113.9",
		"inC": "fe80:5::1", "out6": "2001:db8::1", "zoneC": "fe80:5::1%eth0",
		"inAn": "10.0.0.9", "isAh": "10.0.0.0", "inCn": "fe80::1"}}

// boundary addresses: last address of A, the address just above it (and just below B), the
// top of the /10 and the first address after it
var C12Edge = &C12Conc{Name: "edge",
	Item: map[string]string{"A": "ip:9.0.0.0/8", "B": "ip:10.0.0.1", "C": "ip:fc00::/10",
		"An": "ip:9.0.0.0/9", "Ah": "ip:9.0.0.0", "Cn": "ip:fc00::/11",
		"bad33": "ip:9.0.0.0/33", "notanip": "ip:9.0.0.256", "notype": "172.16.0.0/12", "unktype": "cidr:172.16.0.0/12"},
	Addr: map[string]string{"inA": "9.255.255.255", "inB": "10.0.0.1", "out4": "10.0.0.0",
		"inC": "fc3f:ffff:ffff:ffff:ffff:ffff:ffff:ffff", "out6": "fc40::", "zoneC": "fc20::7%lo",
		"inAn": "9.127.255.255", "isAh": "9.0.0.0", "inCn": "fc1f:ffff:ffff:ffff:ffff:ffff:ffff:ffff"}}

// end to end from loopback: every 127/8 address is local on Linux, so the client can choose
// its source address; the only IPv6 source is ::1
var C12Loop = &C12Conc{Name: "loop",
	Item: map[string]string{"A": "ip:127.10.0.0/16", "B": "ip:127.0.0.2", "C": "ip:::/10",
		"An": "ip:127.10.0.0/24", "Ah": "ip:127.10.0.0", "Cn": "ip:0:0:1::/48",
		"bad33": "ip:127.0.0.0/33", "notanip": "ip:notanip", "notype": "127.99.0.0/16", "unktype": "host:127.99.0.0/16"},
	Addr: map[string]string{"inA": "127.10.1.1", "inB": "127.0.0.2", "out4": "127.0.0.1",
		"inC": "::1", "out6": "2001:db8::1", "zoneC": "::2%lo",
		"inAn": "127.10.0.9", "isAh": "127.10.0.0", "inCn": "0:0:1::1"}}

// C12LinkLocal returns the concretisation used for a REAL zone-scoped peer: a link-local
// address of this host (connecting from it yields RemoteAddr "[fe80::x%ifc]:port"), or nil.
func C12LinkLocal() *C12Conc {
	ifs, err := net.Interfaces()
	if err != nil {
		return nil
	}
	for _, ifc := range ifs {
		if ifc.Flags&net.FlagUp == 0 {
			continue
		}
		as, _ := ifc.Addrs()
		for _, a := range as {
			ipn, ok := a.(*net.IPNet)
			if !ok || ipn.IP.To4() != nil || !ipn.IP.IsLinkLocalUnicast() {
				continue
			}
			c := &C12Conc{Name: "linklocal", Item: map[string]string{}, Addr: map[string]string{}}
			for k, v := range C12Loop.Item {
				c.Item[k] = v
			}
			for k, v := range C12Loop.Addr {
				c.Addr[k] = v
			}
			c.Item["C"] = "ip:fe80::/10"
			c.Item["Cn"] = "ip:fe80:0:0:7::/64"
			c.Addr["inCn"] = "fe80:0:0:7::1"
			c.Addr["inC"] = "fe80::2"
			c.Addr["zoneC"] = ipn.IP.String() + "%" + ifc.Name
			return c
		}
	}
	return nil
}

func C12ConcByName(n string) *C12Conc {
	switch n {
	case "lab":
		return C12Lab
	case "edge":
		return C12Edge
	case "loop":
		return C12Loop
	case "linklocal":
		return C12LinkLocal()
	}
	return nil
}

// ---------------------------------------------------------------- rendering

// Opts renders the route options of a case: allow=.. deny=.. auth=..
func (cc *C12Conc) Opts(allow, deny []string, scheme string) string {
	var fs []string
	list := func(items []string) string {
		var xs []string
		for _, it := range items {
			xs = append(xs, cc.Item[it])
		}
		return strings.Join(xs, ",")
	}
	if len(allow) > 0 {
		fs = append(fs, "allow="+list(allow))
	}
	if len(deny) > 0 {
		fs = append(fs, "deny="+list(deny))
	}
	if scheme != "" {
		fs = append(fs, "auth="+scheme)
	}
	return strings.Join(fs, " ")
}

// Num is a number derived from the content of the case and the run's seed (TLC prints cases in
// a nondeterministic order, so the position in the file must not select variants).
func (c *C12Case) Num() int64 {
	if c.N != 0 {
		return c.N
	}
	h := Hash([]byte(c.CfgKey() + "|" + c.Proto + "|" + c.Peer + "|" + strings.Join(c.Xff, ",") + "|" + c.Creds +
		fmt.Sprintf("|%d|%d|%s|%s", c.Pre, c.Suf, c.Fill, c.Other)))
	n := int64((h ^ uint64(Seed())*0x9e3779b97f4a7c15) >> 1)
	if n == 0 {
		n = 1
	}
	return n
}

// Chain is the whole X-Forwarded-For chain of the case: Pre fillers, the judged elements, Suf fillers.
func (c *C12Case) Chain() []string {
	if c.Pre+c.Suf == 0 {
		return c.Xff
	}
	out := make([]string, 0, c.Pre+len(c.Xff)+c.Suf)
	for i := 0; i < c.Pre; i++ {
		out = append(out, c.Fill)
	}
	out = append(out, c.Xff...)
	for i := 0; i < c.Suf; i++ {
		out = append(out, c.Fill)
	}
	return out
}

// ChainText renders the chain compactly for messages.
func (c *C12Case) ChainText(cc *C12Conc) string {
	var xs []string
	if c.Pre > 0 {
		xs = append(xs, fmt.Sprintf("%d x %s", c.Pre, cc.Addr[c.Fill]))
	}
	for _, x := range c.Xff {
		xs = append(xs, cc.Addr[x])
	}
	if c.Suf > 0 {
		xs = append(xs, fmt.Sprintf("%d x %s", c.Suf, cc.Addr[c.Fill]))
	}
	return "[" + strings.Join(xs, ", ") + "]"
}

// CfgKey identifies the route configuration of a case.
func (c *C12Case) CfgKey() string {
	return strings.Join(c.Allow, ",") + "|" + strings.Join(c.Deny, ",") + "|" + c.Scheme + "|" + c.Other
}

// C12OtherOpt: the other options of a target, by class (Access_MC!MCOthersAll).  The valid ones do not
// change what a proxied request looks like to the harness's upstream.
var C12OtherOpt = map[string]string{
	"":               "",
	"redirect-valid": "redirect=301",
	"strip":          "strip=/c12-not-a-prefix",
	"hostdst":        "host=dst",
	"tlsskip":        "tlsskipverify=true",
	"redirect-alpha": "redirect=3O1", // letter O
	"redirect-range": "redirect=200", // not a 3xx code
	"proto-unknown":  "proto=gopher",
	"unknown-option": "colour=blue",
}

// C12OtherValid: the documented, well-formed ones (Access_MC!MCOthersValid)
var C12OtherValid = map[string]bool{"": true, "redirect-valid": true, "strip": true, "hostdst": true, "tlsskip": true}

// CaseOpts renders all options of the case's target; the other option goes first or last (the option
// list is a set).
func (cc *C12Conc) CaseOpts(c *C12Case, scheme bool) string {
	sch := ""
	if scheme {
		sch = c.Scheme
	}
	o := cc.Opts(c.Allow, c.Deny, sch)
	x := C12OtherOpt[c.Other]
	switch {
	case x == "":
		return o
	case o == "":
		return x
	case len(c.Allow)%2 == 0:
		return x + " " + o
	}
	return o + " " + x
}

// HostPort renders an address as a RemoteAddr.
func C12HostPort(addr string, port int) string {
	return net.JoinHostPort(addr, fmt.Sprint(port))
}

// XFF header styles: the chain on one line ("a, b"), without blanks ("a,b"), as one header line
// per element, or as several lines of several elements (RFC 7230 3.2.2: all equivalent to the
// comma separated list).
var C12XffStyles = []string{"comma", "nospace", "lines", "mixed"}

func (cc *C12Conc) SetXFF(h http.Header, xff []string, style string, stripZones bool) {
	if len(xff) == 0 {
		return
	}
	var xs []string
	for _, a := range xff {
		x := cc.Addr[a]
		if stripZones {
			x = C12StripZone(x)
		}
		xs = append(xs, x)
	}
	switch style {
	case "lines":
		for _, x := range xs {
			h.Add("X-Forwarded-For", x)
		}
	case "mixed":
		for len(xs) > 0 {
			n := 7
			if n > len(xs) {
				n = len(xs)
			}
			h.Add("X-Forwarded-For", strings.Join(xs[:n], ", "))
			xs = xs[n:]
		}
	case "nospace":
		h.Set("X-Forwarded-For", strings.Join(xs, ","))
	default:
		h.Set("X-Forwarded-For", strings.Join(xs, ", "))
	}
}

// credentials
const (
	C12User     = "alice"
	C12Password = "correct horse"
	C12Realm    = "c12realm"
)

// C12SetCreds sets the Authorization header of the credential class; k varies the spelling.
func C12SetCreds(r *http.Request, class string, k int) {
	switch class {
	case "good":
		r.SetBasicAuth(C12User, C12Password)
	case "bad":
		switch k % 4 {
		case 0:
			r.SetBasicAuth(C12User, "wrong")
		case 1:
			r.SetBasicAuth("mallory", C12Password)
		case 2:
			r.SetBasicAuth(C12User, "")
		default:
			r.SetBasicAuth(C12User, C12Password+" ")
		}
	case "malformed":
		switch k % 4 {
		case 0:
			r.Header.Set("Authorization", "Basic %%%not-base64%%%")
		case 1:
			r.Header.Set("Authorization", "Bearer "+base64.StdEncoding.EncodeToString([]byte(C12User+":"+C12Password)))
		case 2:
			r.Header.Set("Authorization", "Basic "+base64.StdEncoding.EncodeToString([]byte(C12User+C12Password))) // no colon
		default:
			r.Header.Set("Authorization", "Basic")
		}
	}
}

// C12WriteHtpasswd writes an htpasswd file ({SHA} entries) into dir and returns its path.
func C12WriteHtpasswd(dir string) (string, error) {
	sum := sha1.Sum([]byte(C12Password))
	other := sha1.Sum([]byte("another password"))
	txt := C12User + ":{SHA}" + base64.StdEncoding.EncodeToString(sum[:]) + "\n" +
		"bob:{SHA}" + base64.StdEncoding.EncodeToString(other[:]) + "\n"
	p := filepath.Join(dir, "c12.htpasswd")
	return p, os.WriteFile(p, []byte(txt), 0o600)
}

// ---------------------------------------------------------------- referee

func c12ParseItem(s string) (netip.Prefix, bool) {
	typ, data, ok := strings.Cut(s, ":")
	if !ok || strings.ToLower(strings.TrimSpace(typ)) != "ip" {
		return netip.Prefix{}, false
	}
	data = strings.TrimSpace(data)
	if strings.Contains(data, "/") {
		p, err := netip.ParsePrefix(data)
		if err != nil {
			return netip.Prefix{}, false
		}
		return p.Masked(), true
	}
	a, err := netip.ParseAddr(data)
	if err != nil || a.Zone() != "" {
		return netip.Prefix{}, false
	}
	return netip.PrefixFrom(a, a.BitLen()), true
}

// Referee re-derives (may, must) of Access.tla from the concrete strings with net/netip.
func (cc *C12Conc) Referee(c *C12Case) (may, must bool, err error) {
	type list struct {
		given, malformed bool
		blocks           []netip.Prefix
	}
	parse := func(items []string) (l list, err error) {
		l.given = len(items) > 0
		for _, it := range items {
			s, ok := cc.Item[it]
			if !ok {
				return l, fmt.Errorf("item %q has no concretisation", it)
			}
			if p, ok := c12ParseItem(s); ok {
				l.blocks = append(l.blocks, p)
			} else {
				l.malformed = true
			}
		}
		return l, nil
	}
	al, err := parse(c.Allow)
	if err != nil {
		return false, false, err
	}
	dl, err := parse(c.Deny)
	if err != nil {
		return false, false, err
	}
	covered := func(a netip.Addr, bs []netip.Prefix) bool {
		for _, b := range bs {
			if b.Contains(a) {
				return true
			}
		}
		return false
	}
	may = true
	zoned := false
	for _, name := range append([]string{c.Peer}, c.Chain()...) {
		s, ok := cc.Addr[name]
		if !ok {
			return false, false, fmt.Errorf("address %q has no concretisation", name)
		}
		a, err := netip.ParseAddr(s)
		if err != nil {
			return false, false, fmt.Errorf("address %q: %v", s, err)
		}
		if a.Zone() != "" {
			zoned = true
			a = a.WithZone("")
		}
		a = a.Unmap()
		if al.given && !covered(a, al.blocks) {
			may = false
		}
		if dl.given && covered(a, dl.blocks) {
			may = false
		}
	}
	norules := !al.given && !dl.given
	clean := !(al.given && dl.given) && !al.malformed && !dl.malformed
	must = C12OtherValid[c.Other] && (norules || (clean && may && !zoned))
	return may, must, nil
}

// CheckConc verifies that a concretisation realises exactly the abstract membership relation
// of the specification (net/netip as the referee), and the well-formedness of its items.
func (cc *C12Conc) CheckConc() error {
	wf := map[string]bool{}
	for _, w := range C12WFItems {
		wf[w] = true
	}
	for _, it := range C12Items {
		s, ok := cc.Item[it]
		if !ok {
			return fmt.Errorf("%s: item %s missing", cc.Name, it)
		}
		_, parsed := c12ParseItem(s)
		if parsed != wf[it] {
			return fmt.Errorf("%s: item %s=%q parses=%v, specification says well-formed=%v", cc.Name, it, s, parsed, wf[it])
		}
	}
	for _, an := range C12Addrs {
		s, ok := cc.Addr[an]
		if !ok {
			return fmt.Errorf("%s: address %s missing", cc.Name, an)
		}
		a, err := netip.ParseAddr(s)
		if err != nil {
			return fmt.Errorf("%s: address %s=%q: %v", cc.Name, an, s, err)
		}
		if (a.Zone() != "") != c12Zoned[an] {
			return fmt.Errorf("%s: address %s=%q zoned=%v, specification says %v", cc.Name, an, s, a.Zone() != "", c12Zoned[an])
		}
		a = a.WithZone("")
		for _, it := range C12Items {
			p, parsed := c12ParseItem(cc.Item[it])
			if !parsed {
				// a lenient reading of the unparsable item must not contain any address either
				if _, data, ok := strings.Cut(cc.Item[it], ":"); ok {
					if q, err := netip.ParsePrefix(strings.TrimSpace(data)); err == nil && q.Masked().Contains(a) {
						return fmt.Errorf("%s: unparsable item %s=%q would contain %s under a lenient reading", cc.Name, it, cc.Item[it], s)
					}
				}
				if q, err := netip.ParsePrefix(cc.Item[it]); err == nil && q.Masked().Contains(a) {
					return fmt.Errorf("%s: unparsable item %s=%q would contain %s under a lenient reading", cc.Name, it, cc.Item[it], s)
				}
				continue
			}
			if p.Contains(a) != c12Member[[2]string{an, it}] {
				return fmt.Errorf("%s: %s=%q in %s=%q is %v, specification says %v", cc.Name, an, s, it, cc.Item[it], p.Contains(a), c12Member[[2]string{an, it}])
			}
		}
	}
	return nil
}

// C12CfgClass names the kind of rule configuration (for the feature record).
func (c *C12Case) CfgClass() string {
	bad := func(xs []string) bool {
		for _, x := range xs {
			if x != "A" && x != "B" && x != "C" && x != "An" && x != "Ah" && x != "Cn" {
				return true
			}
		}
		return false
	}
	switch {
	case len(c.Allow) == 0 && len(c.Deny) == 0:
		return "no-rules"
	case len(c.Allow) > 0 && len(c.Deny) > 0:
		return "allow+deny"
	case bad(c.Allow) || bad(c.Deny):
		return "unparsable-item"
	case len(c.Allow) > 0:
		return "allow"
	default:
		return "deny"
	}
}

// Features is the feature record of a failing case: which sub-harness, which clause of the
// oracle, and the attributed cause.
func (c *C12Case) Features(sub, clause, cause string) map[string]any {
	return map[string]any{"sub": sub, "clause": clause, "cause": cause}
}

func (c *C12Case) zoned() (peer, xff bool) {
	for _, x := range c.Xff {
		if c12Zoned[x] {
			xff = true
		}
	}
	if c.Pre+c.Suf > 0 && c12Zoned[c.Fill] {
		xff = true
	}
	return c12Zoned[c.Peer], xff
}

// Cause attributes an "admitted although it must be denied" failure to the smallest change of
// the REQUEST that makes the real code deny it, found by counterfactual probes against the real
// code: the chain on one header line instead of several, then the zones stripped from the
// addresses.  probe returns ok=false when it cannot realise the variant (a real peer's zone).
// If no variant of the request is denied, the rule configuration is the cause.  A long chain is
// probed by dropping the filler hops around the judged elements.
func (c *C12Case) Cause(style string, probe func(style string, stripZones, noFill bool) (denied, ok bool)) string {
	if (style == "lines" || style == "mixed") && len(c.Chain()) >= 2 {
		if d, ok := probe("comma", false, false); ok && d {
			return "xff-multi-line"
		}
		style = "comma"
	}
	if c.Pre+c.Suf > 0 && len(c.Xff) > 0 {
		// the same judged elements without the filler hops around them
		if d, ok := probe(style, false, true); ok && d {
			return "xff-long-chain"
		}
	}
	zp, zx := c.zoned()
	if zp || zx {
		d, ok := probe(style, true, false)
		name := "zoned-xff"
		if zp {
			name = "zoned-peer"
		}
		if ok && d {
			return name
		}
		if !ok && (c.CfgClass() == "allow" || c.CfgClass() == "deny") {
			return name
		}
	}
	if c.Other != "" && (c.CfgClass() == "allow" || c.CfgClass() == "deny") {
		return "other-option:" + c.Other // the rules are in order and the request is plain: the other option is what is unusual
	}
	return "rules:" + c.CfgClass()
}

// C12StripZone removes an IPv6 zone from an address literal.
func C12StripZone(a string) string {
	if i := strings.IndexByte(a, '%'); i >= 0 {
		return a[:i]
	}
	return a
}

// C12Allowed reports whether an observed outcome is one the specification permits.
func (c *C12Case) Allowed(outcome string) bool {
	for _, o := range c.Outcomes {
		if o == outcome {
			return true
		}
	}
	return false
}

// ---------------------------------------------------------------- routes with several targets

type C12Rules struct {
	Allow []string `json:"allow"`
	Deny  []string `json:"deny"`
}

// C12Multi is one line of the AccessMulti_MC generator: a route with two targets that carry their
// own rules, the state of the two instances, a request, and the outcomes the specification permits
// ("served1" / "served2" = reached that instance, "deny" = 403 / closed, "fail" = could not connect).
type C12Multi struct {
	T1       C12Rules `json:"t1"`
	T2       C12Rules `json:"t2"`
	Up1      bool     `json:"up1"`
	Up2      bool     `json:"up2"`
	Proto    string   `json:"proto"`
	Peer     string   `json:"peer"`
	Xff      []string `json:"xff"`
	May1     bool     `json:"may1"`
	Must1    bool     `json:"must1"`
	May2     bool     `json:"may2"`
	Must2    bool     `json:"must2"`
	Outcomes []string `json:"outcomes"`

	Conc    string `json:"conc,omitempty"`
	Variant string `json:"variant,omitempty"`
}

func (m *C12Multi) Key() string {
	return strings.Join(m.T1.Allow, ",") + "|" + strings.Join(m.T1.Deny, ",") + "||" + strings.Join(m.T2.Allow, ",") + "|" + strings.Join(m.T2.Deny, ",") +
		fmt.Sprintf("||%v%v", m.Up1, m.Up2)
}

func (m *C12Multi) Allowed(o string) bool {
	for _, x := range m.Outcomes {
		if x == o {
			return true
		}
	}
	return false
}

// RefereeMulti re-derives the per-target bounds with net/netip and compares them with the case.
func (cc *C12Conc) RefereeMulti(m *C12Multi) error {
	for i, t := range []C12Rules{m.T1, m.T2} {
		c := &C12Case{Allow: t.Allow, Deny: t.Deny, Proto: m.Proto, Peer: m.Peer, Xff: m.Xff}
		may, must, err := cc.Referee(c)
		wm, wu := m.May1, m.Must1
		if i == 1 {
			wm, wu = m.May2, m.Must2
		}
		if err != nil || may != wm || must != wu {
			return fmt.Errorf("target %d: referee (%s) may=%v must=%v err=%v, specification may=%v must=%v", i+1, cc.Name, may, must, err, wm, wu)
		}
	}
	return nil
}

func (m *C12Multi) Features(sub, clause string) map[string]any {
	return map[string]any{"sub": sub, "clause": clause, "cause": "multi-target", "instances": fmt.Sprintf("up1=%v,up2=%v", m.Up1, m.Up2)}
}

func (m *C12Multi) Text(cc *C12Conc) string {
	st := func(up bool) string {
		if up {
			return "up"
		}
		return "DOWN"
	}
	var xs []string
	for _, x := range m.Xff {
		xs = append(xs, cc.Addr[x])
	}
	return fmt.Sprintf("route with target 1 (opts %q, instance %s) and target 2 (opts %q, instance %s); client %s, X-Forwarded-For %v",
		cc.Opts(m.T1.Allow, m.T1.Deny, ""), st(m.Up1), cc.Opts(m.T2.Allow, m.T2.Deny, ""), st(m.Up2), cc.Addr[m.Peer], xs)
}
