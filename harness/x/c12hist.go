package verifx

// Shared part of the C12 authentication-history harness: the history record printed by
// spec/AccessHist_MC.tla, the htpasswd contents and credential pairs that concretise its classes,
// the referee that re-derives every verdict from the concrete htpasswd text, and the helper that
// replaces an htpasswd file (for the refresh of auth/basic.go).

import (
	"crypto/sha1"
	"encoding/base64"
	"fmt"
	"net/http"
	"os"
	"strings"
	"time"
)

type C12HistEv struct {
	Ev   string `json:"ev"`   // "attempt" | "reload"
	Cred string `json:"cred"` // credential class of an attempt
	Ver  string `json:"ver"`  // content of the file (attempt) / content installed (reload)
	// reload: how the new file's modification time relates to that of the file loaded before
	Mt string `json:"mt"` // "newer" | "older" | "equal"
	// the contents that may be in force (more than one after a file came with an unchanged time)
	Live []string `json:"live"`
}

// C12Hist is one line of the AccessHist_MC generator (+ replay-only fields).
type C12Hist struct {
	Events  []C12HistEv `json:"events"`
	Allowed [][]bool    `json:"allowed"` // per attempt: the verdicts the specification permits
	Variant  string      `json:"variant,omitempty"`
}

func (h *C12Hist) Reloads() int {
	n := 0
	for _, e := range h.Events {
		if e.Ev == "reload" || e.Ev == "remove" {
			n++
		}
	}
	return n
}

// credential classes -> (user, password); "none" and "malformed" have no pair
var C12HistPairs = map[string][2]string{
	"good":      {"ops", "admin42"},
	"newpw":     {"ops", "changed7"},
	"bad":       {"ops", "wrong"},
	"shift1":    {"opsa", "dmin42"},
	"shift2":    {"o", "psadmin42"},
	"emptyuser": {"", "opsadmin42"},
	"emptypw":   {"opsadmin42", ""},
	"other":     {"bob", "another"},
	"crossed":   {"ops", "another"},
}

// htpasswd contents; every version also carries a sentinel user the harness uses to learn that
// a reload has taken effect (it is never part of a judged attempt)
var c12HistUsers = map[string][][2]string{
	"v1": {{"ops", "admin42"}, {"bob", "another"}, {"gen-v1", "sentinel"}},
	"v2": {{"ops", "changed7"}, {"bob", "another"}, {"gen-v2", "sentinel"}},
	"v3": {{"bob", "another"}, {"gen-v3", "sentinel"}},
}

func C12HistText(ver string) string {
	var b strings.Builder
	for _, up := range c12HistUsers[ver] {
		sum := sha1.Sum([]byte(up[1]))
		fmt.Fprintf(&b, "%s:{SHA}%s\n", up[0], base64.StdEncoding.EncodeToString(sum[:]))
	}
	return b.String()
}

// C12HistSetCreds puts the credentials of a class on the request.
func C12HistSetCreds(r *http.Request, class string) {
	switch class {
	case "none":
	case "malformed":
		r.Header.Set("Authorization", "Basic %%%not-base64%%%")
	default:
		p := C12HistPairs[class]
		r.SetBasicAuth(p[0], p[1])
	}
}

func C12HistSentinel(r *http.Request, ver string) { r.SetBasicAuth("gen-"+ver, "sentinel") }

// C12HistReferee: does the htpasswd text of `ver` contain the pair of the class?  (independent of
// the specification's Valid table: it looks at the concrete text)
func C12HistReferee(ver, class string) (bool, error) {
	if ver == "gone" { // a file that is not there contains no credentials
		if _, ok := C12HistPairs[class]; !ok && class != "none" && class != "malformed" {
			return false, fmt.Errorf("credential class %q has no concretisation", class)
		}
		return false, nil
	}
	p, ok := C12HistPairs[class]
	if !ok {
		if class == "none" || class == "malformed" {
			return false, nil
		}
		return false, fmt.Errorf("credential class %q has no concretisation", class)
	}
	txt := C12HistText(ver)
	if txt == "" {
		return false, fmt.Errorf("version %q has no concretisation", ver)
	}
	sum := sha1.Sum([]byte(p[1]))
	want := p[0] + ":{SHA}" + base64.StdEncoding.EncodeToString(sum[:])
	for _, line := range strings.Split(txt, "\n") {
		if line == want {
			return true, nil
		}
	}
	return false, nil
}

// C12HistInstall replaces the htpasswd file atomically and gives it a modification time that
// the caller chooses (newer / older than / equal to that of the file loaded before).
const C12HistBaseMtime = 1_600_000_000
func C12HistInstall(path, ver string, mtime int64) error {
	tmp := path + ".tmp"
	if err := os.WriteFile(tmp, []byte(C12HistText(ver)), 0o600); err != nil {
		return err
	}
	mt := time.Unix(mtime, 0)
	if err := os.Chtimes(tmp, mt, mt); err != nil {
		return err
	}
	return os.Rename(tmp, path)
}

// Text renders a history for messages.
func (h *C12Hist) Text() string {
	var xs []string
	k := 0
	for _, e := range h.Events {
		if e.Ev == "reload" {
			xs = append(xs, "file := "+e.Ver+" (mtime "+e.Mt+")")
			continue
		}
		if e.Ev == "remove" {
			xs = append(xs, "file disappears")
			continue
		}
		p, ok := C12HistPairs[e.Cred]
		cred := e.Cred
		if ok {
			cred = fmt.Sprintf("%q:%q", p[0], p[1])
		}
		v := "?"
		if k < len(h.Allowed) {
			var vs []string
			for _, b := range h.Allowed[k] {
				vs = append(vs, map[bool]string{true: "accept", false: "reject"}[b])
			}
			v = strings.Join(vs, " or ")
		}
		xs = append(xs, fmt.Sprintf("%s(%s, spec: %s)", e.Cred, cred, v))
		k++
	}
	return strings.Join(xs, " ; ")
}
