package proxy

// C12 conformance, authentication over histories: every history of login attempts (and htpasswd
// reloads) TLC enumerated from spec/AccessHist.tla is played, attempt by attempt, by a real client
// against a real HTTPProxy whose route (opts "auth=<scheme>") comes from route.NewTable and whose
// scheme instance - one per history, i.e. a fresh proxy-side state - comes from
// auth.LoadAuthSchemes on the history's own htpasswd file.  Per attempt: status seen by the client
// (200 / 401) and the hit counter of the instrumented upstream, compared with the verdict the
// specification prescribes from the attempt and the htpasswd content in force alone.

import (
	"bytes"
	"fmt"
	"io"
	"log"
	"net/http"
	"net/http/httptest"
	"os"
	"path/filepath"
	"strings"
	"sync"
	"sync/atomic"
	"testing"
	"time"

	"github.com/fabiolb/fabio/auth"
	"github.com/fabiolb/fabio/config"
	"github.com/fabiolb/fabio/internal/verifx"
	"github.com/fabiolb/fabio/route"
)

func TestVerifC12AuthHist(t *testing.T) {
	log.SetOutput(io.Discard) // fabio logs every rule comparison; the verdicts do not depend on it

	hists, err := verifx.ReadCases[verifx.C12Hist]("")
	if err != nil {
		t.Fatal(err)
	}
	var plumbing int64
	oracle := func(format string, a ...any) {
		atomic.AddInt64(&plumbing, 1)
		verifx.Emit(map[string]any{"kind": "oracle", "msg": fmt.Sprintf(format, a...)})
	}
	// referee: the prescribed verdicts follow from the concrete htpasswd texts
	for i := range hists {
		k := 0
		for _, e := range hists[i].Events {
			if e.Ev != "attempt" {
				continue
			}
			// the verdicts the contents that may be in force prescribe, from the concrete htpasswd texts
			ref := map[bool]bool{}
			var rerr error
			for _, v := range e.Live {
				w, err := verifx.C12HistReferee(v, e.Cred)
				if err != nil {
					rerr = err
				}
				ref[w] = true
			}
			spec := map[bool]bool{}
			if k < len(hists[i].Allowed) {
				for _, b := range hists[i].Allowed[k] {
					spec[b] = true
				}
			}
			if rerr != nil || len(ref) == 0 || len(ref) != len(spec) || ref[true] != spec[true] || ref[false] != spec[false] {
				oracle("referee says %v (err %v) for %s under %v, specification says %v", ref, rerr, e.Cred, e.Live, hists[i].Allowed)
				verifx.Summary(map[string]any{"histories": 0})
				return
			}
			k++
		}
	}

	var hits sync.Map
	upstream := httptest.NewServer(http.HandlerFunc(func(w http.ResponseWriter, r *http.Request) {
		id := r.URL.Path[strings.LastIndexByte(r.URL.Path, '/')+1:]
		if c, ok := hits.Load(id); ok {
			atomic.AddInt64(c.(*int64), 1)
		}
		io.WriteString(w, "upstream "+id)
	}))
	defer upstream.Close()

	dir := filepath.Join(os.Getenv("VERIF_TMP"), "c12hist")
	if err := os.MkdirAll(dir, 0o755); err != nil {
		t.Fatal(err)
	}
	refresh := time.Duration(verifx.EnvInt("VERIF_C12_REFRESH_MS", 20)) * time.Millisecond
	cfgs := map[string]config.AuthScheme{}
	files := make([]string, len(hists))
	var text bytes.Buffer
	for i := range hists {
		files[i] = filepath.Join(dir, fmt.Sprintf("h%d.htpasswd", i))
		if err := verifx.C12HistInstall(files[i], "v1", verifx.C12HistBaseMtime); err != nil {
			t.Fatal(err)
		}
		name := fmt.Sprintf("h%d", i)
		b := config.BasicAuth{File: files[i], Realm: "c12"}
		if hists[i].Reloads() > 0 {
			b.Refresh = refresh
		}
		cfgs[name] = config.AuthScheme{Name: name, Type: "basic", Basic: b}
		fmt.Fprintf(&text, "route add hist-%d /h/%d/ %s/ opts \"auth=%s\"\n", i, i, upstream.URL, name)
	}
	schemes, err := auth.LoadAuthSchemes(cfgs)
	if err != nil {
		t.Fatal(err)
	}
	tbl, err := route.NewTable(&text)
	if err != nil {
		t.Fatal(err)
	}
	gc := route.NewGlobCache(64)
	px := httptest.NewServer(&HTTPProxy{
		Config:    config.Proxy{},
		Transport: &http.Transport{MaxIdleConnsPerHost: 64, DisableCompression: true},
		Lookup: func(r *http.Request) *route.Target {
			return tbl.Lookup(r, "", route.Picker["rr"], route.Matcher["prefix"], gc, true)
		},
		AuthSchemes: schemes,
	})
	defer px.Close()
	client := &http.Client{Transport: &http.Transport{MaxIdleConnsPerHost: 32, DisableCompression: true}, Timeout: 60 * time.Second}

	var ran, attempts, accepted, rejected, reloads, seq, nontrivial, notApplied, skippedAfter, unchangedTime, removals int64
	// the refresh contract is a time bound: a replaced file is in force one refresh interval later.
	// The harness waits 250 intervals (>= 5 s) before it calls a refresh missing.
	bound := 250 * refresh
	if bound < 5*time.Second {
		bound = 5 * time.Second
	}
	var sampleMu sync.Mutex
	var samples []string

	runOne := func(i int) {
		h := &hists[i]
		name := fmt.Sprintf("h%d", i)
		mtime := int64(verifx.C12HistBaseMtime) // of the file the scheme has loaded
		prevLive := []string{"v1"}
		k := 0
		sawAccept := false
		feat := func(clause, cause string) map[string]any {
			return map[string]any{"sub": "auth-history", "clause": clause, "cause": cause}
		}
		for pos, e := range h.Events {
			if e.Ev == "remove" {
				if atomic.LoadInt64(&notApplied) >= 3 {
					atomic.AddInt64(&skippedAfter, 1)
					return
				}
				if err := os.Remove(files[i]); err != nil {
					oracle("remove: %v", err)
					return
				}
				// the file is gone: within the time bound nobody is accepted any more - observed on the sentinel
				// users of the contents that could be in force
				deadline := time.Now().Add(bound)
				cleared := false
				for {
					still := false
					for _, v := range prevLive {
						if v == "gone" {
							continue
						}
						req := httptest.NewRequest("GET", "http://c12.test/", nil)
						verifx.C12HistSentinel(req, v)
						if schemes[name].Authorized(req, httptest.NewRecorder()) {
							still = true
						}
					}
					if !still {
						cleared = true
						break
					}
					if time.Now().After(deadline) {
						break
					}
					time.Sleep(2 * time.Millisecond)
				}
				if !cleared {
					atomic.AddInt64(&notApplied, 1)
					verifx.Fail(h, feat("refresh-not-applied", "file-removed"),
						"history [%s], event %d: the htpasswd file disappeared; %v later (refresh interval %v) the credentials of the content loaded before are still accepted",
						h.Text(), pos+1, bound, refresh)
					return
				}
				atomic.AddInt64(&removals, 1)
				prevLive = e.Live
				continue
			}
			if e.Ev == "reload" {
				prevLive = e.Live
				if e.Mt != "equal" && atomic.LoadInt64(&notApplied) >= 3 {
					// a tree whose refresh is broken: do not spend the time bound on every history
					atomic.AddInt64(&skippedAfter, 1)
					return
				}
				switch e.Mt {
				case "older":
					mtime -= 10
				case "equal":
				default:
					mtime += 10
				}
				if err := verifx.C12HistInstall(files[i], e.Ver, mtime); err != nil {
					oracle("install %s: %v", e.Ver, err)
					return
				}
				if e.Mt == "equal" {
					// documented: only a changed modification time triggers the refresh; either content may
					// be in force from here on (the specification permits both verdicts)
					atomic.AddInt64(&unchangedTime, 1)
					continue
				}
				// causal barrier: the new content is in force once its sentinel user is accepted
				deadline := time.Now().Add(bound)
				applied := false
				for {
					req := httptest.NewRequest("GET", "http://c12.test/", nil)
					verifx.C12HistSentinel(req, e.Ver)
					if schemes[name].Authorized(req, httptest.NewRecorder()) {
						applied = true
						break
					}
					if time.Now().After(deadline) {
						break
					}
					time.Sleep(2 * time.Millisecond)
				}
				if !applied {
					atomic.AddInt64(&notApplied, 1)
					verifx.Fail(h, feat("refresh-not-applied", "mtime-"+e.Mt),
						"history [%s], event %d: the htpasswd file was replaced by content %s with a modification time %s than that of the loaded file; %v later (refresh interval %v) the new content is still not in force - credentials of the old content stay valid",
						h.Text(), pos+1, e.Ver, e.Mt, bound, refresh)
					return
				}
				atomic.AddInt64(&reloads, 1)
				continue
			}
			id := fmt.Sprintf("a%d", atomic.AddInt64(&seq, 1))
			cnt := new(int64)
			hits.Store(id, cnt)
			req, _ := http.NewRequest("GET", fmt.Sprintf("%s/h/%d/%s", px.URL, i, id), nil)
			verifx.C12HistSetCreds(req, e.Cred)
			resp, err := client.Do(req)
			if err != nil {
				oracle("history %d attempt %d: request failed: %v", i, k+1, err)
				return
			}
			io.Copy(io.Discard, resp.Body)
			resp.Body.Close()
			n := atomic.LoadInt64(cnt)
			hits.Delete(id)
			atomic.AddInt64(&attempts, 1)
			mayAccept, mayReject := false, false
			for _, b := range h.Allowed[k] {
				if b {
					mayAccept = true
				} else {
					mayReject = true
				}
			}
			desc := fmt.Sprintf("history [%s], attempt %d (event %d)", h.Text(), k+1, pos+1)
			switch {
			case resp.StatusCode == 200 && !mayAccept:
				// counterfactual: a scheme instance that has seen nothing, on the same htpasswd file
				cause := "credentials"
				fresh, ferr := auth.LoadAuthSchemes(map[string]config.AuthScheme{"f": {Name: "f", Type: "basic", Basic: config.BasicAuth{File: files[i], Realm: "c12"}}})
				if ferr == nil {
					r2 := httptest.NewRequest("GET", "http://c12.test/", nil)
					verifx.C12HistSetCreds(r2, e.Cred)
					if !fresh["f"].Authorized(r2, httptest.NewRecorder()) {
						cause = "earlier-attempts"
					}
				}
				verifx.Fail(h, feat("authorized-must-not", cause),
					"%s: status 200 and the upstream was hit %d time(s), but htpasswd content %s does not contain these credentials [cause: %s - a fresh scheme instance on the same file %s them]",
					desc, n, e.Ver, cause, map[bool]string{true: "rejects", false: "also accepts"}[cause == "earlier-attempts"])
			case resp.StatusCode == 401 && !mayReject:
				verifx.Fail(h, feat("unauthorized-must", "credentials"), "%s: status 401 although htpasswd content %s contains these credentials", desc, e.Ver)
			case resp.StatusCode != 200 && resp.StatusCode != 401:
				if resp.StatusCode == 502 || resp.StatusCode == 503 || resp.StatusCode == 504 || resp.StatusCode == 404 {
					oracle("%s: status %d", desc, resp.StatusCode)
					return
				}
				verifx.Fail(h, feat("unexpected-status", "credentials"), "%s: status %d", desc, resp.StatusCode)
			}
			if resp.StatusCode == 200 {
				atomic.AddInt64(&accepted, 1)
				sawAccept = true
				if n != 1 {
					verifx.Fail(h, feat("forwarded-hit-count", "credentials"), "%s: status 200 but the upstream counted %d hits", desc, n)
				}
			} else {
				atomic.AddInt64(&rejected, 1)
				if n != 0 {
					verifx.Fail(h, feat("denied-but-upstream-contacted", "credentials"), "%s: status %d but the upstream was contacted %d time(s)", desc, resp.StatusCode, n)
				}
			}
			k++
		}
		atomic.AddInt64(&ran, 1)
		if sawAccept && k >= 2 {
			atomic.AddInt64(&nontrivial, 1)
		}
		if i%311 == 17 {
			sampleMu.Lock()
			if len(samples) < 2 {
				samples = append(samples, "auth history: "+h.Text())
			}
			sampleMu.Unlock()
		}
	}
	jobs := make(chan int, 64)
	var wg sync.WaitGroup
	for w := 0; w < 12; w++ {
		wg.Add(1)
		go func() {
			defer wg.Done()
			for i := range jobs {
				runOne(i)
			}
		}()
	}
	for i := range hists {
		jobs <- i
	}
	close(jobs)
	wg.Wait()
	verifx.Summary(map[string]any{"histories": len(hists), "ran": ran, "attempts": attempts, "accepted": accepted, "rejected": rejected,
		"reloads": reloads, "removals": removals, "refresh_not_applied": notApplied, "skipped_after_refresh_failures": skippedAfter,
		"unchanged_mtime_replacements": unchangedTime, "distinct_nontrivial": nontrivial, "samples": samples, "plumbing": plumbing})
}
