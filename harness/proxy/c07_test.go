package proxy

// C07 conformance: what the upstream received and what the client got back must be what
// HttpProxy!BuildTarget / Respond / NoRoute prescribe for the case.

import (
	"bufio"
	"errors"
	"fmt"
	"net"
	"net/http"
	"strings"
	"sync"
	"testing"

	"github.com/fabiolb/fabio/internal/verifx"
)

func c07Features(cs *cvxCase, clause string) map[string]any {
	f := map[string]any{"sub": cs.C.Sub, "clause": clause}
	if cs.Out.Kind == "noroute" {
		f["accesslog"] = cs.C.AccessLog
		if len(cs.C.PageHist) > 0 {
			f["pagehist"] = strings.Join(cs.C.PageHist, ">")
		}
		if len(cs.C.Flip) > 0 {
			f["flip"] = strings.Join(cs.C.Flip, ",")
		}
	}
	if len(cs.C.Routes) > 0 && cs.Out.Kind == "upstream" {
		r := &cs.C.Routes[0]
		switch clause {
		case "path":
			f["rewrite"] = cvxRewriteClass(r, cs.C.Path)
			f["escapes"] = cvxEscapeClass(cs.C.Path)
			if cvxOptionNeedsEscape(r.Strip) || cvxOptionNeedsEscape(r.Prepend) {
				f["option_needs_escape"] = true
			}
		case "resp-header":
			f["answer"] = cs.Out.Resp
			f["cfggzip"] = cs.C.CfgGzip
		case "status":
			f["answer"] = cs.Out.Resp
			f["headers"] = cs.C.Hdrs
			f["accesslog"] = cs.C.AccessLog
		case "incomplete-as-complete":
			f["answer"] = cs.Out.Resp
		case "host":
			f["hostopt"] = r.HostOpt
		case "query":
			f["tquery"] = len(r.TQuery) > 0
		case "req-body", "resp-body":
			f["body"] = cs.Att.ReqBody
			if clause == "resp-body" {
				f["body"] = cs.Att.RespBody
				f["answer"] = cs.Out.Resp
				f["cfggzip"] = cs.C.CfgGzip
			}
		}
	}
	return f
}

func c07Describe(cs *cvxCase) string {
	s := fmt.Sprintf("%s %s", cs.C.Method, cvxJoin(cs.C.Path))
	if len(cs.C.Query) > 0 {
		s += "?" + cvxQuery(cs.C.Query)
	}
	if cs.C.TLS {
		s += " (TLS)"
	}
	for _, r := range cs.C.Routes {
		s += fmt.Sprintf(" | route %s strip=%s prepend=%s host=%s tq=%s", cvxOpt(r.Src), cvxOpt(r.Strip), cvxOpt(r.Prepend), r.HostOpt, cvxQuery(r.TQuery))
	}
	s += fmt.Sprintf(" | headers=%s body=%d chunked=%v", cs.C.Hdrs, cs.Att.ReqBody, cs.Att.ReqChunked)
	if cs.C.CfgGzip {
		s += " gzip.contenttype=^text/"
	}
	if cs.Out.Kind == "upstream" {
		s += " => upstream " + c07WantURI(cs) + " answer=" + cs.Out.Resp
	} else {
		s += fmt.Sprintf(" => %s %d", cs.Out.Kind, cs.Out.Status)
	}
	return s
}

func c07WantURI(cs *cvxCase) string {
	uri := cvxJoin(cs.Up.Path)
	if len(cs.Up.Query) > 0 {
		uri += "?" + cvxQuery(cs.Up.Query)
	}
	return uri
}

// c07SamePathModOptionHex: the escapes fabio itself writes for the text of the prepend option may use
// either case for their hex digits; everything that comes from the client must be byte-identical.
func c07SamePathModOptionHex(cs *cvxCase, got string) bool {
	r := &cs.C.Routes[0]
	if len(r.Prepend) == 0 {
		return false
	}
	k := len(r.Prepend)
	if r.Prepend[0] != "/" {
		k++
	}
	if k > len(cs.Up.Path) {
		return false
	}
	prefix, rest := cvxJoin(cs.Up.Path[:k]), cvxJoin(cs.Up.Path[k:])
	return len(got) == len(prefix)+len(rest) && strings.EqualFold(got[:len(prefix)], prefix) && got[len(prefix):] == rest
}

func c07WantHost(w *cvxWorld, cs *cvxCase) string {
	switch cs.Up.Host {
	case "req":
		return cvxReqHost(cs)
	case "dst":
		return w.upAddr
	}
	return cvxNamedHost
}

// c07Fault: the upstream dies before its answer is complete.  Whatever fabio makes of that, the client must
// not be handed an answer that looks complete and successful while part of the upstream's body is missing:
// either the exchange ends in an error on the client's side (no last chunk, fewer bytes than Content-Length,
// connection closed), or fabio says so with a 5xx of its own.
func c07Fault(w *cvxWorld, j *cvxJob, fail func(clause, format string, a ...any)) bool {
	cs := j.cs
	const whole = 32*1024 + 1
	w.plans.Store(j.id, &cvxPlan{Fault: cs.Out.Resp, Body: whole})
	defer w.plans.Delete(j.id)
	att := cvxAtt{}
	cs.Att = &att
	got, err := w.doHTTPOnce(cs, j.id)
	if err != nil {
		if strings.HasPrefix(err.Error(), "harness:") {
			w.errorf("case %d: %v", j.id, err)
			return false
		}
		return true // the client noticed
	}
	if got.Status >= 500 && got.Status <= 599 {
		return true // fabio said so
	}
	fail("incomplete-as-complete", "the upstream died before its answer was complete (%s), yet the client received a complete answer: status %d, %d body bytes (the whole body has %d)",
		cs.Out.Resp, got.Status, got.BodyLen, whole)
	return true
}

// c07NoRoute: a request without a route gets the configured status and the configured page - the one the
// registry delivered last (history cases), one of those that were configured while the request was there (the
// page changes while requests are answered; then the request is repeated) - complete, and no upstream is contacted.
func c07NoRoute(w *cvxWorld, j *cvxJob, fail func(clause, format string, a ...any)) bool {
	cs := j.cs
	for _, p := range cs.C.PageHist {
		if err := cvxDeliverPage(cvxPage(p)); err != nil {
			w.errorf("case %d: the page could not be delivered: %v", j.id, err)
			return false
		}
	}
	want := []string{}
	for _, p := range cs.Out.Pages {
		want = append(want, cvxPage(p))
	}
	if len(want) == 0 {
		want = []string{cvxPage(cs.Out.Page)}
	}
	repeats := 1
	if len(cs.C.Flip) > 0 {
		repeats = cvxFlipRepeats()
		cs.Att = &cvxAtt{}
	}
	small := cs.Att.ReqBody <= 32*1024+1
	for n := 0; n < repeats; n++ {
		rid := j.id + int64(n)<<cvxAttemptShift
		got, err := w.doHTTPOnce(cs, rid)
		if err != nil && !small {
			// a large body that nobody reads: the connection may be reset under the client's feet (net/http)
			got, rid, err = w.doHTTP(cs, j.id)
		}
		if err != nil {
			var ne net.Error
			if strings.HasPrefix(err.Error(), "harness:") || (errors.As(err, &ne) && ne.Timeout()) || !small {
				w.errorf("case %d: %v (%s)", j.id, err, c07Describe(cs))
				return false
			}
			// nothing but fabio takes part in this answer: an exchange that breaks off is fabio's doing
			fail("noroute-page", "no route: the exchange broke off (%v); want status %d and the complete page", err, cs.Out.Status)
			return len(cs.C.Flip) > 0 || len(cs.C.PageHist) > 0
		}
		if seen := w.take(rid); seen != nil {
			fail("upstream-contacted", "no route: the upstream must not be contacted, it received %s %s", seen.Method, seen.RequestURI)
		}
		if got.Status != cs.Out.Status {
			fail("noroute-status", "no route: status %d, want the configured %d", got.Status, cs.Out.Status)
		}
		ok := false
		for _, page := range want {
			if string(got.Body) == page && got.BodyLen == int64(len(page)) {
				ok = true
			}
		}
		if !ok {
			fail("noroute-page", "no route: body %q (%d bytes), want the configured page %q", got.Body, got.BodyLen, want)
			break
		}
	}
	return len(cs.C.Flip) > 0 || len(cs.C.PageHist) > 0
}

// c07BadGateway: the instance of the route the lookup settled on refuses the connection.  fabio answers with an
// error of its own (5xx) and the request is handed to nobody else: no upstream - of this or of any other route - sees it.
func c07BadGateway(w *cvxWorld, j *cvxJob, fail func(clause, format string, a ...any)) bool {
	cs := j.cs
	cs.Att = &cvxAtt{}
	got, err := w.doHTTPOnce(cs, j.id)
	if err != nil {
		w.errorf("case %d: %v (%s)", j.id, err, c07Describe(cs))
		return false
	}
	if seen := w.take(j.id); seen != nil {
		fail("upstream-contacted", "the instance of the route refuses connections, yet an upstream received the request: %s %s Host %q (client got status %d)",
			seen.Method, seen.RequestURI, seen.Host, got.Status)
	}
	if got.Status < 500 || got.Status > 599 {
		fail("status", "the instance of the route refuses connections: client got status %d, want an error answer of fabio (5xx)", got.Status)
	}
	return true
}

// c07SimRounds: how often each of the simultaneous requests is repeated over its connection
func c07SimRounds() int {
	if n := verifx.EnvInt("VERIF_C07_SIM_ROUNDS", 0); n > 0 {
		return n
	}
	if verifx.Thorough() {
		return 1200
	}
	return 400
}

// c07Together: the requests of c.hist are in fabio at the same moment (HttpProxy!TogetherUps): each of them is sent
// over a connection of its own, opened beforehand, all released at once, and repeated over that connection so
// that they keep overlapping.  Every upstream request must be the one made from ITS request alone.
func c07Together(w *cvxWorld, j *cvxJob) bool {
	cs := j.cs
	if len(cs.Each) != len(cs.C.Hist) {
		w.errorf("case %d: %d simultaneous requests with %d expected upstream requests", j.id, len(cs.C.Hist), len(cs.Each))
		return false
	}
	rounds := c07SimRounds()
	var wg sync.WaitGroup
	start := make(chan struct{})
	for k, rq := range cs.C.Hist {
		step := *cs
		step.C.Hist, step.Each, step.Conn = nil, nil, nil
		step.C.Path, step.C.Query, step.C.HostLabel, step.C.RHost = rq.Path, rq.Query, rq.Host, rq.RHost
		step.Up.Path, step.Up.Query = cs.Each[k].Path, cs.Each[k].Query
		step.Att = &cvxAtt{}
		step.parent, step.step = cs, k+1
		conn, err := w.cvxOpenConn(&step)
		if err != nil {
			w.errorf("case %d: %v", j.id, err)
			continue
		}
		base := j.id + int64(k+1)<<34
		wg.Add(1)
		go func(st *cvxCase, k int) {
			defer wg.Done()
			defer conn.Close()
			br := bufio.NewReader(conn)
			fail := func(clause, format string, a ...any) {
				f := c07Features(st, clause)
				f["simultaneous"], f["step"] = true, k+1
				verifx.Fail(cs, f, "%s (request %d of %d that are in the proxy at the same moment through one route)\n  case: %s",
					fmt.Sprintf(format, a...), k+1, len(cs.C.Hist), c07Describe(st))
			}
			wantURI, wantHost := c07WantURI(st), c07WantHost(w, st)
			<-start
			if p, stack := verifx.Safely(func() { c07SimLoop(w, j, st, k, conn, br, base, rounds, wantURI, wantHost, fail) }); p != nil {
				verifx.Fail(cs, map[string]any{"clause": "panic", "sub": cs.C.Sub}, "panic: %v\n%s", p, stack)
			}
		}(&step, k)
	}
	close(start)
	wg.Wait()
	return true
}

func c07SimLoop(w *cvxWorld, j *cvxJob, st *cvxCase, k int, conn net.Conn, br *bufio.Reader, base int64, rounds int, wantURI, wantHost string, fail func(clause, format string, a ...any)) {
	for n := 0; n < rounds; n++ {
		rid := base + int64(n)<<cvxAttemptShift
		w.plans.Store(rid, &cvxPlan{Status: 200, Body: 1})
		got, err := cvxRawGet(conn, br, st, rid)
		w.plans.Delete(rid)
		if err != nil {
			w.errorf("case %d request %d round %d: %v (%s)", j.id, k+1, n, err, c07Describe(st))
			return
		}
		seen := w.take(rid)
		if seen == nil {
			fail("upstream-missing", "the upstream was not contacted (client got status %d)", got.Status)
			return
		}
		bad := false
		if seen.Method != st.Up.Method {
			fail("method", "upstream saw method %q, want %q", seen.Method, st.Up.Method)
			bad = true
		}
		if seen.RequestURI != wantURI {
			gp, gq, _ := strings.Cut(seen.RequestURI, "?")
			wp, wq, _ := strings.Cut(wantURI, "?")
			if gp != wp {
				fail("path", "upstream saw request target %q, want %q", seen.RequestURI, wantURI)
			}
			if gq != wq || gp == wp {
				fail("query", "upstream saw query %q, want %q", gq, wq)
			}
			bad = true
		}
		if seen.Host != wantHost {
			fail("host", "upstream saw Host %q, want %q", seen.Host, wantHost)
			bad = true
		}
		if got.Status != 200 || got.BodyLen != 1 {
			fail("status", "client got status %d and %d body bytes, the upstream answered 200 with 1", got.Status, got.BodyLen)
			bad = true
		}
		if bad {
			return
		}
	}
}

func c07Exec(w *cvxWorld, j *cvxJob) bool {
	cs := j.cs
	if cs.C.Together && len(cs.C.Hist) > 0 {
		nt := false
		if p, stack := verifx.Safely(func() { nt = c07Together(w, j) }); p != nil {
			verifx.Fail(cs, map[string]any{"clause": "panic", "sub": cs.C.Sub}, "panic: %v\n%s", p, stack)
		}
		return nt
	}
	fail := func(clause, format string, a ...any) {
		verifx.Fail(cs, c07Features(cs, clause), "%s\n  case: %s", fmt.Sprintf(format, a...), c07Describe(cs))
	}
	interim, status, hdr := cvxAnswerScript(cs.Out.Resp)
	if cs.Out.Kind == "upstream" {
		w.plans.Store(j.id, &cvxPlan{Interim: interim, Status: status, Hdr: hdr, Body: cs.Att.RespBody, Chunked: cs.Att.RespChunked})
		defer w.plans.Delete(j.id)
	}
	if cs.Out.Cut {
		return c07Fault(w, j, fail)
	}
	if cs.C.Hdrs == "expect" && cs.Att.ReqBody == 0 {
		// Expect: 100-continue announces a body
		att := *cs.Att
		att.ReqBody = 1
		cs.Att = &att
	}
	if cs.Out.Kind == "noroute" {
		return c07NoRoute(w, j, fail)
	}
	if cs.Out.Kind == "badgateway" {
		return c07BadGateway(w, j, fail)
	}
	got, rid, err := w.doHTTP(cs, j.id)
	if errors.Is(err, errCvxTruncated) {
		fail("response-truncated", "the answer was cut short on every one of 4 attempts: %v", err)
		return false
	}
	if err != nil {
		w.errorf("case %d: %v (%s)", j.id, err, c07Describe(cs))
		return false
	}
	seen := w.take(rid)

	switch cs.Out.Kind {
	case "upstream":
		if seen == nil {
			fail("upstream-missing", "the upstream was not contacted (client got status %d)", got.Status)
			return false
		}
		if seen.Hits != cs.Hits {
			fail("upstream-hits", "the upstream received the request %d times, want %d", seen.Hits, cs.Hits)
		}
		// ---- what the upstream received
		if seen.Method != cs.Up.Method {
			fail("method", "upstream saw method %q, want %q", seen.Method, cs.Up.Method)
		}
		wantURI := c07WantURI(cs)
		if seen.RequestURI != wantURI {
			gp, gq, _ := strings.Cut(seen.RequestURI, "?")
			wp, wq, _ := strings.Cut(wantURI, "?")
			if gp != wp && !c07SamePathModOptionHex(cs, gp) {
				fail("path", "upstream saw request target %q, want %q", seen.RequestURI, wantURI)
			}
			if gq != wq {
				fail("query", "upstream saw query %q, want %q", gq, wq)
			}
			if gp == wp && gq == wq {
				// the same path and parameters, another request-target: a "?" without parameters came or went
				fail("query", "upstream saw request target %q, want %q", seen.RequestURI, wantURI)
			}
		}
		if wh := c07WantHost(w, cs); seen.Host != wh {
			fail("host", "upstream saw Host %q, want %q", seen.Host, wh)
		}
		// end-to-end request headers the client sent arrive unchanged
		sent := http.Header{}
		for _, l := range cvxWireHeaders(cs, rid) {
			k := http.CanonicalHeaderKey(l.Name)
			sent[k] = append(sent[k], l.Vals...)
		}
		for k, vals := range sent {
			if k == "Expect" {
				continue // consumed or passed on by the HTTP machinery of either hop: not judged
			}
			if !cvxSameVals(seen.Header[k], vals) {
				fail("req-header", "upstream saw %s: %q, the client sent %q", k, seen.Header[k], vals)
			}
		}
		if seen.BodyLen != int64(cs.Att.ReqBody) || seen.BodySum != cvxBodySum[cs.Att.ReqBody] {
			fail("req-body", "upstream read a body of %d bytes (sum %x), the client sent %d bytes (sum %x, chunked=%v)",
				seen.BodyLen, seen.BodySum, cs.Att.ReqBody, cvxBodySum[cs.Att.ReqBody], cs.Att.ReqChunked)
		}
		// ---- what the client got back
		if got.Status != status {
			fail("status", "client got status %d, the upstream answered %d", got.Status, status)
		}
		for _, l := range hdr {
			if g := got.Header.Values(l.Name); !cvxSameVals(g, l.Vals) {
				fail("resp-header", "client got %s: %q, the upstream sent %q", l.Name, g, l.Vals)
			}
		}
		if got.BodyLen != int64(cs.Att.RespBody) || got.BodySum != cvxBodySum[cs.Att.RespBody] {
			fail("resp-body", "client read a body of %d bytes (sum %x), the upstream sent %d bytes (sum %x, chunked=%v)",
				got.BodyLen, got.BodySum, cs.Att.RespBody, cvxBodySum[cs.Att.RespBody], cs.Att.RespChunked)
		}
		if msg := cvxCheckHdr(cs, "sts", cs.Out.STS, got.Header.Values("Strict-Transport-Security")); msg != "" {
			fail("resp-header", "Strict-Transport-Security: %s", msg)
		}
		r := &cs.C.Routes[0]
		return cvxRewriteClass(r, cs.C.Path) != "none" || cvxEscapeClass(cs.C.Path) != "none" || r.HostOpt != "" || len(r.TQuery) > 0 || len(interim) > 0 || cs.C.Hdrs == "expect"

	default:
		w.errorf("case %d: outcome %q is not one C07 replays", j.id, cs.Out.Kind)
	}
	return false
}

func TestVerifC07(t *testing.T) {
	(&cvxRunner{prop: "C07", exec: c07Exec, sample: c07Describe}).run(t)
}

// TestVerifC07Sim is TestVerifC07 under another name: the check runs the cases with simultaneous requests a
// second time with the race detector.
func TestVerifC07Sim(t *testing.T) {
	TestVerifC07(t)
}
