package proxy

// C12 conformance, authentication while the htpasswd content changes under requests in flight:
// every schedule TLC enumerated from spec/AccessOverlap.tla (attempts with an extent: start ...
// finish; a replacement of the file taking effect in between) is played by real clients against a
// real HTTPProxy whose route (opts "auth=<scheme>") comes from route.NewTable and whose scheme
// instance (refresh > 0, one per schedule) comes from auth.LoadAuthSchemes on the schedule's own
// htpasswd file.  The password of the judged user is stored under bcrypt, so that a check takes
// about 0.1 s and the refresh really happens while checks run.  An attempt whose extent contains
// the replacement is played as a volley of identical requests fired across the replacement (each
// of them lies inside the attempt's extent, so the attempt's permitted verdicts apply to each).
// Per request: status seen by the client and the hit counter of the instrumented upstream against
// the verdicts the specification permits - in particular, an attempt STARTED after the new content
// was observed in force is judged by the new content alone.

import (
	"bytes"
	"fmt"
	"io"
	"log"
	"net/http"
	"net/http/httptest"
	"os"
	"path/filepath"
	"strings"
	"sync"
	"sync/atomic"
	"testing"
	"time"

	"github.com/fabiolb/fabio/auth"
	"github.com/fabiolb/fabio/config"
	"github.com/fabiolb/fabio/internal/verifx"
	"github.com/fabiolb/fabio/route"
)

type c12ovShot struct {
	status     int
	hits       int64
	start, end time.Time
	err        error
}

type c12ovAttempt struct {
	cred    string
	overlap bool
	mu      sync.Mutex
	shots   []c12ovShot
	wg      sync.WaitGroup
	stop    chan struct{}
	stopped bool
	fired   int32
}

func (a *c12ovAttempt) halt() {
	if !a.stopped {
		a.stopped = true
		close(a.stop)
	}
}

func TestVerifC12AuthOverlap(t *testing.T) {
	log.SetOutput(io.Discard)

	hists, err := verifx.ReadCases[verifx.C12Overlap]("")
	if err != nil {
		t.Fatal(err)
	}
	var plumbing int64
	oracle := func(format string, a ...any) {
		atomic.AddInt64(&plumbing, 1)
		verifx.Emit(map[string]any{"kind": "oracle", "msg": fmt.Sprintf(format, a...)})
	}
	// referee: the permitted verdicts follow from the concrete htpasswd texts and the contents in force
	// during each attempt's extent
	if os.Getenv("VERIF_C12_NOREFEREE") == "" {
		for i := range hists {
			may := map[int][]bool{}
			for _, a := range hists[i].Allowed {
				may[a.ID] = a.May
			}
			for _, e := range hists[i].Events {
				if e.Ev != "finish" {
					continue
				}
				ref, spec := map[bool]bool{}, map[bool]bool{}
				var rerr error
				for _, v := range e.Seen {
					w, err := verifx.C12SlowReferee(v, e.Cred)
					if err != nil {
						rerr = err
					}
					ref[w] = true
				}
				for _, b := range may[e.ID] {
					spec[b] = true
				}
				if rerr != nil || len(ref) == 0 || len(ref) != len(spec) || ref[true] != spec[true] || ref[false] != spec[false] {
					oracle("referee says %v (err %v) for %s under %v, specification says %v", ref, rerr, e.Cred, e.Seen, may[e.ID])
					verifx.Summary(map[string]any{"histories": 0})
					return
				}
			}
		}
	}

	var hits sync.Map
	upstream := httptest.NewServer(http.HandlerFunc(func(w http.ResponseWriter, r *http.Request) {
		id := r.URL.Path[strings.LastIndexByte(r.URL.Path, '/')+1:]
		if c, ok := hits.Load(id); ok {
			atomic.AddInt64(c.(*int64), 1)
		}
		io.WriteString(w, "upstream "+id)
	}))
	defer upstream.Close()

	dir := filepath.Join(os.Getenv("VERIF_TMP"), "c12overlap")
	if err := os.MkdirAll(dir, 0o755); err != nil {
		t.Fatal(err)
	}
	refresh := time.Duration(verifx.EnvInt("VERIF_C12_OV_REFRESH_MS", 5)) * time.Millisecond
	maxVolley := verifx.EnvInt("VERIF_C12_OV_VOLLEY", 6)
	cfgs := map[string]config.AuthScheme{}
	files := make([]string, len(hists))
	var text bytes.Buffer
	for i := range hists {
		files[i] = filepath.Join(dir, fmt.Sprintf("o%d.htpasswd", i))
		if err := verifx.C12SlowInstall(files[i], "v1", verifx.C12HistBaseMtime); err != nil {
			t.Fatal(err)
		}
		name := fmt.Sprintf("o%d", i)
		cfgs[name] = config.AuthScheme{Name: name, Type: "basic", Basic: config.BasicAuth{File: files[i], Realm: "c12", Refresh: refresh}}
		fmt.Fprintf(&text, "route add ov-%d /o/%d/ %s/ opts \"auth=%s\"\n", i, i, upstream.URL, name)
	}
	schemes, err := auth.LoadAuthSchemes(cfgs)
	if err != nil {
		t.Fatal(err)
	}
	tbl, err := route.NewTable(&text)
	if err != nil {
		t.Fatal(err)
	}
	gc := route.NewGlobCache(64)
	px := httptest.NewServer(&HTTPProxy{
		Config:    config.Proxy{},
		Transport: &http.Transport{MaxIdleConnsPerHost: 64, DisableCompression: true},
		Lookup: func(r *http.Request) *route.Target {
			return tbl.Lookup(r, "", route.Picker["rr"], route.Matcher["prefix"], gc, true)
		},
		AuthSchemes: schemes,
	})
	defer px.Close()
	client := &http.Client{Transport: &http.Transport{MaxIdleConnsPerHost: 64, DisableCompression: true}, Timeout: 120 * time.Second}

	var ran, nshots, accepted, rejected, reloads, seq, nontrivial, notApplied, spanned, judgedAfter int64
	bound := 10 * time.Second // the refresh contract is a time bound (one interval = 5 ms); 2000 intervals before it counts as missing
	var sampleMu sync.Mutex
	var samples []string

	runOne := func(i int) {
		h := &hists[i]
		name := fmt.Sprintf("o%d", i)
		mtime := int64(verifx.C12HistBaseMtime)
		may := map[int][]bool{}
		for _, a := range h.Allowed {
			may[a.ID] = a.May
		}
		overlaps := map[int]bool{}
		for _, e := range h.Events {
			if e.Ev == "finish" && len(e.Seen) > 1 {
				overlaps[e.ID] = true
			}
		}
		feat := func(clause, cause string) map[string]any {
			return map[string]any{"sub": "auth-overlap", "clause": clause, "cause": cause}
		}
		open := map[int]*c12ovAttempt{}
		defer func() { // never leave requests behind
			for _, a := range open {
				a.halt()
				a.wg.Wait()
			}
		}()
		fire := func(a *c12ovAttempt) {
			id := fmt.Sprintf("o%d", atomic.AddInt64(&seq, 1))
			cnt := new(int64)
			hits.Store(id, cnt)
			req, _ := http.NewRequest("GET", fmt.Sprintf("%s/o/%d/%s", px.URL, i, id), nil)
			verifx.C12HistSetCreds(req, a.cred)
			a.wg.Add(1)
			atomic.AddInt32(&a.fired, 1)
			go func() {
				defer a.wg.Done()
				s := c12ovShot{start: time.Now()}
				resp, err := client.Do(req)
				if err != nil {
					s.err = err
				} else {
					io.Copy(io.Discard, resp.Body)
					resp.Body.Close()
					s.status = resp.StatusCode
				}
				s.end = time.Now()
				s.hits = atomic.LoadInt64(cnt)
				hits.Delete(id)
				a.mu.Lock()
				a.shots = append(a.shots, s)
				a.mu.Unlock()
			}()
		}
		var installAt, appliedAt time.Time
		reloaded := false
		sawSpan, sawAfter := false, false
		for pos, e := range h.Events {
			switch e.Ev {
			case "start":
				a := &c12ovAttempt{cred: e.Cred, overlap: overlaps[e.ID], stop: make(chan struct{})}
				open[e.ID] = a
				if !a.overlap {
					fire(a)
					continue
				}
				// the attempt's extent contains the replacement: identical requests fired across it
				a.wg.Add(1)
				go func() {
					defer a.wg.Done()
					for n := 0; n < maxVolley; n++ {
						fire(a)
						select {
						case <-a.stop:
							return
						case <-time.After(10 * time.Millisecond):
						}
					}
				}()
			case "reload":
				// let the volleys get under way (this orders nothing that is judged: both contents are
				// permitted for them)
				for _, a := range open {
					if a.overlap {
						for w := 0; atomic.LoadInt32(&a.fired) < 2 && w < 2000; w++ {
							time.Sleep(time.Millisecond)
						}
					}
				}
				time.Sleep(15 * time.Millisecond)
				mtime += 10
				installAt = time.Now()
				if err := verifx.C12SlowInstall(files[i], e.Ver, mtime); err != nil {
					oracle("install %s: %v", e.Ver, err)
					return
				}
				// causal barrier: the new content is in force once its sentinel user is accepted
				deadline := time.Now().Add(bound)
				applied := false
				for {
					req := httptest.NewRequest("GET", "http://c12.test/", nil)
					verifx.C12HistSentinel(req, e.Ver)
					if schemes[name].Authorized(req, httptest.NewRecorder()) {
						applied = true
						break
					}
					if time.Now().After(deadline) {
						break
					}
					time.Sleep(time.Millisecond)
				}
				for _, a := range open {
					a.halt()
				}
				if !applied {
					atomic.AddInt64(&notApplied, 1)
					verifx.Fail(h, feat("refresh-not-applied", "requests-in-flight"),
						"schedule [%s], event %d: the htpasswd file was replaced by content %s while checks were running; %v later (refresh interval %v) the new content is still not in force",
						h.Text(), pos+1, e.Ver, bound, refresh)
					return
				}
				appliedAt = time.Now()
				reloaded = true
				atomic.AddInt64(&reloads, 1)
			case "finish":
				a := open[e.ID]
				if a == nil {
					oracle("schedule %d: finish of an attempt that was not started", i)
					return
				}
				a.halt()
				a.wg.Wait()
				delete(open, e.ID)
				mayAccept, mayReject := false, false
				for _, b := range may[e.ID] {
					if b {
						mayAccept = true
					} else {
						mayReject = true
					}
				}
				for _, s := range a.shots {
					if s.err != nil {
						oracle("schedule %d attempt #%d: request failed: %v", i, e.ID, s.err)
						return
					}
					atomic.AddInt64(&nshots, 1)
					if a.overlap && reloaded && s.start.Before(installAt) && s.end.After(appliedAt) {
						sawSpan = true
					}
					after := reloaded && !a.overlap && s.start.After(appliedAt)
					if after {
						sawAfter = true
					}
					when := "in flight while the file was replaced"
					if !a.overlap {
						when = "started and finished while content " + strings.Join(e.Seen, "/") + " was in force"
						if after {
							when = "STARTED AFTER content " + strings.Join(e.Seen, "/") + " was observed in force"
						}
					}
					p := verifx.C12HistPairs[a.cred]
					desc := fmt.Sprintf("schedule [%s], attempt #%d %s(%q:%q), %s", h.Text(), e.ID, a.cred, p[0], p[1], when)
					switch {
					case s.status == 200 && !mayAccept:
						cause := "credentials"
						fresh, ferr := auth.LoadAuthSchemes(map[string]config.AuthScheme{"f": {Name: "f", Type: "basic", Basic: config.BasicAuth{File: files[i], Realm: "c12"}}})
						if ferr == nil && len(open) == 0 {
							r2 := httptest.NewRequest("GET", "http://c12.test/", nil)
							verifx.C12HistSetCreds(r2, a.cred)
							if !fresh["f"].Authorized(r2, httptest.NewRecorder()) {
								cause = "earlier-attempts"
							}
						}
						verifx.Fail(h, feat("authorized-must-not", cause),
							"%s: status 200 and the upstream was hit %d time(s), but no htpasswd content in force during the attempt (%s) contains these credentials [cause: %s]",
							desc, s.hits, strings.Join(e.Seen, ", "), cause)
					case s.status == 401 && !mayReject:
						verifx.Fail(h, feat("unauthorized-must", "credentials"), "%s: status 401 although the htpasswd content in force (%s) contains these credentials", desc, strings.Join(e.Seen, ", "))
					case s.status != 200 && s.status != 401:
						if s.status == 502 || s.status == 503 || s.status == 504 || s.status == 404 {
							oracle("%s: status %d", desc, s.status)
							return
						}
						verifx.Fail(h, feat("unexpected-status", "credentials"), "%s: status %d", desc, s.status)
					}
					if s.status == 200 {
						atomic.AddInt64(&accepted, 1)
						if s.hits != 1 {
							verifx.Fail(h, feat("forwarded-hit-count", "credentials"), "%s: status 200 but the upstream counted %d hits", desc, s.hits)
						}
					} else {
						atomic.AddInt64(&rejected, 1)
						if s.hits != 0 {
							verifx.Fail(h, feat("denied-but-upstream-contacted", "credentials"), "%s: status %d but the upstream was contacted %d time(s)", desc, s.status, s.hits)
						}
					}
				}
			}
		}
		atomic.AddInt64(&ran, 1)
		if sawSpan {
			atomic.AddInt64(&spanned, 1)
		}
		if sawAfter {
			atomic.AddInt64(&judgedAfter, 1)
		}
		if sawSpan && sawAfter {
			atomic.AddInt64(&nontrivial, 1)
		}
		if i%23 == 5 {
			sampleMu.Lock()
			if len(samples) < 2 {
				samples = append(samples, "auth overlap: "+h.Text())
			}
			sampleMu.Unlock()
		}
	}
	jobs := make(chan int, 64)
	var wg sync.WaitGroup
	for w := 0; w < verifx.EnvInt("VERIF_C12_OV_WORKERS", 4); w++ {
		wg.Add(1)
		go func() {
			defer wg.Done()
			for i := range jobs {
				runOne(i)
			}
		}()
	}
	for i := range hists {
		jobs <- i
	}
	close(jobs)
	wg.Wait()
	verifx.Summary(map[string]any{"histories": len(hists), "ran": ran, "requests": nshots, "accepted": accepted, "rejected": rejected,
		"reloads": reloads, "refresh_not_applied": notApplied, "spanned": spanned, "judged_after": judgedAfter,
		"distinct_nontrivial": nontrivial, "samples": samples, "plumbing": plumbing})
}
