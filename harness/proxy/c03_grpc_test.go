package proxy

// C03, gRPC leg: the gRPC interceptor builds a synthetic request (host from the `dsthost`
// metadata, path = full method name) and looks it up in the active table.  The cases are
// the plain-connection transitions generated from Match_MC; the route served must be the
// one the specification prescribes.

import (
	"bytes"
	"context"
	"encoding/json"
	"fmt"
	"strconv"
	"strings"
	"testing"

	"github.com/fabiolb/fabio/config"
	"github.com/fabiolb/fabio/internal/verifx"
	"github.com/fabiolb/fabio/route"
	"google.golang.org/grpc/metadata"
)

type c03gHost struct {
	Name []string `json:"name"`
	Port []string `json:"port"`
}

func (h c03gHost) String() string {
	s := strings.Join(h.Name, "")
	if len(h.Port) > 0 {
		s += ":" + strings.Join(h.Port, "")
	}
	return s
}

type c03gUniverse struct {
	Pats   []c03gHost `json:"pats"`
	Paths  [][]string `json:"paths"`
	Hosts  []c03gHost `json:"hosts"`
	RPaths [][]string `json:"rpaths"`
	Combos []struct {
		M string `json:"m"`
		G int    `json:"g"`
	} `json:"combos"`
	NPath int `json:"npath"`
}

type c03gRoute struct {
	ID   int    `json:"id"`
	Host string `json:"host"`
	Path string `json:"path"`
}

type c03gExplicit struct {
	Kind    string      `json:"kind"` // grpc
	Routes  []c03gRoute `json:"routes"`
	Host    string      `json:"host"`
	Path    string      `json:"path"`
	Matcher string      `json:"matcher"`
	Glob    bool        `json:"glob"`
	Want    int         `json:"want"`
}

type c03gLine struct {
	Universe *c03gUniverse `json:"universe,omitempty"`
	T        []int         `json:"t"`
	H        int           `json:"h"`
	TLS      int           `json:"tls"`
	W        [][]int       `json:"w"`
	X        *c03gExplicit `json:"x,omitempty"`
}

func c03gTable(routes []c03gRoute) (route.Table, string, error) {
	var b strings.Builder
	for _, r := range routes {
		fmt.Fprintf(&b, "route add r%d %s%s grpc://127.0.0.1:%d/ opts \"proto=grpc\"\n", r.ID, r.Host, r.Path, 10000+r.ID)
	}
	t, err := route.NewTable(bytes.NewBufferString(b.String()))
	return t, b.String(), err
}

func c03gLookup(x *c03gExplicit, cache *route.GlobCache) (got int, err error) {
	cfg := &config.Config{GlobMatchingDisabled: !x.Glob}
	cfg.Proxy.Matcher = x.Matcher
	cfg.Proxy.Strategy = "rr"
	g := GrpcProxyInterceptor{Config: cfg, GlobCache: cache}
	ctx := metadata.NewIncomingContext(context.Background(), metadata.Pairs("dsthost", x.Host))
	t, err := g.lookup(ctx, x.Path)
	if err != nil {
		return 0, err
	}
	if t == nil {
		return 0, nil
	}
	n, aerr := strconv.Atoi(strings.TrimPrefix(t.Service, "r"))
	if aerr != nil {
		return -99, nil
	}
	return n, nil
}

// c03gDiffers adds the same classification as the route-package harness (c03Features).
func c03gDiffers(f map[string]any, x *c03gExplicit, got int) {
	var w, g *c03gRoute
	for i := range x.Routes {
		if x.Routes[i].ID == x.Want {
			w = &x.Routes[i]
		}
		if x.Routes[i].ID == got {
			g = &x.Routes[i]
		}
	}
	switch {
	case w == nil || g == nil:
		f["differs"] = "unknown-route"
	case strings.ToLower(w.Host) != strings.ToLower(g.Host):
		f["differs"] = "host"
		if strings.ToLower(g.Host) == "*"+strings.ToLower(w.Host) {
			f["detail"] = "star-glued-to-exact"
		} else {
			f["detail"] = "other"
		}
	default:
		f["differs"] = "path"
		lw, lg := strings.ToLower(w.Path), strings.ToLower(g.Path)
		rawRelated := strings.HasPrefix(w.Path, g.Path) || strings.HasPrefix(g.Path, w.Path)
		if (strings.HasPrefix(lw, lg) || strings.HasPrefix(lg, lw)) && !rawRelated {
			f["detail"] = "paths-differ-in-case"
		} else {
			f["detail"] = "other"
		}
	}
}

func TestVerifC03Grpc(t *testing.T) {
	saved := route.GetTable()
	defer route.SetTable(saved)
	every := int64(verifx.EnvInt("VERIF_GRPC_EVERY", 1))
	seed := verifx.Seed()
	cache := route.NewGlobCache(1000)
	var cur *c03gUniverse
	var n, lines, lookups, routed int64
	check := func(x *c03gExplicit) {
		var got int
		var err error
		p, stack := verifx.Safely(func() { got, err = c03gLookup(x, cache) })
		lookups++
		if x.Want > 0 {
			routed++
		}
		feat := map[string]any{"kind": "grpc", "matcher": x.Matcher, "glob": map[bool]string{true: "on", false: "off"}[x.Glob],
			"host_upper": x.Host != strings.ToLower(x.Host)}
		switch {
		case p != nil:
			feat["clause"] = "panic"
			verifx.Fail(map[string]any{"x": x}, feat, "panic in gRPC lookup: %v\n%s", p, stack)
		case err != nil:
			feat["clause"] = "error"
			verifx.Fail(map[string]any{"x": x}, feat, "gRPC lookup failed: %v", err)
		case got != x.Want:
			switch {
			case x.Want > 0 && got == 0:
				feat["clause"] = "no-route"
			case x.Want == 0:
				feat["clause"] = "spurious-route"
			default:
				feat["clause"] = "wrong-route"
				c03gDiffers(feat, x, got)
			}
			var rs []string
			for _, r := range x.Routes {
				rs = append(rs, fmt.Sprintf("r%d=%s%s", r.ID, r.Host, r.Path))
			}
			verifx.Fail(map[string]any{"x": x}, feat, "table {%s}: gRPC lookup dsthost=%q method=%q matcher=%s glob=%v served by r%d, the specification prescribes r%d (r0 = no route)",
				strings.Join(rs, ", "), x.Host, x.Path, x.Matcher, x.Glob, got, x.Want)
		}
	}
	err := verifx.EachCase("", func(raw []byte) error {
		var l c03gLine
		if err := json.Unmarshal(raw, &l); err != nil {
			return fmt.Errorf("bad line: %v", err)
		}
		if l.Universe != nil {
			cur = l.Universe
			return nil
		}
		if l.X != nil {
			if l.X.Kind != "grpc" {
				return nil
			}
			tbl, text, err := c03gTable(l.X.Routes)
			if err != nil {
				return fmt.Errorf("table rejected: %v\n%s", err, text)
			}
			route.SetTable(tbl)
			lines++
			check(l.X)
			return nil
		}
		n++
		if l.TLS != 0 || (n+seed)%every != 0 {
			return nil // the synthetic gRPC request never carries TLS state
		}
		if cur == nil {
			return fmt.Errorf("case line before any universe line")
		}
		var routes []c03gRoute
		for _, id := range l.T {
			pi, qi := (id-1)/cur.NPath, (id-1)%cur.NPath
			if id < 1 || pi >= len(cur.Pats) || qi >= len(cur.Paths) {
				return fmt.Errorf("route index %d outside the universe", id)
			}
			routes = append(routes, c03gRoute{ID: id, Host: cur.Pats[pi].String(), Path: strings.Join(cur.Paths[qi], "")})
		}
		if l.H < 1 || l.H > len(cur.Hosts) || len(l.W) != len(cur.RPaths) {
			return fmt.Errorf("malformed case line")
		}
		tbl, text, err := c03gTable(routes)
		if err != nil {
			verifx.Fail(map[string]any{"line": l}, map[string]any{"kind": "grpc", "clause": "table-rejected"}, "well-formed table rejected: %v\n%s", err, text)
			return nil
		}
		route.SetTable(tbl)
		lines++
		host := cur.Hosts[l.H-1].String()
		for q, row := range l.W {
			for k, want := range row {
				if want < 0 || k >= len(cur.Combos) {
					continue
				}
				check(&c03gExplicit{Kind: "grpc", Routes: routes, Host: host, Path: strings.Join(cur.RPaths[q], ""),
					Matcher: cur.Combos[k].M, Glob: cur.Combos[k].G == 1, Want: want})
			}
		}
		return nil
	})
	if err != nil {
		verifx.Emit(map[string]any{"kind": "error", "msg": err.Error()})
		t.Fatal(err)
	}
	verifx.Summary(map[string]any{"lines": lines, "lookups": lookups, "routed": routed})
}
