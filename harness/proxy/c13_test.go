package proxy

// C13 conformance: a request that HttpProxy!Lookup settles on a redirect route must be answered
// with the configured status and the Location HttpProxy!Location prescribes, without any
// upstream being contacted; a redirect pointing back at the request is passed over in favour of
// the next matching host; a redirect= value that is no 3xx code leaves an ordinary route.
//
// Requests to one target are issued one after the other: fabio caches the computed Location on
// the shared target, and what simultaneous requests do to that is property C06's subject.

import (
	"bufio"
	"errors"
	"fmt"
	"net"
	"net/url"
	"strings"
	"sync"
	"testing"

	"github.com/fabiolb/fabio/internal/verifx"
)

func c13Tpl(cs *cvxCase) string {
	if len(cs.C.Routes) == 0 {
		return ""
	}
	return cvxTplText(cs.C.Routes[0].Tpl, "<self>", "<upstream>")
}

func c13Describe(cs *cvxCase) string {
	s := cs.C.Method + " "
	if cs.C.Kind != "" && cs.C.Kind != "http" {
		s = cs.C.Method + " (" + cs.C.Kind + ") "
	}
	if cs.C.TLS {
		s += "https://"
	} else {
		s += "http://"
	}
	s += "<" + cs.C.RHost + " host " + cs.C.HostLabel + ">" + cvxJoin(cs.C.Path)
	if len(cs.C.Query) > 0 {
		s += "?" + cvxQuery(cs.C.Query)
	}
	if cs.C.XfpVal != "" {
		s += " X-Forwarded-Proto:" + cs.C.XfpVal
	}
	for _, r := range cs.C.Routes {
		if r.Code.Txt != "" {
			s += fmt.Sprintf(" | route %s -> %s redirect=%s strip=%s prepend=%s", cvxOpt(r.Src), cvxTplText(r.Tpl, "<self>", "<upstream>"), r.Code.Txt, cvxOpt(r.Strip), cvxOpt(r.Prepend))
		} else {
			s += fmt.Sprintf(" | route %s -> upstream", cvxJoin(r.Src))
		}
	}
	switch cs.Out.Kind {
	case "redirect":
		s += fmt.Sprintf(" => %d %s", cs.Out.Status, c13WantLocation(cs))
	default:
		s += " => " + cs.Out.Kind
	}
	return s
}

func c13WantLocation(cs *cvxCase) string {
	l := cs.Out.Loc
	host := l.Host
	if host == "req" {
		host = cvxReqHost(cs)
	}
	s := l.Scheme + "://" + host + cvxJoin(l.Path)
	if l.QMode == "eq" && len(l.Query) > 0 {
		s += "?" + cvxQuery(l.Query)
	}
	if l.QMode != "eq" {
		s += " (query not judged)"
	}
	return s
}

func c13Features(cs *cvxCase, clause string) map[string]any {
	f := map[string]any{"sub": cs.C.Sub, "clause": clause, "tpl": c13Tpl(cs)}
	if cs.C.Sub == "kinds" {
		f["method"], f["kind"] = cs.C.Method, cs.C.Kind
	}
	if len(cs.C.Routes) > 0 && (cvxOptionNeedsEscape(cs.C.Routes[0].Strip) || cvxOptionNeedsEscape(cs.C.Routes[0].Prepend)) {
		f["option_needs_escape"] = true
	}
	if clause == "self-redirect" {
		f["tls"] = cs.C.TLS
		f["xfp"] = cs.C.XfpVal
		return f
	}
	f["escapes"] = cvxEscapeClass(cs.C.Path)
	if len(cs.C.Routes) > 0 {
		f["rewrite"] = cvxRewriteClass(&cs.C.Routes[0], cs.C.Path)
	}
	return f
}

func c13IsHex(c byte) bool {
	return c >= '0' && c <= '9' || c >= 'a' && c <= 'f' || c >= 'A' && c <= 'F'
}

func c13Unhex(c byte) byte {
	switch {
	case c >= '0' && c <= '9':
		return c - '0'
	case c >= 'a' && c <= 'f':
		return c - 'a' + 10
	}
	return c - 'A' + 10
}

// c13NormPath: RFC 3986 6.2.2 normalisation that does not change what a path means: escapes of
// unreserved characters are decoded, hex digits upper-cased, the empty path is "/".
func c13NormPath(p string) string {
	if p == "" {
		return "/"
	}
	var b strings.Builder
	for i := 0; i < len(p); i++ {
		if p[i] == '%' && i+2 < len(p) && c13IsHex(p[i+1]) && c13IsHex(p[i+2]) {
			c := c13Unhex(p[i+1])<<4 | c13Unhex(p[i+2])
			if c >= 'a' && c <= 'z' || c >= 'A' && c <= 'Z' || c >= '0' && c <= '9' || c == '-' || c == '.' || c == '_' || c == '~' {
				b.WriteByte(c)
			} else {
				fmt.Fprintf(&b, "%%%02X", c)
			}
			i += 2
			continue
		}
		b.WriteByte(p[i])
	}
	return b.String()
}

func c13Decoded(uri string) string {
	p, q, _ := strings.Cut(uri, "?")
	if d, err := url.PathUnescape(p); err == nil {
		p = d
	}
	return p + "?" + q
}

// c13SplitURL splits an absolute URL without interpreting it.
func c13SplitURL(s string) (scheme, host, path, query string, hasQuery bool) {
	scheme, rest, ok := strings.Cut(s, "://")
	if !ok {
		return "", "", s, "", false
	}
	rest, query, hasQuery = strings.Cut(rest, "?")
	if i := strings.IndexByte(rest, '/'); i >= 0 {
		host, path = rest[:i], rest[i:]
	} else {
		host = rest
	}
	return
}

// c13History sends the requests of a history one after the other through the same route; every one of them
// must get the answer that follows from that request alone.
func c13History(w *cvxWorld, j *cvxJob) bool {
	cs := j.cs
	if len(cs.Answers) != len(cs.C.Hist) {
		w.errorf("case %d: history of %d requests with %d expected answers", j.id, len(cs.C.Hist), len(cs.Answers))
		return false
	}
	var wg sync.WaitGroup
	start := make(chan struct{})
	for k, rq := range cs.C.Hist {
		step := *cs
		step.C.Hist, step.Answers = nil, nil
		step.C.Path, step.C.Query, step.C.HostLabel = rq.Path, rq.Query, rq.Host
		step.Out.Loc = cs.Answers[k]
		step.parent, step.step = cs, k+1
		job := &cvxJob{cs: &step, id: j.id + int64(k+1)<<34, raw: j.raw}
		if !cs.C.Together {
			c13Exec(w, job)
			continue
		}
		// all at once, over connections opened beforehand, at a proxy of their own that has answered no redirect yet
		conn, err := w.cvxOpenConn(&step)
		if err != nil {
			w.errorf("case %d: %v", j.id, err)
			continue
		}
		job.do = func() (*cvxGot, int64, error) {
			defer conn.Close()
			g, err := cvxRawGet(conn, bufio.NewReader(conn), job.cs, job.id)
			return g, job.id, err
		}
		wg.Add(1)
		go func() {
			defer wg.Done()
			<-start
			if p, stack := verifx.Safely(func() { c13Exec(w, job) }); p != nil {
				verifx.Fail(cs, map[string]any{"clause": "panic", "sub": cs.C.Sub}, "panic: %v\n%s", p, stack)
			}
		}()
	}
	close(start)
	wg.Wait()
	return true
}

// c13EarlierTwin: was the same path and query asked before under another host?
func c13EarlierTwin(cs *cvxCase) bool {
	p := cs.parent
	if p == nil {
		return false
	}
	for k := 0; k < cs.step-1; k++ {
		h := p.C.Hist[k]
		if h.Host != cs.C.HostLabel && cvxJoin(h.Path) == cvxJoin(cs.C.Path) && cvxQuery(h.Query) == cvxQuery(cs.C.Query) {
			return true
		}
	}
	return false
}

func c13Exec(w *cvxWorld, j *cvxJob) bool {
	cs := j.cs
	if len(cs.C.Hist) > 0 {
		return c13History(w, j)
	}
	fail := func(clause, format string, a ...any) {
		f, reported, where := c13Features(cs, clause), cs, ""
		if cs.parent != nil {
			reported = cs.parent
			f["step"] = cs.step
			f["same_uri_asked_before_by_other_host"] = c13EarlierTwin(cs)
			where = fmt.Sprintf(" (request %d of a history of %d through the same route)", cs.step, len(cs.parent.C.Hist))
		}
		verifx.Fail(reported, f, "%s%s\n  case: %s", fmt.Sprintf(format, a...), where, c13Describe(cs))
	}
	status, hdr := cvxAnswer(cs.Out.Resp)
	if cs.Out.Kind == "upstream" {
		w.plans.Store(j.id, &cvxPlan{Status: status, Hdr: hdr, Body: 1})
		defer w.plans.Delete(j.id)
	}
	// bodies: only POST carries one here (1 byte or 32 KiB + 1, Content-Length or chunked)
	att := cvxAtt{}
	if cs.C.Method == "POST" {
		att.ReqBody, att.ReqChunked = cvxSizes[1+int(j.id%2)], j.id%4 >= 2
	}
	if cs.Att == nil || cs.Att.ReqBody != att.ReqBody || cs.Att.ReqChunked != att.ReqChunked {
		cs.Att = &att
	}
	var got *cvxGot
	var rid int64
	var err error
	if j.do != nil {
		got, rid, err = j.do()
	} else if cs.C.Kind == "ws" || cs.C.Kind == "Ws" {
		got, rid, err = w.doWS(cs, j.id)
	} else {
		got, rid, err = w.doHTTP(cs, j.id)
	}
	if err != nil {
		var ne net.Error
		if cs.Out.Kind == "redirect" && !strings.HasPrefix(err.Error(), "harness:") && !(errors.As(err, &ne) && ne.Timeout()) {
			// a redirect route answers from the request alone: an exchange that breaks off on every
			// attempt means the client never received its 3xx
			fail("no-answer", "the exchange broke off on each of 4 attempts, the client never received the redirect: %v", err)
			return true
		}
		w.errorf("case %d: %v (%s)", j.id, err, c13Describe(cs))
		return false
	}
	seen := w.take(rid)
	loc := got.Header.Values("Location")
	// was the request answered with a redirect to itself?  (only judged where the spec passed a redirect over)
	passedOver := cs.Out.Kind != "redirect" && len(cs.C.Routes) > 0 && cs.C.Routes[0].Code.Num >= 300 && cs.C.Routes[0].Code.Num <= 399

	switch cs.Out.Kind {
	case "redirect":
		if seen != nil {
			fail("upstream-contacted", "redirect route: the upstream must not be contacted, it received %s %s", seen.Method, seen.RequestURI)
		}
		if got.Status != cs.Out.Status {
			fail("status", "status %d, want the configured %d", got.Status, cs.Out.Status)
		}
		if len(loc) != 1 {
			fail("location", "Location headers %q, want exactly one", loc)
			return true
		}
		scheme, host, path, query, _ := c13SplitURL(loc[0])
		want := cs.Out.Loc
		if scheme != want.Scheme {
			fail("location-scheme", "Location %q: scheme %q, want %q", loc[0], scheme, want.Scheme)
		}
		wantHost := want.Host
		switch wantHost {
		case "req":
			wantHost = cvxReqHost(cs)
		case "upstream":
			wantHost = w.upAddr
		}
		if !strings.EqualFold(host, wantHost) {
			fail("location-host", "Location %q: host %q, want %q", loc[0], host, wantHost)
		}
		if g, wnt := c13NormPath(path), c13NormPath(cvxJoin(want.Path)); g != wnt {
			fail("location-path", "Location %q: path %q, want %q", loc[0], path, cvxJoin(want.Path))
		}
		if want.QMode == "eq" && query != cvxQuery(want.Query) {
			fail("location-query", "Location %q: query %q, want %q", loc[0], query, cvxQuery(want.Query))
		}
		return true

	case "noroute":
		if seen != nil {
			fail("upstream-contacted", "no route: the upstream must not be contacted, it received %s %s", seen.Method, seen.RequestURI)
		}
		if passedOver && got.Status >= 300 && got.Status <= 399 {
			fail("self-redirect", "answered %d Location %q: a redirect back to the request itself (no other host matches: want the no-route answer %d)", got.Status, loc, cs.Out.Status)
		} else if got.Status != cs.Out.Status {
			fail("noroute-status", "status %d, want the no-route status %d", got.Status, cs.Out.Status)
		}
		return passedOver

	case "upstream":
		if passedOver && got.Status >= 300 && got.Status <= 399 {
			fail("self-redirect", "answered %d Location %q: a redirect back to the request itself instead of the next matching host", got.Status, loc)
			return true
		}
		clause := "ordinary-route"
		if cs.C.Sub == "badcode" {
			clause = "badcode"
		}
		if seen == nil {
			fail(clause, "the request had to be forwarded to the upstream; client got status %d Location %q, upstream not contacted", got.Status, loc)
			return true
		}
		if got.Status != status {
			fail(clause, "client got status %d, the upstream answered %d", got.Status, status)
		}
		wantURI := cvxJoin(cs.Up.Path)
		if len(cs.Up.Query) > 0 {
			wantURI += "?" + cvxQuery(cs.Up.Query)
		}
		// how faithfully an ordinary route passes the path on is C07's subject: compared decoded
		if g, w := c13Decoded(seen.RequestURI), c13Decoded(wantURI); g != w {
			fail(clause, "upstream saw request target %q, want %q", seen.RequestURI, wantURI)
		}
		return true
	default:
		w.errorf("case %d: outcome %q is not one C13 replays", j.id, cs.Out.Kind)
	}
	return false
}

func TestVerifC13(t *testing.T) {
	(&cvxRunner{prop: "C13", exec: c13Exec, sample: c13Describe,
		serial: func(cs *cvxCase) string { return cvxRouteKey(cs.C.Routes) }}).run(t)
}

// TestVerifC13Burst is TestVerifC13 under another name: the check runs the cases with simultaneous requests a
// second time with the race detector.
func TestVerifC13Burst(t *testing.T) {
	TestVerifC13(t)
}
