package proxy

// C17 conformance through the real HTTPProxy: single-handler behaviours of spec/Gzip.tla are
// performed by an instrumented UPSTREAM (status, headers, chunked writes as scripted); the client
// talks to a real HTTPProxy configured with GZIPContentTypes, whose route comes from
// route.NewTable, and judges the response it receives exactly as in the handler-level harness.

import (
	"crypto/tls"
	"bytes"
	"encoding/json"
	"fmt"
	"io"
	"log"
	"net/http"
	"net/http/httptest"
	"regexp"
	"runtime/debug"
	"sync"
	"sync/atomic"
	"testing"
	"time"

	"github.com/fabiolb/fabio/config"
	"github.com/fabiolb/fabio/internal/verifx"
	"github.com/fabiolb/fabio/route"
	"github.com/fabiolb/fabio/transport"
)

func TestVerifC17Proxy(t *testing.T) {
	var sessions sync.Map
	var plumbing int64
	oracle := func(format string, a ...any) {
		atomic.AddInt64(&plumbing, 1)
		verifx.Emit(map[string]any{"kind": "oracle", "msg": fmt.Sprintf(format, a...)})
	}
	upstream := http.HandlerFunc(func(w http.ResponseWriter, r *http.Request) {
		v, ok := sessions.Load(r.Header.Get("X-C17-Session"))
		if !ok {
			http.Error(w, "no session", 599)
			return
		}
		p := v.(*verifx.C17Plan)
		if p.HasOp("hj") {
			w = verifx.C17NoHijack{ResponseWriter: w}
		}
		p.Serve(w, nil)
	})
	up := httptest.NewUnstartedServer(upstream)
	up.Config.ErrorLog = log.New(io.Discard, "", 0)
	up.Start()
	defer up.Close()
	upTLS := httptest.NewUnstartedServer(upstream)
	upTLS.Config.ErrorLog = log.New(io.Discard, "", 0)
	upTLS.StartTLS()
	defer upTLS.Close()

	// three routes = the three transports of the proxy: the default one, the insecure one (tlsskipverify=true) and
	// the target's own one (proto=https host=<name>, built by route.addTarget)
	prefix := map[string]string{"default": "/d/", "insecure": "/i/", "target": "/t/", "": "/d/"}
	tbl, err := route.NewTable(bytes.NewBufferString("route add c17d /d/ " + up.URL + "/\n" +
		"route add c17i /i/ " + upTLS.URL + "/ opts \"tlsskipverify=true\"\n" +
		"route add c17t /t/ " + upTLS.URL + "/ opts \"proto=https host=c17.test tlsskipverify=true\"\n"))
	if err != nil {
		t.Fatal(err)
	}
	gc := route.NewGlobCache(16)
	var panics sync.Map // session id -> panic of the proxy's handler chain (other than a passed-on abort)
	fabio := &HTTPProxy{
		Config:    config.Proxy{GZIPContentTypes: regexp.MustCompile(verifx.C17ContentTypes)},
		// the transports main.newHTTPProxy gives the proxy
		Transport:         transport.NewTransport(nil),
		InsecureTransport: transport.NewTransport(&tls.Config{InsecureSkipVerify: true}),
		Lookup: func(r *http.Request) *route.Target {
			return tbl.Lookup(r, "", route.Picker["rr"], route.Matcher["prefix"], gc, true)
		},
	}
	// a crash of the code under test must become a verdict: a panic of the proxy's handler chain is recorded
	// for the session (the reverse proxy's own abort after an upstream that died mid-body is expected)
	px := httptest.NewUnstartedServer(http.HandlerFunc(func(w http.ResponseWriter, r *http.Request) {
		defer func() {
			if p := recover(); p != nil {
				id := r.Header.Get("X-C17-Session")
				if v, ok := sessions.Load(id); !(ok && p == http.ErrAbortHandler && v.(*verifx.C17Plan).H.Aborted) {
					panics.Store(id, fmt.Sprintf("%v\n%s", p, debug.Stack()))
				}
				panic(http.ErrAbortHandler)
			}
		}()
		fabio.ServeHTTP(w, r)
	}))
	px.Config.ErrorLog = log.New(io.Discard, "", 0)
	px.Start()
	defer px.Close()
	client := &http.Client{Transport: &http.Transport{DisableCompression: true, MaxIdleConnsPerHost: 64}, Timeout: 90 * time.Second}

	var ran, gz, plain, seq, aborted int64
	var sampleMu sync.Mutex
	var samples []string
	jobs := make(chan []byte, 128)
	var wg sync.WaitGroup
	for w := 0; w < 16; w++ {
		wg.Add(1)
		go func() {
			defer wg.Done()
			for raw := range jobs {
				var b verifx.C17Beh
				if err := json.Unmarshal(raw, &b); err != nil {
					oracle("bad behaviour: %v", err)
					continue
				}
				n := b.N
				if n == 0 {
					n = int64((verifx.Hash(raw)^uint64(verifx.Seed())*0x9e3779b97f4a7c15)>>1) | 1
				}
				for i := range b.Handlers {
					if !b.Handlers[i].Started {
						continue
					}
					p := verifx.C17MakePlan(&b, i, n, true)
					p.ViaProxy = true
					id := fmt.Sprintf("p%d", atomic.AddInt64(&seq, 1))
					sessions.Store(id, p)
					req, _ := http.NewRequest(p.Method, px.URL+prefix[p.H.Req.Via]+id, nil)
					req.Header.Set("X-C17-Session", id)
					p.SetRequest(req)
					resp, err := client.Do(req)
					var body []byte
					var rerr error
					if err == nil {
						body, rerr = io.ReadAll(resp.Body)
						resp.Body.Close()
					}
					sessions.Delete(id)
					if v, ok := panics.LoadAndDelete(id); ok {
						bb := b
						bb.N, bb.Via = n, "proxy"
						verifx.Fail(bb, p.Features("proxy", "handler-panic"), "through HTTPProxy: the proxy's handler panicked: %s\n  upstream: %s", v.(string), p.Describe())
						continue
					}
					if p.H.Aborted {
						atomic.AddInt64(&aborted, 1)
						continue // the upstream died mid-way: nothing is required of this response
					}
					if err != nil {
						oracle("request failed before a response arrived: %v (%s)", err, p.Describe())
						continue
					}
					atomic.AddInt64(&ran, 1)
					faults, mode := p.Judge(resp.StatusCode, resp.Header, body, rerr)
					if mode == "gzip" {
						atomic.AddInt64(&gz, 1)
					} else {
						atomic.AddInt64(&plain, 1)
					}
					for _, f := range faults {
						bb := b
						bb.N, bb.Via = n, "proxy"
						verifx.Fail(bb, p.Features("proxy", f.Clause), "through HTTPProxy: %s\n  upstream: %s", f.Msg, p.Describe())
					}
					if n%499 == 7 {
						sampleMu.Lock()
						if len(samples) < 2 {
							samples = append(samples, "via HTTPProxy: "+p.Describe())
						}
						sampleMu.Unlock()
					}
				}
			}
		}()
	}
	err = verifx.EachCase("", func(raw []byte) error {
		jobs <- append([]byte(nil), raw...)
		return nil
	})
	close(jobs)
	wg.Wait()
	if err != nil {
		t.Fatal(err)
	}
	verifx.Summary(map[string]any{"ran": ran, "gzip_mode": gz, "plain_mode": plain, "aborted_responses": aborted, "plumbing": plumbing, "samples": samples})
}
