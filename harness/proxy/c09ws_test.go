package proxy

// C09 conformance, websocket path: the scenarios of spec/Tunnel_MC.tla with kind "ws" are
// played through the real HTTPProxy (upgrade request -> newWSHandler) served by a real
// net/http server over loopback; the upstream is the scripted raw endpoint of
// verifx.RunTunnel which answers the relayed upgrade request with a 101 response.

import (
	"encoding/json"
	"fmt"
	"net"
	"net/http"
	"net/url"
	"sync"
	"sync/atomic"
	"testing"

	"github.com/fabiolb/fabio/config"
	"github.com/fabiolb/fabio/internal/verifx"
	"github.com/fabiolb/fabio/route"
)

type c09wsLane struct {
	upL, slowL       *net.TCPListener
	upAddr, slowAddr string
	slow             atomic.Bool // the case being played uses the upstream whose kernel holds little
	srv              *http.Server
	addr             string
}

func c09wsNewLane() (*c09wsLane, error) {
	l := &c09wsLane{}
	var err error
	if l.upL, l.upAddr, err = verifx.ListenFree(); err != nil {
		return nil, err
	}
	if l.slowL, l.slowAddr, err = verifx.ListenFreeRcvbuf(4096); err != nil {
		l.upL.Close()
		return nil, err
	}
	ln, addr, err := verifx.ListenFree()
	if err != nil {
		l.upL.Close()
		l.slowL.Close()
		return nil, err
	}
	l.addr = addr
	l.srv = &http.Server{Addr: addr, Handler: &HTTPProxy{
		Config:    config.Proxy{NoRouteStatus: 404},
		Transport: &http.Transport{},
		Lookup: func(r *http.Request) *route.Target {
			host := l.upAddr
			if l.slow.Load() {
				host = l.slowAddr
			}
			return &route.Target{URL: &url.URL{Scheme: "http", Host: host, Path: "/"}}
		},
	}}
	go l.srv.Serve(ln)
	return l, nil
}

func (l *c09wsLane) close() {
	l.srv.Close()
	l.upL.Close()
	l.slowL.Close()
}

func TestVerifC09WS(t *testing.T) {
	cases, err := verifx.ReadCases[verifx.TunnelCase]("VERIF_IN")
	if err != nil {
		t.Fatal(err)
	}
	queueOK, queueMsg := true, ""
	for i := range cases {
		if cases[i].Sc.USlow == 1 {
			queueOK, queueMsg = verifx.TCPKeepsQueueAcrossReset()
			break
		}
	}
	if !queueOK {
		verifx.Emit(map[string]any{"kind": "note", "msg": "failing-direction scenarios not played: " + queueMsg})
	}
	var errFamily, unsupported int64
	nl := verifx.EnvInt("VERIF_LANES", 8)
	jobs := make(chan *verifx.TunnelCase, 64)
	var wg sync.WaitGroup
	var ran, evals, nontrivial, hangs, skipped, aborted int64
	var seen sync.Map
	var sampleMu sync.Mutex
	var samples []string
	var lanes []*c09wsLane
	for i := 0; i < nl; i++ {
		lane, err := c09wsNewLane()
		if err != nil {
			t.Fatal(err)
		}
		lanes = append(lanes, lane)
	}
	defer func() {
		for _, l := range lanes {
			l.close()
		}
	}()
	for _, lane := range lanes {
		lane := lane
		wg.Add(1)
		go func() {
			defer wg.Done()
			for c := range jobs {
				if verifx.TunnelHangs() >= 24 {
					// the run is inconclusive already; do not spend ten seconds on each remaining scenario
					atomic.AddInt64(&aborted, 1)
					continue
				}
				if c.Path != "ws" || c.Sc.Kind != "ws" {
					verifx.Emit(map[string]any{"kind": "error", "msg": fmt.Sprintf("case %d: path %q not playable here", c.ID, c.Path)})
					continue
				}
				if c.Sc.USlow == 1 && !queueOK {
					atomic.AddInt64(&unsupported, 1)
					continue
				}
				env := &verifx.TunnelEnv{ProxyAddr: lane.addr, UpL: lane.upL, WS: true, Before: func(c *verifx.TunnelCase) { lane.slow.Store(c.Sc.USlow == 1) }}
				if c.Sc.USlow == 1 {
					env.UpL = lane.slowL
					atomic.AddInt64(&errFamily, 1)
				}
				res := verifx.RunTunnel(env, c, nil)
				atomic.AddInt64(&ran, 1)
				clause, msg := verifx.JudgeTunnel(c, res)
				switch clause {
				case "":
					atomic.AddInt64(&evals, 2)
				case "hang":
					atomic.AddInt64(&hangs, 1)
					verifx.Emit(map[string]any{"kind": "hang", "case": c, "msg": msg})
				case "not-tunnelled":
					atomic.AddInt64(&skipped, 1)
					verifx.Emit(map[string]any{"kind": "skip", "case": c, "msg": msg})
				default:
					atomic.AddInt64(&evals, 2)
					feat := map[string]any{"path": c.Path, "clause": clause}
					if c.Sc.CMode == "abort" {
						feat["end"] = res.UEnd()
					}
					verifx.Fail(c, feat, "%s", msg)
				}
				b, _ := json.Marshal([]any{c.Sc, c.Path, c.Spell})
				if _, dup := seen.LoadOrStore(verifx.Hash(b), true); !dup && len(res.ExpU) > 0 && len(res.ExpC) > len(verifx.WS101Bytes) {
					atomic.AddInt64(&nontrivial, 1)
				}
				if c.ID%997 == 11 {
					sampleMu.Lock()
					if len(samples) < 2 {
						sb, _ := json.Marshal(c)
						samples = append(samples, string(sb))
					}
					sampleMu.Unlock()
				}
			}
		}()
	}
	for i := range cases {
		jobs <- &cases[i]
	}
	close(jobs)
	wg.Wait()
	verifx.Summary(map[string]any{"cases": len(cases), "ran": ran, "evaluations": evals, "distinct_nontrivial": nontrivial,
		"hangs": hangs, "skipped": skipped, "aborted": aborted, "samples": samples, "ws": ran,
		"failing_direction": errFamily, "unsupported": unsupported})
}
