package proxy

// Shared part of the /verif conformance tests for package proxy (C07, C08, C13): the cases
// TLC generated from spec/HttpProxy.tla are replayed, over real sockets, through a real
// HTTPProxy wired like main.newHTTPProxy (route.GetTable().Lookup with the default picker and
// matcher and a glob cache) towards an instrumented upstream.  Turning the abstract tokens of a
// case into bytes is done here; every expected value comes from the case.

import (
	"bufio"
	"bytes"
	"crypto/tls"
	"encoding/json"
	"errors"
	"fmt"
	"hash/fnv"
	"io"
	"log"
	"net"
	"net/http"
	"net/http/httptest"
	"net/url"
	"os"
	"regexp"
	"runtime"
	"sort"
	"strconv"
	"strings"
	"sync"
	"sync/atomic"
	"testing"
	"time"

	"github.com/fabiolb/fabio/config"
	"github.com/fabiolb/fabio/internal/verifx"
	"github.com/fabiolb/fabio/noroute"
	"github.com/fabiolb/fabio/route"
)

// ---------------------------------------------------------------- the case as printed by HttpProxy_MC!Gen

type cvxHdrExp struct {
	Mode string   `json:"mode"`
	Vals []string `json:"vals"`
}

type cvxTpl struct {
	Scheme string   `json:"scheme"`
	Host   string   `json:"host"`
	Pre    []string `json:"pre"`
	Var    bool     `json:"var"`
	Slash  bool     `json:"slash"`
	Query  []string `json:"query"`
}

type cvxCode struct {
	Txt string `json:"txt"`
	Num int    `json:"num"`
}

type cvxRoute struct {
	Src      []string `json:"src"`
	Strip    []string `json:"strip"`
	Prepend  []string `json:"prepend"`
	HostOpt  string   `json:"hostopt"`
	TQuery   []string `json:"tquery"`
	Code     cvxCode  `json:"code"`
	Tpl      cvxTpl   `json:"tpl"`
	Admitted bool     `json:"admitted"`
	GHost    bool     `json:"ghost"`    // the route's host is a pattern (*.<key>.test) that several request hosts match
	Dead     bool     `json:"dead"`     // the route's instance refuses connections
	HostForm string   `json:"hostform"` // "" | "port80" (host written with :80) | "none" (a route without a host)
}

type cvxReq struct {
	Prop      string            `json:"prop"`
	Sub       string            `json:"sub"`
	TLS       bool              `json:"tls"`
	Kind      string            `json:"kind"`
	Method    string            `json:"method"`
	RHost     string            `json:"rhost"`
	Path      []string          `json:"path"`
	Query     []string          `json:"query"`
	Hdrs      string            `json:"hdrs"`
	Forged    map[string]string `json:"forged"`
	XfpVal    string            `json:"xfpval"`
	Routes    []cvxRoute        `json:"routes"`
	CfgIP     bool              `json:"cfgip"`
	CfgTLS    bool              `json:"cfgtls"`
	CfgSTS    bool              `json:"cfgsts"`
	NRStatus  int               `json:"nrstatus"`
	NRPage    string            `json:"nrpage"`
	Resp      string            `json:"resp"`
	Peer      string            `json:"peer"`      // "v4" (default) | "v6": the client connects over 127.0.0.1 / ::1
	CfgSpell  string            `json:"cfgspell"`  // "canon" (default) | "odd": spelling of the configured header names
	AccessLog bool              `json:"accesslog"` // an access logger is configured
	Hist      []cvxHistReq      `json:"hist"`      // C13 histories: the requests sent through the route one after the other
	HostLabel string            `json:"hostlabel"` // first label of the requested host ("a" by default)
	CfgGzip   bool              `json:"cfggzip"`   // proxy.gzip.contenttype = ^text/
	NoGlob    bool              `json:"noglob"`    // glob.matching.disabled = true
	Together  bool              `json:"together"`  // the requests of hist arrive simultaneously at a proxy that has served no redirect yet
	PageHist  []string          `json:"pagehist"`  // no-route pages the registry delivers before the request ("" = page removed)
	Flip      []string          `json:"flip"`      // no-route pages the registry alternates between while the request is answered
}

type cvxHistReq struct {
	Host  string   `json:"host"`
	RHost string   `json:"rhost"`
	Path  []string `json:"path"`
	Query []string `json:"query"`
}

type cvxUp struct {
	Method  string               `json:"method"`
	Path    []string             `json:"path"`
	Query   []string             `json:"query"`
	Host    string               `json:"host"`
	Managed map[string]cvxHdrExp `json:"managed"`
}

type cvxLoc struct {
	Scheme string   `json:"scheme"`
	Host   string   `json:"host"`
	Path   []string `json:"path"`
	QMode  string   `json:"qmode"`
	Query  []string `json:"query"`
}

type cvxOut struct {
	Kind   string    `json:"kind"`
	Status int       `json:"status"`
	Page   string    `json:"page"`
	Pages  []string  `json:"pages"` // no route: every page that was configured at some moment while the request was there
	Loc    cvxLoc    `json:"loc"`
	Resp   string    `json:"resp"`
	STS    cvxHdrExp `json:"sts"`
	Cut    bool      `json:"cut"` // the upstream dies before its answer is complete: the client must not take it for complete
}

// cvxAtt is what the harness attaches to a case (bodies); recorded with a failure so that a
// replay sends exactly the same request.
type cvxAtt struct {
	ReqBody     int  `json:"req_body"`
	ReqChunked  bool `json:"req_chunked"`
	RespBody    int  `json:"resp_body"`
	RespChunked bool `json:"resp_chunked"`
}

type cvxEach struct {
	Path  []string `json:"path"`
	Query []string `json:"query"`
}

type cvxCase struct {
	C    cvxReq  `json:"c"`
	Up   cvxUp   `json:"up"`
	Hits int     `json:"hits"`
	Out  cvxOut  `json:"out"`
	Att  *cvxAtt `json:"att,omitempty"`
	// C13 histories: the Location each request of c.hist must be answered with
	Answers []cvxLoc `json:"answers,omitempty"`
	// C08 connection histories: what the upstream must be told about port and host for each request of c.hist
	Conn []map[string]cvxHdrExp `json:"conn,omitempty"`
	// C07 simultaneous requests: path and query each request of c.hist must reach the upstream with
	Each []cvxEach `json:"each,omitempty"`

	parent *cvxCase // set on the per-request copies of a history case
	step   int
	fresh  int64 // != 0: the case gets a proxy of its own
}

// ---------------------------------------------------------------- concretisation of tokens

const (
	cvxPeer          = "127.0.0.1"
	cvxPeer6         = "::1"
	cvxIDHeader      = "X-Verif-Case"
	cvxClientIPHd    = "X-Client-Ip" // canonical MIME spelling; configured as such or ...
	cvxTLSHd         = "X-Tls"
	cvxClientIPHdOdd = "X-Client-IP" // ... the way people write it
	cvxTLSHdOdd      = "X-TLS"
	cvxTLSVal        = "true"
	cvxSTSMaxAge     = 31536000
	cvxSTSValue      = "max-age=31536000; includeSubdomains"
	cvxNamedHost     = "name.example"
	cvxPageHTML      = "<html><body>no route here</body></html>\n"
	cvxPage2HTML     = "<html><head><title>no such route</title></head><body><h1>no route</h1><p>the second, longer page: nothing is served under this address, please check the spelling of the host name and of the path.</p></body></html>\n"
	cvxReqPort       = "8080"
)

var cvxManagedName = map[string]string{
	"clientip": cvxClientIPHd, "xff": "X-Forwarded-For", "xrealip": "X-Real-Ip", "tlshdr": cvxTLSHd,
	"xfproto": "X-Forwarded-Proto", "forwarded": "Forwarded", "xfport": "X-Forwarded-Port", "xfhost": "X-Forwarded-Host",
}

var cvxManagedOrder = []string{"clientip", "xff", "xrealip", "tlshdr", "xfproto", "forwarded", "xfport", "xfhost"}

func cvxJoin(toks []string) string { return strings.Join(toks, "") }

// cvxPage: the bytes of a no-route page token ("" = no page, "page", "page2" = a longer one)
func cvxPage(tok string) string {
	switch tok {
	case "page":
		return cvxPageHTML
	case "page2":
		return cvxPage2HTML
	}
	return ""
}

// cvxWire: the configuration of one proxy
type cvxWire struct {
	cfg       config.Proxy
	accessLog bool
	noGlob    bool // glob.matching.disabled
	rTimeout  bool // proxy.responseheadertimeout = cvxRespTimeout
	plainOnly bool // the proxy serves a plain listener only
}

const cvxRespTimeout = 300 * time.Millisecond

// The wiring of the code under test is supplied by the package the harness is compiled into (package proxy:
// common_wire_test.go, package main: c07_main_test.go):
var (
	// cvxMakeProxy builds the HTTP proxy handler the way main does (route.GetTable().Lookup, metrics handlers set)
	cvxMakeProxy func(w *cvxWorld, o cvxWire) http.Handler
	// cvxListen serves h on one of fabio's own listeners (proxy.ListenAndServeHTTP); stop closes it
	cvxListen func(addr string, h http.Handler, tc *tls.Config) (stop func(), err error)
	// cvxStartFront (optional) brings up proxy AND listener the way fabio's start-up code does (main.startServers)
	cvxStartFront func(w *cvxWorld, o cvxWire, tlsOn bool) (addr string, stop func(), ok bool)
	// cvxDeliverPage hands a no-route page to fabio the way the registry does and returns when it is in effect
	cvxDeliverPage func(page string) error
)

// cvxOpt renders the text of a route option (strip=, prepend=, source path): plain text, the
// token U+F6 stands for the letter o-umlaut.
func cvxOpt(toks []string) string {
	return strings.ReplaceAll(strings.Join(toks, ""), "U+F6", "\u00f6")
}

func cvxOptionNeedsEscape(toks []string) bool {
	for _, t := range toks {
		if t == "U+F6" || t == "^" {
			return true
		}
	}
	return false
}

func cvxPeerOf(cs *cvxCase) string {
	if cs.C.Peer == "v6" {
		return cvxPeer6
	}
	return cvxPeer
}

func cvxQuery(params []string) string { return strings.Join(params, "&") }

func cvxOddCase(name string) string {
	b := []byte(strings.ToLower(name))
	for i := range b {
		if i%2 == 1 && b[i] >= 'a' && b[i] <= 'z' {
			b[i] -= 'a' - 'A'
		}
	}
	return string(b)
}

// cvxForgedToken maps the abstract value tokens of managed header h to the bytes the client sends.
func cvxForgedToken(cs *cvxCase, h, tok string) string {
	lie := cs.C.XfpVal
	if lie == "" {
		lie = "https"
		if cs.C.TLS {
			lie = "http"
		}
	}
	switch tok {
	case "peer":
		return cvxPeerOf(cs)
	case "sfxpeer": // an address whose text merely ends with the peer's
		if cs.C.Peer == "v6" {
			return "2001:db8" + cvxPeer6 // 2001:db8::1
		}
		return "2" + cvxPeer
	case "peerpfx": // ... or starts with it
		if cs.C.Peer == "v6" {
			return cvxPeer6 + "f"
		}
		return cvxPeer + "9"
	case "cfgvalue":
		return cvxTLSVal
	case "reqhost":
		return cvxReqHost(cs)
	case "reqport":
		return cvxReqPort
	case "stsvalue":
		return cvxSTSValue
	case "true": // what fabio itself would put into header h for this request
		scheme, port := "http", "80"
		if cs.C.TLS {
			scheme, port = "https", "443"
		}
		if cs.C.RHost == "ported" {
			port = cvxReqPort
		}
		switch h {
		case "clientip", "xrealip", "xff":
			return cvxPeerOf(cs)
		case "tlshdr":
			return cvxTLSVal
		case "xfproto":
			return scheme
		case "xfport":
			return port
		case "xfhost":
			return cvxReqHost(cs)
		case "forwarded":
			return "for=" + cvxPeerOf(cs) + "; proto=" + scheme
		}
		return tok
	case "x1":
		return "1.1.1.1"
	case "x2":
		return "2.2.2.2"
	case "x3":
		return "3.3.3.3"
	case "v1", "v2":
		two := tok == "v2"
		switch h {
		case "clientip", "xrealip":
			if two {
				return "7.7.7.7"
			}
			return "6.6.6.6"
		case "tlshdr":
			if two {
				return "forged-again"
			}
			return "forged"
		case "xfproto":
			if two {
				return "gopher"
			}
			return lie
		case "forwarded":
			if two {
				return "for=8.8.8.8"
			}
			return "for=9.9.9.9; proto=" + lie
		case "xfport":
			if two {
				return "5555"
			}
			return "4444"
		case "xfhost":
			if two {
				return "evil2.example"
			}
			return "evil.example"
		}
	}
	return tok // "http", "https", "80", "443", ...
}

// cvxForgedLines returns the header lines (values) the client sends for managed header h.
func cvxForgedLines(cs *cvxCase, h string) []string {
	style := cs.C.Forged[h]
	if style == "" || style == "absent" {
		return nil
	}
	if h == "xff" {
		switch style {
		case "twice":
			return []string{"1.1.1.1", "2.2.2.2, 3.3.3.3"}
		case "sfx":
			return []string{"1.1.1.1, " + cvxForgedToken(cs, h, "sfxpeer")}
		case "pfx":
			return []string{"1.1.1.1, " + cvxForgedToken(cs, h, "peerpfx")}
		case "dup":
			return []string{"1.1.1.1, " + cvxPeerOf(cs)}
		case "empty1":
			return []string{""}
		case "blank2":
			return []string{"", "  "}
		case "emptymix":
			return []string{"", "1.1.1.1"}
		case "truefirst":
			return []string{cvxPeerOf(cs), "1.1.1.1"}
		case "truelast":
			return []string{"1.1.1.1", cvxPeerOf(cs)}
		}
		return []string{"1.1.1.1"}
	}
	switch style {
	case "twice":
		return []string{cvxForgedToken(cs, h, "v1"), cvxForgedToken(cs, h, "v2")}
	case "truefirst":
		return []string{cvxForgedToken(cs, h, "true"), cvxForgedToken(cs, h, "v1")}
	case "truelast":
		return []string{cvxForgedToken(cs, h, "v1"), cvxForgedToken(cs, h, "true")}
	}
	return []string{cvxForgedToken(cs, h, "v1")}
}

// end-to-end header sets (name as written on the wire, values)
type cvxHdrLine struct {
	Name string
	Vals []string
}

func cvxHeaderSet(id string) []cvxHdrLine {
	switch id {
	case "multi":
		return []cvxHdrLine{
			{"X-Custom", []string{"v1"}},
			{"X-Multi", []string{"a, b", "c"}},
			{"Cookie", []string{"k=v; k2=v2"}},
			{"Authorization", []string{"Bearer abc.def-ghi"}},
			{"Accept", []string{"text/plain;q=0.9, */*;q=0.1"}},
			{"Accept-Encoding", []string{"identity"}},
			{"Accept-Language", []string{"de-CH, en;q=0.5"}},
			{"Content-Type", []string{"application/x-verif; charset=utf-8"}},
			{"User-Agent", []string{"verif/1.0 (conformance)"}},
			{"Referer", []string{"http://elsewhere.example/a%2Fb?x=%20"}},
		}
	case "gzipok":
		return []cvxHdrLine{
			{"Accept-Encoding", []string{"gzip"}},
			{"X-Custom", []string{"v1"}},
		}
	case "expect":
		return []cvxHdrLine{
			{"Expect", []string{"100-continue"}},
			{"Content-Type", []string{"application/x-verif"}},
		}
	case "odd":
		return []cvxHdrLine{
			{"x-lower-case", []string{"v"}},
			{"X-UPPER-CASE", []string{"V"}},
			{"X-Odd-Value", []string{"a  b\tc; d=\"q\" \\ %2F %zz"}},
			{"X-Empty", []string{""}},
			{"X-Utf8", []string{"grüße"}},
			{"If-None-Match", []string{"W/\"etag-1\", \"etag-2\""}},
			{"Range", []string{"bytes=0-"}},
		}
	}
	return nil
}

// upstream answers
type cvxPlan struct {
	Fault   string // "" or the way the upstream dies before its answer is complete (see serveFault)
	Interim []int  // informational answers sent before the final one
	Status  int
	Hdr     []cvxHdrLine
	Body    int
	Chunked bool
}

// cvxAnswer: "hints-created" = 103 Early Hints, then the answer "created"; "processing-error" = 102, then "error".
func cvxAnswer(kind string) (status int, hdr []cvxHdrLine) {
	_, status, hdr = cvxAnswerScript(kind)
	return
}

func cvxAnswerScript(kind string) (interim []int, status int, hdr []cvxHdrLine) {
	for {
		if rest, ok := strings.CutPrefix(kind, "hints-"); ok {
			interim, kind = append(interim, http.StatusEarlyHints), rest
		} else if rest, ok := strings.CutPrefix(kind, "processing-"); ok {
			interim, kind = append(interim, http.StatusProcessing), rest
		} else {
			break
		}
	}
	status, hdr = cvxFinalAnswer(kind)
	return
}

func cvxFinalAnswer(kind string) (status int, hdr []cvxHdrLine) {
	if n, ok := strings.CutPrefix(kind, "st"); ok { // "st599": that status, whatever it means
		if code, err := strconv.Atoi(n); err == nil {
			return code, []cvxHdrLine{
				{"Content-Type", []string{"text/plain"}},
				{"X-Up-Status", []string{n}},
			}
		}
	}
	if coding, ok := strings.CutPrefix(kind, "enc-"); ok { // an answer that already carries a content coding
		return 200, []cvxHdrLine{
			{"Content-Type", []string{"text/plain; charset=utf-8"}},
			{"Content-Encoding", []string{coding}},
			{"X-Up-Coding", []string{coding}},
		}
	}
	switch kind {
	case "notfound":
		return 404, []cvxHdrLine{
			{"Content-Type", []string{"text/plain"}},
			{"X-Up-Missing", []string{"nothing here"}},
		}
	case "created":
		return 201, []cvxHdrLine{
			{"Content-Type", []string{"application/x-verif"}},
			{"X-Up-Multi", []string{"one", "two, three"}},
			{"Set-Cookie", []string{"a=1; Path=/", "b=2; HttpOnly"}},
			{"Location", []string{"/created/a%2Fb?x=1"}},
			{"Etag", []string{"\"v-1\""}},
			{"Cache-Control", []string{"no-store"}},
		}
	case "error":
		return 503, []cvxHdrLine{
			{"Content-Type", []string{"text/plain; charset=utf-8"}},
			{"Retry-After", []string{"7"}},
			{"X-Up-Error", []string{"upstream says no"}},
		}
	}
	return 200, []cvxHdrLine{
		{"Content-Type", []string{"text/plain"}},
		{"X-Up-One", []string{"u1"}},
	}
}

// bodies: sizes {0, 1, 32 KiB + 1, 1 MiB}; the content depends on the size only
var cvxSizes = []int{0, 1, 32*1024 + 1, 1 << 20}

// round-robin attachment pattern (index into cvxSizes, chunked); the big body is rarer
var cvxAttPattern = []struct {
	size    int
	chunked bool
}{
	{0, false}, {1, false}, {2, true}, {1, true}, {0, true}, {2, false}, {1, false}, {3, false},
	{0, false}, {1, true}, {2, true}, {0, true}, {1, false}, {2, false}, {3, true}, {1, true},
}

var (
	cvxBodyOnce sync.Once
	cvxBodies   = map[int][]byte{}
	cvxBodySum  = map[int]uint64{}
)

func cvxInitBodies() {
	cvxBodyOnce.Do(func() {
		for _, n := range cvxSizes {
			b := make([]byte, n)
			x := uint64(88172645463325252) ^ uint64(n)
			for i := range b {
				x ^= x << 13
				x ^= x >> 7
				x ^= x << 17
				b[i] = byte(x >> 24)
			}
			if n > 64 { // make sure framing bytes occur in the body
				copy(b[10:], []byte("\r\n0\r\n\r\nGET / HTTP/1.1\r\n\r\n"))
			}
			cvxBodies[n] = b
			cvxBodySum[n] = verifx.Hash(b)
		}
	})
}

// cvxPieces hides the length of the underlying reader and returns seeded piece sizes, so that
// net/http sends the body chunked in several pieces.
type cvxPieces struct {
	r io.Reader
	x uint64
}

func (p *cvxPieces) Read(b []byte) (int, error) {
	p.x ^= p.x << 13
	p.x ^= p.x >> 7
	p.x ^= p.x << 17
	n := int(p.x%4093) + 1
	if n > len(b) {
		n = len(b)
	}
	return p.r.Read(b[:n])
}

func cvxDefaultAtt(n int64, seed int64) *cvxAtt {
	k := int((n + seed) % int64(len(cvxAttPattern)))
	q := int((n/int64(len(cvxAttPattern)) + n + 3*seed) % int64(len(cvxAttPattern)))
	return &cvxAtt{
		ReqBody: cvxSizes[cvxAttPattern[k].size], ReqChunked: cvxAttPattern[k].chunked,
		RespBody: cvxSizes[cvxAttPattern[q].size], RespChunked: cvxAttPattern[q].chunked,
	}
}

// ---------------------------------------------------------------- routes

func cvxRouteKey(routes []cvxRoute) string {
	if len(routes) == 0 {
		return "none"
	}
	b, _ := json.Marshal(routes)
	return fmt.Sprintf("k%012x", verifx.Hash(b)&0xffffffffffff)
}

func cvxHostName(key string, cand int, rhost string) string {
	return cvxHostNameL("a", key, cand, rhost)
}

func cvxHostNameL(label, key string, cand int, rhost string) string {
	h := label + "." + key + ".test"
	if cand > 0 {
		h = "*." + key + ".test"
	}
	if rhost == "ported" {
		h += ":" + cvxReqPort
	}
	return h
}

func cvxReqHost(cs *cvxCase) string {
	label := cs.C.HostLabel
	if label == "" {
		label = "a"
	}
	return cvxHostNameL(label, cvxRouteKey(cs.C.Routes), 0, cs.C.RHost)
}

// cvxTplText renders a redirect template; self / upstream stand for the request's own host and
// the instrumented upstream.
func cvxTplText(t cvxTpl, self, upstream string) string {
	host := t.Host
	switch host {
	case "self":
		host = self
	case "upstream":
		host = upstream
	}
	s := t.Scheme + "://" + host + cvxJoin(t.Pre)
	if t.Slash {
		s += "/"
	}
	if t.Var {
		s += "$path"
	}
	if len(t.Query) > 0 {
		s += "?" + cvxQuery(t.Query)
	}
	return s
}

var (
	cvxDeadOnce sync.Once
	cvxDead     string
)

// cvxDeadAddr: an address nobody listens on (connections are refused)
func cvxDeadAddr() string {
	cvxDeadOnce.Do(func() {
		l, err := net.Listen("tcp", "127.0.0.1:0")
		if err != nil {
			cvxDead = "127.0.0.1:1"
			return
		}
		cvxDead = l.Addr().String()
		l.Close()
	})
	return cvxDead
}

func cvxRouteCmds(key, rhost string, routes []cvxRoute, upAddr string) []string {
	var out []string
	for j, r := range routes {
		host := cvxHostName(key, j, rhost)
		if r.GHost {
			host = cvxHostName(key, 1, rhost) // a pattern: a.<key>.test, b.<key>.test, ... all match
		}
		switch {
		case r.HostForm == "port80":
			host = cvxHostName(key, 0, "plain") + ":80"
		case r.HostForm == "none":
			host = ""
		case j > 0 && routes[0].HostForm == "port80":
			host = cvxHostName(key, 0, rhost) // the same host, written without the port
		}
		self := cvxHostName(key, 0, rhost)
		dst := "http://" + upAddr + "/"
		if r.Dead {
			dst = "http://" + cvxDeadAddr() + "/"
		}
		if len(r.TQuery) > 0 {
			dst += "?" + cvxQuery(r.TQuery)
		}
		var opts []string
		if len(r.Strip) > 0 {
			opts = append(opts, "strip="+cvxOpt(r.Strip))
		}
		if len(r.Prepend) > 0 {
			opts = append(opts, "prepend="+cvxOpt(r.Prepend))
		}
		switch r.HostOpt {
		case "":
		case "dst":
			opts = append(opts, "host=dst")
		default:
			opts = append(opts, "host="+cvxNamedHost)
		}
		if r.Code.Txt != "" {
			opts = append(opts, "redirect="+r.Code.Txt)
			dst = cvxTplText(r.Tpl, self, upAddr)
		}
		svc := fmt.Sprintf("svc-%s-%d", key, j)
		if rhost == "ported" {
			svc += "p"
		}
		cmd := "route add " + svc + " " + host + cvxOpt(r.Src) + " " + dst
		if len(opts) > 0 {
			cmd += ` opts "` + strings.Join(opts, " ") + `"`
		}
		out = append(out, cmd)
	}
	return out
}

// ---------------------------------------------------------------- the world: upstream, table, proxies

type cvxSeen struct {
	Hits       int
	Method     string
	RequestURI string
	Host       string
	Header     http.Header
	BodyLen    int64
	BodySum    uint64
	TE         []string
}

type cvxCfgKey struct {
	ip, tlshdr, sts bool
	nr              int
	tls             bool
	log             bool  // an access logger is configured
	odd             bool  // header names configured in non-canonical spelling
	v6              bool  // the front listens on ::1
	gzip            bool  // proxy.gzip.contenttype = ^text/
	noglob          bool  // glob.matching.disabled
	rtimeout        bool  // proxy.responseheadertimeout = 300ms (the upstream of the case does not answer)
	real            bool  // one of fabio's own listeners (proxy.ListenAndServeHTTP) instead of net/http/httptest
	fresh           int64 // != 0: a proxy of its own for this case (it has served nothing before)
}

type cvxFront struct {
	srv  *httptest.Server // nil for one of fabio's own listeners
	stop func()
	addr string
}

type cvxWorld struct {
	upstream *httptest.Server
	upAddr   string

	mu    sync.Mutex
	seen  map[int64]*cvxSeen
	plans sync.Map // id -> *cvxPlan

	fmu    sync.Mutex
	fronts map[cvxCfgKey]*cvxFront

	client      *http.Client
	upTr        *http.Transport
	upTrTimeout *http.Transport // as upTr, with proxy.responseheadertimeout
	oldTable    route.Table
	oldHTML     string
	oldLog      io.Writer
	nroutes     int
	errs        int64
	retries     int64
	noV6        bool // ::1 cannot be listened on: IPv6 cases are skipped (and counted)
	certOnce    sync.Once
	certs       []tls.Certificate
}

func cvxNewWorld() *cvxWorld {
	cvxInitBodies()
	w := &cvxWorld{seen: map[int64]*cvxSeen{}, fronts: map[cvxCfgKey]*cvxFront{}}
	w.oldLog = log.Writer()
	if p := os.Getenv("VERIF_LOG"); p == "" {
		log.SetOutput(io.Discard)
	} else if f, err := os.OpenFile(p, os.O_CREATE|os.O_WRONLY|os.O_APPEND, 0o644); err == nil {
		log.SetOutput(f) // debugging aid: fabio's and net/http's log lines
	}
	w.upstream = httptest.NewUnstartedServer(http.HandlerFunc(w.serveUpstream))
	if os.Getenv("VERIF_LOG") == "" {
		w.upstream.Config.ErrorLog = log.New(io.Discard, "", 0)
	}
	w.upstream.Start()
	w.upAddr = w.upstream.Listener.Addr().String()
	w.client = &http.Client{
		Transport: &http.Transport{
			TLSClientConfig:    &tls.Config{InsecureSkipVerify: true},
			DisableCompression: true,
			// how long a request with Expect: 100-continue waits for the interim answer before it
			// sends its body anyway; nothing is decided by this
			ExpectContinueTimeout: 2 * time.Second,
			MaxIdleConns:          1024,
			MaxIdleConnsPerHost:   32,
		},
		CheckRedirect: func(*http.Request, []*http.Request) error { return http.ErrUseLastResponse },
		Timeout:       120 * time.Second, // safety net only: expiry is an error record, never a verdict
	}
	// like transport.NewTransport(nil) in main, with a larger idle pool
	w.upTr = &http.Transport{Dial: (&net.Dialer{}).Dial, MaxIdleConnsPerHost: 64, MaxIdleConns: 1024}
	w.upTrTimeout = &http.Transport{Dial: (&net.Dialer{}).Dial, MaxIdleConnsPerHost: 8, ResponseHeaderTimeout: cvxRespTimeout}
	w.oldTable = route.GetTable()
	w.oldHTML = noroute.GetHTML()
	return w
}

func (w *cvxWorld) close() {
	if w.oldTable != nil {
		route.SetTable(w.oldTable)
	} else {
		route.SetTable(route.Table{})
	}
	noroute.SetHTML(w.oldHTML)
	w.client.CloseIdleConnections()
	w.fmu.Lock()
	for _, f := range w.fronts {
		if f.srv != nil {
			f.srv.Close()
		} else if f.stop != nil {
			f.stop()
		}
	}
	w.fmu.Unlock()
	w.upTr.CloseIdleConnections()
	w.upstream.Close()
	log.SetOutput(w.oldLog)
}

func (w *cvxWorld) errorf(format string, a ...any) {
	if atomic.AddInt64(&w.errs, 1) <= 20 {
		verifx.Emit(map[string]any{"kind": "error", "msg": fmt.Sprintf(format, a...)})
	}
}

func (w *cvxWorld) serveUpstream(rw http.ResponseWriter, r *http.Request) {
	id, _ := strconv.ParseInt(r.Header.Get(cvxIDHeader), 10, 64)
	h := fnv.New64a()
	n, _ := io.Copy(h, r.Body)
	s := &cvxSeen{Hits: 1, Method: r.Method, RequestURI: r.RequestURI, Host: r.Host, Header: r.Header.Clone(),
		BodyLen: n, BodySum: h.Sum64(), TE: r.TransferEncoding}
	w.mu.Lock()
	if prev := w.seen[id]; prev != nil {
		prev.Hits++
	} else {
		w.seen[id] = s
	}
	w.mu.Unlock()

	if strings.EqualFold(r.Header.Get("Upgrade"), "websocket") {
		// minimal websocket upstream: accept the handshake and end the connection
		hj, ok := rw.(http.Hijacker)
		if !ok {
			rw.WriteHeader(500)
			return
		}
		conn, brw, err := hj.Hijack()
		if err != nil {
			return
		}
		brw.WriteString("HTTP/1.1 101 Switching Protocols\r\nUpgrade: websocket\r\nConnection: Upgrade\r\nSec-WebSocket-Accept: s3pPLMBiTxaQ9kYGzzhZRbK+xOo=\r\n\r\n")
		brw.Flush()
		conn.Close()
		return
	}

	var plan *cvxPlan
	if p, ok := w.plans.Load(cvxCaseOf(id)); ok {
		plan = p.(*cvxPlan)
	} else {
		st, hd := cvxFinalAnswer("ok")
		plan = &cvxPlan{Status: st, Hdr: hd, Body: 1}
	}
	if plan.Fault == "timeout" {
		// no answer: wait until fabio gives up on the request (safety net: a minute)
		select {
		case <-r.Context().Done():
		case <-time.After(time.Minute):
		}
		return
	}
	if plan.Fault != "" {
		w.serveFault(rw, plan)
		return
	}
	for _, code := range plan.Interim {
		rw.Header().Set("Link", "</style.css>; rel=preload; as=style")
		rw.WriteHeader(code)
		rw.Header().Del("Link")
	}
	for _, l := range plan.Hdr {
		for _, v := range l.Vals {
			rw.Header().Add(l.Name, v)
		}
	}
	body := cvxBodies[plan.Body]
	if !plan.Chunked {
		rw.Header().Set("Content-Length", strconv.Itoa(len(body)))
		rw.WriteHeader(plan.Status)
		rw.Write(body)
		return
	}
	rw.WriteHeader(plan.Status)
	fl, _ := rw.(http.Flusher)
	x := uint64(id)*2654435761 + 1
	for len(body) > 0 {
		x ^= x << 13
		x ^= x >> 7
		x ^= x << 17
		k := int(x%8191) + 1
		if k > len(body) {
			k = len(body)
		}
		rw.Write(body[:k])
		if fl != nil {
			fl.Flush()
		}
		body = body[k:]
	}
	if fl != nil {
		fl.Flush() // an empty chunked body still has to be framed as chunked
	}
}

// cvxCutAfter: how many body bytes a faulty upstream sends before it dies
const cvxCutAfter = 10000

// serveFault answers by hand on the raw connection and dies before the answer is complete:
//
//	cuthead      the connection is closed before any byte of an answer
//	cutcl        200 with Content-Length = the whole body, closed after cvxCutAfter body bytes
//	cutchunked   200 chunked, one chunk of cvxCutAfter bytes, closed without the last chunk
//	cutchunked0  200 chunked, closed right after the header
//	rstchunked   as cutchunked, the connection is reset instead of closed
func (w *cvxWorld) serveFault(rw http.ResponseWriter, plan *cvxPlan) {
	hj, ok := rw.(http.Hijacker)
	if !ok {
		panic("upstream cannot hijack")
	}
	conn, brw, err := hj.Hijack()
	if err != nil {
		return
	}
	defer conn.Close()
	body := cvxBodies[plan.Body]
	k := cvxCutAfter
	if k > len(body) {
		k = len(body) / 2
	}
	switch plan.Fault {
	case "cuthead":
		return
	case "cutcl":
		fmt.Fprintf(brw, "HTTP/1.1 200 OK\r\nContent-Type: application/octet-stream\r\nContent-Length: %d\r\n\r\n", len(body))
		brw.Write(body[:k])
	case "cutchunked", "rstchunked":
		fmt.Fprintf(brw, "HTTP/1.1 200 OK\r\nContent-Type: application/octet-stream\r\nTransfer-Encoding: chunked\r\n\r\n%x\r\n", k)
		brw.Write(body[:k])
		brw.WriteString("\r\n")
	case "cutchunked0":
		brw.WriteString("HTTP/1.1 200 OK\r\nContent-Type: application/octet-stream\r\nTransfer-Encoding: chunked\r\n\r\n")
	}
	brw.Flush()
	if tc, ok := conn.(*net.TCPConn); ok && plan.Fault == "rstchunked" {
		tc.SetLinger(0)
	}
}

func (w *cvxWorld) take(id int64) *cvxSeen {
	w.mu.Lock()
	defer w.mu.Unlock()
	return w.seen[id]
}

// install builds ONE routing table out of the routes of all cases (every distinct candidate list
// gets its own host name) and publishes it like fabio's control plane does.
func (w *cvxWorld) install(cmds []string) error {
	sort.Strings(cmds)
	tbl, err := route.NewTable(bytes.NewBufferString(strings.Join(cmds, "\n")))
	if err != nil {
		return err
	}
	w.nroutes = len(cmds)
	route.SetTable(tbl)
	return nil
}

func (w *cvxWorld) front(k cvxCfgKey) *cvxFront {
	w.fmu.Lock()
	defer w.fmu.Unlock()
	if f := w.fronts[k]; f != nil {
		return f
	}
	if k.v6 && w.noV6 {
		return nil
	}
	cfg := config.Proxy{NoRouteStatus: k.nr}
	if k.ip {
		cfg.ClientIPHeader = cvxClientIPHd
		if k.odd {
			cfg.ClientIPHeader = cvxClientIPHdOdd
		}
	}
	if k.tlshdr {
		cfg.TLSHeader = cvxTLSHd
		if k.odd {
			cfg.TLSHeader = cvxTLSHdOdd
		}
		cfg.TLSHeaderValue = cvxTLSVal
	}
	if k.sts {
		cfg.STSHeader = config.STSHeader{MaxAge: cvxSTSMaxAge, Subdomains: true}
	}
	if k.gzip {
		cfg.GZIPContentTypes = regexp.MustCompile(`^text/`)
	}
	if k.rtimeout {
		cfg.ResponseHeaderTimeout = cvxRespTimeout
	}
	wire := cvxWire{cfg: cfg, accessLog: k.log, noGlob: k.noglob, rTimeout: k.rtimeout, plainOnly: !k.tls}
	var f *cvxFront
	var p http.Handler
	if cvxStartFront != nil && !k.v6 {
		if addr, stop, ok := cvxStartFront(w, wire, k.tls); ok {
			f = &cvxFront{stop: stop, addr: addr}
		}
	}
	if f == nil {
		p = cvxMakeProxy(w, wire)
	}
	if f != nil {
		// brought up by fabio's own start-up code
	} else if k.real {
		// fabio's own listener; its registry of servers is keyed by the configured address: an explicit free port
		var tc *tls.Config
		if k.tls {
			tc = &tls.Config{Certificates: w.tlsCerts()}
		}
		var err error
		for try := 0; try < 20 && f == nil; try++ {
			l, lerr := net.Listen("tcp", "127.0.0.1:0")
			if lerr != nil {
				err = lerr
				continue
			}
			addr := l.Addr().String()
			l.Close()
			stop, serr := cvxListen(addr, p, tc)
			if serr != nil {
				err = serr
				continue
			}
			f = &cvxFront{stop: stop, addr: addr}
		}
		if f == nil {
			w.errorf("cannot start one of fabio's own listeners: %v", err)
			return nil
		}
	} else {
		srv := httptest.NewUnstartedServer(p)
		if k.v6 {
			l, err := net.Listen("tcp6", "[::1]:0")
			if err != nil {
				w.noV6 = true
				srv.Listener.Close()
				return nil
			}
			srv.Listener.Close()
			srv.Listener = l
		}
		if os.Getenv("VERIF_LOG") == "" {
			srv.Config.ErrorLog = log.New(io.Discard, "", 0)
		}
		if k.tls {
			srv.StartTLS()
		} else {
			srv.Start()
		}
		f = &cvxFront{srv: srv, addr: srv.Listener.Addr().String()}
	}
	w.fronts[k] = f
	// The glob cache of fabio is filled on first use and that path is not safe for concurrent
	// use (property C06's subject, not ours): fill it with one request before the parallel phase.
	scheme := "http"
	if k.tls {
		scheme = "https"
	}
	if req, err := http.NewRequest("GET", scheme+"://"+f.addr+"/", nil); err == nil {
		req.Host = "warm-up.invalid"
		if resp, err := w.client.Do(req); err == nil {
			io.Copy(io.Discard, resp.Body)
			resp.Body.Close()
		}
	}
	return f
}

// tlsCerts: the certificate of net/http/httptest, for fabio's own TLS listeners
func (w *cvxWorld) tlsCerts() []tls.Certificate {
	w.certOnce.Do(func() {
		ts := httptest.NewUnstartedServer(http.NotFoundHandler())
		ts.StartTLS()
		w.certs = append([]tls.Certificate(nil), ts.TLS.Certificates...)
		ts.Close()
	})
	return w.certs
}

func cvxFrontKey(cs *cvxCase) cvxCfgKey {
	return cvxCfgKey{ip: cs.C.CfgIP, tlshdr: cs.C.CfgTLS, sts: cs.C.CfgSTS, nr: cs.C.NRStatus, tls: cs.C.TLS,
		odd: cs.C.CfgSpell == "odd", v6: cs.C.Peer == "v6", log: cs.C.AccessLog,
		real: cs.C.Sub == "conn" || cs.C.Together, fresh: cs.fresh,
		gzip: cs.C.CfgGzip, noglob: cs.C.NoGlob, rtimeout: cs.C.Resp == "timeout"}
}

// ---------------------------------------------------------------- the client side

type cvxGot struct {
	Status  int
	Header  http.Header
	BodyLen int64
	BodySum uint64
	Body    []byte // first 4 KiB
}

// cvxWireHeaders returns the header lines the client sends (besides Host), in order.
func cvxWireHeaders(cs *cvxCase, id int64) []cvxHdrLine {
	lines := []cvxHdrLine{{cvxIDHeader, []string{strconv.FormatInt(id, 10)}}}
	lines = append(lines, cvxHeaderSet(cs.C.Hdrs)...)
	if cs.C.Kind == "sse" {
		lines = append(lines, cvxHdrLine{"Accept", []string{"text/event-stream"}})
	}
	for _, h := range cvxManagedOrder {
		vals := cvxForgedLines(cs, h)
		if vals == nil {
			continue
		}
		name := cvxManagedName[h]
		if cs.C.Forged[h] == "odd" {
			name = cvxOddCase(name)
		}
		lines = append(lines, cvxHdrLine{name, vals})
	}
	return lines
}

func cvxRawTarget(cs *cvxCase) (rawPath, rawQuery string) {
	return cvxJoin(cs.C.Path), cvxQuery(cs.C.Query)
}

// errCvxTruncated: the answer ended before its announced end (Content-Length / last chunk).
var errCvxTruncated = errors.New("response truncated")

// doHTTP carries out the case's request.  An exchange that breaks off (connection-level error)
// is repeated: under load net/http itself occasionally cuts an exchange short - the server side
// closes the request body when the first response bytes are written while the Transport still
// probes it for data beyond Content-Length ("invalid Read on closed Body", golang.org/issue/15527
// and relatives; a bare httputil.ReverseProxy shows the same) - and such noise must not decide a
// case.  An answer that is cut short on every attempt is reported by the caller.
//
// Every attempt carries its own request id (case id + attempt<<40) so that what the upstream
// recorded for an abandoned attempt cannot be mistaken for the attempt that is judged.
func (w *cvxWorld) doHTTP(cs *cvxCase, id int64) (got *cvxGot, rid int64, err error) {
	for attempt := int64(0); attempt < 4; attempt++ {
		rid = id + attempt<<cvxAttemptShift
		if got, err = w.doHTTPOnce(cs, rid); err == nil || strings.HasPrefix(err.Error(), "harness:") {
			return got, rid, err
		}
		atomic.AddInt64(&w.retries, 1)
	}
	return got, rid, err
}

const cvxAttemptShift = 40

func cvxCaseOf(rid int64) int64 { return rid & (1<<cvxAttemptShift - 1) }

func (w *cvxWorld) doHTTPOnce(cs *cvxCase, id int64) (*cvxGot, error) {
	f := w.front(cvxFrontKey(cs))
	rawPath, rawQuery := cvxRawTarget(cs)
	dec, err := url.PathUnescape(rawPath)
	if err != nil {
		return nil, fmt.Errorf("harness: bad raw path %q: %v", rawPath, err)
	}
	scheme := "http"
	if cs.C.TLS {
		scheme = "https"
	}
	u := &url.URL{Scheme: scheme, Host: f.addr, Path: dec, RawPath: rawPath, RawQuery: rawQuery,
		ForceQuery: len(cs.C.Query) > 0 && rawQuery == ""} // a query that is present and empty: "/x?"
	if u.EscapedPath() != rawPath {
		return nil, fmt.Errorf("harness: cannot send raw path %q (would be sent as %q)", rawPath, u.EscapedPath())
	}
	var body io.Reader
	att := cs.Att
	if att.ReqBody > 0 || att.ReqChunked {
		b := cvxBodies[att.ReqBody]
		if att.ReqChunked {
			body = &cvxPieces{r: bytes.NewReader(b), x: uint64(id)*0x9e3779b97f4a7c15 + 7}
		} else {
			body = bytes.NewReader(b)
		}
	}
	req, err := http.NewRequest(cs.C.Method, u.String(), body)
	if err != nil {
		return nil, fmt.Errorf("harness: %v", err)
	}
	req.URL = u
	if body != nil {
		if att.ReqChunked {
			req.ContentLength = -1
		} else {
			req.ContentLength = int64(att.ReqBody)
		}
	}
	req.Host = cvxReqHost(cs)
	hasUA := false
	for _, l := range cvxWireHeaders(cs, id) {
		req.Header[l.Name] = append(req.Header[l.Name], l.Vals...)
		if strings.EqualFold(l.Name, "User-Agent") {
			hasUA = true
		}
	}
	if !hasUA {
		req.Header["User-Agent"] = []string{""} // net/http then sends no User-Agent at all
	}
	resp, err := w.client.Do(req)
	if err != nil {
		return nil, err
	}
	defer resp.Body.Close()
	g := &cvxGot{Status: resp.StatusCode, Header: resp.Header}
	h := fnv.New64a()
	var head bytes.Buffer
	n, err := io.Copy(io.MultiWriter(h, &cvxHead{b: &head, max: 4096}), resp.Body)
	if err != nil {
		return nil, fmt.Errorf("reading response body: %v (status %d, Content-Length %d, Transfer-Encoding %v, %d bytes read, answer body %d chunked=%v, tls=%v)",
			err, resp.StatusCode, resp.ContentLength, resp.TransferEncoding, n, att.RespBody, att.RespChunked, cs.C.TLS)
	}
	g.BodyLen, g.BodySum, g.Body = n, h.Sum64(), head.Bytes()
	return g, nil
}

type cvxHead struct {
	b   *bytes.Buffer
	max int
}

func (h *cvxHead) Write(p []byte) (int, error) {
	if room := h.max - h.b.Len(); room > 0 {
		if room > len(p) {
			room = len(p)
		}
		h.b.Write(p[:room])
	}
	return len(p), nil
}

// doWS performs a websocket opening handshake through the proxy.  fabio gives the upstream one second
// to answer the handshake and says 500 otherwise; on a loaded machine that is a matter of scheduling,
// so an exchange that broke off or ended in fabio's own 500 is repeated (see doHTTP); only an outcome
// that persists is judged.
func (w *cvxWorld) doWS(cs *cvxCase, id int64) (got *cvxGot, rid int64, err error) {
	for attempt := int64(0); attempt < 4; attempt++ {
		rid = id + attempt<<cvxAttemptShift
		if got, err = w.doWSOnce(cs, rid); err == nil && got.Status != http.StatusInternalServerError {
			return got, rid, nil
		}
		atomic.AddInt64(&w.retries, 1)
	}
	return got, rid, err
}

// doWSOnce performs a websocket opening handshake by hand and reads until the proxy ends the connection.
func (w *cvxWorld) doWSOnce(cs *cvxCase, id int64) (*cvxGot, error) {
	f := w.front(cvxFrontKey(cs))
	var conn net.Conn
	var err error
	if cs.C.TLS {
		conn, err = tls.Dial("tcp", f.addr, &tls.Config{InsecureSkipVerify: true})
	} else {
		conn, err = net.Dial("tcp", f.addr)
	}
	if err != nil {
		return nil, err
	}
	defer conn.Close()
	conn.SetDeadline(time.Now().Add(60 * time.Second)) // safety net only
	rawPath, rawQuery := cvxRawTarget(cs)
	target := rawPath
	if len(cs.C.Query) > 0 {
		target += "?" + rawQuery
	}
	upg := "websocket"
	if cs.C.Kind == "Ws" {
		upg = "Websocket"
	}
	var b bytes.Buffer
	fmt.Fprintf(&b, "%s %s HTTP/1.1\r\nHost: %s\r\nUpgrade: %s\r\nConnection: Upgrade\r\n", cs.C.Method, target, cvxReqHost(cs), upg)
	b.WriteString("Sec-WebSocket-Key: dGhlIHNhbXBsZSBub25jZQ==\r\nSec-WebSocket-Version: 13\r\n")
	for _, l := range cvxWireHeaders(cs, id) {
		for _, v := range l.Vals {
			fmt.Fprintf(&b, "%s: %s\r\n", l.Name, v)
		}
	}
	b.WriteString("\r\n")
	if _, err := conn.Write(b.Bytes()); err != nil {
		return nil, err
	}
	br := bufio.NewReader(conn)
	resp, err := http.ReadResponse(br, nil)
	if err != nil {
		return nil, fmt.Errorf("reading handshake answer: %v", err)
	}
	g := &cvxGot{Status: resp.StatusCode, Header: resp.Header}
	if resp.StatusCode == http.StatusSwitchingProtocols {
		// the upstream ends the connection after the handshake; wait for the proxy to pass that on
		io.Copy(io.Discard, br)
		return g, nil
	}
	// an ordinary answer (redirect, no route, error): read it to its end, the connection stays open
	var head bytes.Buffer
	n, err := io.Copy(&cvxHead{b: &head, max: 4096}, resp.Body)
	if err != nil {
		return nil, fmt.Errorf("reading the answer to the handshake: %v", err)
	}
	g.BodyLen, g.Body = n, head.Bytes()
	return g, nil
}

// ---------------------------------------------------------------- comparing

func cvxSameVals(a, b []string) bool {
	if len(a) != len(b) {
		return false
	}
	for i := range a {
		if a[i] != b[i] {
			return false
		}
	}
	return true
}

func cvxSplitList(vals []string) []string {
	var out []string
	for _, v := range vals {
		for _, e := range strings.Split(v, ",") {
			out = append(out, strings.TrimSpace(e))
		}
	}
	return out
}

// cvxSameAddr: does text denote the address addr?  (any textual form of the same IP address; a
// bracketed host literal such as [::1] is not an address)
func cvxSameAddr(text, addr string) bool {
	a, b := net.ParseIP(text), net.ParseIP(addr)
	return a != nil && b != nil && a.Equal(b)
}

// cvxSameValsTok compares received values with expected ones; where the expected token is the peer
// the value must denote the peer's address, everything else must be equal byte for byte.
func cvxSameValsTok(got, want, toks []string) bool {
	if len(got) != len(want) {
		return false
	}
	for i := range got {
		if toks[i] == "peer" {
			if !cvxSameAddr(got[i], want[i]) {
				return false
			}
		} else if got[i] != want[i] {
			return false
		}
	}
	return true
}

// cvxCheckHdr judges the received values of one header against the expectation of the case.
func cvxCheckHdr(cs *cvxCase, h string, exp cvxHdrExp, got []string) string {
	want := make([]string, len(exp.Vals))
	for i, t := range exp.Vals {
		want[i] = cvxForgedToken(cs, h, t)
	}
	switch exp.Mode {
	case "eq":
		if !cvxSameValsTok(got, want, exp.Vals) {
			return fmt.Sprintf("got %q, want %q", got, want)
		}
	case "list":
		if g := cvxSplitList(got); !cvxSameValsTok(g, want, exp.Vals) {
			return fmt.Sprintf("got elements %q (from %q), want %q", g, got, want)
		}
	case "listne":
		// empty client lines may leave empty elements behind: they are not judged, the rest is
		var g []string
		for _, e := range cvxSplitList(got) {
			if e != "" {
				g = append(g, e)
			}
		}
		if !cvxSameValsTok(g, want, exp.Vals) {
			return fmt.Sprintf("got elements %q (from %q), want %q", g, got, want)
		}
	case "listdup":
		// the client's list already ends with the peer: the peer must (still) be the last element and
		// nothing of the client's list may be lost; whether it is listed once more is not judged
		g := cvxSplitList(got)
		n := len(want)
		if !cvxSameValsTok(g, want, exp.Vals) && !(n > 1 && cvxSameValsTok(g, want[:n-1], exp.Vals[:n-1])) {
			return fmt.Sprintf("got elements %q (from %q), want %q (the last one once or twice)", g, got, want)
		}
	case "prefix":
		if len(got) != 1 || !strings.HasPrefix(got[0], want[0]) {
			return fmt.Sprintf("got %q, want one value starting with %q", got, want[0])
		}
	case "fwd":
		if len(got) != 1 {
			return fmt.Sprintf("got %q, want one value", got)
		}
		params := map[string]string{}
		for _, p := range strings.Split(got[0], ";") {
			kv := strings.SplitN(strings.TrimSpace(p), "=", 2)
			if len(kv) == 2 {
				if _, dup := params[kv[0]]; !dup {
					params[kv[0]] = kv[1]
				}
			}
		}
		// RFC 7239 writes an IPv6 node as "[::1]" (quoted, bracketed); fabio writes the bare address:
		// the syntax is not judged, the address is
		node := strings.Trim(params["for"], `"`)
		if strings.HasPrefix(node, "[") && strings.HasSuffix(node, "]") && strings.Contains(node, ":") {
			node = node[1 : len(node)-1]
		}
		if !cvxSameAddr(node, want[0]) {
			return fmt.Sprintf("got %q, want for=%s", got[0], want[0])
		}
		switch exp.Vals[1] {
		case "secure":
			if p := params["proto"]; p != "https" && p != "wss" {
				return fmt.Sprintf("got %q, want proto=https|wss", got[0])
			}
		case "insecure":
			if p := params["proto"]; p != "http" && p != "ws" {
				return fmt.Sprintf("got %q, want proto=http|ws", got[0])
			}
		}
	case "any", "none", "":
	default:
		return "harness: unknown expectation mode " + exp.Mode
	}
	return ""
}

// cvxEscapeClass names the kinds of escapes in a raw path (feature record).
func cvxEscapeClass(toks []string) string {
	var cl []string
	add := func(s string) {
		for _, c := range cl {
			if c == s {
				return
			}
		}
		cl = append(cl, s)
	}
	for _, t := range toks {
		switch {
		case strings.EqualFold(t, "%2F"):
			add("reserved")
		case t == "%41":
			add("unreserved")
		case t == "%20":
			add("space")
		case strings.HasPrefix(t, "%"):
			add("utf8")
		case strings.ContainsAny(t, "';=@"):
			add("subdelim")
		}
	}
	if len(cl) == 0 {
		return "none"
	}
	sort.Strings(cl)
	return strings.Join(cl, "+")
}

func cvxHasPrefix(p, s []string) bool {
	if len(p) > len(s) {
		return false
	}
	for i := range p {
		if p[i] != s[i] {
			return false
		}
	}
	return true
}

// cvxHasPrefixDecoded: option text p is a prefix of the raw path s, however the client spelled it.
func cvxHasPrefixDecoded(p, s []string) bool {
	if len(p) > len(s) {
		return false
	}
	dec := map[string]string{"%C3%B6": "U+F6", "%c3%b6": "U+F6", "%5E": "^", "%5e": "^"}
	for i := range p {
		t := s[i]
		if d, ok := dec[t]; ok {
			t = d
		}
		if p[i] != t {
			return false
		}
	}
	return true
}

func cvxRewriteClass(r *cvxRoute, path []string) string {
	strip := len(r.Strip) > 0 && cvxHasPrefixDecoded(r.Strip, path)
	switch {
	case strip && len(r.Prepend) > 0:
		return "strip+prepend"
	case strip:
		return "strip"
	case len(r.Prepend) > 0:
		return "prepend"
	}
	return "none"
}

// ---------------------------------------------------------------- runner

// cvxOpenConn opens a client connection to the front of the case (nothing is sent yet).
func (w *cvxWorld) cvxOpenConn(cs *cvxCase) (net.Conn, error) {
	f := w.front(cvxFrontKey(cs))
	if f == nil {
		return nil, errors.New("harness: no front")
	}
	if cs.C.TLS {
		return tls.Dial("tcp", f.addr, &tls.Config{InsecureSkipVerify: true})
	}
	return net.Dial("tcp", f.addr)
}

// cvxRawGet sends the case's request (no body) over an open connection and reads the answer.
func cvxRawGet(conn net.Conn, br *bufio.Reader, cs *cvxCase, id int64) (*cvxGot, error) {
	conn.SetDeadline(time.Now().Add(60 * time.Second)) // safety net only
	rawPath, rawQuery := cvxRawTarget(cs)
	target := rawPath
	if len(cs.C.Query) > 0 {
		target += "?" + rawQuery
	}
	var b bytes.Buffer
	fmt.Fprintf(&b, "%s %s HTTP/1.1\r\nHost: %s\r\n", cs.C.Method, target, cvxReqHost(cs))
	for _, l := range cvxWireHeaders(cs, id) {
		for _, v := range l.Vals {
			fmt.Fprintf(&b, "%s: %s\r\n", l.Name, v)
		}
	}
	b.WriteString("\r\n")
	if _, err := conn.Write(b.Bytes()); err != nil {
		return nil, err
	}
	resp, err := http.ReadResponse(br, nil)
	if err != nil {
		return nil, fmt.Errorf("reading the answer: %v", err)
	}
	g := &cvxGot{Status: resp.StatusCode, Header: resp.Header}
	var head bytes.Buffer
	n, err := io.Copy(&cvxHead{b: &head, max: 4096}, resp.Body)
	if err != nil {
		return nil, fmt.Errorf("reading the answer: %v", err)
	}
	g.BodyLen, g.Body = n, head.Bytes()
	return g, nil
}

type cvxJob struct {
	do  func() (*cvxGot, int64, error) // != nil: how the exchange of this job is carried out
	cs  *cvxCase
	id  int64
	raw uint64
}

type cvxRunner struct {
	prop   string
	serial func(cs *cvxCase) string          // "" = may run concurrently with anything
	exec   func(w *cvxWorld, j *cvxJob) bool // true = the case reached the code under test in a non-trivial way
	sample func(cs *cvxCase) string
}

func cvxDecode(raw []byte) (*cvxCase, error) {
	cs := &cvxCase{}
	if err := json.Unmarshal(raw, cs); err != nil {
		return nil, err
	}
	return cs, nil
}

// cvxPhase: which cases may be replayed at the same time (see run)
func cvxPhase(cs *cvxCase) string {
	switch {
	case len(cs.C.PageHist) > 0:
		return "pagehist"
	case len(cs.C.Flip) > 0:
		return "flip:" + strings.Join(cs.C.Flip, ",")
	}
	return "page:" + cs.C.NRPage
}

// cvxFlipRepeats: how often a request is repeated while the page changes
func cvxFlipRepeats() int {
	if verifx.Thorough() {
		return 400
	}
	return 120
}

// cvxFlipper replaces the no-route page over and over, the way the registry watcher does it (noroute.SetHTML),
// until stop is called.
func cvxFlipper(pages []string) (stop func()) {
	var done int32
	var wg sync.WaitGroup
	wg.Add(1)
	go func() {
		defer wg.Done()
		for atomic.LoadInt32(&done) == 0 {
			for _, p := range pages {
				noroute.SetHTML(cvxPage(p))
			}
			runtime.Gosched()
		}
	}()
	return func() { atomic.StoreInt32(&done, 1); wg.Wait() }
}

func (rn *cvxRunner) run(t *testing.T) {
	seed := verifx.Seed()
	w := cvxNewWorld()
	defer w.close()

	// pass 1: routes of all cases -> one table
	cmdset := map[string]bool{}
	seenKey := map[string]bool{}
	phases := map[string]bool{}
	var total int64
	err := verifx.EachCase("", func(raw []byte) error {
		cs, err := cvxDecode(raw)
		if err != nil {
			return fmt.Errorf("bad case: %v", err)
		}
		total++
		phases[cvxPhase(cs)] = true
		key := cvxRouteKey(cs.C.Routes)
		rhosts := []string{cs.C.RHost}
		for _, h := range cs.C.Hist {
			rhosts = append(rhosts, h.RHost)
		}
		for _, rh := range rhosts {
			if seenKey[key+"/"+rh] {
				continue
			}
			seenKey[key+"/"+rh] = true
			for _, c := range cvxRouteCmds(key, rh, cs.C.Routes, w.upAddr) {
				cmdset[c] = true
			}
		}
		return nil
	})
	if err != nil {
		t.Fatal(err)
	}
	var cmds []string
	for c := range cmdset {
		cmds = append(cmds, c)
	}
	if err := w.install(cmds); err != nil {
		// the harness could not express the routes: no verdict
		verifx.Emit(map[string]any{"kind": "error", "msg": "route table rejected: " + err.Error()})
		verifx.Summary(map[string]any{"cases": 0, "errors": 1, "table_error": err.Error()})
		return
	}

	var ran, nontrivial, distinct, skippedV6 int64
	var dedup sync.Map
	var quiet []int64 // ids of cases in which no upstream may be contacted
	var quietMu sync.Mutex
	var samples []string
	var sampleMu sync.Mutex
	workers := runtime.NumCPU()
	if workers > 16 {
		workers = 16
	}
	if n := verifx.EnvInt("VERIF_WORKERS", 0); n > 0 {
		workers = n
	}

	var phaseList []string
	for p := range phases {
		phaseList = append(phaseList, p)
	}
	sort.Strings(phaseList)
	for _, phase := range phaseList {
		// the no-route page is process-wide state of package noroute: the cases are replayed in phases, one for
		// every fixed page, one for every set of pages the registry alternates between while requests are
		// answered, and one (one case at a time) for the histories of registry operations
		var stopFlip func()
		switch {
		case strings.HasPrefix(phase, "page:"):
			noroute.SetHTML(cvxPage(strings.TrimPrefix(phase, "page:")))
		case strings.HasPrefix(phase, "flip:"):
			stopFlip = cvxFlipper(strings.Split(strings.TrimPrefix(phase, "flip:"), ","))
		}
		groups := make(chan []*cvxJob, 256)
		var wg sync.WaitGroup
		for i := 0; i < workers; i++ {
			wg.Add(1)
			go func() {
				defer wg.Done()
				for g := range groups {
					for _, j := range g {
						if j.cs.Hits == 0 {
							quietMu.Lock()
							quiet = append(quiet, j.id)
							quietMu.Unlock()
						}
						var nt bool
						if p, stack := verifx.Safely(func() { nt = rn.exec(w, j) }); p != nil {
							verifx.Fail(j.cs, map[string]any{"clause": "panic"}, "panic in harness or proxy: %v\n%s", p, stack)
						}
						atomic.AddInt64(&ran, 1)
						if _, dup := dedup.LoadOrStore(j.raw, true); !dup {
							atomic.AddInt64(&distinct, 1)
							if nt {
								atomic.AddInt64(&nontrivial, 1)
							}
						}
						if j.id%997 == 5 || total < 50 {
							sampleMu.Lock()
							if len(samples) < 6 {
								samples = append(samples, rn.sample(j.cs))
							}
							sampleMu.Unlock()
						}
					}
				}
			}()
		}
		var n int64
		serialGroups := map[string][]*cvxJob{}
		err = verifx.EachCase("", func(raw []byte) error {
			n++
			cs, err := cvxDecode(raw)
			if err != nil {
				return err
			}
			if cvxPhase(cs) != phase {
				return nil
			}
			if cs.C.Together {
				cs.fresh = n
			}
			if cs.Att == nil {
				cs.Att = cvxDefaultAtt(n, seed)
			}
			j := &cvxJob{cs: cs, id: n, raw: verifx.Hash(raw)}
			// bring the proxies up before the parallel phase (see front())
			if w.front(cvxFrontKey(cs)) == nil {
				skippedV6++ // this machine has no ::1 to listen on: counted, not judged
				return nil
			}
			if phase == "pagehist" {
				serialGroups["pagehist"] = append(serialGroups["pagehist"], j)
				return nil
			}
			if rn.serial != nil {
				if k := rn.serial(cs); k != "" {
					serialGroups[k] = append(serialGroups[k], j)
					return nil
				}
			}
			groups <- []*cvxJob{j}
			return nil
		})
		for _, g := range serialGroups {
			groups <- g
		}
		close(groups)
		wg.Wait()
		if stopFlip != nil {
			stopFlip()
		}
		if err != nil {
			t.Fatal(err)
		}
	}

	// every response has long been received: an upstream contacted for a case that had to be
	// answered locally would have been recorded by now
	late := 0
	quietSet := map[int64]bool{}
	for _, id := range quiet {
		quietSet[id] = true
	}
	w.mu.Lock()
	for rid, s := range w.seen {
		if id := cvxCaseOf(rid); quietSet[id] {
			late++
			verifx.Fail(map[string]any{"id": id}, map[string]any{"clause": "upstream-contacted"},
				"case %d had to be answered without any upstream, but the upstream received %s %s", id, s.Method, s.RequestURI)
		}
	}
	w.mu.Unlock()
	verifx.Summary(map[string]any{"cases": total, "ran": ran, "distinct": distinct, "distinct_nontrivial": nontrivial,
		"routes": w.nroutes, "errors": atomic.LoadInt64(&w.errs), "retried_exchanges": atomic.LoadInt64(&w.retries),
		"samples": samples, "late_hits": late, "skipped_no_ipv6": skippedV6})
}
