package gzip

// C17 conformance: every behaviour TLC examined in spec/Gzip.tla (interleaved ops of one or two
// handlers, with the modes / headers / status the specification permits) is executed against the
// real NewGzipHandler behind a real HTTP server: the inner handler performs the scripted ops
// (two-handler behaviours in lockstep, in exactly the interleaving TLC chose) with seeded chunk
// contents, a real client receives the response, gunzips it where it is labelled gzip and
// compares bytes, headers and status.  Many behaviours run concurrently (and the test is built
// with -race) so that writers of the shared pool are reused across requests.

import (
	"encoding/json"
	"fmt"
	"io"
	"log"
	"net/http"
	"net/http/httptest"
	"regexp"
	"runtime/debug"
	"strings"
	"sync"
	"sync/atomic"
	"testing"
	"time"

	"github.com/fabiolb/fabio/internal/verifx"
)

// hang guard only; expiry makes the run inconclusive, never a verdict
var c17Guard = time.Duration(verifx.EnvInt("VERIF_C17_GUARD", 90)) * time.Second

type c17Session struct {
	plan     *verifx.C17Plan
	lockstep bool
	// abort is shared by the sessions of one behaviour: closed when the handler under test panicked
	// or the scheduler gave up, it releases every inner handler still held in lockstep
	abort chan struct{}
	once  *sync.Once
	step     chan struct{}
	ack      chan struct{}
}

type c17Result struct {
	panicked string
	status   int
	hdr    http.Header
	raw    []byte
	rerr   error
	err    error
}

type c17Env struct {
	srv      *httptest.Server
	client   *http.Client
	// lockstep behaviours: one connection per request.  With keep-alive a connection whose response
	// is complete for the client (Content-Length reached) is reused for the other handler's request
	// while the first inner handler is still held before its return - the server would not read it.
	clientNoKA *http.Client
	sessions sync.Map
	panics   sync.Map // session id -> panic value and stack of the handler under test
	seq      int64
	plumbing int64
}

func (e *c17Env) oracle(format string, a ...any) {
	atomic.AddInt64(&e.plumbing, 1)
	verifx.Emit(map[string]any{"kind": "oracle", "msg": fmt.Sprintf(format, a...)})
}

func (s *c17Session) kill() {
	if s.once != nil {
		s.once.Do(func() { close(s.abort) })
	}
}

// c17Wait waits for ch; it returns false when the behaviour was aborted or the guard time passed.
func c17Wait(ch chan struct{}, abort chan struct{}) bool {
	select {
	case <-ch:
		return true
	case <-abort:
		return false
	case <-time.After(c17Guard):
		return false
	}
}

func c17Aborted(abort chan struct{}) bool {
	select {
	case <-abort:
		return true
	default:
		return false
	}
}

func (e *c17Env) inner(w http.ResponseWriter, r *http.Request) {
	v, ok := e.sessions.Load(r.Header.Get("X-C17-Session"))
	if !ok {
		http.Error(w, "no session", 599)
		return
	}
	s := v.(*c17Session)
	if !s.lockstep {
		s.plan.Serve(w, nil)
		return
	}
	s.plan.Serve(w, func(int) {
		select {
		case s.ack <- struct{}{}: // arrived / previous op performed
		case <-s.abort:
			return
		}
		select {
		case <-s.step: // permission for the next op / for returning
		case <-s.abort:
		}
	})
}

// reference runs the plan's script free-running without the wrapper and returns the status.
func (e *c17Env) reference(p *verifx.C17Plan) (int, error) {
	id := fmt.Sprintf("r%d", atomic.AddInt64(&e.seq, 1))
	e.sessions.Store(id, &c17Session{plan: p})
	defer e.sessions.Delete(id)
	req, err := http.NewRequest(p.Method, e.srv.URL+"/ref/"+id, nil)
	if err != nil {
		return 0, err
	}
	req.Header.Set("X-C17-Session", id)
	p.SetRequest(req)
	resp, err := e.client.Do(req)
	if err != nil {
		return 0, err
	}
	io.Copy(io.Discard, resp.Body)
	resp.Body.Close()
	return resp.StatusCode, nil
}

func (e *c17Env) request(s *c17Session, id string) c17Result {
	req, err := http.NewRequest(s.plan.Method, e.srv.URL+"/"+id, nil)
	if err != nil {
		return c17Result{err: err}
	}
	req.Header.Set("X-C17-Session", id)
	s.plan.SetRequest(req)
	cl := e.client
	if s.lockstep {
		cl = e.clientNoKA
	}
	pan := func() string {
		if v, ok := e.panics.LoadAndDelete(id); ok {
			return v.(string)
		}
		return ""
	}
	resp, err := cl.Do(req)
	if err != nil {
		return c17Result{err: err, panicked: pan()}
	}
	raw, rerr := io.ReadAll(resp.Body)
	resp.Body.Close()
	return c17Result{status: resp.StatusCode, hdr: resp.Header, raw: raw, rerr: rerr, panicked: pan()}
}

// run executes one behaviour; it returns the results per handler index (nil = not started).
func (e *c17Env) run(b *verifx.C17Beh, n int64, big bool) ([]*verifx.C17Plan, []*c17Result, bool) {
	nh := len(b.Handlers)
	plans := make([]*verifx.C17Plan, nh)
	res := make([]*c17Result, nh)
	sess := make([]*c17Session, nh)
	done := make([]chan struct{}, nh)
	started := 0
	for i := range b.Handlers {
		if b.Handlers[i].Started {
			started++
		}
	}
	lockstep := started > 1
	abort, once := make(chan struct{}), &sync.Once{}
	ids := make([]string, nh)
	defer func() {
		once.Do(func() { close(abort) }) // releases whatever is still held
		for i := range done {
			if done[i] == nil {
				continue
			}
			select {
			case <-done[i]: // res[i] is written before done[i] is closed
			case <-time.After(c17Guard):
				plans[i] = nil // its result must not be read
			}
		}
		for _, id := range ids {
			if id != "" {
				e.sessions.Delete(id)
			}
		}
	}()
	begin := func(i int) bool {
		plans[i] = verifx.C17MakePlan(b, i, n, big)
		s := &c17Session{plan: plans[i], lockstep: lockstep, step: make(chan struct{}), ack: make(chan struct{}), abort: abort, once: once}
		sess[i] = s
		ids[i] = fmt.Sprintf("s%d", atomic.AddInt64(&e.seq, 1))
		e.sessions.Store(ids[i], s)
		done[i] = make(chan struct{})
		go func() {
			r := e.request(s, ids[i])
			res[i] = &r
			close(done[i])
		}()
		if lockstep && !c17Wait(s.ack, abort) {
			if !c17Aborted(abort) {
				e.oracle("handler %d never reached the inner handler", i+1)
			}
			return false
		}
		return true
	}
	finished := make([]bool, nh)
	finish := func(i int) bool {
		if lockstep {
			select {
			case sess[i].step <- struct{}{}:
			case <-abort:
			case <-time.After(c17Guard):
				e.oracle("handler %d does not take the permission to return", i+1)
				return false
			}
		}
		select {
		case <-done[i]:
		case <-time.After(c17Guard):
			e.oracle("client of handler %d got no complete response within the guard time", i+1)
			return false
		}
		if c17Aborted(abort) {
			return false
		}
		finished[i] = true
		return true
	}
	if !lockstep {
		for i := range b.Handlers {
			if b.Handlers[i].Started {
				if !begin(i) || !finish(i) {
					return plans, res, false
				}
			}
		}
		return plans, res, true
	}
	for _, ev := range b.Hist {
		i := ev.H - 1
		if i < 0 || i >= nh {
			e.oracle("event for unknown handler %d", ev.H)
			return plans, res, false
		}
		switch ev.Ev {
		case "begin":
			if !begin(i) {
				return plans, res, false
			}
		case "wh", "w", "fl", "hj":
			select {
			case sess[i].step <- struct{}{}:
			case <-abort:
				return plans, res, false
			case <-time.After(c17Guard):
				e.oracle("handler %d does not take the permission for %s", i+1, ev.Ev)
				return plans, res, false
			}
			if !c17Wait(sess[i].ack, abort) {
				if !c17Aborted(abort) {
					e.oracle("handler %d did not complete %s", i+1, ev.Ev)
				}
				return plans, res, false
			}
		case "ab":
			// permission for the abort; the handler panics, its client sees the cut response
			select {
			case sess[i].step <- struct{}{}:
			case <-abort:
				return plans, res, false
			case <-time.After(c17Guard):
				e.oracle("handler %d does not take the permission to abort", i+1)
				return plans, res, false
			}
			select {
			case <-done[i]:
				finished[i] = true
			case <-time.After(c17Guard):
				e.oracle("client of the aborted handler %d saw no end of the response within the guard time", i+1)
				return plans, res, false
			}
		case "finish":
			if !finish(i) {
				return plans, res, false
			}
		}
	}
	for i := range b.Handlers {
		if b.Handlers[i].Started && !finished[i] {
			if !finish(i) {
				return plans, res, false
			}
		}
	}
	return plans, res, true
}

func TestVerifC17(t *testing.T) {
	env := &c17Env{}
	under := NewGzipHandler(http.HandlerFunc(env.inner), regexp.MustCompile(verifx.C17ContentTypes))
	// a panic of the handler under test (the scripted inner handler cannot panic) is recorded for the
	// session, so that "the connection was cut" is attributed to the real code and not to the harness
	env.srv = httptest.NewUnstartedServer(http.HandlerFunc(func(w http.ResponseWriter, r *http.Request) {
		defer func() {
			if p := recover(); p != nil {
				id := r.Header.Get("X-C17-Session")
				v, ok := env.sessions.Load(id)
				if ok && p == http.ErrAbortHandler && v.(*c17Session).plan.H.Aborted {
					panic(p) // the scripted abort of the inner handler, passed on by the handler under test
				}
				env.panics.Store(id, fmt.Sprintf("%v\n%s", p, debug.Stack()))
				if ok {
					v.(*c17Session).kill()
				}
				panic(http.ErrAbortHandler)
			}
		}()
		if v, ok := env.sessions.Load(r.Header.Get("X-C17-Session")); ok && v.(*c17Session).plan.HasOp("hj") {
			// a writer that HAS a Hijack method and refuses (as fabio's own responseWriter over a connection that
			// cannot be taken over)
			w = verifx.C17NoHijack{ResponseWriter: w}
		}
		if strings.HasPrefix(r.URL.Path, "/ref/") {
			env.inner(w, r) // reference: the same scripted handler WITHOUT the gzip wrapper
			return
		}
		under.ServeHTTP(w, r)
	}))
	env.srv.Config.ErrorLog = log.New(io.Discard, "", 0) // "superfluous WriteHeader" notes of net/http
	env.srv.Start()
	defer env.srv.Close()
	env.client = &http.Client{Transport: &http.Transport{DisableCompression: true, MaxIdleConnsPerHost: 64, MaxIdleConns: 256},
		Timeout: c17Guard}
	env.clientNoKA = &http.Client{Transport: &http.Transport{DisableCompression: true, DisableKeepAlives: true}, Timeout: 4 * c17Guard}
	big := verifx.EnvInt("VERIF_C17_BIG", 1) == 1
	workers := verifx.EnvInt("VERIF_C17_WORKERS", 32)

	var behs, handlers, gz, plain, two, nontrivial, bytesIn, bigChunks, refs, aborted int64
	var sampleMu sync.Mutex
	var samples []string
	type job struct {
		raw []byte
	}
	jobs := make(chan job, 256)
	var wg sync.WaitGroup
	for w := 0; w < workers; w++ {
		wg.Add(1)
		go func() {
			defer wg.Done()
			for j := range jobs {
				var b verifx.C17Beh
				if err := json.Unmarshal(j.raw, &b); err != nil {
					env.oracle("bad behaviour: %v", err)
					continue
				}
				n := b.N
				if n == 0 {
					n = int64((verifx.Hash(j.raw)^uint64(verifx.Seed())*0x9e3779b97f4a7c15)>>1) | 1
				}
				plans, res, ok := env.run(&b, n, big)
				if !ok {
					// not executed as scheduled; a recorded panic of the handler under test is still a verdict
					for i, p := range plans {
						if p == nil || res[i] == nil {
							continue
						}
						if msg := res[i].panicked; msg != "" {
							bb := b
							bb.N, bb.Via = n, "gzip"
							verifx.Fail(bb, p.Features("gzip", "handler-panic"), "handler %d of %d: the gzip handler panicked: %s\n  %s", i+1, len(plans), msg, p.Describe())
						}
					}
					continue
				}
				atomic.AddInt64(&behs, 1)
				started := 0
				for i, p := range plans {
					if p == nil || res[i] == nil {
						continue
					}
					started++
					atomic.AddInt64(&handlers, 1)
					atomic.AddInt64(&bytesIn, int64(len(p.Inner)))
					for _, c := range p.Chunks {
						if len(c) >= 65536 {
							atomic.AddInt64(&bigChunks, 1)
						}
					}
					r := res[i]
					if r.panicked != "" {
						bb := b
						bb.N, bb.Via = n, "gzip"
						verifx.Fail(bb, p.Features("gzip", "handler-panic"), "handler %d of %d: the gzip handler panicked: %s\n  %s", i+1, len(plans), r.panicked, p.Describe())
						continue
					}
					if p.H.Aborted {
						atomic.AddInt64(&aborted, 1)
						continue // nothing is required of a response its handler gave up on
					}
					if r.err != nil {
						env.oracle("handler %d: request failed before a response arrived: %v (%s)", i+1, r.err, p.Describe())
						continue
					}
					if p.NeedsReference() {
						ref, err := env.reference(p)
						if err != nil {
							env.oracle("handler %d: reference run failed: %v (%s)", i+1, err, p.Describe())
							continue
						}
						atomic.AddInt64(&refs, 1)
						want := p.H.Status
						for _, a := range p.H.Alts {
							if a.Flush { // net/http's own writer flushes
								want = a.Status
							}
						}
						if ref != want {
							env.oracle("handler %d: net/http delivers status %d for the unwrapped script, the specification says %d (%s)", i+1, ref, want, p.Describe())
							continue
						}
						p.RefStatus = ref
					}
					faults, mode := p.Judge(r.status, r.hdr, r.raw, r.rerr)
					if mode == "gzip" {
						atomic.AddInt64(&gz, 1)
						if len(p.Chunks) >= 2 {
							atomic.AddInt64(&nontrivial, 1)
						}
					} else {
						atomic.AddInt64(&plain, 1)
					}
					for _, f := range faults {
						bb := b
						bb.N, bb.Via = n, "gzip"
						verifx.Fail(bb, p.Features("gzip", f.Clause), "handler %d of %d: %s\n  %s", i+1, len(plans), f.Msg, p.Describe())
					}
				}
				if started > 1 {
					atomic.AddInt64(&two, 1)
				}
				if n%997 == 3 {
					sampleMu.Lock()
					if len(samples) < 4 {
						var ds []string
						for _, p := range plans {
							if p != nil {
								ds = append(ds, p.Describe())
							}
						}
						samples = append(samples, strings.Join(ds, " || "))
					}
					sampleMu.Unlock()
				}
			}
		}()
	}
	var n int64
	err := verifx.EachCase("", func(raw []byte) error {
		n++
		jobs <- job{append([]byte(nil), raw...)}
		return nil
	})
	close(jobs)
	wg.Wait()
	if err != nil {
		t.Fatal(err)
	}
	verifx.Summary(map[string]any{"behaviours": n, "ran": behs, "handlers": handlers, "gzip_mode": gz, "plain_mode": plain,
		"two_handler_behaviours": two, "distinct_nontrivial": nontrivial, "inner_bytes": bytesIn, "chunks_64k_plus": bigChunks, "reference_runs": refs, "aborted_responses": aborted,
		"plumbing": atomic.LoadInt64(&env.plumbing), "samples": samples})
}
