package proxy

// C12 conformance, end to end over HTTP: the cases TLC enumerated from spec/Access.tla are sent
// by a real client (source address chosen on loopback) through a real HTTPProxy whose routes
// were built by route.NewTable and whose AuthSchemes come from auth.LoadAuthSchemes; the status
// the client sees and the hit counter of the instrumented upstream are compared with the gate
// outcomes the specification permits.  A denied request must leave the upstream untouched.

import (
	"bytes"
	"encoding/json"
	"fmt"
	"io"
	"log"
	"net"
	"net/http"
	"net/http/httptest"
	"os"
	"strings"
	"sync"
	"sync/atomic"
	"testing"
	"time"

	"github.com/fabiolb/fabio/auth"
	"github.com/fabiolb/fabio/config"
	"github.com/fabiolb/fabio/internal/verifx"
	"github.com/fabiolb/fabio/route"
)

type c12HTTPEnv struct {
	hits     sync.Map // request id -> *int64
	upstream *httptest.Server
	front    map[string]string // family ("4", "6", "ll") -> base URL of the proxy listener
	clients  sync.Map          // source address -> *http.Client
	routes   map[string]int    // conc|cfgkey -> route index
	seq      int64
}

func (e *c12HTTPEnv) client(src string) *http.Client {
	if c, ok := e.clients.Load(src); ok {
		return c.(*http.Client)
	}
	zone := ""
	ipS := src
	if i := strings.IndexByte(src, '%'); i >= 0 {
		ipS, zone = src[:i], src[i+1:]
	}
	d := &net.Dialer{LocalAddr: &net.TCPAddr{IP: net.ParseIP(ipS), Zone: zone}, Timeout: 20 * time.Second}
	c := &http.Client{
		Transport:     &http.Transport{DialContext: d.DialContext, MaxIdleConnsPerHost: 8, DisableCompression: true},
		CheckRedirect: func(*http.Request, []*http.Request) error { return http.ErrUseLastResponse },
		Timeout:       60 * time.Second,
	}
	act, _ := e.clients.LoadOrStore(src, c)
	return act.(*http.Client)
}

// do sends one request of the case and returns (status, upstream hits for this request).
func (e *c12HTTPEnv) do(cc *verifx.C12Conc, c *verifx.C12Case, fam, style string, strip, noFill bool, k int) (int, int64, error) {
	id := fmt.Sprintf("q%d", atomic.AddInt64(&e.seq, 1))
	cnt := new(int64)
	e.hits.Store(id, cnt)
	defer e.hits.Delete(id)
	idx := e.routes[cc.Name+"|"+c.CfgKey()]
	req, err := http.NewRequest("GET", fmt.Sprintf("%s/c12/%d/%s", e.front[fam], idx, id), nil)
	if err != nil {
		return 0, 0, err
	}
	chain := c.Chain()
	if noFill {
		chain = c.Xff
	}
	cc.SetXFF(req.Header, chain, style, strip)
	verifx.C12SetCreds(req, c.Creds, k)
	resp, err := e.client(cc.Addr[c.Peer]).Do(req)
	if err != nil {
		return 0, 0, err
	}
	io.Copy(io.Discard, resp.Body)
	resp.Body.Close()
	// the proxy answers only after its (synchronous) round trip to the upstream, so the counter is final
	return resp.StatusCode, atomic.LoadInt64(cnt), nil
}

func c12Family(cc *verifx.C12Conc, peer string) string {
	a := cc.Addr[peer]
	switch {
	case strings.Contains(a, "%"):
		return "ll"
	case strings.Contains(a, ":"):
		return "6"
	}
	return "4"
}

func TestVerifC12HTTP(t *testing.T) {
	log.SetOutput(io.Discard) // fabio logs every rule comparison; the verdicts do not depend on it

	loop, ll := verifx.C12Loop, verifx.C12LinkLocal()
	for _, cc := range []*verifx.C12Conc{loop, ll} {
		if cc == nil {
			continue
		}
		if err := cc.CheckConc(); err != nil {
			verifx.Emit(map[string]any{"kind": "oracle", "msg": err.Error()})
			verifx.Summary(map[string]any{"cases": 0})
			return
		}
	}
	cases, err := verifx.ReadCases[verifx.C12Case]("")
	if err != nil {
		t.Fatal(err)
	}
	concOf := func(c *verifx.C12Case) *verifx.C12Conc {
		if c.Conc != "" {
			return verifx.C12ConcByName(c.Conc)
		}
		switch c.Peer {
		case "out6", "inCn":
			return nil // no such source address on this host
		case "zoneC":
			return ll
		}
		return loop
	}

	env := &c12HTTPEnv{front: map[string]string{}, routes: map[string]int{}}
	env.upstream = httptest.NewServer(http.HandlerFunc(func(w http.ResponseWriter, r *http.Request) {
		id := r.URL.Path[strings.LastIndexByte(r.URL.Path, '/')+1:]
		if c, ok := env.hits.Load(id); ok {
			atomic.AddInt64(c.(*int64), 1)
		}
		io.WriteString(w, "upstream "+id)
	}))
	defer env.upstream.Close()

	// the routing table: one route per (concretisation, rule configuration, scheme), built by the real parser
	var text bytes.Buffer
	for i := range cases {
		c := &cases[i]
		cc := concOf(c)
		if c.Proto != "http" || cc == nil {
			continue
		}
		key := cc.Name + "|" + c.CfgKey()
		if _, ok := env.routes[key]; ok {
			continue
		}
		idx := len(env.routes) + 1
		env.routes[key] = idx
		fmt.Fprintf(&text, "route add c12-%d /c12/%d/ %s/", idx, idx, env.upstream.URL)
		if o := cc.CaseOpts(c, true); o != "" {
			fmt.Fprintf(&text, " opts %q", o)
		}
		text.WriteString("\n")
	}
	tbl, err := route.NewTable(&text)
	if err != nil {
		t.Fatalf("NewTable: %v", err)
	}
	htp, err := verifx.C12WriteHtpasswd(os.Getenv("VERIF_TMP"))
	if err != nil {
		t.Fatal(err)
	}
	schemes, err := auth.LoadAuthSchemes(map[string]config.AuthScheme{
		"basic1": {Name: "basic1", Type: "basic", Basic: config.BasicAuth{File: htp, Realm: verifx.C12Realm}}})
	if err != nil {
		t.Fatal(err)
	}
	gc := route.NewGlobCache(64)
	px := &HTTPProxy{
		Config:    config.Proxy{},
		Transport: &http.Transport{MaxIdleConnsPerHost: 64, DisableCompression: true},
		Lookup: func(r *http.Request) *route.Target {
			return tbl.Lookup(r, "", route.Picker["rr"], route.Matcher["prefix"], gc, true)
		},
		AuthSchemes: schemes,
	}
	listen := func(fam, addr string) {
		l, err := net.Listen("tcp", addr)
		if err != nil {
			verifx.Emit(map[string]any{"kind": "note", "msg": "cannot listen on " + addr + ": " + err.Error()})
			return
		}
		s := httptest.NewUnstartedServer(px)
		s.Listener.Close()
		s.Listener = l
		s.Start()
		t.Cleanup(s.Close)
		env.front[fam] = s.URL
	}
	listen("4", "127.0.0.1:0")
	listen("6", "[::1]:0")
	if ll != nil {
		listen("ll", net.JoinHostPort(ll.Addr["zoneC"], "0"))
	}

	var redirected int64
	var ran, reqs, skipped, forwarded, denied, zonedPeers, nontrivial, plumbing int64
	var sampleMu sync.Mutex
	var samples []string
	status2outcome := map[int]string{200: "forward", 301: "redirect", 403: "deny403", 401: "deny401"}

	runOne := func(c *verifx.C12Case, n int64) {
		cc := concOf(c)
		if c.Proto != "http" {
			return
		}
		if cc == nil {
			atomic.AddInt64(&skipped, 1)
			return
		}
		fam := c12Family(cc, c.Peer)
		if env.front[fam] == "" {
			atomic.AddInt64(&skipped, 1)
			return
		}
		if may, must, err := cc.Referee(c); err != nil || may != c.May || must != c.Must {
			atomic.AddInt64(&plumbing, 1)
			verifx.Emit(map[string]any{"kind": "oracle", "msg": fmt.Sprintf("referee (%s) may=%v must=%v err=%v vs specification may=%v must=%v: %+v", cc.Name, may, must, err, c.May, c.Must, *c)})
			return
		}
		styles := []string{verifx.C12XffStyles[int(n%2)]}
		if n := len(c.Chain()); n >= 2 {
			styles = append(styles, "lines")
			if n > 7 {
				styles = append(styles, "mixed")
			}
		}
		if c.XffStyle != "" {
			styles = []string{c.XffStyle}
		}
		for _, style := range styles {
			status, hits, err := env.do(cc, c, fam, style, false, false, int(n%4))
			atomic.AddInt64(&reqs, 1)
			cc2 := *c
			cc2.Conc, cc2.XffStyle, cc2.N = cc.Name, style, n
			desc := fmt.Sprintf("opts %q, client %s, X-Forwarded-For %s (%s), credentials %s", cc.CaseOpts(c, true), cc.Addr[c.Peer], c.ChainText(cc), style, c.Creds)
			if err != nil {
				atomic.AddInt64(&plumbing, 1)
				verifx.Emit(map[string]any{"kind": "oracle", "msg": desc + ": request failed: " + err.Error()})
				continue
			}
			out, known := status2outcome[status]
			rulesCause := "rules:" + c.CfgClass()
			switch {
			case !known && status == 404 && !verifx.C12OtherValid[c.Other]:
				continue // a target with a malformed other option may be refused as a whole: no route
			case !known && (status == 502 || status == 503 || status == 504 || status == 404):
				// the proxy could not reach the harness's upstream, or the route was not found: trouble of
				// the environment / the harness, not a decision of the gate
				atomic.AddInt64(&plumbing, 1)
				verifx.Emit(map[string]any{"kind": "oracle", "msg": fmt.Sprintf("%s: status %d", desc, status)})
				continue
			case !known:
				verifx.Fail(cc2, c.Features("http", "unexpected-status", rulesCause), "%s: status %d (upstream hits %d)", desc, status, hits)
				continue
			case out == "redirect" && !c.Auth:
				verifx.Fail(cc2, c.Features("http", "redirected-must-not", "scheme:"+c.Scheme+"/creds:"+c.Creds),
					"%s: status %d (the new location) although the credentials are not accepted by scheme %q - the client must be told 401", desc, status, c.Scheme)
			case out == "redirect" && !c.May:
				verifx.Fail(cc2, c.Features("http", "redirected-must-deny", rulesCause),
					"%s: status %d (the new location) although the well-formed part of the rules does not admit the request - the client must be told 403", desc, status)
			case out == "forward" && !c.May:
				cause := c.Cause(style, func(st string, strip, noFill bool) (bool, bool) {
					if strip && strings.Contains(cc.Addr[c.Peer], "%") {
						return false, false
					}
					s, _, err := env.do(cc, c, fam, st, strip, noFill, int(n%4))
					atomic.AddInt64(&reqs, 1)
					return s == 403, err == nil
				})
				verifx.Fail(cc2, c.Features("http", "admitted-must-deny", cause),
					"%s: status 200 and the upstream was hit %d time(s), but the well-formed part of the rules does not admit the request [cause: %s]", desc, hits, cause)
			case out == "forward" && !c.Auth:
				verifx.Fail(cc2, c.Features("http", "authorized-must-not", "scheme:"+c.Scheme+"/creds:"+c.Creds),
					"%s: status 200 (upstream hits %d) although the credentials are not accepted by scheme %q", desc, hits, c.Scheme)
			case out == "deny403" && c.Must:
				verifx.Fail(cc2, c.Features("http", "denied-must-admit", rulesCause), "%s: status 403 although the rules admit the request", desc)
			case out == "deny401" && c.Auth:
				verifx.Fail(cc2, c.Features("http", "unauthorized-must", "scheme:"+c.Scheme+"/creds:"+c.Creds), "%s: status 401 although the credentials are good", desc)
			case !c.Allowed(out):
				verifx.Fail(cc2, c.Features("http", "outcome-not-permitted", rulesCause), "%s: outcome %s, the specification permits %v", desc, out, c.Outcomes)
			}
			// the upstream is touched by a forwarded request only, and exactly once
			if out == "forward" {
				atomic.AddInt64(&forwarded, 1)
				if hits != 1 {
					verifx.Fail(cc2, c.Features("http", "forwarded-hit-count", rulesCause), "%s: status 200 but the upstream counted %d hits", desc, hits)
				}
			} else {
				if out == "redirect" {
					atomic.AddInt64(&redirected, 1)
				} else {
					atomic.AddInt64(&denied, 1)
				}
				if hits != 0 {
					verifx.Fail(cc2, c.Features("http", "denied-but-upstream-contacted", rulesCause), "%s: status %d but the upstream was contacted %d time(s)", desc, status, hits)
				}
			}
		}
		atomic.AddInt64(&ran, 1)
		if fam == "ll" {
			atomic.AddInt64(&zonedPeers, 1)
		}
		if len(c.Allow)+len(c.Deny) > 0 && (len(c.Chain()) > 0 || c.Scheme != "") {
			atomic.AddInt64(&nontrivial, 1)
		}
		if n%1201 == 5 {
			sampleMu.Lock()
			if len(samples) < 3 {
				samples = append(samples, fmt.Sprintf("HTTP opts %q from %s xff %s creds %s -> %v", cc.CaseOpts(c, true), cc.Addr[c.Peer], c.ChainText(cc), c.Creds, c.Outcomes))
			}
			sampleMu.Unlock()
		}
	}

	jobs := make(chan int, 256)
	var wg sync.WaitGroup
	for w := 0; w < 12; w++ {
		wg.Add(1)
		go func() {
			defer wg.Done()
			for i := range jobs {
				runOne(&cases[i], cases[i].Num())
			}
		}()
	}
	for i := range cases {
		jobs <- i
	}
	close(jobs)
	wg.Wait()
	b, _ := json.Marshal(env.front)
	verifx.Summary(map[string]any{"cases": len(cases), "ran": ran, "requests": reqs, "skipped_no_source_address": skipped,
		"forwarded": forwarded, "redirected": redirected, "denied": denied, "zoned_peer_cases": zonedPeers, "routes": len(env.routes),
		"distinct_nontrivial": nontrivial, "listeners": string(b), "samples": samples, "plumbing": plumbing})
}
