package tcp

// C12 conformance, routes with several targets carrying different access rules (spec/AccessMulti.tla),
// end to end over TCP: each case is a ':port' (and SNI host) route with two targets (own rules each,
// instance up or down) built by route.NewTable; a real client connects several times through the real
// tcp.Proxy / DynamicProxy / SNIProxy.  Each instrumented upstream counts the connections it accepted
// (sentinel barrier): a connection may only ever reach an instance whose OWN rules admit the peer.

import (
	"bytes"
	"crypto/tls"
	"fmt"
	"io"
	"log"
	"net"
	"strings"
	"sync/atomic"
	"testing"
	"time"

	"github.com/fabiolb/fabio/internal/verifx"
	"github.com/fabiolb/fabio/route"
)

func TestVerifC12MultiTCP(t *testing.T) {
	log.SetOutput(io.Discard)
	loop, ll := verifx.C12Loop, verifx.C12LinkLocal()
	cases, err := verifx.ReadCases[verifx.C12Multi]("")
	if err != nil {
		t.Fatal(err)
	}
	var plumbing int64
	oracle := func(format string, a ...any) {
		plumbing++
		verifx.Emit(map[string]any{"kind": "oracle", "msg": fmt.Sprintf(format, a...)})
	}
	var ups [2]*c12Upstream
	var down [2]string
	for k := range ups {
		if ups[k], err = c12NewUpstream(); err != nil {
			t.Fatal(err)
		}
		defer ups[k].l.Close()
		// bound for the length of the test, never listening: refused, and no other process can be given the port
		a, release, err := verifx.C12DownAddr()
		if err != nil {
			t.Fatal(err)
		}
		defer release()
		down[k] = a
	}
	var cur atomic.Pointer[route.Table]
	lookup := func(host string) *route.Target {
		tb := cur.Load()
		if tb == nil {
			return nil
		}
		return tb.LookupHost(host, route.Picker["rr"])
	}
	var fronts []*c12Front
	famAddr := map[string]string{"4": "127.0.0.1:0", "6": "[::1]:0"}
	if ll != nil {
		famAddr["ll"] = net.JoinHostPort(ll.Addr["zoneC"], "0")
	}
	for _, kind := range []string{"tcp", "dynamic", "sni"} {
		for fam, addr := range famAddr {
			l, err := net.Listen("tcp", addr)
			if err != nil {
				continue
			}
			var h Handler
			switch kind {
			case "tcp":
				h = &Proxy{DialTimeout: 20 * time.Second, Lookup: lookup}
			case "dynamic":
				h = &DynamicProxy{DialTimeout: 20 * time.Second, Lookup: lookup}
			case "sni":
				h = &SNIProxy{DialTimeout: 20 * time.Second, Lookup: lookup}
			}
			f := &c12Front{kind: kind, fam: fam, l: l, srv: &Server{Handler: h}}
			go f.srv.Serve(l)
			fronts = append(fronts, f)
		}
	}
	defer func() {
		for _, f := range fronts {
			f.srv.Close()
		}
	}()
	tables := map[string]*route.Table{}
	tableFor := func(cc *verifx.C12Conc, c *verifx.C12Multi) (*route.Table, error) {
		key := cc.Name + "|" + c.Key()
		if tb, ok := tables[key]; ok {
			return tb, nil
		}
		var text bytes.Buffer
		for k, tr := range []verifx.C12Rules{c.T1, c.T2} {
			addr := ups[k].l.Addr().String()
			if (k == 0 && !c.Up1) || (k == 1 && !c.Up2) {
				addr = down[k]
			}
			opts := ""
			if o := cc.Opts(tr.Allow, tr.Deny, ""); o != "" {
				opts = fmt.Sprintf(" opts %q", o)
			}
			for _, f := range fronts {
				if f.kind == "sni" {
					continue
				}
				_, port, _ := net.SplitHostPort(f.l.Addr().String())
				fmt.Fprintf(&text, "route add m%d :%s tcp://%s%s\n", k+1, port, addr, opts)
			}
			fmt.Fprintf(&text, "route add m%d %s/ tcp://%s%s\n", k+1, c12SNIName, addr, opts)
		}
		tb, err := route.NewTable(&text)
		if err != nil {
			return nil, err
		}
		tables[key] = &tb
		return &tb, nil
	}
	barriers := func() (n [2]int64, err error) {
		for k := range ups {
			if n[k], err = ups[k].barrier(); err != nil {
				return n, err
			}
		}
		return n, nil
	}

	var ran, conns, skipped, nontrivial, closed int64
	var served [2]int64
	var samples []string
	for i := range cases {
		c := &cases[i]
		if c.Proto != "tcp" {
			continue
		}
		var cc *verifx.C12Conc
		switch {
		case c.Conc != "":
			cc = verifx.C12ConcByName(c.Conc)
		case c.Peer == "out6" || c.Peer == "inCn":
			cc = nil
		case c.Peer == "zoneC":
			cc = ll
		default:
			cc = loop
		}
		if cc == nil {
			skipped++
			continue
		}
		src := cc.Addr[c.Peer]
		fam := "4"
		if strings.Contains(src, "%") {
			fam = "ll"
		} else if strings.Contains(src, ":") {
			fam = "6"
		}
		if err := cc.RefereeMulti(c); err != nil {
			oracle("%v: %+v", err, *c)
			continue
		}
		tb, err := tableFor(cc, c)
		if err != nil {
			cc2 := *c
			cc2.Conc = cc.Name
			verifx.Fail(cc2, c.Features("multi-tcp", "route-rejected"), "NewTable: %v", err)
			continue
		}
		cur.Store(tb)
		kinds := []string{"tcp", "dynamic", "sni"}
		if c.Variant != "" {
			kinds = []string{c.Variant}
		}
		for _, kind := range kinds {
			var f *c12Front
			for _, x := range fronts {
				if x.kind == kind && x.fam == fam {
					f = x
				}
			}
			if f == nil {
				skipped++
				continue
			}
			for rep := 0; rep < 4; rep++ {
				n0, err := barriers()
				if err != nil {
					oracle("barrier: %v", err)
					break
				}
				zone, ipS := "", src
				if j := strings.IndexByte(src, '%'); j >= 0 {
					ipS, zone = src[:j], src[j+1:]
				}
				d := net.Dialer{LocalAddr: &net.TCPAddr{IP: net.ParseIP(ipS), Zone: zone}, Timeout: 20 * time.Second}
				conn, err := d.Dial("tcp", f.l.Addr().String())
				if err != nil {
					oracle("dial %s from %s: %v", f.l.Addr(), src, err)
					break
				}
				conns++
				conn.SetDeadline(time.Now().Add(30 * time.Second))
				timedOut := false
				answered := false
				if kind == "sni" {
					tc := tls.Client(conn, &tls.Config{ServerName: c12SNIName, InsecureSkipVerify: true})
					if ne, ok := tc.Handshake().(net.Error); ok && ne.Timeout() {
						timedOut = true
					}
				} else {
					id := fmt.Sprintf("%d-%s-%d", i, kind, rep)
					io.WriteString(conn, "case "+id+"\n")
					b, err := io.ReadAll(conn)
					if ne, ok := err.(net.Error); ok && ne.Timeout() {
						timedOut = true
					}
					answered = strings.HasPrefix(string(b), "ok "+id)
				}
				conn.Close()
				if timedOut {
					oracle("%s proxy, client %s: no end of stream within 30 s", kind, src)
					break
				}
				n1, err := barriers()
				if err != nil {
					oracle("barrier: %v", err)
					break
				}
				made := [2]int64{n1[0] - n0[0] - 1, n1[1] - n0[1] - 1}
				cc2 := *c
				cc2.Conc, cc2.Variant = cc.Name, kind
				desc := fmt.Sprintf("%s proxy, %s (connection %d of 4)", kind, c.Text(cc), rep+1)
				out := "closed"
				switch {
				case made[0] == 1 && made[1] == 0:
					out = "served1"
					served[0]++
				case made[1] == 1 && made[0] == 0:
					out = "served2"
					served[1]++
				case made[0] == 0 && made[1] == 0:
					closed++
				default:
					verifx.Fail(cc2, c.Features("multi-tcp-"+kind, "upstream-connection-count"), "%s: instances accepted %d / %d connections for one client connection", desc, made[0], made[1])
					continue
				}
				switch {
				case out == "closed" && !(c.Allowed("deny") || c.Allowed("fail")):
					verifx.Fail(cc2, c.Features("multi-tcp-"+kind, "denied-must-admit"), "%s: connection closed, no instance reached, although both targets admit the peer and both instances are up", desc)
				case out != "closed" && !c.Allowed(out):
					clause := "outcome-not-permitted"
					if (out == "served1" && !c.May1) || (out == "served2" && !c.May2) {
						clause = "served-by-target-whose-rules-deny"
					}
					verifx.Fail(cc2, c.Features("multi-tcp-"+kind, clause), "%s: instance %s accepted the connection (client answered=%v); the specification permits %v", desc, out[len(out)-1:], answered, c.Outcomes)
				}
			}
		}
		ran++
		if c.May1 != c.May2 {
			nontrivial++
		}
		if len(samples) < 2 && i%211 == 5 {
			samples = append(samples, "multi-target TCP: "+c.Text(cc)+fmt.Sprintf(" -> %v", c.Outcomes))
		}
	}
	verifx.Summary(map[string]any{"cases": len(cases), "ran": ran, "connections": conns, "skipped_no_source_address": skipped,
		"served1": served[0], "served2": served[1], "closed": closed, "distinct_nontrivial": nontrivial, "listeners": len(fronts),
		"samples": samples, "plumbing": plumbing})
}
