package tcp

// C12 conformance, end to end over TCP: the TCP cases TLC enumerated from spec/Access.tla are
// played by a real client (source address chosen on loopback) against the real tcp.Proxy,
// tcp.DynamicProxy and tcp.SNIProxy served by the real tcp.Server; the route comes from
// route.NewTable.  Observed: whether the client's connection is closed without an answer and
// how many connections the instrumented upstream accepted for the case (a sentinel connection
// made by the harness afterwards is the causal barrier: the accept queue is FIFO).

import (
	"log"
	"bytes"
	"crypto/tls"
	"fmt"
	"io"
	"net"
	"strings"
	"sync/atomic"
	"testing"
	"time"

	"github.com/fabiolb/fabio/internal/verifx"
	"github.com/fabiolb/fabio/route"
)

const c12SNIName = "c12.test"

type c12Upstream struct {
	l        net.Listener
	accepted int64
}

func c12NewUpstream() (*c12Upstream, error) {
	l, err := net.Listen("tcp", "127.0.0.1:0")
	if err != nil {
		return nil, err
	}
	u := &c12Upstream{l: l}
	go func() {
		for {
			c, err := l.Accept()
			if err != nil {
				return
			}
			atomic.AddInt64(&u.accepted, 1)
			go func() {
				defer c.Close()
				c.SetDeadline(time.Now().Add(30 * time.Second))
				buf := make([]byte, 256)
				n, _ := c.Read(buf)
				s := string(buf[:n])
				switch {
				case strings.HasPrefix(s, "case "):
					io.WriteString(c, "ok "+strings.TrimSpace(s[5:])+"\n")
				case strings.HasPrefix(s, "sentinel"):
					io.WriteString(c, "sentinel-ack\n")
				}
			}()
		}
	}()
	return u, nil
}

// barrier returns the number of connections accepted so far, after every connection made to the
// upstream before the call has been accepted.
func (u *c12Upstream) barrier() (int64, error) {
	c, err := net.DialTimeout("tcp", u.l.Addr().String(), 20*time.Second)
	if err != nil {
		return 0, err
	}
	defer c.Close()
	c.SetDeadline(time.Now().Add(30 * time.Second))
	io.WriteString(c, "sentinel\n")
	b, err := io.ReadAll(c)
	if err != nil || !strings.HasPrefix(string(b), "sentinel-ack") {
		return 0, fmt.Errorf("sentinel not acknowledged: %q %v", b, err)
	}
	return atomic.LoadInt64(&u.accepted), nil
}

type c12Front struct {
	kind, fam string
	l         net.Listener
	srv       *Server
}

func TestVerifC12TCP(t *testing.T) {
	log.SetOutput(io.Discard) // fabio logs every rule comparison; the verdicts do not depend on it

	loop, ll := verifx.C12Loop, verifx.C12LinkLocal()
	for _, cc := range []*verifx.C12Conc{loop, ll} {
		if cc == nil {
			continue
		}
		if err := cc.CheckConc(); err != nil {
			verifx.Emit(map[string]any{"kind": "oracle", "msg": err.Error()})
			verifx.Summary(map[string]any{"cases": 0})
			return
		}
	}
	cases, err := verifx.ReadCases[verifx.C12Case]("")
	if err != nil {
		t.Fatal(err)
	}
	up, err := c12NewUpstream()
	if err != nil {
		t.Fatal(err)
	}
	defer up.l.Close()

	var cur atomic.Pointer[route.Table]
	lookup := func(host string) *route.Target {
		tb := cur.Load()
		if tb == nil {
			return nil
		}
		return tb.LookupHost(host, route.Picker["rr"])
	}
	var fronts []*c12Front
	famAddr := map[string]string{"4": "127.0.0.1:0", "6": "[::1]:0"}
	if ll != nil {
		famAddr["ll"] = net.JoinHostPort(ll.Addr["zoneC"], "0")
	}
	for _, kind := range []string{"tcp", "dynamic", "sni"} {
		for fam, addr := range famAddr {
			l, err := net.Listen("tcp", addr)
			if err != nil {
				verifx.Emit(map[string]any{"kind": "note", "msg": "cannot listen on " + addr + ": " + err.Error()})
				continue
			}
			var h Handler
			switch kind {
			case "tcp":
				h = &Proxy{DialTimeout: 20 * time.Second, Lookup: lookup}
			case "dynamic":
				h = &DynamicProxy{DialTimeout: 20 * time.Second, Lookup: lookup}
			case "sni":
				h = &SNIProxy{DialTimeout: 20 * time.Second, Lookup: lookup}
			}
			f := &c12Front{kind: kind, fam: fam, l: l, srv: &Server{Handler: h}}
			go f.srv.Serve(l)
			fronts = append(fronts, f)
		}
	}
	defer func() {
		for _, f := range fronts {
			f.srv.Close()
		}
	}()
	front := func(kind, fam string) *c12Front {
		for _, f := range fronts {
			if f.kind == kind && f.fam == fam {
				return f
			}
		}
		return nil
	}
	tables := map[string]*route.Table{}
	tableFor := func(cc *verifx.C12Conc, c *verifx.C12Case) (*route.Table, error) {
		key := cc.Name + "|" + c.CfgKey()
		if tb, ok := tables[key]; ok {
			return tb, nil
		}
		var text bytes.Buffer
		opts := ""
		if o := cc.CaseOpts(c, false); o != "" {
			opts = fmt.Sprintf(" opts %q", o)
		}
		for _, f := range fronts {
			if f.kind == "sni" {
				continue
			}
			_, port, _ := net.SplitHostPort(f.l.Addr().String())
			fmt.Fprintf(&text, "route add c12 :%s tcp://%s%s\n", port, up.l.Addr(), opts)
		}
		fmt.Fprintf(&text, "route add c12 %s/ tcp://%s%s\n", c12SNIName, up.l.Addr(), opts)
		tb, err := route.NewTable(&text)
		if err != nil {
			return nil, err
		}
		tables[key] = &tb
		return &tb, nil
	}

	var ran, conns, skipped, dialed, closed, zonedPeers, nontrivial, plumbing int64
	var samples []string
	oracle := func(format string, a ...any) {
		plumbing++
		verifx.Emit(map[string]any{"kind": "oracle", "msg": fmt.Sprintf(format, a...)})
	}

	for i := range cases {
		c := &cases[i]
		if c.Proto != "tcp" {
			continue
		}
		var cc *verifx.C12Conc
		switch {
		case c.Conc != "":
			cc = verifx.C12ConcByName(c.Conc)
		case c.Peer == "out6" || c.Peer == "inCn":
			cc = nil
		case c.Peer == "zoneC":
			cc = ll
		default:
			cc = loop
		}
		if cc == nil {
			skipped++
			continue
		}
		src := cc.Addr[c.Peer]
		fam := "4"
		if strings.Contains(src, "%") {
			fam = "ll"
		} else if strings.Contains(src, ":") {
			fam = "6"
		}
		if may, must, err := cc.Referee(c); err != nil || may != c.May || must != c.Must {
			oracle("referee (%s) may=%v must=%v err=%v vs specification may=%v must=%v: %+v", cc.Name, may, must, err, c.May, c.Must, *c)
			continue
		}
		tb, err := tableFor(cc, c)
		if err != nil {
			cc2 := *c
			cc2.Conc = cc.Name
			verifx.Fail(cc2, c.Features("tcp", "route-rejected", "rules:"+c.CfgClass()), "NewTable: %v", err)
			continue
		}
		cur.Store(tb)
		kinds := []string{"tcp", "dynamic", "sni"}
		if c.Variant != "" {
			kinds = []string{c.Variant}
		}
		for _, kind := range kinds {
			f := front(kind, fam)
			if f == nil {
				skipped++
				continue
			}
			n0, err := up.barrier()
			if err != nil {
				oracle("barrier: %v", err)
				continue
			}
			zone, ipS := "", src
			if j := strings.IndexByte(src, '%'); j >= 0 {
				ipS, zone = src[:j], src[j+1:]
			}
			d := net.Dialer{LocalAddr: &net.TCPAddr{IP: net.ParseIP(ipS), Zone: zone}, Timeout: 20 * time.Second}
			conn, err := d.Dial("tcp", f.l.Addr().String())
			if err != nil {
				oracle("dial %s from %s: %v", f.l.Addr(), src, err)
				continue
			}
			conns++
			conn.SetDeadline(time.Now().Add(30 * time.Second))
			id := fmt.Sprintf("%d-%s", i, kind)
			answered := false
			timedOut := false
			if kind == "sni" {
				tc := tls.Client(conn, &tls.Config{ServerName: c12SNIName, InsecureSkipVerify: true})
				err := tc.Handshake() // the upstream does not speak TLS: the handshake ends when the tunnel is closed
				if ne, ok := err.(net.Error); ok && ne.Timeout() {
					timedOut = true
				}
			} else {
				io.WriteString(conn, "case "+id+"\n")
				b, err := io.ReadAll(conn)
				if ne, ok := err.(net.Error); ok && ne.Timeout() {
					timedOut = true
				}
				answered = strings.HasPrefix(string(b), "ok "+id)
			}
			conn.Close()
			if timedOut {
				oracle("%s proxy, client %s: no end of stream within 30 s", kind, src)
				continue
			}
			n1, err := up.barrier()
			if err != nil {
				oracle("barrier: %v", err)
				continue
			}
			made := n1 - n0 - 1 // minus this barrier's own connection
			cc2 := *c
			cc2.Conc, cc2.Variant = cc.Name, kind
			desc := fmt.Sprintf("%s proxy, opts %q, client %s", kind, cc.CaseOpts(c, false), src)
			rulesCause := "rules:" + c.CfgClass()
			out := "close"
			if made >= 1 {
				out = "dial"
				dialed++
			} else {
				closed++
			}
			switch {
			case made > 1 || made < 0:
				verifx.Fail(cc2, c.Features("tcp-"+kind, "upstream-connection-count", rulesCause), "%s: the upstream accepted %d connections for one client connection", desc, made)
			case kind != "sni" && answered != (made == 1):
				verifx.Fail(cc2, c.Features("tcp-"+kind, "answer-vs-upstream-inconsistent", rulesCause), "%s: answered=%v but the upstream accepted %d connection(s)", desc, answered, made)
			case out == "dial" && !c.May:
				cause := c.Cause("", func(string, bool, bool) (bool, bool) { return false, false })
				verifx.Fail(cc2, c.Features("tcp-"+kind, "admitted-must-deny", cause),
					"%s: the upstream accepted a connection (client answered=%v), but the well-formed part of the rules does not admit the peer [cause: %s]", desc, answered, cause)
			case out == "close" && c.Must:
				verifx.Fail(cc2, c.Features("tcp-"+kind, "denied-must-admit", rulesCause), "%s: connection closed and upstream untouched although the rules admit the peer", desc)
			case !c.Allowed(out):
				verifx.Fail(cc2, c.Features("tcp-"+kind, "outcome-not-permitted", rulesCause), "%s: outcome %s, the specification permits %v", desc, out, c.Outcomes)
			}
		}
		ran++
		if fam == "ll" {
			zonedPeers++
		}
		if len(c.Allow)+len(c.Deny) > 0 {
			nontrivial++
		}
		if len(samples) < 2 && i%97 == 13 {
			samples = append(samples, fmt.Sprintf("TCP opts %q from %s -> %v", cc.CaseOpts(c, false), src, c.Outcomes))
		}
	}
	verifx.Summary(map[string]any{"cases": len(cases), "ran": ran, "connections": conns, "skipped_no_source_address": skipped,
		"dialed": dialed, "closed": closed, "zoned_peer_cases": zonedPeers, "distinct_nontrivial": nontrivial,
		"listeners": len(fronts), "samples": samples, "plumbing": plumbing})
}
