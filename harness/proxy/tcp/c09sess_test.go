package tcp

// C09 / C10, histories of several connections through ONE SNIProxy instance: the sessions
// spec/Sessions_MC.tla generated (client schedules of up to three connections with small and
// large ClientHellos, one after the other and two at a time) are played by verifx.RunSession
// against a real tcp.Server + SNIProxy whose Lookup routes every server name to its own upstream.

import (
	"crypto/tls"
	"fmt"
	"net"
	"net/url"
	"strings"
	"testing"

	"github.com/fabiolb/fabio/internal/verifx"
	"github.com/fabiolb/fabio/route"
)

func TestVerifC09Sessions(t *testing.T) {
	cases, err := verifx.ReadCases[verifx.SessionCase]("VERIF_IN")
	if err != nil {
		t.Fatal(err)
	}
	const n = 3
	names := make([]string, n)
	ups := make([]*net.TCPListener, n)
	addrOf := map[string]string{}
	for i := 0; i < n; i++ {
		names[i] = fmt.Sprintf("s%d.sess.example", i+1)
		l, addr, err := verifx.ListenFree()
		if err != nil {
			t.Fatal(err)
		}
		defer l.Close()
		ups[i] = l
		addrOf[names[i]] = addr
	}
	ln, addr, err := verifx.ListenFree()
	if err != nil {
		t.Fatal(err)
	}
	srv := &Server{Addr: addr, Handler: &SNIProxy{Lookup: func(host string) *route.Target {
		a, ok := addrOf[host]
		if !ok {
			return nil
		}
		return &route.Target{URL: &url.URL{Scheme: "tcp", Host: a}}
	}}}
	go srv.Serve(ln)
	defer srv.Close()

	// the hellos: real ones, per connection (server name) and size; the large ones carry a long ALPN list
	var alpn []string
	for i := 0; i < 19; i++ {
		alpn = append(alpn, fmt.Sprintf("c09-sess-%03d-%s", i, strings.Repeat("y", 180)))
	}
	hellos := map[string][]byte{}
	for i := 0; i < n; i++ {
		for _, size := range []string{"S", "L"} {
			cfg := &tls.Config{ServerName: names[i], InsecureSkipVerify: true, MaxVersion: tls.VersionTLS12}
			if size == "L" {
				cfg.NextProtos = alpn
			}
			h, err := c09CaptureHello(cfg)
			if err != nil {
				t.Fatal(err)
			}
			hellos[fmt.Sprintf("%d%s", i+1, size)] = h
		}
	}
	env := &verifx.SessionEnv{ProxyAddr: addr, Ups: ups, Hello: func(conn int, size string) []byte { return hellos[fmt.Sprintf("%d%s", conn, size)] }}
	var ran, conns, hangs, stuck int64
	var samples []string
	for i := range cases {
		sc := &cases[i]
		r := verifx.RunSessionConfirmed(env, sc)
		ran++
		conns += int64(r.Conns)
		switch r.Clause {
		case "":
		case "hang":
			hangs++
			verifx.Emit(map[string]any{"kind": "hang", "case": sc, "msg": r.Msg})
		default:
			verifx.Fail(sc, map[string]any{"path": "sni-session", "clause": r.Clause}, "shapes %v: %s", sc.Shape, r.Msg)
			if r.Clause == "no-termination" {
				stuck++
			}
		}
		if i%97 == 3 && len(samples) < 2 {
			samples = append(samples, fmt.Sprintf("session %v %s", sc.Shape, sc.Sched))
		}
		if stuck >= 2 || hangs >= 3 {
			break // every further one costs half a minute and the verdict is there
		}
	}
	verifx.Summary(map[string]any{"cases": len(cases), "ran": ran, "connections": conns, "hangs": hangs, "samples": samples,
		"hello_sizes": map[string]int{"S": len(hellos["1S"]), "L": len(hellos["1L"])}})
}
