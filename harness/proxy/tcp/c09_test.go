package tcp

// C09 conformance (tcp, tcp+sni, tcp-dynamic): every scenario spec/Tunnel_MC.tla printed
// (segments, close order, reply trigger, PROXY option + the streams the specification
// delivered) is played over loopback against the real tcp.Server with the real Proxy /
// SNIProxy / DynamicProxy, by the scripted endpoints of verifx.RunTunnel.

import (
	"crypto/ecdsa"
	"crypto/elliptic"
	"crypto/rand"
	"crypto/tls"
	"crypto/x509"
	"crypto/x509/pkix"
	"encoding/json"
	"fmt"
	"io"
	"math/big"
	"net"
	"net/url"
	"os"
	"os/exec"
	"path/filepath"
	"strings"
	"sync"
	"sync/atomic"
	"testing"
	"time"

	"github.com/fabiolb/fabio/internal/verifx"
	"github.com/fabiolb/fabio/route"
)

// c09CaptureHello returns the first TLS record a crypto/tls client with cfg writes.
func c09CaptureHello(cfg *tls.Config) ([]byte, error) {
	c, s := net.Pipe()
	defer s.Close()
	go func() {
		tls.Client(c, cfg).Handshake()
		c.Close()
	}()
	s.SetReadDeadline(time.Now().Add(20 * time.Second))
	var all []byte
	buf := make([]byte, 1<<16)
	want := 5
	for len(all) < want {
		n, err := s.Read(buf)
		all = append(all, buf[:n]...)
		if len(all) >= 5 {
			want = 5 + (int(all[3])<<8 | int(all[4]))
		}
		if err != nil {
			return nil, fmt.Errorf("capturing ClientHello: %v", err)
		}
	}
	return all[:want], nil
}

func c09Hellos() (map[string][]byte, error) {
	out := map[string][]byte{}
	// hellos beyond the 4096 bytes of a bufio.Reader: many / long ALPN protocol names
	alpn := func(n int) []string {
		var out []string
		for i := 0; i < n; i++ {
			out = append(out, fmt.Sprintf("c09-proto-%03d-%s", i, strings.Repeat("x", 180)))
		}
		return out
	}
	for name, cfg := range map[string]*tls.Config{
		"tls13":   {ServerName: "c09.example.com", InsecureSkipVerify: true, NextProtos: []string{"h2", "http/1.1"}},
		"tls12":   {ServerName: "c09.example.com", InsecureSkipVerify: true, MaxVersion: tls.VersionTLS12},
		"alpn5k":  {ServerName: "c09.example.com", InsecureSkipVerify: true, NextProtos: alpn(19)},
		"alpn12k": {ServerName: "c09.example.com", InsecureSkipVerify: true, MaxVersion: tls.VersionTLS12, NextProtos: alpn(60)},
	} {
		h, err := c09CaptureHello(cfg)
		if err != nil {
			return nil, err
		}
		if n, err := clientHelloBufferSize(h[:9]); err != nil || n != len(h) {
			return nil, fmt.Errorf("captured hello %s is not one self-contained record (%d vs %d, %v)", name, n, len(h), err)
		}
		out[name] = h
	}
	return out, nil
}

// c09MintCert makes the certificate of the TLS terminating listener and a client configuration
// that trusts it.
func c09MintCert() (tls.Certificate, *tls.Config, error) {
	key, err := ecdsa.GenerateKey(elliptic.P256(), rand.Reader)
	if err != nil {
		return tls.Certificate{}, nil, err
	}
	tpl := &x509.Certificate{SerialNumber: big.NewInt(9), Subject: pkix.Name{CommonName: "c09.example.com"},
		DNSNames: []string{"c09.example.com"}, NotBefore: time.Now().Add(-time.Hour), NotAfter: time.Now().Add(24 * time.Hour),
		KeyUsage: x509.KeyUsageDigitalSignature | x509.KeyUsageCertSign, ExtKeyUsage: []x509.ExtKeyUsage{x509.ExtKeyUsageServerAuth},
		BasicConstraintsValid: true, IsCA: true}
	der, err := x509.CreateCertificate(rand.Reader, tpl, tpl, &key.PublicKey, key)
	if err != nil {
		return tls.Certificate{}, nil, err
	}
	leaf, err := x509.ParseCertificate(der)
	if err != nil {
		return tls.Certificate{}, nil, err
	}
	pool := x509.NewCertPool()
	pool.AddCert(leaf)
	return tls.Certificate{Certificate: [][]byte{der}, PrivateKey: key, Leaf: leaf},
		&tls.Config{RootCAs: pool, ServerName: "c09.example.com", MinVersion: tls.VersionTLS12}, nil
}

// Listener timeouts.  The read timeout is short because the scenarios that are about it wait for
// it to pass (the upstream answers c09Late after its trigger); the write timeout is never waited
// for and must only be longer than a write to a reading client can take.
const (
	c09RT   = 200 * time.Millisecond
	c09Late = 500 * time.Millisecond
	c09WT   = 5 * time.Second
	// proxy.dialtimeout as fabio.properties ships it
	c09DialDefault = 30 * time.Second
)

// c09StartFabio starts the real fabio binary with a tcp-dynamic listener (refresh=100ms) and static routes:
// a tcp route on a port of its own to upAddr and, next to it, an http route whose host carries a port.
// It returns the address of the dynamic listener once that accepts connections.
func c09StartFabio(bin, upAddr string, upL *net.TCPListener) (addr string, stop func(), err error) {
	pl, paddr, err := verifx.ListenFree()
	if err != nil {
		return "", nil, err
	}
	pl.Close()
	ul, uiAddr, err := verifx.ListenFree()
	if err != nil {
		return "", nil, err
	}
	ul.Close()
	_, port, _ := net.SplitHostPort(paddr)
	routes := fmt.Sprintf("route add c09dyn 127.0.0.1:%s tcp://%s\nroute add c09web web.example.com:8443/ http://127.0.0.1:9/\n", port, upAddr)
	logf, _ := os.Create(filepath.Join(os.Getenv("VERIF_TMP"), "c09-fabio.log"))
	cmd := exec.Command(bin, "-registry.backend", "static", "-registry.static.routes", routes,
		"-proxy.addr", "0.0.0.0:0;proto=tcp-dynamic;refresh=100ms", "-ui.addr", uiAddr, "-log.level", "WARN", "-proxy.shutdownwait", "50ms", "-insecure")
	cmd.Stdout, cmd.Stderr = logf, logf
	if err := cmd.Start(); err != nil {
		return "", nil, err
	}
	stop = func() { cmd.Process.Kill(); cmd.Wait(); logf.Close() }
	deadline := time.Now().Add(20 * time.Second)
	for time.Now().Before(deadline) {
		c, err := net.DialTimeout("tcp", "127.0.0.1:"+port, time.Second)
		if err == nil {
			// the probe is a tunnel of its own: take its upstream side away before the scenarios start
			upL.SetDeadline(time.Now().Add(10 * time.Second))
			u, uerr := upL.Accept()
			upL.SetDeadline(time.Time{})
			c.Close()
			if uerr != nil {
				stop()
				return "", nil, fmt.Errorf("the probe connection through the tcp-dynamic listener did not reach the upstream: %v", uerr)
			}
			io.Copy(io.Discard, u)
			u.Close()
			return "127.0.0.1:" + port, stop, nil
		}
		time.Sleep(50 * time.Millisecond) // waiting for the listener to come up; a time-out is "not established", never a verdict
	}
	stop()
	return "", nil, fmt.Errorf("the tcp-dynamic listener on port %s did not come up within 20 s", port)
}

// c09Lane is one proxy per path kind in front of one scripted upstream (and a second upstream
// whose kernel holds little: what it does not read stays queued inside the proxy's connection).
type c09Lane struct {
	upL, slowL       *net.TCPListener
	upAddr, slowAddr string
	pp               atomic.Bool // PROXY option of the case being played
	slow             atomic.Bool // the case being played uses the slow upstream
	dead, deadPP     atomic.Bool // refused-dial case: the first instance is dead and has this pxyproto option
	lookups          atomic.Int32
	deadAddr         string // an address nobody listens on
	releaseDead      func()
	servers          []*Server
	addr             map[string]string
}

// target is the lane's Lookup function: the instance of the service the picker hands out.  In a
// refused-dial case the first instance handed out is one nobody listens on, with the opposite
// pxyproto option; every further lookup yields the live instance.
func (l *c09Lane) target(string) *route.Target {
	host := l.upAddr
	if l.slow.Load() {
		host = l.slowAddr
	}
	if l.dead.Load() && l.lookups.Add(1) == 1 {
		return &route.Target{URL: &url.URL{Scheme: "tcp", Host: l.deadAddr}, ProxyProto: l.deadPP.Load()}
	}
	return &route.Target{URL: &url.URL{Scheme: "tcp", Host: host}, ProxyProto: l.pp.Load()}
}

func c09NewLane(cert tls.Certificate) (*c09Lane, error) {
	l := &c09Lane{addr: map[string]string{}}
	var err error
	if l.upL, l.upAddr, err = verifx.ListenFree(); err != nil {
		return nil, err
	}
	if l.slowL, l.slowAddr, err = verifx.ListenFreeRcvbuf(4096); err != nil {
		l.close()
		return nil, err
	}
	// an address where a dial is refused for as long as the lane lives (bound, not listening)
	deadAddr, release, err := verifx.ReserveDeadPort()
	if err != nil {
		l.close()
		return nil, err
	}
	l.deadAddr, l.releaseDead = deadAddr, release
	for path, mk := range map[string]func(dt time.Duration) Handler{
		"tcp": func(dt time.Duration) Handler { return &Proxy{Lookup: l.target, DialTimeout: dt} },
		"sni": func(dt time.Duration) Handler { return &SNIProxy{Lookup: l.target, DialTimeout: dt} },
		"dyn": func(dt time.Duration) Handler { return &DynamicProxy{Lookup: l.target, DialTimeout: dt} },
		// proto=tcp listener with a certificate source: fabio terminates TLS
		"tls": func(dt time.Duration) Handler { return &Proxy{Lookup: l.target, DialTimeout: dt} },
	} {
		// configurations: listener options rt= / wt= (none, read timeout, write timeout, both) and proxy.dialtimeout
		// (fabio's default of 30 s everywhere; "dt": a short one, which the tunnels of the scenarios about it outlive)
		for conf, to := range map[string][3]time.Duration{"": {0, 0, c09DialDefault}, "rt": {c09RT, 0, c09DialDefault}, "wt": {0, c09WT, c09DialDefault},
			"both": {c09RT, c09WT, c09DialDefault}, "dt": {0, 0, c09RT},
			// a SHORT write timeout (the scenarios about it have a client that is silent for longer), alone and next to a read timeout that is never reached
			"wts": {0, c09RT, c09DialDefault}, "wtsrt": {c09WT, c09RT, c09DialDefault}} {
			h := mk(to[2])
			ln, addr, err := verifx.ListenFree()
			if err != nil {
				l.close()
				return nil, err
			}
			srv := &Server{Addr: addr, Handler: h, ReadTimeout: to[0], WriteTimeout: to[1]}
			l.servers = append(l.servers, srv)
			l.addr[path+"/"+conf] = addr
			if path == "tls" {
				go srv.Serve(tls.NewListener(ln, &tls.Config{Certificates: []tls.Certificate{cert}}))
			} else {
				go srv.Serve(ln)
			}
		}
	}
	return l, nil
}

func (l *c09Lane) close() {
	for _, s := range l.servers {
		s.Close()
	}
	if l.upL != nil {
		l.upL.Close()
	}
	if l.slowL != nil {
		l.slowL.Close()
	}
	if l.releaseDead != nil {
		l.releaseDead()
	}
}

func TestVerifC09(t *testing.T) {
	hellos, err := c09Hellos()
	if err != nil {
		t.Fatal(err)
	}
	cases, err := verifx.ReadCases[verifx.TunnelCase]("VERIF_IN")
	if err != nil {
		t.Fatal(err)
	}
	cert, tlsClient, err := c09MintCert()
	if err != nil {
		t.Fatal(err)
	}
	// the failing-direction scenarios rest on one property of tcp, probed on a direct connection
	queueOK, queueMsg := true, ""
	for i := range cases {
		if cases[i].Sc.USlow == 1 {
			queueOK, queueMsg = verifx.TCPKeepsQueueAcrossReset()
			break
		}
	}
	if !queueOK {
		verifx.Emit(map[string]any{"kind": "note", "msg": "failing-direction scenarios not played: " + queueMsg})
	}
	nl := verifx.EnvInt("VERIF_LANES", 8)
	jobs := make(chan *verifx.TunnelCase, 64)
	var wg sync.WaitGroup
	var ran, evals, nontrivial, hangs, skipped, aborted int64
	var seen sync.Map
	var sampleMu sync.Mutex
	var samples []string
	perPath := map[string]*int64{"tcp": new(int64), "sni": new(int64), "dyn": new(int64), "tls": new(int64)}
	var errFamily, unsupported, rtCases, wtCases int64
	var lanes []*c09Lane
	for i := 0; i < nl; i++ {
		lane, err := c09NewLane(cert)
		if err != nil {
			t.Fatal(err)
		}
		lanes = append(lanes, lane)
	}
	defer func() {
		for _, l := range lanes {
			l.close()
		}
	}()
	// the real fabio binary with a tcp-dynamic listener, for the scenarios in which a tunnel lives across refreshes
	var dynJobs chan *verifx.TunnelCase
	var dynPlayed int64
	hasDyn := false
	for i := range cases {
		hasDyn = hasDyn || cases[i].Path == "dynbin"
	}
	play := func(c *verifx.TunnelCase, env *verifx.TunnelEnv, hello []byte) {
		res := verifx.RunTunnel(env, c, hello)
		atomic.AddInt64(&ran, 1)
		if n, ok := perPath[c.Path]; ok {
			atomic.AddInt64(n, 1)
		}
		clause, msg := verifx.JudgeTunnel(c, res)
		if c.Path == "dynbin" && clause == "not-tunnelled" && strings.HasPrefix(msg, "dial proxy") {
			// the listener had come up and the routing table never changes: a refused connection means the
			// tcp-dynamic listener was taken down although its route exists
			clause, msg = "listener-gone-while-route-exists", "tcp-dynamic listener: "+msg
		}
		switch clause {
		case "":
			atomic.AddInt64(&evals, 2)
		case "hang":
			atomic.AddInt64(&hangs, 1)
			verifx.Emit(map[string]any{"kind": "hang", "case": c, "msg": msg})
		case "not-tunnelled":
			atomic.AddInt64(&skipped, 1)
			verifx.Emit(map[string]any{"kind": "skip", "case": c, "msg": msg})
		default:
			atomic.AddInt64(&evals, 2)
			feat := map[string]any{"path": c.Path, "clause": clause}
			if c.Sc.CMode == "abort" {
				feat["end"] = res.UEnd() // how the upstream's connection ended: eof | reset | error
			}
			verifx.Fail(c, feat, "%s", msg)
		}
		if c.Sc.RT == 1 {
			atomic.AddInt64(&rtCases, 1)
		}
		if c.Sc.WT == 1 {
			atomic.AddInt64(&wtCases, 1)
		}
		b, _ := json.Marshal([]any{c.Sc, c.Path, c.Spell, c.Split, c.Hello, c.TLSVer, c.Cork, c.Conf})
		if _, dup := seen.LoadOrStore(verifx.Hash(b), true); !dup && len(res.ExpU) > 0 && len(res.ExpC) > 0 {
			atomic.AddInt64(&nontrivial, 1)
		}
		if c.ID%997 == 5 {
			sampleMu.Lock()
			if len(samples) < 4 {
				sb, _ := json.Marshal(c)
				samples = append(samples, string(sb))
			}
			sampleMu.Unlock()
		}
	}
	if bin := os.Getenv("VERIF_FABIO_BIN"); hasDyn && bin != "" {
		dl, dupAddr, err := verifx.ListenFree()
		if err != nil {
			t.Fatal(err)
		}
		defer dl.Close()
		daddr, stop, err := c09StartFabio(bin, dupAddr, dl)
		if err != nil {
			verifx.Emit(map[string]any{"kind": "error", "msg": "fabio binary with a tcp-dynamic listener: " + err.Error()})
		} else {
			defer stop()
			dynJobs = make(chan *verifx.TunnelCase, 64)
			wg.Add(1)
			go func() {
				defer wg.Done()
				for c := range dynJobs {
					atomic.AddInt64(&dynPlayed, 1)
					play(c, &verifx.TunnelEnv{ProxyAddr: daddr, UpL: dl, Late: c09Late}, nil)
				}
			}()
		}
	}
	for _, lane := range lanes {
		lane := lane
		wg.Add(1)
		go func() {
			defer wg.Done()
			for c := range jobs {
				if verifx.TunnelHangs() >= 24 {
					// the run is inconclusive already; do not spend ten seconds on each remaining scenario
					atomic.AddInt64(&aborted, 1)
					continue
				}
				addr, ok := lane.addr[c.Path+"/"+c.Conf]
				if (c.Sc.RT == 1) != (c.Conf == "rt" || c.Conf == "both") || (c.Sc.DT == 1) != (c.Conf == "dt") || (c.Sc.WT == 1) != (c.Conf == "wts" || c.Conf == "wtsrt") {
					ok = false // a read timeout / a short dial timeout only where the scenario is about one
				}
				hello := hellos[c.Hello]
				if !ok || (c.Sc.Kind == "sni") != (c.Path == "sni") || (c.Sc.Kind == "sni" && hello == nil) || (c.Path == "dyn" && c.Sc.Proxy == 1) {
					verifx.Emit(map[string]any{"kind": "error", "msg": fmt.Sprintf("case %d: path %q / hello %q not playable here", c.ID, c.Path, c.Hello)})
					continue
				}
				if c.Sc.USlow == 1 && !queueOK {
					atomic.AddInt64(&unsupported, 1)
					continue
				}
				env := &verifx.TunnelEnv{ProxyAddr: addr, UpL: lane.upL, Late: c09Late, Before: func(c *verifx.TunnelCase) {
					lane.pp.Store(c.Sc.Proxy == 1)
					lane.slow.Store(c.Sc.USlow == 1)
					lane.dead.Store(c.Sc.Dead == 1)
					lane.deadPP.Store(c.Sc.DeadPP == 1)
					lane.lookups.Store(0)
				}}
				if c.Sc.USlow == 1 {
					env.UpL = lane.slowL
					atomic.AddInt64(&errFamily, 1)
				}
				if c.Path == "tls" {
					env.TLSClient = tlsClient
				}
				play(c, env, hello)
			}
		}()
	}
	for i := range cases {
		if cases[i].Path == "dynbin" {
			if dynJobs != nil {
				dynJobs <- &cases[i]
			}
			continue
		}
		jobs <- &cases[i]
	}
	close(jobs)
	if dynJobs != nil {
		close(dynJobs)
	}
	wg.Wait()
	verifx.Summary(map[string]any{"cases": len(cases), "ran": ran, "evaluations": evals, "distinct_nontrivial": nontrivial,
		"hangs": hangs, "skipped": skipped, "aborted": aborted, "samples": samples,
		"tcp": *perPath["tcp"], "sni": *perPath["sni"], "dyn": *perPath["dyn"], "tls": *perPath["tls"],
		"failing_direction": errFamily, "unsupported": unsupported, "read_timeout": rtCases, "write_timeout_pause": wtCases, "dynbin": dynPlayed,
		"hello_sizes": map[string]int{"tls13": len(hellos["tls13"]), "tls12": len(hellos["tls12"]), "alpn5k": len(hellos["alpn5k"]), "alpn12k": len(hellos["alpn12k"])}})
}
