package tcp

import (
	"net"
	"reflect"

	"github.com/fabiolb/fabio/route"
)

// c02WireDynamic wires a DynamicProxy the way main does (main.go, case "tcp-dynamic"): when the proxy has a
// LookupAddr field (one lookup function deciding between ip:port and :port on ONE table) main sets it; the
// field is reached by reflection so that the harness builds against trees with and without it.
func c02WireDynamic(dp *DynamicProxy) {
	f := reflect.ValueOf(dp).Elem().FieldByName("LookupAddr")
	if !f.IsValid() || !f.CanSet() || f.Kind() != reflect.Func {
		return
	}
	fn := func(addr string) *route.Target {
		tbl := route.GetTable()
		t := tbl.LookupHost(addr, route.Picker["rr"])
		if t == nil {
			if _, port, err := net.SplitHostPort(addr); err == nil {
				t = tbl.LookupHost(":"+port, route.Picker["rr"])
			}
		}
		return t
	}
	v := reflect.ValueOf(fn)
	if v.Type().AssignableTo(f.Type()) {
		f.Set(v)
	}
}
