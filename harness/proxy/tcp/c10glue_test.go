package tcp

// C10, the glue around the extraction ("SNIProxy peeks 9 bytes then reads exactly that many"):
// well-formed hellos - the specification's serialised messages and hellos captured from
// crypto/tls clients, up to just below one full TLS record - are offered to the real
// SNIProxy.ServeTCP behind a real tcp.Server over loopback, in 1, 2 and 3 segments.  Judged is
// the outcome only: the route lookup is made with the name a crypto/tls server reads from the
// same bytes, and the upstream receives the hello unchanged (followed by what the client sent
// behind it).  Pauses between segments are a hint to the kernel, nothing depends on them.

import (
	"bytes"
	"crypto/tls"
	"fmt"
	"io"
	"log"
	"net"
	"net/url"
	"os"
	"strings"
	"sync"
	"sync/atomic"
	"testing"
	"time"

	"github.com/fabiolb/fabio/internal/verifx"
	"github.com/fabiolb/fabio/logger"
	"github.com/fabiolb/fabio/route"
)

// c10CaptureFlight returns everything a crypto/tls client writes before it waits for the server:
// the ClientHello, in one record or - beyond 16384 bytes - spread over several.
func c10CaptureFlight(cfg *tls.Config) ([]byte, error) {
	c, s := net.Pipe()
	defer s.Close()
	go func() {
		tls.Client(c, cfg).Handshake()
		c.Close()
	}()
	s.SetReadDeadline(time.Now().Add(30 * time.Second))
	var all []byte
	buf := make([]byte, 1<<16)
	payload := func() (int, int) { // handshake bytes seen, handshake bytes announced
		seen, want, p := 0, -1, 0
		var hs []byte
		for p+5 <= len(all) {
			n := int(all[p+3])<<8 | int(all[p+4])
			if p+5+n > len(all) {
				hs = append(hs, all[p+5:]...)
				break
			}
			hs = append(hs, all[p+5:p+5+n]...)
			p += 5 + n
		}
		seen = len(hs)
		if len(hs) >= 4 {
			want = 4 + (int(hs[1])<<16 | int(hs[2])<<8 | int(hs[3]))
		}
		return seen, want
	}
	for {
		seen, want := payload()
		if want >= 0 && seen >= want {
			return all, nil
		}
		n, err := s.Read(buf)
		all = append(all, buf[:n]...)
		if err != nil {
			return nil, fmt.Errorf("capturing the client's first flight: %v", err)
		}
	}
}

func c10BigALPN(n, size int) []string {
	var out []string
	for i := 0; i < n; i++ {
		out = append(out, fmt.Sprintf("proto-%03d-%s", i, strings.Repeat("x", size-10)))
	}
	return out
}

type c10GlueLane struct {
	upL    *net.TCPListener
	upAddr string
	srv    *Server
	addr   string
	mu     sync.Mutex
	hosts  []string
}

func (l *c10GlueLane) lookup(host string) *route.Target {
	l.mu.Lock()
	l.hosts = append(l.hosts, host)
	l.mu.Unlock()
	return &route.Target{URL: &url.URL{Scheme: "tcp", Host: l.upAddr}}
}

func (l *c10GlueLane) takeHosts() []string {
	l.mu.Lock()
	defer l.mu.Unlock()
	h := l.hosts
	l.hosts = nil
	return h
}

func c10Cut(h []byte, cuts []int) [][]byte {
	var segs [][]byte
	last := 0
	for _, c := range cuts {
		if c < 0 {
			c += len(h)
		}
		if c <= last || c >= len(h) {
			continue
		}
		segs = append(segs, h[last:c])
		last = c
	}
	return append(segs, h[last:])
}

// what the client sends behind the hello: longer than any hello offered, so that bytes swallowed
// or repeated behind a long hello cannot go unnoticed
var c10Trailer = func() []byte {
	var b []byte
	for i := 0; len(b) < 20000; i++ {
		b = append(b, fmt.Sprintf("c10 trailer line %05d: first application bytes behind the hello\r\n", i)...)
	}
	return b
}()

// c10GlueRun plays one hello; clause "" = conforms, "hang" = no verdict.
func c10GlueRun(l *c10GlueLane, h []byte, cuts []int, together bool, want string) (clause, msg string) {
	const patience = 10 * time.Second
	verifx.DrainListener(l.upL)
	l.takeHosts()
	type up struct {
		got []byte
		err error
	}
	upc := make(chan up, 1)
	l.upL.SetDeadline(time.Now().Add(patience))
	go func() {
		c, err := l.upL.Accept()
		if err != nil {
			upc <- up{nil, err}
			return
		}
		defer c.Close()
		c.SetDeadline(time.Now().Add(patience))
		b, err := io.ReadAll(c)
		upc <- up{b, err}
	}()
	cc, err := net.DialTimeout("tcp", l.addr, patience)
	if err != nil {
		l.upL.SetDeadline(time.Now())
		<-upc
		return "hang", "dial proxy: " + err.Error()
	}
	defer cc.Close()
	tc := cc.(*net.TCPConn)
	tc.SetDeadline(time.Now().Add(patience))
	var werr error
	segs := c10Cut(h, cuts)
	if together {
		// the trailer leaves in the same write as the last piece of the hello
		segs[len(segs)-1] = append(append([]byte(nil), segs[len(segs)-1]...), c10Trailer...)
	}
	for i, seg := range segs {
		if i > 0 {
			time.Sleep(2 * time.Millisecond) // a hint that lets the segments arrive apart; nothing is decided by it
		}
		if _, werr = tc.Write(seg); werr != nil {
			break
		}
	}
	if werr == nil && !together {
		_, werr = tc.Write(c10Trailer)
	}
	tc.CloseWrite()
	rest, rerr := io.ReadAll(tc) // the proxy closes when the upstream has: end of the exchange
	l.mu.Lock()
	looked := len(l.hosts) > 0
	l.mu.Unlock()
	if !looked {
		// the proxy has ended the client's connection without ever asking for a route: it will not dial
		l.upL.SetDeadline(time.Now())
	}
	u := <-upc
	l.upL.SetDeadline(time.Time{})
	hosts := l.takeHosts()
	if n := verifx.DrainListener(l.upL); n > 0 {
		return "hang", fmt.Sprintf("disturbed: %d further connection(s) at the upstream listener", n)
	}
	exp := append(append([]byte(nil), h...), c10Trailer...)
	switch {
	case len(hosts) == 0 && u.err != nil:
		if ne, ok := rerr.(net.Error); ok && ne.Timeout() {
			return "hang", fmt.Sprintf("nothing happened within %v (client write err %v)", patience, werr)
		}
		return "glue-hello-dropped", fmt.Sprintf("the proxy dropped a well-formed hello of %d bytes sent in segments cut at %v: no route lookup, no upstream connection; client saw %d bytes, err=%v (write err %v)",
			len(h), cuts, len(rest), rerr, werr)
	case len(hosts) != 1 || hosts[0] != want:
		return "glue-lookup-name", fmt.Sprintf("route lookup made with %q, crypto/tls reads %q from the same %d bytes (cuts %v)", hosts, want, len(h), cuts)
	case u.err != nil && len(u.got) == 0:
		return "hang", fmt.Sprintf("upstream: %v", u.err)
	case !bytes.Equal(u.got, exp):
		i := 0
		for i < len(u.got) && i < len(exp) && u.got[i] == exp[i] {
			i++
		}
		return "glue-hello-forwarded", fmt.Sprintf("upstream received %d bytes, the client sent %d (hello %d + %d, trailer in the same write as the end of the hello: %v); first difference at offset %d (cuts %v, upstream err %v)",
			len(u.got), len(exp), len(h), len(c10Trailer), together, i, cuts, u.err)
	}
	return "", ""
}

func TestVerifC10Glue(t *testing.T) {
	lane := &c10GlueLane{}
	var err error
	if lane.upL, lane.upAddr, err = verifx.ListenFree(); err != nil {
		t.Fatal(err)
	}
	defer lane.upL.Close()
	ln, addr, err := verifx.ListenFree()
	if err != nil {
		t.Fatal(err)
	}
	lane.addr = addr
	lane.srv = &Server{Addr: addr, Handler: &SNIProxy{Lookup: lane.lookup}}
	go lane.srv.Serve(ln)
	defer lane.srv.Close()

	type hello struct {
		origin string
		b      []byte
	}
	var hellos []hello
	if cases, err := verifx.ReadCases[c10Case]("VERIF_IN"); err == nil {
		for i := range cases {
			hellos = append(hellos, hello{"model " + cases[i].Tpl, cases[i].raw()})
		}
	}
	if os.Getenv("VERIF_GLUE_ONLY") == "" { // (a replay offers only the recorded hello)
		for name, cfg := range map[string]*tls.Config{
			"tls13 default":                {ServerName: "glue.example.com"},
			"tls12":                        {ServerName: "glue.example.com", MaxVersion: tls.VersionTLS12},
			"tls13 pq alpn 5 KB":           {ServerName: "five.example.com", NextProtos: c10BigALPN(18, 200)},
			"tls13 alpn 4097":              {ServerName: "edge.example.com", NextProtos: c10BigALPN(13, 200), CurvePreferences: []tls.CurveID{tls.X25519}},
			"tls12 alpn 12 KB":             {ServerName: "twelve.example.com", MaxVersion: tls.VersionTLS12, NextProtos: c10BigALPN(48, 250)},
			"tls13 alpn ~16 KB":            {ServerName: "sixteen.example.com", NextProtos: c10BigALPN(58, 250)},
			"tls13 alpn 20 KB (2 records)": {ServerName: "twenty.example.com", NextProtos: c10BigALPN(80, 250)},
		} {
			cfg.InsecureSkipVerify = true
			b, err := c10CaptureFlight(cfg)
			if err != nil {
				verifx.Emit(map[string]any{"kind": "error", "msg": name + ": " + err.Error()})
				continue
			}
			hellos = append(hellos, hello{"real " + name, b})
		}
	}
	var ran, evals, fragmented, hangs, big int64
	sizes := map[string]int{}
	for _, h := range hellos {
		want, ok := c10Referee(h.b)
		if !ok || want == "" {
			verifx.Emit(map[string]any{"kind": "error", "msg": fmt.Sprintf("glue: %s is not a hello with a server name for crypto/tls (accepted=%v)", h.origin, ok)})
			continue
		}
		sizes[h.origin] = len(h.b)
		if len(h.b) >= 9 && (int(h.b[6])<<16|int(h.b[7])<<8|int(h.b[8]))+4 > (int(h.b[3])<<8|int(h.b[4])) {
			// spread over several records: beyond "the first TLS record", not judged
			fragmented++
			continue
		}
		if len(h.b) > 4096 {
			big++
		}
		n := len(h.b)
		cutSets := [][]int{nil}
		for _, c := range []int{1, 5, 9, 10, 100, n / 2, -1, 4095, 4096, 4097} {
			cutSets = append(cutSets, []int{c})
		}
		cutSets = append(cutSets, []int{1, 9}, []int{5, 10}, []int{9, 100}, []int{10, n / 2}, []int{100, -1}, []int{n / 2, -1}, []int{1, -1}, []int{4096, -1})
		for _, cuts := range cutSets {
			if len(c10Cut(h.b, cuts)) != len(cuts)+1 {
				continue // a cut outside this hello
			}
			ran++
			together := ran%2 == 0
			clause, msg := c10GlueRun(lane, h.b, cuts, together, want)
			switch clause {
			case "":
				evals += 2
			case "hang":
				hangs++
				verifx.Emit(map[string]any{"kind": "hang", "msg": h.origin + ": " + msg})
			default:
				evals += 2
				cc := c10Case{Tpl: "glue", Origin: fmt.Sprintf("%s, cuts %v", h.origin, cuts), Hex: fmt.Sprintf("%x", h.b)}
				verifx.Fail(cc, map[string]any{"part": "glue", "clause": clause, "segments": len(cuts) + 1, "over4096": len(h.b) > 4096}, "%s: %s", h.origin, msg)
			}
			if hangs >= 3 {
				break
			}
		}
	}
	verifx.Summary(map[string]any{"hellos": len(hellos), "ran": ran, "evaluations": evals, "fragmented_not_judged": fragmented,
		"hangs": hangs, "over4096": big, "sizes": sizes})
}

// TestVerifC10GlueReject: the inputs the specification rejects because a length runs past its
// container or the available bytes (class reject, must) are offered to the real
// SNIProxy.ServeTCP over loopback, under every log level fabio can be configured with
// (log.level, installed the way main does: a logger.LevelWriter as the log output).  Judged is
// what the proxy does: no route lookup, no upstream connection, the client's connection is
// ended - and the process survives (a panic in a connection handler kills fabio).
func TestVerifC10GlueReject(t *testing.T) {
	cases, err := verifx.ReadCases[c10Case]("VERIF_IN")
	if err != nil {
		t.Fatal(err)
	}
	lane := &c10GlueLane{}
	if lane.upL, lane.upAddr, err = verifx.ListenFree(); err != nil {
		t.Fatal(err)
	}
	defer lane.upL.Close()
	ln, addr, err := verifx.ListenFree()
	if err != nil {
		t.Fatal(err)
	}
	lane.addr = addr
	lane.srv = &Server{Addr: addr, Handler: &SNIProxy{Lookup: lane.lookup}}
	go lane.srv.Serve(ln)
	defer lane.srv.Close()
	// upstream: whoever connects is recorded
	var upConns int64
	go func() {
		for {
			c, err := lane.upL.Accept()
			if err != nil {
				return
			}
			atomic.AddInt64(&upConns, 1)
			go func() { io.Copy(io.Discard, c); c.Close() }()
		}
	}()
	old := log.Writer()
	defer log.SetOutput(old)
	levels := []string{"TRACE", "DEBUG", "INFO", "WARN"}
	perLevel := map[string]int{}
	var ran, hangs int64
	for i := range cases {
		c := &cases[i]
		level := levels[i%len(levels)]
		log.SetOutput(logger.NewLevelWriter(io.Discard, level, "2017/01/01 00:00:00 "))
		perLevel[level]++
		raw := c.raw()
		lane.takeHosts()
		before := atomic.LoadInt64(&upConns)
		cc, err := net.DialTimeout("tcp", addr, 10*time.Second)
		if err != nil {
			verifx.Emit(map[string]any{"kind": "hang", "msg": "dial proxy: " + err.Error()})
			hangs++
			continue
		}
		cc.SetDeadline(time.Now().Add(10 * time.Second))
		cc.Write(raw)
		cc.(*net.TCPConn).CloseWrite()
		_, rerr := io.ReadAll(cc)
		cc.Close()
		ran++
		if ne, ok := rerr.(net.Error); ok && ne.Timeout() {
			hangs++
			verifx.Emit(map[string]any{"kind": "hang", "msg": fmt.Sprintf("%s %+v: the connection was not ended within 10 s", c.Tpl, c.Corr)})
			if hangs >= 3 {
				break
			}
			continue
		}
		hosts := lane.takeHosts()
		if len(hosts) > 0 || atomic.LoadInt64(&upConns) != before {
			cc2 := *c
			cc2.Origin = "glue-reject log.level=" + level
			verifx.Fail(cc2, map[string]any{"part": "glue", "clause": "malformed-hello-routed", "why": c.Why, "corr": c.Corr.Kind},
				"a hello in which a length runs past its container (%s, %s %+v) was routed by the proxy (lookup %q) instead of being rejected", c.Why, c.Tpl, c.Corr, hosts)
		}
	}
	verifx.Summary(map[string]any{"cases": len(cases), "ran": ran, "hangs": hangs, "levels": perLevel})
}
