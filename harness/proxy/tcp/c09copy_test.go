package tcp

// C09, unit-level binding of copyBuffer to spec/Copier.tla: every reader / writer script TLC
// enumerated (reads returning n bytes with nil, EOF or an error - including data TOGETHER with
// EOF and (0, nil) - and a writer that accepts short or fails at its k-th call) is played on
// the real copyBuffer; the bytes the writer accepted and the way the direction ended must be
// what the specification's copier produced.

import (
	"bytes"
	"encoding/json"
	"errors"
	"io"
	"testing"

	"github.com/fabiolb/fabio/internal/verifx"
)

type c09Read struct {
	N   int    `json:"n"`
	Err string `json:"err"`
}

type c09CopyCase struct {
	Reads     []c09Read `json:"reads"`
	WBad      int       `json:"wbad"`
	WMode     string    `json:"wmode"`
	Delivered []int     `json:"delivered"`
	Result    string    `json:"result"` // eof | err | werr | short
	Writes    int       `json:"writes"`
	K         int       `json:"k,omitempty"` // bytes per token (replay)
}

var (
	errC09Read  = errors.New("c09: scripted read error")
	errC09Write = errors.New("c09: scripted write error")
)

type c09Reader struct {
	reads []c09Read
	i     int
	next  int
	k     int
	calls int
}

func (r *c09Reader) Read(p []byte) (int, error) {
	r.calls++
	if r.calls > 1000 {
		return 0, errors.New("c09: reader called too often")
	}
	if r.i >= len(r.reads) {
		return 0, io.EOF
	}
	rd := r.reads[r.i]
	r.i++
	n := 0
	for t := 0; t < rd.N; t++ {
		r.next++
		for j := 0; j < r.k; j++ {
			p[n] = byte(r.next)
			n++
		}
	}
	switch rd.Err {
	case "eof":
		return n, io.EOF
	case "err":
		return n, errC09Read
	}
	return n, nil
}

type c09Writer struct {
	got   []byte
	calls int
	bad   int
	mode  string
	k     int
}

func (w *c09Writer) Write(p []byte) (int, error) {
	if len(p) == 0 {
		return 0, nil // an empty write is no write (the specification's copier never makes one)
	}
	w.calls++
	if w.calls == w.bad {
		if w.mode == "err" {
			return 0, errC09Write
		}
		n := len(p) - w.k // one token short
		w.got = append(w.got, p[:n]...)
		return n, nil
	}
	w.got = append(w.got, p...)
	return len(p), nil
}

func TestVerifC09Copy(t *testing.T) {
	cases, err := verifx.ReadCases[c09CopyCase]("VERIF_IN")
	if err != nil {
		t.Fatal(err)
	}
	var evals, nontrivial int64
	var samples []string
	for i := range cases {
		c := &cases[i]
		ks := []int{1, 700}
		if c.K > 0 {
			ks = []int{c.K}
		}
		for _, k := range ks {
			r := &c09Reader{reads: c.Reads, k: k}
			w := &c09Writer{bad: c.WBad, mode: c.WMode, k: k}
			var cerr error
			p, stack := verifx.Safely(func() { cerr = copyBuffer(w, r, nil) })
			evals++
			var want []byte
			for _, tok := range c.Delivered {
				want = append(want, bytes.Repeat([]byte{byte(tok)}, k)...)
			}
			got := "eof"
			switch {
			case cerr == nil:
			case errors.Is(cerr, errC09Read):
				got = "err"
			case errors.Is(cerr, errC09Write):
				got = "werr"
			case errors.Is(cerr, io.ErrShortWrite):
				got = "short"
			default:
				got = "other: " + cerr.Error()
			}
			cc := *c
			cc.K = k
			feat := func(clause string) map[string]any {
				return map[string]any{"path": "copier", "clause": clause, "reader_ends": c.Reads[len(c.Reads)-1].Err}
			}
			switch {
			case p != nil:
				verifx.Fail(cc, feat("panic"), "copyBuffer panicked: %v\n%s", p, stack)
			case !bytes.Equal(w.got, want):
				clause := "every-byte-delivered"
				if !bytes.HasPrefix(want, w.got) {
					clause = "in-order"
				}
				verifx.Fail(cc, feat(clause), "reads %+v, writer bad call %d (%s): the writer accepted %d bytes, the specification's copier delivers %d (tokens %v); copyBuffer returned %v",
					c.Reads, c.WBad, c.WMode, len(w.got), len(want), c.Delivered, cerr)
			case got != c.Result:
				verifx.Fail(cc, feat("end-of-direction"), "reads %+v, writer bad call %d (%s): copyBuffer ended with %q (%v), the specification's copier with %q",
					c.Reads, c.WBad, c.WMode, got, cerr, c.Result)
			}
		}
		if len(c.Delivered) > 0 {
			nontrivial++
		}
		if i%211 == 7 && len(samples) < 2 {
			samples = append(samples, "copier script "+string(c09MustJSON(c)))
		}
	}
	verifx.Summary(map[string]any{"cases": len(cases), "evaluations": evals, "distinct_nontrivial": nontrivial, "samples": samples})
}

func c09MustJSON(v any) []byte {
	b, _ := json.Marshal(v)
	return b
}
