package tcp

// C02 on the tcp paths: a connection is routed from ONE complete routing table.  TableSwap!RLin: a lookup
// loads the register once.  The oracle is the proxy's own sequential answer on each complete table: while
// a writer alternates two tables, every connection must be answered as one of the two tables alone answers.

import (
	"bufio"
	"bytes"
	"fmt"
	"net"
	"sync"
	"sync/atomic"
	"testing"
	"time"

	"github.com/fabiolb/fabio/internal/verifx"
	"github.com/fabiolb/fabio/route"
)

func c02Upstream(t *testing.T, name string) (addr string, stop func()) {
	ln, err := net.Listen("tcp", "127.0.0.1:0")
	if err != nil {
		t.Fatal(err)
	}
	go func() {
		for {
			c, err := ln.Accept()
			if err != nil {
				return
			}
			go func() {
				c.SetDeadline(time.Now().Add(10 * time.Second))
				fmt.Fprintf(c, "%s\n", name)
				c.Close()
			}()
		}
	}()
	return ln.Addr().String(), func() { ln.Close() }
}

func c02Ask(addr string) string {
	c, err := net.DialTimeout("tcp", addr, 5*time.Second)
	if err != nil {
		return "dial-error"
	}
	defer c.Close()
	c.SetDeadline(time.Now().Add(10 * time.Second))
	line, err := bufio.NewReader(c).ReadString('\n')
	if err != nil {
		return "none"
	}
	return line[:len(line)-1]
}

func TestVerifC02TCPSwap(t *testing.T) {
	conns := verifx.EnvInt("VERIF_CONNS", 400)
	upOld, s1 := c02Upstream(t, "old")
	defer s1()
	upA, s2 := c02Upstream(t, "new-address-route")
	defer s2()
	upP, s3 := c02Upstream(t, "new-port-route")
	defer s3()
	saved := route.GetTable()
	defer route.SetTable(saved)
	// the lookup function main wires into the tcp proxies
	lk := func(h string) *route.Target { return route.GetTable().LookupHost(h, route.Picker["rr"]) }
	total, mixed := 0, 0
	for _, kind := range []string{"tcp", "tcp-dynamic"} {
		ln, err := net.Listen("tcp", "127.0.0.1:0")
		if err != nil {
			t.Fatal(err)
		}
		local := ln.Addr().String()
		_, port, _ := net.SplitHostPort(local)
		mk := func(text string) route.Table {
			tb, err := route.NewTable(bytes.NewBufferString(text))
			if err != nil {
				t.Fatal(err)
			}
			return tb
		}
		// T1 routes the port, T2 routes the listener's address AND the port
		t1 := mk(fmt.Sprintf("route add old :%s tcp://%s", port, upOld))
		t2 := mk(fmt.Sprintf("route add newa %s tcp://%s\nroute add newp :%s tcp://%s", local, upA, port, upP))
		var h Handler
		if kind == "tcp" {
			h = &Proxy{DialTimeout: 5 * time.Second, Lookup: lk}
		} else {
			dp := &DynamicProxy{DialTimeout: 5 * time.Second, Lookup: lk}
			c02WireDynamic(dp)
			h = dp
		}
		srv := &Server{Handler: h}
		go srv.Serve(ln)
		// what each complete table alone answers
		route.SetTable(t1)
		seq1 := c02Ask(local)
		route.SetTable(t2)
		seq2 := c02Ask(local)
		if seq1 == "none" || seq2 == "none" || seq1 == "dial-error" {
			verifx.Emit(map[string]any{"kind": "note", "msg": fmt.Sprintf("%s: sequential answers %q / %q", kind, seq1, seq2)})
		}
		var stop int32
		var swg sync.WaitGroup
		swg.Add(1)
		go func() {
			defer swg.Done()
			for atomic.LoadInt32(&stop) == 0 {
				route.SetTable(t1)
				route.SetTable(t2)
			}
		}()
		var wg sync.WaitGroup
		var mu sync.Mutex
		got := map[string]int{}
		for g := 0; g < 8; g++ {
			wg.Add(1)
			go func() {
				defer wg.Done()
				for i := 0; i < conns/8; i++ {
					a := c02Ask(local)
					mu.Lock()
					got[a]++
					mu.Unlock()
				}
			}()
		}
		wg.Wait()
		atomic.StoreInt32(&stop, 1)
		swg.Wait()
		srv.Close()
		for a, n := range got {
			total += n
			if a != seq1 && a != seq2 {
				mixed += n
				verifx.Fail(map[string]any{"kind": kind, "answers": got}, map[string]any{"sub": "tcpswap", "clause": "mixture", "listener": kind},
					"%s listener: %d connection(s) were answered by %q while the routing table alternated between two tables which alone answer %q and %q: the connection was routed from a mixture of the two",
					kind, n, a, seq1, seq2)
			}
		}
	}
	verifx.Summary(map[string]any{"connections": total, "mixed": mixed})
}
