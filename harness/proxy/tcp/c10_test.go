package tcp

// C10 conformance: SNI extraction agrees with the TLS stack and never panics.
//
// Part "model": every case spec/ClientHello_MC.tla printed (structured message + corruption,
// serialised to bytes by the specification, with the outcome class of the specification's
// extractor) is given to the real clientHelloBufferSize / readServerName exactly the way
// SNIProxy.ServeTCP uses them, under recover.
// Part "real": hellos captured from crypto/tls clients configured from the specification's
// configuration universe, every proper prefix of them, and seeded single-byte corruptions.
//
// Referee (as the property demands): the same bytes are offered to a real crypto/tls server;
// GetConfigForClient captures ClientHelloInfo.ServerName.  Whenever crypto/tls accepts the
// bytes as a ClientHello, fabio must accept them and extract the same name.

import (
	"bytes"
	"crypto/tls"
	"encoding/hex"
	"encoding/json"
	"errors"
	"fmt"
	"math/rand"
	"net"
	"os"
	"runtime"
	"sort"
	"strings"
	"sync"
	"sync/atomic"
	"testing"
	"time"

	"github.com/fabiolb/fabio/internal/verifx"
)

type c10Corr struct {
	Kind string `json:"kind"`
	F    string `json:"f"`
	I    int    `json:"i"`
	How  string `json:"how"`
	At   int    `json:"at"`
	F2   string `json:"f2"`
	I2   int    `json:"i2"`
	How2 string `json:"how2"`
}

type c10Case struct {
	Tpl    string   `json:"tpl"`
	Corr   c10Corr  `json:"corr"`
	Bytes  []int    `json:"bytes,omitempty"`
	Hex    string   `json:"hex,omitempty"` // replay of a "real" failure: the bytes in hex
	WF     bool     `json:"wf"`
	WFName []int    `json:"wfname"`
	Class  string   `json:"class"` // accept | reject | "" (no model expectation)
	Must   bool     `json:"must"`
	Why    string   `json:"why"`
	Name   []int    `json:"name"`
	Size   int      `json:"size"`
	Path   []string `json:"path,omitempty"`
	Origin string   `json:"origin,omitempty"` // real: which configuration / mutation produced the bytes
	Prefix bool     `json:"prefix,omitempty"` // real: a proper prefix of a single-record hello
}

func c10Str(v []int) string {
	b := make([]byte, len(v))
	for i, x := range v {
		b[i] = byte(x)
	}
	return string(b)
}

func (c *c10Case) raw() []byte {
	if c.Hex != "" {
		b, _ := hex.DecodeString(c.Hex)
		return b
	}
	b := make([]byte, len(c.Bytes))
	for i, x := range c.Bytes {
		b[i] = byte(x)
	}
	return b
}

// ---------------------------------------------------------------- the code under test

type c10Result struct {
	name    string
	ok      bool
	size    int
	sizeErr error
	short   bool // fewer bytes available than the size function asked for (ReadFull fails)
	panic   any
	stack   string
	stuck   bool // the extraction did not return
}

// The extraction is a pure function of at most a few KB of input: when it has not returned
// after c10Patience (tried twice) it does not terminate.  The goroutine cannot be stopped; after
// a few of them the run stops offering input (every one keeps a CPU busy).
const c10Patience = 5 * time.Second

var c10Stuck int64

func c10FabioGuarded(b []byte) c10Result {
	for try := 0; ; try++ {
		ch := make(chan c10Result, 1)
		go func() { ch <- c10Fabio(b) }()
		t := time.NewTimer(c10Patience)
		select {
		case r := <-ch:
			t.Stop()
			return r
		case <-t.C:
			if try == 1 {
				atomic.AddInt64(&c10Stuck, 1)
				return c10Result{stuck: true}
			}
		}
	}
}

// c10Fabio does what SNIProxy.ServeTCP does with the first bytes of a connection.
func c10Fabio(b []byte) (r c10Result) {
	r.panic, r.stack = verifx.Safely(func() {
		if len(b) < 9 {
			// Peek(9) fails; still give the size function what there is: it must not panic
			_, r.sizeErr = clientHelloBufferSize(b)
			if r.sizeErr == nil {
				r.sizeErr = errors.New("peek(9) failed")
			}
			return
		}
		r.size, r.sizeErr = clientHelloBufferSize(b[:9])
		if r.sizeErr != nil {
			return
		}
		if len(b) < r.size {
			r.short = true
			return
		}
		r.name, r.ok = readServerName(b[5:r.size])
	})
	return
}

// ---------------------------------------------------------------- the referee

type c10Conn struct{ r *bytes.Reader }

func (c *c10Conn) Read(p []byte) (int, error)       { return c.r.Read(p) }
func (c *c10Conn) Write(p []byte) (int, error)      { return len(p), nil }
func (c *c10Conn) Close() error                     { return nil }
func (c *c10Conn) LocalAddr() net.Addr              { return &net.TCPAddr{IP: net.IPv4(127, 0, 0, 1), Port: 443} }
func (c *c10Conn) RemoteAddr() net.Addr             { return &net.TCPAddr{IP: net.IPv4(127, 0, 0, 1), Port: 50000} }
func (c *c10Conn) SetDeadline(time.Time) error      { return nil }
func (c *c10Conn) SetReadDeadline(time.Time) error  { return nil }
func (c *c10Conn) SetWriteDeadline(time.Time) error { return nil }

var errC10Stop = errors.New("c10: seen")

// c10Referee offers the bytes to a crypto/tls server: accepted = it parsed a ClientHello out
// of them, name = the server name it saw.
func c10Referee(b []byte) (name string, accepted bool) {
	cfg := &tls.Config{MinVersion: tls.VersionTLS10, GetConfigForClient: func(chi *tls.ClientHelloInfo) (*tls.Config, error) {
		name, accepted = chi.ServerName, true
		return nil, errC10Stop
	}}
	tls.Server(&c10Conn{r: bytes.NewReader(b)}, cfg).Handshake()
	return
}

// ---------------------------------------------------------------- judging one input

type c10Stats struct {
	evals, refAccepts, fabioAccepts, lenient, fragmented, tlsLenient, strictAgree, strictTotal, notOffered int64
}

// c10Judge applies the rules to one byte string.  mc = the specification's expectation (may
// carry none), prefix = the input is a proper prefix of a single-record hello.
func c10Judge(part string, mc *c10Case, b []byte, prefix bool, st *c10Stats, useReferee bool) {
	fail := func(clause, format string, a ...any) {
		cc := *mc
		if part == "real" {
			cc.Bytes, cc.Hex = nil, hex.EncodeToString(b)
		}
		verifx.Fail(cc, map[string]any{"part": part, "clause": clause, "why": mc.Why, "corr": mc.Corr.Kind}, format, a...)
	}
	modelBug := func(format string, a ...any) {
		verifx.Emit(map[string]any{"kind": "modelbug", "case": mc, "msg": fmt.Sprintf(format, a...)})
	}
	if atomic.LoadInt64(&c10Stuck) >= 3 {
		atomic.AddInt64(&st.notOffered, 1)
		return
	}
	atomic.AddInt64(&st.evals, 1)
	r := c10FabioGuarded(b)
	// R0: it returns ("it is rejected instead")
	if r.stuck {
		fail("no-termination", "extraction did not return within %v (tried twice) on %d bytes", c10Patience, len(b))
		return
	}
	// R1: never panics
	if r.panic != nil {
		fail("panic", "extraction panicked on %d bytes: %v\n%s", len(b), r.panic, r.stack)
		return
	}
	accepted := r.sizeErr == nil && !r.short && r.ok
	if accepted {
		atomic.AddInt64(&st.fabioAccepts, 1)
	}
	// R2: what is buffered never exceeds the first TLS record
	if r.sizeErr == nil && len(b) >= 5 {
		rl := int(b[3])<<8 | int(b[4])
		if r.size > 5+rl {
			fail("size-bound", "buffer size %d exceeds the first TLS record (5+%d)", r.size, rl)
		}
	}
	// R3: agreement with crypto/tls whenever it accepts the bytes
	refName, refOK := "", false
	if useReferee {
		refName, refOK = c10Referee(b)
	}
	if refOK {
		atomic.AddInt64(&st.refAccepts, 1)
		fragmented := len(b) >= 9 && (int(b[6])<<16|int(b[7])<<8|int(b[8]))+4 > (int(b[3])<<8|int(b[4]))
		// crypto/tls is more lenient than the grammar in two places: it takes plaintext records of up to
		// 2^14+2048 bytes (RFC 5246 6.2.1 / RFC 8446 5.1: at most 2^14) and session ids of up to 255 bytes
		// (SessionID<0..32>).  Such input is not a well-formed ClientHello; the statement leaves it to "rejected".
		malformed := len(b) >= 44 && ((int(b[3])<<8|int(b[4])) > 16384 || b[43] > 32)
		switch {
		case fragmented && !accepted:
			// the hello continues in a second record: outside "the first TLS record"; not judged
			atomic.AddInt64(&st.fragmented, 1)
		case malformed && !accepted:
			atomic.AddInt64(&st.tlsLenient, 1)
		case !accepted:
			fail("tls-accepts-fabio-rejects", "crypto/tls accepts these %d bytes (server name %q), fabio rejects them (size err %v, short %v, ok %v)", len(b), refName, r.sizeErr, r.short, r.ok)
		case r.name != refName:
			fail("name-differs-from-tls", "crypto/tls sees server name %q, fabio extracts %q", refName, r.name)
		}
	}
	if prefix && accepted {
		fail("prefix-accepted", "a proper prefix (%d bytes) of a single-record hello was accepted (name %q)", len(b), r.name)
	}
	if mc.Class == "" {
		return
	}
	// R4: the specification's expectation
	switch {
	case mc.WF:
		// cross-check of the specification's serialiser: a standard TLS server accepts the message
		if useReferee && (!refOK || refName != c10Str(mc.WFName)) {
			modelBug("well-formed message %s is not accepted by crypto/tls with name %q (accepted=%v name=%q)", mc.Tpl, c10Str(mc.WFName), refOK, refName)
			return
		}
		if !accepted {
			fail("wellformed-rejected", "well-formed hello %q rejected (size err %v, ok %v)", mc.Tpl, r.sizeErr, r.ok)
		} else if r.name != c10Str(mc.WFName) {
			fail("wrong-name", "well-formed hello %q: extracted %q, first host_name is %q", mc.Tpl, r.name, c10Str(mc.WFName))
		} else if r.size != mc.Size || r.size != len(b) {
			fail("wrong-size", "well-formed hello %q of %d bytes: buffer size %d, specification %d", mc.Tpl, len(b), r.size, mc.Size)
		}
	case mc.Class == "reject" && mc.Must:
		if refOK {
			modelBug("specification says the input cannot be parsed without overrun (%s) but crypto/tls accepts it", mc.Why)
			return
		}
		if accepted {
			fail("overrun-accepted", "a length runs past its container (%s, corruption %+v) but the hello was accepted with name %q", mc.Why, mc.Corr, r.name)
		}
	case mc.Class == "reject":
		// grammar violated without overrun: the statement leaves the extractor free; counted only
		atomic.AddInt64(&st.strictTotal, 1)
		if !accepted {
			atomic.AddInt64(&st.strictAgree, 1)
		} else {
			atomic.AddInt64(&st.lenient, 1)
		}
	case mc.Class == "accept":
		// corrupted but consistent along the walk
		if refOK && refName != c10Str(mc.Name) {
			modelBug("specification extracts %q, crypto/tls sees %q (%s %+v)", c10Str(mc.Name), refName, mc.Tpl, mc.Corr)
		}
		atomic.AddInt64(&st.strictTotal, 1)
		if accepted && r.name == c10Str(mc.Name) {
			atomic.AddInt64(&st.strictAgree, 1)
		} else {
			verifx.Emit(map[string]any{"kind": "note", "msg": fmt.Sprintf("specification walks %s %+v to the end (name %q); fabio: accepted=%v name=%q sizeErr=%v", mc.Tpl, mc.Corr, c10Str(mc.Name), accepted, r.name, r.sizeErr)})
		}
	}
}

// ---------------------------------------------------------------- real hellos

type c10Config struct {
	Name    string `json:"name"`
	VMin    int    `json:"vmin"`
	VMax    int    `json:"vmax"`
	ALPN    string `json:"alpn"`
	Curves  string `json:"curves"`
	Tickets int    `json:"tickets"`
}

func (c c10Config) String() string {
	return fmt.Sprintf("name=%s v=%d..%d alpn=%s curves=%s tickets=%d", c.Name, c.VMin, c.VMax, c.ALPN, c.Curves, c.Tickets)
}

func (c c10Config) tls() *tls.Config {
	vers := map[int]uint16{1: tls.VersionTLS10, 2: tls.VersionTLS11, 3: tls.VersionTLS12, 4: tls.VersionTLS13}
	cfg := &tls.Config{InsecureSkipVerify: true, MinVersion: vers[c.VMin], MaxVersion: vers[c.VMax], SessionTicketsDisabled: c.Tickets == 0}
	switch c.Name {
	case "long":
		cfg.ServerName = strings.Repeat("a", 63) + "." + strings.Repeat("b", 63) + "." + strings.Repeat("c", 63) + ".example"
	default:
		cfg.ServerName = c.Name
	}
	switch c.ALPN {
	case "h2":
		cfg.NextProtos = []string{"h2", "http/1.1"}
	case "long":
		cfg.NextProtos = []string{strings.Repeat("p", 200), "h2"}
	}
	switch c.Curves {
	case "x25519":
		cfg.CurvePreferences = []tls.CurveID{tls.X25519}
	case "pq":
		cfg.CurvePreferences = []tls.CurveID{tls.X25519MLKEM768, tls.X25519, tls.CurveP256, tls.CurveP384, tls.CurveP521}
	}
	return cfg
}

func c10Capture(cfg *tls.Config) ([]byte, error) {
	c, s := net.Pipe()
	defer s.Close()
	go func() {
		tls.Client(c, cfg).Handshake()
		c.Close()
	}()
	s.SetReadDeadline(time.Now().Add(30 * time.Second))
	var all []byte
	buf := make([]byte, 1<<16)
	want := 5
	for len(all) < want {
		n, err := s.Read(buf)
		all = append(all, buf[:n]...)
		if len(all) >= 5 {
			want = 5 + (int(all[3])<<8 | int(all[4]))
		}
		if err != nil && len(all) < want {
			return nil, err
		}
	}
	return all[:want], nil
}

func c10Real(cfgs []c10Config, st *c10Stats, nCorrupt int, hellos, maxLen *int64) {
	seed := verifx.Seed()
	var wg sync.WaitGroup
	jobs := make(chan int, 64)
	for w := 0; w < runtime.NumCPU()/2+1; w++ {
		wg.Add(1)
		go func() {
			defer wg.Done()
			for i := range jobs {
				cf := cfgs[i]
				h, err := c10Capture(cf.tls())
				if err != nil || len(h) < 9 {
					verifx.Emit(map[string]any{"kind": "error", "msg": fmt.Sprintf("capturing hello for %s: %v", cf, err)})
					continue
				}
				atomic.AddInt64(hellos, 1)
				for {
					m := atomic.LoadInt64(maxLen)
					if int64(len(h)) <= m || atomic.CompareAndSwapInt64(maxLen, m, int64(len(h))) {
						break
					}
				}
				// the hello itself: crypto/tls must accept it, and fabio must agree; all of it is buffered
				rn, rok := c10Referee(h)
				if !rok {
					verifx.Emit(map[string]any{"kind": "error", "msg": fmt.Sprintf("crypto/tls server does not accept the hello of its own client (%s)", cf)})
					continue
				}
				mc := &c10Case{Tpl: "real", Origin: cf.String(), WF: true, Class: "accept", Size: len(h)}
				for _, ch := range []byte(rn) {
					mc.WFName = append(mc.WFName, int(ch))
				}
				c10Judge("real", mc, h, false, st, true)
				// every proper prefix: no panic, rejected (the referee is asked on a sample: a prefix is never a whole record)
				for k := 0; k < len(h); k++ {
					pc := &c10Case{Tpl: "real", Origin: fmt.Sprintf("%s prefix %d", cf, k), Prefix: true}
					c10Judge("real", pc, h[:k], true, st, k%97 == int(seed%97) || k == len(h)-1)
				}
				// seeded single-byte corruptions
				rnd := rand.New(rand.NewSource(seed*1000003 + int64(i)))
				for k := 0; k < nCorrupt; k++ {
					m := append([]byte(nil), h...)
					var pos int
					if k%3 == 0 {
						pos = rnd.Intn(min(len(m), 140)) // headers, fixed part, first extensions
					} else {
						pos = rnd.Intn(len(m))
					}
					old := m[pos]
					switch rnd.Intn(4) {
					case 0:
						m[pos] ^= 1 << uint(rnd.Intn(8))
					case 1:
						m[pos] = byte(rnd.Intn(256))
					case 2:
						m[pos]++
					case 3:
						m[pos]--
					}
					if m[pos] == old {
						m[pos] ^= 0x80
					}
					cc := &c10Case{Tpl: "real", Origin: fmt.Sprintf("%s byte %d: %#02x -> %#02x", cf, pos, old, m[pos])}
					c10Judge("real", cc, m, false, st, true)
				}
			}
		}()
	}
	for i := range cfgs {
		jobs <- i
	}
	close(jobs)
	wg.Wait()
}

func TestVerifC10(t *testing.T) {
	st := &c10Stats{}
	var nModel int64
	paths := map[string]bool{}
	var samples []string
	if os.Getenv("VERIF_IN") != "" {
		cases, err := verifx.ReadCases[c10Case]("VERIF_IN")
		if err != nil {
			t.Fatal(err)
		}
		for i := range cases {
			c := &cases[i]
			part := "model"
			if c.Tpl == "real" {
				part = "real"
			}
			c10Judge(part, c, c.raw(), c.Prefix, st, true)
			nModel++
			paths[strings.Join(c.Path, ">")] = true
			if i%701 == 3 && len(samples) < 4 {
				samples = append(samples, fmt.Sprintf("%s %+v -> %s %s name=%q (%d bytes)", c.Tpl, c.Corr, c.Class, c.Why, c10Str(c.Name), len(c.Bytes)))
			}
		}
	}
	var hellos, maxLen int64
	if p := os.Getenv("VERIF_CFG"); p != "" {
		raw, err := os.ReadFile(p)
		if err != nil {
			t.Fatal(err)
		}
		var cfgs []c10Config
		if err := json.Unmarshal(raw, &cfgs); err != nil {
			t.Fatal(err)
		}
		sort.Slice(cfgs, func(i, j int) bool { return cfgs[i].String() < cfgs[j].String() })
		c10Real(cfgs, st, verifx.EnvInt("VERIF_NCORRUPT", 200), &hellos, &maxLen)
		if len(cfgs) > 0 {
			samples = append(samples, "real hello: "+cfgs[0].String())
		}
	}
	verifx.Summary(map[string]any{"model_cases": nModel, "paths": len(paths), "hellos": hellos, "max_hello": maxLen,
		"evaluations": st.evals, "tls_accepts": st.refAccepts, "fabio_accepts": st.fabioAccepts,
		"fragmented_not_judged": st.fragmented, "tls_lenient_not_judged": st.tlsLenient, "strict_total": st.strictTotal, "strict_agree": st.strictAgree,
		"lenient": st.lenient, "samples": samples, "not_offered_after_hangs": st.notOffered})
}
