package proxy

// C12 conformance, routes with several targets carrying different access rules (spec/AccessMulti.tla),
// end to end over HTTP: each case is a route with two targets (own rules each, instance up or down)
// built by route.NewTable; a real client sends the request several times through a real HTTPProxy so
// that the picker chooses both targets.  Each instrumented upstream counts its hits per request: a
// request may only ever reach an instance whose OWN rules admit it; a denied or failed request reaches none.

import (
	"bytes"
	"fmt"
	"io"
	"log"
	"net"
	"net/http"
	"net/http/httptest"
	"strings"
	"sync"
	"sync/atomic"
	"testing"
	"time"

	"github.com/fabiolb/fabio/config"
	"github.com/fabiolb/fabio/internal/verifx"
	"github.com/fabiolb/fabio/route"
)

func TestVerifC12MultiHTTP(t *testing.T) {
	log.SetOutput(io.Discard)
	loop, ll := verifx.C12Loop, verifx.C12LinkLocal()
	cases, err := verifx.ReadCases[verifx.C12Multi]("")
	if err != nil {
		t.Fatal(err)
	}
	var plumbing int64
	oracle := func(format string, a ...any) {
		atomic.AddInt64(&plumbing, 1)
		verifx.Emit(map[string]any{"kind": "oracle", "msg": fmt.Sprintf(format, a...)})
	}
	concOf := func(c *verifx.C12Multi) *verifx.C12Conc {
		if c.Conc != "" {
			return verifx.C12ConcByName(c.Conc)
		}
		switch c.Peer {
		case "out6", "inCn":
			return nil
		case "zoneC":
			return ll
		}
		return loop
	}
	var hits [2]sync.Map
	mk := func(k int) *httptest.Server {
		return httptest.NewServer(http.HandlerFunc(func(w http.ResponseWriter, r *http.Request) {
			id := r.URL.Path[strings.LastIndexByte(r.URL.Path, '/')+1:]
			if c, ok := hits[k].Load(id); ok {
				atomic.AddInt64(c.(*int64), 1)
			}
			io.WriteString(w, "upstream")
		}))
	}
	ups := []*httptest.Server{mk(0), mk(1)}
	defer ups[0].Close()
	defer ups[1].Close()
	// instances that are down: addresses nobody listens on
	var down [2]string
	for k := range down {
		// bound for the length of the test, never listening: refused, and no other process can be given the port
		a, release, err := verifx.C12DownAddr()
		if err != nil {
			t.Fatal(err)
		}
		defer release()
		down[k] = "http://" + a
	}
	routes := map[string]int{}
	var text bytes.Buffer
	for i := range cases {
		c := &cases[i]
		cc := concOf(c)
		if c.Proto != "http" || cc == nil {
			continue
		}
		key := cc.Name + "|" + c.Key()
		if _, ok := routes[key]; ok {
			continue
		}
		idx := len(routes) + 1
		routes[key] = idx
		for k, tr := range []verifx.C12Rules{c.T1, c.T2} {
			u := ups[k].URL
			if (k == 0 && !c.Up1) || (k == 1 && !c.Up2) {
				u = down[k]
			}
			fmt.Fprintf(&text, "route add m%d-%d /m/%d/ %s/", idx, k+1, idx, u)
			if o := cc.Opts(tr.Allow, tr.Deny, ""); o != "" {
				fmt.Fprintf(&text, " opts %q", o)
			}
			text.WriteString("\n")
		}
	}
	tbl, err := route.NewTable(&text)
	if err != nil {
		t.Fatalf("NewTable: %v", err)
	}
	gc := route.NewGlobCache(64)
	px := &HTTPProxy{
		Config:    config.Proxy{},
		Transport: &http.Transport{MaxIdleConnsPerHost: 64, DisableCompression: true},
		Lookup: func(r *http.Request) *route.Target {
			return tbl.Lookup(r, "", route.Picker["rr"], route.Matcher["prefix"], gc, true)
		},
	}
	front := map[string]string{}
	listen := func(fam, addr string) {
		l, err := net.Listen("tcp", addr)
		if err != nil {
			return
		}
		s := httptest.NewUnstartedServer(px)
		s.Listener.Close()
		s.Listener = l
		s.Start()
		t.Cleanup(s.Close)
		front[fam] = s.URL
	}
	listen("4", "127.0.0.1:0")
	listen("6", "[::1]:0")
	if ll != nil {
		listen("ll", net.JoinHostPort(ll.Addr["zoneC"], "0"))
	}
	var clients sync.Map
	client := func(src string) *http.Client {
		if c, ok := clients.Load(src); ok {
			return c.(*http.Client)
		}
		zone, ipS := "", src
		if i := strings.IndexByte(src, '%'); i >= 0 {
			ipS, zone = src[:i], src[i+1:]
		}
		d := &net.Dialer{LocalAddr: &net.TCPAddr{IP: net.ParseIP(ipS), Zone: zone}, Timeout: 20 * time.Second}
		c := &http.Client{Transport: &http.Transport{DialContext: d.DialContext, MaxIdleConnsPerHost: 8, DisableCompression: true}, Timeout: 60 * time.Second}
		act, _ := clients.LoadOrStore(src, c)
		return act.(*http.Client)
	}

	var ran, reqs, skipped, seq, nontrivial int64
	var served [2]int64
	var denied, failed int64
	var sampleMu sync.Mutex
	var samples []string
	runOne := func(i int) {
		c := &cases[i]
		if c.Proto != "http" {
			return
		}
		cc := concOf(c)
		if cc == nil {
			atomic.AddInt64(&skipped, 1)
			return
		}
		fam := c12Family(cc, c.Peer)
		if front[fam] == "" {
			atomic.AddInt64(&skipped, 1)
			return
		}
		if err := cc.RefereeMulti(c); err != nil {
			oracle("%v: %+v", err, *c)
			return
		}
		idx := routes[cc.Name+"|"+c.Key()]
		for rep := 0; rep < 4; rep++ {
			id := fmt.Sprintf("m%d", atomic.AddInt64(&seq, 1))
			var cnt [2]*int64
			for k := range cnt {
				cnt[k] = new(int64)
				hits[k].Store(id, cnt[k])
			}
			req, _ := http.NewRequest("GET", fmt.Sprintf("%s/m/%d/%s", front[fam], idx, id), nil)
			cc.SetXFF(req.Header, c.Xff, "comma", false)
			resp, err := client(cc.Addr[c.Peer]).Do(req)
			if err != nil {
				oracle("%s: request failed: %v", c.Text(cc), err)
				return
			}
			io.Copy(io.Discard, resp.Body)
			resp.Body.Close()
			n := [2]int64{atomic.LoadInt64(cnt[0]), atomic.LoadInt64(cnt[1])}
			hits[0].Delete(id)
			hits[1].Delete(id)
			atomic.AddInt64(&reqs, 1)
			cc2 := *c
			cc2.Conc = cc.Name
			desc := fmt.Sprintf("%s (request %d of 4)", c.Text(cc), rep+1)
			out := ""
			switch {
			case resp.StatusCode == 200 && n[0] == 1 && n[1] == 0:
				out = "served1"
				atomic.AddInt64(&served[0], 1)
			case resp.StatusCode == 200 && n[1] == 1 && n[0] == 0:
				out = "served2"
				atomic.AddInt64(&served[1], 1)
			case resp.StatusCode == 403:
				out = "deny"
				atomic.AddInt64(&denied, 1)
			case resp.StatusCode == 502 || resp.StatusCode == 503 || resp.StatusCode == 504:
				out = "fail"
				atomic.AddInt64(&failed, 1)
			default:
				verifx.Fail(cc2, c.Features("multi-http", "unexpected-response"), "%s: status %d, hits on instance 1 / 2: %d / %d", desc, resp.StatusCode, n[0], n[1])
				continue
			}
			if (out == "deny" || out == "fail") && n[0]+n[1] != 0 {
				verifx.Fail(cc2, c.Features("multi-http", "denied-but-upstream-contacted"), "%s: status %d but hits on instance 1 / 2: %d / %d", desc, resp.StatusCode, n[0], n[1])
			}
			if !c.Allowed(out) {
				clause := "outcome-not-permitted"
				if (out == "served1" && !c.May1) || (out == "served2" && !c.May2) {
					clause = "served-by-target-whose-rules-deny"
				} else if out == "deny" {
					clause = "denied-must-admit"
				}
				verifx.Fail(cc2, c.Features("multi-http", clause), "%s: outcome %s (status %d, hits %d / %d); the specification permits %v", desc, out, resp.StatusCode, n[0], n[1], c.Outcomes)
			}
		}
		atomic.AddInt64(&ran, 1)
		if c.May1 != c.May2 {
			atomic.AddInt64(&nontrivial, 1)
		}
		if i%577 == 21 {
			sampleMu.Lock()
			if len(samples) < 2 {
				samples = append(samples, "multi-target HTTP: "+c.Text(cc)+fmt.Sprintf(" -> %v", c.Outcomes))
			}
			sampleMu.Unlock()
		}
	}
	jobs := make(chan int, 64)
	var wg sync.WaitGroup
	for w := 0; w < 8; w++ {
		wg.Add(1)
		go func() {
			defer wg.Done()
			for i := range jobs {
				runOne(i)
			}
		}()
	}
	for i := range cases {
		jobs <- i
	}
	close(jobs)
	wg.Wait()
	verifx.Summary(map[string]any{"cases": len(cases), "ran": ran, "requests": reqs, "skipped_no_source_address": skipped,
		"served1": served[0], "served2": served[1], "denied": denied, "failed": failed, "routes": len(routes),
		"distinct_nontrivial": nontrivial, "samples": samples, "plumbing": plumbing})
}
