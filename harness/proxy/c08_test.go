package proxy

// C08 conformance: the headers fabio manages, as the upstream received them, must be what
// HttpProxy!AddHeaders prescribes for the case (clause by clause), and Strict-Transport-Security
// must reach the client only on TLS connections.

import (
	"bufio"
	"crypto/tls"
	"fmt"
	"io"
	"net"
	"net/http"
	"sort"
	"strings"
	"testing"
	"time"

	"github.com/fabiolb/fabio/internal/verifx"
)

func c08Forged(cs *cvxCase) string {
	var fs []string
	for _, h := range cvxManagedOrder {
		if st := cs.C.Forged[h]; st != "" && st != "absent" {
			fs = append(fs, h+":"+st)
		}
	}
	sort.Strings(fs)
	return strings.Join(fs, ",")
}

func c08Describe(cs *cvxCase) string {
	conn := "plain"
	if cs.C.TLS {
		conn = "TLS"
	}
	hostopt := ""
	if len(cs.C.Routes) > 0 {
		hostopt = cs.C.Routes[0].HostOpt
	}
	return fmt.Sprintf("%s peer=%s %s kind=%s host=%s route host=%q cfg(clientip=%v tls=%v sts=%v names=%s) forged=[%s]",
		conn, cvxPeerOf(cs), cvxJoin(cs.C.Path), cs.C.Kind, cs.C.RHost, hostopt, cs.C.CfgIP, cs.C.CfgTLS, cs.C.CfgSTS, cs.C.CfgSpell, c08Forged(cs))
}

func c08Features(cs *cvxCase, clause string) map[string]any {
	hostopt := ""
	if len(cs.C.Routes) > 0 {
		hostopt = cs.C.Routes[0].HostOpt
	}
	f := map[string]any{"sub": cs.C.Sub, "clause": clause}
	if st, ok := cs.C.Forged[clause]; ok {
		f["forged"] = st
	}
	switch clause {
	case "clientip", "xrealip", "xff", "forwarded":
		if cs.C.Peer == "v6" {
			f["peer"] = "v6"
		}
	}
	switch clause {
	case "clientip", "tlshdr":
		if cs.C.CfgSpell == "odd" {
			f["cfgspell"] = "odd"
		}
	}
	switch clause {
	case "xff":
		f["kind"] = cs.C.Kind
	case "xfhost", "xfport":
		f["hostopt"] = hostopt
	default:
		f["kind"], f["tls"], f["hostopt"] = cs.C.Kind, cs.C.TLS, hostopt
	}
	return f
}

// c08Conn sends the requests of a history one after the other over ONE keep-alive connection to one of fabio's
// own listeners; what the upstream is told about port and host must follow from each request alone.
func c08Conn(w *cvxWorld, j *cvxJob) bool {
	cs := j.cs
	fail := func(step int, clause, format string, a ...any) {
		f := c08Features(cs, clause)
		f["step"] = step
		verifx.Fail(cs, f, "%s (request %d of %d on one connection)\n  case: %s", fmt.Sprintf(format, a...), step, len(cs.C.Hist), c08Describe(cs))
	}
	if len(cs.Conn) != len(cs.C.Hist) {
		w.errorf("case %d: %d requests, %d expectations", j.id, len(cs.C.Hist), len(cs.Conn))
		return false
	}
	f := w.front(cvxFrontKey(cs))
	if f == nil {
		return false
	}
	var conn net.Conn
	var err error
	if cs.C.TLS {
		conn, err = tls.Dial("tcp", f.addr, &tls.Config{InsecureSkipVerify: true})
	} else {
		conn, err = net.Dial("tcp", f.addr)
	}
	if err != nil {
		w.errorf("case %d: %v", j.id, err)
		return false
	}
	defer conn.Close()
	conn.SetDeadline(time.Now().Add(60 * time.Second)) // safety net only
	br := bufio.NewReader(conn)
	for k, rq := range cs.C.Hist {
		step := *cs
		step.C.Hist, step.Conn = nil, nil
		step.C.Path, step.C.Query, step.C.HostLabel, step.C.RHost = rq.Path, rq.Query, rq.Host, rq.RHost
		rid := j.id + int64(k+1)<<34
		w.plans.Store(rid, &cvxPlan{Status: 200, Body: 1})
		target := cvxJoin(rq.Path)
		if len(rq.Query) > 0 {
			target += "?" + cvxQuery(rq.Query)
		}
		if _, err := fmt.Fprintf(conn, "GET %s HTTP/1.1\r\nHost: %s\r\n%s: %d\r\n\r\n", target, cvxReqHost(&step), cvxIDHeader, rid); err != nil {
			w.errorf("case %d request %d: %v", j.id, k+1, err)
			return false
		}
		resp, err := http.ReadResponse(br, nil)
		if err != nil {
			w.errorf("case %d request %d: %v", j.id, k+1, err)
			return false
		}
		io.Copy(io.Discard, resp.Body)
		resp.Body.Close()
		w.plans.Delete(rid)
		seen := w.take(rid)
		if seen == nil {
			fail(k+1, "upstream-missing", "the upstream was not contacted (client got status %d)", resp.StatusCode)
			continue
		}
		for _, h := range []string{"xfport", "xfhost"} {
			if msg := cvxCheckHdr(&step, h, cs.Conn[k][h], seen.Header[cvxManagedName[h]]); msg != "" {
				fail(k+1, h, "upstream saw %s: %s", cvxManagedName[h], msg)
			}
		}
	}
	return true
}

// c08Fail: the upstream fails (refuses the connection, hangs up before any answer, does not answer in time).  The
// answer fabio makes up is an answer on the client's connection like any other: Strict-Transport-Security on TLS.
func c08Fail(w *cvxWorld, j *cvxJob) bool {
	cs := j.cs
	if cs.Out.Cut {
		w.plans.Store(j.id, &cvxPlan{Fault: cs.Out.Resp, Body: 1})
		defer w.plans.Delete(j.id)
	}
	cs.Att = &cvxAtt{}
	got, err := w.doHTTPOnce(cs, j.id)
	if err != nil {
		w.errorf("case %d: %v (%s)", j.id, err, c08Describe(cs))
		return false
	}
	if got.Status < 500 || got.Status > 599 {
		w.errorf("case %d: the upstream fails (%s) but the client got status %d", j.id, cs.Out.Resp, got.Status)
		return false
	}
	if msg := cvxCheckHdr(cs, "sts", cs.Out.STS, got.Header.Values("Strict-Transport-Security")); msg != "" {
		f := c08Features(cs, "sts")
		f["upstream"] = cs.Out.Resp
		if cs.Out.Kind == "badgateway" {
			f["upstream"] = "refused"
		}
		verifx.Fail(cs, f, "the upstream failed, fabio answered %d; client saw Strict-Transport-Security: %s\n  case: %s", got.Status, msg, c08Describe(cs))
	}
	return true
}

func c08Exec(w *cvxWorld, j *cvxJob) bool {
	cs := j.cs
	if cs.C.Sub == "conn" {
		return c08Conn(w, j)
	}
	if cs.Out.Kind == "badgateway" || cs.Out.Cut {
		return c08Fail(w, j)
	}
	fail := func(clause, format string, a ...any) {
		verifx.Fail(cs, c08Features(cs, clause), "%s\n  case: %s", fmt.Sprintf(format, a...), c08Describe(cs))
	}
	if cs.Out.Kind != "upstream" {
		w.errorf("case %d: outcome %q is not one C08 replays", j.id, cs.Out.Kind)
		return false
	}
	status, hdr := cvxAnswer(cs.Out.Resp)
	w.plans.Store(j.id, &cvxPlan{Status: status, Hdr: hdr, Body: 1})
	defer w.plans.Delete(j.id)
	var got *cvxGot
	var err error
	rid := j.id
	wantStatus := status
	if cs.C.Kind == "http" {
		got, rid, err = w.doHTTP(cs, j.id)
	} else {
		got, rid, err = w.doWS(cs, j.id)
		wantStatus = 101
	}
	if err != nil {
		w.errorf("case %d: %v (%s)", j.id, err, c08Describe(cs))
		return false
	}
	seen := w.take(rid)
	if seen == nil {
		fail("upstream-missing", "the upstream was not contacted (client got status %d)", got.Status)
		return false
	}
	if got.Status != wantStatus {
		fail("status", "client got status %d, want %d", got.Status, wantStatus)
	}
	for _, h := range cvxManagedOrder {
		exp, ok := cs.Up.Managed[h]
		if !ok {
			w.errorf("case %d: no expectation for %s", j.id, h)
			continue
		}
		name := cvxManagedName[h]
		if msg := cvxCheckHdr(cs, h, exp, seen.Header[name]); msg != "" {
			fail(h, "upstream saw %s: %s", name, msg)
		}
	}
	if msg := cvxCheckHdr(cs, "sts", cs.Out.STS, got.Header.Values("Strict-Transport-Security")); msg != "" {
		fail("sts", "client saw Strict-Transport-Security: %s", msg)
	}
	return c08Forged(cs) != "" || cs.C.Routes[0].HostOpt != "" || cs.C.Kind != "http"
}

func TestVerifC08(t *testing.T) {
	(&cvxRunner{prop: "C08", exec: c08Exec, sample: c08Describe}).run(t)
}
