package proxy

// C08 conformance: the headers fabio manages, as the upstream received them, must be what
// HttpProxy!AddHeaders prescribes for the case (clause by clause), and Strict-Transport-Security
// must reach the client only on TLS connections.

import (
	"fmt"
	"sort"
	"strings"
	"testing"

	"github.com/fabiolb/fabio/internal/verifx"
)

func c08Forged(cs *cvxCase) string {
	var fs []string
	for _, h := range cvxManagedOrder {
		if st := cs.C.Forged[h]; st != "" && st != "absent" {
			fs = append(fs, h+":"+st)
		}
	}
	sort.Strings(fs)
	return strings.Join(fs, ",")
}

func c08Describe(cs *cvxCase) string {
	conn := "plain"
	if cs.C.TLS {
		conn = "TLS"
	}
	hostopt := ""
	if len(cs.C.Routes) > 0 {
		hostopt = cs.C.Routes[0].HostOpt
	}
	return fmt.Sprintf("%s peer=%s %s kind=%s host=%s route host=%q cfg(clientip=%v tls=%v sts=%v names=%s) forged=[%s]",
		conn, cvxPeerOf(cs), cvxJoin(cs.C.Path), cs.C.Kind, cs.C.RHost, hostopt, cs.C.CfgIP, cs.C.CfgTLS, cs.C.CfgSTS, cs.C.CfgSpell, c08Forged(cs))
}

func c08Features(cs *cvxCase, clause string) map[string]any {
	hostopt := ""
	if len(cs.C.Routes) > 0 {
		hostopt = cs.C.Routes[0].HostOpt
	}
	f := map[string]any{"sub": cs.C.Sub, "clause": clause}
	if st, ok := cs.C.Forged[clause]; ok {
		f["forged"] = st
	}
	switch clause {
	case "clientip", "xrealip", "xff", "forwarded":
		if cs.C.Peer == "v6" {
			f["peer"] = "v6"
		}
	}
	switch clause {
	case "clientip", "tlshdr":
		if cs.C.CfgSpell == "odd" {
			f["cfgspell"] = "odd"
		}
	}
	switch clause {
	case "xff":
		f["kind"] = cs.C.Kind
	case "xfhost", "xfport":
		f["hostopt"] = hostopt
	default:
		f["kind"], f["tls"], f["hostopt"] = cs.C.Kind, cs.C.TLS, hostopt
	}
	return f
}

func c08Exec(w *cvxWorld, j *cvxJob) bool {
	cs := j.cs
	fail := func(clause, format string, a ...any) {
		verifx.Fail(cs, c08Features(cs, clause), "%s\n  case: %s", fmt.Sprintf(format, a...), c08Describe(cs))
	}
	if cs.Out.Kind != "upstream" {
		w.errorf("case %d: outcome %q is not one C08 replays", j.id, cs.Out.Kind)
		return false
	}
	status, hdr := cvxAnswer(cs.Out.Resp)
	w.plans.Store(j.id, &cvxPlan{Status: status, Hdr: hdr, Body: 1})
	defer w.plans.Delete(j.id)
	var got *cvxGot
	var err error
	rid := j.id
	wantStatus := status
	if cs.C.Kind == "http" {
		got, rid, err = w.doHTTP(cs, j.id)
	} else {
		got, rid, err = w.doWS(cs, j.id)
		wantStatus = 101
	}
	if err != nil {
		w.errorf("case %d: %v (%s)", j.id, err, c08Describe(cs))
		return false
	}
	seen := w.take(rid)
	if seen == nil {
		fail("upstream-missing", "the upstream was not contacted (client got status %d)", got.Status)
		return false
	}
	if got.Status != wantStatus {
		fail("status", "client got status %d, want %d", got.Status, wantStatus)
	}
	for _, h := range cvxManagedOrder {
		exp, ok := cs.Up.Managed[h]
		if !ok {
			w.errorf("case %d: no expectation for %s", j.id, h)
			continue
		}
		name := cvxManagedName[h]
		if msg := cvxCheckHdr(cs, h, exp, seen.Header[name]); msg != "" {
			fail(h, "upstream saw %s: %s", name, msg)
		}
	}
	if msg := cvxCheckHdr(cs, "sts", cs.Out.STS, got.Header.Values("Strict-Transport-Security")); msg != "" {
		fail("sts", "client saw Strict-Transport-Security: %s", msg)
	}
	return c08Forged(cs) != "" || cs.C.Routes[0].HostOpt != "" || cs.C.Kind != "http"
}

func TestVerifC08(t *testing.T) {
	(&cvxRunner{prop: "C08", exec: c08Exec, sample: c08Describe}).run(t)
}
