package proxy

// C20 conformance (proxy part):
//   - uint16base16 against fmt "0x%04x" for all 2^16 values and against the specification's Hex4
//   - i32toa against strconv for all 2^32 values (thorough; quick: boundaries + seeded sample)
//   - end to end: the real HTTPProxy with an access logger writing to a buffer and a route whose
//     upstream URL has no port (answered by a local RoundTripper, no DNS): the response must be
//     the one the client gets without a logger, and exactly one correct line is written.

import (
	"bytes"
	"encoding/json"
	"fmt"
	"io"
	"math"
	"math/rand"
	"net"
	"net/http"
	"net/http/httptest"
	"sort"
	"strconv"
	"strings"
	"sync"
	"sync/atomic"
	"testing"
	"time"

	"github.com/fabiolb/fabio/config"
	"github.com/fabiolb/fabio/internal/verifx"
	"github.com/fabiolb/fabio/logger"
	"github.com/fabiolb/fabio/route"
)

type c20pCase struct {
	Hex []struct {
		N int    `json:"n"`
		S string `json:"s"`
	} `json:"hex,omitempty"`
	// replay
	Kind     string `json:"kind,omitempty"` // "e2e" | "hex" | "i32toa"
	Upstream string `json:"upstream,omitempty"`
	Format   string `json:"format,omitempty"`
	Remote   string `json:"remote,omitempty"`
	V        int64  `json:"v,omitempty"`
}

// ---------------------------------------------------------------- pure formatters

func c20pHex(spec map[int]string) (ran int64) {
	for n := 0; n < 1<<16; n++ {
		ran++
		var got string
		p, _ := verifx.Safely(func() { got = uint16base16(uint16(n)) })
		want := fmt.Sprintf("0x%04x", n)
		if s, ok := spec[n]; ok && s != want {
			verifx.Emit(map[string]any{"kind": "oracle", "msg": fmt.Sprintf("Hex4(%d): spec %q, fmt %q", n, s, want)})
		}
		if p != nil || got != want {
			verifx.Fail(c20pCase{Kind: "hex", V: int64(n)}, map[string]any{"sub": "proxy", "clause": "uint16base16", "digit": c20pFirstDiff(got, want)},
				"uint16base16(%d) = %q (panic %v), fmt renders %q", n, got, p, want)
		}
	}
	return
}

func c20pFirstDiff(a, b string) int {
	for i := 0; i < len(a) && i < len(b); i++ {
		if a[i] != b[i] {
			return i
		}
	}
	return -1
}

func c20pI32One(v int32, buf []byte) bool {
	var got string
	p, _ := verifx.Safely(func() { got = i32toa(v) })
	want := strconv.AppendInt(buf[:0], int64(v), 10)
	if p != nil || got != string(want) {
		cls := "positive"
		if v < 0 {
			cls = "negative"
		}
		if v == math.MinInt32 {
			cls = "minint32"
		}
		verifx.Fail(c20pCase{Kind: "i32toa", V: int64(v)}, map[string]any{"sub": "proxy", "clause": "i32toa", "sign": cls, "digits": len(want)},
			"i32toa(%d) = %q (panic %v), strconv renders %q", v, got, p, want)
		return false
	}
	return true
}

func c20pI32(all bool, nrand int) (ran int64) {
	buf := make([]byte, 0, 16)
	bounds := []int64{0, 1, -1, 9, 10, -9, -10, 99, 100, 999999999, 1000000000, -999999999, -1000000000, math.MaxInt32, math.MinInt32, math.MaxInt32 - 1, math.MinInt32 + 1, 31536000}
	for k := 0; k < 31; k++ {
		bounds = append(bounds, 1<<uint(k), 1<<uint(k)-1, -(1 << uint(k)), -(1<<uint(k) - 1))
	}
	for _, v := range bounds {
		c20pI32One(int32(v), buf)
		ran++
	}
	if !all {
		r := verifx.Rand()
		for i := 0; i < nrand; i++ {
			c20pI32One(int32(r.Uint32()), buf)
			ran++
		}
		return
	}
	const workers = 16
	var wg sync.WaitGroup
	var n int64
	for w := 0; w < workers; w++ {
		wg.Add(1)
		go func(w int) {
			defer wg.Done()
			b := make([]byte, 0, 16)
			lo := int64(math.MinInt32) + int64(w)*(1<<32/workers)
			hi := lo + 1<<32/workers
			bad := 0
			for v := lo; v < hi; v++ {
				// compare without allocating on the reference side
				got := i32toa(int32(v))
				want := strconv.AppendInt(b[:0], v, 10)
				if got != string(want) {
					if bad < 5 {
						c20pI32One(int32(v), b)
					}
					bad++
				}
			}
			atomic.AddInt64(&n, hi-lo)
		}(w)
	}
	wg.Wait()
	return ran + n
}

// ---------------------------------------------------------------- end to end

type c20pRT struct{ calls int64 }

func (rt *c20pRT) RoundTrip(r *http.Request) (*http.Response, error) {
	atomic.AddInt64(&rt.calls, 1)
	body := "hello from " + r.URL.Host + " " + r.URL.Path
	return &http.Response{StatusCode: 203, Status: "203 Non-Authoritative Information", Proto: "HTTP/1.1", ProtoMajor: 1, ProtoMinor: 1,
		Header: http.Header{"Content-Type": {"text/plain"}, "X-Upstream": {r.URL.Host}}, Body: io.NopCloser(strings.NewReader(body)),
		ContentLength: int64(len(body)), Request: r}, nil
}

type c20pResult struct {
	code   int
	header string
	body   string
	panic  any
	stack  string
}

func c20pServe(upstream, remote string, l logger.Logger) (res c20pResult, rt *c20pRT) {
	tbl, err := route.NewTable(bytes.NewBufferString("route add svc-e2e / " + upstream))
	if err != nil {
		panic("harness route rejected: " + err.Error())
	}
	rt = &c20pRT{}
	times := []time.Time{time.Date(2024, 2, 29, 23, 59, 58, 1, time.UTC), time.Date(2024, 2, 29, 23, 59, 59, 999999999, time.UTC)}
	var k int64 = -1
	p := &HTTPProxy{
		Config:    config.Proxy{},
		Transport: rt,
		Time:      func() time.Time { return times[int(atomic.AddInt64(&k, 1))%2] },
		Lookup: func(r *http.Request) *route.Target {
			return tbl.Lookup(r, "", route.Picker["rr"], route.Matcher["prefix"], route.NewGlobCache(10), false)
		},
		Logger: l,
	}
	req := httptest.NewRequest("GET", "http://front.example/some/path?x=1", nil)
	req.RemoteAddr = remote
	req.Header.Set("User-Agent", "verif-agent")
	rec := httptest.NewRecorder()
	res.panic, res.stack = verifx.Safely(func() { p.ServeHTTP(rec, req) })
	res.code = rec.Code
	res.body = rec.Body.String()
	var hs []string
	for name, v := range rec.Header() {
		hs = append(hs, name+": "+strings.Join(v, ","))
	}
	sort.Strings(hs)
	res.header = strings.Join(hs, "\n")
	return
}

func c20pAddrClass(a string) string {
	switch {
	case strings.HasPrefix(a, "[") && strings.HasSuffix(a, "]"):
		return "ipv6-no-port"
	case strings.HasPrefix(a, "["):
		return "ipv6-port"
	case !strings.Contains(a, ":"):
		return "no-port"
	}
	return "host-port"
}

type c20pLine struct {
	mu sync.Mutex
	b  bytes.Buffer
	n  int
}

func (w *c20pLine) Write(p []byte) (int, error) {
	w.mu.Lock()
	defer w.mu.Unlock()
	if len(p) > 0 {
		w.n++
	}
	return w.b.Write(p)
}

func c20pE2E(upstreamURL, format, remote string) {
	u := strings.TrimSuffix(strings.TrimPrefix(upstreamURL, "http://"), "/")
	cs := c20pCase{Kind: "e2e", Upstream: upstreamURL, Format: format, Remote: remote}
	feat := func(clause string) map[string]any {
		return map[string]any{"sub": "proxy", "clause": clause, "upstream": c20pAddrClass(u), "format": c20pFormatName(format)}
	}
	control, _ := c20pServe(upstreamURL, remote, nil)
	if control.panic != nil || control.code != 203 {
		verifx.Emit(map[string]any{"kind": "error", "msg": fmt.Sprintf("e2e control run without logger failed for %s: code %d panic %v", upstreamURL, control.code, control.panic)})
		return
	}
	var out c20pLine
	l, err := logger.New(&out, format)
	if err != nil {
		verifx.Emit(map[string]any{"kind": "error", "msg": "e2e format rejected: " + err.Error()})
		return
	}
	got, rt := c20pServe(upstreamURL, remote, l)
	if got.panic != nil {
		verifx.Fail(cs, feat("request-panics"), "request through HTTPProxy with access log format %q and upstream %s panicked: %v\n%s", format, upstreamURL, got.panic, c20pStack(got.stack))
		return
	}
	if got.code != control.code || got.body != control.body || got.header != control.header {
		verifx.Fail(cs, feat("response-altered"), "with the access logger the response is %d %q [%s], without it %d %q [%s]", got.code, got.body, got.header, control.code, control.body, control.header)
		return
	}
	if atomic.LoadInt64(&rt.calls) != 1 {
		verifx.Fail(cs, feat("response-altered"), "upstream called %d times", rt.calls)
	}
	// expected line from the standard library
	host, port := u, ""
	if h, p, err := net.SplitHostPort(u); err == nil {
		host, port = h, p
	}
	hosts := []string{host}
	if strings.HasPrefix(u, "[") {
		hosts = []string{strings.Trim(host, "[]"), "[" + strings.Trim(host, "[]") + "]"}
	}
	rh, rp, _ := net.SplitHostPort(remote)
	rhosts := []string{rh}
	if strings.HasPrefix(remote, "[") {
		rhosts = append(rhosts, "["+rh+"]")
	}
	end := time.Date(2024, 2, 29, 23, 59, 59, 999999999, time.UTC)
	var want []string
	for _, uh := range hosts {
		for _, rhh := range rhosts {
			line := format
			subst := [][2]string{
				{"$upstream_host", uh}, {"$upstream_port", port}, {"$upstream_addr", u}, {"$upstream_service", "svc-e2e"},
				{"$upstream_request_url", upstreamURL[:len(upstreamURL)-1] + "/some/path?x=1"},
				{"$remote_host", rhh}, {"$remote_port", rp}, {"$remote_addr", remote},
				{"$response_status", strconv.Itoa(203)}, {"$response_body_size", strconv.Itoa(len(control.body))},
				{"$response_time_ns", "1.999999998"}, {"$time_rfc3339_ns", end.Format("2006-01-02T15:04:05.000000000Z")},
				{"$time_common", end.Format("02/Jan/2006:15:04:05 +0000")}, {"$request_uri", "http://front.example/some/path?x=1"},
				{"$header.User-Agent", "verif-agent"}, {"$header.Referer", ""}, {"$request_method", "GET"},
				{"$request", "GET http://front.example/some/path?x=1 HTTP/1.1"},
			}
			// longest name first so that $request does not eat $request_uri
			sort.SliceStable(subst, func(i, j int) bool { return len(subst[i][0]) > len(subst[j][0]) })
			for _, kv := range subst {
				line = strings.ReplaceAll(line, kv[0], kv[1])
			}
			want = append(want, line+"\n")
		}
	}
	written := out.b.String()
	ok := false
	for _, w := range want {
		if w == written {
			ok = true
		}
	}
	if !ok || out.n != 1 {
		clause := "wrong-line"
		if strings.Count(written, "\n") != 1 || out.n != 1 {
			clause = "not-one-line"
		}
		verifx.Fail(cs, feat(clause), "access log wrote %q in %d writes; expected one of %q", written, out.n, want)
	}
}

func c20pFormatName(f string) string {
	switch f {
	case logger.CommonFormat:
		return "common"
	case logger.CombinedFormat:
		return "combined"
	}
	if len(f) > 40 {
		return f[:40] + "..."
	}
	return f
}

func c20pStack(s string) string {
	var keep []string
	lines := strings.Split(s, "\n")
	for i, l := range lines {
		if (strings.Contains(l, "fabio/logger.") || strings.Contains(l, "fabio/proxy.")) && !strings.Contains(l, "c20p") {
			keep = append(keep, strings.TrimSpace(l))
			if i+1 < len(lines) {
				keep = append(keep, "    "+strings.TrimSpace(lines[i+1]))
			}
		}
		if len(keep) >= 10 {
			break
		}
	}
	return strings.Join(keep, "\n")
}

var c20pFormats = []string{
	logger.CommonFormat,
	logger.CombinedFormat,
	"$upstream_host",
	"$upstream_port|",
	"$remote_host:$remote_port -> $upstream_addr ($upstream_host;$upstream_port) $upstream_service $upstream_request_url $response_status $response_body_size $response_time_ns $time_rfc3339_ns",
	"$request_method $request_uri $header.User-Agent",
}

func TestVerifC20Proxy(t *testing.T) {
	spec := map[int]string{}
	var replays []c20pCase
	if err := verifx.EachCase("", func(raw []byte) error {
		var c c20pCase
		if json.Unmarshal(raw, &c) != nil {
			return nil // a record of another shape (logger cases)
		}
		for _, h := range c.Hex {
			spec[h.N] = h.S
		}
		if c.Kind != "" {
			replays = append(replays, c)
		}
		return nil
	}); err != nil {
		t.Fatal(err)
	}
	if len(replays) > 0 {
		buf := make([]byte, 0, 16)
		for _, c := range replays {
			switch c.Kind {
			case "e2e":
				c20pE2E(c.Upstream, c.Format, c.Remote)
			case "i32toa":
				c20pI32One(int32(c.V), buf)
			case "hex":
				got := uint16base16(uint16(c.V))
				if want := fmt.Sprintf("0x%04x", c.V); got != want {
					verifx.Fail(c, map[string]any{"sub": "proxy", "clause": "uint16base16", "digit": c20pFirstDiff(got, want)}, "uint16base16(%d) = %q, fmt renders %q", c.V, got, want)
				}
			}
		}
		verifx.Summary(map[string]any{"replayed": len(replays)})
		return
	}
	nhex := c20pHex(spec)
	// concurrent calls return the rendering of their own argument (UuidConc.tla)
	{
		var wg sync.WaitGroup
		var bad int64
		for w := 0; w < 16; w++ {
			wg.Add(1)
			go func(w int) {
				defer wg.Done()
				buf := make([]byte, 0, 16)
				for i := 0; i < 20000; i++ {
					n := uint16(w*4096 + i%4096)
					if got, want := uint16base16(n), fmt.Sprintf("0x%04x", n); got != want && atomic.AddInt64(&bad, 1) <= 3 {
						verifx.Fail(c20pCase{Kind: "hex", V: int64(n)}, map[string]any{"sub": "proxy", "clause": "concurrent-call", "fn": "uint16base16"},
							"uint16base16(%d) called from 16 goroutines at once returned %q, fmt renders %q", n, got, want)
					}
					v := int32(w)<<27 ^ int32(i*7919)
					if got := i32toa(v); got != string(strconv.AppendInt(buf[:0], int64(v), 10)) && atomic.AddInt64(&bad, 1) <= 3 {
						verifx.Fail(c20pCase{Kind: "i32toa", V: int64(v)}, map[string]any{"sub": "proxy", "clause": "concurrent-call", "fn": "i32toa"},
							"i32toa(%d) called from 16 goroutines at once returned %q", v, got)
					}
				}
			}(w)
		}
		wg.Wait()
	}
	ni32 := c20pI32(verifx.Thorough(), verifx.EnvInt("VERIF_C20_I32", 1000000))
	ne2e := 0
	r := rand.New(rand.NewSource(verifx.Seed()))
	for _, up := range []string{"http://backend/", "http://backend:8080/", "http://[::1]/", "http://[::1]:8080/", "http://10.1.2.3/", "http://10.1.2.3:80/"} {
		for _, f := range c20pFormats {
			remote := []string{"1.2.3.4:5555", "[::1]:5555", "192.168.0.1:1"}[r.Intn(3)]
			c20pE2E(up, f, remote)
			ne2e++
		}
	}
	verifx.Summary(map[string]any{"hex": nhex, "hex_spec": len(spec), "i32toa": ni32, "e2e": ne2e})
}
