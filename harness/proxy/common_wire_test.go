package proxy

// How the shared harness (common_verif_test.go) reaches the code under test when it is compiled into package
// proxy: the proxy is put together exactly like main.newHTTPProxy does it (route.GetTable().Lookup with the
// default picker and matcher and a glob cache, every metrics handler of main set - with the discard provider
// main uses when metrics are off), fabio's own listener is proxy.ListenAndServeHTTP.

import (
	"crypto/tls"
	"io"
	"net"
	"net/http"
	"time"

	"github.com/fabiolb/fabio/config"
	"github.com/fabiolb/fabio/logger"
	"github.com/fabiolb/fabio/metrics"
	"github.com/fabiolb/fabio/noroute"
	"github.com/fabiolb/fabio/route"
)

func init() {
	cvxMakeProxy = func(w *cvxWorld, o cvxWire) http.Handler {
		cfg, accessLog := o.cfg, o.accessLog
		tr := w.upTr
		if o.rTimeout {
			tr = w.upTrTimeout
		}
		pick := route.Picker["rnd"]
		match := route.Matcher["prefix"]
		gc := route.NewGlobCache(4096)
		dp := metrics.DiscardProvider{}
		p := &HTTPProxy{
			Config:            cfg,
			Transport:         tr,
			InsecureTransport: tr,
			Lookup: func(r *http.Request) *route.Target {
				return route.GetTable().Lookup(r, r.Header.Get("trace"), pick, match, gc, o.noGlob)
			},
			Stats: HttpStatsHandler{
				Requests:        dp.NewHistogram("requests"),
				Noroute:         dp.NewCounter("notfound"),
				WSConn:          dp.NewGauge("ws.conn"),
				StatusTimer:     dp.NewHistogram("http.status", "code"),
				RedirectCounter: dp.NewCounter("http.redirect.count", "code"),
			},
		}
		if accessLog {
			if l, err := logger.New(io.Discard, logger.CombinedFormat); err == nil {
				p.Logger = l
			}
		}
		return p
	}
	cvxListen = cvxListenFabio(ListenAndServeHTTP, CloseProxy)
	// stand-in: in package proxy there is no registry watcher; the page is stored where the watcher stores it
	// (the real watcher, main.watchNoRouteHTML, is driven by the package main part of C07)
	cvxDeliverPage = func(page string) error { noroute.SetHTML(page); return nil }
}

// cvxListenFabio serves on one of fabio's own listeners and waits (start-up only) until it accepts.
func cvxListenFabio(listen func(config.Listen, http.Handler, *tls.Config) error, closeProxy func(string) error) func(string, http.Handler, *tls.Config) (func(), error) {
	return func(addr string, h http.Handler, tc *tls.Config) (func(), error) {
		errc := make(chan error, 1)
		go func() { errc <- listen(config.Listen{Addr: addr, Proto: "http"}, h, tc) }()
		for i := 0; i < 4000; i++ {
			select {
			case err := <-errc:
				return nil, err
			default:
			}
			c, err := net.DialTimeout("tcp", addr, time.Second)
			if err == nil {
				c.Close()
				return func() { closeProxy(addr) }, nil
			}
			time.Sleep(2 * time.Millisecond)
		}
		return nil, net.ErrClosed
	}
}
