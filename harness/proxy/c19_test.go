package proxy

// C19 conformance, part 2 (spec/Transport.tla, behaviour): for every case TLC printed
// (configuration c, configuration that was in force before, kind of transport, upstream delay
// relative to c's response-header timeout) a real HTTPProxy is built the way main.newHTTPProxy
// builds it (transport.SetConfig, then Transport: transport.NewTransport(nil),
// InsecureTransport: transport.NewTransport(skip-verify), routes from route.NewTable) and a
// real client sends a request through it to a real upstream that answers after the delay.
// The property is a time bound: 504 within the configured timeout (+1.5 s slack; faster never
// fails), 200 when the upstream answers in a tenth of the timeout.

import (
	"bytes"
	"crypto/tls"
	"encoding/json"
	"fmt"
	"io"
	"net/http"
	"net/http/httptest"
	"strconv"
	"sync"
	"testing"
	"time"

	"github.com/fabiolb/fabio/config"
	"github.com/fabiolb/fabio/internal/verifx"
	"github.com/fabiolb/fabio/route"
	"github.com/fabiolb/fabio/transport"
)

type c19Cfg struct {
	Name    string `json:"name"`
	Dial    int    `json:"dial"`
	Rht     int    `json:"rht"`
	Ka      int    `json:"ka"`
	Idle    int    `json:"idle"`
	MaxIdle int    `json:"maxidle"`
}

type c19Beh struct {
	C     c19Cfg `json:"c"`
	First c19Cfg `json:"first"`
	Kind  string `json:"kind"`
	Class string `json:"class"`
	Delay int    `json:"delay"`
	Out   struct {
		Status int `json:"status"`
		Within int `json:"within"`
	} `json:"out"`
}

func c19Config(c c19Cfg) *config.Config {
	ms := func(n int) time.Duration { return time.Duration(n) * time.Millisecond }
	cfg := &config.Config{}
	cfg.Proxy.DialTimeout = ms(c.Dial)
	cfg.Proxy.ResponseHeaderTimeout = ms(c.Rht)
	cfg.Proxy.KeepAliveTimeout = ms(c.Ka)
	cfg.Proxy.IdleConnTimeout = ms(c.Idle)
	cfg.Proxy.MaxConn = c.MaxIdle
	return cfg
}

// c19NewProxy is main.newHTTPProxy reduced to what matters here.
func c19NewProxy(cfg *config.Config, routes string) (*HTTPProxy, error) {
	tbl, err := route.NewTable(bytes.NewBufferString(routes))
	if err != nil {
		return nil, err
	}
	globCache := route.NewGlobCache(1000)
	pick, match := route.Picker["rnd"], route.Matcher["prefix"]
	return &HTTPProxy{
		Config:            cfg.Proxy,
		Transport:         transport.NewTransport(nil),
		InsecureTransport: transport.NewTransport(&tls.Config{InsecureSkipVerify: true}),
		Lookup: func(r *http.Request) *route.Target {
			return tbl.Lookup(r, r.Header.Get("trace"), pick, match, globCache, false)
		},
	}, nil
}

const c19Slack = 1500 * time.Millisecond

func TestVerifC19Behaviour(t *testing.T) {
	cases, err := verifx.ReadCases[c19Beh]("")
	if err != nil {
		t.Fatal(err)
	}
	defer transport.SetConfig(&config.Config{})

	// upstreams: answer after ?d=<ms>; give up early when the proxy has gone away
	slow := http.HandlerFunc(func(w http.ResponseWriter, r *http.Request) {
		d, _ := strconv.Atoi(r.URL.Query().Get("d"))
		if d > 0 {
			tm := time.NewTimer(time.Duration(d) * time.Millisecond)
			defer tm.Stop()
			select {
			case <-tm.C:
			case <-r.Context().Done():
				return
			}
		}
		w.Header().Set("X-Upstream", "c19")
		w.WriteHeader(200)
		io.WriteString(w, "ok")
	})
	plain := httptest.NewServer(slow)
	defer plain.Close()
	secure := httptest.NewTLSServer(slow)
	defer secure.Close()

	type built struct {
		c   c19Beh
		srv *httptest.Server
	}
	var bs []built
	for _, c := range cases {
		var routes string
		switch c.Kind {
		case "default":
			routes = "route add svc / " + plain.URL + "/"
		case "insecure":
			routes = "route add svc / " + secure.URL + `/ opts "tlsskipverify=true"`
		case "hostoverride":
			routes = "route add svc / " + secure.URL + `/ opts "host=x.test tlsskipverify=true"`
		default:
			t.Fatalf("unknown kind %q", c.Kind)
		}
		transport.SetConfig(&config.Config{})
		if c.First.Name != "zero" { // an earlier configuration, and a proxy built under it
			transport.SetConfig(c19Config(c.First))
			if _, err := c19NewProxy(c19Config(c.First), routes); err != nil {
				t.Fatal(err)
			}
		}
		cfg := c19Config(c.C)
		transport.SetConfig(cfg)
		p, err := c19NewProxy(cfg, routes)
		if err != nil {
			verifx.Fail(c, map[string]any{"sub": "behaviour", "kind": c.Kind, "clause": "build"}, "cannot build the proxy: %v", err)
			continue
		}
		bs = append(bs, built{c, httptest.NewServer(p)})
	}

	var wg sync.WaitGroup
	var mu sync.Mutex
	var ran, retried int
	var samples []string
	for i, b := range bs {
		wg.Add(1)
		go func(i int, b built) {
			defer wg.Done()
			defer b.srv.Close()
			c := b.c
			T := time.Duration(c.C.Rht) * time.Millisecond
			bound := time.Duration(c.Out.Within)*time.Millisecond + c19Slack
			attempt := func() (clause, msg string, timing bool) {
				cl := &http.Client{Timeout: bound + time.Duration(c.Delay)*time.Millisecond/4 + 2*time.Second, Transport: &http.Transport{DisableKeepAlives: true}}
				t0 := time.Now()
				resp, err := cl.Get(b.srv.URL + "/?d=" + strconv.Itoa(c.Delay))
				el := time.Since(t0)
				if err != nil {
					if c.Out.Status == 504 {
						return "not-cut-off", fmt.Sprintf("no response within %v (response-header timeout %v, upstream delay %d ms): %v", el, T, c.Delay, err), false
					}
					return "client-error", fmt.Sprintf("request failed after %v: %v", el, err), true
				}
				io.Copy(io.Discard, resp.Body)
				resp.Body.Close()
				switch {
				case c.Out.Status == 504 && resp.StatusCode != 504:
					return "not-cut-off", fmt.Sprintf("status %d after %v; the upstream needs %d ms, the response-header timeout is %v: want 504 within %v", resp.StatusCode, el, c.Delay, T, bound), false
				case c.Out.Status == 504 && el > bound:
					return "late", fmt.Sprintf("504 after %v, want within %v (timeout %v + slack)", el, bound, T), true
				case c.Out.Status == 200 && resp.StatusCode != 200:
					return "timely-upstream-not-served", fmt.Sprintf("status %d after %v; the upstream answers after %d ms, the response-header timeout is %v: want 200", resp.StatusCode, el, c.Delay, T), true
				}
				return "", "", false
			}
			var clause, msg string
			for try := 0; try < 3; try++ {
				var timing bool
				clause, msg, timing = attempt()
				mu.Lock()
				ran++
				if try > 0 {
					retried++
				}
				mu.Unlock()
				if clause == "" || !timing {
					break // only verdicts that a stalled machine could cause are tried again
				}
			}
			if clause != "" {
				verifx.Fail(c, map[string]any{"sub": "behaviour", "kind": c.Kind, "clause": clause, "class": c.Class},
					"%s transport, SetConfig(%s) after %s, upstream delay %d ms: %s", c.Kind, c.C.Name, c.First.Name, c.Delay, msg)
			}
			if i%17 == 3 {
				bj, _ := json.Marshal(c)
				mu.Lock()
				if len(samples) < 3 {
					samples = append(samples, string(bj))
				}
				mu.Unlock()
			}
		}(i, b)
	}
	wg.Wait()
	nontrivial := 0
	for _, b := range bs {
		if b.c.Class != "zero" {
			nontrivial++
		}
	}
	verifx.Summary(map[string]any{"cases": len(cases), "ran": ran, "retried": retried, "distinct_nontrivial": nontrivial, "samples": samples})
}
