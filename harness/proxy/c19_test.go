package proxy

// C19 conformance, part 2 (spec/Transport.tla, behaviour): for every case TLC printed
// (configuration c, configuration that was in force before, kind of transport, upstream delay
// relative to c's response-header timeout) a real HTTPProxy is built the way main.newHTTPProxy
// builds it (transport.SetConfig, then Transport: transport.NewTransport(nil),
// InsecureTransport: transport.NewTransport(skip-verify), routes from route.NewTable) and a
// real client sends a request through it to a real upstream that answers after the delay.
// The property is a time bound: 504 within the configured timeout (+1.5 s slack; faster never
// fails), 200 when the upstream answers in a tenth of the timeout.

import (
	"bytes"
	"crypto/tls"
	"encoding/json"
	"fmt"
	"io"
	"net/http"
	"net/http/httptest"
	"strconv"
	"sync"
	"testing"
	"time"

	"github.com/fabiolb/fabio/config"
	"github.com/fabiolb/fabio/internal/verifx"
	"github.com/fabiolb/fabio/route"
	"github.com/fabiolb/fabio/transport"
)

type c19Cfg struct {
	Name    string `json:"name"`
	Dial    int    `json:"dial"`
	Rht     int    `json:"rht"`
	Ka      int    `json:"ka"`
	Idle    int    `json:"idle"`
	MaxIdle int    `json:"maxidle"`
}

type c19Beh struct {
	C     c19Cfg `json:"c"`
	First c19Cfg `json:"first"`
	Kind  string `json:"kind"`
	Class string `json:"class"`
	Delay int    `json:"delay"`
	Out   struct {
		Status int `json:"status"`
		Within int `json:"within"`
	} `json:"out"`
}

func c19Config(c c19Cfg) *config.Config {
	ms := func(n int) time.Duration { return time.Duration(n) * time.Millisecond }
	cfg := &config.Config{}
	cfg.Proxy.DialTimeout = ms(c.Dial)
	cfg.Proxy.ResponseHeaderTimeout = ms(c.Rht)
	cfg.Proxy.KeepAliveTimeout = ms(c.Ka)
	cfg.Proxy.IdleConnTimeout = ms(c.Idle)
	cfg.Proxy.MaxConn = c.MaxIdle
	return cfg
}

// c19NewProxy is main.newHTTPProxy reduced to what matters here.
func c19NewProxy(cfg *config.Config, routes string) (*HTTPProxy, error) {
	tbl, err := route.NewTable(bytes.NewBufferString(routes))
	if err != nil {
		return nil, err
	}
	globCache := route.NewGlobCache(1000)
	pick, match := route.Picker["rnd"], route.Matcher["prefix"]
	return &HTTPProxy{
		Config:            cfg.Proxy,
		Transport:         transport.NewTransport(nil),
		InsecureTransport: transport.NewTransport(&tls.Config{InsecureSkipVerify: true}),
		Lookup: func(r *http.Request) *route.Target {
			return tbl.Lookup(r, r.Header.Get("trace"), pick, match, globCache, false)
		},
	}, nil
}

const c19Slack = 1500 * time.Millisecond

func TestVerifC19Behaviour(t *testing.T) {
	cases, err := verifx.ReadCases[c19Beh]("")
	if err != nil {
		t.Fatal(err)
	}
	defer transport.SetConfig(&config.Config{})

	// upstreams: answer after ?d=<ms>; give up early when the proxy has gone away
	slow := http.HandlerFunc(func(w http.ResponseWriter, r *http.Request) {
		d, _ := strconv.Atoi(r.URL.Query().Get("d"))
		if d > 0 {
			tm := time.NewTimer(time.Duration(d) * time.Millisecond)
			defer tm.Stop()
			select {
			case <-tm.C:
			case <-r.Context().Done():
				return
			}
		}
		w.Header().Set("X-Upstream", "c19")
		w.WriteHeader(200)
		io.WriteString(w, "ok")
	})
	plain := httptest.NewServer(slow)
	defer plain.Close()
	secure := httptest.NewTLSServer(slow)
	defer secure.Close()

	type built struct {
		c   c19Beh
		srv *httptest.Server
	}
	var bs []built
	for _, c := range cases {
		var routes string
		switch c.Kind {
		case "default":
			routes = "route add svc / " + plain.URL + "/"
		case "insecure":
			routes = "route add svc / " + secure.URL + `/ opts "tlsskipverify=true"`
		case "hostoverride":
			routes = "route add svc / " + secure.URL + `/ opts "host=x.test tlsskipverify=true"`
		default:
			t.Fatalf("unknown kind %q", c.Kind)
		}
		transport.SetConfig(&config.Config{})
		if c.First.Name != "zero" { // an earlier configuration, and a proxy built under it
			transport.SetConfig(c19Config(c.First))
			if _, err := c19NewProxy(c19Config(c.First), routes); err != nil {
				t.Fatal(err)
			}
		}
		cfg := c19Config(c.C)
		transport.SetConfig(cfg)
		p, err := c19NewProxy(cfg, routes)
		if err != nil {
			verifx.Fail(c, map[string]any{"sub": "behaviour", "kind": c.Kind, "clause": "build"}, "cannot build the proxy: %v", err)
			continue
		}
		bs = append(bs, built{c, httptest.NewServer(p)})
	}

	// The requests of a round run in parallel.  A verdict counts only when the process was not
	// stalled during the round (every verdict here depends on timers), and a case is reported
	// when it failed in two such rounds.
	type verdict struct{ clause, msg string }
	attempt := func(b built) verdict {
		c := b.c
		T := time.Duration(c.C.Rht) * time.Millisecond
		bound := time.Duration(c.Out.Within)*time.Millisecond + c19Slack
		cl := &http.Client{Timeout: bound + time.Duration(c.Delay)*time.Millisecond/4 + 2*time.Second, Transport: &http.Transport{DisableKeepAlives: true}}
		t0 := time.Now()
		resp, err := cl.Get(b.srv.URL + "/?d=" + strconv.Itoa(c.Delay))
		el := time.Since(t0)
		if err != nil {
			if c.Out.Status == 504 {
				return verdict{"not-cut-off", fmt.Sprintf("no response within %v (response-header timeout %v, upstream delay %d ms): %v", el, T, c.Delay, err)}
			}
			return verdict{"client-error", fmt.Sprintf("request failed after %v: %v", el, err)}
		}
		io.Copy(io.Discard, resp.Body)
		resp.Body.Close()
		switch {
		case c.Out.Status == 504 && resp.StatusCode != 504:
			return verdict{"not-cut-off", fmt.Sprintf("status %d after %v; the upstream needs %d ms, the response-header timeout is %v: want 504 within %v", resp.StatusCode, el, c.Delay, T, bound)}
		case c.Out.Status == 504 && el > bound:
			return verdict{"late", fmt.Sprintf("504 after %v, want within %v (timeout %v + slack)", el, bound, T)}
		case c.Out.Status == 200 && resp.StatusCode != 200:
			return verdict{"timely-upstream-not-served", fmt.Sprintf("status %d after %v; the upstream answers after %d ms, the response-header timeout is %v: want 200", resp.StatusCode, el, c.Delay, T)}
		}
		return verdict{}
	}
	var ran, retried int
	var samples []string
	strikes := map[int]int{}
	last := map[int]verdict{}
	pending := make([]int, len(bs))
	for i := range pending {
		pending[i] = i
	}
	valid, unstable := 0, false
	for round := 0; round < 6 && len(pending) > 0 && valid < 2; round++ {
		sw := verifx.WatchStalls()
		res := make([]verdict, len(bs))
		var wg sync.WaitGroup
		for _, i := range pending {
			wg.Add(1)
			go func(i int) {
				defer wg.Done()
				res[i] = attempt(bs[i])
			}(i)
		}
		wg.Wait()
		ran += len(pending)
		if round > 0 {
			retried += len(pending)
		}
		if gap := sw.Stop(); gap > 150*time.Millisecond {
			verifx.Emit(map[string]any{"kind": "note", "msg": fmt.Sprintf("round %d void: the process stalled for %v", round, gap)})
			continue
		}
		valid++
		var next []int
		for _, i := range pending {
			if res[i].clause != "" {
				strikes[i]++
				last[i] = res[i]
				next = append(next, i)
			}
		}
		pending = next
	}
	if len(pending) > 0 && valid < 2 {
		unstable = true
	}
	for i, b := range bs {
		b.srv.Close()
		c := b.c
		if strikes[i] >= 2 {
			verifx.Fail(c, map[string]any{"sub": "behaviour", "kind": c.Kind, "clause": last[i].clause, "class": c.Class},
				"%s transport, SetConfig(%s) after %s, upstream delay %d ms: %s", c.Kind, c.C.Name, c.First.Name, c.Delay, last[i].msg)
		}
		if i%17 == 3 && len(samples) < 3 {
			bj, _ := json.Marshal(c)
			samples = append(samples, string(bj))
		}
	}
	nontrivial := 0
	for _, b := range bs {
		if b.c.Class != "zero" {
			nontrivial++
		}
	}
	verifx.Summary(map[string]any{"cases": len(cases), "ran": ran, "retried": retried, "unstable": unstable, "distinct_nontrivial": nontrivial, "samples": samples})
}
