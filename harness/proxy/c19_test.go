package proxy

// C19 conformance, part 2 (spec/Transport.tla, behaviour): for every case TLC printed
// (configuration c, configuration that was in force before, kind of transport, upstream delay
// relative to c's response-header timeout) a real HTTPProxy is built the way main.newHTTPProxy
// builds it (transport.SetConfig, then Transport: transport.NewTransport(nil),
// InsecureTransport: transport.NewTransport(skip-verify), routes from route.NewTable) and a
// real client sends a request through it to a real upstream that answers after the delay.
// The property is a time bound: 504 within the configured timeout (+1.5 s slack; faster never
// fails), 200 when the upstream answers in a tenth of the timeout.

import (
	"bytes"
	"crypto/tls"
	"encoding/json"
	"fmt"
	"io"
	"net"
	"net/http"
	"net/http/httptest"
	"os"
	"os/exec"
	"path/filepath"
	"regexp"
	"runtime"
	"sort"
	"strconv"
	"strings"
	"sync"
	"sync/atomic"
	"syscall"
	"testing"
	"time"

	"github.com/fabiolb/fabio/config"
	"github.com/fabiolb/fabio/internal/verifx"
	"github.com/fabiolb/fabio/logger"
	"github.com/fabiolb/fabio/metrics"
	"github.com/fabiolb/fabio/route"
	"github.com/fabiolb/fabio/trace"
	"github.com/fabiolb/fabio/transport"
)

type c19Cfg struct {
	Name    string `json:"name"`
	Dial    int    `json:"dial"`
	Rht     int    `json:"rht"`
	Ka      int    `json:"ka"`
	Idle    int    `json:"idle"`
	MaxIdle int    `json:"maxidle"`
}

type c19Beh struct {
	C     c19Cfg `json:"c"`
	First c19Cfg `json:"first"`
	Kind  string `json:"kind"`
	Class string `json:"class"`
	Delay int    `json:"delay"`
	Out   struct {
		Status int `json:"status"`
		Within int `json:"within"`
	} `json:"out"`
	Wrap  string `json:"wrap,omitempty"`  // handlers in front of the transport: "", "plain", "gzip", "log", "gzip+log"
	Req   string `json:"req,omitempty"`   // "", "GET", "HEAD", "POST", "EXPECT"
	Conn  string `json:"conn,omitempty"`  // "reused": an earlier request left the connection to the upstream in the idle pool
	Body  int    `json:"body,omitempty"`  // the response body takes this many ms to arrive after the header
	Pre   string `json:"pre,omitempty"`   // "103": the upstream sends an informational response first
	Final int    `json:"final,omitempty"` // the upstream's final status (0: 200)
}

func c19Config(c c19Cfg) *config.Config {
	ms := func(n int) time.Duration { return time.Duration(n) * time.Millisecond }
	cfg := &config.Config{}
	cfg.Proxy.DialTimeout = ms(c.Dial)
	cfg.Proxy.ResponseHeaderTimeout = ms(c.Rht)
	cfg.Proxy.KeepAliveTimeout = ms(c.Ka)
	cfg.Proxy.IdleConnTimeout = ms(c.Idle)
	cfg.Proxy.MaxConn = c.MaxIdle
	return cfg
}

// c19NewProxy is main.newHTTPProxy reduced to what matters here; wrap names the handlers main
// would put in front of the transport (proxy.gzip.contenttype, log.access.target).
func c19NewProxy(cfg *config.Config, routes string, wrap string) (*HTTPProxy, error) {
	tbl, err := route.NewTable(bytes.NewBufferString(routes))
	if err != nil {
		return nil, err
	}
	globCache := route.NewGlobCache(1000)
	pick, match := route.Picker["rnd"], route.Matcher["prefix"]
	pc := cfg.Proxy
	if strings.Contains(wrap, "gzip") {
		pc.GZIPContentTypes = regexp.MustCompile(`^(text/.*|application/json)(;.*)?$`)
	}
	p := &HTTPProxy{
		Config:            pc,
		Transport:         transport.NewTransport(nil),
		InsecureTransport: transport.NewTransport(&tls.Config{InsecureSkipVerify: true}),
		Lookup: func(r *http.Request) *route.Target {
			return tbl.Lookup(r, r.Header.Get("trace"), pick, match, globCache, false)
		},
	}
	if strings.Contains(wrap, "trace") { // tracing.TracingEnabled, wired as main does
		tc := c19Tracing()
		p.TracerCfg = *tc
	}
	if strings.Contains(wrap, "metrics") { // metrics.target set: the stats handler of main.startServers
		stats, err := metrics.Initialize(&config.Metrics{Target: "label", Prefix: "verif"})
		if err != nil {
			return nil, err
		}
		p.Stats = HttpStatsHandler{
			Requests:        stats.NewHistogram("requests"),
			Noroute:         stats.NewCounter("notfound"),
			WSConn:          stats.NewGauge("ws.conn"),
			StatusTimer:     stats.NewHistogram("http.status", "code"),
			RedirectCounter: stats.NewCounter("http.redirect.count", "code"),
		}
	}
	if strings.Contains(wrap, "log") {
		l, err := logger.New(io.Discard, logger.CommonFormat)
		if err != nil {
			return nil, err
		}
		p.Logger = l
	}
	return p, nil
}

var (
	c19TraceOnce sync.Once
	c19TraceCfg  *config.Tracing
)

// c19Tracing switches tracing on the way main does (trace.InitializeTracer sets the global
// tracer once per process); the spans go to a collector that discards them.
func c19Tracing() *config.Tracing {
	c19TraceOnce.Do(func() {
		sink := httptest.NewServer(http.HandlerFunc(func(w http.ResponseWriter, r *http.Request) {
			io.Copy(io.Discard, r.Body)
			w.WriteHeader(http.StatusAccepted)
		}))
		c19TraceCfg = &config.Tracing{TracingEnabled: true, CollectorType: "http", ConnectString: sink.URL + "/api/v1/spans",
			ServiceName: "Fabiolb", Topic: "Fabiolb-Kafka-Topic", SamplerRate: 1, SpanHost: "localhost:9998", TraceID128Bit: true}
		trace.InitializeTracer(c19TraceCfg)
	})
	return c19TraceCfg
}

// c19Saturated returns the address of a listening socket whose accept queue is full, so that
// further connection attempts hang in SYN retransmission ("" if that cannot be arranged here).
func c19Saturated() (addr string, release func()) {
	if runtime.GOOS != "linux" {
		return "", func() {}
	}
	fd, err := syscall.Socket(syscall.AF_INET, syscall.SOCK_STREAM, 0)
	if err != nil {
		return "", func() {}
	}
	closeFd := func() { syscall.Close(fd) }
	if err := syscall.Bind(fd, &syscall.SockaddrInet4{Addr: [4]byte{127, 0, 0, 1}}); err != nil {
		closeFd()
		return "", func() {}
	}
	if err := syscall.Listen(fd, 0); err != nil {
		closeFd()
		return "", func() {}
	}
	sa, err := syscall.Getsockname(fd)
	if err != nil {
		closeFd()
		return "", func() {}
	}
	addr = fmt.Sprintf("127.0.0.1:%d", sa.(*syscall.SockaddrInet4).Port)
	var keep []net.Conn
	release = func() {
		for _, c := range keep {
			c.Close()
		}
		closeFd()
	}
	timeouts := 0
	for i := 0; i < 16 && timeouts < 2; i++ {
		c, err := net.DialTimeout("tcp", addr, 250*time.Millisecond)
		if err == nil {
			keep = append(keep, c)
			timeouts = 0
			continue
		}
		if ne, ok := err.(net.Error); ok && ne.Timeout() {
			timeouts++
			continue
		}
		release()
		return "", func() {}
	}
	if timeouts < 2 {
		release()
		return "", func() {}
	}
	return addr, release
}

const c19Slack = 1500 * time.Millisecond

// TestVerifC19Behaviour is the entry point: single requests ($VERIF_IN), concurrent requests and
// idle-connection reuse ($VERIF_IN_CONC), the built fabio binary ($VERIF_FABIO_BIN).
func TestVerifC19Behaviour(t *testing.T) {
	defer transport.SetConfig(&config.Config{})
	sum := map[string]any{}
	if os.Getenv("VERIF_IN") != "" {
		for k, v := range c19BehaviourPart(t) {
			sum[k] = v
		}
	}
	if os.Getenv("VERIF_IN_CONC") != "" {
		for k, v := range c19ConcurrentPart(t) {
			sum[k] = v
		}
	}
	if os.Getenv("VERIF_FABIO_BIN") != "" {
		for k, v := range c19BinaryPart(t) {
			sum[k] = v
		}
	}
	verifx.Summary(sum)
}

func c19BehaviourPart(t *testing.T) map[string]any {
	cases, err := verifx.ReadCases[c19Beh]("")
	if err != nil {
		t.Fatal(err)
	}

	// upstreams: stay silent for ?d=<ms> (the request body is not touched before, so no
	// "100 Continue" goes out either), then answer; give up early when the proxy has gone away
	slow := http.HandlerFunc(func(w http.ResponseWriter, r *http.Request) {
		d, _ := strconv.Atoi(r.URL.Query().Get("d"))
		if r.URL.Query().Get("pre") == "103" { // an informational response at once, the rest later
			w.Header().Set("Link", "</style.css>; rel=preload")
			w.WriteHeader(http.StatusEarlyHints)
			w.Header().Del("Link")
		}
		final, _ := strconv.Atoi(r.URL.Query().Get("st"))
		if d > 0 {
			tm := time.NewTimer(time.Duration(d) * time.Millisecond)
			defer tm.Stop()
			select {
			case <-tm.C:
			case <-r.Context().Done():
				return
			}
		}
		io.Copy(io.Discard, r.Body)
		w.Header().Set("X-Upstream", "c19")
		w.Header().Set("Content-Type", "text/plain")
		b, _ := strconv.Atoi(r.URL.Query().Get("b"))
		if final > 0 && final != 200 {
			w.WriteHeader(final)
			io.WriteString(w, "final status of the upstream")
			return
		}
		if b <= 0 {
			w.WriteHeader(200)
			io.WriteString(w, strings.Repeat("ok ", 200))
			return
		}
		// a body that takes b ms: 20 flushed chunks, then an end marker
		const chunks, size = 20, 512
		w.Header().Set("X-Body-Length", strconv.Itoa(chunks*size+4))
		w.WriteHeader(200)
		fl, _ := w.(http.Flusher)
		for i := 0; i < chunks; i++ {
			if _, err := io.WriteString(w, strings.Repeat("z", size)); err != nil {
				return
			}
			if fl != nil {
				fl.Flush()
			}
			select {
			case <-time.After(time.Duration(b) * time.Millisecond / chunks):
			case <-r.Context().Done():
				return
			}
		}
		io.WriteString(w, "END\n")
	})
	plain := httptest.NewServer(slow)
	defer plain.Close()
	secure := httptest.NewTLSServer(slow)
	defer secure.Close()

	sat, release := c19Saturated() // an upstream that never answers the SYN
	defer release()
	dialSkipped := 0

	type built struct {
		c   c19Beh
		srv *httptest.Server
	}
	var bs []built
	for _, c := range cases {
		var routes string
		pu, su := plain.URL, secure.URL
		if c.Class == "unreachable" {
			if sat == "" {
				dialSkipped++
				continue
			}
			pu, su = "http://"+sat, "https://"+sat
		}
		switch c.Kind {
		case "default":
			routes = "route add svc / " + pu + "/"
		case "insecure":
			routes = "route add svc / " + su + `/ opts "tlsskipverify=true"`
		case "hostoverride":
			routes = "route add svc / " + su + `/ opts "host=x.test tlsskipverify=true"`
		default:
			t.Fatalf("unknown kind %q", c.Kind)
		}
		transport.SetConfig(&config.Config{})
		if c.First.Name != "zero" { // an earlier configuration, and a proxy built under it
			transport.SetConfig(c19Config(c.First))
			if _, err := c19NewProxy(c19Config(c.First), routes, ""); err != nil {
				t.Fatal(err)
			}
		}
		cfg := c19Config(c.C)
		transport.SetConfig(cfg)
		p, err := c19NewProxy(cfg, routes, c.Wrap)
		if err != nil {
			verifx.Fail(c, map[string]any{"sub": "behaviour", "kind": c.Kind, "clause": "build"}, "cannot build the proxy: %v", err)
			continue
		}
		bs = append(bs, built{c, httptest.NewServer(p)})
	}

	// One measurement: what the client saw and when.
	type seen struct {
		status  int
		el      time.Duration // time to the response header
		err     error
		bodyLen int64
		bodyErr error
		wantLen int64 // what the upstream announced (X-Body-Length), 0: nothing announced
		tail    string
	}
	measure := func(b built) seen {
		c := b.c
		T := time.Duration(c.C.Rht) * time.Millisecond
		cl := &http.Client{Timeout: T + c19Slack + time.Duration(c.Delay+c.Body+2*c.Out.Within)*time.Millisecond + 3*time.Second, Transport: &http.Transport{DisableKeepAlives: true}}
		method, body := "GET", io.Reader(nil)
		switch c.Req {
		case "HEAD":
			method = "HEAD"
		case "POST", "EXPECT":
			method, body = "POST", strings.NewReader(strings.Repeat("x", 1024))
		}
		if c.Conn == "reused" {
			// the history: an earlier request through the same transport was answered at once and
			// read to its end, so its connection to the upstream is back in the idle pool
			resp, err := cl.Get(b.srv.URL + "/?d=0")
			if err != nil {
				return seen{err: fmt.Errorf("earlier request: %v", err)}
			}
			_, cerr := io.Copy(io.Discard, resp.Body)
			resp.Body.Close()
			if resp.StatusCode != 200 || cerr != nil {
				return seen{err: fmt.Errorf("earlier request: status %d, body %v", resp.StatusCode, cerr)}
			}
		}
		req, err := http.NewRequest(method, b.srv.URL+"/?d="+strconv.Itoa(c.Delay)+"&b="+strconv.Itoa(c.Body)+"&pre="+c.Pre+"&st="+strconv.Itoa(c.Final), body)
		if err != nil {
			return seen{err: err}
		}
		if c.Req == "EXPECT" {
			req.Header.Set("Expect", "100-continue")
		}
		if strings.Contains(c.Wrap, "gzip") {
			req.Header.Set("Accept-Encoding", "gzip")
		}
		t0 := time.Now()
		resp, err := cl.Do(req)
		el := time.Since(t0)
		if err != nil {
			return seen{el: el, err: err}
		}
		var tail bytes.Buffer
		n, berr := io.Copy(&tail, resp.Body)
		resp.Body.Close()
		m := seen{status: resp.StatusCode, el: el, bodyLen: n, bodyErr: berr}
		m.wantLen, _ = strconv.ParseInt(resp.Header.Get("X-Body-Length"), 10, 64)
		if tb := tail.Bytes(); len(tb) >= 4 {
			m.tail = string(tb[len(tb)-4:])
		}
		return m
	}
	// The verdict.  504 must arrive within the configured timeout + slack; the slack follows the
	// scheduling noise measured while the wave ran: 500 ms when the process never stalled for
	// 50 ms (10x), 1.5 s when it never stalled for 150 ms, no verdict otherwise.
	type verdict struct{ clause, msg string }
	judge := func(c c19Beh, m seen, slack time.Duration) verdict {
		T := time.Duration(c.C.Rht) * time.Millisecond
		bound := time.Duration(c.Out.Within)*time.Millisecond + slack
		what := fmt.Sprintf("%s request", c19ReqName(c))
		if c.Class == "unreachable" {
			dt := time.Duration(c.C.Dial) * time.Millisecond
			switch {
			case m.err != nil:
				return verdict{"dial-not-cut-off", fmt.Sprintf("%s to an upstream that never answers the SYN: no response within %v (proxy.dialtimeout %v): %v", what, m.el, dt, m.err)}
			case m.status != 504 && m.status != 502:
				return verdict{"dial-status", fmt.Sprintf("%s to an upstream that never answers the SYN: status %d after %v, want a gateway error", what, m.status, m.el)}
			case m.el > bound:
				return verdict{"dial-late", fmt.Sprintf("%s to an upstream that never answers the SYN: %d after %v, want within %v (proxy.dialtimeout %v + %v slack): the client was held beyond the configured dial timeout", what, m.status, m.el, bound, dt, slack)}
			}
			return verdict{}
		}
		switch {
		case c.Out.Status != 504 && c.Out.Status != 200 && m.err == nil && m.status != c.Out.Status:
			return verdict{"final-status-lost", fmt.Sprintf("%s: the upstream sends %s and then %d after %d ms (response-header timeout %v); the client got %d", what, c19PreName(c), c.Out.Status, c.Delay, T, m.status)}
		case c.Out.Status != 504 && c.Out.Status != 200:
			if m.err != nil {
				return verdict{"client-error", fmt.Sprintf("%s failed after %v: %v", what, m.el, m.err)}
			}
			return verdict{}
		case m.err != nil && c.Out.Status == 504:
			return verdict{"not-cut-off", fmt.Sprintf("%s: no response within %v (response-header timeout %v, upstream delay %d ms): %v", what, m.el, T, c.Delay, m.err)}
		case m.err != nil:
			return verdict{"client-error", fmt.Sprintf("%s failed after %v: %v", what, m.el, m.err)}
		case c.Out.Status == 504 && m.status != 504:
			return verdict{"not-cut-off", fmt.Sprintf("%s: status %d after %v; the upstream needs %d ms, the response-header timeout is %v: want 504 within %v", what, m.status, m.el, c.Delay, T, bound)}
		case c.Out.Status == 504 && m.el > bound:
			return verdict{"late", fmt.Sprintf("%s: 504 after %v, want within %v (timeout %v + %v slack; the process did not stall while this was measured): the client was held beyond the configured timeout", what, m.el, bound, T, slack)}
		case c.Out.Status == 200 && m.status == 200 && m.bodyErr != nil:
			return verdict{"body-truncated", fmt.Sprintf("%s: 200 in time, but the body broke off after %d bytes: %v (the upstream sends it over %d ms; dial timeout %d ms + response-header timeout %v bound the wait for the header, not the body)", what, m.bodyLen, m.bodyErr, c.Body, c.C.Dial, T)}
		case c.Out.Status == 200 && m.status == 200 && c.Body > 0 && c19Method(c) != "HEAD" && (m.bodyLen != m.wantLen || m.tail != "END\n"):
			return verdict{"body-truncated", fmt.Sprintf("%s: 200 in time, but only %d of %d body bytes arrived (the upstream sends them over %d ms)", what, m.bodyLen, m.wantLen, c.Body)}
		case c.Out.Status == 200 && m.status != 200:
			return verdict{"timely-upstream-not-served", fmt.Sprintf("%s: status %d after %v; the upstream answers after %d ms, the response-header timeout is %v: want 200", what, m.status, m.el, c.Delay, T)}
		}
		return verdict{}
	}
	var ran, retried, tight, wide, voided int
	var samples []string
	strikes := map[int]int{}
	last := map[int]verdict{}
	pending := make([]int, len(bs))
	for i := range pending {
		pending[i] = i
	}
	unstable := false
	// the slow cases share a wave (a wave lasts as long as its slowest request)
	lasts := func(c c19Beh) int {
		d := c.Delay
		if c.C.Rht > 0 && d > c.C.Rht {
			d = c.C.Rht
		}
		return d + c.Body
	}
	for pass := 0; pass < 6 && len(pending) > 0; pass++ {
		sort.SliceStable(pending, func(a, b int) bool { return lasts(bs[pending[a]].c) > lasts(bs[pending[b]].c) })
		var again []int
		for len(pending) > 0 {
			n := 64
			if n > len(pending) {
				n = len(pending)
			}
			wave := pending[:n]
			pending = pending[n:]
			sw := verifx.WatchStalls()
			res := make([]seen, len(bs))
			var wg sync.WaitGroup
			for _, i := range wave {
				wg.Add(1)
				go func(i int) {
					defer wg.Done()
					res[i] = measure(bs[i])
				}(i)
			}
			wg.Wait()
			ran += len(wave)
			if pass > 0 {
				retried += len(wave)
			}
			gap := sw.Stop()
			var slack time.Duration
			switch {
			case gap < 50*time.Millisecond:
				slack = 500 * time.Millisecond
				tight++
			case gap < 150*time.Millisecond:
				slack = c19Slack
				wide++
			default:
				voided++
				verifx.Emit(map[string]any{"kind": "note", "msg": fmt.Sprintf("wave void: the process stalled for %v", gap)})
				again = append(again, wave...)
				continue
			}
			for _, i := range wave {
				if v := judge(bs[i].c, res[i], slack); v.clause != "" {
					strikes[i]++
					last[i] = v
					if strikes[i] < 2 {
						again = append(again, i)
					}
				}
			}
		}
		pending = again
	}
	if len(pending) > 0 { // cases that never got their (second) verdict in a wave without a stall
		unstable = true
	}
	for i, b := range bs {
		b.srv.Close()
		c := b.c
		if strikes[i] >= 2 {
			f := map[string]any{"sub": "behaviour", "kind": c.Kind, "clause": last[i].clause, "class": c.Class}
			if c.Wrap != "" {
				f["wrap"], f["req"] = c.Wrap, c.Req
			}
			if c.Conn != "" {
				f["conn"], f["req"] = c.Conn, c.Req
			}
			if c.Pre != "" {
				f["pre"] = c.Pre
			}
			if c.Body > 0 {
				f["body"] = "long"
				if c.Body <= 100 {
					f["body"] = "short"
				}
			}
			verifx.Fail(c, f, "%s transport, SetConfig(%s) after %s, handlers %q%s%s, upstream delay %d ms: %s", c.Kind, c.C.Name, c.First.Name, c.Wrap, map[bool]string{true: ", over a connection an earlier request left idle", false: ""}[c.Conn == "reused"], map[bool]string{true: ", upstream sends " + c.Pre + " first", false: ""}[c.Pre != ""], c.Delay, last[i].msg)
		}
		if i%37 == 3 && len(samples) < 3 {
			bj, _ := json.Marshal(c)
			samples = append(samples, string(bj))
		}
	}
	nontrivial := 0
	for _, b := range bs {
		if b.c.Class != "zero" {
			nontrivial++
		}
	}
	return map[string]any{"cases": len(cases), "ran": ran, "retried": retried, "unstable": unstable, "distinct_nontrivial": nontrivial, "samples": samples,
		"waves_tight": tight, "waves_wide": wide, "waves_void": voided, "dial_skipped": dialSkipped}
}

func c19PreName(c c19Beh) string {
	if c.Pre == "" {
		return "no informational response"
	}
	return c.Pre + " first"
}

func c19Method(c c19Beh) string {
	if c.Req == "HEAD" {
		return "HEAD"
	}
	return "GET"
}

func c19ReqName(c c19Beh) string {
	switch c.Req {
	case "":
		return "GET"
	case "EXPECT":
		return "POST (Expect: 100-continue)"
	}
	return c.Req
}

// ---------------------------------------------------------------- concurrency and idle reuse

type c19Conc struct {
	T     string `json:"t"` // "conc" | "reuse"
	C     c19Cfg `json:"c"`
	Kind  string `json:"kind"`
	N     int    `json:"n"`
	Class string `json:"class"`
	Delay int    `json:"delay"`
	Out   struct {
		Status int `json:"status"`
		Within int `json:"within"`
	} `json:"out"`
	New int `json:"new"`
}

// c19Upstream answers after ?d=<ms> and counts the connections it accepts.
type c19Upstream struct {
	srv   *httptest.Server
	conns int64
}

func c19NewUpstream(secure bool) *c19Upstream {
	u := &c19Upstream{}
	h := http.HandlerFunc(func(w http.ResponseWriter, r *http.Request) {
		d, _ := strconv.Atoi(r.URL.Query().Get("d"))
		if d > 0 {
			tm := time.NewTimer(time.Duration(d) * time.Millisecond)
			defer tm.Stop()
			select {
			case <-tm.C:
			case <-r.Context().Done():
				return
			}
		}
		w.Header().Set("Content-Length", "2")
		w.WriteHeader(200)
		io.WriteString(w, "ok")
	})
	u.srv = httptest.NewUnstartedServer(h)
	u.srv.Config.ConnState = func(c net.Conn, st http.ConnState) {
		if st == http.StateNew {
			atomic.AddInt64(&u.conns, 1)
		}
	}
	if secure {
		u.srv.StartTLS()
	} else {
		u.srv.Start()
	}
	return u
}

func c19Route(name, path string, kind string, up *c19Upstream) string {
	switch kind {
	case "insecure":
		return fmt.Sprintf("route add %s %s %s/ opts \"tlsskipverify=true\"", name, path, up.srv.URL)
	case "hostoverride":
		return fmt.Sprintf("route add %s %s %s/ opts \"host=x.test tlsskipverify=true\"", name, path, up.srv.URL)
	}
	return fmt.Sprintf("route add %s %s %s/", name, path, up.srv.URL)
}

// c19Burst sends n requests at once and returns status and latency of each.
func c19Burst(url string, n int, timeout time.Duration) (status []int, el []time.Duration, errs []error) {
	status, el, errs = make([]int, n), make([]time.Duration, n), make([]error, n)
	var wg sync.WaitGroup
	start := make(chan struct{})
	for i := 0; i < n; i++ {
		wg.Add(1)
		go func(i int) {
			defer wg.Done()
			cl := &http.Client{Timeout: timeout, Transport: &http.Transport{DisableKeepAlives: true}}
			<-start
			t0 := time.Now()
			resp, err := cl.Get(url)
			el[i] = time.Since(t0)
			if err != nil {
				errs[i] = err
				return
			}
			io.Copy(io.Discard, resp.Body)
			resp.Body.Close()
			status[i] = resp.StatusCode
		}(i)
	}
	close(start)
	wg.Wait()
	return
}

func c19ConcurrentPart(t *testing.T) map[string]any {
	cases, err := verifx.ReadCases[c19Conc]("VERIF_IN_CONC")
	if err != nil {
		t.Fatal(err)
	}
	type verdict struct{ clause, msg string }
	type unit struct {
		c   c19Conc
		run func() verdict
		w   int // concurrent requests it issues
	}
	var units []unit
	var closers []func()
	defer func() {
		for _, f := range closers {
			f()
		}
	}()
	for _, c := range cases {
		c := c
		cfg := c19Config(c.C)
		transport.SetConfig(cfg)
		secure := c.Kind != "default"
		switch c.T {
		case "conc":
			up := c19NewUpstream(secure)
			p, err := c19NewProxy(cfg, c19Route("svc", "/", c.Kind, up), "")
			if err != nil {
				t.Fatal(err)
			}
			srv := httptest.NewServer(p)
			closers = append(closers, srv.Close, up.srv.Close)
			T := time.Duration(c.C.Rht) * time.Millisecond
			bound := time.Duration(c.Out.Within)*time.Millisecond + c19Slack
			units = append(units, unit{c: c, w: c.N, run: func() verdict {
				st, el, errs := c19Burst(srv.URL+"/?d="+strconv.Itoa(c.Delay), c.N, bound+time.Duration(c.Delay)*time.Millisecond+3*time.Second)
				order := make([]int, len(st)) // judge the slowest request first
				for i := range order {
					order[i] = i
				}
				sort.Slice(order, func(a, b int) bool { return el[order[a]] > el[order[b]] })
				for _, i := range order {
					switch {
					case errs[i] != nil && c.Out.Status == 504:
						return verdict{"held", fmt.Sprintf("%d concurrent requests to an upstream that needs %d ms (response-header timeout %v): request %d got no answer within %v: %v", c.N, c.Delay, T, i+1, el[i], errs[i])}
					case errs[i] != nil:
						return verdict{"client-error", fmt.Sprintf("request %d of %d failed after %v: %v", i+1, c.N, el[i], errs[i])}
					case st[i] != c.Out.Status:
						return verdict{"status", fmt.Sprintf("%d concurrent requests (upstream delay %d ms, response-header timeout %v): request %d got status %d after %v, want %d", c.N, c.Delay, T, i+1, st[i], el[i], c.Out.Status)}
					case c.Out.Status == 504 && el[i] > bound:
						return verdict{"held", fmt.Sprintf("%d concurrent requests to an upstream that needs %d ms: request %d got its 504 after %v, want within %v (timeout %v + slack): the client was held beyond the configured response-header timeout", c.N, c.Delay, i+1, el[i], bound, T)}
					}
				}
				return verdict{}
			}})
		case "reuse":
			a, b := c19NewUpstream(secure), c19NewUpstream(secure)
			p, err := c19NewProxy(cfg, c19Route("a", "/a", c.Kind, a)+"\n"+c19Route("b", "/b", c.Kind, b), "")
			if err != nil {
				t.Fatal(err)
			}
			srv := httptest.NewServer(p)
			closers = append(closers, srv.Close, a.srv.Close, b.srv.Close)
			units = append(units, unit{c: c, w: c.N, run: func() verdict {
				// every round starts from an empty pool
				for _, tr := range []http.RoundTripper{p.Transport, p.InsecureTransport} {
					if x, ok := tr.(*http.Transport); ok {
						x.CloseIdleConnections()
					}
				}
				start := atomic.LoadInt64(&a.conns)
				for _, leg := range []string{"/a", "/b"} {
					st, _, errs := c19Burst(srv.URL+leg+"?d=200", c.N, 20*time.Second)
					for i := range st {
						if errs[i] != nil || st[i] != 200 {
							return verdict{"client-error", fmt.Sprintf("burst %s: request %d: status %d err %v", leg, i+1, st[i], errs[i])}
						}
					}
				}
				before := atomic.LoadInt64(&a.conns)
				kept := int(before - start) // connections the first A burst opened (fewer than n if requests did not overlap)
				if kept > c.C.MaxIdle {
					kept = c.C.MaxIdle
				}
				allowed := c.New
				if c.N-kept > allowed {
					allowed = c.N - kept
				}
				st, _, errs := c19Burst(srv.URL+"/a?d=200", c.N, 20*time.Second)
				for i := range st {
					if errs[i] != nil || st[i] != 200 {
						return verdict{"client-error", fmt.Sprintf("second burst /a: request %d: status %d err %v", i+1, st[i], errs[i])}
					}
				}
				if opened := int(atomic.LoadInt64(&a.conns) - before); opened > allowed {
					return verdict{"idle-evicted", fmt.Sprintf("bursts of %d requests to upstream A, to upstream B, to A again through one transport (proxy.maxconn %d idle connections per host, idle timeout %d ms not elapsed): the second A burst opened %d new connections, at most %d may be (the first one opened %d)", c.N, c.C.MaxIdle, c.C.Idle, opened, allowed, kept)}
				}
				return verdict{}
			}})
		}
	}
	// waves of at most ~160 concurrent requests; a verdict counts in a wave without a stall,
	// a case is reported when it failed in two such waves
	strikes := map[int]int{}
	last := map[int]verdict{}
	var ran, voided int
	unstable := false
	pending := make([]int, len(units))
	for i := range pending {
		pending[i] = i
	}
	for pass := 0; pass < 2 && len(pending) > 0; pass++ {
		var again []int
		for len(pending) > 0 {
			var wave []int
			load := 0
			for len(pending) > 0 && (len(wave) == 0 || load+units[pending[0]].w <= 160) {
				wave = append(wave, pending[0])
				load += units[pending[0]].w
				pending = pending[1:]
			}
			ok := false
			for try := 0; try < 4 && !ok; try++ {
				sw := verifx.WatchStalls()
				res := make([]verdict, len(units))
				var wg sync.WaitGroup
				for _, i := range wave {
					wg.Add(1)
					go func(i int) {
						defer wg.Done()
						res[i] = units[i].run()
					}(i)
				}
				wg.Wait()
				ran += len(wave)
				if gap := sw.Stop(); gap > 150*time.Millisecond {
					voided++
					verifx.Emit(map[string]any{"kind": "note", "msg": fmt.Sprintf("concurrent wave void: the process stalled for %v", gap)})
					continue
				}
				ok = true
				for _, i := range wave {
					if res[i].clause != "" {
						strikes[i]++
						last[i] = res[i]
						again = append(again, i)
					}
				}
			}
			if !ok {
				unstable = true
			}
		}
		pending = again
	}
	nontrivial := 0
	var samples []string
	for i, u := range units {
		if u.c.N > 1 {
			nontrivial++
		}
		if strikes[i] >= 2 {
			f := map[string]any{"sub": "concurrent", "kind": u.c.Kind, "clause": last[i].clause, "n": c19NClass(u.c)}
			if u.c.T == "reuse" {
				f["sub"] = "reuse"
			}
			verifx.Fail(u.c, f, "%s transport, SetConfig(%s): %s", u.c.Kind, u.c.C.Name, last[i].msg)
		}
		if i%19 == 5 && len(samples) < 2 {
			bj, _ := json.Marshal(u.c)
			samples = append(samples, string(bj))
		}
	}
	return map[string]any{"conc_cases": len(units), "conc_ran": ran, "conc_voided": voided, "conc_unstable": unstable, "conc_nontrivial": nontrivial, "conc_samples": samples}
}

// c19NClass names the size of a burst relative to proxy.maxconn.
func c19NClass(c c19Conc) string {
	m := c.C.MaxIdle
	switch {
	case c.N == 1:
		return "1"
	case c.N < m:
		return "<maxconn"
	case c.N == m:
		return "maxconn"
	case c.N == m+1:
		return "maxconn+1"
	}
	return ">maxconn"
}

// ---------------------------------------------------------------- the binary: main()'s wiring

// c19BinaryPart runs the fabio binary built from the tree ($VERIF_FABIO_BIN) with the static
// registry.  The FIRST routing table holds a default, a skip-verify and a host-override route
// to upstreams that answer after ?d=<ms>; -proxy.responseheadertimeout 300ms must cut all three.
func c19BinaryPart(t *testing.T) map[string]any {
	exe := os.Getenv("VERIF_FABIO_BIN")
	plain, secure := c19NewUpstream(false), c19NewUpstream(true)
	defer plain.srv.Close()
	defer secure.srv.Close()
	routes := strings.Join([]string{
		"route add plain /plain " + plain.srv.URL + "/",
		"route add skip /skip " + secure.srv.URL + `/ opts "tlsskipverify=true"`,
		"route add host /host " + secure.srv.URL + `/ opts "host=x.test proto=https tlsskipverify=true"`,
	}, "\n")
	const T = 300 * time.Millisecond
	freePort := func() int {
		l, err := net.Listen("tcp", "127.0.0.1:0")
		if err != nil {
			t.Fatal(err)
		}
		defer l.Close()
		return l.Addr().(*net.TCPAddr).Port
	}
	var cmd *exec.Cmd
	var base string
	logf := filepath.Join(os.Getenv("VERIF_TMP"), "fabio-c19.log")
	for attempt := 0; attempt < 3 && cmd == nil; attempt++ {
		pp, ap := freePort(), freePort()
		c := exec.Command(exe, "-proxy.addr", fmt.Sprintf("127.0.0.1:%d", pp), "-ui.addr", fmt.Sprintf("127.0.0.1:%d", ap),
			"-registry.backend", "static", "-registry.static.routes", routes,
			"-proxy.responseheadertimeout", "300ms", "-proxy.dialtimeout", "2s", "-proxy.maxconn", "50",
			"-metrics.target", "", "-log.level", "WARN")
		lf, _ := os.Create(logf)
		c.Stdout, c.Stderr = lf, lf
		if err := c.Start(); err != nil {
			verifx.Emit(map[string]any{"kind": "error", "msg": "cannot start fabio: " + err.Error()})
			return map[string]any{"binary_ran": 0}
		}
		exited := make(chan struct{})
		go func() { c.Wait(); close(exited) }()
		base = fmt.Sprintf("http://127.0.0.1:%d", pp)
		ready := false
		deadline := time.Now().Add(30 * time.Second)
	wait:
		for time.Now().Before(deadline) {
			select {
			case <-exited:
				break wait
			default:
			}
			cl := &http.Client{Timeout: 2 * time.Second}
			if resp, err := cl.Get(base + "/plain?d=0"); err == nil {
				resp.Body.Close()
				if resp.StatusCode == 200 {
					ready = true
					break
				}
			}
			time.Sleep(50 * time.Millisecond) // readiness polling, not a verdict
		}
		if ready {
			cmd = c
			defer func() {
				c.Process.Signal(os.Interrupt)
				select {
				case <-exited:
				case <-time.After(5 * time.Second):
					c.Process.Kill()
				}
			}()
		} else {
			c.Process.Kill()
			<-exited
		}
	}
	if cmd == nil {
		b, _ := os.ReadFile(logf)
		if len(b) > 1500 {
			b = b[len(b)-1500:]
		}
		verifx.Emit(map[string]any{"kind": "error", "msg": "fabio did not start serving the static routes: " + string(b)})
		return map[string]any{"binary_ran": 0}
	}
	type probe struct {
		path  string
		delay int
		want  int
	}
	var probes []probe
	for _, p := range []string{"/plain", "/skip", "/host"} {
		probes = append(probes, probe{p, 0, 200}, probe{p, 30, 200}, probe{p, 3000, 504})
	}
	ran := 0
	strikes := map[int]int{}
	last := map[int][2]string{}
	pending := make([]int, len(probes))
	for i := range pending {
		pending[i] = i
	}
	valid, unstable := 0, false
	for round := 0; round < 6 && len(pending) > 0 && valid < 2; round++ {
		sw := verifx.WatchStalls()
		res := make([][2]string, len(probes))
		var wg sync.WaitGroup
		for _, i := range pending {
			wg.Add(1)
			go func(i int) {
				defer wg.Done()
				p := probes[i]
				bound := T + c19Slack
				cl := &http.Client{Timeout: bound + time.Duration(p.delay)*time.Millisecond/4 + 2*time.Second, Transport: &http.Transport{DisableKeepAlives: true}}
				t0 := time.Now()
				resp, err := cl.Get(base + p.path + "?d=" + strconv.Itoa(p.delay))
				el := time.Since(t0)
				st := 0
				if err == nil {
					io.Copy(io.Discard, resp.Body)
					resp.Body.Close()
					st = resp.StatusCode
				}
				switch {
				case p.want == 504 && st != 504:
					res[i] = [2]string{"not-cut-off", fmt.Sprintf("status %d after %v (err %v); the upstream needs %d ms, -proxy.responseheadertimeout 300ms: want 504 within %v", st, el, err, p.delay, bound)}
				case p.want == 504 && el > bound:
					res[i] = [2]string{"late", fmt.Sprintf("504 after %v, want within %v", el, bound)}
				case p.want == 200 && st != 200:
					res[i] = [2]string{"timely-upstream-not-served", fmt.Sprintf("status %d after %v (err %v); the upstream answers after %d ms", st, el, err, p.delay)}
				}
			}(i)
		}
		wg.Wait()
		ran += len(pending)
		if gap := sw.Stop(); gap > 150*time.Millisecond {
			verifx.Emit(map[string]any{"kind": "note", "msg": fmt.Sprintf("binary round %d void: the process stalled for %v", round, gap)})
			continue
		}
		valid++
		var next []int
		for _, i := range pending {
			if res[i][0] != "" {
				strikes[i]++
				last[i] = res[i]
				next = append(next, i)
			}
		}
		pending = next
	}
	if len(pending) > 0 && valid < 2 {
		unstable = true
	}
	for i, p := range probes {
		if strikes[i] >= 2 {
			kind := map[string]string{"/plain": "default", "/skip": "insecure", "/host": "hostoverride"}[p.path]
			verifx.Fail(map[string]any{"path": p.path, "delay": p.delay, "want": p.want}, map[string]any{"sub": "binary", "kind": kind, "clause": last[i][0]},
				"binary: fabio -proxy.responseheadertimeout 300ms, static first table, route %s (%s transport): %s", p.path, kind, last[i][1])
		}
	}
	return map[string]any{"binary_ran": ran, "binary_probes": len(probes), "binary_unstable": unstable}
}
