package proxy

// X06 (specification growth): spec/Streaming.tla bound to the real HTTPProxy.
//
// S->C: every history TLC printed from Streaming_Gen (scenario + environment steps + what the
// client is owed / may have after each step) is replayed in lock step through a real HTTPProxy
// wired like main.newHTTPProxy (transport.SetConfig + transport.NewTransport, route.GetTable()
// lookup, access logger) over real sockets: a scripted upstream (own listener per scenario, raw
// HTTP/1.1 written by hand so that every failure point can be produced) and a scripted client
// (net/http client over a plain, a TLS and an HTTP/2 front).  Ordering is causal only: the
// driver performs one environment step, then waits on the observations of the other side
// (out-of-band, in-process) before it performs the next.  Time enters only as the deadline of
// an OWED observation (>= 100x the configured 10 ms flush interval; faster never fails), and a
// scenario that misses one is repeated before it is judged.
//
// C->S: the same world runs free (the upstream does not wait for the client) and records
// one event per specification action with a logical clock; Streaming_Trace validates the log.

import (
	"bufio"
	"bytes"
	"context"
	"crypto/tls"
	"encoding/json"
	"errors"
	"fmt"
	"io"
	"log"
	"net"
	"net/http"
	"net/http/httptest"
	"os"
	"strconv"
	"strings"
	"sync"
	"sync/atomic"
	"syscall"
	"testing"
	"time"

	"github.com/fabiolb/fabio/config"
	"github.com/fabiolb/fabio/internal/verifx"
	"github.com/fabiolb/fabio/logger"
	"github.com/fabiolb/fabio/route"
	"github.com/fabiolb/fabio/transport"
)

// ---------------------------------------------------------------- the history as printed by Streaming_Gen

type x06Sc struct {
	F      string   `json:"f"`
	G      string   `json:"g"`
	Sse    bool     `json:"sse"`
	Fr     string   `json:"fr"`
	Ct     string   `json:"ct"`
	Sz     []string `json:"sz"`
	Refuse bool     `json:"refuse"`
	Rht    bool     `json:"rht"`
}

type x06Step struct {
	A     string `json:"a"`
	K     int    `json:"k"`
	Hdr   int    `json:"hdr"`
	HMay  int    `json:"hmay"`
	Must  int64  `json:"must"`
	May   int64  `json:"may"`
	End   string `json:"end"`
	UConn string `json:"uconn"`
	UReq  int    `json:"ureq"`
	PRet  bool   `json:"pret"`
	Other bool   `json:"other"`
}

type x06Hist struct {
	Sc    x06Sc     `json:"sc"`
	Steps []x06Step `json:"steps"`
	Front string    `json:"front,omitempty"` // "plain" | "tls" | "h2"; chosen by the harness when empty
	Up    string    `json:"up,omitempty"`    // "tcp" | "tls" (proto=https tlsskipverify=true); chosen by the harness when empty
	N     int64     `json:"n,omitempty"`
}

const (
	x06FlushPos   = 10 * time.Millisecond  // the positive interval of the universe
	x06Rht        = 250 * time.Millisecond // the response header timeout of the rht scenarios
	x06Deadline   = 2 * time.Second        // an owed observation must arrive within this (200 x the flush interval)
	x06DeadlineTo = 4 * time.Second        // ... a 504 within this (16 x the timeout)
	x06IDHeader   = "X-X06-Id"
)

var x06Bytes = map[string]int{"s1": 1, "s4k": 4096, "s64k": 65537}

func x06Interval(s string) time.Duration {
	switch s {
	case "pos":
		return x06FlushPos
	case "neg":
		return -1
	}
	return 0
}

// the byte at absolute position i of scenario stream `salt`: position dependent, so that a
// duplicated, dropped or reordered piece is seen at once
func x06Byte(salt uint64, i int64) byte {
	x := (uint64(i)+1)*0x9e3779b97f4a7c15 ^ salt
	x ^= x >> 29
	x *= 0xbf58476d1ce4e5b9
	return byte(x >> 32)
}

func x06Fill(b []byte, salt uint64, off int64) {
	for i := range b {
		b[i] = x06Byte(salt, off+int64(i))
	}
}

// ---------------------------------------------------------------- one run of one history: shared observations

type x06Run struct {
	id   string
	h    *x06Hist
	salt uint64
	w    *x06World

	mu     sync.Mutex
	notify chan struct{}

	// client side
	status  int
	clAnn   int64 // announced Content-Length (-1: none)
	rcvd    int64
	bad     string // first integrity fault
	end     string // "open" | "complete" | "aborted" | "gone"
	endErr  string
	doErr   string
	closing bool

	// upstream side
	ureq     int
	upConn   net.Conn
	upRaw    net.Conn // the TCP connection under upConn
	upClosed bool     // the upstream's read side has ended (the proxy closed the connection)
	upExtra  int64    // bytes received after the request head
	upReqHdr http.Header

	// proxy side
	handlerRet   bool
	handlerPanic string
	logStatus    int
	logSize      int64
	logged       bool

	otherStatus int
	otherErr    string
	otherDone   bool

	trace    *verifx.Trace // free-running mode only
	traceOff bool
	upSelf   bool // the upstream closed the connection itself
	upEnded  bool // the upstream has completed its response on a connection that stays open
}

func (r *x06Run) touch() {
	select {
	case r.notify <- struct{}{}:
	default:
	}
}

func (r *x06Run) set(fn func()) {
	r.mu.Lock()
	fn()
	r.mu.Unlock()
	r.touch()
}

// wait blocks until pred holds (evaluated under the lock) or d has passed; it reports whether pred held.
func (r *x06Run) wait(d time.Duration, pred func() bool) bool {
	dl := time.NewTimer(d)
	defer dl.Stop()
	for {
		r.mu.Lock()
		ok := pred()
		r.mu.Unlock()
		if ok {
			return true
		}
		select {
		case <-r.notify:
		case <-dl.C:
			r.mu.Lock()
			ok := pred()
			r.mu.Unlock()
			return ok
		}
	}
}

// ev records a trace event (free-running mode only).
func (r *x06Run) ev(e map[string]any) {
	if r.trace == nil {
		return
	}
	r.mu.Lock()
	if !r.traceOff {
		r.trace.Add(e)
	}
	r.mu.Unlock()
}

// evClient records an event of the reading client unless the client has been told to go away:
// the flag is set, under the same lock, before the CliClose event is recorded, so nothing the
// client reports can follow its own departure in the log.
func (r *x06Run) evClient(e map[string]any) {
	if r.trace == nil {
		return
	}
	r.mu.Lock()
	if !r.traceOff && !r.closing {
		r.trace.Add(e)
	}
	r.mu.Unlock()
}

// ---------------------------------------------------------------- the world: proxies, fronts, table

type x06CfgKey struct {
	f, g string
	rht  bool
}

type x06Front struct {
	plain *httptest.Server
	tls   *httptest.Server
}

type x06World struct {
	fronts map[x06CfgKey]*x06Front
	runs   sync.Map // id -> *x06Run
	oldTbl route.Table
	oldLog io.Writer
	seq    int64
	plumb  int64
	cert   []tls.Certificate
	px     []*HTTPProxy
}

// x06FDs counts the open file descriptors of the process (the proxies, the upstreams and the clients all
// live in it and share one limit).
func x06FDs() int {
	d, err := os.ReadDir("/proc/self/fd")
	if err != nil {
		return 0
	}
	return len(d)
}

// relax releases the idle upstream connections the proxies keep (15 s idle timeout) and waits until the
// process has descriptors to spare; false = it has not: the run cannot go on (never a verdict).
func (w *x06World) relax() bool {
	var lim syscall.Rlimit
	if syscall.Getrlimit(syscall.RLIMIT_NOFILE, &lim) != nil || lim.Cur == 0 {
		return true
	}
	for i := 0; ; i++ {
		for _, p := range w.px {
			p.Transport.(*http.Transport).CloseIdleConnections()
			p.InsecureTransport.(*http.Transport).CloseIdleConnections()
		}
		if n := x06FDs(); uint64(n) < lim.Cur/3 {
			return true
		} else if i >= 100 {
			w.oracle("the process keeps %d of %d file descriptors open: %s", n, lim.Cur, x06FDReport(w))
			return false
		}
		time.Sleep(100 * time.Millisecond)
	}
}

type x06LogSink struct{ w *x06World }

func (s x06LogSink) Write(p []byte) (int, error) {
	f := strings.Fields(string(p))
	if len(f) == 3 {
		if v, ok := s.w.runs.Load(f[0]); ok {
			st, _ := strconv.Atoi(f[1])
			sz, _ := strconv.ParseInt(f[2], 10, 64)
			v.(*x06Run).set(func() { r := v.(*x06Run); r.logged, r.logStatus, r.logSize = true, st, sz })
		}
	}
	return len(p), nil
}

func (w *x06World) oracle(format string, a ...any) {
	if atomic.AddInt64(&w.plumb, 1) <= 20 {
		verifx.Emit(map[string]any{"kind": "oracle", "msg": fmt.Sprintf(format, a...)})
	}
}

// x06NewProxy is main.newHTTPProxy reduced to what matters here.
func x06NewProxy(w *x06World, k x06CfgKey) (*HTTPProxy, error) {
	cfg := &config.Config{}
	cfg.Proxy.FlushInterval = x06Interval(k.f)
	cfg.Proxy.GlobalFlushInterval = x06Interval(k.g)
	cfg.Proxy.MaxConn = 10000
	cfg.Proxy.DialTimeout = 30 * time.Second
	cfg.Proxy.IdleConnTimeout = 15 * time.Second
	if k.rht {
		cfg.Proxy.ResponseHeaderTimeout = x06Rht
	}
	transport.SetConfig(cfg)
	defer transport.SetConfig(&config.Config{})
	l, err := logger.New(x06LogSink{w}, "$header."+x06IDHeader+" $response_status $response_body_size")
	if err != nil {
		return nil, err
	}
	pick, match := route.Picker["rnd"], route.Matcher["prefix"]
	gc := route.NewGlobCache(1000)
	return &HTTPProxy{
		Config:            cfg.Proxy,
		Transport:         transport.NewTransport(nil),
		InsecureTransport: transport.NewTransport(&tls.Config{InsecureSkipVerify: true}),
		Lookup: func(r *http.Request) *route.Target {
			return route.GetTable().Lookup(r, r.Header.Get("trace"), pick, match, gc, false)
		},
		Logger: l,
	}, nil
}

func x06NewWorld(t *testing.T) *x06World {
	w := &x06World{fronts: map[x06CfgKey]*x06Front{}}
	w.oldLog = log.Writer()
	if p := os.Getenv("VERIF_LOG"); p == "" {
		log.SetOutput(io.Discard)
	} else if f, err := os.OpenFile(p, os.O_CREATE|os.O_WRONLY|os.O_APPEND, 0o644); err == nil {
		log.SetOutput(f)
	}
	w.oldTbl = route.GetTable()
	for _, f := range []string{"zero", "pos", "neg"} {
		for _, g := range []string{"zero", "pos", "neg"} {
			for _, rht := range []bool{false, true} {
				k := x06CfgKey{f, g, rht}
				p, err := x06NewProxy(w, k)
				if err != nil {
					t.Fatal(err)
				}
				w.px = append(w.px, p)
				h := http.HandlerFunc(func(rw http.ResponseWriter, r *http.Request) {
					id := r.Header.Get(x06IDHeader)
					defer func() {
						rec := recover()
						if v, ok := w.runs.Load(id); ok {
							run := v.(*x06Run)
							run.set(func() {
								run.handlerRet = true
								if rec != nil {
									run.handlerPanic = fmt.Sprint(rec)
								}
							})
							run.ev(map[string]any{"ev": "HandlerRet"})
						}
						if rec != nil {
							panic(rec)
						}
					}()
					p.ServeHTTP(rw, r)
				})
				fr := &x06Front{plain: httptest.NewUnstartedServer(h), tls: httptest.NewUnstartedServer(h)}
				fr.tls.EnableHTTP2 = true
				for _, s := range []*httptest.Server{fr.plain, fr.tls} {
					if os.Getenv("VERIF_LOG") == "" {
						s.Config.ErrorLog = log.New(io.Discard, "", 0)
					}
				}
				fr.plain.Start()
				fr.tls.StartTLS()
				w.cert = fr.tls.TLS.Certificates
				w.fronts[k] = fr
			}
		}
	}
	return w
}

func (w *x06World) close() {
	for _, f := range w.fronts {
		f.plain.CloseClientConnections()
		f.tls.CloseClientConnections()
		f.plain.Close()
		f.tls.Close()
	}
	if w.oldTbl != nil {
		route.SetTable(w.oldTbl)
	}
	log.SetOutput(w.oldLog)
}

// ---------------------------------------------------------------- the scripted upstream

type x06Target struct {
	addr string
	tls  *tls.Config // the upstream speaks TLS (route option proto=https tlsskipverify=true)
	ln   net.Listener
	fd   int // refused target: a bound socket that does not listen
	cur  atomic.Pointer[x06Run]
	cmu  sync.Mutex
	conn []net.Conn // every connection accepted, closed with the target
}

// x06Refuser binds a port without listening on it: every connection attempt is refused and the
// port cannot be taken by anybody else meanwhile.
func x06Refuser() (*x06Target, error) {
	fd, err := syscall.Socket(syscall.AF_INET, syscall.SOCK_STREAM, 0)
	if err != nil {
		return nil, err
	}
	if err := syscall.Bind(fd, &syscall.SockaddrInet4{Addr: [4]byte{127, 0, 0, 1}}); err != nil {
		syscall.Close(fd)
		return nil, err
	}
	sa, err := syscall.Getsockname(fd)
	if err != nil {
		syscall.Close(fd)
		return nil, err
	}
	return &x06Target{addr: fmt.Sprintf("127.0.0.1:%d", sa.(*syscall.SockaddrInet4).Port), fd: fd}, nil
}

func x06Listen(tc *tls.Config) (*x06Target, error) {
	ln, err := net.Listen("tcp4", "127.0.0.1:0")
	if err != nil {
		return nil, err
	}
	t := &x06Target{addr: ln.Addr().String(), ln: ln, fd: -1, tls: tc}
	go t.acceptLoop()
	return t, nil
}

func (t *x06Target) close() {
	if t.ln != nil {
		t.ln.Close()
		t.cmu.Lock()
		for _, c := range t.conn {
			c.Close()
		}
		t.conn = nil
		t.cmu.Unlock()
	} else if t.fd >= 0 {
		syscall.Close(t.fd)
	}
}

func (t *x06Target) acceptLoop() {
	for {
		c, err := t.ln.Accept()
		if err != nil {
			return
		}
		t.cmu.Lock()
		t.conn = append(t.conn, c)
		t.cmu.Unlock()
		go t.serve(c)
	}
}

func (t *x06Target) serve(raw net.Conn) {
	c := raw
	if t.tls != nil {
		tc := tls.Server(raw, t.tls)
		raw.SetDeadline(time.Now().Add(20 * time.Second))
		if err := tc.Handshake(); err != nil {
			raw.Close()
			return
		}
		raw.SetDeadline(time.Time{})
		c = tc
	}
	br := bufio.NewReader(c)
	for {
		req, err := http.ReadRequest(br)
		if err != nil {
			c.Close()
			return
		}
		if strings.HasSuffix(req.URL.Path, "/other") {
			io.Copy(io.Discard, req.Body)
			if _, err := io.WriteString(c, "HTTP/1.1 200 OK\r\nContent-Type: text/plain\r\nContent-Length: 5\r\n\r\nother"); err != nil {
				c.Close()
				return
			}
			continue
		}
		run := t.cur.Load()
		if run == nil || req.Header.Get(x06IDHeader) != run.id {
			c.Close()
			return
		}
		run.ev(map[string]any{"ev": "UpReq"})
		run.set(func() {
			run.ureq++
			if run.upConn == nil {
				run.upConn, run.upRaw = c, raw
				run.upReqHdr = req.Header
			}
		})
		// from here on the proxy has nothing to say: whatever arrives is counted, the end of the
		// stream is the proxy closing the connection
		var n int64
		for {
			_, err := br.Peek(1)
			run.mu.Lock()
			ended := run.upEnded
			run.mu.Unlock()
			if err == nil && ended {
				break // the response is complete: the connection is reused for another request
			}
			if err != nil {
				run.mu.Lock()
				self := run.upSelf
				run.mu.Unlock()
				if !self {
					run.ev(map[string]any{"ev": "UpSawClose"})
				}
				run.set(func() { run.upExtra += n; run.upClosed = true })
				c.Close()
				return
			}
			k, _ := br.Discard(br.Buffered())
			n += int64(k)
		}
	}
}

// ---------------------------------------------------------------- upstream actions (performed by the driver)

func (r *x06Run) total() int64 {
	var n int64
	for _, s := range r.h.Sc.Sz {
		n += int64(x06Bytes[s])
	}
	return n
}

func (r *x06Run) upWrite(b []byte) error {
	r.mu.Lock()
	c := r.upConn
	r.mu.Unlock()
	if c == nil {
		return errors.New("no upstream connection")
	}
	c.SetWriteDeadline(time.Now().Add(20 * time.Second))
	_, err := c.Write(b)
	return err
}

func (r *x06Run) upHeader(partial bool) error {
	var b bytes.Buffer
	b.WriteString("HTTP/1.1 200 OK\r\n")
	if r.h.Sc.Ct == "es" {
		b.WriteString("Content-Type: text/event-stream\r\n")
	} else {
		b.WriteString("Content-Type: application/octet-stream\r\n")
	}
	switch r.h.Sc.Fr {
	case "cl":
		fmt.Fprintf(&b, "Content-Length: %d\r\n", r.total())
	case "chunked":
		b.WriteString("Transfer-Encoding: chunked\r\n")
	default:
		b.WriteString("Connection: close\r\n")
	}
	b.WriteString("X-X06-Up: " + r.id + "\r\n\r\n")
	if partial {
		return r.upWrite(b.Bytes()[:b.Len()/2])
	}
	return r.upWrite(b.Bytes())
}

func (r *x06Run) chunkOff(k int) (off int64, n int) {
	for i := 0; i < k-1; i++ {
		off += int64(x06Bytes[r.h.Sc.Sz[i]])
	}
	return off, x06Bytes[r.h.Sc.Sz[k-1]]
}

func (r *x06Run) upChunk(k int) error {
	off, n := r.chunkOff(k)
	data := make([]byte, n)
	x06Fill(data, r.salt, off)
	if r.h.Sc.Fr == "chunked" {
		var b bytes.Buffer
		fmt.Fprintf(&b, "%x\r\n", n)
		b.Write(data)
		b.WriteString("\r\n")
		data = b.Bytes()
	}
	return r.upWrite(data)
}

func (r *x06Run) upClose(reset bool) {
	r.mu.Lock()
	c, raw := r.upConn, r.upRaw
	r.upSelf = true
	r.mu.Unlock()
	if c == nil {
		return
	}
	if tc, ok := raw.(*net.TCPConn); ok && reset {
		tc.SetLinger(0)
		raw.Close()
		return
	}
	c.Close()
}

// ---------------------------------------------------------------- the scripted client

type x06Client struct {
	tr     *http.Transport
	conns  *x06Conns
	cancel context.CancelFunc
	done   chan struct{}
}

// x06Conns remembers the TCP connections a client transport opened so that they can be closed for certain
// (an HTTP/2 connection whose stream was cancelled a moment ago does not count as idle yet and would stay).
type x06Conns struct {
	mu sync.Mutex
	cs []net.Conn
}

func (x *x06Conns) closeAll() {
	x.mu.Lock()
	for _, c := range x.cs {
		c.Close()
	}
	x.cs = nil
	x.mu.Unlock()
}

func x06Transport(front string) (*http.Transport, *x06Conns) {
	conns := &x06Conns{}
	tr := &http.Transport{DisableCompression: true, DisableKeepAlives: false, MaxIdleConnsPerHost: 2,
		TLSClientConfig: &tls.Config{InsecureSkipVerify: true},
		DialContext: func(ctx context.Context, network, addr string) (net.Conn, error) {
			c, err := (&net.Dialer{}).DialContext(ctx, network, addr)
			if err == nil {
				conns.mu.Lock()
				conns.cs = append(conns.cs, c)
				conns.mu.Unlock()
			}
			return c, err
		}}
	if front == "h2" {
		tr.ForceAttemptHTTP2 = true
	} else {
		tr.TLSClientConfig.NextProtos = []string{"http/1.1"}
	}
	return tr, conns
}

func (w *x06World) url(h *x06Hist, front string) string {
	f := w.fronts[x06CfgKey{h.Sc.F, h.Sc.G, h.Sc.Rht}]
	if front == "plain" {
		return f.plain.URL
	}
	return f.tls.URL
}

// start sends the request and reads whatever comes, as it comes.
func (r *x06Run) startClient(front, path string) *x06Client {
	ctx, cancel := context.WithCancel(context.Background())
	tr, conns := x06Transport(front)
	cl := &x06Client{tr: tr, conns: conns, cancel: cancel, done: make(chan struct{})}
	req, _ := http.NewRequestWithContext(ctx, "GET", r.w.url(r.h, front)+path, nil)
	req.Header.Set(x06IDHeader, r.id)
	if r.h.Sc.Sse {
		req.Header.Set("Accept", "text/event-stream")
	} else {
		req.Header.Set("Accept", "*/*")
	}
	r.ev(map[string]any{"ev": "Req"})
	go func() {
		defer close(cl.done)
		resp, err := cl.tr.RoundTrip(req)
		if err != nil {
			r.mu.Lock()
			closing := r.closing
			r.mu.Unlock()
			if !closing {
				r.evClient(map[string]any{"ev": "CliEnd", "end": "aborted", "status": 0, "n": 0})
			}
			r.set(func() {
				r.doErr = err.Error()
				if r.closing {
					r.end = "gone"
				} else {
					r.end = "aborted"
				}
			})
			return
		}
		if resp.ProtoMajor == 2 != (front == "h2") {
			r.set(func() { r.bad = "harness: wrong protocol " + resp.Proto })
		}
		r.evClient(map[string]any{"ev": "CliHdr", "status": resp.StatusCode})
		r.set(func() { r.status, r.clAnn = resp.StatusCode, resp.ContentLength })
		buf := make([]byte, 32*1024)
		var off int64
		for {
			n, err := resp.Body.Read(buf)
			if n > 0 {
				bad := ""
				if resp.StatusCode == 200 {
					for i := 0; i < n; i++ {
						if buf[i] != x06Byte(r.salt, off+int64(i)) {
							bad = fmt.Sprintf("byte %d of the body is not the byte the upstream wrote at that position", off+int64(i))
							break
						}
					}
				}
				off += int64(n)
				if resp.StatusCode == 200 {
					r.evClient(map[string]any{"ev": "CliRead", "n": off})
				}
				r.set(func() {
					if resp.StatusCode == 200 {
						r.rcvd = off
					}
					if bad != "" && r.bad == "" {
						r.bad = bad
					}
				})
			}
			if err != nil {
				r.mu.Lock()
				closing := r.closing
				r.mu.Unlock()
				end := "aborted"
				if err == io.EOF {
					end = "complete"
				} else if closing {
					end = "gone"
				}
				if end != "gone" {
					r.evClient(map[string]any{"ev": "CliEnd", "end": end, "status": resp.StatusCode, "n": off})
				}
				r.set(func() { r.end, r.endErr = end, err.Error() })
				resp.Body.Close()
				return
			}
		}
	}()
	return cl
}

// goAway: the client disconnects (HTTP/1: the connection is closed; HTTP/2: the stream is reset)
func (cl *x06Client) goAway(r *x06Run) {
	r.set(func() { r.closing = true })
	r.ev(map[string]any{"ev": "CliClose"})
	cl.cancel()
	<-cl.done
	cl.tr.CloseIdleConnections()
	cl.conns.closeAll()
}

func (cl *x06Client) finish() {
	cl.cancel()
	<-cl.done
	cl.tr.CloseIdleConnections()
	cl.conns.closeAll()
}

// ---------------------------------------------------------------- lock-step replay of one history

type x06Fault struct {
	Clause string
	Step   int
	Msg    string
	Timed  bool // the fault is a missed deadline
}

func x06N(h *x06Hist) int64 {
	if h.N != 0 {
		return h.N
	}
	b, _ := json.Marshal(h)
	return int64((verifx.Hash(b)^uint64(verifx.Seed())*0x9e3779b97f4a7c15)>>1) | 1
}

// x06ChooseUp: a quarter of the exchanges go to an upstream that speaks TLS
func x06ChooseUp(h *x06Hist, n int64) string {
	if h.Up != "" {
		return h.Up
	}
	if (uint64(n)>>9+uint64(verifx.EnvInt("VERIF_X06_ROT", 0)))%4 == 0 {
		return "tls"
	}
	return "tcp"
}

func (w *x06World) target(h *x06Hist, up string, i int) (*x06Target, string, error) {
	var tg *x06Target
	var err error
	switch {
	case h.Sc.Refuse:
		tg, err = x06Refuser()
	case up == "tls":
		tg, err = x06Listen(&tls.Config{Certificates: w.cert})
	default:
		tg, err = x06Listen(nil)
	}
	if err != nil {
		return nil, "", err
	}
	if up == "tls" {
		return tg, fmt.Sprintf("route add x06-%d /x06/%d/ https://%s/ opts \"tlsskipverify=true\"", i, i, tg.addr), nil
	}
	return tg, fmt.Sprintf("route add x06-%d /x06/%d/ http://%s/", i, i, tg.addr), nil
}

func x06ChooseFront(h *x06Hist, n int64) string {
	if h.Front != "" {
		return h.Front
	}
	return []string{"plain", "tls", "h2"}[int((uint64(n)+uint64(verifx.EnvInt("VERIF_X06_ROT", 0)))%3)]
}

func (w *x06World) newRun(h *x06Hist) *x06Run {
	id := fmt.Sprintf("r%d", atomic.AddInt64(&w.seq, 1))
	r := &x06Run{id: id, h: h, w: w, notify: make(chan struct{}, 1), end: "open", clAnn: -1,
		salt: verifx.Hash([]byte(id)) ^ uint64(verifx.Seed())}
	w.runs.Store(id, r)
	return r
}

// replay performs the history once and returns the faults it saw.
func (w *x06World) replay(h *x06Hist, tg *x06Target, idx int, front string) (faults []x06Fault, run *x06Run) {
	r := w.newRun(h)
	run = r
	defer w.runs.Delete(r.id)
	tg.cur.Store(r)
	defer tg.cur.Store(nil)
	var cl *x06Client
	defer func() {
		if cl != nil {
			r.set(func() { r.closing = true })
			cl.finish()
		}
		r.upClose(false)
	}()
	fault := func(i int, clause string, timed bool, format string, a ...any) {
		faults = append(faults, x06Fault{Clause: clause, Step: i, Msg: fmt.Sprintf(format, a...), Timed: timed})
	}
	var mustMax int64
	wantStatus := 0
	for i, st := range h.Steps {
		// ---- the environment's step
		ok, err := w.perform(r, &cl, st, front, idx)
		if !ok {
			if err != nil {
				fault(i, "forward", true, "%v", err)
			}
			return
		}
		// ---- what is owed now
		if st.Must > mustMax {
			mustMax = st.Must
		}
		if st.Hdr != 0 {
			wantStatus = st.Hdr
		}
		dl := x06Deadline
		if st.A == "Slow" {
			dl = x06DeadlineTo
		}
		owed := func() bool {
			if wantStatus != 0 && r.status == 0 && r.end == "open" {
				return false
			}
			if r.rcvd < mustMax && r.end == "open" {
				return false
			}
			if (st.End == "complete" || st.End == "aborted") && r.end == "open" {
				return false
			}
			if st.UConn == "byproxy" && !r.upClosed {
				return false
			}
			if st.PRet && !r.handlerRet {
				return false
			}
			if st.Other && !r.otherDone {
				return false
			}
			return true
		}
		t0 := time.Now()
		met := r.wait(dl, owed)
		el := time.Since(t0)
		r.mu.Lock()
		status, rcvd, end, bad, upClosed, ret, od, ost, oerr, ureq, extra, endErr, doErr, clAnn :=
			r.status, r.rcvd, r.end, r.bad, r.upClosed, r.handlerRet, r.otherDone, r.otherStatus, r.otherErr, r.ureq, r.upExtra, r.endErr, r.doErr, r.clAnn
		r.mu.Unlock()
		where := fmt.Sprintf("after step %d (%s%s) [front %s, waited %v]", i+1, st.A, x06K(st), front, el.Round(time.Millisecond))
		if !met {
			switch {
			case wantStatus != 0 && status == 0 && end == "open":
				cls := "header-delivery"
				if wantStatus != 200 {
					cls = "failure-answer"
				}
				fault(i, cls, true, "%s: the client is owed the response header (status %d) but has none", where, wantStatus)
			case rcvd < mustMax && end == "open":
				fault(i, "delivery", true, "%s: the client is owed %d body bytes but has %d (the upstream wrote %d and writes no more until the client has them)", where, mustMax, rcvd, st.May)
			case (st.End == "complete" || st.End == "aborted") && end == "open":
				fault(i, "end-"+st.End, true, "%s: the response must have ended (%s) for the client, it is still open", where, st.End)
			case st.UConn == "byproxy" && !upClosed:
				fault(i, "upstream-release", true, "%s: the upstream must have seen its connection closed by the proxy, it is still open", where)
			case st.PRet && !ret:
				fault(i, "handler-release", true, "%s: the proxy's handler must have returned, it has not", where)
			case st.Other && !od:
				fault(i, "isolation", true, "%s: another request to the same target got no answer while the stream is open", where)
			}
		}
		// ---- safety: whatever the client has, it may have
		if bad != "" {
			fault(i, "integrity", false, "%s: %s", where, bad)
		}
		if rcvd > st.May {
			fault(i, "invented", false, "%s: the client has %d body bytes, the upstream has written %d", where, rcvd, st.May)
		}
		if status != 0 && status != st.HMay && status != wantStatus {
			cls := "status"
			if wantStatus >= 500 || st.HMay >= 500 {
				cls = "failure-status"
			}
			fault(i, cls, false, "%s: the client got status %d, the specification allows %s", where, status, x06Allowed(wantStatus, st.HMay))
		}
		switch st.End {
		case "open":
			if end != "open" {
				fault(i, "premature-end", false, "%s: the response has ended for the client (%s: %s%s) although the upstream neither ended nor failed", where, end, endErr, doErr)
			}
		case "complete":
			if end == "aborted" {
				fault(i, "end-complete", false, "%s: the upstream ended its response cleanly, the client saw it break off (%s%s) after %d bytes", where, endErr, doErr, rcvd)
			} else if end == "complete" && status == 200 {
				if rcvd != st.May {
					fault(i, "short-complete", false, "%s: the client took the response for complete with %d of %d bytes", where, rcvd, st.May)
				}
				if h.Sc.Fr == "cl" && front != "h2" && clAnn != r.total() {
					fault(i, "content-length", false, "%s: the upstream announced Content-Length %d, the client was told %d", where, r.total(), clAnn)
				}
			}
		case "aborted":
			if end == "complete" {
				fault(i, "forged-end", false, "%s: the upstream failed in the middle of its response, yet the client received a cleanly ended response (%d bytes, Content-Length announced to the client %d)", where, rcvd, clAnn)
			}
		}
		if ureq > st.UReq {
			fault(i, "upstream-requests", false, "%s: the upstream received %d requests for this exchange, the specification allows %d", where, ureq, st.UReq)
		}
		if extra > 0 {
			fault(i, "upstream-bytes", false, "%s: the upstream received %d bytes after the request head", where, extra)
		}
		if od && (ost != 200 || oerr != "") {
			fault(i, "isolation", false, "%s: the other request to the same target was answered %d %s", where, ost, oerr)
		}
		if len(faults) > 0 {
			return
		}
	}
	// the access log line of the exchange (documented in http_handler.go: a client that went away
	// before any response is logged as 499); counted for the report, not judged
	return
}

// perform carries out one environment step (and records it in free-running mode: BEFORE the
// upstream acts).  ok = false: the history cannot be continued (err != nil: because the request
// never reached the upstream).
func (w *x06World) perform(r *x06Run, cl **x06Client, st x06Step, front string, idx int) (ok bool, ferr error) {
	h := r.h
	var err error
	switch st.A {
	case "Req":
		*cl = r.startClient(front, fmt.Sprintf("/x06/%d/main", idx))
		if !h.Sc.Refuse {
			// the upstream has the request before anything else happens (causal barrier)
			if !r.wait(x06Deadline*2, func() bool { return r.upConn != nil || r.end != "open" || r.status != 0 }) {
				return false, fmt.Errorf("the request did not reach the upstream within %v", x06Deadline*2)
			}
		}
	case "Hdr":
		r.ev(map[string]any{"ev": "UpHdr"})
		if h.Sc.Fr == "cl" && len(h.Sc.Sz) == 0 {
			r.set(func() { r.upEnded = true })
		}
		err = r.upHeader(false)
	case "Slow":
		r.ev(map[string]any{"ev": "UpSlow"}) // the upstream stays silent
	case "Early-close":
		r.ev(map[string]any{"ev": "UpEarly", "kind": "close"})
		r.upClose(false)
	case "Early-rst":
		r.ev(map[string]any{"ev": "UpEarly", "kind": "rst"})
		r.upClose(true)
	case "Early-partial":
		r.ev(map[string]any{"ev": "UpEarly", "kind": "partial"})
		err = r.upHeader(true)
		r.upClose(false)
	case "W":
		r.ev(map[string]any{"ev": "UpW", "k": st.K})
		if h.Sc.Fr == "cl" && st.K == len(h.Sc.Sz) {
			r.set(func() { r.upEnded = true })
		}
		err = r.upChunk(st.K)
	case "End":
		r.ev(map[string]any{"ev": "UpEnd"})
		if h.Sc.Fr == "chunked" {
			r.set(func() { r.upEnded = true })
			err = r.upWrite([]byte("0\r\n\r\n"))
		} else {
			r.upClose(false)
		}
	case "Cut":
		r.ev(map[string]any{"ev": "UpCut"})
		r.upClose(false)
	case "Rst":
		r.ev(map[string]any{"ev": "UpRst"})
		r.upClose(true)
	case "CliClose":
		(*cl).goAway(r)
	case "Other":
		go w.other(r, front, fmt.Sprintf("/x06/%d/other", idx))
	default:
		w.oracle("unknown step %q", st.A)
		return false, nil
	}
	if err != nil {
		if r.trace == nil {
			w.oracle("upstream step %s of %s failed: %v", st.A, r.id, err)
		}
		return false, nil
	}
	return true, nil
}

func x06K(st x06Step) string {
	if st.A == "W" {
		return fmt.Sprintf(" %d", st.K)
	}
	return ""
}

func x06Allowed(a, b int) string {
	if a == 0 && b == 0 {
		return "none yet"
	}
	if a == b || b == 0 {
		return strconv.Itoa(a)
	}
	if a == 0 {
		return strconv.Itoa(b)
	}
	return fmt.Sprintf("%d or %d", a, b)
}

func (w *x06World) other(r *x06Run, front, path string) {
	tr, conns := x06Transport(front)
	defer conns.closeAll()
	defer tr.CloseIdleConnections()
	c := &http.Client{Transport: tr, Timeout: 30 * time.Second}
	r.ev(map[string]any{"ev": "OtherStart"})
	resp, err := c.Get(w.url(r.h, front) + path)
	st, msg := 0, ""
	if err != nil {
		msg = err.Error()
	} else {
		b, rerr := io.ReadAll(resp.Body)
		resp.Body.Close()
		st = resp.StatusCode
		if rerr != nil {
			msg = rerr.Error()
		} else if string(b) != "other" {
			msg = fmt.Sprintf("body %q", b)
		}
	}
	r.ev(map[string]any{"ev": "OtherDone", "status": st})
	r.set(func() { r.otherDone, r.otherStatus, r.otherErr = true, st, msg })
}

// ---------------------------------------------------------------- features of a failure

func x06Features(h *x06Hist, front string, f x06Fault) map[string]any {
	eff := h.Sc.G
	if h.Sc.Sse {
		eff = h.Sc.F
	}
	return map[string]any{"sub": "replay", "clause": f.Clause, "eff": eff, "sse": h.Sc.Sse, "fr": h.Sc.Fr, "front": front, "up": h.Up}
}

// ---------------------------------------------------------------- entry point

func TestVerifX06Replay(t *testing.T) {
	defer transport.SetConfig(&config.Config{})
	hs, err := verifx.ReadCases[x06Hist]("")
	if err != nil {
		t.Fatal(err)
	}
	w := x06NewWorld(t)
	defer w.close()
	workers := verifx.EnvInt("VERIF_WORKERS", 12)
	const batch = 768
	var ran, retried, steps, timedOut, skipped, bytesMoved int64
	var noLog, log499, logOther, upTLS int64
	byFront := map[string]*int64{"plain": new(int64), "tls": new(int64), "h2": new(int64)}
	classes := sync.Map{}
	var samples []string
	var smu sync.Mutex
	for base := 0; base < len(hs); base += batch {
		end := base + batch
		if end > len(hs) {
			end = len(hs)
		}
		if !w.relax() {
			atomic.AddInt64(&skipped, int64(len(hs)-base))
			break
		}
		// targets and table of this batch
		tgs := make([]*x06Target, end-base)
		var cmds []string
		for i := base; i < end; i++ {
			n := x06N(&hs[i])
			hs[i].N, hs[i].Front, hs[i].Up = n, x06ChooseFront(&hs[i], n), x06ChooseUp(&hs[i], n)
			tg, cmd, err := w.target(&hs[i], hs[i].Up, i)
			if err != nil {
				t.Fatal(err)
			}
			tgs[i-base] = tg
			cmds = append(cmds, cmd)
		}
		tbl, err := route.NewTable(bytes.NewBufferString(strings.Join(cmds, "\n")))
		if err != nil {
			t.Fatal(err)
		}
		route.SetTable(tbl)
		jobs := make(chan int, end-base)
		for i := base; i < end; i++ {
			jobs <- i
		}
		close(jobs)
		var wg sync.WaitGroup
		for k := 0; k < workers; k++ {
			wg.Add(1)
			go func() {
				defer wg.Done()
				for i := range jobs {
					h := &hs[i]
					n, front := h.N, h.Front
					if h.Up == "tls" {
						atomic.AddInt64(&upTLS, 1)
					}
					if atomic.LoadInt64(&timedOut) > 24 {
						atomic.AddInt64(&skipped, 1) // enough missed deadlines to report; do not sit out the rest
						continue
					}
					var faults, prev []x06Fault
					var run *x06Run
					// a history that shows a fault is performed again: only what persists is judged, and
					// an attempt during which the process was frozen does not count
					for attempt := 0; attempt < 4; attempt++ {
						stall := verifx.WatchStalls()
						var f []x06Fault
						f, run = w.replay(h, tgs[i-base], i, front)
						frozen := stall.Stop() > 300*time.Millisecond
						if len(f) == 0 {
							prev = nil
							break
						}
						atomic.AddInt64(&retried, 1)
						if frozen {
							continue
						}
						if prev != nil && prev[0].Clause == f[0].Clause {
							faults = f
							break
						}
						prev = f
					}
					if len(faults) > 0 {
						var lim syscall.Rlimit
						if syscall.Getrlimit(syscall.RLIMIT_NOFILE, &lim) == nil && uint64(x06FDs()) > lim.Cur*3/4 {
							w.oracle("history %d: faults while the process is short of file descriptors (%d of %d) are not judged: %s", i, x06FDs(), lim.Cur, faults[0].Msg)
							faults = nil
						}
					}
					for _, f := range faults {
						if strings.Contains(f.Msg, "too many open files") {
							w.oracle("history %d: the process ran out of file descriptors: %s", i, f.Msg)
							faults = nil
							break
						}
					}
					if faults == nil && prev != nil {
						w.oracle("history %d: a fault did not persist over the attempts: %s", i, prev[0].Msg)
					}
					atomic.AddInt64(&ran, 1)
					atomic.AddInt64(&steps, int64(len(h.Steps)))
					atomic.AddInt64(byFront[front], 1)
					if run != nil {
						run.mu.Lock()
						atomic.AddInt64(&bytesMoved, run.rcvd)
						last := h.Steps[len(h.Steps)-1]
						switch {
						case !run.logged && run.handlerRet:
							atomic.AddInt64(&noLog, 1)
							classes.Store("nolog:"+last.A+":"+last.End, true)
						case run.logged && run.logStatus == 499:
							atomic.AddInt64(&log499, 1)
						case run.logged:
							atomic.AddInt64(&logOther, 1)
						}
						run.mu.Unlock()
					}
					for _, f := range faults {
						if f.Timed {
							atomic.AddInt64(&timedOut, 1)
						}
						hh := *h
						verifx.Fail(hh, x06Features(h, front, f), "%s\n  scenario: %s", f.Msg, x06Describe(h))
					}
					if n%211 == 3 {
						smu.Lock()
						if len(samples) < 4 {
							samples = append(samples, "front "+front+": "+x06Describe(h))
						}
						smu.Unlock()
					}
				}
			}()
		}
		wg.Wait()
		for _, tg := range tgs {
			tg.close()
		}
	}
	var nolog []string
	classes.Range(func(k, _ any) bool { nolog = append(nolog, k.(string)); return true })
	verifx.Summary(map[string]any{"histories": len(hs), "ran": ran, "steps": steps, "retried": retried, "skipped": skipped,
		"plain": *byFront["plain"], "tls": *byFront["tls"], "h2": *byFront["h2"], "body_bytes": bytesMoved, "up_tls": upTLS,
		"plumbing": atomic.LoadInt64(&w.plumb), "samples": samples,
		"log_none": noLog, "log_499": log499, "log_other": logOther, "log_none_classes": nolog})
}

func x06Describe(h *x06Hist) string {
	var st []string
	for _, s := range h.Steps {
		st = append(st, s.A+x06K(s))
	}
	acc := "*/*"
	if h.Sc.Sse {
		acc = "text/event-stream"
	}
	return fmt.Sprintf("flushinterval=%s globalflushinterval=%s Accept=%s upstream=%s framing=%s content-type=%s chunks=%v refuse=%v rht=%v steps=%s",
		h.Sc.F, h.Sc.G, acc, h.Up, h.Sc.Fr, h.Sc.Ct, h.Sc.Sz, h.Sc.Refuse, h.Sc.Rht, strings.Join(st, ","))
}

// ---------------------------------------------------------------- C->S: free-running exchanges, recorded

// free performs the environment steps of the history without waiting for anybody and returns the
// recorded events (nil when the run could not be brought to its end: counted, not judged here -
// the lock-step replay judges what is owed).
func (w *x06World) free(h *x06Hist, tg *x06Target, idx int, front string) []map[string]any {
	r := w.newRun(h)
	r.trace = &verifx.Trace{}
	defer w.runs.Delete(r.id)
	tg.cur.Store(r)
	defer tg.cur.Store(nil)
	var cl *x06Client
	defer func() {
		r.set(func() { r.traceOff = true; r.closing = true })
		if cl != nil {
			cl.finish()
		}
		r.upClose(false)
	}()
	sc, _ := json.Marshal(h.Sc)
	var scm map[string]any
	json.Unmarshal(sc, &scm)
	r.ev(map[string]any{"ev": "Reset", "sc": scm, "front": front, "up": h.Up})
	other := false
	for _, st := range h.Steps {
		if st.A == "Other" {
			other = true
		}
		if ok, _ := w.perform(r, &cl, st, front, idx); !ok {
			// a write to a connection the proxy has already given up is how a free-running exchange
			// may end (the client has gone); whatever was recorded so far is a valid prefix
			break
		}
	}
	last := h.Steps[len(h.Steps)-1]
	settled := r.wait(3*x06Deadline, func() bool {
		if other && !r.otherDone {
			return false
		}
		if !r.handlerRet && !h.Sc.Refuse {
			return false
		}
		if last.A == "CliClose" {
			return r.upConn == nil || r.upClosed || r.upSelf || last.UConn != "byproxy"
		}
		return r.end != "open"
	})
	if !settled {
		r.mu.Lock()
		verifx.Emit(map[string]any{"kind": "unsettled", "msg": fmt.Sprintf("%s front=%s: end=%s status=%d rcvd=%d handlerRet=%v upClosed=%v upSelf=%v otherDone=%v doErr=%s endErr=%s",
			x06Describe(h), front, r.end, r.status, r.rcvd, r.handlerRet, r.upClosed, r.upSelf, r.otherDone, r.doErr, r.endErr)})
		r.mu.Unlock()
		return nil
	}
	r.set(func() { r.traceOff = true })
	return r.trace.Events()
}

func TestVerifX06Free(t *testing.T) {
	defer transport.SetConfig(&config.Config{})
	hs, err := verifx.ReadCases[x06Hist]("")
	if err != nil {
		t.Fatal(err)
	}
	w := x06NewWorld(t)
	defer w.close()
	workers := verifx.EnvInt("VERIF_WORKERS", 12)
	tgs := make([]*x06Target, len(hs))
	var cmds []string
	for i := range hs {
		n := x06N(&hs[i])
		hs[i].N, hs[i].Front, hs[i].Up = n, x06ChooseFront(&hs[i], n), x06ChooseUp(&hs[i], n)
		tg, cmd, err := w.target(&hs[i], hs[i].Up, i)
		if err != nil {
			t.Fatal(err)
		}
		tgs[i] = tg
		defer tg.close()
		cmds = append(cmds, cmd)
	}
	tbl, err := route.NewTable(bytes.NewBufferString(strings.Join(cmds, "\n")))
	if err != nil {
		t.Fatal(err)
	}
	route.SetTable(tbl)
	traces := make([][]map[string]any, len(hs))
	jobs := make(chan int, len(hs))
	for i := range hs {
		jobs <- i
	}
	close(jobs)
	var wg sync.WaitGroup
	var unsettled int64
	for k := 0; k < workers; k++ {
		wg.Add(1)
		go func() {
			defer wg.Done()
			for i := range jobs {
				traces[i] = w.free(&hs[i], tgs[i], i, hs[i].Front)
				if traces[i] == nil {
					atomic.AddInt64(&unsettled, 1)
				}
			}
		}()
	}
	wg.Wait()
	out, err := os.Create(os.Getenv("VERIF_TRACE_OUT"))
	if err != nil {
		t.Fatal(err)
	}
	bw := bufio.NewWriter(out)
	var nev, ntr int
	for _, tr := range traces {
		if tr == nil {
			continue
		}
		ntr++
		for _, e := range tr {
			delete(e, "t")
			b, _ := json.Marshal(e)
			bw.Write(b)
			bw.WriteByte('\n')
			nev++
		}
	}
	bw.Flush()
	out.Close()
	verifx.Summary(map[string]any{"histories": len(hs), "traces": ntr, "events": nev, "unsettled": unsettled,
		"plumbing": atomic.LoadInt64(&w.plumb)})
}

// ---------------------------------------------------------------- probe: which named deviations does this tree show?

// TestVerifX06Probe measures the constants of the specification that name a deviation of the code from
// the documentation: the status answered when the upstream closes in the middle of its header.
func TestVerifX06Probe(t *testing.T) {
	defer transport.SetConfig(&config.Config{})
	w := x06NewWorld(t)
	defer w.close()
	tg, err := x06Listen(nil)
	if err != nil {
		t.Fatal(err)
	}
	defer tg.close()
	tbl, err := route.NewTable(bytes.NewBufferString(fmt.Sprintf("route add x06-0 /x06/0/ http://%s/", tg.addr)))
	if err != nil {
		t.Fatal(err)
	}
	route.SetTable(tbl)
	seen := map[int]int{}
	for i, front := range []string{"plain", "tls", "h2", "plain"} {
		h := &x06Hist{Sc: x06Sc{F: "pos", G: "zero", Sse: i%2 == 0, Fr: "cl", Ct: "other", Sz: []string{"s1"}}}
		r := w.newRun(h)
		tg.cur.Store(r)
		var cl *x06Client
		if ok, _ := w.perform(r, &cl, x06Step{A: "Req"}, front, 0); ok {
			w.perform(r, &cl, x06Step{A: "Early-partial"}, front, 0)
			r.wait(2*x06Deadline, func() bool { return r.status != 0 || r.end != "open" })
		}
		r.mu.Lock()
		seen[r.status]++
		r.mu.Unlock()
		r.set(func() { r.closing = true })
		if cl != nil {
			cl.finish()
		}
		tg.cur.Store(nil)
		w.runs.Delete(r.id)
	}
	partial := 0
	for st, n := range seen {
		if n == 4 {
			partial = st
		}
	}
	verifx.Emit(map[string]any{"kind": "probe", "partial_hdr_status": partial, "seen": fmt.Sprint(seen)})
	verifx.Summary(map[string]any{"probed": 4})
}

// x06FDReport says what the open sockets of the process are (diagnostics for a descriptor shortage).
func x06FDReport(w *x06World) string {
	inodes := map[string]bool{}
	d, _ := os.ReadDir("/proc/self/fd")
	other := 0
	for _, e := range d {
		l, err := os.Readlink("/proc/self/fd/" + e.Name())
		if err == nil && strings.HasPrefix(l, "socket:[") {
			inodes[strings.TrimSuffix(strings.TrimPrefix(l, "socket:["), "]")] = true
		} else {
			other++
		}
	}
	fronts := map[string]string{}
	for k, f := range w.fronts {
		_, p1, _ := net.SplitHostPort(f.plain.Listener.Addr().String())
		_, p2, _ := net.SplitHostPort(f.tls.Listener.Addr().String())
		fronts[p1], fronts[p2] = fmt.Sprintf("front-plain(%s,%s,%v)", k.f, k.g, k.rht), fmt.Sprintf("front-tls(%s,%s,%v)", k.f, k.g, k.rht)
	}
	counts := map[string]int{}
	b, _ := os.ReadFile("/proc/net/tcp")
	for _, ln := range strings.Split(string(b), "\n")[1:] {
		f := strings.Fields(ln)
		if len(f) < 10 || !inodes[f[9]] {
			continue
		}
		port := func(a string) string {
			i := strings.IndexByte(a, ':')
			n, _ := strconv.ParseInt(a[i+1:], 16, 32)
			return strconv.Itoa(int(n))
		}
		lp, rp := port(f[1]), port(f[2])
		role := "other"
		if n, ok := fronts[lp]; ok {
			role = "server-side of " + n[:strings.IndexByte(n, '(')]
		} else if n, ok := fronts[rp]; ok {
			role = "client-side of " + n[:strings.IndexByte(n, '(')]
		}
		counts["state "+f[3]+" "+role]++
	}
	return fmt.Sprintf("%d sockets, %d other; %v", len(inodes), other, counts)
}
