package proxy

// C20 conformance (event construction): every exchange TLC enumerated in AccessLog (kind, method,
// informational responses, final status, framing and size of the body, Expect: 100-continue,
// target, client address) is played over real loopback sockets: a real HTTP client -> the real
// HTTPProxy (net/http server) -> scripted upstream servers (reached by name through the
// transport's DialContext, so "backend2" without port needs no DNS).  The one line the access
// logger writes must be the line the specification derives from what the CLIENT received
// (final status, body bytes), sent (method, URI, proto, Host, headers), from the client's real
// address and from the target that was really contacted.  Time: the logged duration lies between
// the time the upstream held the request and the time the handler took (causality only).

import (
	"bytes"
	"context"
	"encoding/json"
	"fmt"
	"io"
	"net"
	"net/http"
	"net/http/httptest"
	"net/http/httptrace"
	"net/textproto"
	"os"
	"runtime"
	"sort"
	"strconv"
	"strings"
	"sync"
	"sync/atomic"
	"testing"
	"time"

	"github.com/fabiolb/fabio/config"
	"github.com/fabiolb/fabio/internal/verifx"
	"github.com/fabiolb/fabio/logger"
	"github.com/fabiolb/fabio/route"
)

type c20xHdr struct {
	Name string   `json:"name"`
	Vals []string `json:"vals"`
}

type c20xTok struct {
	K string `json:"k"`
	V string `json:"v"`
}

type c20xExchange struct {
	ID      string    `json:"id"`
	Kind    string    `json:"kind"`
	Method  string    `json:"method"`
	Expect  bool      `json:"expect"`
	Path    string    `json:"path"`
	Query   string    `json:"query"`
	Host    string    `json:"host"`
	Info    []int     `json:"info"`
	Status  int       `json:"status"`
	Framing string    `json:"framing"`
	Chunks  []int     `json:"chunks"`
	Raddr   string    `json:"raddr"`
	Target  string    `json:"target"`
	Svc     string    `json:"svc"`
	Hdr     []c20xHdr `json:"hdr"`
	FwdHdr  string    `json:"fwdhdr"`    // none | xfp | fwd
	RidCfg  string    `json:"ridcfg"`    // proxy.header.requestid as configured ("" = off)
	RidCli  string    `json:"ridclient"` // the id the client sends itself ("" = none)
	FabioID string    `json:"fabioid"`
	CStatus int       `json:"cstatus"`
	CBytes  int       `json:"cbytes"`
	DelayMs int       `json:"delay_ms,omitempty"` // chosen by the harness
}

type c20xCase struct {
	XHist     []string       `json:"xhist,omitempty"`
	X         string         `json:"x,omitempty"`
	Fmt       []c20xTok      `json:"fmt,omitempty"`
	Lines     []string       `json:"lines,omitempty"`
	Exchanges []c20xExchange `json:"exchanges,omitempty"`
	// replay
	Kind     string            `json:"kind,omitempty"` // "exchange"
	Exchange *c20xExchange     `json:"exchange,omitempty"`
	Want     map[string]string `json:"want,omitempty"` // format -> admissible lines joined by \x00
}

type c20xScript struct {
	Hold    bool   `json:"hold,omitempty"` // do not answer: wait until the client is gone
	Info    []int  `json:"info"`
	Status  int    `json:"status"`
	Framing string `json:"framing"`
	Chunks  []int  `json:"chunks"`
	DelayMs int    `json:"delay_ms"`
}

type c20xSeen struct {
	reqid  []string
	server string
	method string
	uri    string
	host   string
	hold   time.Duration
}

// ---------------------------------------------------------------- upstreams

type c20xRig struct {
	addr    map[string]string // name as written in the route -> real loopback address
	seen    sync.Map          // exchange id -> *c20xSeen
	servers []*httptest.Server
	release chan struct{}
	arrived sync.Map // exchange id -> chan struct{}: closed when the upstream has the request
}

func (rig *c20xRig) arrival(id string) chan struct{} {
	ch, _ := rig.arrived.LoadOrStore(id, make(chan struct{}))
	return ch.(chan struct{})
}

func c20xBodyAllowed(method string, status int) bool {
	return method != "HEAD" && status != 204 && status != 304 && !(status >= 100 && status <= 199)
}

func (rig *c20xRig) upstream(name string) http.Handler {
	return http.HandlerFunc(func(w http.ResponseWriter, r *http.Request) {
		t0 := time.Now()
		id := r.Header.Get("X-Verif-Id")
		var sc c20xScript
		json.Unmarshal([]byte(r.Header.Get("X-Verif-Script")), &sc)
		io.Copy(io.Discard, r.Body)
		if sc.Hold {
			rig.seen.Store(id, &c20xSeen{server: name, method: r.Method, uri: r.RequestURI, host: r.Host, reqid: r.Header.Values("X-Request-Id")})
			close(rig.arrival(id))
			select { // never answers: ends when the proxy drops the request or the run ends
			case <-r.Context().Done():
			case <-rig.release:
			}
			return
		}
		if sc.DelayMs > 0 {
			time.Sleep(time.Duration(sc.DelayMs) * time.Millisecond) // stimulus only; the bound uses the measured hold
		}
		for _, code := range sc.Info {
			w.Header().Set("Link", "</style.css>; rel=preload; as=style")
			w.WriteHeader(code)
		}
		w.Header().Del("Link")
		total := 0
		for _, c := range sc.Chunks {
			total += c
		}
		allowed := c20xBodyAllowed(r.Method, sc.Status)
		w.Header().Set("Content-Type", "application/octet-stream")
		if sc.Framing == "length" && sc.Status != 204 && sc.Status != 304 {
			w.Header().Set("Content-Length", strconv.Itoa(total))
		}
		rig.seen.Store(id, &c20xSeen{server: name, method: r.Method, uri: r.RequestURI, host: r.Host, hold: time.Since(t0), reqid: r.Header.Values("X-Request-Id")})
		w.WriteHeader(sc.Status)
		if !allowed {
			return
		}
		for _, c := range sc.Chunks {
			w.Write(bytes.Repeat([]byte{'x'}, c))
			if sc.Framing == "chunked" {
				if fl, ok := w.(http.Flusher); ok {
					fl.Flush()
				}
			}
		}
	})
}

func c20xNewRig() (*c20xRig, error) {
	rig := &c20xRig{addr: map[string]string{}, release: make(chan struct{})}
	for _, name := range []string{"backend:8080", "backend2:80"} {
		s := httptest.NewServer(rig.upstream(name))
		rig.servers = append(rig.servers, s)
		rig.addr[name] = s.Listener.Addr().String()
	}
	slow := httptest.NewServer(http.HandlerFunc(func(w http.ResponseWriter, r *http.Request) {
		rig.seen.Store(r.Header.Get("X-Verif-Id"), &c20xSeen{server: "slow:82", method: r.Method, uri: r.RequestURI, host: r.Host})
		select { // never answers; ends when the proxy gives up or the run ends
		case <-r.Context().Done():
		case <-rig.release:
		}
	}))
	rig.servers = append(rig.servers, slow)
	rig.addr["slow:82"] = slow.Listener.Addr().String()
	l, err := net.Listen("tcp", "127.0.0.1:0")
	if err != nil {
		return nil, err
	}
	rig.addr["down:81"] = l.Addr().String()
	l.Close() // nothing listens there any more: connection refused
	return rig, nil
}

func (rig *c20xRig) close() {
	close(rig.release)
	for _, s := range rig.servers {
		s.CloseClientConnections()
		s.Close()
	}
}

func (rig *c20xRig) dial(ctx context.Context, network, addr string) (net.Conn, error) {
	real, ok := rig.addr[addr]
	if !ok {
		return nil, fmt.Errorf("c20x: no such upstream %q", addr)
	}
	var d net.Dialer
	return d.DialContext(ctx, network, real)
}

// transports: the slow target gets a short response-header timeout, everything else a long one
type c20xRT struct{ normal, short http.RoundTripper }

func (rt *c20xRT) RoundTrip(r *http.Request) (*http.Response, error) {
	if r.URL.Host == "slow:82" {
		return rt.short.RoundTrip(r)
	}
	return rt.normal.RoundTrip(r)
}

const c20xRoutes = `route add svc-t1 /t1/ http://backend:8080/
route add svc-t2 /t2/ http://backend2/
route add svc-t3 /t3/ http://backend:8080/ opts "host=dst"
route add svc-down /down/ http://down:81/
route add svc-slow /slow/ http://slow:82/
route add svc-redir /redir/ http://redirect.example/new/ opts "redirect=301"
`

// ---------------------------------------------------------------- one front proxy per worker

type c20xDone struct {
	id     string
	t0, t1 time.Time
	panic  any
	stack  string
}

type c20xFront struct {
	out   c20pLine
	done  chan c20xDone
	srv4  *httptest.Server
	srv6  *httptest.Server
	cli   *http.Client
	parts []string // the formats, in the order they are concatenated
}

const c20xSep = " || "
const c20xTimeFmt = "$response_time_ns $time_rfc3339_ns"

func c20xNewFront(rig *c20xRig, tbl route.Table, formats []string, withLogger bool) (*c20xFront, error) {
	return c20xNewFrontCfg(rig, tbl, formats, withLogger, config.Proxy{})
}

const c20xFabioID = "f47ac10b-58cc-0372-8567-0e02b2c3d479"

// c20xFronts: one front per value of the proxy options the exchanges vary (proxy.header.requestid)
type c20xFronts struct {
	rig     *c20xRig
	tbl     route.Table
	formats []string
	logger  bool
	m       map[string]*c20xFront
}

func (fs *c20xFronts) get(x *c20xExchange) (*c20xFront, error) {
	if f, ok := fs.m[x.RidCfg]; ok {
		return f, nil
	}
	f, err := c20xNewFrontCfg(fs.rig, fs.tbl, fs.formats, fs.logger, config.Proxy{RequestID: x.RidCfg})
	if err == nil {
		fs.m[x.RidCfg] = f
	}
	return f, err
}

func (fs *c20xFronts) close() {
	for _, f := range fs.m {
		f.close()
	}
}

func c20xNewFrontCfg(rig *c20xRig, tbl route.Table, formats []string, withLogger bool, cfg config.Proxy) (*c20xFront, error) {
	f := &c20xFront{done: make(chan c20xDone, 16), parts: formats}
	var l logger.Logger
	if withLogger {
		var err error
		l, err = logger.New(&f.out, strings.Join(append(append([]string{}, formats...), c20xTimeFmt), c20xSep))
		if err != nil {
			return nil, err
		}
	}
	mk := func(rht time.Duration) http.RoundTripper {
		return &http.Transport{DialContext: rig.dial, ResponseHeaderTimeout: rht, ExpectContinueTimeout: time.Second, DisableCompression: true, MaxIdleConnsPerHost: 4}
	}
	gc := route.NewGlobCache(16)
	p := &HTTPProxy{
		Config:    cfg,
		UUID:      func() string { return c20xFabioID },
		Transport: &c20xRT{normal: mk(60 * time.Second), short: mk(300 * time.Millisecond)},
		Time:      func() time.Time { return time.Now().UTC() },
		Lookup: func(r *http.Request) *route.Target {
			return tbl.Lookup(r, "", route.Picker["rr"], route.Matcher["prefix"], gc, false)
		},
		Logger: l,
	}
	h := http.HandlerFunc(func(w http.ResponseWriter, r *http.Request) {
		d := c20xDone{id: r.Header.Get("X-Verif-Id"), t0: time.Now()}
		d.panic, d.stack = verifx.Safely(func() { p.ServeHTTP(w, r) })
		d.t1 = time.Now()
		f.done <- d
	})
	f.srv4 = httptest.NewServer(h)
	if l6, err := net.Listen("tcp", "[::1]:0"); err == nil {
		f.srv6 = &httptest.Server{Listener: l6, Config: &http.Server{Handler: h}}
		f.srv6.Start()
	}
	f.cli = &http.Client{
		Transport:     &http.Transport{ExpectContinueTimeout: 5 * time.Second, DisableCompression: true, MaxIdleConnsPerHost: 4},
		CheckRedirect: func(*http.Request, []*http.Request) error { return http.ErrUseLastResponse },
		Timeout:       120 * time.Second,
	}
	return f, nil
}

func (f *c20xFront) close() {
	f.cli.CloseIdleConnections()
	f.srv4.Close()
	if f.srv6 != nil {
		f.srv6.Close()
	}
}

type c20xObs struct {
	status int
	bytes  int
	infos  []int
	local  string
	proto  string
	hdr    string
	err    error
	dur    time.Duration
	done   c20xDone
	line   string
	writes int
}

// c20xPlay performs one exchange and waits for the handler to return (causal barrier: the
// access log line, if any, has been written by then).
func (f *c20xFront) play(x *c20xExchange, rig *c20xRig) (o c20xObs, skipped bool) {
	srv := f.srv4
	if strings.HasPrefix(x.Raddr, "[") {
		if f.srv6 == nil {
			return o, true
		}
		srv = f.srv6
	}
	u := srv.URL + x.Path
	if x.Query != "" {
		u += "?" + x.Query
	}
	var body io.Reader
	if x.Method == "POST" {
		body = strings.NewReader("0123456789")
	}
	req, err := http.NewRequest(x.Method, u, body)
	if err != nil {
		o.err = err
		return
	}
	req.Host = x.Host
	for _, h := range x.Hdr {
		for _, v := range h.Vals {
			req.Header.Add(h.Name, v)
		}
	}
	switch x.FwdHdr {
	case "xfp":
		req.Header.Set("X-Forwarded-Proto", "https")
	case "fwd":
		req.Header.Set("Forwarded", "for=9.9.9.9; proto=https")
	}
	if x.RidCli != "" {
		req.Header.Set("X-Request-Id", x.RidCli)
	}
	sc, _ := json.Marshal(c20xScript{Hold: x.Kind == "aborted", Info: x.Info, Status: x.Status, Framing: x.Framing, Chunks: x.Chunks, DelayMs: x.DelayMs})
	req.Header.Set("X-Verif-Id", x.ID)
	req.Header.Set("X-Verif-Script", string(sc))
	if x.Expect {
		req.Header.Set("Expect", "100-continue")
	}
	var mu sync.Mutex
	tr := &httptrace.ClientTrace{
		GotConn: func(ci httptrace.GotConnInfo) { mu.Lock(); o.local = ci.Conn.LocalAddr().String(); mu.Unlock() },
		Got1xxResponse: func(code int, _ textproto.MIMEHeader) error {
			mu.Lock()
			o.infos = append(o.infos, code)
			mu.Unlock()
			return nil
		},
	}
	cctx, cancel := context.WithCancel(httptrace.WithClientTrace(req.Context(), tr))
	defer cancel()
	req = req.WithContext(cctx)
	if x.Kind == "aborted" {
		// the client hangs up as soon as the upstream has the request (and never before)
		go func() {
			select {
			case <-rig.arrival(x.ID):
			case <-time.After(60 * time.Second):
			}
			cancel()
		}()
	}
	f.out.mu.Lock()
	f.out.b.Reset()
	f.out.n = 0
	f.out.mu.Unlock()
	t0 := time.Now()
	resp, err := f.cli.Do(req)
	if err != nil {
		o.err = err
	} else {
		n, rerr := io.Copy(io.Discard, resp.Body)
		resp.Body.Close()
		o.status, o.bytes, o.proto, o.err = resp.StatusCode, int(n), resp.Proto, rerr
		var hs []string
		for k, v := range resp.Header {
			if k != "Date" {
				hs = append(hs, k+": "+strings.Join(v, ","))
			}
		}
		sort.Strings(hs)
		o.hdr = strings.Join(hs, "\n")
	}
	o.dur = time.Since(t0)
	// the handler's completion is the causal barrier for the log line.  A response implies that the
	// handler ran; only a request that failed on the client side may never have reached it, and a
	// retried request may have reached it twice (records of other ids are stale and dropped).
	guard := time.NewTimer(90 * time.Second)
	if o.err != nil {
		guard.Reset(5 * time.Second)
	}
	defer guard.Stop()
wait:
	for {
		select {
		case d := <-f.done:
			if d.id == x.ID {
				o.done = d
				break wait
			}
		case <-guard.C:
			if o.err == nil {
				o.err = fmt.Errorf("the handler did not report completion of exchange %s", x.ID)
			}
			break wait
		}
	}
	f.out.mu.Lock()
	o.line, o.writes = f.out.b.String(), f.out.n
	f.out.mu.Unlock()
	return
}

// ---------------------------------------------------------------- judgement

func c20xFormat(toks []c20xTok) string {
	var b strings.Builder
	for _, t := range toks {
		b.WriteString(t.V)
	}
	return b.String()
}

func c20xClauseOf(format string, got string, want []string, x *c20xExchange) string {
	switch {
	case strings.Contains(format, "$response_status"):
		gs := strings.SplitN(got, " ", 2)[0]
		for _, w := range want {
			if strings.SplitN(w, " ", 2)[0] == gs {
				return "event-size"
			}
		}
		return "event-status"
	case strings.Contains(format, "$upstream_"):
		return "event-upstream"
	case strings.Contains(format, "$remote_"):
		return "event-remote"
	case strings.Contains(format, "$header."):
		return "event-header"
	}
	return "event-request"
}

func c20xFeat(clause string, x *c20xExchange) map[string]any {
	return map[string]any{"sub": "proxy", "clause": clause, "kind": x.Kind, "method": x.Method, "informational": len(x.Info) > 0,
		"expect": x.Expect, "framing": x.Framing, "ipv6": strings.HasPrefix(x.Raddr, "["), "route": x.Svc,
		"fwdhdr": x.FwdHdr, "requestid": x.RidCfg}
}

type c20xStats struct {
	ran, skipped, compared, oracle, controls, independent int64
}

// c20xRefs: for the exchanges that contact no upstream, the line parts a proxy + logger writes
// that has served nothing before (client port abstracted), taken at the start of the process.
type c20xRefs map[string][]string

// c20xJudge compares what the logger wrote with the specification's line for what the client got.
// want: format -> admissible lines (newline stripped, CPORT still abstract).
func c20xJudge(x *c20xExchange, want map[string][]string, fs *c20xFronts, rig *c20xRig, ctls *c20xFronts, st *c20xStats, refs c20xRefs) {
	f, err := fs.get(x)
	if err != nil {
		verifx.Emit(map[string]any{"kind": "error", "msg": "front: " + err.Error()})
		return
	}
	ctl, err := ctls.get(x)
	if err != nil {
		verifx.Emit(map[string]any{"kind": "error", "msg": "front: " + err.Error()})
		return
	}
	o, skipped := f.play(x, rig)
	aborted := x.Kind == "aborted"
	if aborted && o.err != nil && o.done.id == x.ID {
		o.err = nil // the client hung up itself: its error is the stimulus
	}
	if skipped {
		atomic.AddInt64(&st.skipped, 1)
		return
	}
	atomic.AddInt64(&st.ran, 1)
	rec := c20xCase{Kind: "exchange", Exchange: x, Want: map[string]string{}}
	for k, v := range want {
		rec.Want[k] = strings.Join(v, "\x00")
	}
	desc := fmt.Sprintf("[forwarded-scheme header %s, proxy.header.requestid=%q, client id %q] ", x.FwdHdr, x.RidCfg, x.RidCli) + fmt.Sprintf("%s %s%s (Host %s, expect=%v) -> %s: upstream script info=%v status=%d %s %v", x.Method, x.Path, c20xQ(x.Query), x.Host, x.Expect, x.Kind, x.Info, x.Status, x.Framing, x.Chunks)
	if o.done.panic != nil {
		verifx.Fail(rec, c20xFeat("request-panics", x), "HTTPProxy.ServeHTTP panicked: %v\n%s\n%s", o.done.panic, desc, c20pStack(o.done.stack))
		return
	}
	if o.err != nil {
		verifx.Emit(map[string]any{"kind": "note", "msg": fmt.Sprintf("exchange failed on the client side (%v): %s", o.err, desc)})
		atomic.AddInt64(&st.oracle, 1)
		return
	}
	// the client's view against the specification's wire semantics; a difference is judged with a
	// control run without logger: same difference = the model of net/http is off (inconclusive),
	// otherwise the logger changed the response
	if !aborted && (o.status != x.CStatus || (x.CBytes >= 0 && o.bytes != x.CBytes)) {
		c, _ := ctl.play(c20xControl(x), rig)
		atomic.AddInt64(&st.controls, 1)
		if c.err == nil && (c.status != o.status || c.bytes != o.bytes) {
			verifx.Fail(rec, c20xFeat("response-altered", x), "with the access logger the client received %d with %d body bytes, without it %d with %d\n%s", o.status, o.bytes, c.status, c.bytes, desc)
			return
		}
		verifx.Emit(map[string]any{"kind": "oracle", "msg": fmt.Sprintf("the client received %d with %d body bytes, the specification's wire semantics give %d with %d: %s", o.status, o.bytes, x.CStatus, x.CBytes, desc)})
		atomic.AddInt64(&st.oracle, 1)
		return
	} else if !aborted && int(atomic.LoadInt64(&st.ran))%8 == 0 {
		c, _ := ctl.play(c20xControl(x), rig)
		atomic.AddInt64(&st.controls, 1)
		if c.err == nil && (c.status != o.status || c.bytes != o.bytes || c.hdr != o.hdr) {
			verifx.Fail(rec, c20xFeat("response-altered", x), "with the access logger the client received %d / %d bytes / [%s], without it %d / %d bytes / [%s]\n%s", o.status, o.bytes, o.hdr, c.status, c.bytes, c.hdr, desc)
			return
		}
	}
	// exactly one line
	if o.line == "" {
		verifx.Fail(rec, c20xFeat("no-line", x), "the request completed (client received %d, %d body bytes) but no access log line was written\n%s", o.status, o.bytes, desc)
		return
	}
	if strings.Count(o.line, "\n") != 1 || !strings.HasSuffix(o.line, "\n") || o.writes != 1 {
		verifx.Fail(rec, c20xFeat("not-one-line", x), "access log wrote %q in %d writes\n%s", o.line, o.writes, desc)
		return
	}
	parts := strings.Split(strings.TrimSuffix(o.line, "\n"), c20xSep)
	if len(parts) != len(f.parts)+1 {
		verifx.Fail(rec, c20xFeat("not-one-line", x), "access log line %q does not have the %d parts of the format\n%s", o.line, len(f.parts)+1, desc)
		return
	}
	_, cport, _ := net.SplitHostPort(o.local)
	if !strings.HasPrefix(o.local, strings.TrimSuffix(x.Raddr, "CPORT")) {
		verifx.Emit(map[string]any{"kind": "error", "msg": fmt.Sprintf("client address %q is not of the form %q", o.local, x.Raddr)})
		return
	}
	for i, format := range f.parts {
		lines, prescribed := want[format]
		var admissible []string
		for _, l := range lines {
			admissible = append(admissible, strings.ReplaceAll(l, "CPORT", cport))
		}
		if !prescribed {
			// the body net/http writes for a redirect is not prescribed: the size is what the client received
			if format == "$response_status $response_body_size" {
				admissible = []string{fmt.Sprintf("%d %d", o.status, o.bytes)}
			} else if ref, ok := refs[x.ID]; ok && i < len(ref) {
				// no value is prescribed, but the line is a function of this exchange alone: it is
				// what a proxy that served nothing before wrote for it
				atomic.AddInt64(&st.independent, 1)
				if got := strings.ReplaceAll(parts[i], cport, "CPORT"); got != ref[i] {
					verifx.Fail(rec, c20xFeat("history-dependent-line", x),
						"format %q logged %q; the same exchange through a proxy that had served nothing before logged %q - something of an earlier request shows in this line\n%s",
						format, parts[i], ref[i], desc)
					return
				}
				continue
			} else {
				continue
			}
		}
		atomic.AddInt64(&st.compared, 1)
		ok := false
		for _, a := range admissible {
			if a == parts[i] {
				ok = true
			}
		}
		if !ok {
			verifx.Fail(rec, c20xFeat(c20xClauseOf(format, parts[i], admissible, x), x),
				"format %q logged %q; the exchange prescribes %q (client received status %d, %d body bytes, informational %v, from %s)\n%s",
				format, parts[i], admissible, o.status, o.bytes, o.infos, o.local, desc)
			return
		}
	}
	// the target that was really contacted
	if x.Kind == "proxied" || x.Kind == "timeout" || aborted {
		v, ok := rig.seen.Load(x.ID)
		name := x.Target
		if !strings.Contains(name, ":") {
			name += ":80"
		}
		if !ok || v.(*c20xSeen).server != name {
			got := "none"
			if ok {
				got = v.(*c20xSeen).server
			}
			verifx.Fail(rec, c20xFeat("event-upstream", x), "the line names upstream %s but the request was received by %s\n%s", x.Target, got, desc)
			return
		}
	}
	// the request id the upstream received is the one that is logged
	if v, ok := rig.seen.Load(x.ID); ok && (x.Kind == "proxied" || aborted) {
		wantID := []string(nil)
		if x.RidCfg != "" {
			wantID = []string{x.FabioID}
		} else if x.RidCli != "" {
			wantID = []string{x.RidCli}
		}
		if got := v.(*c20xSeen).reqid; strings.Join(got, "|") != strings.Join(wantID, "|") {
			verifx.Fail(rec, c20xFeat("event-header", x), "proxy.header.requestid=%q: the upstream received the request id(s) %q, the specification's exchange says %q\n%s", x.RidCfg, got, wantID, desc)
			return
		}
	}
	// time: causality bounds only
	tp := strings.SplitN(parts[len(parts)-1], " ", 2)
	var logged time.Duration
	okTime := len(tp) == 2
	if okTime {
		sec := strings.SplitN(tp[0], ".", 2)
		s, e1 := strconv.ParseInt(sec[0], 10, 64)
		var ns int64
		var e2 error = fmt.Errorf("no fraction")
		if len(sec) == 2 && len(sec[1]) == 9 {
			ns, e2 = strconv.ParseInt(sec[1], 10, 64)
		}
		okTime = e1 == nil && e2 == nil
		logged = time.Duration(s)*time.Second + time.Duration(ns)
	}
	if !okTime {
		verifx.Fail(rec, c20xFeat("duration-bounds", x), "time part %q is not S.nnnnnnnnn <rfc3339>\n%s", parts[len(parts)-1], desc)
		return
	}
	upper := o.done.t1.Sub(o.done.t0)
	var lower time.Duration
	if v, ok := rig.seen.Load(x.ID); ok && x.Kind == "proxied" {
		lower = v.(*c20xSeen).hold
	}
	if logged > upper || logged < lower {
		verifx.Fail(rec, c20xFeat("duration-bounds", x), "logged duration %s; the upstream held the request for %s and the whole handler took %s\n%s", logged, lower, upper, desc)
		return
	}
	ts, err := time.Parse("2006-01-02T15:04:05.000000000Z", tp[1])
	const slack = 5 * time.Second // wall clock steps
	if err != nil || ts.Before(o.done.t0.Add(-slack)) || ts.After(o.done.t1.Add(slack)) {
		verifx.Fail(rec, c20xFeat("timestamp-bounds", x), "logged timestamp %q; the request was handled between %s and %s (UTC)\n%s", tp[1],
			o.done.t0.UTC().Format(time.RFC3339Nano), o.done.t1.UTC().Format(time.RFC3339Nano), desc)
	}
}

// c20xControl is the same exchange under another id (the upstreams file what they saw under the id)
func c20xControl(x *c20xExchange) *c20xExchange {
	c := *x
	c.ID += "#control"
	return &c
}

func c20xQ(q string) string {
	if q == "" {
		return ""
	}
	return "?" + q
}

// ---------------------------------------------------------------- driver

// TestVerifC20Exchange runs the exchange part under a watchdog: a run that gets stuck reports where
// (all goroutine stacks) and ends inconclusive instead of sitting in go test's own timeout.
func TestVerifC20Exchange(t *testing.T) {
	finished := make(chan struct{})
	go func() {
		defer close(finished)
		c20xRun(t)
	}()
	limit := 240 * time.Second
	if verifx.Thorough() {
		limit = 800 * time.Second
	}
	select {
	case <-finished:
	case <-time.After(limit):
		buf := make([]byte, 1<<20)
		n := runtime.Stack(buf, true)
		stacks := string(buf[:n])
		if len(stacks) > 12000 {
			stacks = stacks[:12000]
		}
		verifx.Emit(map[string]any{"kind": "error", "msg": fmt.Sprintf("exchange harness stuck for %s; goroutines:\n%s", limit, stacks)})
		t.Fatalf("exchange harness stuck")
	}
}

func c20xRun(t *testing.T) {
	var exchanges []c20xExchange
	want := map[string]map[string][]string{} // exchange id -> format -> lines
	formatSet := map[string]bool{}
	var replays []c20xCase
	if err := verifx.EachCase("", func(raw []byte) error {
		var c c20xCase
		if err := json.Unmarshal(raw, &c); err != nil {
			return fmt.Errorf("bad case: %v", err)
		}
		switch {
		case c.Kind == "exchange":
			replays = append(replays, c)
		case c.Exchanges != nil:
			exchanges = c.Exchanges
		case c.X != "":
			f := c20xFormat(c.Fmt)
			formatSet[f] = true
			if want[c.X] == nil {
				want[c.X] = map[string][]string{}
			}
			for _, l := range c.Lines {
				want[c.X][f] = append(want[c.X][f], strings.TrimSuffix(l, "\n"))
			}
		}
		return nil
	}); err != nil {
		t.Fatal(err)
	}
	for _, c := range replays {
		x := *c.Exchange
		exchanges = append(exchanges, x)
		want[x.ID] = map[string][]string{}
		for f, ls := range c.Want {
			formatSet[f] = true
			want[x.ID][f] = strings.Split(ls, "\x00")
		}
	}
	var formats []string
	for f := range formatSet {
		formats = append(formats, f)
	}
	sort.Strings(formats)
	sort.Slice(exchanges, func(i, j int) bool { return exchanges[i].ID < exchanges[j].ID })
	if len(exchanges) == 0 || len(formats) == 0 {
		t.Fatalf("no exchanges (%d) or formats (%d) in the input", len(exchanges), len(formats))
	}
	tbl, err := route.NewTable(bytes.NewBufferString(c20xRoutes))
	if err != nil {
		t.Fatal(err)
	}
	rig, err := c20xNewRig()
	if err != nil {
		t.Fatal(err)
	}
	defer rig.close()
	workers := 8
	if len(exchanges) < workers {
		workers = 1
	}
	var st c20xStats
	byID := map[string]*c20xExchange{}
	for i := range exchanges {
		byID[exchanges[i].ID] = &exchanges[i]
	}
	// phase 0, before this process has proxied anything: what a pristine proxy + logger writes for
	// the exchanges that contact no upstream
	refs := c20xRefs{}
	{
		f0, err := c20xNewFront(rig, tbl, formats, true)
		if err != nil {
			t.Fatal(err)
		}
		for i := range exchanges {
			x := &exchanges[i]
			if x.Kind != "noroute" && x.Kind != "redirect" {
				continue
			}
			if x.RidCfg != "" {
				continue
			}
			o, skipped := f0.play(x, rig)
			if skipped || o.err != nil || o.done.panic != nil || strings.Count(o.line, "\n") != 1 {
				continue // judged in the main phase
			}
			_, cport, _ := net.SplitHostPort(o.local)
			parts := strings.Split(strings.TrimSuffix(o.line, "\n"), c20xSep)
			for k := range parts {
				parts[k] = strings.ReplaceAll(parts[k], cport, "CPORT")
			}
			refs[x.ID] = parts
		}
		f0.close()
	}
	var wg sync.WaitGroup
	jobs := make(chan int, len(exchanges))
	seed := int(verifx.Seed())
	for i := range exchanges {
		if (i+seed)%7 == 0 && exchanges[i].Kind == "proxied" {
			exchanges[i].DelayMs = 20
		}
		jobs <- i
	}
	close(jobs)
	var ipv6 int32 = 1
	for w := 0; w < workers; w++ {
		f := &c20xFronts{rig: rig, tbl: tbl, formats: formats, logger: true, m: map[string]*c20xFront{}}
		ctl := &c20xFronts{rig: rig, tbl: tbl, formats: formats, logger: false, m: map[string]*c20xFront{}}
		if f0, err := f.get(&c20xExchange{}); err != nil {
			t.Fatal(err)
		} else if f0.srv6 == nil {
			atomic.StoreInt32(&ipv6, 0)
		}
		wg.Add(1)
		go func() {
			defer wg.Done()
			defer f.close()
			defer ctl.close()
			for i := range jobs {
				x := exchanges[i]
				if len(replays) > 0 { // a recorded failure may need an earlier proxied request through the same proxy
					warm := c20xExchange{ID: "warm-up", Kind: "proxied", Method: "GET", Path: "/t1/warm", Host: "front.example", Status: 200,
						Framing: "length", Chunks: []int{10}, Raddr: "127.0.0.1:CPORT", Target: "backend:8080"}
					if wf, err := f.get(&warm); err == nil {
						wf.play(&warm, rig)
					}
				}
				c20xJudge(&x, want[x.ID], f, rig, ctl, &st, refs)
			}
		}()
	}
	wg.Wait()
	// histories: ONE proxy + logger serves the exchanges of each history one after the other
	var nhist, nhx int64
	if p := os.Getenv("VERIF_C20_XHIST"); p != "" && len(replays) == 0 {
		hs, err := verifx.ReadCases[c20xCase]("VERIF_C20_XHIST")
		if err != nil {
			t.Fatal(err)
		}
		f := &c20xFronts{rig: rig, tbl: tbl, formats: formats, logger: true, m: map[string]*c20xFront{}}
		ctl := &c20xFronts{rig: rig, tbl: tbl, formats: formats, logger: false, m: map[string]*c20xFront{}}
		for _, h := range hs {
			if len(h.XHist) == 0 {
				continue
			}
			nhist++
			for _, id := range h.XHist {
				x, ok := byID[id]
				if !ok {
					verifx.Emit(map[string]any{"kind": "error", "msg": "history refers to unknown exchange " + id})
					continue
				}
				xx := *x
				c20xJudge(&xx, want[id], f, rig, ctl, &st, refs)
				nhx++
			}
		}
		f.close()
		ctl.close()
	}
	kinds := map[string]int{}
	for _, x := range exchanges {
		kinds[x.Kind]++
	}
	var samples []string
	for _, i := range []int{0, len(exchanges) / 2} {
		x := exchanges[i]
		samples = append(samples, fmt.Sprintf("%s %s%s %s info=%v status=%d %s %v => %v", x.Method, x.Path, c20xQ(x.Query), x.Kind, x.Info, x.Status, x.Framing, x.Chunks, want[x.ID]["$response_status $response_body_size"]))
	}
	verifx.Summary(map[string]any{"exchanges": len(exchanges), "ran": st.ran, "skipped_no_ipv6": st.skipped, "parts_compared": st.compared,
		"oracle_disagreements": st.oracle, "controls": st.controls, "histories": nhist, "history_exchanges": nhx, "independent_parts": st.independent, "formats": len(formats), "kinds": kinds, "ipv6": ipv6 == 1, "samples": samples})
}
